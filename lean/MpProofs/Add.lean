/-
  MpProofs/Add.lean — `mpf_add` / `mpf_sub` are correctly rounded (all branches, including the
  far-apart-exponent perturbation shortcut, which is where defect D1 lived).
-/
import MpProofs.Arith

namespace Mp

theorem shl_cast (m k : ℕ) : ((m <<< k : ℕ) : ℚ) = (m : ℚ) * 2 ^ k := by
  rw [Nat.shiftLeft_eq]; push_cast; ring

theorem two_zpow_split (a : ℤ) (k : ℕ) : (2 : ℚ) ^ (a + k) = 2 ^ a * 2 ^ k := by
  rw [zpow_add₀ (by norm_num), zpow_natCast]

theorem signs_cases {a b : ℕ} (ha : a ≤ 1) (hb : b ≤ 1) :
    (a = 0 ∧ b = 0) ∨ (a = 0 ∧ b = 1) ∨ (a = 1 ∧ b = 0) ∨ (a = 1 ∧ b = 1) := by omega

/-- the two far branches without the shortcut: exact integer sum at the smaller exponent -/
theorem addFar_general {ssign tsign sman tman : ℕ} {sexp texp : ℤ} (hss : ssign ≤ 1) (hts : tsign ≤ 1)
    (hto : tman % 2 = 1) (hoff : sexp - texp > 0) {prec : ℤ} (hp : 0 ≤ prec) (rnd : Rnd) :
    RoundOK prec rnd ((-1 : ℚ) ^ ssign * ((sman : ℚ) * 2 ^ sexp) + (-1 : ℚ) ^ tsign * ((tman : ℚ) * 2 ^ texp))
      (if ssign = tsign then
        normalize1 ssign (tman + (sman <<< (sexp - texp).toNat)) texp
          (bitcount (tman + (sman <<< (sexp - texp).toNat)))
          (if prec ≠ 0 then prec else (bitcount (tman + (sman <<< (sexp - texp).toNat)) : ℤ)) rnd
      else
        normalize1
          (if (if ssign ≠ 0 then (tman : ℤ) - ((sman <<< (sexp - texp).toNat : ℕ) : ℤ)
                else ((sman <<< (sexp - texp).toNat : ℕ) : ℤ) - (tman : ℤ)) ≥ 0 then 0 else 1)
          (if ssign ≠ 0 then (tman : ℤ) - ((sman <<< (sexp - texp).toNat : ℕ) : ℤ)
                else ((sman <<< (sexp - texp).toNat : ℕ) : ℤ) - (tman : ℤ)).natAbs texp
          (bitcount (if ssign ≠ 0 then (tman : ℤ) - ((sman <<< (sexp - texp).toNat : ℕ) : ℤ)
                else ((sman <<< (sexp - texp).toNat : ℕ) : ℤ) - (tman : ℤ)).natAbs)
          (if prec ≠ 0 then prec
            else (bitcount (if ssign ≠ 0 then (tman : ℤ) - ((sman <<< (sexp - texp).toNat : ℕ) : ℤ)
                else ((sman <<< (sexp - texp).toNat : ℕ) : ℤ) - (tman : ℤ)).natAbs : ℤ)) rnd) := by
  obtain ⟨k, hk⟩ : ∃ k : ℕ, sexp - texp = k := ⟨(sexp - texp).toNat, by omega⟩
  have hkpos : 0 < k := by omega
  rw [hk, Int.toNat_natCast]
  have hsexp : sexp = texp + k := by omega
  have hshift : (sman : ℚ) * 2 ^ sexp = ((sman <<< k : ℕ) : ℚ) * 2 ^ texp := by
    rw [hsexp, two_zpow_split, shl_cast]; ring
  have heven : (sman <<< k) % 2 = 0 := by
    obtain ⟨j, rfl⟩ : ∃ j, k = j + 1 := ⟨k - 1, by omega⟩
    rw [Nat.shiftLeft_eq, pow_succ, ← mul_assoc]; exact Nat.mul_mod_left _ _
  generalize sman <<< k = A at hshift heven ⊢
  split
  · rename_i heq
    subst heq
    have hodd : (tman + A) % 2 = 1 := by omega
    have := normalize1_nat hss (Or.inl hodd) texp hp rnd
    convert this using 1
    rw [hshift]; push_cast; ring
  · rename_i hne
    set Z : ℤ := if ssign ≠ 0 then (tman : ℤ) - (A : ℤ) else (A : ℤ) - (tman : ℤ) with hZ
    have hodd : Z.natAbs % 2 = 1 := by
      rw [hZ]; split <;> omega
    have := normalize1_int hodd texp hp rnd
    convert this using 1
    rw [hshift, hZ]
    rcases signs_cases hss hts with ⟨rfl, rfl⟩ | ⟨rfl, rfl⟩ | ⟨rfl, rfl⟩ | ⟨rfl, rfl⟩
    · exact absurd rfl hne
    · simp; ring
    · simp; ring
    · exact absurd rfl hne

/-- the perturbation shortcut: `t` lies entirely below the last bit of `s` and more than `prec+4`
bits below its leading bit, so `s ± 2^(sexp-prec-4)` rounds like `s + t`. -/
theorem addFar_shortcut {ssign tsign sman tman : ℕ} {sexp texp : ℤ} (hss : ssign ≤ 1) (hts : tsign ≤ 1)
    (hso : sman % 2 = 1) (hto : tman % 2 = 1) {prec : ℤ} (hp : 0 < prec) (rnd : Rnd)
    (hdelta : (bitcount sman : ℤ) + sexp - bitcount tman - texp > prec + 4)
    (hbelow : sexp - texp ≥ bitcount tman) :
    RoundOK prec rnd ((-1 : ℚ) ^ ssign * ((sman : ℚ) * 2 ^ sexp) + (-1 : ℚ) ^ tsign * ((tman : ℚ) * 2 ^ texp))
      (normalize1 ssign
        (if tsign = ssign then (sman <<< (prec + 4).toNat) + 1 else (sman <<< (prec + 4).toNat) - 1)
        (sexp - (prec + 4))
        (bitcount (if tsign = ssign then (sman <<< (prec + 4).toNat) + 1 else (sman <<< (prec + 4).toNat) - 1))
        prec rnd) := by
  obtain ⟨p, rfl⟩ : ∃ p : ℕ, prec = p := ⟨prec.toNat, by omega⟩
  have hp' : 0 < p := by omega
  have hoffN : ((p : ℤ) + 4).toNat = p + 4 := by omega
  rw [hoffN]
  have hsman : sman ≠ 0 := by omega
  have htman : tman ≠ 0 := by omega
  have hsb := bitcount_pos hsman
  have htb := bitcount_pos htman
  -- gap between the top of t and the bottom of s
  obtain ⟨gap, hgap⟩ : ∃ gap : ℕ, sexp - texp - bitcount tman = gap := ⟨(sexp - texp - bitcount tman).toNat, by omega⟩
  set g := min gap (p + 3) with hg
  have hg1 : g ≤ gap := min_le_left _ _
  have hg2 : g ≤ p + 3 := min_le_right _ _
  have hSbits : p + 4 ≤ bitcount sman + g := by
    rcases le_total gap (p + 3) with h | h
    · have : g = gap := min_eq_left h
      omega
    · have : g = p + 3 := min_eq_right h
      omega
  -- powers of two
  have e1 : (2 : ℚ) ^ sexp = 2 ^ (sexp - (p + 4 : ℤ)) * 2 ^ (p + 4) := by
    rw [← zpow_natCast, ← zpow_add₀ (by norm_num)]; congr 1; push_cast; ring
  have e2 : (2 : ℚ) ^ sexp = 2 ^ (sexp - (g : ℤ)) * 2 ^ g := by
    rw [← zpow_natCast, ← zpow_add₀ (by norm_num)]; congr 1; ring
  have hlt_e_w : (2 : ℚ) ^ (sexp - (p + 4 : ℤ)) < 2 ^ (sexp - (g : ℤ)) :=
    zpow_lt_zpow_right₀ (by norm_num) (by omega)
  have htval : (tman : ℚ) * 2 ^ texp < 2 ^ (sexp - (g : ℤ)) := by
    have h1 : (tman : ℚ) < 2 ^ bitcount tman := by exact_mod_cast bitcount_lt tman
    have h2 : (tman : ℚ) * 2 ^ texp < 2 ^ bitcount tman * 2 ^ texp :=
      mul_lt_mul_of_pos_right h1 (two_zpow_pos texp)
    have h3 : (2 : ℚ) ^ bitcount tman * 2 ^ texp = 2 ^ ((bitcount tman : ℤ) + texp) := by
      rw [zpow_add₀ (by norm_num), zpow_natCast]
    have h4 : (2 : ℚ) ^ ((bitcount tman : ℤ) + texp) ≤ 2 ^ (sexp - (g : ℤ)) :=
      zpow_le_zpow_right₀ (by norm_num) (by omega)
    linarith
  have htpos : (0 : ℚ) < (tman : ℚ) * 2 ^ texp := by
    have : (0 : ℚ) < tman := by exact_mod_cast Nat.pos_of_ne_zero htman
    have := two_zpow_pos (K := ℚ) texp
    positivity
  have hepos := two_zpow_pos (K := ℚ) (sexp - (p + 4 : ℤ))
  have hwpos := two_zpow_pos (K := ℚ) (sexp - (g : ℤ))
  have hshl : ((sman <<< (p + 4) : ℕ) : ℚ) = (sman : ℚ) * 2 ^ (p + 4) := shl_cast _ _
  have hshl_pos : 2 ≤ sman <<< (p + 4) := by
    rw [Nat.shiftLeft_eq]
    have : 2 ^ 1 ≤ 2 ^ (p + 4) := Nat.pow_le_pow_right (by norm_num) (by omega)
    calc 2 = 1 * 2 ^ 1 := by norm_num
      _ ≤ sman * 2 ^ (p + 4) := Nat.mul_le_mul (by omega) this
  have hshl_even : (sman <<< (p + 4)) % 2 = 0 := by
    rw [Nat.shiftLeft_eq, show p + 4 = (p + 3) + 1 from rfl, pow_succ, ← mul_assoc]; exact Nat.mul_mod_left _ _
  have hshl_big : 2 ^ (p + 4) ≤ sman <<< (p + 4) := by
    rw [Nat.shiftLeft_eq]; exact Nat.le_mul_of_pos_left _ (by omega)
  -- the big mantissa of the fine cell
  have hSg : 2 ^ (p + 3) ≤ sman * 2 ^ g := by
    have h1 := bitcount_le hsman
    calc 2 ^ (p + 3) ≤ 2 ^ (bitcount sman - 1 + g) := Nat.pow_le_pow_right (by norm_num) (by omega)
      _ = 2 ^ (bitcount sman - 1) * 2 ^ g := pow_add _ _ _
      _ ≤ sman * 2 ^ g := Nat.mul_le_mul_right _ h1
  have hpp : 2 ^ p + 1 ≤ 2 ^ (p + 3) := by
    have : 2 ^ (p + 3) = 2 ^ p * 8 := by rw [pow_add]; norm_num
    have := Nat.two_pow_pos p
    omega
  have hScast : (((sman * 2 ^ g : ℕ) : ℚ)) * 2 ^ (sexp - (g : ℤ)) = (sman : ℚ) * 2 ^ sexp := by
    rw [e2]; push_cast; ring
  by_cases hsame : tsign = ssign
  · -- addition of magnitudes
    subst hsame
    simp only [if_true]
    set M := (sman <<< (p + 4)) + 1 with hM
    have hModd : M % 2 = 1 := by omega
    have hMbits : p + 3 < bitcount M := lt_bitcount_of_le (by
      have : 2 ^ (p + 4) = 2 ^ (p + 3) * 2 := pow_succ 2 (p + 3)
      omega)
    rw [normalize1_eq_normalize _ hModd]
    set X : ℚ := (sman : ℚ) * 2 ^ sexp + (tman : ℚ) * 2 ^ texp with hX
    have hYval : (M : ℚ) * 2 ^ (sexp - (p + 4 : ℤ)) = (sman : ℚ) * 2 ^ sexp + 2 ^ (sexp - (p + 4 : ℤ)) := by
      rw [hM]; push_cast; rw [hshl, e1]; ring
    obtain ⟨h1, h2, h3⟩ := normalize_round_gen (K := ℚ) hss M (sexp - (p + 4 : ℤ)) hp rnd X
      (fun h => by omega)
      (fun n hn hbc => by
        rw [Int.toNat_natCast] at hbc ⊢
        apply cellLike_of_cell hp' hn hbc (sexp - (p + 4 : ℤ)) (S := sman * 2 ^ g) (w := sexp - (g : ℤ))
          (by omega)
        · rw [hScast, hYval]; linarith
        · rw [add_mul, one_mul, hScast, hYval]; linarith
        · rw [hScast, hX]; linarith
        · rw [add_mul, one_mul, hScast, hX]; linarith)
    refine ⟨h1, fun h => by omega, fun _ => ⟨?_, h2⟩⟩
    have hx : (-1 : ℚ) ^ tsign * X
        = (-1 : ℚ) ^ tsign * ((sman : ℚ) * 2 ^ sexp) + (-1 : ℚ) ^ tsign * ((tman : ℚ) * 2 ^ texp) := by
      rw [hX]; ring
    rw [← hx]; exact h3
  · -- subtraction of magnitudes
    simp only [hsame, if_false]
    set M := (sman <<< (p + 4)) - 1 with hM
    have hModd : M % 2 = 1 := by omega
    have hMbits : p + 3 < bitcount M := lt_bitcount_of_le (by
      have : 2 ^ (p + 4) = 2 ^ (p + 3) * 2 := pow_succ 2 (p + 3)
      have := Nat.two_pow_pos (p + 3)
      omega)
    rw [normalize1_eq_normalize _ hModd]
    set X : ℚ := (sman : ℚ) * 2 ^ sexp - (tman : ℚ) * 2 ^ texp with hX
    have hMcast : (M : ℚ) = (sman : ℚ) * 2 ^ (p + 4) - 1 := by
      rw [hM, Nat.cast_sub (by omega), hshl]; norm_num
    have hYval : (M : ℚ) * 2 ^ (sexp - (p + 4 : ℤ)) = (sman : ℚ) * 2 ^ sexp - 2 ^ (sexp - (p + 4 : ℤ)) := by
      rw [hMcast, e1]; ring
    have hS1 : 1 ≤ sman * 2 ^ g := by have := Nat.two_pow_pos (p + 3); omega
    have hScast' : (((sman * 2 ^ g - 1 : ℕ) : ℚ) + 1) * 2 ^ (sexp - (g : ℤ)) = (sman : ℚ) * 2 ^ sexp := by
      rw [Nat.cast_sub hS1]; rw [← hScast]; push_cast; ring
    have hScast'' : (((sman * 2 ^ g - 1 : ℕ) : ℚ)) * 2 ^ (sexp - (g : ℤ))
        = (sman : ℚ) * 2 ^ sexp - 2 ^ (sexp - (g : ℤ)) := by
      rw [← hScast']; ring
    obtain ⟨h1, h2, h3⟩ := normalize_round_gen (K := ℚ) hss M (sexp - (p + 4 : ℤ)) hp rnd X
      (fun h => by omega)
      (fun n hn hbc => by
        rw [Int.toNat_natCast] at hbc ⊢
        apply cellLike_of_cell hp' hn hbc (sexp - (p + 4 : ℤ)) (S := sman * 2 ^ g - 1) (w := sexp - (g : ℤ))
          (by omega)
        · rw [hScast'', hYval]; linarith
        · rw [hScast', hYval]; linarith
        · rw [hScast'', hX]; linarith
        · rw [hScast', hX]; linarith)
    refine ⟨h1, fun h => by omega, fun _ => ⟨?_, h2⟩⟩
    have hx : (-1 : ℚ) ^ ssign * X
        = (-1 : ℚ) ^ ssign * ((sman : ℚ) * 2 ^ sexp) + (-1 : ℚ) ^ tsign * ((tman : ℚ) * 2 ^ texp) := by
      rw [hX]
      rcases signs_cases hss hts with ⟨rfl, rfl⟩ | ⟨rfl, rfl⟩ | ⟨rfl, rfl⟩ | ⟨rfl, rfl⟩
      · exact absurd rfl hsame
      · norm_num; ring
      · norm_num; ring
      · exact absurd rfl hsame
    rw [← hx]; exact h3

theorem addFar_spec {ssign tsign sman tman : ℕ} {sexp texp : ℤ} (hss : ssign ≤ 1) (hts : tsign ≤ 1)
    (hso : sman % 2 = 1) (hto : tman % 2 = 1) (hoff : sexp - texp > 0) {prec : ℤ} (hp : 0 ≤ prec) (rnd : Rnd) :
    RoundOK prec rnd ((-1 : ℚ) ^ ssign * ((sman : ℚ) * 2 ^ sexp) + (-1 : ℚ) ^ tsign * ((tman : ℚ) * 2 ^ texp))
      (addFar ssign sman sexp (bitcount sman) tsign tman texp (bitcount tman) prec rnd) := by
  unfold addFar
  dsimp only
  split
  · rename_i hc
    obtain ⟨_, hp0, hdelta, hbelow⟩ := hc
    exact addFar_shortcut hss hts hso hto (by omega) rnd hdelta hbelow
  · exact addFar_general hss hts hto hoff hp rnd

/-- equal exponents: plain integer addition of the signed mantissas -/
theorem addEq_spec {ssign tsign sman tman : ℕ} {e : ℤ} (hss : ssign ≤ 1) (hts : tsign ≤ 1)
    (hsm : sman ≠ 0) (htm : tman ≠ 0) {prec : ℤ} (hp : 0 ≤ prec) (rnd : Rnd) :
    RoundOK prec rnd ((-1 : ℚ) ^ ssign * ((sman : ℚ) * 2 ^ e) + (-1 : ℚ) ^ tsign * ((tman : ℚ) * 2 ^ e))
      (normalize
        (if ssign = tsign then ssign
          else if (if ssign = tsign then (tman : ℤ) + sman
                    else if ssign ≠ 0 then (tman : ℤ) - sman else (sman : ℤ) - tman) ≥ 0 then 0 else 1)
        (if ssign = tsign then (tman : ℤ) + sman
          else if ssign ≠ 0 then (tman : ℤ) - sman else (sman : ℤ) - tman).natAbs e
        (bitcount (if ssign = tsign then (tman : ℤ) + sman
          else if ssign ≠ 0 then (tman : ℤ) - sman else (sman : ℤ) - tman).natAbs)
        (if prec ≠ 0 then prec
          else (bitcount (if ssign = tsign then (tman : ℤ) + sman
            else if ssign ≠ 0 then (tman : ℤ) - sman else (sman : ℤ) - tman).natAbs : ℤ)) rnd) := by
  rcases signs_cases hss hts with ⟨rfl, rfl⟩ | ⟨rfl, rfl⟩ | ⟨rfl, rfl⟩ | ⟨rfl, rfl⟩
  · have h := normalize_int ((tman : ℤ) + sman) e hp rnd
    have hpos : ((tman : ℤ) + sman ≥ 0) := by omega
    simp only [hpos, if_true] at h
    simp only [if_true]
    convert h using 1
    push_cast; ring
  · have h := normalize_int ((sman : ℤ) - tman) e hp rnd
    simp only [show ¬ (0 = 1) by decide, if_false, ne_eq, not_true_eq_false]
    convert h using 1
    push_cast; ring
  · have h := normalize_int ((tman : ℤ) - sman) e hp rnd
    simp only [show ¬ (1 = 0) by decide, if_false, ne_eq, not_false_eq_true, if_true]
    convert h using 1
    push_cast; ring
  · have h := normalize_int (-((tman : ℤ) + sman)) e hp rnd
    have hneg : ¬ (-((tman : ℤ) + sman) ≥ 0) := by omega
    have habs : (-((tman : ℤ) + sman)).natAbs = ((tman : ℤ) + sman).natAbs := Int.natAbs_neg _
    simp only [hneg, if_false, habs] at h
    simp only [if_true]
    convert h using 1
    push_cast; ring

theorem val_canon {s : Mpf} (hsg : s.sign ≤ 1) : val s = (-1 : ℚ) ^ s.sign * ((s.man : ℚ) * 2 ^ s.exp) :=
  val_def s

theorem tsign_val (t : Mpf) (hts : t.sign ≤ 1) (sub : Bool) :
    (-1 : ℚ) ^ (if sub then (if t.sign = 0 then 1 else 0) else t.sign) * ((t.man : ℚ) * 2 ^ t.exp)
      = if sub then -val t else val t := by
  rw [val_def t]
  have h : t.sign = 0 ∨ t.sign = 1 := by omega
  cases sub <;> rcases h with h | h <;> simp [h]

/-- **addition and subtraction are correctly rounded** for all finite canonical operands, every
precision (`0` = exact) and all five rounding modes. -/
theorem mpf_add_spec {s t : Mpf} (hs : CanonFin s) (ht : CanonFin t) {prec : ℤ} (hp : 0 ≤ prec)
    (rnd : Rnd) (sub : Bool) :
    RoundOK prec rnd (if sub then val s - val t else val s + val t) (mpf_add s t prec rnd sub) := by
  unfold mpf_add
  set tsign := (if sub then (if t.sign = 0 then 1 else 0) else t.sign) with htsign
  rcases hs.cases with rfl | ⟨hsm, hss, hso, hsb⟩
  · -- s = 0
    rcases ht.cases with rfl | ⟨htm, hts, hto, htb⟩
    · have : (if sub then mpf_neg fzero else fzero) = fzero := by cases sub <;> simp [mpf_neg, fzero]
      simp only [fzero, ne_eq, not_true_eq_false, false_and, if_false, if_true] at this ⊢
      simp only [this]
      have hv : val (⟨0, 0, 0, 0⟩ : Mpf) = 0 := val_fzero
      rw [hv]; simp only [sub_self, add_zero, ite_self]
      exact roundOK_fzero hp rnd
    · have h0 : fzero.man = 0 := rfl
      have h1 : fzero.exp = 0 := rfl
      simp only [h0, h1, ne_eq, not_true_eq_false, false_and, if_false, if_true, htm, not_false_eq_true]
      have htsle : tsign ≤ 1 := by
        rw [htsign]; cases sub
        · simpa using hts
        · simp only [if_true]; split <;> omega
      have hn := normalize1_nat htsle (Or.inl hto) t.exp hp rnd
      rw [htb]
      convert hn using 1
      rw [val_fzero, htsign, tsign_val t hts sub]
      cases sub <;> simp
  · rcases ht.cases with rfl | ⟨htm, hts, hto, htb⟩
    · -- t = 0
      have h0 : fzero.man = 0 := rfl
      have hneg : (if sub then mpf_neg fzero else fzero) = fzero := by cases sub <;> simp [mpf_neg, fzero]
      simp only [h0, ne_eq, not_true_eq_false, and_false, if_false, hsm, hneg]
      have h1 : fzero.exp = 0 := rfl
      simp only [h1, not_true_eq_false, if_false]
      have := normalize1_nat hss (Or.inl hso) s.exp hp rnd
      rw [hsb]
      convert this using 1
      rw [val_fzero, val_def s]; cases sub <;> simp
    · -- both nonzero
      have htsle : tsign ≤ 1 := by
        rw [htsign]; cases sub
        · simpa using hts
        · simp only [if_true]; split <;> omega
      have hval : (if sub then val s - val t else val s + val t)
          = (-1 : ℚ) ^ s.sign * ((s.man : ℚ) * 2 ^ s.exp) + (-1 : ℚ) ^ tsign * ((t.man : ℚ) * 2 ^ t.exp) := by
        rw [htsign, tsign_val t hts sub, val_def s]
        cases sub <;> simp <;> ring
      rw [hval]
      simp only [ne_eq, hsm, htm, not_false_eq_true, and_self, if_true, hsb, htb]
      split
      · rename_i hoff
        exact addFar_spec hss htsle hso hto hoff hp rnd
      · split
        · rename_i hoff
          have := addFar_spec htsle hss hto hso (sexp := t.exp) (texp := s.exp) (by omega) hp rnd
          rw [add_comm]; exact this
        · rename_i h1 h2
          have he : s.exp = t.exp := by omega
          rw [he]
          exact addEq_spec hss htsle hsm htm hp rnd

theorem mpf_sub_spec {s t : Mpf} (hs : CanonFin s) (ht : CanonFin t) {prec : ℤ} (hp : 0 ≤ prec) (rnd : Rnd) :
    RoundOK prec rnd (val s - val t) (mpf_sub s t prec rnd) := by
  have := mpf_add_spec hs ht hp rnd true
  simpa [mpf_sub] using this

end Mp
