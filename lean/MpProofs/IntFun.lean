/-
  MpProofs/IntFun.lean — helper lemmas and specification vocabulary for property C25
  (integer-valued functions of libintmath.py): dictionaries, `ifac`, `ifac2`, `ifib`, `gcd`.
-/
import MpModel.IntFun
import Mathlib.Data.Nat.Factorial.Basic
import Mathlib.Data.Nat.Factorial.DoubleFactorial
import Mathlib.Data.Nat.Fib.Basic
import Mathlib.Data.Int.GCD
import Mathlib.Tactic.Ring
import Mathlib.Tactic.Linarith
import Mathlib.Tactic.NormNum
import Mathlib.Tactic.Zify

namespace Mp

open Nat

/-! ## dictionaries -/

theorem dget_dset (d : IDict) (k v k' : Int) :
    dget (dset d k v) k' = if k = k' then some v else dget d k' := by
  induction d with
  | nil => simp [dset, dget]
  | cons h t ih =>
    obtain ⟨a, b⟩ := h
    by_cases hak : a = k
    · subst hak; by_cases h2 : a = k' <;> simp [dset, dget, h2]
    · by_cases h2 : a = k'
      · subst h2
        have : ¬ k = a := fun h => hak h.symm
        simp [dset, dget, hak, this]
      · simp [dset, dget, hak, h2, ih]

theorem dget_append_single (d : IDict) (k v x : Int) :
    dget (d ++ [(k, v)]) x = match dget d x with
      | some w => some w
      | none => if k = x then some v else none := by
  induction d with
  | nil => simp [dget]
  | cons h t ih =>
    obtain ⟨a, b⟩ := h
    by_cases h2 : a = x <;> simp [dget, h2, ih]

theorem dset_of_dget_none (d : IDict) (k v : Int) (h : dget d k = none) :
    dset d k v = d ++ [(k, v)] := by
  induction d with
  | nil => simp [dset]
  | cons hd t ih =>
    obtain ⟨a, b⟩ := hd
    by_cases h2 : a = k
    · simp [dget, h2] at h
    · simp only [dget, h2, if_false] at h
      simp [dset, h2, ih h]

theorem dmaxKey_append_single (d : IDict) (k v : Int) (h : ∀ x ∈ d, x.1 < k) :
    dmaxKey (d ++ [(k, v)]) = some k := by
  induction d with
  | nil => simp [dmaxKey]
  | cons hd t ih =>
    obtain ⟨a, b⟩ := hd
    have h1 : a < k := h (a, b) (by simp)
    have h2 := ih (fun x hx => h x (by simp [hx]))
    simp only [List.cons_append, dmaxKey, h2]
    rw [if_neg (by omega)]

/-! ## ifac -/

/-- the memo holding exactly the entries `0 ↦ 0!, …, K-1 ↦ (K-1)!` in insertion order -/
def facTable (K : Nat) : IDict := (List.range K).map (fun (i : Nat) => ((i : Int), ((Nat.factorial i : Nat) : Int)))

theorem facTable_succ (K : Nat) : facTable (K + 1) = facTable K ++ [((K : Int), ((Nat.factorial K : Nat) : Int))] := by
  simp [facTable, List.range_succ]

theorem dlen_facTable (K : Nat) : dlen (facTable K) = K := by simp [dlen, facTable]

theorem dget_facTable (K : Nat) (x : Int) :
    dget (facTable K) x = if 0 ≤ x ∧ x < K then some ((Nat.factorial x.toNat : Nat) : Int) else none := by
  induction K with
  | zero =>
    have : ¬ (0 ≤ x ∧ x < 0) := by omega
    simp [facTable, dget, this]
  | succ K ih =>
    rw [facTable_succ, dget_append_single, ih]
    by_cases h : 0 ≤ x ∧ x < K
    · have h' : 0 ≤ x ∧ x < (K : Int) + 1 := by omega
      simp [h, h']
    · by_cases h2 : (K : Int) = x
      · have h' : 0 ≤ x ∧ x < (K : Int) + 1 := by omega
        subst h2
        simp
      · have h' : ¬ (0 ≤ x ∧ x < (K : Int) + 1) := by omega
        simp [h, h', h2]

theorem dset_facTable (K : Nat) : dset (facTable K) K ((Nat.factorial K : Nat) : Int) = facTable (K + 1) := by
  rw [facTable_succ]
  apply dset_of_dget_none
  rw [dget_facTable]
  simp

/-- the invariant of the factorial memo: it is `facTable K` for some `2 ≤ K ≤ MAX+1` -/
def FacInv (memo : IDict) : Prop := ∃ K : Nat, 2 ≤ K ∧ K ≤ 1001 ∧ memo = facTable K

theorem facInv_init : FacInv ifacMemo0 := ⟨2, by omega, by omega, by simp [ifacMemo0, facTable, List.range_succ]⟩

theorem ifacLoop_spec (fuel k : Nat) (n : Int) (hk : 1 ≤ k) (hf : fuel = (n + 1 - k).toNat) :
    ifacLoop fuel k ((Nat.factorial (k - 1) : Nat) : Int) n (facTable (min k 1001))
      = (((Nat.factorial (k - 1 + fuel) : Nat) : Int), facTable (min (k + fuel) 1001)) := by
  induction fuel generalizing k with
  | zero => simp [ifacLoop]
  | succ fuel ih =>
    have hkn : (k : Int) ≤ n := by omega
    have hp : ((Nat.factorial (k - 1) : Nat) : Int) * (k : Int) = ((Nat.factorial ((k + 1) - 1) : Nat) : Int) := by
      obtain ⟨j, rfl⟩ : ∃ j, k = j + 1 := ⟨k - 1, by omega⟩
      simp only [Nat.add_sub_cancel]
      rw [Nat.factorial_succ]; push_cast; ring
    have hm : (if (k : Int) ≤ MAX_FACTORIAL_CACHE
        then dset (facTable (min k 1001)) k (((Nat.factorial (k - 1) : Nat) : Int) * (k : Int))
        else facTable (min k 1001)) = facTable (min (k + 1) 1001) := by
      by_cases h : (k : Int) ≤ MAX_FACTORIAL_CACHE
      · have h' : k ≤ 1000 := by simp [MAX_FACTORIAL_CACHE] at h; omega
        rw [if_pos h, hp, Nat.min_eq_left (by omega), Nat.min_eq_left (by omega)]
        simpa using dset_facTable k
      · have h' : 1001 ≤ k := by simp [MAX_FACTORIAL_CACHE] at h; omega
        rw [if_neg h, Nat.min_eq_right (by omega), Nat.min_eq_right (by omega)]
    have := ih (k + 1) (by omega) (by push_cast; omega)
    simp only [ifacLoop, hkn, if_true]
    rw [hm, hp]
    have e : ((k : Int) + 1) = ((k + 1 : Nat) : Int) := by push_cast; rfl
    rw [e, this]
    have e1 : k + 1 - 1 + fuel = k - 1 + (fuel + 1) := by omega
    have e2 : k + 1 + fuel = k + (fuel + 1) := by omega
    rw [e1, e2]

/-- `ifac` on a memo satisfying the invariant: total, correct for `n ≥ 0`, and for `n < 0`
(outside the documented domain) it returns `(len(memo)-1)!`, a history-dependent value. -/
theorem ifac_of_inv (n : Int) (memo : IDict) (h : FacInv memo) :
    ∃ memo', ifac n memo = .ok ((if 0 ≤ n then ((Nat.factorial n.toNat : Nat) : Int)
        else ((Nat.factorial (dlen memo - 1).toNat : Nat) : Int)), memo') ∧ FacInv memo' := by
  obtain ⟨K, hK2, hK, rfl⟩ := h
  unfold ifac dgetTruthy
  rw [dget_facTable]
  by_cases hin : 0 ≤ n ∧ n < K
  · have hne : ((Nat.factorial n.toNat : Nat) : Int) ≠ 0 := by
      exact_mod_cast (Nat.factorial_pos _).ne'
    refine ⟨facTable K, ?_, ⟨K, hK2, hK, rfl⟩⟩
    rw [if_pos hin]
    simp only [ne_eq, hne, not_false_eq_true, if_true, hin.1]
  · simp only [hin, if_false]
    rw [dlen_facTable, dget_facTable]
    have h1 : (0 : Int) ≤ (K : Int) - 1 ∧ (K : Int) - 1 < K := by omega
    simp only [h1, and_self, if_true]
    have hk1 : ((K : Int) - 1).toNat = K - 1 := by omega
    rw [hk1]
    have hmin : facTable K = facTable (min K 1001) := by rw [Nat.min_eq_left hK]
    rw [hmin, ifacLoop_spec _ K n (by omega) rfl]
    refine ⟨_, ?_, ⟨min (K + (n + 1 - K).toNat) 1001, by omega, by omega, rfl⟩⟩
    by_cases hn : 0 ≤ n
    · have : K - 1 + (n + 1 - (K : Int)).toNat = n.toNat := by omega
      rw [this, if_pos hn]
    · have : K - 1 + (n + 1 - (K : Int)).toNat = K - 1 := by omega
      rw [this, if_neg hn]

/-! ## ifac2 -/

/-- the memo of parity `par` holding `par ↦ par‼, 2+par ↦ (2+par)‼, …` (K entries) in insertion order -/
def fac2Table (par K : Nat) : IDict :=
  (List.range K).map (fun (i : Nat) => (((2 * i + par : Nat) : Int), ((Nat.doubleFactorial (2 * i + par) : Nat) : Int)))

/-- largest number of entries of the parity-`par` memo: keys `2i+par ≤ 1000` -/
def fac2Cap (par : Nat) : Nat := (1000 - par) / 2 + 1

theorem fac2Table_succ (par K : Nat) : fac2Table par (K + 1) = fac2Table par K ++
    [(((2 * K + par : Nat) : Int), ((Nat.doubleFactorial (2 * K + par) : Nat) : Int))] := by
  simp [fac2Table, List.range_succ]

theorem dget_fac2Table (par K : Nat) (hp : par < 2) (x : Int) :
    dget (fac2Table par K) x = if 0 ≤ x ∧ x < 2 * K + par ∧ x % 2 = par
      then some ((Nat.doubleFactorial x.toNat : Nat) : Int) else none := by
  induction K with
  | zero =>
    have : ¬ (0 ≤ x ∧ x < 2 * ((0 : Nat) : Int) + par ∧ x % 2 = par) := by omega
    simp only [this, if_false]; simp [fac2Table, dget]
  | succ K ih =>
    rw [fac2Table_succ, dget_append_single, ih]
    by_cases h : 0 ≤ x ∧ x < 2 * K + par ∧ x % 2 = par
    · have h' : 0 ≤ x ∧ x < 2 * ((K + 1 : Nat) : Int) + par ∧ x % 2 = par := by omega
      rw [if_pos h, if_pos h']
    · by_cases h2 : ((2 * K + par : Nat) : Int) = x
      · have h' : 0 ≤ x ∧ x < 2 * ((K + 1 : Nat) : Int) + par ∧ x % 2 = par := by omega
        rw [if_neg h, if_pos h']
        subst h2
        simp only [Int.toNat_natCast, if_true]
      · have h' : ¬ (0 ≤ x ∧ x < 2 * ((K + 1 : Nat) : Int) + par ∧ x % 2 = par) := by omega
        rw [if_neg h, if_neg h']
        simp only [h2, if_false]

theorem dset_fac2Table (par K : Nat) (hp : par < 2) :
    dset (fac2Table par K) ((2 * K + par : Nat) : Int) ((Nat.doubleFactorial (2 * K + par) : Nat) : Int)
      = fac2Table par (K + 1) := by
  rw [fac2Table_succ]
  apply dset_of_dget_none
  rw [dget_fac2Table par K hp]
  have : ¬ (0 ≤ ((2 * K + par : Nat) : Int) ∧ ((2 * K + par : Nat) : Int) < 2 * K + par ∧
      ((2 * K + par : Nat) : Int) % 2 = par) := by omega
  rw [if_neg this]

theorem dmaxKey_fac2Table (par K : Nat) : dmaxKey (fac2Table par (K + 1)) = some ((2 * K + par : Nat) : Int) := by
  rw [fac2Table_succ]
  apply dmaxKey_append_single
  intro x hx
  simp only [fac2Table, List.mem_map, List.mem_range] at hx
  obtain ⟨i, hi, rfl⟩ := hx
  simp only
  omega

/-- invariant of `memo_pair`: the even and the odd memo are complete tables up to their largest key -/
def Fac2Inv (pair : IDict × IDict) : Prop :=
  ∃ Ke Ko : Nat, 1 ≤ Ke ∧ Ke ≤ fac2Cap 0 ∧ 1 ≤ Ko ∧ Ko ≤ fac2Cap 1 ∧
    pair = (fac2Table 0 Ke, fac2Table 1 Ko)

theorem fac2Inv_init : Fac2Inv ifac2Memo0 :=
  ⟨1, 1, by decide, by decide, by decide, by decide, by simp [ifac2Memo0, fac2Table]⟩

theorem ifac2Loop_spec (par : Nat) (hp : par < 2) (fuel j t : Nat) (n : Int) (ht : t ≤ fuel)
    (hn : n = ((2 * (j + t) + par : Nat) : Int)) :
    ifac2Loop fuel ((2 * j + par : Nat) : Int) ((Nat.doubleFactorial (2 * j + par) : Nat) : Int) n
        (fac2Table par (min (j + 1) (fac2Cap par)))
      = (((Nat.doubleFactorial (2 * (j + t) + par) : Nat) : Int), fac2Table par (min (j + t + 1) (fac2Cap par))) := by
  induction fuel generalizing j t with
  | zero =>
    have : t = 0 := by omega
    subst this; simp [ifac2Loop]
  | succ fuel ih =>
    by_cases hlt : ((2 * j + par : Nat) : Int) < n
    · obtain ⟨t', rfl⟩ : ∃ t', t = t' + 1 := ⟨t - 1, by omega⟩
      have hk' : ((2 * j + par : Nat) : Int) + 2 = ((2 * (j + 1) + par : Nat) : Int) := by push_cast; ring
      have hp' : ((Nat.doubleFactorial (2 * j + par) : Nat) : Int) * ((2 * (j + 1) + par : Nat) : Int)
          = ((Nat.doubleFactorial (2 * (j + 1) + par) : Nat) : Int) := by
        have : 2 * (j + 1) + par = (2 * j + par) + 2 := by ring
        rw [this, Nat.doubleFactorial_add_two]; push_cast; ring
      have hm : (if ((2 * (j + 1) + par : Nat) : Int) ≤ MAX_FACTORIAL_CACHE
          then dset (fac2Table par (min (j + 1) (fac2Cap par))) ((2 * (j + 1) + par : Nat) : Int)
            ((Nat.doubleFactorial (2 * (j + 1) + par) : Nat) : Int)
          else fac2Table par (min (j + 1) (fac2Cap par))) = fac2Table par (min (j + 1 + 1) (fac2Cap par)) := by
        by_cases h : ((2 * (j + 1) + par : Nat) : Int) ≤ MAX_FACTORIAL_CACHE
        · have h' : j + 1 < fac2Cap par := by
            simp only [MAX_FACTORIAL_CACHE] at h; unfold fac2Cap; omega
          rw [if_pos h, Nat.min_eq_left (by omega), Nat.min_eq_left (by omega)]
          exact dset_fac2Table par (j + 1) hp
        · have h' : fac2Cap par ≤ j + 1 := by
            simp only [MAX_FACTORIAL_CACHE] at h; unfold fac2Cap; omega
          rw [if_neg h, Nat.min_eq_right (by omega), Nat.min_eq_right (by omega)]
      have := ih (j + 1) t' (by omega) (by rw [hn]; congr 1; ring)
      simp only [ifac2Loop, hlt, if_true]
      rw [hk', hp', hm, this]
      have e : j + 1 + t' = j + (t' + 1) := by ring
      rw [e]
    · have : t = 0 := by push_cast at hlt hn; omega
      subst this
      simp only [ifac2Loop, hlt, if_false, Nat.add_zero]

/-- `ifac2` on a pair satisfying the invariant: total, correct for `n ≥ 0`; for `n < 0` (outside the
documented domain) it returns the value stored under the largest key of the memo of `n`'s parity. -/
theorem ifac2_of_inv (n : Int) (pair : IDict × IDict) (h : Fac2Inv pair) (hn : 0 ≤ n) :
    ∃ pair', ifac2 n pair = .ok (((Nat.doubleFactorial n.toNat : Nat) : Int), pair') ∧ Fac2Inv pair' := by
  obtain ⟨Ke, Ko, hKe1, hKe, hKo1, hKo, rfl⟩ := h
  -- the memo selected by the parity of n
  obtain ⟨par, hpar, hnpar⟩ : ∃ par : Nat, par < 2 ∧ n % 2 = par := ⟨(n % 2).toNat, by omega, by omega⟩
  obtain ⟨K, hK⟩ : ∃ K, K = if par = 1 then Ko else Ke := ⟨_, rfl⟩
  have hK1 : 1 ≤ K := by rw [hK]; split <;> assumption
  have hKc : K ≤ fac2Cap par := by
    rw [hK]; split
    · next h => rw [h]; exact hKo
    · next h => have : par = 0 := by omega
                rw [this]; exact hKe
  have hsel : (if n % 2 = 1 then (fac2Table 0 Ke, fac2Table 1 Ko).2 else (fac2Table 0 Ke, fac2Table 1 Ko).1)
      = fac2Table par K := by
    rcases (by omega : par = 0 ∨ par = 1) with h | h
    · subst h; have : ¬ n % 2 = 1 := by omega
      simp [this, hK]
    · subst h; have : n % 2 = 1 := by omega
      simp [this, hK]
  unfold ifac2 dgetTruthy
  simp only [hsel]
  rw [dget_fac2Table par K hpar]
  by_cases hin : 0 ≤ n ∧ n < 2 * K + par ∧ n % 2 = par
  · have hne : ((Nat.doubleFactorial n.toNat : Nat) : Int) ≠ 0 := by
      exact_mod_cast (Nat.doubleFactorial_pos _).ne'
    refine ⟨_, ?_, ⟨Ke, Ko, hKe1, hKe, hKo1, hKo, rfl⟩⟩
    rw [if_pos hin]
    simp only [ne_eq, hne, not_false_eq_true, if_true]
  · rw [if_neg hin]
    simp only
    obtain ⟨K', rfl⟩ : ∃ K', K = K' + 1 := ⟨K - 1, by omega⟩
    rw [dmaxKey_fac2Table]
    simp only
    rw [dget_fac2Table par _ hpar]
    have h1 : 0 ≤ ((2 * K' + par : Nat) : Int) ∧ ((2 * K' + par : Nat) : Int) < 2 * ((K' + 1 : Nat) : Int) + par
        ∧ ((2 * K' + par : Nat) : Int) % 2 = par := by omega
    rw [if_pos h1]
    simp only [Int.toNat_natCast]
    -- n = 2 (K' + t) + par
    obtain ⟨t, ht⟩ : ∃ t : Nat, n = ((2 * (K' + t) + par : Nat) : Int) :=
      ⟨((n - par) / 2).toNat - K', by omega⟩
    have hmin : fac2Table par (K' + 1) = fac2Table par (min (K' + 1) (fac2Cap par)) := by
      rw [Nat.min_eq_left hKc]
    rw [hmin, ifac2Loop_spec par hpar _ K' t n (by omega) ht]
    have hnn : n.toNat = 2 * (K' + t) + par := by omega
    rw [hnn]
    refine ⟨_, rfl, ?_⟩
    have hcap : min (K' + t + 1) (fac2Cap par) ≤ fac2Cap par := Nat.min_le_right _ _
    have hone : 1 ≤ min (K' + t + 1) (fac2Cap par) := by
      have : 1 ≤ fac2Cap par := by unfold fac2Cap; omega
      omega
    rcases (by omega : par = 0 ∨ par = 1) with h | h
    · subst h
      have : ¬ n % 2 = 1 := by omega
      refine ⟨_, Ko, hone, hcap, hKo1, hKo, ?_⟩
      simp [this]
    · subst h
      have : n % 2 = 1 := by omega
      refine ⟨Ke, _, hKe1, hKe, hone, hcap, ?_⟩
      simp [this]

/-- negative arguments (outside the documented domain): no exception, the pair is unchanged, and the
value is whatever is stored under the largest key of the memo of `n`'s parity (history dependent). -/
theorem ifac2_neg (n : Int) (pair : IDict × IDict) (h : Fac2Inv pair) (hn : n < 0) :
    ∃ v, ifac2 n pair = .ok (v, pair) := by
  obtain ⟨Ke, Ko, hKe1, hKe, hKo1, hKo, rfl⟩ := h
  obtain ⟨par, hpar, hnpar⟩ : ∃ par : Nat, par < 2 ∧ n % 2 = par := ⟨(n % 2).toNat, by omega, by omega⟩
  obtain ⟨K, hK⟩ : ∃ K, K = if par = 1 then Ko else Ke := ⟨_, rfl⟩
  have hK1 : 1 ≤ K := by rw [hK]; split <;> assumption
  have hsel : (if n % 2 = 1 then (fac2Table 0 Ke, fac2Table 1 Ko).2 else (fac2Table 0 Ke, fac2Table 1 Ko).1)
      = fac2Table par K := by
    rcases (by omega : par = 0 ∨ par = 1) with h | h
    · subst h; have : ¬ n % 2 = 1 := by omega
      simp [this, hK]
    · subst h; have : n % 2 = 1 := by omega
      simp [this, hK]
  unfold ifac2 dgetTruthy
  simp only [hsel]
  rw [dget_fac2Table par K hpar]
  have hin : ¬ (0 ≤ n ∧ n < 2 * K + par ∧ n % 2 = par) := by omega
  rw [if_neg hin]
  simp only
  obtain ⟨K', rfl⟩ : ∃ K', K = K' + 1 := ⟨K - 1, by omega⟩
  rw [dmaxKey_fac2Table]
  simp only
  rw [dget_fac2Table par _ hpar]
  have h1 : 0 ≤ ((2 * K' + par : Nat) : Int) ∧ ((2 * K' + par : Nat) : Int) < 2 * ((K' + 1 : Nat) : Int) + par
      ∧ ((2 * K' + par : Nat) : Int) % 2 = par := by omega
  rw [if_pos h1]
  have hf : (n - ((2 * K' + par : Nat) : Int)).toNat = 0 := by omega
  simp only [hf, ifac2Loop]
  refine ⟨((Nat.doubleFactorial ((2 * K' + par : Nat) : Int).toNat : Nat) : Int), ?_⟩
  rcases (by omega : par = 0 ∨ par = 1) with h | h
  · subst h; have : ¬ n % 2 = 1 := by omega
    simp only [this, if_false]
    simp at hK
    rw [hK]
  · subst h; have : n % 2 = 1 := by omega
    simp only [this, if_true]
    simp at hK
    rw [hK]

/-! ## ifib -/

/-- the Fibonacci numbers extended to negative indices: `F(-n) = (-1)^(n+1) F(n)` -/
def fibZ (n : Int) : Int :=
  if n < 0 then (-1) ^ ((-n).toNat + 1) * (Nat.fib (-n).toNat : Int) else (Nat.fib n.toNat : Int)

theorem ifibLoop_spec (fuel n i j : Nat) (h : n ≤ fuel) :
    ifibLoop fuel n (Nat.fib (i + 1)) (Nat.fib i) (Nat.fib j) (Nat.fib (j + 1))
      = (Nat.fib (i + n * (j + 1)) : Int) := by
  induction fuel generalizing n i j with
  | zero =>
    have : n = 0 := by omega
    subst this; simp [ifibLoop]
  | succ fuel ih =>
    unfold ifibLoop
    by_cases h0 : n = 0
    · subst h0; simp
    · rw [if_neg h0]
      by_cases hodd : n % 2 = 1
      · rw [if_pos hodd]
        have ha : (Nat.fib i : Int) * (Nat.fib (j + 1)) + (Nat.fib (i + 1)) * (Nat.fib (j + 1))
            + (Nat.fib (i + 1)) * (Nat.fib j) = (Nat.fib (i + (j + 1) + 1) : Int) := by
          rw [Nat.fib_add i (j + 1), Nat.fib_add_two (n := j)]; push_cast; ring
        have hb : (Nat.fib i : Int) * (Nat.fib j) + (Nat.fib (i + 1)) * (Nat.fib (j + 1))
            = (Nat.fib (i + (j + 1)) : Int) := by
          rw [show i + (j + 1) = i + j + 1 by ring, Nat.fib_add i j]; push_cast; ring
        simp only []
        rw [ha, hb, ih (n - 1) (i + (j + 1)) j (by omega)]
        congr 2
        obtain ⟨m, rfl⟩ : ∃ m, n = m + 1 := ⟨n - 1, by omega⟩
        simp only [Nat.add_sub_cancel]; ring
      · rw [if_neg hodd]
        have hp : (Nat.fib j : Int) * (Nat.fib j) + (Nat.fib (j + 1)) * (Nat.fib (j + 1))
            = (Nat.fib (2 * j + 1) : Int) := by
          rw [Nat.fib_two_mul_add_one]; push_cast; ring
        have hq : (Nat.fib (j + 1) : Int) * (Nat.fib (j + 1)) + 2 * (Nat.fib j) * (Nat.fib (j + 1))
            = (Nat.fib (2 * j + 1 + 1) : Int) := by
          rw [show 2 * j + 1 + 1 = 2 * j + 2 by ring, Nat.fib_two_mul_add_two]; push_cast; ring
        simp only []
        rw [hp, hq, ih (n / 2) i (2 * j + 1) (by omega)]
        congr 2
        have : n = 2 * (n / 2) := by omega
        calc i + n / 2 * (2 * j + 1 + 1) = i + (2 * (n / 2)) * (j + 1) := by ring
          _ = i + n * (j + 1) := by rw [← this]

theorem ifibLoop_init (n : Nat) : ifibLoop n n 1 0 0 1 = (Nat.fib n : Int) := by
  have := ifibLoop_spec n n 0 0 (le_refl n)
  simpa using this

/-- invariant of the Fibonacci cache: every stored entry `k ↦ v` has `0 ≤ k < 250` and `v = F(k)` -/
def FibInv (cache : IDict) : Prop :=
  ∀ k v, dget cache k = some v → 0 ≤ k ∧ k < 250 ∧ v = (Nat.fib k.toNat : Int)

theorem fibInv_init : FibInv [] := by intro k v h; simp [dget] at h

theorem ifibNonneg_of_inv (n : Nat) (cache : IDict) (h : FibInv cache) :
    (ifibNonneg n cache).1 = (Nat.fib n : Int) ∧ FibInv (ifibNonneg n cache).2 := by
  unfold ifibNonneg
  cases hg : dget cache (n : Int) with
  | some v =>
    have := h _ _ hg
    simp only [Int.toNat_natCast] at this
    exact ⟨this.2.2, h⟩
  | none =>
    simp only [ifibLoop_init]
    refine ⟨trivial, ?_⟩
    split
    · next hlt =>
      intro k v hk
      rw [dget_dset] at hk
      by_cases hnk : (n : Int) = k
      · rw [if_pos hnk] at hk
        subst hnk
        simp only [Option.some.injEq] at hk
        refine ⟨by omega, by omega, ?_⟩
        simp [← hk]
      · rw [if_neg hnk] at hk
        exact h k v hk
    · exact h

theorem ifib_of_inv (n : Int) (cache : IDict) (h : FibInv cache) :
    (ifib n cache).1 = fibZ n ∧ FibInv (ifib n cache).2 := by
  unfold ifib fibZ
  by_cases hn : n < 0
  · simp only [hn, if_true]
    have := ifibNonneg_of_inv (-n).toNat cache h
    refine ⟨?_, this.2⟩
    rw [this.1]
    have : (-n + 1).toNat = (-n).toNat + 1 := by omega
    rw [this]
  · simp only [hn, if_false]
    exact ifibNonneg_of_inv n.toNat cache h

/-! ## gcd -/

theorem natAbs_fmod_lt (a b : Int) (hb : b ≠ 0) : (a.fmod b).natAbs < b.natAbs := by
  rcases lt_or_gt_of_ne hb with h | h
  · have h1 := Int.fmod_nonneg_of_pos (-a) (b := -b) (by omega)
    have h2 := Int.fmod_lt_of_pos (-a) (b := -b) (by omega)
    rw [Int.neg_fmod_neg] at h1 h2
    omega
  · have h1 := Int.fmod_nonneg_of_pos a h
    have h2 := Int.fmod_lt_of_pos a h
    omega

theorem gcdLoop_natAbs (fuel : Nat) (a b : Int) (h : b.natAbs < fuel) :
    (gcdLoop fuel a b).natAbs = Int.gcd a b := by
  induction fuel generalizing a b with
  | zero => omega
  | succ fuel ih =>
    unfold gcdLoop
    by_cases hb : b = 0
    · subst hb; simp
    · rw [if_pos hb, ih b (a.fmod b) (by have := natAbs_fmod_lt a b hb; omega)]
      rw [Int.fmod_def, Int.gcd_sub_mul_left_right, Int.gcd_comm]

theorem gcdLoop_nonneg (fuel : Nat) (a b : Int) (ha : 0 ≤ a) (hb : 0 ≤ b) : 0 ≤ gcdLoop fuel a b := by
  induction fuel generalizing a b with
  | zero => simpa [gcdLoop] using ha
  | succ fuel ih =>
    unfold gcdLoop
    by_cases hb0 : b = 0
    · simp [hb0, ha]
    · rw [if_pos hb0]
      exact ih b (a.fmod b) hb (Int.fmod_nonneg_of_pos a (by omega))

/-- one step of the `for b in args` loop of `gcd` -/
def gcdStep (a b : Int) : Int := if a ≠ 0 then gcdLoop (b.natAbs + 1) a b else b

theorem gcd_eq_foldl (args : List Int) : gcd args = args.foldl gcdStep 0 := rfl

theorem gcdStep_natAbs (a b : Int) : (gcdStep a b).natAbs = Nat.gcd a.natAbs b.natAbs := by
  unfold gcdStep
  by_cases ha : a = 0
  · subst ha; simp
  · rw [if_pos ha, gcdLoop_natAbs _ _ _ (by omega)]; rfl

theorem gcdStep_nonneg (a b : Int) (ha : 0 ≤ a) (hb : 0 ≤ b) : 0 ≤ gcdStep a b := by
  unfold gcdStep
  split
  · exact gcdLoop_nonneg _ _ _ ha hb
  · exact hb

theorem foldl_gcdStep_natAbs (args : List Int) (a : Int) :
    (args.foldl gcdStep a).natAbs = args.foldl (fun g x => Nat.gcd g x.natAbs) a.natAbs := by
  induction args generalizing a with
  | nil => rfl
  | cons x t ih => simp only [List.foldl_cons]; rw [ih, gcdStep_natAbs]

theorem foldl_gcdStep_nonneg (args : List Int) (a : Int) (ha : 0 ≤ a) (h : ∀ x ∈ args, 0 ≤ x) :
    0 ≤ args.foldl gcdStep a := by
  induction args generalizing a with
  | nil => exact ha
  | cons x t ih =>
    simp only [List.foldl_cons]
    exact ih _ (gcdStep_nonneg a x ha (h x (by simp))) (fun y hy => h y (by simp [hy]))

end Mp
