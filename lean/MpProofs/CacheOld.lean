/-
  MpProofs/CacheOld.lean — the pre-repair behaviour of `mpf_bernoulli` (defect D14, repaired in /repo
  by commit 8bbd625), kept as a regression witness.  Nothing here is about the current code.
-/
import MpProofs.Cache

namespace Mp.Cache
open Mp

/-- the real recurrence body with `bernoulli_size(m) = -3, -5, -5, -4` for `m = 2, 4, 6, 8` -/
def bernEnvSmall : BernEnv where
  body := bernBodyReal (fun m => [(-3 : Int), -5, -5, -4].getD (m / 2 - 1) 0)
  huge := fun _ _ _ => fnan
  useFrac := fun _ _ => false
  frac := fun _ _ _ => fnan

/-- `bernRunLoop` as it was before commit 8bbd625: the computing path ended in `return numbers[n]`
whatever `rnd`. -/
def bernRunLoopOld (env : BernEnv) (s : BernState) (e : BernEntry) (wp n : Nat)
    (fault : Option Nat) : BernState × Res (BernPath × Mpf) :=
  let r := bernLoop env wp n (n + 1) e fault
  let s' := s.set wp r.1
  if r.2 then
    match r.1.numbers n with
    | some v => (s', .ok (.computed, v))
    | none => (s', .pyError .value)
  else (s', .raised)

/-- D14 (old code): `bernoulli(8)` at 60 bits, rounding to nearest, from an empty cache returned the
94-bit working-precision entry; the cached path returns the 60-bit rounding of it. -/
theorem bernoulli_first_call_old_counterexample :
    (bernRunLoopOld bernEnvSmall ((FMap.empty : BernState).set (bernWp 60) bernEntryInit) bernEntryInit
        (bernWp 60) 8 none).2 = .ok (.computed, ⟨1, 0x222222222222222222222221, -98, 94⟩) ∧
    mpf_pos ⟨1, 0x222222222222222222222221, -98, 94⟩ 60 .n = ⟨1, 0x888888888888889, -64, 60⟩ := by
  decide +kernel

end Mp.Cache
