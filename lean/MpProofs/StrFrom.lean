/-
  MpProofs/StrFrom.lean — `from_str` on plain decimal literals: reduction to the exact branch.
-/
import MpProofs.Str

namespace Mp

/-- hypothesis (proved for the arithmetic core, property C02/C03): `from_int` rounds correctly -/
def FromIntRounds : Prop :=
  ∀ (n : Int) (prec : Int) (rnd : Rnd), 0 < prec → RoundOK prec rnd (n : ℚ) (from_int n prec rnd)

/-- hypothesis (proved for the arithmetic core): `from_rational` (= `mpf_div` of two exact integers)
rounds correctly -/
def FromRationalRounds : Prop :=
  ∀ (p q : Int) (prec : Int) (rnd : Rnd), 0 < prec → 0 < q →
    ∃ r, from_rational p q prec rnd = .ok r ∧ RoundOK prec rnd ((p : ℚ) / (q : ℚ)) r

theorem not_litChar_n : ¬ LitChar 'n' := by unfold LitChar; decide
theorem not_litChar_slash : ¬ LitChar '/' := by unfold LitChar; decide

/-- On a plain decimal literal with `|exp| ≤ 400`, `from_str` takes the exact branch with the parser's
`(man, exp)`. -/
theorem fromStr_plain {l : List Char} {v : ℚ} (h : decValueL l = some v)
    {man exp : Int} (hme : strToManExp l 0 = .ok (man, exp)) (hexp : exp.natAbs ≤ 400)
    (prec : Int) (rnd : Rnd) :
    fromStr l prec rnd 0 =
      if exp ≥ 0 then .ok (from_int (man * (10 : Int) ^ exp.toNat) prec rnd)
      else from_rational man ((10 : Int) ^ (-exp).toNat) prec rnd := by
  obtain ⟨sg, ip, dot, fp, eo, hok, hmap, -, -⟩ := decValueL_shape h
  have hall := litL_litChar hok
  have hx : stripL isSpaceStrip (l.map lowerC) = l.map lowerC := by
    rw [hmap]; exact stripL_eq_self_of_forall (fun c hc => (hall c hc).not_spaceStrip)
  have hn : 'n' ∉ l.map lowerC := by rw [hmap]; exact fun hm => not_litChar_n (hall _ hm)
  have hs : '/' ∉ l.map lowerC := by rw [hmap]; exact fun hm => not_litChar_slash (hall _ hm)
  have h1 : l.map lowerC ≠ "inf".toList := fun he => hn (by rw [he]; decide)
  have h2 : l.map lowerC ≠ "+inf".toList := fun he => hn (by rw [he]; decide)
  have h3 : l.map lowerC ≠ "-inf".toList := fun he => hn (by rw [he]; decide)
  have h4 : l.map lowerC ≠ "nan".toList := fun he => hn (by rw [he]; decide)
  have hc : (l.map lowerC).contains '/' = false := by simpa using hs
  unfold fromStr
  simp only [hx, h1, h2, h3, h4, hc, or_self, if_false, Bool.false_eq_true, strToManExp_lower, hme]
  rw [if_neg (by omega)]

/-- **Exact branch of `from_str`.** If the parser's exponent satisfies `|exp| ≤ 400`, the result is the
correctly rounded value of the literal — given that `from_int` and `from_rational` round correctly. -/
theorem fromStr_exact_round (hInt : FromIntRounds) (hRat : FromRationalRounds)
    {l : List Char} {v : ℚ} (h : decValueL l = some v)
    (hnd : v ≠ 0 ∨ ∃ c r, dropSign l = c :: r ∧ isDigitC c = true)
    {man exp : Int} (hme : strToManExp l 0 = .ok (man, exp)) (hexp : exp.natAbs ≤ 400)
    (prec : Int) (rnd : Rnd) (hprec : 0 < prec) :
    ∃ r, fromStr l prec rnd 0 = .ok r ∧ RoundOK prec rnd v r := by
  obtain ⟨m', e', h', hval⟩ := strToManExp_value h hnd
  rw [hme] at h'
  obtain ⟨rfl, rfl⟩ : man = m' ∧ exp = e' := by
    have := Except.ok.inj h'
    exact ⟨congrArg Prod.fst this, congrArg Prod.snd this⟩
  rw [fromStr_plain h hme hexp]
  by_cases he : exp ≥ 0
  · rw [if_pos he]
    refine ⟨_, rfl, ?_⟩
    have := hInt (man * (10 : Int) ^ exp.toNat) prec rnd hprec
    have hcast : (((man * (10 : Int) ^ exp.toNat : Int)) : ℚ) = v := by
      rw [← hval]
      push_cast
      congr 1
      rw [← zpow_natCast, Int.toNat_of_nonneg he]
    rwa [hcast] at this
  · rw [if_neg he]
    have hq : (0 : Int) < (10 : Int) ^ (-exp).toNat := by positivity
    obtain ⟨r, hr, hok⟩ := hRat man ((10 : Int) ^ (-exp).toNat) prec rnd hprec hq
    refine ⟨r, hr, ?_⟩
    have hcast : (man : ℚ) / (((10 : Int) ^ (-exp).toNat : Int) : ℚ) = v := by
      rw [← hval]
      push_cast
      rw [div_eq_mul_inv, ← zpow_natCast, ← zpow_neg, Int.toNat_of_nonneg (by omega)]
      simp
    rwa [hcast] at hok

end Mp
