/-
  MpProofs/StrFrom.lean — `from_str` on decimal literals: reduction to the exact branch and its rounding.
-/
import MpProofs.Str
import MpProofs.Arith
import MpProofs.Div

namespace Mp

theorem not_litChar_n : ¬ LitChar 'n' := by unfold LitChar; decide
theorem not_litChar_slash : ¬ LitChar '/' := by unfold LitChar; decide

/-- On a decimal literal with `|exp| ≤ 400`, `from_str` takes the exact branch with the parser's
`(man, exp)`. -/
theorem fromStr_plain {l : List Char} {v : ℚ} (h : decValueU l = some v)
    {man exp : Int} (hme : strToManExp l 0 = .ok (man, exp)) (hexp : exp.natAbs ≤ 400)
    (prec : Int) (rnd : Rnd) :
    fromStr l prec rnd 0 =
      if exp ≥ 0 then .ok (from_int (man * (10 : Int) ^ exp.toNat) prec rnd)
      else from_rational man ((10 : Int) ^ (-exp).toNat) prec rnd := by
  have hch := decValueU_chars h
  have hx : stripL isSpaceStrip (l.map lowerC) = l.map lowerC := by
    apply stripL_eq_self_of_forall
    intro c hc
    rcases hch c hc with rfl | hl
    · decide
    · exact hl.not_spaceStrip
  have hn : 'n' ∉ l.map lowerC := by
    intro hm
    rcases hch _ hm with hu | hl
    · exact absurd hu (by decide)
    · exact not_litChar_n hl
  have hs : '/' ∉ l.map lowerC := by
    intro hm
    rcases hch _ hm with hu | hl
    · exact absurd hu (by decide)
    · exact not_litChar_slash hl
  have h1 : l.map lowerC ≠ "inf".toList := fun he => hn (by rw [he]; decide)
  have h2 : l.map lowerC ≠ "+inf".toList := fun he => hn (by rw [he]; decide)
  have h3 : l.map lowerC ≠ "-inf".toList := fun he => hn (by rw [he]; decide)
  have h4 : l.map lowerC ≠ "nan".toList := fun he => hn (by rw [he]; decide)
  have hc : (l.map lowerC).contains '/' = false := by simpa using hs
  unfold fromStr
  simp only [hx, h1, h2, h3, h4, hc, or_self, if_false, Bool.false_eq_true, strToManExp_lower, hme]
  rw [if_neg (by omega)]

/-- **Exact branch of `from_str`.** If the parser's exponent satisfies `|exp| ≤ 400`, the result is the
correctly rounded value of the literal, in every rounding mode. -/
theorem fromStr_exact_round {l : List Char} {v : ℚ} (h : decValueU l = some v)
    {man exp : Int} (hme : strToManExp l 0 = .ok (man, exp)) (hexp : exp.natAbs ≤ 400)
    (prec : Int) (rnd : Rnd) (hprec : 0 < prec) :
    ∃ r, fromStr l prec rnd 0 = .ok r ∧ RoundOK prec rnd v r := by
  obtain ⟨m', e', h', hval⟩ := strToManExp_value h
  rw [hme] at h'
  obtain ⟨rfl, rfl⟩ : man = m' ∧ exp = e' := by
    have := Except.ok.inj h'
    exact ⟨congrArg Prod.fst this, congrArg Prod.snd this⟩
  rw [fromStr_plain h hme hexp]
  by_cases he : exp ≥ 0
  · rw [if_pos he]
    refine ⟨_, rfl, ?_⟩
    have := from_int_spec (man * (10 : Int) ^ exp.toNat) (le_of_lt hprec) rnd
    have hcast : (((man * (10 : Int) ^ exp.toNat : Int)) : ℚ) = v := by
      rw [← hval]
      push_cast
      congr 1
      rw [← zpow_natCast, Int.toNat_of_nonneg he]
    rwa [hcast] at this
  · rw [if_neg he]
    have hq : ((10 : Int) ^ (-exp).toNat) ≠ 0 := by positivity
    obtain ⟨r, hr, hok⟩ := from_rational_spec man ((10 : Int) ^ (-exp).toNat) hq hprec rnd
    refine ⟨r, hr, ?_⟩
    have hcast : (man : ℚ) / (((10 : Int) ^ (-exp).toNat : Int) : ℚ) = v := by
      rw [← hval]
      push_cast
      rw [div_eq_mul_inv, ← zpow_natCast, ← zpow_neg, Int.toNat_of_nonneg (by omega)]
      simp
    rwa [hcast] at hok

end Mp
