/-
  MpProofs/WorldPC.lean — helper lemmas for the context world with private caches (C38).
-/
import MpModel.WorldPC

namespace Mp.WorldPC
open Mp.World

variable {C P F X V : Type}

/-- what a statement executed on context `k` can read is the same in both worlds: the number of
context objects, the object `k` itself (settings and private caches) and the shared caches -/
structure Agree (k : Nat) (w w' : WorldP C P) : Prop where
  len : w.ctxs.length = w'.ctxs.length
  ctx : w.ctxs[k]? = w'.ctxs[k]?
  caches : w.caches = w'.caches

theorem agree_set (k : Nat) (w w' : WorldP C P) (h : Agree k w w') (a : Ctx P) (c c' : C) (hc : c = c') :
    Agree k ⟨w.ctxs.set k a, c⟩ ⟨w'.ctxs.set k a, c'⟩ where
  len := by simp [h.len]
  ctx := by simp [List.getElem?_set, h.len]
  caches := hc

set_option hygiene false in
/-- one constructor of `step_agree`: split on whether context `i` exists, unfold, close -/
local macro "agree_case" i:ident : tactic => `(tactic| (
    rcases Option.eq_none_or_eq_some (w.ctxs[$i]?) with hci | ⟨c, hci⟩
    · have hci' := hci
      rw [hc] at hci'
      simp only [step, setCell, hci, hci']
      first
        | exact ⟨rfl, h⟩
        | exact ⟨by simp, h⟩
    · have hci' := hci
      rw [hc] at hci'
      have hlt : $i < w.ctxs.length := by
        rcases Nat.lt_or_ge $i w.ctxs.length with h1 | h1
        · exact h1
        · rw [List.getElem?_eq_none h1] at hci; cases hci
      simp only [step, setCell, hci, hci']
      first
        | exact ⟨by simp, agree_set _ w w' h _ _ _ hs⟩
        | (rw [hs]; exact ⟨rfl, agree_set _ w w' h _ _ _ rfl⟩)
        | (cases hk : c.cell.kind <;> first
            | exact ⟨rfl, h⟩
            | exact ⟨rfl, agree_set _ w w' h _ _ _ hs⟩
            | exact ⟨by simp [hl],
                { len := by simp [hl]
                  ctx := by
                    simp only [List.getElem?_append_left hlt, List.getElem?_append_left (hl ▸ hlt)]
                    exact hc
                  caches := hs }⟩)))

/-- a statement executed on `k` has the same outcome in two worlds that agree on `k`, and they
agree on `k` afterwards -/
theorem step_agree (S : SemP C P F X V) (k : Nat) (w w' : WorldP C P) (h : Agree k w w')
    (op : Op F X) (ht : op.target = k) :
    (step S w op).2 = (step S w' op).2 ∧ Agree k (step S w op).1 (step S w' op).1 := by
  have hl := h.len
  have hc := h.ctx
  have hs := h.caches
  cases op <;> simp only [Op.target] at ht <;> subst ht
  case setPrec i n => agree_case i
  case setDps i n => agree_case i
  case setRounding i r => agree_case i
  case setTrap i b => agree_case i
  case setPretty i b => agree_case i
  case default i => agree_case i
  case clone i => agree_case i
  case eval i f x => agree_case i

theorem outcomes_agree (S : SemP C P F X V) (k : Nat) (ops : List (Op F X)) :
    ∀ (w w' : WorldP C P), Agree k w w' → (∀ op ∈ ops, op.target = k) →
      outcomes S w ops = outcomes S w' ops := by
  induction ops with
  | nil => intros; rfl
  | cons op ops ih =>
    intro w w' h ht
    obtain ⟨e, h'⟩ := step_agree S k w w' h op (ht op List.mem_cons_self)
    simp only [outcomes, e]
    rw [ih _ _ h' (fun o ho => ht o (List.mem_cons_of_mem _ ho))]

/-- writing back the element that is already there -/
theorem list_set_self {α : Type} (l : List α) (i : Nat) (a : α) (h : l[i]? = some a) : l.set i a = l := by
  apply List.ext_getElem?
  intro j
  rw [List.getElem?_set]
  split
  · next hij =>
    subst hij
    have hlt : i < l.length := by
      rcases Nat.lt_or_ge i l.length with h1 | h1
      · exact h1
      · rw [List.getElem?_eq_none h1] at h; cases h
    rw [if_pos hlt, h]
  · rfl

/-- an existing context object other than the target of the statement is not written: neither its
settings nor its private caches -/
theorem step_ctx_ne (S : SemP C P F X V) (w : WorldP C P) (op : Op F X) (j : Nat) (c : Ctx P)
    (hj : j ≠ op.target) (hc : w.ctxs[j]? = some c) : (step S w op).1.ctxs[j]? = some c := by
  have hlt : j < w.ctxs.length := by
    rcases Nat.lt_or_ge j w.ctxs.length with h | h
    · exact h
    · rw [List.getElem?_eq_none h] at hc; cases hc
  cases op <;> simp only [Op.target] at hj <;> simp only [step, setCell]
  all_goals
    split
    · exact hc
    · first
      | (simp only [List.getElem?_set_ne (Ne.symm hj)]; exact hc)
      | (split <;> first
          | exact hc
          | (simp only [List.getElem?_set_ne (Ne.symm hj)]; exact hc)
          | (simp only [List.getElem?_append_left hlt]; exact hc))
      | exact hc

end Mp.WorldPC
