/-
  MpProofs/EnclExamples.lean — non-vacuity of the verified reference evaluator (kernel evaluation).
-/
import MpProofs.EnclSound

namespace Mp.Encl

/-! ### non-vacuity: the checker does return `ok` / `violates` on concrete inputs
(24-bit values returned by mpmath for exp(1), log(3), √2, atan(1), sin(5), cos(5), tan(5), tanh(1);
kernel evaluation only) -/

example : accCheck .exp ⟨1, 0⟩ ⟨2850325, -20⟩ 24 4 = .ok := by decide +kernel
example : accCheck .exp ⟨1, 0⟩ ⟨2850325 + 40, -20⟩ 24 4 = .violates := by decide +kernel
example : accCheck .log ⟨3, 0⟩ ⟨2303957, -21⟩ 24 4 = .ok := by decide +kernel
example : accCheck .sqrt ⟨2, 0⟩ ⟨11863283, -23⟩ 24 4 = .ok := by decide +kernel
example : accCheck .atan ⟨1, 0⟩ ⟨13176795, -24⟩ 24 4 = .ok := by decide +kernel
example : accCheck .sin ⟨5, 0⟩ ⟨-1005505, -20⟩ 24 4 = .ok := by decide +kernel
example : accCheck .cos ⟨5, 0⟩ ⟨2379531, -23⟩ 24 4 = .ok := by decide +kernel
example : accCheck .tan ⟨5, 0⟩ ⟨-3544727, -20⟩ 24 4 = .ok := by decide +kernel
example : accCheck .tanh ⟨1, 0⟩ ⟨6388715, -23⟩ 24 4 = .ok := by decide +kernel
example : accCheck .pi ⟨0, 0⟩ ⟨13176795, -22⟩ 24 4 = .ok := by decide +kernel
example : accCheck .sin ⟨5, 0⟩ ⟨-1005505 - 40, -20⟩ 24 4 = .violates := by decide +kernel
example : (evalPoint .acosh 24 ⟨3, 0⟩).isSome = true := by decide +kernel
example : evalPoint .acosh 24 ⟨1, -1⟩ = none := by decide +kernel
example : (evalPoint .asin 24 ⟨1, 0⟩).isSome = true := by decide +kernel
example : evalPoint .asin 24 ⟨3, -1⟩ = none := by decide +kernel
example : accCheck .cospi ⟨7, 0⟩ ⟨-1, 0⟩ 24 0 = .ok := by decide +kernel
example : accCheck .sinpi ⟨7, 0⟩ ⟨0, 0⟩ 24 0 = .ok := by decide +kernel
/-- FINDING (C12): the value mpmath returns for `acosh(1 + 2^-52)` at 53 bits is rigorously outside the
`2^(10-p)` relative error bound (only ~42 correct bits). -/
example : accCheck .acosh ⟨4503599627370497, -52⟩ ⟨3109888511975, -67⟩ 53 10 = .violates := by decide +kernel
-- log returns an enclosure on a positive interval, refuses a non-positive one
example : (logI 24 ⟨⟨3, 0⟩, ⟨7, -1⟩⟩).isSome = true := by decide +kernel
example : logI 24 ⟨⟨0, 0⟩, ⟨7, -1⟩⟩ = none := by decide +kernel

end Mp.Encl
