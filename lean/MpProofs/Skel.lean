/-
  MpProofs/Skel.lean — soundness of the syntactic check `okG`/`bracketed` of MpModel/Skel.lean
  with respect to the schedule semantics `exec`.  Core Lean only (no Mathlib needed).
-/
import MpModel.Skel

namespace Mp.Skel

/-! ### generic facts -/

theorem iter_preserve (Q : Cfg → Prop) (f : Cfg → Out × Cfg) (hf : ∀ c, Q c → Q (f c).2) :
    ∀ k c, Q c → Q (iter f k c).2 := by
  intro k
  induction k with
  | zero => intro c h; simpa [iter] using h
  | succ k ih =>
    intro c h
    have h1 := hf c h
    unfold iter
    dsimp only
    split
    · exact ih _ h1
    · exact ih _ h1
    · exact h1
    · exact h1

theorem mem_diff {S K : List Var} {v : Var} : v ∈ diff S K ↔ v ∈ S ∧ v ∉ K := by
  simp [diff]

theorem mem_inter {S T : List Var} {v : Var} : v ∈ inter S T ↔ v ∈ S ∧ v ∈ T := by
  simp [inter]

/-! ### variables not killed keep their value -/

theorem env_noKill : ∀ (s : Stmt) (c : Cfg) (v : Var), v ∉ kills s →
    (exec s c).2.env v = c.env v := by
  intro s
  induction s with
  | skip | call | callLeaky | yld | ret | raise | brk | cont =>
    intro c v _; simp [exec, Cfg.pop]
  | save w f =>
    intro c v h
    have : v ≠ w := by simpa [kills] using h
    cases f <;> simp [exec, upd, this]
  | assign w =>
    intro c v h
    have : v ≠ w := by simpa [kills] using h
    simp [exec, upd, this, Cfg.pop]
  | setPrec s => intro c v _; cases s <;> simp [exec, Cfg.pop]
  | setDps s => intro c v _; cases s <;> simp [exec, Cfg.pop]
  | seq a b iha ihb =>
    intro c v h
    simp only [kills, List.mem_append, not_or] at h
    simp only [exec]
    split
    · rw [ihb _ _ h.2, iha _ _ h.1]
    · exact iha _ _ h.1
  | ite a b iha ihb =>
    intro c v h
    simp only [kills, List.mem_append, not_or] at h
    simp only [exec]
    split
    · rw [iha _ _ h.1]; rfl
    · rw [ihb _ _ h.2]; rfl
  | loop b ih =>
    intro c v h
    simp only [kills] at h
    simp only [exec]
    have := iter_preserve (fun c' => c'.env v = c.env v) (exec b)
      (fun c' hc' => by rw [ih _ _ h]; exact hc') c.peek.toNat c.pop rfl
    exact this
  | tryFinally b f ihb ihf =>
    intro c v h
    simp only [kills, List.mem_append, not_or] at h
    simp only [exec]
    rw [ihf _ _ h.2, ihb _ _ h.1]
  | tryExcept b hd ihb ihh =>
    intro c v h
    simp only [kills, List.mem_append, not_or] at h
    simp only [exec]
    split
    · split
      · rw [ihh _ _ h.2]; exact ihb _ _ h.1
      · exact ihb _ _ h.1
    · exact ihb _ _ h.1
  | withMgr m f b ih =>
    intro c v h
    simp only [kills, List.mem_cons, not_or] at h
    simp only [exec]
    split
    · simp [Cfg.pop, upd, h.1]
    · simp only []
      rw [ih _ _ h.2]
      simp [Cfg.pop, upd, h.1]

/-! ### statements without `yield` add no observation -/

theorem obs_noYield : ∀ (s : Stmt) (c : Cfg), hasYield s = false → (exec s c).2.obs = c.obs := by
  intro s
  induction s with
  | skip | call | callLeaky | ret | raise | brk | cont => intro c _; simp [exec, Cfg.pop]
  | yld => intro c h; simp [hasYield] at h
  | save w f => intro c _; cases f <;> simp [exec]
  | assign w => intro c _; simp [exec, Cfg.pop]
  | setPrec s => intro c _; cases s <;> simp [exec, Cfg.pop]
  | setDps s => intro c _; cases s <;> simp [exec, Cfg.pop]
  | seq a b iha ihb =>
    intro c h
    simp only [hasYield, Bool.or_eq_false_iff] at h
    simp only [exec]
    split
    · rw [ihb _ h.2, iha _ h.1]
    · exact iha _ h.1
  | ite a b iha ihb =>
    intro c h
    simp only [hasYield, Bool.or_eq_false_iff] at h
    simp only [exec]
    split
    · rw [iha _ h.1]; rfl
    · rw [ihb _ h.2]; rfl
  | loop b ih =>
    intro c h
    simp only [hasYield] at h
    simp only [exec]
    exact iter_preserve (fun c' => c'.obs = c.obs) (exec b)
      (fun c' hc' => by rw [ih _ h]; exact hc') c.peek.toNat c.pop rfl
  | tryFinally b f ihb ihf =>
    intro c h
    simp only [hasYield, Bool.or_eq_false_iff] at h
    simp only [exec]
    rw [ihf _ h.2, ihb _ h.1]
  | tryExcept b hd ihb ihh =>
    intro c h
    simp only [hasYield, Bool.or_eq_false_iff] at h
    simp only [exec]
    split
    · split
      · rw [ihh _ h.2]; exact ihb _ h.1
      · exact ihb _ h.1
    · exact ihb _ h.1
  | withMgr m f b ih =>
    intro c h
    simp only [hasYield] at h
    simp only [exec]
    split
    · simp [Cfg.pop]
    · simp only []
      rw [ih _ h]
      simp [Cfg.pop]

/-! ### effect-free skeletons pass the check (the functions the translator does not emit) -/

theorem effectFree_ok : ∀ (s : Stmt) (S : List Var), effectFree s = true → okG false S s = true := by
  intro s
  induction s with
  | seq a b iha ihb =>
    intro S h; simp only [effectFree, Bool.and_eq_true] at h
    simp only [okG, Bool.and_eq_true]; exact ⟨iha _ h.1, ihb _ h.2⟩
  | ite a b iha ihb =>
    intro S h; simp only [effectFree, Bool.and_eq_true] at h
    simp only [okG, Bool.and_eq_true]; exact ⟨iha _ h.1, ihb _ h.2⟩
  | tryFinally a b iha ihb =>
    intro S h; simp only [effectFree, Bool.and_eq_true] at h
    simp only [okG, Bool.or_eq_true, Bool.and_eq_true]; exact Or.inl ⟨iha _ h.1, ihb _ h.2⟩
  | tryExcept a b iha ihb =>
    intro S h; simp only [effectFree, Bool.and_eq_true] at h
    simp only [okG, Bool.and_eq_true]; exact ⟨iha _ h.1, ihb _ h.2⟩
  | loop b ih => intro S h; simp only [effectFree] at h; simp only [okG]; exact ih _ h
  | setPrec _ | setDps _ | callLeaky | withMgr _ _ _ _ => intro S h; simp [effectFree] at h
  | _ => intro S _; simp [okG]

/-! ### soundness of `okG` -/

/-- The invariant carried through a bracketed skeleton: `prec` is the entry precision `P`,
    `dps` is the entry `D` or what the `prec` setter recomputes from `P`. -/
def Inv (P D : Int) (s : St) : Prop := s.prec = P ∧ (s.dps = D ∨ s.dps = precToDps P)

theorem inv_restore (P D : Int) (hP : 1 ≤ P) (σ : St) : Inv P D (σ.setPrec P) := by
  refine ⟨?_, Or.inr rfl⟩
  show max 1 P = P
  omega

theorem env_diff (P : Int) (s : Stmt) (S : List Var) (c : Cfg) (h : ∀ v ∈ S, c.env v = P) :
    ∀ v ∈ diff S (kills s), (exec s c).2.env v = P := by
  intro v hv
  rw [mem_diff] at hv
  rw [env_noKill s c v hv.2]
  exact h v hv.1

theorem okG_sound (P D : Int) (hP : 1 ≤ P) : ∀ (s : Stmt) (dirty : Bool) (S : List Var) (c : Cfg),
    okG dirty S s = true → (∀ v ∈ S, c.env v = P) → (dirty = false → Inv P D c.st) →
    (∀ x ∈ c.obs, Inv P D x) →
    Inv P D (exec s c).2.st ∧ (∀ x ∈ (exec s c).2.obs, Inv P D x) ∧
      ((exec s c).1 = .normal → ∀ v ∈ after S s, (exec s c).2.env v = P) := by
  intro s
  induction s with
  | skip | ret | raise | brk | cont =>
    intro dirty S c hok henv hst hobs
    cases dirty
    · exact ⟨hst rfl, hobs, fun _ => henv⟩
    · simp [okG] at hok
  | call =>
    intro dirty S c hok henv hst hobs
    cases dirty
    · exact ⟨hst rfl, hobs, fun _ => henv⟩
    · simp [okG] at hok
  | callLeaky =>
    intro dirty S c hok; cases dirty <;> simp [okG] at hok
  | yld =>
    intro dirty S c hok henv hst hobs
    cases dirty
    · refine ⟨hst rfl, ?_, fun _ => henv⟩
      intro x hx
      simp only [exec, List.mem_cons] at hx
      rcases hx with rfl | hx
      · exact hst rfl
      · exact hobs x hx
    · simp [okG] at hok
  | save w f =>
    intro dirty S c hok henv hst hobs
    cases dirty
    · cases f
      · refine ⟨hst rfl, hobs, fun _ v hv => ?_⟩
        simp only [after, List.mem_cons] at hv
        simp only [exec, upd]
        split
        · exact (hst rfl).1
        · rcases hv with rfl | hv
          · contradiction
          · exact henv v hv
      · refine ⟨hst rfl, hobs, fun _ v hv => ?_⟩
        simp only [after, mem_diff, List.mem_singleton] at hv
        simp only [exec, upd, if_neg hv.2]
        exact henv v hv.1
    · simp [okG] at hok
  | assign w =>
    intro dirty S c hok henv hst hobs
    cases dirty
    · refine ⟨hst rfl, hobs, fun _ v hv => ?_⟩
      simp only [after, mem_diff, List.mem_singleton] at hv
      simp only [exec, upd, if_neg hv.2]
      exact henv v hv.1
    · simp [okG] at hok
  | setPrec src =>
    intro dirty S c hok henv hst hobs
    cases dirty
    · simp [okG] at hok
    · cases src with
      | other => simp [okG] at hok
      | saved v =>
        simp only [okG, List.contains_iff_mem] at hok
        refine ⟨?_, hobs, fun _ => henv⟩
        simp only [exec]
        rw [henv v hok]
        exact inv_restore P D hP _
  | setDps src =>
    intro dirty S c hok; cases dirty <;> simp [okG] at hok
  | seq a b iha ihb =>
    intro dirty S c hok henv hst hobs
    have key : ∀ d, okG d S a = true → okG false (after S a) b = true → (d = false → Inv P D c.st) →
        Inv P D (exec (.seq a b) c).2.st ∧ (∀ x ∈ (exec (.seq a b) c).2.obs, Inv P D x) ∧
        ((exec (.seq a b) c).1 = .normal → ∀ v ∈ after S (.seq a b), (exec (.seq a b) c).2.env v = P) := by
      intro d ha hb hd
      have A := iha d S c ha henv hd hobs
      simp only [exec, after]
      split
      · rename_i hn
        exact ihb false _ _ hb (A.2.2 hn) (fun _ => A.1) A.2.1
      · rename_i hn
        exact ⟨A.1, A.2.1, fun h => absurd h hn⟩
    cases dirty
    · simp only [okG, Bool.and_eq_true] at hok
      exact key false hok.1 hok.2 hst
    · simp only [okG, Bool.and_eq_true] at hok
      exact key true hok.1 hok.2 hst
  | ite a b iha ihb =>
    intro dirty S c hok henv hst hobs
    cases dirty
    · simp only [okG, Bool.and_eq_true] at hok
      have A := iha false S c.pop hok.1 henv hst hobs
      have B := ihb false S c.pop hok.2 henv hst hobs
      simp only [exec, after]
      split
      · exact ⟨A.1, A.2.1, fun h v hv => A.2.2 h v (mem_inter.1 hv).1⟩
      · exact ⟨B.1, B.2.1, fun h v hv => B.2.2 h v (mem_inter.1 hv).2⟩
    · simp [okG] at hok
  | loop b ih =>
    intro dirty S c hok henv hst hobs
    cases dirty
    · simp only [okG] at hok
      have hinv := iter_preserve
        (fun c' => Inv P D c'.st ∧ (∀ x ∈ c'.obs, Inv P D x) ∧ ∀ v ∈ diff S (kills b), c'.env v = P)
        (exec b)
        (fun c' hc' => by
          have A := ih false _ c' hok hc'.2.2 (fun _ => hc'.1) hc'.2.1
          refine ⟨A.1, A.2.1, fun v hv => ?_⟩
          rw [env_noKill b c' v (mem_diff.1 hv).2]
          exact hc'.2.2 v hv)
        c.peek.toNat c.pop
        ⟨hst rfl, hobs, fun v hv => henv v (mem_diff.1 hv).1⟩
      simp only [exec, after]
      exact ⟨hinv.1, hinv.2.1, fun _ => hinv.2.2⟩
    · simp [okG] at hok
  | tryFinally b f ihb ihf =>
    intro dirty S c hok henv hst hobs
    cases dirty
    · simp only [okG, Bool.or_eq_true, Bool.and_eq_true, Bool.not_eq_true'] at hok
      have henv1 := env_diff P b S c henv
      have fin : ∀ d, okG d (diff S (kills b)) f = true → (d = false → Inv P D (exec b c).2.st) →
          (∀ x ∈ (exec b c).2.obs, Inv P D x) →
          Inv P D (exec (.tryFinally b f) c).2.st ∧
          (∀ x ∈ (exec (.tryFinally b f) c).2.obs, Inv P D x) ∧
          ((exec (.tryFinally b f) c).1 = .normal →
            ∀ v ∈ after S (.tryFinally b f), (exec (.tryFinally b f) c).2.env v = P) := by
        intro d hf hd ho
        have B := ihf d _ (exec b c).2 hf henv1 hd ho
        simp only [exec, after]
        refine ⟨B.1, B.2.1, fun h => B.2.2 ?_⟩
        by_cases h2 : (exec f (exec b c).2).1 = .normal
        · exact h2
        · rw [if_neg h2] at h; exact absurd h h2
      rcases hok with hok | hok
      · have A := ihb false S c hok.1 henv hst hobs
        exact fin false hok.2 (fun _ => A.1) A.2.1
      · refine fin true hok.2 (fun h => by cases h) ?_
        rw [obs_noYield b c hok.1]; exact hobs
    · simp [okG] at hok
  | tryExcept b hd ihb ihh =>
    intro dirty S c hok henv hst hobs
    cases dirty
    · simp only [okG, Bool.and_eq_true] at hok
      have A := ihb false S c hok.1 henv hst hobs
      have henv1 := env_diff P b S c henv
      simp only [exec, after]
      split
      · rename_i hr
        split
        · have B := ihh false _ (exec b c).2.pop hok.2 henv1 (fun _ => A.1) A.2.1
          exact ⟨B.1, B.2.1, fun h v hv => B.2.2 h v (mem_inter.1 hv).2⟩
        · exact ⟨A.1, A.2.1, fun h => by cases h⟩
      · exact ⟨A.1, A.2.1, fun h v hv => A.2.2 h v (mem_inter.1 hv).1⟩
    · simp [okG] at hok
  | withMgr m f b _ =>
    intro dirty S c hok henv hst hobs
    cases dirty
    · simp only [okG, Bool.and_eq_true, Bool.not_eq_true', List.contains_eq_mem,
        decide_eq_false_iff_not] at hok
      simp only [exec, after]
      split
      · exact ⟨hst rfl, hobs, fun h => by cases h⟩
      · simp only []
        refine ⟨?_, ?_, fun _ v hv => ?_⟩
        · rw [env_noKill b _ m hok.1]
          simp only [Cfg.pop, upd, if_pos]
          rw [(hst rfl).1]
          exact inv_restore P D hP _
        · rw [obs_noYield b _ hok.2]; exact hobs
        · simp only [mem_diff, List.mem_cons, not_or] at hv
          rw [env_noKill b _ v hv.2.2]
          simp only [Cfg.pop, upd, if_neg hv.2.1]
          exact henv v hv.1
    · simp [okG] at hok

end Mp.Skel
