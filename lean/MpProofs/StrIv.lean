/-
  MpProofs/StrIv.lean — intervals from strings (`mpi_from_str`, C07): the result contains the denoted
  number / range, given that the endpoint conversions are directed.
-/
import MpModel.StrIv
import MpProofs.StrFrom
import MpProofs.Add
import MpProofs.Cmp

namespace Mp

/-- The floor and the ceiling conversion of the literal `l` (value `v`) at precision `prec` succeed with
finite canonical results on the correct sides of `v`. True whenever `from_str` takes its exact branch
(`directed_of_exact`); false in general for the approximate branch (finding D4). -/
def Directed (l : List Char) (v : ℚ) (prec : Int) : Prop :=
  ∃ a b, fromStr l prec .f 0 = .ok a ∧ fromStr l prec .c 0 = .ok b ∧
    CanonFin a ∧ CanonFin b ∧ val a ≤ v ∧ v ≤ val b

theorem liftErr_ok {α : Type} (a : α) : liftErr (.ok a : Except Err α) = .ok a := rfl

theorem roundOK_f {prec : Int} (hp : 0 < prec) {x : ℚ} {r : Mpf} (h : RoundOK prec .f x r) :
    CanonFin r ∧ val r ≤ x := ⟨h.1, (h.2.2 hp).1.2.1⟩

theorem roundOK_c {prec : Int} (hp : 0 < prec) {x : ℚ} {r : Mpf} (h : RoundOK prec .c x r) :
    CanonFin r ∧ x ≤ val r := ⟨h.1, (h.2.2 hp).1.2.1⟩

/-- the exact branch of `from_str` is directed -/
theorem directed_of_exact {l : List Char} {v : ℚ} (h : decValueU l = some v) {man exp : Int}
    (hme : strToManExp l 0 = .ok (man, exp)) (hexp : exp.natAbs ≤ 400) {prec : Int} (hp : 0 < prec) :
    Directed l v prec := by
  obtain ⟨a, ha, hra⟩ := fromStr_exact_round h hme hexp prec .f hp
  obtain ⟨b, hb, hrb⟩ := fromStr_exact_round h hme hexp prec .c hp
  exact ⟨a, b, ha, hb, (roundOK_f hp hra).1, (roundOK_c hp hrb).1, (roundOK_f hp hra).2, (roundOK_c hp hrb).2⟩

/-- forms `[a, b]`, `x[y,z]e` and the plain literal: the two endpoint conversions -/
theorem endpoints_contains {a b : List Char} {va vb : ℚ} {prec : Int}
    (ha : Directed a va prec) (hb : Directed b vb prec) :
    ∃ lo hi, endpoints a b prec 0 = .ok (lo, hi) ∧ CanonFin lo ∧ CanonFin hi ∧ val lo ≤ va ∧ vb ≤ val hi := by
  obtain ⟨a1, -, h1, -, c1, -, l1, -⟩ := ha
  obtain ⟨-, b2, -, h2, -, c2, -, l2⟩ := hb
  refine ⟨a1, b2, ?_, c1, c2, l1, l2⟩
  unfold endpoints
  rw [h1, h2]
  rfl

/-- forms `a +- b`, `a (b)`, `a (b%)`: midpoint and half-width -/
theorem mpi_from_str_a_b_contains {x y : List Char} {vx vy : ℚ} {prec : Int} (hp : 0 < prec)
    (hx : Directed x vx (prec + 20)) (hy : Directed y vy (prec + 20)) (hy0 : 0 ≤ vy) (percent : Bool) :
    ∃ lo hi, mpi_from_str_a_b x y percent prec 0 = .ok (lo, hi) ∧ CanonFin lo ∧ CanonFin hi ∧
      val lo ≤ vx - (if percent then |vx| * vy / 100 else vy) ∧
      vx + (if percent then |vx| * vy / 100 else vy) ≤ val hi := by
  have hwp : (0 : Int) < prec + 20 := by omega
  obtain ⟨xa, xb, hxa, hxb, cxa, cxb, lxa, lxb⟩ := hx
  obtain ⟨-, yb, -, hyb, -, cyb, -, lyb⟩ := hy
  have hyb0 : 0 ≤ val yb := le_trans hy0 lyb
  have hge : mpf_ge yb fzero = true := by
    rw [mpf_ge_spec cyb canonFin_fzero, val_fzero]; simpa using hyb0
  -- the half-width actually used
  obtain ⟨w, hw, cw, lw⟩ : ∃ w,
      (if percent then
          liftErr (mpf_div (mpf_mul (mpfMAX (mpf_abs xa) (mpf_abs xb)) yb (prec + 20) .c) (from_int 100)
            (prec + 20) .c)
        else (.ok yb : Except IvErr Mpf)) = .ok w ∧ CanonFin w ∧
        (if percent then |vx| * vy / 100 else vy) ≤ val w := by
    cases percent with
    | false => exact ⟨yb, rfl, cyb, by simpa using lyb⟩
    | true =>
      simp only [if_true]
      have ca := (mpf_abs_spec cxa (le_refl 0) .d)
      have cb := (mpf_abs_spec cxb (le_refl 0) .d)
      have va : val (mpf_abs xa) = |val xa| := ca.2.1 rfl
      have vb : val (mpf_abs xb) = |val xb| := cb.2.1 rfl
      have cM : CanonFin (mpfMAX (mpf_abs xa) (mpf_abs xb)) := by
        unfold mpfMAX; split; exact ca.1; exact cb.1
      have vM : |vx| ≤ val (mpfMAX (mpf_abs xa) (mpf_abs xb)) := by
        have habs : |vx| ≤ max |val xa| |val xb| := by
          rcases le_total 0 vx with h0 | h0
          · rw [abs_of_nonneg h0]
            exact le_trans (le_trans lxb (le_abs_self _)) (le_max_right _ _)
          · rw [abs_of_nonpos h0]
            exact le_trans (le_trans (neg_le_neg lxa) (neg_le_abs _)) (le_max_left _ _)
        unfold mpfMAX
        rw [mpf_ge_spec ca.1 cb.1, va, vb]
        by_cases hc : |val xa| ≥ |val xb|
        · simp only [hc, decide_true, if_true, va]
          exact le_trans habs (max_le (le_refl _) hc)
        · simp only [hc, decide_false, Bool.false_eq_true, if_false, vb]
          exact le_trans habs (max_le (le_of_lt (not_le.mp hc)) (le_refl _))
      obtain ⟨c1, l1⟩ := roundOK_c hwp (mpf_mul_spec cM cyb (le_of_lt hwp) .c)
      have h100 : from_int 100 ≠ fzero := from_int_ne_zero (by norm_num)
      obtain ⟨w, hw, hrw⟩ := mpf_div_spec c1 (from_int_canon 100) h100 hwp .c
      obtain ⟨c2, l2⟩ := roundOK_c hwp hrw
      refine ⟨w, by rw [hw]; rfl, c2, ?_⟩
      rw [from_int_val] at l2
      have hM0 : 0 ≤ val (mpfMAX (mpf_abs xa) (mpf_abs xb)) := le_trans (abs_nonneg _) vM
      have : |vx| * vy ≤ val (mpf_mul (mpfMAX (mpf_abs xa) (mpf_abs xb)) yb (prec + 20) .c) :=
        le_trans (mul_le_mul vM lyb hy0 hM0) l1
      calc |vx| * vy / 100 ≤ val (mpf_mul (mpfMAX (mpf_abs xa) (mpf_abs xb)) yb (prec + 20) .c) / 100 := by
            apply div_le_div_of_nonneg_right this (by norm_num)
        _ ≤ val w := by simpa using l2
  obtain ⟨clo, llo⟩ := roundOK_f hp (mpf_sub_spec cxa cw (le_of_lt hp) .f)
  obtain ⟨chi, lhi⟩ := roundOK_c hp (mpf_add_spec cxb cw (le_of_lt hp) .c false)
  simp only [Bool.false_eq_true, if_false] at lhi
  refine ⟨mpf_sub xa w prec .f, mpf_add xb w prec .c, ?_, clo, chi, by linarith, by linarith⟩
  unfold mpi_from_str_a_b
  simp only [hxa, hxb, hyb, liftErr_ok, hge, Bool.not_true, Bool.false_eq_true, if_false]
  rw [hw]


/-! ### the five textual forms: dispatch of `mpi_from_str` -/

/-- `s.replace(" ", "")` -/
def noSpaces (s : List Char) : List Char := s.filter (· != ' ')

/-- form 5, a single literal: no `+-`, no `(`, no `,` -/
theorem mpi_from_str_plain {s : List Char} {prec : Int}
    (h1 : (splitOn2 '+' '-' (noSpaces s)).length < 2) (h2 : (noSpaces s).contains '(' = false)
    (h3 : (noSpaces s).contains ',' = false) :
    mpi_from_str s prec 0 = endpoints (noSpaces s) (noSpaces s) prec 0 := by
  simp only [noSpaces] at *
  unfold mpi_from_str
  dsimp only
  rw [if_neg (by omega)]
  simp only [h2, h3, Bool.false_eq_true, if_false]

/-- form 1, `a +- b` -/
theorem mpi_from_str_pm {s x y : List Char} {prec : Int}
    (h1 : splitOn2 '+' '-' (noSpaces s) = [x, y]) :
    mpi_from_str s prec 0 = mpi_from_str_a_b x y false prec 0 := by
  simp only [noSpaces] at *
  unfold mpi_from_str
  dsimp only
  rw [if_pos (by rw [h1]; simp), h1]

/-- form 2, `a (b)` and `a (b%)` -/
theorem mpi_from_str_paren {s x y : List Char} {prec : Int}
    (h1 : (splitOn2 '+' '-' (noSpaces s)).length < 2) (h2 : (noSpaces s).contains '(' = true)
    (h3 : (noSpaces s).head? ≠ some '(') (h4 : (noSpaces s).contains ')' = true)
    (h5 : ((noSpaces s).filter (· != ')')).contains '%' = true →
      ((noSpaces s).filter (· != ')')).getLast? = some '%')
    (h6 : splitOnC '(' (((noSpaces s).filter (· != ')')).filter (· != '%')) = [x, y]) :
    mpi_from_str s prec 0 =
      mpi_from_str_a_b x y (((noSpaces s).filter (· != ')')).contains '%') prec 0 := by
  simp only [noSpaces] at *
  unfold mpi_from_str
  dsimp only
  rw [if_neg (by omega), if_pos h2, if_neg (by
    rintro (hh | hh)
    · exact h3 hh
    · rw [h4] at hh; exact Bool.noConfusion hh)]
  rw [if_neg (by
    intro hh
    exact hh.2 (h5 hh.1)), h6]

/-- form 3, `[a, b]` -/
theorem mpi_from_str_brackets {s a b : List Char} {prec : Int}
    (h1 : (splitOn2 '+' '-' (noSpaces s)).length < 2) (h2 : (noSpaces s).contains '(' = false)
    (h3 : (noSpaces s).contains ',' = true) (h4 : (noSpaces s).contains '[' = true)
    (h5 : (noSpaces s).contains ']' = true) (h6 : (noSpaces s).head? = some '[')
    (h7 : splitOnC ',' (((noSpaces s).filter (· != '[')).filter (· != ']')) = [a, b]) :
    mpi_from_str s prec 0 = endpoints a b prec 0 := by
  simp only [noSpaces] at *
  unfold mpi_from_str
  dsimp only
  rw [if_neg (by omega)]
  simp only [h2, Bool.false_eq_true, if_false, h3, if_true, h4, h5, Bool.not_true, or_self, h6, h7]

/-- form 4 with an exponent, `x[y,z]e…` -/
theorem mpi_from_str_shared_e {s x yz y z' z e : List Char} {prec : Int}
    (h1 : (splitOn2 '+' '-' (noSpaces s)).length < 2) (h2 : (noSpaces s).contains '(' = false)
    (h3 : (noSpaces s).contains ',' = true) (h4 : (noSpaces s).contains '[' = true)
    (h5 : (noSpaces s).contains ']' = true) (h6 : (noSpaces s).head? ≠ some '[')
    (h7 : splitOnC '[' (noSpaces s) = [x, yz]) (h8 : splitOnC ',' yz = [y, z'])
    (h9 : (noSpaces s).contains 'e' = true) (h10 : splitOnC ']' z' = [z, e]) :
    mpi_from_str s prec 0 = endpoints (x ++ y ++ e) (x ++ z ++ e) prec 0 := by
  simp only [noSpaces] at *
  unfold mpi_from_str
  dsimp only
  rw [if_neg (by omega)]
  simp only [h2, Bool.false_eq_true, if_false, h3, if_true, h4, h5, Bool.not_true, or_self, h6, h7, h8,
    h9, h10]

/-- form 4 without exponent, `x[y,z]` -/
theorem mpi_from_str_shared {s x yz y z' : List Char} {prec : Int}
    (h1 : (splitOn2 '+' '-' (noSpaces s)).length < 2) (h2 : (noSpaces s).contains '(' = false)
    (h3 : (noSpaces s).contains ',' = true) (h4 : (noSpaces s).contains '[' = true)
    (h5 : (noSpaces s).contains ']' = true) (h6 : (noSpaces s).head? ≠ some '[')
    (h7 : splitOnC '[' (noSpaces s) = [x, yz]) (h8 : splitOnC ',' yz = [y, z'])
    (h9 : (noSpaces s).contains 'e' = false) :
    mpi_from_str s prec 0 = endpoints (x ++ y) (x ++ rstripL (· == ']') z') prec 0 := by
  simp only [noSpaces] at *
  unfold mpi_from_str
  dsimp only
  rw [if_neg (by omega)]
  simp only [h2, Bool.false_eq_true, if_false, h3, if_true, h4, h5, Bool.not_true, or_self, h6, h7, h8, h9]

end Mp
