/-
  MpProofs/IntFunRef.lean — the reference values `binomialRef`, `rfRef`, `ffRef` (driver ops `w_binomial`, `w_rf`, `w_ff`)
  are the binomial coefficients / rising / falling factorials of Mathlib at natural arguments.
-/
import MpModel.IntFun
import Mathlib.Data.Nat.Choose.Basic
import Mathlib.Data.Nat.Factorial.Basic
import Mathlib.Tactic.Ring
import Mathlib.Tactic.Linarith

namespace Mp

theorem binomialRef_fold (n J : Nat) :
    (List.range J).foldl (fun t (j : Nat) => (t * ((n : Int) - (j : Int))).fdiv ((j : Int) + 1)) 1
      = (Nat.choose n J : Int) := by
  induction J with
  | zero => simp
  | succ J ih =>
    rw [List.range_succ, List.foldl_append, ih]
    simp only [List.foldl_cons, List.foldl_nil]
    by_cases h : J ≤ n
    · have h1 : (Nat.choose n J : Int) * ((n : Int) - (J : Int)) = (Nat.choose n (J + 1) : Int) * ((J : Int) + 1) := by
        have := Nat.choose_succ_right_eq n J
        zify [h] at this
        linarith
      rw [h1, Int.mul_fdiv_cancel _ (by omega)]
    · have h0 : Nat.choose n J = 0 := Nat.choose_eq_zero_of_lt (by omega)
      have h1 : Nat.choose n (J + 1) = 0 := Nat.choose_eq_zero_of_lt (by omega)
      simp [h0, h1]

theorem binomialRef_eq_choose (n k : Nat) : binomialRef (n : Int) (k : Int) = (Nat.choose n k : Int) := by
  unfold binomialRef
  rw [if_neg (by omega)]
  simpa using binomialRef_fold n k

theorem binomialRef_neg (n k : Int) (hk : k < 0) : binomialRef n k = 0 := by
  unfold binomialRef; rw [if_pos hk]

theorem rfRef_eq (x n : Nat) : rfRef (x : Int) n = (Nat.ascFactorial x n : Int) := by
  unfold rfRef
  induction n with
  | zero => simp
  | succ n ih =>
    rw [List.range_succ, List.foldl_append, ih]
    simp only [List.foldl_cons, List.foldl_nil, Nat.ascFactorial_succ]
    push_cast; ring

theorem ffRef_eq (x n : Nat) : ffRef (x : Int) n = (Nat.descFactorial x n : Int) := by
  unfold ffRef
  induction n with
  | zero => simp
  | succ n ih =>
    rw [List.range_succ, List.foldl_append, ih]
    simp only [List.foldl_cons, List.foldl_nil, Nat.descFactorial_succ]
    by_cases h : n ≤ x
    · push_cast [h]; ring
    · have h0 : Nat.descFactorial x n = 0 := Nat.descFactorial_eq_zero_iff_lt.mpr (by omega)
      simp [h0]

example : binomialRef (-3) 2 = 6 ∧ rfRef (-3) 5 = 0 ∧ ffRef 10 3 = 720 ∧ bellRef 10 = 115975 := by decide
example : bernfracRef 12 = (-691, 2730) := by decide +kernel

end Mp
