/-
  MpProofs/CIntervalAbs.lean — `mpci_abs`: the modulus of a complex rectangle.
-/
import MpProofs.IntervalMore
import MpProofs.IntervalDiv

namespace Mp

/-- a floor rounding of a nonnegative value is nonnegative (0 is representable) -/
theorem roundOK_f_nonneg {prec : ℤ} (hp : 0 ≤ prec) {x : ℚ} {r : Mpf} (h : RoundOK prec .f x r) (hx : 0 ≤ x) :
    0 ≤ val r := by
  rcases eq_or_lt_of_le hp with h0 | hpos
  · rw [h.2.1 h0.symm]; exact hx
  · obtain ⟨hr, _⟩ := h.2.2 hpos
    exact hr.2.2 0 (repb_zero _) hx

/-- the lower endpoint of an exactly squared interval is nonnegative -/
theorem mpi_square_lower_nonneg {s : Mpi} (hs : FinIv s) : 0 ≤ val (mpi_square s).1 := by
  obtain ⟨ha, hb, _⟩ := hs
  unfold mpi_square
  simp only
  split
  · have r1 := mpf_mul_spec ha ha (le_refl 0) .f
    show 0 ≤ val (mpf_mul s.1 s.1 0 .f)
    rw [r1.2.1 rfl]; exact mul_self_nonneg _
  · split
    · have r1 := mpf_mul_spec hb hb (le_refl 0) .f
      show 0 ≤ val (mpf_mul s.2 s.2 0 .f)
      rw [r1.2.1 rfl]; exact mul_self_nonneg _
    · show 0 ≤ val fzero
      rw [val_fzero]

/-- **modulus of a rectangle, general branch**: `sqrt(x² + y²)` lies between the endpoints of
`mpi_sqrt(mpi_square a + mpi_square b)` for every `x + iy` of the rectangle -/
theorem mpci_abs_general_sound {Z : Mpci} (h1 : FinIv Z.1) (h2 : FinIv Z.2) (hne1 : Z.1 ≠ mpi_zero) (hne2 : Z.2 ≠ mpi_zero)
    {prec : ℤ} (hp : 0 < prec) {x y : ℚ} (hx : MemIv x Z.1) (hy : MemIv y Z.2) :
    ∃ r, mpci_abs Z prec = .ok r ∧ CanonFin r.1 ∧ CanonFin r.2 ∧
      valR r.1 ≤ Real.sqrt ((x * x + y * y : ℚ) : ℝ) ∧ Real.sqrt ((x * x + y * y : ℚ) : ℝ) ≤ valR r.2 := by
  have hp20 : (0 : ℤ) ≤ prec + 20 := by omega
  obtain ⟨fs1, ms1⟩ := mpi_square_sound h1 (le_refl 0) hx
  obtain ⟨fs2, ms2⟩ := mpi_square_sound h2 (le_refl 0) hy
  obtain ⟨ft, mt⟩ := mpi_add_sound fs1 fs2 hp20 ms1 ms2
  have hlow : 0 ≤ val (mpi_add (mpi_square Z.1) (mpi_square Z.2) (prec + 20)).1 := by
    have ha := mpf_add_spec fs1.1 fs2.1 hp20 .f false
    simp only [Bool.false_eq_true, if_false] at ha
    have := roundOK_f_nonneg hp20 ha (add_nonneg (mpi_square_lower_nonneg h1) (mpi_square_lower_nonneg h2))
    have hnn : mpf_add (mpi_square Z.1).1 (mpi_square Z.2).1 (prec + 20) Rnd.f ≠ fnan := roundOK_ne_nan ha
    simpa [mpi_add, hnn] using this
  obtain ⟨r, hr, c1, c2, l, u⟩ := mpi_sqrt_sound ft hlow hp mt
  refine ⟨r, ?_, c1, c2, l, u⟩
  unfold mpci_abs
  simp only [hne1, hne2, if_false]
  exact hr

end Mp
