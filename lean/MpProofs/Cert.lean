/-
  MpProofs/Cert.lean — FOUNDATION lemmas for the certificate checkers of MpModel/Cert.lean:
  evaluation of dyadics `Dy` in ℝ and Gaussian dyadics `G` in ℂ (ring homomorphisms, order),
  bounded sums / maxima, list matrices as Mathlib matrices (`toMat`), Frobenius norm, ∞-operator
  norm bounds and the Laplace determinant.
-/
import MpModel.Cert
import Mathlib.Analysis.Matrix.Normed
import Mathlib.Analysis.Complex.Norm
import Mathlib.Analysis.Real.Sqrt
import Mathlib.LinearAlgebra.Matrix.Determinant.Basic
import Mathlib.Tactic.Ring
import Mathlib.Tactic.Linarith
import Mathlib.Tactic.Positivity
import Mathlib.Tactic.NormNum

namespace Mp.Cert

/-! ## 1. dyadics in ℝ -/

namespace Dy

/-- the real number denoted by a dyadic -/
noncomputable def toReal (a : Dy) : ℝ := (a.man : ℝ) * (2:ℝ) ^ a.exp

@[simp] theorem toReal_zero : Dy.zero.toReal = 0 := by simp [toReal, zero]
@[simp] theorem toReal_one : Dy.one.toReal = 1 := by simp [toReal, one]
@[simp] theorem toReal_ofNat (n : ℕ) : (Dy.ofNat n).toReal = n := by simp [toReal, ofNat]
@[simp] theorem toReal_ofInt (n : ℤ) : (Dy.ofInt n).toReal = n := by simp [toReal, ofInt]
@[simp] theorem toReal_pow2 (e : ℤ) : (Dy.pow2 e).toReal = (2:ℝ) ^ e := by simp [toReal, pow2]

theorem two_zpow_split (x e : ℤ) (h : e ≤ x) :
    (2:ℝ) ^ x = (2:ℝ) ^ (x - e).toNat * (2:ℝ) ^ e := by
  rw [← zpow_natCast, Int.toNat_of_nonneg (by omega), ← zpow_add₀ (by norm_num)]
  congr 1; ring

@[simp] theorem toReal_add' (a b : Dy) : (Dy.add a b).toReal = a.toReal + b.toReal := by
  have ha := two_zpow_split a.exp (min a.exp b.exp) (min_le_left _ _)
  have hb := two_zpow_split b.exp (min a.exp b.exp) (min_le_right _ _)
  unfold Dy.add toReal
  simp only
  conv_rhs => rw [ha, hb]
  push_cast
  ring

@[simp] theorem toReal_add (a b : Dy) : (a + b).toReal = a.toReal + b.toReal := toReal_add' a b

@[simp] theorem toReal_neg' (a : Dy) : (Dy.neg a).toReal = - a.toReal := by
  simp [toReal, neg]

@[simp] theorem toReal_neg (a : Dy) : (-a).toReal = - a.toReal := toReal_neg' a

@[simp] theorem toReal_sub' (a b : Dy) : (Dy.sub a b).toReal = a.toReal - b.toReal := by
  rw [Dy.sub, toReal_add', toReal_neg']; ring

@[simp] theorem toReal_sub (a b : Dy) : (a - b).toReal = a.toReal - b.toReal := toReal_sub' a b

@[simp] theorem toReal_mul' (a b : Dy) : (Dy.mul a b).toReal = a.toReal * b.toReal := by
  unfold Dy.mul toReal
  simp only
  rw [zpow_add₀ (by norm_num)]
  push_cast
  ring

@[simp] theorem toReal_mul (a b : Dy) : (a * b).toReal = a.toReal * b.toReal := toReal_mul' a b

@[simp] theorem toReal_sq (a : Dy) : (Dy.sq a).toReal = a.toReal ^ 2 := by
  rw [Dy.sq, toReal_mul']; ring

@[simp] theorem toReal_abs (a : Dy) : (Dy.abs a).toReal = |a.toReal| := by
  have h2 : (0:ℝ) < (2:ℝ) ^ a.exp := by positivity
  unfold Dy.abs toReal
  simp only
  rw [abs_mul, abs_of_pos h2, Int.natCast_natAbs]
  push_cast
  rfl

@[simp] theorem toReal_pow (a : Dy) (k : ℕ) : (Dy.pow a k).toReal = a.toReal ^ k := by
  induction k with
  | zero => simp [Dy.pow]
  | succ k ih => rw [Dy.pow, toReal_mul', ih, pow_succ]

theorem toReal_nonpos_iff (a : Dy) : a.toReal ≤ 0 ↔ a.man ≤ 0 := by
  have h2 : (0:ℝ) < (2:ℝ) ^ a.exp := by positivity
  unfold toReal
  constructor
  · intro h
    by_contra hc
    have h1 : (0:ℝ) < (a.man : ℝ) := by exact_mod_cast not_le.1 hc
    have := mul_pos h1 h2
    linarith
  · intro h
    have h1 : (a.man : ℝ) ≤ 0 := by exact_mod_cast h
    exact mul_nonpos_of_nonpos_of_nonneg h1 h2.le

theorem toReal_neg_iff (a : Dy) : a.toReal < 0 ↔ a.man < 0 := by
  have h2 : (0:ℝ) < (2:ℝ) ^ a.exp := by positivity
  unfold toReal
  constructor
  · intro h
    by_contra hc
    have h1 : (0:ℝ) ≤ (a.man : ℝ) := by exact_mod_cast not_lt.1 hc
    have := mul_nonneg h1 h2.le
    linarith
  · intro h
    have h1 : (a.man : ℝ) < 0 := by exact_mod_cast h
    exact mul_neg_of_neg_of_pos h1 h2

theorem toReal_eq_zero_iff (a : Dy) : a.toReal = 0 ↔ a.man = 0 := by
  have h2 : (2:ℝ) ^ a.exp ≠ 0 := by positivity
  unfold toReal
  rw [mul_eq_zero]
  constructor
  · rintro (h | h)
    · exact_mod_cast h
    · exact absurd h h2
  · intro h; left; exact_mod_cast h

theorem le_iff (a b : Dy) : Dy.le a b = true ↔ a.toReal ≤ b.toReal := by
  rw [Dy.le, decide_eq_true_iff, ← toReal_nonpos_iff, toReal_sub']
  constructor <;> intro h <;> linarith

theorem lt_iff (a b : Dy) : Dy.lt a b = true ↔ a.toReal < b.toReal := by
  rw [Dy.lt, decide_eq_true_iff, ← toReal_neg_iff, toReal_sub']
  constructor <;> intro h <;> linarith

theorem le_eq_false_iff (a b : Dy) : Dy.le a b = false ↔ b.toReal < a.toReal := by
  rw [← not_le, ← le_iff, Bool.not_eq_true]

theorem lt_eq_false_iff (a b : Dy) : Dy.lt a b = false ↔ b.toReal ≤ a.toReal := by
  rw [← not_lt, ← lt_iff, Bool.not_eq_true]

theorem isZero_iff (a : Dy) : a.isZero = true ↔ a.toReal = 0 := by
  rw [Dy.isZero, decide_eq_true_iff, toReal_eq_zero_iff]

@[simp] theorem toReal_max (a b : Dy) : (Dy.max a b).toReal = Max.max a.toReal b.toReal := by
  unfold Dy.max
  by_cases h : Dy.le a b = true
  · rw [if_pos h, max_eq_right ((le_iff a b).1 h)]
  · rw [if_neg h]
    rw [Bool.not_eq_true, le_eq_false_iff] at h
    rw [max_eq_left h.le]

end Dy

/-! ## 2. Gaussian dyadics in ℂ -/

namespace G

/-- the complex number denoted by a Gaussian dyadic -/
noncomputable def toC (a : G) : ℂ := ⟨a.re.toReal, a.im.toReal⟩

@[simp] theorem toC_re (a : G) : a.toC.re = a.re.toReal := rfl
@[simp] theorem toC_im (a : G) : a.toC.im = a.im.toReal := rfl

@[simp] theorem toC_zero : G.zero.toC = 0 := by
  apply Complex.ext <;> simp [G.zero]
@[simp] theorem toC_one : G.one.toC = 1 := by
  apply Complex.ext <;> simp [G.one]
@[simp] theorem toC_ofDy (a : Dy) : (G.ofDy a).toC = (a.toReal : ℂ) := by
  apply Complex.ext <;> simp [G.ofDy]

@[simp] theorem toC_add' (a b : G) : (G.add a b).toC = a.toC + b.toC := by
  apply Complex.ext <;> simp [G.add]
@[simp] theorem toC_add (a b : G) : (a + b).toC = a.toC + b.toC := toC_add' a b

@[simp] theorem toC_neg' (a : G) : (G.neg a).toC = - a.toC := by
  apply Complex.ext <;> simp [G.neg]
@[simp] theorem toC_neg (a : G) : (-a).toC = - a.toC := toC_neg' a

@[simp] theorem toC_sub' (a b : G) : (G.sub a b).toC = a.toC - b.toC := by
  apply Complex.ext <;> simp [G.sub]
@[simp] theorem toC_sub (a b : G) : (a - b).toC = a.toC - b.toC := toC_sub' a b

@[simp] theorem toC_mul' (a b : G) : (G.mul a b).toC = a.toC * b.toC := by
  apply Complex.ext <;> simp [G.mul]
@[simp] theorem toC_mul (a b : G) : (a * b).toC = a.toC * b.toC := toC_mul' a b

@[simp] theorem toC_conj (a : G) : (G.conj a).toC = (starRingEnd ℂ) a.toC := by
  apply Complex.ext <;> simp [G.conj]

@[simp] theorem toReal_normSq (a : G) : (G.normSq a).toReal = Complex.normSq a.toC := by
  simp [G.normSq, Complex.normSq_apply]

theorem norm_le_absU (a : G) : ‖a.toC‖ ≤ (G.absU a).toReal := by
  have := Complex.norm_le_abs_re_add_abs_im a.toC
  simpa [G.absU] using this

theorem absL_le_norm (a : G) : (G.absL a).toReal ≤ ‖a.toC‖ := by
  have h1 := Complex.abs_re_le_norm a.toC
  have h2 := Complex.abs_im_le_norm a.toC
  simpa [G.absL] using And.intro h1 h2

theorem isZero_iff (a : G) : a.isZero = true ↔ a.toC = 0 := by
  rw [G.isZero, Bool.and_eq_true, Dy.isZero_iff, Dy.isZero_iff, Complex.ext_iff]
  simp

theorem eqv_iff (a b : G) : G.eqv a b = true ↔ a.toC = b.toC := by
  rw [G.eqv, isZero_iff, toC_sub, sub_eq_zero]

theorem isReal_iff (a : G) : a.isReal = true ↔ a.toC.im = 0 := by
  rw [G.isReal, Dy.isZero_iff, toC_im]

end G

/-! ## 3. bounded sums, maxima, quantifiers -/

@[simp] theorem toC_sumG (k : ℕ) (f : ℕ → G) :
    (sumG k f).toC = ∑ l ∈ Finset.range k, (f l).toC := by
  induction k with
  | zero => simp [sumG]
  | succ k ih => rw [sumG, G.toC_add, ih, Finset.sum_range_succ]

@[simp] theorem toReal_sumD (k : ℕ) (f : ℕ → Dy) :
    (sumD k f).toReal = ∑ l ∈ Finset.range k, (f l).toReal := by
  induction k with
  | zero => simp [sumD]
  | succ k ih => rw [sumD, Dy.toReal_add, ih, Finset.sum_range_succ]

theorem maxD_nonneg (k : ℕ) (f : ℕ → Dy) : 0 ≤ (maxD k f).toReal := by
  induction k with
  | zero => simp [maxD]
  | succ k ih => rw [maxD, Dy.toReal_max]; exact le_max_of_le_left ih

theorem le_maxD {k : ℕ} {f : ℕ → Dy} {i : ℕ} (h : i < k) :
    (f i).toReal ≤ (maxD k f).toReal := by
  induction k with
  | zero => exact absurd h (Nat.not_lt_zero _)
  | succ k ih =>
    rw [maxD, Dy.toReal_max]
    rcases Nat.lt_succ_iff_lt_or_eq.1 h with h' | h'
    · exact le_max_of_le_left (ih h')
    · subst h'; exact le_max_right _ _

theorem maxD_le {k : ℕ} {f : ℕ → Dy} {B : ℝ} (hB : 0 ≤ B)
    (h : ∀ i, i < k → (f i).toReal ≤ B) : (maxD k f).toReal ≤ B := by
  induction k with
  | zero => simpa [maxD] using hB
  | succ k ih =>
    rw [maxD, Dy.toReal_max]
    exact max_le (ih fun i hi => h i (Nat.lt_succ_of_lt hi)) (h k (Nat.lt_succ_self k))

theorem allTo_iff (k : ℕ) (f : ℕ → Bool) : allTo k f = true ↔ ∀ i, i < k → f i = true := by
  induction k with
  | zero => simp [allTo]
  | succ k ih =>
    rw [allTo, Bool.and_eq_true, ih]
    constructor
    · rintro ⟨h1, h2⟩ i hi
      rcases Nat.lt_succ_iff_lt_or_eq.1 hi with h' | h'
      · exact h1 i h'
      · subst h'; exact h2
    · intro h
      exact ⟨fun i hi => h i (Nat.lt_succ_of_lt hi), h k (Nat.lt_succ_self k)⟩

/-! ## 4. matrices -/

theorem get_build {r c : ℕ} {f : ℕ → ℕ → G} {i j : ℕ} (hi : i < r) (hj : j < c) :
    get (build r c f) i j = f i j := by
  simp [get, build, List.getD_eq_getElem?_getD, hi, hj]

/-- the `r × c` complex matrix denoted by a list matrix (entries outside the lists are 0) -/
noncomputable def toMat (r c : ℕ) (M : Mat) : Matrix (Fin r) (Fin c) ℂ :=
  fun i j => (get M i j).toC

@[simp] theorem toMat_apply (r c : ℕ) (M : Mat) (i : Fin r) (j : Fin c) :
    toMat r c M i j = (get M i j).toC := rfl

theorem toMat_build (r c : ℕ) (f : ℕ → ℕ → G) :
    toMat r c (build r c f) = Matrix.of fun (i : Fin r) (j : Fin c) => (f i j).toC := by
  ext i j
  simp [get_build i.2 j.2]

theorem toMat_mmul (r k c : ℕ) (A B : Mat) :
    toMat r c (mmul r k c A B) = toMat r k A * toMat k c B := by
  ext i j
  simp [mmul, get_build i.2 j.2, Matrix.mul_apply, Finset.sum_range]

theorem toMat_madd (r c : ℕ) (A B : Mat) :
    toMat r c (madd r c A B) = toMat r c A + toMat r c B := by
  ext i j
  simp [madd, get_build i.2 j.2]

theorem toMat_msub (r c : ℕ) (A B : Mat) :
    toMat r c (msub r c A B) = toMat r c A - toMat r c B := by
  ext i j
  simp [msub, get_build i.2 j.2]

theorem toMat_ident (n : ℕ) : toMat n n (ident n) = 1 := by
  ext i j
  by_cases h : i = j
  · subst h; simp [ident, get_build i.2 i.2]
  · have h' : (i : ℕ) ≠ j := fun e => h (Fin.ext e)
    simp [ident, get_build i.2 j.2, h, h']

theorem toMat_transpose (r c : ℕ) (A : Mat) :
    toMat c r (transpose r c A) = (toMat r c A).transpose := by
  ext i j
  simp [transpose, get_build i.2 j.2]

theorem toMat_conjT (r c : ℕ) (A : Mat) :
    toMat c r (conjT r c A) = (toMat r c A).conjTranspose := by
  ext i j
  simp [conjT, get_build i.2 j.2]

theorem toMat_diagM (n : ℕ) (E : Mat) :
    toMat n n (diagM n E) = Matrix.diagonal (fun i : Fin n => (get E i 0).toC) := by
  ext i j
  by_cases h : i = j
  · subst h; simp [diagM, get_build i.2 i.2]
  · have h' : (i : ℕ) ≠ j := fun e => h (Fin.ext e)
    simp [diagM, get_build i.2 j.2, h, h']

theorem toMat_mpow (n : ℕ) (A : Mat) (k : ℕ) : toMat n n (mpow n A k) = (toMat n n A) ^ k := by
  induction k with
  | zero => rw [mpow, toMat_ident, pow_zero]
  | succ k ih => rw [mpow, toMat_mmul, ih, pow_succ]

/-! ## 5. Frobenius norm -/

/-- Frobenius norm of a complex matrix -/
noncomputable def frob {r c : ℕ} (M : Matrix (Fin r) (Fin c) ℂ) : ℝ :=
  Real.sqrt (∑ i, ∑ j, Complex.normSq (M i j))

theorem toReal_frob2 (r c : ℕ) (M : Mat) :
    (frob2 r c M).toReal = ∑ i : Fin r, ∑ j : Fin c, Complex.normSq (toMat r c M i j) := by
  simp [frob2, Finset.sum_range]

theorem frob_sum_nonneg {r c : ℕ} (M : Matrix (Fin r) (Fin c) ℂ) :
    0 ≤ ∑ i, ∑ j, Complex.normSq (M i j) :=
  Finset.sum_nonneg fun _ _ => Finset.sum_nonneg fun _ _ => Complex.normSq_nonneg _

theorem frob2_nonneg (r c : ℕ) (M : Mat) : 0 ≤ (frob2 r c M).toReal := by
  rw [toReal_frob2]; exact frob_sum_nonneg _

theorem frob_sq {r c : ℕ} (M : Matrix (Fin r) (Fin c) ℂ) :
    frob M ^ 2 = ∑ i, ∑ j, Complex.normSq (M i j) :=
  Real.sq_sqrt (frob_sum_nonneg M)

theorem frob_nonneg {r c : ℕ} (M : Matrix (Fin r) (Fin c) ℂ) : 0 ≤ frob M :=
  Real.sqrt_nonneg _

theorem sqrt_frob2 (r c : ℕ) (M : Mat) :
    Real.sqrt (frob2 r c M).toReal = frob (toMat r c M) := by
  rw [toReal_frob2, frob]

theorem toReal_tol2 (p : ℤ) : (tol2 p).toReal = ((2:ℝ) ^ (10 - p)) ^ 2 := by
  rw [tol2, Dy.toReal_pow2, ← zpow_natCast, ← zpow_mul]
  congr 1; push_cast; ring

theorem toReal_tol1 (p : ℤ) : (tol1 p).toReal = (2:ℝ) ^ (10 - p) := by
  rw [tol1, Dy.toReal_pow2]

theorem sqrt_tol2_mul (p : ℤ) (s : ℝ) :
    Real.sqrt ((tol2 p).toReal * s) = (2:ℝ) ^ (10 - p) * Real.sqrt s := by
  have ht : (0:ℝ) ≤ (2:ℝ) ^ (10 - p) := by positivity
  rw [toReal_tol2, Real.sqrt_mul (sq_nonneg _), Real.sqrt_sq ht]

theorem frobLe_sound {r c : ℕ} {p : ℤ} {M : Mat} {S : Dy} (h : frobLe r c p M S = true) :
    frob (toMat r c M) ≤ (2:ℝ) ^ (10 - p) * Real.sqrt S.toReal := by
  rw [frobLe, Dy.le_iff, Dy.toReal_mul] at h
  rw [← sqrt_frob2, ← sqrt_tol2_mul]
  exact Real.sqrt_le_sqrt h

theorem frobLe_complete {r c : ℕ} {p : ℤ} {M : Mat} {S : Dy} (hS : 0 ≤ S.toReal)
    (h : frobLe r c p M S = false) :
    ¬ frob (toMat r c M) ≤ (2:ℝ) ^ (10 - p) * Real.sqrt S.toReal := by
  rw [frobLe, Dy.le_eq_false_iff, Dy.toReal_mul] at h
  rw [← sqrt_frob2, ← sqrt_tol2_mul, not_le]
  have h0 : 0 ≤ (tol2 p).toReal * S.toReal := by
    rw [toReal_tol2]; positivity
  exact Real.sqrt_lt_sqrt h0 h

/-! ## 6. ∞-operator norm (max row sum) -/

section Linf

open scoped Matrix.Norms.Operator NNReal

theorem row_le_linf {r c : ℕ} (A : Matrix (Fin r) (Fin c) ℂ) (i : Fin r) :
    ∑ j, ‖A i j‖ ≤ ‖A‖ := by
  rw [Matrix.linfty_opNorm_def]
  have h := Finset.le_sup (f := fun i : Fin r => ∑ j : Fin c, ‖A i j‖₊) (Finset.mem_univ i)
  have h' := NNReal.coe_le_coe.2 h
  simpa using h'

theorem linf_le_of_rows {r c : ℕ} (A : Matrix (Fin r) (Fin c) ℂ) {B : ℝ} (hB : 0 ≤ B)
    (h : ∀ i, ∑ j, ‖A i j‖ ≤ B) : ‖A‖ ≤ B := by
  rw [Matrix.linfty_opNorm_def]
  lift B to ℝ≥0 using hB
  rw [NNReal.coe_le_coe]
  refine Finset.sup_le fun i _ => ?_
  rw [← NNReal.coe_le_coe]
  simpa using h i

theorem linf_le_rowSumU (r c : ℕ) (M : Mat) : ‖toMat r c M‖ ≤ (rowSumU r c M).toReal := by
  refine linf_le_of_rows _ (maxD_nonneg _ _) fun i => ?_
  refine le_trans ?_ (le_maxD (f := fun i => sumD c fun j => (get M i j).absU) i.2)
  rw [toReal_sumD, Finset.sum_range]
  exact Finset.sum_le_sum fun j _ => G.norm_le_absU _

theorem rowSumL_le_linf (r c : ℕ) (M : Mat) : (rowSumL r c M).toReal ≤ ‖toMat r c M‖ := by
  refine maxD_le (norm_nonneg _) fun i hi => ?_
  refine le_trans ?_ (row_le_linf (toMat r c M) ⟨i, hi⟩)
  rw [toReal_sumD, Finset.sum_range]
  exact Finset.sum_le_sum fun j _ => G.absL_le_norm _

end Linf

/-! ## 7. determinant -/

theorem succAbove_val {n : ℕ} (j : Fin (n + 1)) (b : Fin n) :
    ((j.succAbove b : Fin (n + 1)) : ℕ) = if (b : ℕ) < j then (b : ℕ) else b + 1 := by
  unfold Fin.succAbove
  by_cases h : b.castSucc < j
  · have h' : (b : ℕ) < j := by simpa [Fin.lt_def] using h
    rw [if_pos h, if_pos h']; rfl
  · have h' : ¬ (b : ℕ) < j := by simpa [Fin.lt_def] using h
    rw [if_neg h, if_neg h']; rfl

theorem toMat_minor (n : ℕ) (M : Mat) (j : Fin (n + 1)) :
    toMat n n (minor n M j) = (toMat (n + 1) (n + 1) M).submatrix Fin.succ j.succAbove := by
  ext a b
  rw [toMat_apply, minor, get_build a.2 b.2, Matrix.submatrix_apply, toMat_apply, succAbove_val]
  rfl

theorem toC_detN (n : ℕ) (M : Mat) : (detN n M).toC = (toMat n n M).det := by
  induction n generalizing M with
  | zero => simp [detN]
  | succ n ih =>
    rw [detN, toC_sumG, Finset.sum_range, Matrix.det_succ_row_zero]
    refine Finset.sum_congr rfl fun j _ => ?_
    rw [G.toC_mul, ih, toMat_minor]
    congr 1
    rcases Nat.even_or_odd (j : ℕ) with he | ho
    · rw [if_pos (Nat.even_iff.1 he), he.neg_one_pow, one_mul]; rfl
    · have : ¬ (j : ℕ) % 2 = 0 := by rw [Nat.odd_iff.1 ho]; decide
      rw [if_neg this, ho.neg_one_pow, G.toC_neg]
      simp

end Mp.Cert
