/-
  MpProofs/Spec.lean — specification vocabulary (DESIGN.md §3).
  Values are rationals; the floating-point format has unbounded exponent.
-/
import MpModel.Core
import Mathlib.Data.Rat.Defs
import Mathlib.Algebra.Order.Field.Basic
import Mathlib.Algebra.Order.Field.Power
import Mathlib.Algebra.Order.Ring.Abs
import Mathlib.Algebra.Order.Field.Rat
import Mathlib.Data.Rat.Cast.Order
import Mathlib.Algebra.Ring.Parity
import Mathlib.Tactic.Ring
import Mathlib.Tactic.Linarith
import Mathlib.Tactic.Positivity
import Mathlib.Tactic.NormNum
import Mathlib.Tactic.FieldSimp
import Mathlib.Tactic.Zify
import Mathlib.Tactic.Qify

namespace Mp

/-- the rational value of a finite raw mpf -/
def val (x : Mpf) : ℚ := (-1 : ℚ) ^ x.sign * (x.man : ℚ) * (2 : ℚ) ^ x.exp

/-- `x` is not one of inf / -inf / nan (zero mantissa with nonzero exponent) -/
def Finite (x : Mpf) : Prop := ¬ (x.man = 0 ∧ x.exp ≠ 0)

instance (x : Mpf) : Decidable (Finite x) := by unfold Finite; infer_instance

/-- the canonical encodings: the four special tuples, or odd mantissa with exact bit count -/
def Canonical (x : Mpf) : Prop :=
  x = fzero ∨ x = finf ∨ x = fninf ∨ x = fnan ∨
  (x.sign ≤ 1 ∧ x.man % 2 = 1 ∧ x.bc = (bitcount x.man : Int))

instance (x : Mpf) : Decidable (Canonical x) := by unfold Canonical; infer_instance

/-- canonical and finite: zero, or odd mantissa with exact bit count -/
def CanonFin (x : Mpf) : Prop :=
  x = fzero ∨ (x.sign ≤ 1 ∧ x.man % 2 = 1 ∧ x.bc = (bitcount x.man : Int))

instance (x : Mpf) : Decidable (CanonFin x) := by unfold CanonFin; infer_instance

section format
variable {K : Type*} [Field K] [LinearOrder K] [IsStrictOrderedRing K]

/-- the value of a finite raw mpf in an arbitrary ordered field (`val` is the case `K = ℚ`) -/
def valK (K : Type*) [Field K] (x : Mpf) : K := (-1 : K) ^ x.sign * (x.man : K) * (2 : K) ^ x.exp

/-- `y` is representable with a `p`-bit mantissa (exponent unbounded) -/
def Repb (p : ℕ) (y : K) : Prop := ∃ (m : ℤ) (e : ℤ), |m| < 2 ^ p ∧ y = (m : K) * (2 : K) ^ e

/-- round toward -∞: the greatest representable value `≤ x` -/
def IsRoundF (p : ℕ) (x y : K) : Prop :=
  Repb p y ∧ y ≤ x ∧ ∀ z, Repb p z → z ≤ x → z ≤ y

/-- round toward +∞: the least representable value `≥ x` -/
def IsRoundC (p : ℕ) (x y : K) : Prop :=
  Repb p y ∧ x ≤ y ∧ ∀ z, Repb p z → x ≤ z → y ≤ z

/-- `z` has a strictly smaller 2-adic valuation than `y` ("y is the even one of the two"):
on the scale where `z` is an odd integer, `y` is an even integer. -/
def EvenerThan (y z : K) : Prop :=
  ∃ (a b : ℤ) (E : ℤ), a % 2 = 1 ∧ z = (a : K) * (2 : K) ^ E ∧ y = 2 * (b : K) * (2 : K) ^ E

/-- round to nearest, ties to even: no representable value is closer, and a representable value
at the same distance is either `y` itself or has the odd mantissa of the two. -/
def IsRoundN (p : ℕ) (x y : K) : Prop :=
  Repb p y ∧ ∀ z, Repb p z → (|x - y| < |x - z| ∨ (|x - y| = |x - z| ∧ (z = y ∨ EvenerThan y z)))

/-- the five rounding modes -/
def IsRound (p : ℕ) (rnd : Rnd) (x y : K) : Prop :=
  match rnd with
  | .f => IsRoundF p x y
  | .c => IsRoundC p x y
  | .d => if 0 ≤ x then IsRoundF p x y else IsRoundC p x y
  | .u => if 0 ≤ x then IsRoundC p x y else IsRoundF p x y
  | .n => IsRoundN p x y

end format

/-- The contract of a rounded operation: canonical finite result, exact when `prec = 0`,
otherwise the correctly rounded value with at most `prec` mantissa bits. -/
def RoundOK (prec : Int) (rnd : Rnd) (x : ℚ) (r : Mpf) : Prop :=
  CanonFin r ∧ (prec = 0 → val r = x) ∧
  (0 < prec → IsRound prec.toNat rnd x (val r) ∧ r.bc ≤ prec)

end Mp
