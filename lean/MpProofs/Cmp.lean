/-
  MpProofs/Cmp.lean — `mpf_cmp` and the ordering predicates agree with comparison of exact values;
  canonical encodings are injective in the value.
-/
import MpProofs.Add

namespace Mp

/-- three-way comparison of rationals, Python `cmp` convention -/
def cmpQ (a b : ℚ) : Int := if a < b then -1 else if a = b then 0 else 1

theorem val_pos_of_sign0 {s : Mpf} (hm : s.man ≠ 0) (h : s.sign = 0) : 0 < val s := by
  rw [val_def, h, pow_zero, one_mul]
  have : (0 : ℚ) < s.man := by exact_mod_cast Nat.pos_of_ne_zero hm
  have := two_zpow_pos (K := ℚ) s.exp
  positivity

theorem val_neg_of_sign1 {s : Mpf} (hm : s.man ≠ 0) (h : s.sign = 1) : val s < 0 := by
  rw [val_def, h, pow_one, neg_one_mul, neg_lt_zero]
  have : (0 : ℚ) < s.man := by exact_mod_cast Nat.pos_of_ne_zero hm
  have := two_zpow_pos (K := ℚ) s.exp
  positivity

/-- magnitude window of a nonzero value with exact bit count -/
theorem mag_bounds (m : ℕ) (hm : m ≠ 0) (e : ℤ) :
    (2 : ℚ) ^ (e + bitcount m - 1) ≤ (m : ℚ) * 2 ^ e ∧ (m : ℚ) * 2 ^ e < 2 ^ (e + bitcount m) := by
  have h1 := bitcount_le hm
  have h2 := bitcount_lt m
  have hb := bitcount_pos hm
  have he := two_zpow_pos (K := ℚ) e
  constructor
  · have : (2 : ℚ) ^ (e + bitcount m - 1) = 2 ^ (bitcount m - 1) * 2 ^ e := by
      rw [← zpow_natCast, ← zpow_add₀ (by norm_num)]; congr 1
      have : ((bitcount m - 1 : ℕ) : ℤ) = (bitcount m : ℤ) - 1 := by omega
      rw [this]; ring
    rw [this]
    have : ((2 : ℚ) ^ (bitcount m - 1)) ≤ m := by exact_mod_cast h1
    exact mul_le_mul_of_nonneg_right this he.le
  · have : (2 : ℚ) ^ (e + bitcount m) = 2 ^ (bitcount m) * 2 ^ e := by
      rw [← zpow_natCast, ← zpow_add₀ (by norm_num)]; congr 1; ring
    rw [this]
    have : (m : ℚ) < (2 : ℚ) ^ (bitcount m) := by exact_mod_cast h2
    exact mul_lt_mul_of_pos_right this he

/-- two odd mantissas with equal value have equal exponent and mantissa -/
theorem odd_man_exp_inj {m m' : ℕ} {e e' : ℤ} (hm : m % 2 = 1) (hm' : m' % 2 = 1)
    (h : (m : ℚ) * 2 ^ e = (m' : ℚ) * 2 ^ e') : m = m' ∧ e = e' := by
  have key : ∀ {m m' : ℕ} {e e' : ℤ}, m % 2 = 1 → m' % 2 = 1 → e ≤ e' →
      (m : ℚ) * 2 ^ e = (m' : ℚ) * 2 ^ e' → m = m' ∧ e = e' := by
    intro m m' e e' hm hm' hle h
    obtain ⟨k, rfl⟩ : ∃ k : ℕ, e' = e + k := ⟨(e' - e).toNat, by omega⟩
    rw [two_zpow_split] at h
    have he := two_zpow_pos (K := ℚ) e
    have h2 : (m : ℚ) = (m' : ℚ) * 2 ^ k := by
      have : (m : ℚ) * 2 ^ e = ((m' : ℚ) * 2 ^ k) * 2 ^ e := by rw [h]; ring
      exact mul_right_cancel₀ he.ne' this
    have h3 : m = m' * 2 ^ k := by exact_mod_cast h2
    rcases Nat.eq_zero_or_pos k with h0 | hpos
    · subst h0; simp at h3; exact ⟨h3, by simp⟩
    · exfalso
      obtain ⟨j, rfl⟩ : ∃ j, k = j + 1 := ⟨k - 1, by omega⟩
      rw [pow_succ, ← mul_assoc] at h3
      omega
  rcases le_total e e' with hle | hle
  · exact key hm hm' hle h
  · have := key hm' hm hle h.symm
    exact ⟨this.1.symm, this.2.symm⟩

/-- **canonical encodings are injective**: two canonical finite tuples with the same value are the
same tuple (so equality, hashing and pickling never distinguish equal values). -/
theorem canonFin_val_inj {s t : Mpf} (hs : CanonFin s) (ht : CanonFin t) (h : val s = val t) : s = t := by
  rcases hs.cases with rfl | ⟨hsm, hss, hso, hsb⟩
  · rcases ht.cases with rfl | ⟨htm, hts, hto, htb⟩
    · rfl
    · exfalso
      rw [val_fzero] at h
      have : t.sign = 0 ∨ t.sign = 1 := by omega
      rcases this with h0 | h1
      · have := val_pos_of_sign0 htm h0; linarith
      · have := val_neg_of_sign1 htm h1; linarith
  · rcases ht.cases with rfl | ⟨htm, hts, hto, htb⟩
    · exfalso
      rw [val_fzero] at h
      have : s.sign = 0 ∨ s.sign = 1 := by omega
      rcases this with h0 | h1
      · have := val_pos_of_sign0 hsm h0; linarith
      · have := val_neg_of_sign1 hsm h1; linarith
    · have hsign : s.sign = t.sign := by
        have a : s.sign = 0 ∨ s.sign = 1 := by omega
        have b : t.sign = 0 ∨ t.sign = 1 := by omega
        rcases a with a | a <;> rcases b with b | b
        · omega
        · have := val_pos_of_sign0 hsm a; have := val_neg_of_sign1 htm b; linarith
        · have := val_neg_of_sign1 hsm a; have := val_pos_of_sign0 htm b; linarith
        · omega
      rw [val_def, val_def, hsign] at h
      have hne : ((-1 : ℚ) ^ t.sign) ≠ 0 := pow_ne_zero _ (by norm_num)
      have h' := mul_left_cancel₀ hne h
      obtain ⟨hm, he⟩ := odd_man_exp_inj hso hto h'
      cases s; cases t
      simp only [Mpf.mk.injEq]
      simp only at hsign hm he hsb htb
      exact ⟨hsign, hm, he, by rw [hsb, htb, hm]⟩

theorem cmpQ_neg (a b : ℚ) : cmpQ (-a) (-b) = -cmpQ a b := by
  unfold cmpQ
  rcases lt_trichotomy a b with h | h | h
  · have h1 : ¬ (-a < -b) := by linarith
    have h2 : ¬ (-a = -b) := by intro h'; linarith
    simp [h, h1, h2]
  · subst h; simp
  · have h1 : (-a < -b) := by linarith
    have h2 : ¬ (a < b) := by linarith
    have h3 : ¬ (a = b) := by intro h'; linarith
    simp [h1, h2, h3]

theorem cmpQ_pos {x : ℚ} (h : 0 < x) : cmpQ x 0 = 1 := by
  unfold cmpQ; rw [if_neg (not_lt.2 h.le), if_neg h.ne']

theorem cmpQ_negv {x : ℚ} (h : x < 0) : cmpQ x 0 = -1 := by
  unfold cmpQ; rw [if_pos h]

theorem mpf_sign_canon {s : Mpf} (hs : CanonFin s) : mpf_sign s = cmpQ (val s) 0 := by
  rcases hs.cases with rfl | ⟨hsm, hss, hso, hsb⟩
  · have : mpf_sign fzero = 0 := by decide
    rw [this, val_fzero]; simp [cmpQ]
  · simp only [mpf_sign, hsm, if_false]
    have : s.sign = 0 ∨ s.sign = 1 := by omega
    rcases this with h | h
    · rw [cmpQ_pos (val_pos_of_sign0 hsm h), h]; rfl
    · rw [cmpQ_negv (val_neg_of_sign1 hsm h), h]; rfl

theorem cmpQ_neg_zero (x : ℚ) : -cmpQ x 0 = cmpQ 0 x := by
  unfold cmpQ
  rcases lt_trichotomy x 0 with h | h | h
  · have h1 : ¬ ((0:ℚ) < x) := by linarith
    have h3 : ¬ ((0:ℚ) = x) := by intro h'; linarith
    simp [h, h1, h3]
  · subst h; simp
  · have h1 : ¬ (x < 0) := by linarith
    have h2 : ¬ (x = 0) := by intro h'; linarith
    simp [h1, h2, h]

/-- **`mpf_cmp` is the exact three-way comparison** of the values, for all finite canonical operands
(the fast paths on sign, exponent and leading-bit position, and the 5-bit subtraction fallback). -/
theorem mpf_cmp_spec {s t : Mpf} (hs : CanonFin s) (ht : CanonFin t) : mpf_cmp s t = cmpQ (val s) (val t) := by
  unfold mpf_cmp
  rcases hs.cases with rfl | ⟨hsm, hss, hso, hsb⟩
  · have h0 : fzero.man = 0 := rfl
    simp only [h0, true_or, if_true]
    rw [mpf_sign_canon ht, cmpQ_neg_zero, val_fzero]
  rcases ht.cases with rfl | ⟨htm, hts, hto, htb⟩
  · have h0 : fzero.man = 0 := rfl
    have hne : s ≠ fzero := by intro h; rw [h] at hsm; exact hsm rfl
    simp only [h0, or_true, if_true, hne, if_false]
    rw [mpf_sign_canon hs, val_fzero]
  simp only [hsm, htm, or_self, if_false]
  have a : s.sign = 0 ∨ s.sign = 1 := by omega
  have b : t.sign = 0 ∨ t.sign = 1 := by omega
  split
  · rename_i hne
    split
    · rename_i h0
      have hb : t.sign = 1 := by omega
      have := val_pos_of_sign0 hsm h0; have := val_neg_of_sign1 htm hb
      unfold cmpQ; rw [if_neg (by linarith), if_neg (by linarith)]
    · rename_i h0
      have ha : s.sign = 1 := by omega
      have hb : t.sign = 0 := by omega
      have := val_neg_of_sign1 hsm ha; have := val_pos_of_sign0 htm hb
      unfold cmpQ; rw [if_pos (by linarith)]
  · rename_i hsg
    have hsg : s.sign = t.sign := by omega
    -- same sign: compare magnitudes, flip for negative
    have hval : ∀ (P : ℚ → ℚ → Prop), True := fun _ => trivial
    have hflip : val s - val t = (-1 : ℚ) ^ s.sign * ((s.man : ℚ) * 2 ^ s.exp - (t.man : ℚ) * 2 ^ t.exp) := by
      rw [val_def, val_def, hsg]; ring
    have cmp_of_mag : ∀ (c : Int),
        (c = cmpQ ((s.man : ℚ) * 2 ^ s.exp) ((t.man : ℚ) * 2 ^ t.exp)) →
        (if s.sign ≠ 0 then -c else c) = cmpQ (val s) (val t) := by
      intro c hc
      rw [hc, val_def, val_def, ← hsg]
      generalize (s.man : ℚ) * 2 ^ s.exp = A
      generalize (t.man : ℚ) * 2 ^ t.exp = B
      rcases a with h | h
      · simp [h]
      · simp only [h, ne_eq, one_ne_zero, not_false_eq_true, if_true, pow_one, neg_one_mul]
        rw [cmpQ_neg]
    split
    · rename_i hexp
      -- equal exponents: compare mantissas
      have he := two_zpow_pos (K := ℚ) t.exp
      split
      · rename_i hman
        have : val s = val t := by rw [val_def, val_def, hsg, hexp, hman]
        unfold cmpQ; rw [this]; simp
      · rename_i hman
        split
        · rename_i hgt
          have hc := cmp_of_mag 1 (by
            unfold cmpQ
            have : (t.man : ℚ) < s.man := by exact_mod_cast hgt
            rw [hexp, if_neg (by nlinarith), if_neg (by nlinarith)])
          simpa using hc
        · rename_i hgt
          have hlt : s.man < t.man := by omega
          have hc := cmp_of_mag (-1) (by
            unfold cmpQ
            have : (s.man : ℚ) < t.man := by exact_mod_cast hlt
            rw [hexp, if_pos (by nlinarith)])
          simpa using hc
    · rename_i hexp
      have hs1 := mag_bounds s.man hsm s.exp
      have ht1 := mag_bounds t.man htm t.exp
      rw [hsb, htb]
      split
      · rename_i hab
        -- top bit of s strictly below top bit of t
        have hc := cmp_of_mag (-1) (by
          unfold cmpQ
          have : (2 : ℚ) ^ (s.exp + bitcount s.man) ≤ 2 ^ (t.exp + bitcount t.man - 1) :=
            zpow_le_zpow_right₀ (by norm_num) (by omega)
          rw [if_pos (by linarith [hs1.2, ht1.1])])
        simpa using hc
      · split
        · rename_i hab hba
          have hc := cmp_of_mag 1 (by
            unfold cmpQ
            have : (2 : ℚ) ^ (t.exp + bitcount t.man) ≤ 2 ^ (s.exp + bitcount s.man - 1) :=
              zpow_le_zpow_right₀ (by norm_num) (by omega)
            rw [if_neg (by linarith [hs1.1, ht1.2]), if_neg (by linarith [hs1.1, ht1.2])])
          simpa using hc
        · -- same leading bit position: subtract at 5 bits, rounding to floor
          have hsub := mpf_sub_spec hs ht (prec := 5) (by norm_num) .f
          obtain ⟨hcanon, _, hr⟩ := hsub
          obtain ⟨hround, _⟩ := hr (by norm_num)
          simp only [IsRound] at hround
          obtain ⟨_, hle, hmax⟩ := hround
          have hne : val s ≠ val t := by
            intro h
            have := canonFin_val_inj hs ht h
            rw [this] at hexp; exact hexp rfl
          split
          · rename_i hdsign
            -- negative difference
            have hdm : (mpf_sub s t 5 .f).man ≠ 0 := by
              intro h0
              rcases hcanon.cases with h | ⟨hm, _⟩
              · rw [h] at hdsign; exact hdsign rfl
              · exact hm h0
            have hds : (mpf_sub s t 5 .f).sign = 1 := by
              rcases hcanon.cases with h | ⟨_, h1, _⟩
              · rw [h] at hdm; exact absurd rfl hdm
              · omega
            have hneg := val_neg_of_sign1 hdm hds
            have : val s - val t < 0 := by
              by_contra hcon
              push_neg at hcon
              have := hmax 0 (repb_zero _) hcon
              linarith
            unfold cmpQ; rw [if_pos (by linarith)]
          · rename_i hdsign
            have hds : (mpf_sub s t 5 .f).sign = 0 := by omega
            have hnonneg : 0 ≤ val (mpf_sub s t 5 .f) := by
              rw [val_def, hds, pow_zero, one_mul]
              have := two_zpow_pos (K := ℚ) (mpf_sub s t 5 .f).exp
              positivity
            have : 0 ≤ val s - val t := le_trans hnonneg hle
            unfold cmpQ
            rw [if_neg (by linarith), if_neg hne]

theorem not_fnan_of_canonFin {s : Mpf} (hs : CanonFin s) : s ≠ fnan := by
  rcases hs.cases with rfl | ⟨hm, _⟩
  · decide
  · intro h; rw [h] at hm; exact hm rfl

theorem mpf_lt_spec {s t : Mpf} (hs : CanonFin s) (ht : CanonFin t) : mpf_lt s t = decide (val s < val t) := by
  simp only [mpf_lt, not_fnan_of_canonFin hs, not_fnan_of_canonFin ht, or_self, if_false, mpf_cmp_spec hs ht]
  unfold cmpQ
  rcases lt_trichotomy (val s) (val t) with h | h | h
  · simp [h]
  · simp [h]
  · have h1 : ¬ val s < val t := by linarith
    have h2 : ¬ val s = val t := by linarith
    simp [h1, h2]

theorem mpf_le_spec {s t : Mpf} (hs : CanonFin s) (ht : CanonFin t) : mpf_le s t = decide (val s ≤ val t) := by
  simp only [mpf_le, not_fnan_of_canonFin hs, not_fnan_of_canonFin ht, or_self, if_false, mpf_cmp_spec hs ht]
  unfold cmpQ
  rcases lt_trichotomy (val s) (val t) with h | h | h
  · simp [h, h.le]
  · simp [h]
  · have h1 : ¬ val s < val t := by linarith
    have h2 : ¬ val s = val t := by linarith
    have h3 : ¬ val s ≤ val t := by linarith
    simp [h1, h2, h3]

theorem mpf_gt_spec {s t : Mpf} (hs : CanonFin s) (ht : CanonFin t) : mpf_gt s t = decide (val s > val t) := by
  simp only [mpf_gt, not_fnan_of_canonFin hs, not_fnan_of_canonFin ht, or_self, if_false, mpf_cmp_spec hs ht]
  unfold cmpQ
  rcases lt_trichotomy (val s) (val t) with h | h | h
  · have h1 : ¬ val t < val s := by linarith
    simp [h, h1]
  · simp [h]
  · have h1 : ¬ val s < val t := by linarith
    have h2 : ¬ val s = val t := by linarith
    simp [h1, h2, h]

theorem mpf_ge_spec {s t : Mpf} (hs : CanonFin s) (ht : CanonFin t) : mpf_ge s t = decide (val s ≥ val t) := by
  simp only [mpf_ge, not_fnan_of_canonFin hs, not_fnan_of_canonFin ht, or_self, if_false, mpf_cmp_spec hs ht]
  unfold cmpQ
  rcases lt_trichotomy (val s) (val t) with h | h | h
  · have h1 : ¬ val t ≤ val s := by linarith
    simp [h, h1]
  · simp [h]
  · have h1 : ¬ val s < val t := by linarith
    have h2 : ¬ val s = val t := by linarith
    simp [h1, h2, h.le]

theorem mpf_eq_spec {s t : Mpf} (hs : CanonFin s) (ht : CanonFin t) : mpf_eq s t = decide (val s = val t) := by
  simp only [mpf_eq, not_fnan_of_canonFin hs, not_fnan_of_canonFin ht, or_self, and_false, if_false]
  by_cases h : s = t
  · subst h; simp
  · have : val s ≠ val t := fun hv => h (canonFin_val_inj hs ht hv)
    simp [h, this]

end Mp
