/-
  MpProofs/IntFunEuler.lean — `eulernum` (libintmath.py): the cache written inside the inner loop.

  The pure functions `eulerA`, `eulerS` replay the in-place array recurrence without the cache;
  `eulerCacheVal n` is the value the code stores under key `n` (last write of the inner loop, with the
  sign applied AFTER the floor division), `eulerRet n` the value the code returns when it computes `n`
  (sign applied BEFORE the floor division).  They agree iff `2^n ∣ eulerS n`.
-/
import MpProofs.IntFun
import Mathlib.Data.Nat.Choose.Basic
import Mathlib.Tactic.Positivity

namespace Mp

theorem dset_dset_same (d : IDict) (k v w : Int) : dset (dset d k v) k w = dset d k w := by
  induction d with
  | nil => simp [dset]
  | cons h t ih =>
    obtain ⟨a, b⟩ := h
    by_cases hak : a = k
    · simp [dset, hak]
    · simp [dset, hak, ih]

/-- the summation loop without the cache -/
def eulerSumP : Nat → Nat → List Int → Int → Int
  | 0, _, _, s => s
  | cnt+1, k, a, s => eulerSumP cnt (k - 2) a (s + a.getD (k+1) 0)

theorem eulerSum_fst (cnt k n : Nat) (a : List Int) (s : Int) (c : IDict) :
    (eulerSum cnt k n a s c).1 = eulerSumP cnt k a s := by
  induction cnt generalizing k s c with
  | zero => rfl
  | succ cnt ih => simp only [eulerSum, eulerSumP]; rw [ih]

theorem eulerSum_snd (cnt k n : Nat) (a : List Int) (s : Int) (c : IDict) :
    (eulerSum (cnt + 1) k n a s c).2 = if n ≤ MAX_EULER_CACHE
      then dset c n (eulerSign n * (eulerSumP (cnt + 1) k a s).fdiv (2 ^ n)) else c := by
  induction cnt generalizing k s c with
  | zero => simp only [eulerSum, eulerSumP]
  | succ cnt ih =>
    rw [eulerSum, ih]
    by_cases h : n ≤ MAX_EULER_CACHE
    · simp only [h, if_true, dset_dset_same]
      rfl
    · simp only [h, if_false]

/-- the array `a` after `n` rounds of the outer loop -/
def eulerA : Nat → List Int
  | 0 => [0, 0, 1, 0, 0, 0]
  | n+1 => eulerUpd (eulerCnt (n+1)) (n+2) (eulerA n) ++ [0]

/-- `suma` at the end of round `n` -/
def eulerS (n : Nat) : Int := eulerSumP (eulerCnt n) (n+1) (eulerA n) 0

/-- the value stored in `_cache[n]` -/
def eulerCacheVal (n : Nat) : Int := eulerSign n * (eulerS n).fdiv (2 ^ n)

/-- the value returned when `n` is computed -/
def eulerRet (n : Nat) : Int := (eulerSign n * eulerS n).fdiv (2 ^ n)

/-- invariant of the Euler-number cache: key 0 holds 1 and every entry `k ↦ v` has `0 ≤ k ≤ 500`,
`v = eulerCacheVal k` (the FINAL value written for that key, never a partial sum) -/
def EulerInv (c : IDict) : Prop :=
  dget c 0 = some 1 ∧ ∀ k v, dget c k = some v → 0 ≤ k ∧ k ≤ 500 ∧ v = eulerCacheVal k.toNat

theorem eulerCacheVal_zero : eulerCacheVal 0 = 1 := by decide

theorem eulerInv_init : EulerInv eulerCache0 := by
  refine ⟨by decide, ?_⟩
  intro k v h
  simp only [eulerCache0, dget] at h
  by_cases hk : (0 : Int) = k
  · subst hk; simp at h; subst h; exact ⟨le_refl _, by decide, by decide⟩
  · simp [hk] at h

theorem eulerInv_dset (c : IDict) (n : Nat) (hn5 : n ≤ MAX_EULER_CACHE) (h : EulerInv c) : EulerInv (dset c n (eulerCacheVal n)) := by
  refine ⟨?_, ?_⟩
  · rw [dget_dset]
    by_cases hn : (n : Int) = 0
    · have : n = 0 := by omega
      subst this; simp [eulerCacheVal_zero]
    · rw [if_neg hn]; exact h.1
  · intro k v hk
    rw [dget_dset] at hk
    by_cases hn : (n : Int) = k
    · rw [if_pos hn] at hk
      subst hn
      simp only [Option.some.injEq] at hk
      refine ⟨by omega, by simp only [MAX_EULER_CACHE] at hn5; omega, ?_⟩
      simp [← hk]
    · rw [if_neg hn] at hk
      exact h.2 k v hk

theorem eulerOuter_spec (cnt n' m : Nat) (hm : n' + 1 + cnt = m) (c : IDict) (h : EulerInv c) :
    (eulerOuter (cnt + 1) (n' + 1) m (eulerA n') c).1 = some (eulerRet m) ∧
    EulerInv (eulerOuter (cnt + 1) (n' + 1) m (eulerA n') c).2 := by
  induction cnt generalizing n' c with
  | zero =>
    have hnm : n' + 1 = m := by omega
    simp only [eulerOuter, hnm, if_true]
    obtain ⟨j, hj⟩ : ∃ j, eulerCnt m = j + 1 := ⟨(m + 1) / 2, rfl⟩
    subst hnm
    refine ⟨?_, ?_⟩
    · rw [eulerSum_fst]; rfl
    · rw [hj, eulerSum_snd, ← hj]
      split
      · next h5 => exact eulerInv_dset c _ h5 h
      · exact h
  | succ cnt ih =>
    have hnm : ¬ n' + 1 = m := by omega
    rw [eulerOuter]
    simp only [hnm, if_false]
    obtain ⟨j, hj⟩ : ∃ j, eulerCnt (n' + 1) = j + 1 := ⟨(n' + 1 + 1) / 2, rfl⟩
    have hA : eulerUpd (eulerCnt (n' + 1)) (n' + 1 + 1) (eulerA n') ++ [0] = eulerA (n' + 1) := rfl
    rw [hA]
    apply ih (n' + 1) (by omega)
    rw [hj, eulerSum_snd, ← hj]
    split
    · next h5 => exact eulerInv_dset c _ h5 h
    · exact h

/-- odd arguments (also negative odd): `0`, cache untouched -/
theorem eulernum_odd (m : Int) (c : IDict) (h : m % 2 = 1) : eulernum m c = (some 0, c) := by
  simp [eulernum, h]

/-- even negative arguments: the loop body never runs and the function returns `None` -/
theorem eulernum_neg_even (m : Int) (c : IDict) (hc : EulerInv c) (h : m % 2 = 0) (hm : m < 0) :
    eulernum m c = (none, c) := by
  have h1 : ¬ m % 2 = 1 := by omega
  have h2 : dgetTruthy c m = none := by
    unfold dgetTruthy
    cases hg : dget c m with
    | none => rfl
    | some v => have := (hc.2 m v hg).1; omega
  have h3 : m.toNat = 0 := by omega
  simp [eulernum, h1, h2, h3, eulerOuter]

/-- even nonnegative arguments, any cache satisfying the invariant: the result is the cached value or the
freshly computed value for `m`, and the invariant is preserved. -/
theorem eulernum_even (m : Int) (c : IDict) (hc : EulerInv c) (h : m % 2 = 0) (hm : 0 ≤ m) :
    ((eulernum m c).1 = some (eulerCacheVal m.toNat) ∨ (eulernum m c).1 = some (eulerRet m.toNat)) ∧
    EulerInv (eulernum m c).2 := by
  have h1 : ¬ m % 2 = 1 := by omega
  unfold eulernum
  rw [if_neg h1]
  cases hg : dgetTruthy c m with
  | some f =>
    simp only
    refine ⟨Or.inl ?_, hc⟩
    unfold dgetTruthy at hg
    cases hd : dget c m with
    | none => simp [hd] at hg
    | some v =>
      rw [hd] at hg
      simp only at hg
      split at hg
      · simp only [Option.some.injEq] at hg
        rw [← hg, (hc.2 m v hd).2.2]
      · exact absurd hg (by simp)
  | none =>
    simp only
    have hm0 : m ≠ 0 := by
      intro h0; subst h0
      simp [dgetTruthy, hc.1] at hg
    obtain ⟨cnt, hcnt⟩ : ∃ cnt, m.toNat = cnt + 1 := ⟨m.toNat - 1, by omega⟩
    have := eulerOuter_spec cnt 0 m.toNat (by omega) c hc
    rw [hcnt] at this ⊢
    exact ⟨Or.inr this.1, this.2⟩

/-! ## the Euler (secant) numbers by their defining recurrence, and the kernel check for small indices -/

/-- `[E_0, E_2, …, E_{2(n-1)}]`: the secant (Euler) numbers built by their defining recurrence
`E_0 = 1`, `E_{2n} = -∑_{k<n} C(2n,2k) E_{2k}`. -/
def secTable : Nat → List Int
  | 0 => []
  | n+1 =>
    let t := secTable n
    t ++ [if n = 0 then 1 else -((List.range n).map (fun k => (Nat.choose (2 * n) (2 * k) : Int) * t.getD k 0)).sum]

/-- the Euler number `E_m` (`1/cosh x = ∑ E_m x^m / m!`): zero for odd `m`. -/
def eulerE (m : Nat) : Int := if m % 2 = 1 then 0 else (secTable (m / 2 + 1)).getD (m / 2) 0

/-- binomial coefficient through factorials (fast under kernel evaluation) -/
def chooseF (n k : Nat) : Nat := Nat.factorial n / (Nat.factorial k * Nat.factorial (n - k))

/-- `secTable` with `chooseF` (only used for evaluation) -/
def secTableF : Nat → List Int
  | 0 => []
  | n+1 =>
    let t := secTableF n
    t ++ [if n = 0 then 1 else -((List.range n).map (fun k => (chooseF (2 * n) (2 * k) : Int) * t.getD k 0)).sum]

theorem secTable_eq_F (n : Nat) : secTable n = secTableF n := by
  induction n with
  | zero => rfl
  | succ n ih =>
    simp only [secTable, secTableF, ih]
    have hm : (List.range n).map (fun k => (Nat.choose (2 * n) (2 * k) : Int) * (secTableF n).getD k 0)
        = (List.range n).map (fun k => (chooseF (2 * n) (2 * k) : Int) * (secTableF n).getD k 0) := by
      apply List.map_congr_left
      intro k hk
      rw [List.mem_range] at hk
      rw [chooseF, Nat.choose_eq_factorial_div_factorial (by omega)]
    rw [hm]

theorem secTable_length (n : Nat) : (secTable n).length = n := by
  induction n with
  | zero => rfl
  | succ n ih => simp [secTable, ih]

theorem secTable_getD_stable (n n' k : Nat) (hk : k < n) (hn : n ≤ n') :
    (secTable n').getD k 0 = (secTable n).getD k 0 := by
  induction n' with
  | zero => omega
  | succ n' ih =>
    by_cases h : n = n' + 1
    · rw [h]
    · have hlt : k < (secTable n').length := by rw [secTable_length]; omega
      rw [← ih (by omega)]
      simp only [secTable, List.getD_eq_getElem?_getD, List.getElem?_append_left hlt]

theorem eulerE_two_mul (k : Nat) : eulerE (2 * k) = (secTable (k + 1)).getD k 0 := by
  simp [eulerE]

/-- kernel evaluation: for `n = 2j ≤ 60` the final sum of round `n` is `(-1)^(n/2) · 2^n · E_n`
(in particular divisible by `2^n`). -/
theorem eulerS_small : ∀ j < 31, eulerS (2 * j) = eulerSign (2 * j) * 2 ^ (2 * j) * (secTableF 31).getD j 0 := by
  decide +kernel

theorem eulerSign_sq (n : Nat) : eulerSign n * eulerSign n = 1 := by
  unfold eulerSign
  rw [← pow_add, ← two_mul, pow_mul]
  simp

/-- for even `m ≤ 60` both the stored and the returned value are the Euler number `E_m`. -/
theorem euler_values_small (j : Nat) (hj : j < 31) :
    eulerCacheVal (2 * j) = eulerE (2 * j) ∧ eulerRet (2 * j) = eulerE (2 * j) := by
  have hs := eulerS_small j hj
  have hE : eulerE (2 * j) = (secTableF 31).getD j 0 := by
    rw [eulerE_two_mul, ← secTable_eq_F, secTable_getD_stable (j + 1) 31 j (by omega) (by omega)]
  rw [← hE] at hs
  have hp : ((2 : Int) ^ (2 * j)) ≠ 0 := by positivity
  have hsq := eulerSign_sq (2 * j)
  constructor
  · unfold eulerCacheVal
    rw [hs, show eulerSign (2 * j) * 2 ^ (2 * j) * eulerE (2 * j) = (eulerSign (2 * j) * eulerE (2 * j)) * 2 ^ (2 * j) by ring,
      Int.mul_fdiv_cancel _ hp, ← mul_assoc, hsq, one_mul]
  · unfold eulerRet
    rw [hs, show eulerSign (2 * j) * (eulerSign (2 * j) * 2 ^ (2 * j) * eulerE (2 * j))
        = (eulerSign (2 * j) * eulerSign (2 * j)) * eulerE (2 * j) * 2 ^ (2 * j) by ring,
      hsq, one_mul, Int.mul_fdiv_cancel _ hp]

end Mp
