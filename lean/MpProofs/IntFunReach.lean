/-
  MpProofs/IntFunReach.lean — call histories for the stateful functions of libintmath.py:
  the cache states reachable from a fresh interpreter by ANY sequence of calls, and the fact
  that every reachable state satisfies the cache invariant.
-/
import MpProofs.IntFun
import MpProofs.IntFunEuler
import MpProofs.IntFunSieve

namespace Mp

/-! ## stirling2 (threads the factorial memo through `ifac(k)`) -/

theorem stirling2_of_inv (n k : Nat) (memo : IDict) (h : FacInv memo) :
    ∃ memo', stirling2 (n : Int) (k : Int) memo = .ok ((Nat.stirlingSecond n k : Int), memo') ∧ FacInv memo' := by
  unfold stirling2
  rw [if_neg (by omega)]
  by_cases hkn : (k : Int) ≥ n
  · rw [if_pos hkn]
    refine ⟨memo, ?_, h⟩
    by_cases he : n = k
    · subst he; simp [Nat.stirlingSecond_self]
    · have : n < k := by omega
      have hne : ¬ (n : Int) = k := by omega
      simp [hne, Nat.stirlingSecond_eq_zero_of_lt this]
  · rw [if_neg hkn]
    by_cases hk1 : (k : Int) ≤ 1
    · rw [if_pos hk1]
      refine ⟨memo, ?_, h⟩
      obtain ⟨n', rfl⟩ : ∃ n', n = n' + 1 := ⟨n - 1, by omega⟩
      rcases (by omega : k = 0 ∨ k = 1) with rfl | rfl
      · simp [Nat.stirlingSecond_succ_zero]
      · simp [Nat.stirlingSecond_one_right]
    · rw [if_neg hk1]
      obtain ⟨memo', hf, hinv⟩ := ifac_of_inv k memo h
      rw [hf]
      simp only [Int.toNat_natCast, Int.natCast_nonneg, if_true]
      refine ⟨memo', ?_, hinv⟩
      rw [st2_fold']
      have hne : ((Nat.factorial k : Nat) : Int) ≠ 0 := by exact_mod_cast (Nat.factorial_pos k).ne'
      rw [Int.mul_fdiv_cancel_left _ hne]

theorem stirling2_err (n k : Int) (memo : IDict) (h : n < 0 ∨ k < 0) :
    stirling2 n k memo = .error .valueError := by
  unfold stirling2; rw [if_pos h]

/-! ## reachable cache states -/

/-- factorial memos reachable from `{0:1, 1:1}` by any sequence of successful `ifac` / `stirling2`
calls with arbitrary integer arguments (calls that raise leave the memo unchanged) -/
inductive FacReach : IDict → Prop
  | init : FacReach ifacMemo0
  | ifac {memo memo' : IDict} {v : Int} (n : Int) :
      FacReach memo → ifac n memo = .ok (v, memo') → FacReach memo'
  | stirling2 {memo memo' : IDict} {v : Int} (n k : Int) :
      FacReach memo → Mp.stirling2 n k memo = .ok (v, memo') → FacReach memo'

theorem facReach_inv {memo : IDict} (h : FacReach memo) : FacInv memo := by
  induction h with
  | init => exact facInv_init
  | ifac n _ he ih =>
    obtain ⟨m'', h1, h2⟩ := ifac_of_inv n _ ih
    rw [h1] at he
    simp only [Except.ok.injEq, Prod.mk.injEq] at he
    rw [← he.2]; exact h2
  | stirling2 n k _ he ih =>
    by_cases hneg : n < 0 ∨ k < 0
    · rw [stirling2_err n k _ hneg] at he; exact absurd he (by simp)
    · obtain ⟨n', rfl⟩ : ∃ n' : Nat, n = n' := ⟨n.toNat, by omega⟩
      obtain ⟨k', rfl⟩ : ∃ k' : Nat, k = k' := ⟨k.toNat, by omega⟩
      obtain ⟨m'', h1, h2⟩ := stirling2_of_inv n' k' _ ih
      rw [h1] at he
      simp only [Except.ok.injEq, Prod.mk.injEq] at he
      rw [← he.2]; exact h2

/-- double-factorial memo pairs reachable from `[{0:1}, {1:1}]` by any sequence of `ifac2` calls -/
inductive Fac2Reach : IDict × IDict → Prop
  | init : Fac2Reach ifac2Memo0
  | step {pair pair' : IDict × IDict} {v : Int} (n : Int) :
      Fac2Reach pair → ifac2 n pair = .ok (v, pair') → Fac2Reach pair'

theorem fac2Reach_inv {pair : IDict × IDict} (h : Fac2Reach pair) : Fac2Inv pair := by
  induction h with
  | init => exact fac2Inv_init
  | step n _ he ih =>
    by_cases hn : 0 ≤ n
    · obtain ⟨p'', h1, h2⟩ := ifac2_of_inv n _ ih hn
      rw [h1] at he
      simp only [Except.ok.injEq, Prod.mk.injEq] at he
      rw [← he.2]; exact h2
    · obtain ⟨v', h1⟩ := ifac2_neg n _ ih (by omega)
      rw [h1] at he
      simp only [Except.ok.injEq, Prod.mk.injEq] at he
      rw [← he.2]; exact ih

/-- Fibonacci caches reachable from `{}` by any sequence of `ifib` calls -/
inductive FibReach : IDict → Prop
  | init : FibReach []
  | step {c : IDict} (n : Int) : FibReach c → FibReach (ifib n c).2

theorem fibReach_inv {c : IDict} (h : FibReach c) : FibInv c := by
  induction h with
  | init => exact fibInv_init
  | step n _ ih => exact (ifib_of_inv n _ ih).2

/-- Euler-number caches reachable from `{0:1}` by any sequence of `eulernum` calls -/
inductive EulerReach : IDict → Prop
  | init : EulerReach eulerCache0
  | step {c : IDict} (m : Int) : EulerReach c → EulerReach (eulernum m c).2

theorem eulerReach_inv {c : IDict} (h : EulerReach c) : EulerInv c := by
  induction h with
  | init => exact eulerInv_init
  | step m _ ih =>
    by_cases h1 : m % 2 = 1
    · rw [eulernum_odd m _ h1]; exact ih
    · by_cases h2 : m < 0
      · rw [eulernum_neg_even m _ ih (by omega) h2]; exact ih
      · exact (eulernum_even m _ ih (by omega) (by omega)).2

end Mp
