/-
  MpModel/DrvHelpers.lean — driver ops for MpModel/Helpers.lean (C39, C40, C09).
  Same token conventions as Driver.lean (mpf = sign:hexman:exp:bc, ints decimal); additionally
    * an mpf operand may be written `D<hexbits>`: the result of `from_float` on that binary64 pattern
      (this is what `ctx.convert(float)` does);
    * doubles are answered as `D:<16 hex digits>` or `D:nan`;  `X:-inf | X:+inf | X:nan` are the mpf
      constants returned by `mag` / `nint_distance`;
    * a pickled tuple is answered as `K:sign,hex,exp,bc`; a string argument is written `s<chars>`.
-/
import MpModel.Helpers

open Mp

namespace DrvHelpers

def hexDigit (c : Char) : Option Nat :=
  if '0' ≤ c ∧ c ≤ '9' then some (c.toNat - '0'.toNat)
  else if 'a' ≤ c ∧ c ≤ 'f' then some (c.toNat - 'a'.toNat + 10)
  else if 'A' ≤ c ∧ c ≤ 'F' then some (c.toNat - 'A'.toNat + 10)
  else none

def parseHex (s : String) : Option Nat :=
  if s.isEmpty then none else
  s.foldl (fun acc c => match acc, hexDigit c with
    | some a, some d => some (a * 16 + d)
    | _, _ => none) (some 0)

def parseInt (s : String) : Option Int :=
  if s.startsWith "-" then (s.drop 1).toNat?.map (fun n => -(n : Int))
  else if s.startsWith "+" then (s.drop 1).toNat?.map (fun n => (n : Int))
  else s.toNat?.map (fun n => (n : Int))

def parseRnd (s : String) : Option Rnd :=
  match s with
  | "n" => some .n | "f" => some .f | "c" => some .c | "u" => some .u | "d" => some .d
  | _ => none

def parseDbl (s : String) : Option Dbl := (parseHex s).map Dbl.ofBits

def parseMpf (s : String) : Option Mpf :=
  if s.startsWith "D" then (parseDbl (s.drop 1).toString).map (fun d => from_float d)
  else
  match s.splitOn ":" with
  | [a, b, c, d] => do
    let sign ← a.toNat?
    let man ← parseHex b
    let exp ← parseInt c
    let bc ← parseInt d
    pure ⟨sign, man, exp, bc⟩
  | _ => none

def hexStr (n : Nat) : String := String.ofList (Nat.toDigits 16 n)

def showMpf (x : Mpf) : String := s!"{x.sign}:{hexStr x.man}:{x.exp}:{x.bc}"

def showErr : Err → String
  | .zeroDiv => "E:ZeroDivisionError"
  | .value => "E:ValueError"
  | .complexResult => "E:ComplexResult"
  | .notImpl => "E:NotImplementedError"
  | .overflow => "E:OverflowError"
  | .type => "E:TypeError"

def showB (b : Bool) : String := if b then "B:1" else "B:0"

def showMag : MagRes → String
  | .int n => s!"I:{n}" | .ninf => "X:-inf" | .inf => "X:+inf" | .nan => "X:nan"

def showDist : Dist → String
  | .ninf => "X:-inf" | .fin d => s!"I:{d}"

def showND (r : Except Err (Int × Dist)) : String :=
  match r with
  | .ok (n, d) => s!"P:I:{n},{showDist d}"
  | .error e => showErr e

def pad16 (s : String) : String := String.ofList (List.replicate (16 - s.length) '0') ++ s

def showDbl (d : Dbl) : String := if d.isNan then "D:nan" else "D:" ++ pad16 (hexStr d.toBits)

def showDE (r : Except Err Dbl) : String :=
  match r with
  | .ok d => showDbl d
  | .error e => showErr e

def showPickled (p : Pickled) : String := s!"K:{p.sign},{p.man},{p.exp},{p.bc}"

def parseEntry (s : String) : Option Entry :=
  if s.startsWith "F" then (parseMpf (s.drop 1).toString).map Entry.mpf
  else if s.startsWith "C" then
    match (s.drop 1).toString.splitOn "/" with
    | [a, b] => do pure (Entry.mpc (← parseMpf a) (← parseMpf b))
    | _ => none
  else none

def showEntry : Entry → String
  | .mpf x => "F" ++ showMpf x
  | .mpc a b => "C" ++ showMpf a ++ "/" ++ showMpf b

/-- all entries of a matrix, row-major -/
def dumpMat (h : Heap) (m : Mat) : String :=
  let cells := (List.range m.rows).flatMap (fun i => (List.range m.cols).map (fun j => (i, j)))
  let strs := cells.map (fun (i, j) => match matGet h m i j with
    | .ok e => showEntry e
    | .error _ => "E:IndexError")
  s!"{m.rows}x{m.cols}[" ++ ";".intercalate strs ++ "]"

/-- `(which, i, j, entry)` assignments; `which = 0` original, `1` copy -/
def parseSets : List String → Option (List (Nat × Nat × Nat × Entry))
  | [] => some []
  | w :: i :: j :: e :: rest => do
    let r ← parseSets rest
    pure ((← w.toNat?, ← i.toNat?, ← j.toNat?, ← parseEntry e) :: r)
  | _ => none

/-- run: fill the original with `init`, copy, then apply `sets` to either; dump both. -/
def matScript (rows cols : Nat) (init sets : List (Nat × Nat × Nat × Entry)) : String :=
  let (h0, m) := matNew ⟨[]⟩ rows cols
  let fill : Except MErr Heap := init.foldlM (fun h (_, i, j, e) => matSet h m i j e) h0
  match fill with
  | .error _ => "E:IndexError"
  | .ok h1 =>
    let (h2, c) := matCopy h1 m
    let r : Except MErr Heap := sets.foldlM (fun h (w, i, j, e) => matSet h (if w = 0 then m else c) i j e) h2
    match r with
    | .error _ => "E:IndexError"
    | .ok h3 => "M:" ++ dumpMat h3 m ++ "|" ++ dumpMat h3 c

def splitAt (toks : List String) (sep : String) : List String × List String :=
  (toks.takeWhile (· ≠ sep), (toks.dropWhile (· ≠ sep)).drop 1)

def parseStrArg (s : String) : Option String :=
  if s.startsWith "s" then some (s.drop 1).toString else none

def answer (toks : List String) : Option String :=
  match toks with
  -- C40
  | ["to_pickable", x] => do pure (showPickled (to_pickable (← parseMpf x)))
  | ["from_pickable", sg, m, e, bc] => do
    match from_pickable ⟨← sg.toNat?, ← parseStrArg m, ← parseInt e, ← parseInt bc⟩ with
    | .ok x => pure (showMpf x)
    | .error er => pure (showErr er)
  | ["pickle_rt", x] => do
    match mpf_setstate (mpf_getstate (← parseMpf x)) with
    | .ok y => pure (showMpf y)
    | .error er => pure (showErr er)
  | ["mpc_getstate", a, b] => do
    let p := mpc_getstate (← parseMpf a, ← parseMpf b)
    pure (showPickled p.1 ++ ";" ++ showPickled p.2)
  | ["mpc_pickle_rt", a, b] => do
    match mpc_setstate (mpc_getstate (← parseMpf a, ← parseMpf b)) with
    | .ok (y, z) => pure s!"P:{showMpf y},{showMpf z}"
    | .error er => pure (showErr er)
  | "mat" :: r :: c :: rest => do
    let (a, b) := splitAt rest "|"
    pure (matScript (← r.toNat?) (← c.toNat?) (← parseSets a) (← parseSets b))
  -- C39
  | ["mag_f", x] => do pure (showMag (magF (← parseMpf x)))
  | ["mag_c", a, b] => do pure (showMag (magC (← parseMpf a) (← parseMpf b)))
  | ["mag_i", n] => do pure (showMag (magInt (← parseInt n)))
  | ["mag_q", p, q] => do pure (showMag (magQ (← parseInt p) (← q.toNat?)))
  | ["nint_f", x] => do pure (showND (nintDistF (← parseMpf x)))
  | ["nint_c", a, b] => do pure (showND (nintDistC (← parseMpf a) (← parseMpf b)))
  | ["nint_i", n] => do pure (showND (.ok (nintDistInt (← parseInt n))))
  | ["nint_q", p, q] => do pure (showND (nintDistQ (← parseInt p) (← q.toNat?)))
  | ["isint_f", x] => do pure (showB (isintF (← parseMpf x)))
  | ["isint_c", a, b, g] => do pure (showB (isintC (← parseMpf a) (← parseMpf b) (g == "1")))
  | ["isint_i", n] => do pure (showB (isintInt (← parseInt n)))
  | ["isint_q", p, q] => do
    match isintQ (← parseInt p) (← q.toNat?) with
    | .ok b => pure (showB b)
    | .error er => pure (showErr er)
  | ["isnpint_f", x] => do pure (showB (isnpintF (← parseMpf x)))
  | ["isnpint_c", a, b] => do pure (showB (isnpintC (← parseMpf a) (← parseMpf b)))
  | ["isnpint_i", n] => do pure (showB (isnpintInt (← parseInt n)))
  | ["isnpint_q", p, q] => do pure (showB (isnpintQ (← parseInt p) (← q.toNat?)))
  | ["isnormal_f", x] => do pure (showB (isnormalF (← parseMpf x)))
  | ["isnormal_c", a, b] => do pure (showB (isnormalC (← parseMpf a) (← parseMpf b)))
  | ["isnormal_i", n] => do pure (showB (isnormalInt (← parseInt n)))
  | ["isnormal_q", p, q] => do pure (showB (isnormalQ (← parseInt p) (← q.toNat?)))
  | ["isinf_f", x] => do pure (showB (isinfF (← parseMpf x)))
  | ["isinf_c", a, b] => do pure (showB (isinfC (← parseMpf a) (← parseMpf b)))
  | ["isnan_f", x] => do pure (showB (isnanF (← parseMpf x)))
  | ["isnan_c", a, b] => do pure (showB (isnanC (← parseMpf a) (← parseMpf b)))
  | ["isfinite_f", x] => do pure (showB (isfiniteF (← parseMpf x)))
  | ["isfinite_c", a, b] => do pure (showB (isfiniteC (← parseMpf a) (← parseMpf b)))
  | ["ldexp", x, n] => do pure (showMpf (ldexp (← parseMpf x) (← parseInt n)))
  | ["hfrexp", x] => do
    match frexp (← parseMpf x) with
    | .ok (y, n) => pure s!"P:{showMpf y},I:{n}"
    | .error er => pure (showErr er)
  -- C09
  | ["from_float", b, p, r] => do pure (showMpf (from_float (← parseDbl b) (← parseInt p) (← parseRnd r)))
  | ["to_float", x, st, r] => do pure (showDE (to_float (← parseMpf x) (st == "1") (← parseRnd r)))
  | ["to_complex", a, b, st, r] => do
    match mpc_to_complex (← parseMpf a) (← parseMpf b) (st == "1") (← parseRnd r) with
    | .ok (u, v) => pure s!"P:{showDbl u},{showDbl v}"
    | .error er => pure (showErr er)
  | ["ldexpd", b, i] => do
    match ldexpD (← parseDbl b) (← parseInt i) with
    | some d => pure (showDbl d)
    | none => pure "E:OverflowError"
  | ["int2d", sg, m] => do
    let man ← parseHex m
    if man = 0 then pure (showDbl (Dbl.zero 0)) else
    match intToDouble (← sg.toNat?) man with
    | some d => pure (showDbl d)
    | none => pure "E:OverflowError"
  | _ => none

end DrvHelpers
