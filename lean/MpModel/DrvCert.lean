/-
  MpModel/DrvCert.lean — driver ops for the certificate checkers of MpModel/Cert.lean.

  Scalars on the wire:   real     <man>:<exp>      (signed decimal man, signed decimal exp; value man·2^exp)
                                  <man>            (integer, exp 0)
                         complex  <re>,<im>        (two reals separated by a comma)
  A matrix r×c is r*c scalars in row-major order; the dimensions are given by the op's leading integers.

    cert_solve n k p  A[n×n] B[n×k] X[n×k] R[n×n]      -> V:ok | V:violates | V:undecided
    cert_lsq   m n k p  A[m×n] B[m×k] X[n×k] R[n×n]    -> V:…   (normal equations, formed exactly)
    cert_cond  n p    A[n×n] R[n×n]                    -> B:1 iff α < 1 and cond-upper-bound·2^(10−p) < 1
    cert_inv   n p    A[n×n] X[n×n] R[n×n]             -> V:…
    cert_det   n p    A[n×n] d R[n×n]                  -> V:ok | V:violates | V:undecided | V:singular
    cert_detexact n   A[n×n]                           -> D:<re>,<im>   exact determinant
    cert_lu    n p    P A L U                          -> V:ok | V:violates:<failed parts>
    cert_qr    m n q p  A[m×n] Q[m×q] R[q×n]           -> …
    cert_chol  n p    A L
    cert_orth  r c p  Q[r×c]
    cert_eig   n p    A V E[n×1]          cert_eigl n p A W E[n×1]
    cert_eigh  n p    A V E[n×1]
    cert_svd   m n k p  A[m×n] U[m×k] S[k×1] V[k×n]
    cert_schur band n p  A Q T
    cert_close n p A X      cert_sqrtm n p A S     cert_powm n k p A P     cert_cossin n p A C S
    cert_mul r k c A B -> M:<entries>   cert_frob2 r c M -> D:<re>   (exact helpers, used for self-tests)
-/
import MpModel.Cert

open Mp.Cert

namespace DrvCert

def parseInt (s : String) : Option Int :=
  if s.startsWith "-" then (s.drop 1).toNat?.map (fun n => -(n : Int))
  else if s.startsWith "+" then (s.drop 1).toNat?.map (fun n => (n : Int))
  else s.toNat?.map (fun n => (n : Int))

def parseDy (s : String) : Option Dy :=
  match s.splitOn ":" with
  | [a] => do pure ⟨← parseInt a, 0⟩
  | [a, b] => do pure ⟨← parseInt a, ← parseInt b⟩
  | _ => none

def parseG (s : String) : Option G :=
  match s.splitOn "," with
  | [a] => do pure ⟨← parseDy a, Dy.zero⟩
  | [a, b] => do pure ⟨← parseDy a, ← parseDy b⟩
  | _ => none

def takeRow : Nat → List String → Option (List G × List String)
  | 0, ts => some ([], ts)
  | _ + 1, [] => none
  | c + 1, t :: ts => do
    let g ← parseG t
    let (row, rest) ← takeRow c ts
    pure (g :: row, rest)

def takeMat : Nat → Nat → List String → Option (Mat × List String)
  | 0, _, ts => some ([], ts)
  | r + 1, c, ts => do
    let (row, rest) ← takeRow c ts
    let (m, rest') ← takeMat r c rest
    pure (row :: m, rest')

def showDy (a : Dy) : String := s!"{a.man}:{a.exp}"
def showG (a : G) : String := s!"{showDy a.re},{showDy a.im}"

def showV : Verdict → String
  | .ok => "V:ok" | .violates => "V:violates" | .undecided => "V:undecided" | .singular => "V:singular"

/-- verdict of a conjunction of named exact checks: lists the failing parts -/
def showParts (parts : List (String × Bool)) : String :=
  let bad := parts.filter (fun x => !x.2)
  if bad.isEmpty then "V:ok" else "V:violates:" ++ String.intercalate "+" (bad.map (·.1))

def answer (toks : List String) : Option String :=
  match toks with
  | "cert_solve" :: n :: k :: p :: rest => do
    let n ← n.toNat?; let k ← k.toNat?; let p ← parseInt p
    let (A, rest) ← takeMat n n rest
    let (B, rest) ← takeMat n k rest
    let (X, rest) ← takeMat n k rest
    let (R, rest) ← takeMat n n rest
    if !rest.isEmpty then none else pure (showV (solveCert n k p A B X R))
  | "cert_lsq" :: m :: n :: k :: p :: rest => do
    let m ← m.toNat?; let n ← n.toNat?; let k ← k.toNat?; let p ← parseInt p
    let (A, rest) ← takeMat m n rest
    let (B, rest) ← takeMat m k rest
    let (X, rest) ← takeMat n k rest
    let (R, rest) ← takeMat n n rest
    if !rest.isEmpty then none else pure (showV (lsqCert m n k p A B X R))
  | "cert_cond" :: n :: p :: rest => do
    let n ← n.toNat?; let p ← parseInt p
    let (A, rest) ← takeMat n n rest
    let (R, rest) ← takeMat n n rest
    if !rest.isEmpty then none else pure (if condModerate n p A R then "B:1" else "B:0")
  | "cert_inv" :: n :: p :: rest => do
    let n ← n.toNat?; let p ← parseInt p
    let (A, rest) ← takeMat n n rest
    let (X, rest) ← takeMat n n rest
    let (R, rest) ← takeMat n n rest
    if !rest.isEmpty then none else pure (showV (invCert n p A X R))
  | "cert_det" :: n :: p :: rest => do
    let n ← n.toNat?; let p ← parseInt p
    let (A, rest) ← takeMat n n rest
    let (d, rest) ← takeMat 1 1 rest
    let (R, rest) ← takeMat n n rest
    if !rest.isEmpty then none else pure (showV (detCert n p A (get d 0 0) R))
  | "cert_detexact" :: n :: rest => do
    let n ← n.toNat?
    let (A, rest) ← takeMat n n rest
    if !rest.isEmpty then none else pure ("D:" ++ showG (detN n A))
  | "cert_lu" :: n :: p :: rest => do
    let n ← n.toNat?; let p ← parseInt p
    let (P, rest) ← takeMat n n rest
    let (A, rest) ← takeMat n n rest
    let (L, rest) ← takeMat n n rest
    let (U, rest) ← takeMat n n rest
    if !rest.isEmpty then none else
    let parts := [("perm", isPerm n P), ("lower", isLower n n L), ("unitdiag", unitDiag n L),
      ("upper", isUpperBand 0 n n U),
      ("resid", frobLe n n p (luResid n P A L U) (frob2 n n L * frob2 n n U))]
    -- the verdict is computed from luCheck itself; the parts are diagnostics only
    pure (if luCheck n p P A L U then "V:ok" else showParts parts)
  | "cert_qr" :: m :: n :: q :: p :: rest => do
    let m ← m.toNat?; let n ← n.toNat?; let q ← q.toNat?; let p ← parseInt p
    let (A, rest) ← takeMat m n rest
    let (Q, rest) ← takeMat m q rest
    let (R, rest) ← takeMat q n rest
    if !rest.isEmpty then none else
    let parts := [("orth", orthCheck m q p Q), ("upper", isUpperBand 0 q n R),
      ("resid", frobLe m n p (qrResid m n q A Q R) (frob2 m n A))]
    pure (if qrCheck m n q p A Q R then "V:ok" else showParts parts)
  | "cert_chol" :: n :: p :: rest => do
    let n ← n.toNat?; let p ← parseInt p
    let (A, rest) ← takeMat n n rest
    let (L, rest) ← takeMat n n rest
    if !rest.isEmpty then none else
    let parts := [("lower", isLower n n L), ("posdiag", posRealDiag n L),
      ("resid", frobLe n n p (cholResid n A L) (frob2 n n A))]
    pure (if choleskyCheck n p A L then "V:ok" else showParts parts)
  | "cert_orth" :: r :: c :: p :: rest => do
    let r ← r.toNat?; let c ← c.toNat?; let p ← parseInt p
    let (Q, rest) ← takeMat r c rest
    if !rest.isEmpty then none else pure (showV (Verdict.ofBool (orthCheck r c p Q)))
  | "cert_eig" :: n :: p :: rest => do
    let n ← n.toNat?; let p ← parseInt p
    let (A, rest) ← takeMat n n rest
    let (V, rest) ← takeMat n n rest
    let (E, rest) ← takeMat n 1 rest
    if !rest.isEmpty then none else pure (showV (Verdict.ofBool (eigCheck n p A V E)))
  | "cert_eigl" :: n :: p :: rest => do
    let n ← n.toNat?; let p ← parseInt p
    let (A, rest) ← takeMat n n rest
    let (W, rest) ← takeMat n n rest
    let (E, rest) ← takeMat n 1 rest
    if !rest.isEmpty then none else pure (showV (Verdict.ofBool (eigLCheck n p A W E)))
  | "cert_eigh" :: n :: p :: rest => do
    let n ← n.toNat?; let p ← parseInt p
    let (A, rest) ← takeMat n n rest
    let (V, rest) ← takeMat n n rest
    let (E, rest) ← takeMat n 1 rest
    if !rest.isEmpty then none else
    let parts := [("real", allReal n E), ("ascending", ascending n E), ("orth", orthCheck n n p V),
      ("resid", eigCheck n p A V E)]
    pure (if eighCheck n p A V E then "V:ok" else showParts parts)
  | "cert_svd" :: m :: n :: k :: p :: rest => do
    let m ← m.toNat?; let n ← n.toNat?; let k ← k.toNat?; let p ← parseInt p
    let (A, rest) ← takeMat m n rest
    let (U, rest) ← takeMat m k rest
    let (S, rest) ← takeMat k 1 rest
    let (V, rest) ← takeMat k n rest
    if !rest.isEmpty then none else
    let parts := [("real", allReal k S), ("nonneg", nonneg k S), ("descending", descending k S),
      ("orthU", orthCheck m k p U), ("orthV", frobLe k k p (rowOrthResid k n V) (Dy.ofNat k)),
      ("resid", frobLe m n p (svdResid m n k A U S V) (frob2 m n A))]
    pure (if svdCheck m n k p A U S V then "V:ok" else showParts parts)
  | "cert_schur" :: band :: n :: p :: rest => do
    let band ← band.toNat?; let n ← n.toNat?; let p ← parseInt p
    let (A, rest) ← takeMat n n rest
    let (Q, rest) ← takeMat n n rest
    let (T, rest) ← takeMat n n rest
    if !rest.isEmpty then none else
    let parts := [("orth", orthCheck n n p Q), ("structure", isUpperBand band n n T),
      ("resid", frobLe n n p (simResid n A Q T) (frob2 n n A))]
    pure (if schurCheck band n p A Q T then "V:ok" else showParts parts)
  | "cert_close" :: n :: p :: rest => do
    let n ← n.toNat?; let p ← parseInt p
    let (A, rest) ← takeMat n n rest
    let (X, rest) ← takeMat n n rest
    if !rest.isEmpty then none else pure (showV (Verdict.ofBool (closeCheck n p A X)))
  | "cert_sqrtm" :: n :: p :: rest => do
    let n ← n.toNat?; let p ← parseInt p
    let (A, rest) ← takeMat n n rest
    let (S, rest) ← takeMat n n rest
    if !rest.isEmpty then none else pure (showV (Verdict.ofBool (sqrtmCheck n p A S)))
  | "cert_powm" :: n :: k :: p :: rest => do
    let n ← n.toNat?; let k ← k.toNat?; let p ← parseInt p
    let (A, rest) ← takeMat n n rest
    let (P, rest) ← takeMat n n rest
    if !rest.isEmpty then none else pure (showV (Verdict.ofBool (powmCheck n k p A P)))
  | "cert_cossin" :: n :: p :: rest => do
    let n ← n.toNat?; let p ← parseInt p
    let (A, rest) ← takeMat n n rest
    let (C, rest) ← takeMat n n rest
    let (S, rest) ← takeMat n n rest
    if !rest.isEmpty then none else pure (showV (Verdict.ofBool (cosSinCheck n p A C S)))
  | "cert_mul" :: r :: k :: c :: rest => do
    let r ← r.toNat?; let k ← k.toNat?; let c ← c.toNat?
    let (A, rest) ← takeMat r k rest
    let (B, rest) ← takeMat k c rest
    if !rest.isEmpty then none else
    let M := mmul r k c A B
    pure ("M:" ++ String.intercalate " " ((M.flatten).map showG))
  | "cert_frob2" :: r :: c :: rest => do
    let r ← r.toNat?; let c ← c.toNat?
    let (A, rest) ← takeMat r c rest
    if !rest.isEmpty then none else pure ("D:" ++ showDy (frob2 r c A))
  | _ => none

end DrvCert
