/-
  MpModel/Encl.lean — verified reference evaluator (executable part, import-free).

  Rigorous dyadic interval enclosures of exp, log, sqrt, atan, pi, sin, cos and a few derived
  functions.  No floating point anywhere: all numbers are `m·2^e` with `m e : Int`.
  Soundness theorems (against Mathlib's `Real.exp`, `Real.log`, …) are in `MpProofs/EnclSound.lean`.

  Design rule: whatever a soundness proof needs about an intermediate value (sign, size ≤ 1/2, …)
  is CHECKED AT RUN TIME by the executable code; when a check fails the function returns a
  trivially sound fallback (`[-1,1]` for sin/cos, `[0,2]` for atan, `[3,4]` for pi) or `none`.
  Choices that only influence tightness/speed (number of terms, working precision, number of
  argument-reduction steps, the quadrant integer) are unconstrained by the proofs.
-/

namespace Mp.Encl

/-- dyadic rational `m·2^e` -/
structure Dy where
  m : Int
  e : Int
  deriving DecidableEq, Inhabited

/-- closed interval with dyadic endpoints -/
structure DI where
  lo : Dy
  hi : Dy
  deriving DecidableEq, Inhabited

/-- bit length of |m| -/
def blen (m : Int) : Nat := if m = 0 then 0 else Nat.log2 m.natAbs + 1

/-- 2^s as an integer (via the GMP-backed `Nat.pow`) -/
def pow2 (s : Nat) : Int := ((2 ^ s : Nat) : Int)

namespace Dy

def zero : Dy := ⟨0, 0⟩
def one : Dy := ⟨1, 0⟩
def ofInt (n : Int) : Dy := ⟨n, 0⟩
def neg (x : Dy) : Dy := ⟨-x.m, x.e⟩
def mul (x y : Dy) : Dy := ⟨x.m * y.m, x.e + y.e⟩
/-- exact multiplication by 2^s -/
def shift (x : Dy) (s : Int) : Dy := ⟨x.m, x.e + s⟩

/-- exact sum -/
def add (x y : Dy) : Dy :=
  if x.e ≤ y.e then ⟨x.m + y.m * pow2 (y.e - x.e).toNat, x.e⟩
  else ⟨x.m * pow2 (x.e - y.e).toNat + y.m, y.e⟩

def sub (x y : Dy) : Dy := x.add y.neg

/-- `x ≤ y` decided exactly -/
def le (x y : Dy) : Bool := decide (0 ≤ (y.sub x).m)
/-- `x < y` decided exactly -/
def lt (x y : Dy) : Bool := decide (0 < (y.sub x).m)

def min (x y : Dy) : Dy := if x.le y then x else y
def max (x y : Dy) : Dy := if x.le y then y else x

/-- round toward -∞ to at most `wp` mantissa bits -/
def roundDown (wp : Nat) (x : Dy) : Dy :=
  let b := blen x.m
  if b ≤ wp then x else ⟨x.m >>> (b - wp), x.e + ((b - wp : Nat) : Int)⟩

/-- round toward +∞ to at most `wp` mantissa bits -/
def roundUp (wp : Nat) (x : Dy) : Dy :=
  let b := blen x.m
  if b ≤ wp then x else ⟨-((-x.m) >>> (b - wp)), x.e + ((b - wp : Nat) : Int)⟩

/-- lower bound of `x / y` (for `y.m > 0`), about `wp` bits -/
def divDown (wp : Nat) (x y : Dy) : Dy :=
  let s := wp + blen y.m + 1 - blen x.m
  ⟨(x.m * pow2 s) / y.m, x.e - (s : Int) - y.e⟩

/-- upper bound of `x / y` (for `y.m > 0`) -/
def divUp (wp : Nat) (x y : Dy) : Dy := (divDown wp x.neg y).neg

/-- shift amount making the exponent even and the mantissa at least `2wp+2` bits -/
def sqrtShift (wp : Nat) (x : Dy) : Nat :=
  let s0 := 2 * wp + 2 - blen x.m
  if (x.e - (s0 : Int)) % 2 = 0 then s0 else s0 + 1

/-- lower bound of √x (for `x.m ≥ 0`) -/
def sqrtDown (wp : Nat) (x : Dy) : Dy :=
  let s := sqrtShift wp x
  ⟨(Nat.sqrt (x.m.toNat * 2 ^ s) : Nat), (x.e - (s : Int)) / 2⟩

/-- upper bound of √x (for `x.m ≥ 0`) -/
def sqrtUp (wp : Nat) (x : Dy) : Dy :=
  let s := sqrtShift wp x
  let M := x.m.toNat * 2 ^ s
  let r := Nat.sqrt M
  ⟨((if r * r = M then r else r + 1 : Nat) : Int), (x.e - (s : Int)) / 2⟩

/-- ⌊x⌋ -/
def floor (x : Dy) : Int :=
  if 0 ≤ x.e then x.m * pow2 x.e.toNat else x.m >>> (-x.e).toNat

/-- a `g` with `|x| < 2^(-g)` (0 when `|x|` may be ≥ 1); only used for heuristics -/
def lowBits (x : Dy) : Nat := (-((blen x.m : Int) + x.e)).toNat

end Dy

namespace DI

def point (x : Dy) : DI := ⟨x, x⟩
def zero : DI := point Dy.zero
def one : DI := point Dy.one
def ofInt (n : Int) : DI := point (Dy.ofInt n)
def neg (I : DI) : DI := ⟨I.hi.neg, I.lo.neg⟩
def add (I J : DI) : DI := ⟨I.lo.add J.lo, I.hi.add J.hi⟩
def sub (I J : DI) : DI := I.add J.neg
def shift (I : DI) (s : Int) : DI := ⟨I.lo.shift s, I.hi.shift s⟩
def round (wp : Nat) (I : DI) : DI := ⟨I.lo.roundDown wp, I.hi.roundUp wp⟩

/-- product, general case: hull of the four corner products -/
def mulGen (I J : DI) : DI :=
  let a := I.lo.mul J.lo
  let b := I.lo.mul J.hi
  let c := I.hi.mul J.lo
  let d := I.hi.mul J.hi
  ⟨(a.min b).min (c.min d), (a.max b).max (c.max d)⟩

/-- product; two multiplications when the signs of both factors are known -/
def mul (I J : DI) : DI :=
  if 0 ≤ I.lo.m then
    if 0 ≤ J.lo.m then ⟨I.lo.mul J.lo, I.hi.mul J.hi⟩
    else if J.hi.m ≤ 0 then ⟨I.hi.mul J.lo, I.lo.mul J.hi⟩
    else mulGen I J
  else if I.hi.m ≤ 0 then
    if 0 ≤ J.lo.m then ⟨I.lo.mul J.hi, I.hi.mul J.lo⟩
    else if J.hi.m ≤ 0 then ⟨I.hi.mul J.hi, I.lo.mul J.lo⟩
    else mulGen I J
  else mulGen I J

/-- upper bound of `|x|` over the interval -/
def mag (I : DI) : Dy := I.lo.neg.max I.hi
/-- lower bound of `|x|` over the interval -/
def mig (I : DI) : Dy :=
  if 0 < I.lo.m then I.lo else if I.hi.m < 0 then I.hi.neg else Dy.zero

/-- widen by `r ≥ 0` on both sides -/
def widen (I : DI) (r : Dy) : DI := ⟨I.lo.sub r, I.hi.add r⟩

/-- quotient by an interval with positive lower endpoint, outward rounded -/
def divPos (wp : Nat) (I J : DI) : DI :=
  ⟨if 0 ≤ I.lo.m then I.lo.divDown wp J.hi else I.lo.divDown wp J.lo,
   if 0 ≤ I.hi.m then I.hi.divUp wp J.lo else I.hi.divUp wp J.hi⟩

/-- quotient by a positive integer -/
def divNat (wp : Nat) (I : DI) (k : Nat) : DI := I.divPos wp (ofInt k)

/-- quotient, `none` if the divisor may be 0 -/
def divI (wp : Nat) (I J : DI) : Option DI :=
  if 0 < J.lo.m then some (I.divPos wp J)
  else if J.hi.m < 0 then some (I.neg.divPos wp J.neg)
  else none

/-- intersection with [-1, 1] (for sin/cos) -/
def clamp1 (I : DI) : DI := ⟨I.lo.max (Dy.ofInt (-1)), I.hi.min Dy.one⟩

end DI

/-- enclosure of `Real.sqrt` over an interval (negative part: `Real.sqrt x = 0`) -/
def sqrtI (wp : Nat) (I : DI) : DI :=
  ⟨if I.lo.m ≤ 0 then Dy.zero else I.lo.sqrtDown wp,
   if I.hi.m ≤ 0 then Dy.zero else I.hi.sqrtUp wp⟩

/-- number of Taylor terms: least `n` with `g·n + log2(n!) ≥ wp` (heuristic only) -/
def nTermsAux (wp g : Nat) : Nat → Nat → Nat → Nat
  | 0, n, _ => n
  | f + 1, n, acc => if wp ≤ acc then n else nTermsAux wp g f (n + 1) (acc + g + Nat.log2 (n + 1))

def nTerms (wp g : Nat) : Nat := nTermsAux wp g (wp + 2) 0 0 + 1

/-! ### exp -/

/-- `(T_n ∋ x^n/n!, S_n ∋ Σ_{m<n} x^m/m!)` for every `x ∈ X` -/
def expTerms (wp : Nat) (X : DI) : Nat → DI × DI
  | 0 => (DI.one, DI.zero)
  | n + 1 =>
    let p := expTerms wp X n
    ((p.1.mul X).divNat wp (n + 1), (p.2.add p.1).round wp)

/-- enclosure of exp on `X ⊆ [-1,1]`, `n ≥ 1` terms; remainder `≤ 2·|x^n/n!|` -/
def expSmall (wp n : Nat) (X : DI) : DI :=
  let p := expTerms wp X n
  (p.2.widen (p.1.mag.shift 1)).round wp

/-- `k` squarings -/
def sqrN (wp : Nat) : Nat → DI → DI
  | 0, E => E
  | k + 1, E => sqrN wp k ((E.mul E).round wp)

/-- enclosure of `exp x` at a dyadic point -/
def expPoint (wp : Nat) (x : Dy) : DI :=
  let r := Nat.sqrt wp + 1
  let k : Nat := ((blen x.m : Int) + x.e + (r : Int)).toNat
  let wp' := wp + k + 16
  let x' : Dy := ⟨x.m, x.e - (k : Int)⟩
  let n := nTerms wp' x'.lowBits
  (sqrN wp' k (expSmall wp' n (DI.point x'))).round wp

def expI (wp : Nat) (I : DI) : DI := ⟨(expPoint wp I.lo).lo, (expPoint wp I.hi).hi⟩

/-! ### log -/

/-- `(P_n ∋ t^(n+1), S_n ∋ Σ_{i<n} t^(i+1)/(i+1))` for every `t ∈ T` -/
def logTerms (wp : Nat) (T : DI) : Nat → DI × DI
  | 0 => (T, DI.zero)
  | n + 1 =>
    let p := logTerms wp T n
    ((p.1.mul T).round wp, (p.2.add (p.1.divNat wp (n + 1))).round wp)

/-- enclosure of `-log(1-t)` for `t ∈ T`, `|T| ≤ 1/2`; remainder `≤ 2|t|^(n+1)` -/
def log1mNeg (wp n : Nat) (T : DI) : DI :=
  let p := logTerms wp T n
  p.2.widen (p.1.mag.shift 1)

def sqrtN (wp : Nat) : Nat → DI → DI
  | 0, U => U
  | j + 1, U => sqrtN wp j (sqrtI wp U)

/-- enclosure of `log u` for `u ∈ U`, `U` positive and not far from 1:
`log u = 2^j · log(u^(1/2^j))`, series for `-log(1 - t)` with `t = 1 - u^(1/2^j)` -/
def logCore (wp j : Nat) (U : DI) : Option DI :=
  let V := sqrtN wp j U
  let T := DI.one.sub V
  if 0 < U.lo.m ∧ T.mag.le ⟨1, -1⟩ = true then
    let g := T.mag.lowBits
    let n := if T.mag.m = 0 then 1 else wp / (if g = 0 then 1 else g) + 2
    some (((log1mNeg wp n T).neg.shift j).round wp)
  else none

/-- enclosure of `log (u·2^s)` as `log u + s·log 2` (all other parameters are heuristics) -/
def logWith (wp wp' j r : Nat) (s : Int) (u : Dy) : Option DI :=
  if s = 0 then (logCore wp' j (DI.point u)).map (DI.round wp)
  else
    match logCore wp' j (DI.point u), logCore wp' r (DI.ofInt 2) with
    | some a, some b => some (((b.mul (DI.ofInt s)).add a).round wp)
    | _, _ => none

/-- enclosure of `log x` at a positive dyadic point; `none` for `x ≤ 0` -/
def logPoint (wp : Nat) (x : Dy) : Option DI :=
  if x.m ≤ 0 then none else
  let s0 : Int := (blen x.m : Int) + x.e
  -- u0 = x·2^(-s0) ∈ [1/2,1); use 2·u0 ∈ [1,3/2) when u0 < 3/4
  let s : Int := if (Dy.mk x.m (x.e - s0)).le ⟨3, -2⟩ then s0 - 1 else s0
  let u : Dy := ⟨x.m, x.e - s⟩
  let r := Nat.sqrt wp / 2 + 1
  let wp' := wp + 2 * r + 16 + blen s
  let near := (DI.one.sub (DI.point u)).mag.lowBits
  let j := if r ≤ near then 0 else r
  logWith wp wp' j r s u

def logI (wp : Nat) (I : DI) : Option DI :=
  match logPoint wp I.lo, logPoint wp I.hi with
  | some a, some b => some ⟨a.lo, b.hi⟩
  | _, _ => none

/-! ### atan, pi -/

/-- `(P_n ∋ x^(2n+1), S_n ∋ Σ_{i<n} (-1)^i x^(2i+1)/(2i+1))` for `x ∈ X`, `x² ∈ X2` -/
def atanTerms (wp : Nat) (X X2 : DI) : Nat → DI × DI
  | 0 => (X, DI.zero)
  | n + 1 =>
    let p := atanTerms wp X X2 n
    let t := p.1.divNat wp (2 * n + 1)
    ((p.1.mul X2).round wp, (if n % 2 = 0 then p.2.add t else p.2.sub t).round wp)

/-- enclosure of `arctan x` for `x ∈ X ⊆ [0, 1/2]` from the alternating series:
`S_{2k} ≤ arctan x ≤ S_{2k} + x^(4k+1)/(4k+1)` -/
def atanSmall (wp k : Nat) (X : DI) : DI :=
  let p := atanTerms wp X ((X.mul X).round wp) (2 * k)
  let t := p.1.divNat wp (2 * (2 * k) + 1)
  ⟨p.2.lo, p.2.hi.add t.hi⟩

/-- number of pairs of terms for `atanSmall` (heuristic) -/
def atanK (wp : Nat) (X : DI) : Nat :=
  let g := X.hi.lowBits
  if X.hi.m = 0 then 0 else wp / (4 * (if g = 0 then 1 else g)) + 1

/-- π from Machin's formula; fallback `[3,4]` -/
def piI (wp : Nat) : DI :=
  let wp' := wp + 16
  let a := DI.one.divNat wp' 5
  let b := DI.one.divNat wp' 239
  if 0 ≤ a.lo.m ∧ a.hi.le ⟨1, -1⟩ = true ∧ 0 ≤ b.lo.m ∧ b.hi.le ⟨1, -1⟩ = true then
    let A := atanSmall wp' (atanK wp' a) a
    let B := atanSmall wp' (atanK wp' b) b
    (((A.shift 2).sub B).shift 2).round wp
  else ⟨Dy.ofInt 3, Dy.ofInt 4⟩

/-- one angle-halving step `x ↦ x/(1+√(1+x²))` -/
def atanRed (wp : Nat) (X : DI) : Option DI :=
  let D := (DI.one.add (sqrtI wp ((DI.one.add (X.mul X)).round wp))).round wp
  if 0 < D.lo.m then some (X.divPos wp D) else none

def atanRedN (wp : Nat) : Nat → DI → Option DI
  | 0, X => some X
  | j + 1, X => (atanRed wp X).bind (atanRedN wp j)

/-- enclosure of `arctan x` at a dyadic point `x ≥ 0`; fallback `[0,2]` -/
def atanPos (wp : Nat) (x : Dy) : DI :=
  let r := Nat.sqrt wp / 2 + 1
  let j := if r ≤ x.lowBits then 0 else r + 2
  let wp' := wp + 2 * j + 16
  match atanRedN wp' j (DI.point x) with
  | some Y =>
    if 0 ≤ Y.lo.m ∧ Y.hi.le ⟨1, -1⟩ = true then
      (((atanSmall wp' (atanK wp' Y) Y)).shift j).round wp
    else ⟨Dy.zero, Dy.ofInt 2⟩
  | none => ⟨Dy.zero, Dy.ofInt 2⟩

def atanPoint (wp : Nat) (x : Dy) : DI :=
  if x.m < 0 then (atanPos wp x.neg).neg else atanPos wp x

def atanI (wp : Nat) (I : DI) : DI := ⟨(atanPoint wp I.lo).lo, (atanPoint wp I.hi).hi⟩

/-! ### sin, cos -/

/-- `(T_n ∋ r^(2n)/(2n)!, C_n ∋ Σ_{j<n} (-1)^j r^(2j)/(2j)!, S_n ∋ Σ_{j<n} (-1)^j r^(2j+1)/(2j+1)!)` -/
def trigTerms (wp : Nat) (R : DI) : Nat → DI × DI × DI
  | 0 => (DI.one, DI.zero, DI.zero)
  | n + 1 =>
    let p := trigTerms wp R n
    let t1 := (p.1.mul R).divNat wp (2 * n + 1)
    let t2 := (t1.mul R).divNat wp (2 * n + 2)
    (t2,
     (if n % 2 = 0 then p.2.1.add p.1 else p.2.1.sub p.1).round wp,
     (if n % 2 = 0 then p.2.2.add t1 else p.2.2.sub t1).round wp)

/-- `(cos r, sin r)` enclosures for `r ∈ R ⊆ [-1,1]`, `n ≥ 1`; remainder `≤ 2|r^(2n)/(2n)!|` -/
def cosSinSmall (wp n : Nat) (R : DI) : DI × DI :=
  let p := trigTerms wp R n
  let rem := p.1.mag.shift 1
  ((p.2.1.widen rem).round wp, (p.2.2.widen rem).round wp)

/-- `x - n·(π/2)` with π enclosed at `w` bits; sound for every `n` and `w` -/
def trigSub (w : Nat) (n : Int) (X : DI) : DI :=
  X.sub ((DI.ofInt n).mul ((piI w).shift (-1)))

/-- heuristic plan for the reduction `x = r + n·(π/2)`: the quadrant integer `n` and the precision
at which π is needed (cancellation is measured at low precision first); unconstrained by the proofs -/
def trigPlan (wp : Nat) (X : DI) : Int × Nat :=
  let big := (blen X.mag.m : Int) + X.mag.e   -- |x| < 2^big
  let ex : Nat := big.toNat
  let w1 := ex + 32
  let H1 := (piI w1).shift (-1)
  let n : Int :=
    if 0 < H1.lo.m then ((X.lo.divDown w1 H1.lo).add ⟨1, -1⟩).floor else 0
  if n = 0 then (0, 0) else
  let c1 := (trigSub w1 n X).mag.lowBits
  let c2 := if c1 < 24 then c1 else (trigSub (ex + wp + 32) n X).mag.lowBits
  (n, wp + ex + c2 + 16)

/-- `(cos r, sin r)` enclosures moved to quadrant `q = n mod 4` -/
def quadrant (q : Int) (c s : DI) : DI × DI :=
  if q = 0 then (c.clamp1, s.clamp1)
  else if q = 1 then (s.neg.clamp1, c.clamp1)
  else if q = 2 then (c.neg.clamp1, s.neg.clamp1)
  else (s.clamp1, c.neg.clamp1)

/-- `(cos x, sin x)` enclosures for `x ∈ X`, using the reduction `x = r + n·(π/2)` with π at `w` bits;
`[-1,1]` if the reduced argument is not in `[-1,1]` -/
def cosSinWith (wp : Nat) (n : Int) (w : Nat) (X : DI) : DI × DI :=
  let R := if n = 0 then X else (trigSub w n X).round (wp + 16)
  let full : DI := ⟨Dy.ofInt (-1), Dy.one⟩
  if R.mag.le Dy.one then
    let wp' := wp + 16
    let cs := cosSinSmall wp' (nTerms wp' R.mag.lowBits / 2 + 1) R
    quadrant (n % 4) cs.1 cs.2
  else (full, full)

def cosSinI (wp : Nat) (X : DI) : DI × DI :=
  let pl := trigPlan wp X
  cosSinWith wp pl.1 pl.2 X

def cosI (wp : Nat) (X : DI) : DI := ((cosSinI wp X).1).round wp
def sinI (wp : Nat) (X : DI) : DI := ((cosSinI wp X).2).round wp

/-! ### derived functions and the accuracy checker -/

/-- `x = y` as real numbers -/
def Dy.eqv (x y : Dy) : Bool := x.le y && y.le x

/-- `cot, sec, csc` and `tan` from the `(cos, sin)` enclosures -/
def tanPoint (wp : Nat) (x : Dy) : Option DI :=
  let cs := cosSinI (wp + 8) (DI.point x)
  (cs.2.divI (wp + 8) cs.1).map (DI.round wp)
def cotPoint (wp : Nat) (x : Dy) : Option DI :=
  let cs := cosSinI (wp + 8) (DI.point x)
  (cs.1.divI (wp + 8) cs.2).map (DI.round wp)
def secPoint (wp : Nat) (x : Dy) : Option DI :=
  let cs := cosSinI (wp + 8) (DI.point x)
  (DI.one.divI (wp + 8) cs.1).map (DI.round wp)
def cscPoint (wp : Nat) (x : Dy) : Option DI :=
  let cs := cosSinI (wp + 8) (DI.point x)
  (DI.one.divI (wp + 8) cs.2).map (DI.round wp)

def sinhPoint (wp : Nat) (x : Dy) : DI :=
  let w := wp + x.lowBits + 8
  (((expI w (DI.point x)).sub (expI w (DI.point x).neg)).shift (-1)).round wp
def coshPoint (wp : Nat) (x : Dy) : DI :=
  let w := wp + 8
  (((expI w (DI.point x)).add (expI w (DI.point x).neg)).shift (-1)).round wp
def tanhPoint (wp : Nat) (x : Dy) : Option DI :=
  let w := wp + x.lowBits + 8
  let a := expI w (DI.point x)
  let b := expI w (DI.point x).neg
  ((a.sub b).divI (wp + 8) (a.add b)).map (DI.round wp)
/-- `exp x - 1` -/
def expm1Point (wp : Nat) (x : Dy) : DI :=
  let w := wp + x.lowBits + 8
  ((expI w (DI.point x)).sub DI.one).round wp
/-- `log (1 + x)` (the sum is exact) -/
def log1pPoint (wp : Nat) (x : Dy) : Option DI := logI wp (DI.point (Dy.one.add x))

/-- `arsinh x = log (x + √(1+x²))` for `x ≥ 0` -/
def asinhPos (wp : Nat) (x : Dy) : Option DI :=
  let w := wp + x.lowBits + 8
  let X := DI.point x
  (logI w (X.add (sqrtI w ((DI.one.add (X.mul X)).round w)))).map (DI.round wp)
def asinhPoint (wp : Nat) (x : Dy) : Option DI :=
  if x.m < 0 then (asinhPos wp x.neg).map DI.neg else asinhPos wp x
/-- `arcosh x = log (x + √(x²-1))`, only for `x ≥ 1` -/
def acoshPoint (wp : Nat) (x : Dy) : Option DI :=
  if x.lt Dy.one then none else
  let w := wp + (x.sub Dy.one).lowBits + 8
  let X := DI.point x
  (logI w (X.add (sqrtI w (((X.mul X).sub DI.one).round w)))).map (DI.round wp)
/-- `artanh x = ½ log ((1+x)/(1-x))`, only for `-1 < x < 1` -/
def atanhPoint (wp : Nat) (x : Dy) : Option DI :=
  if (Dy.ofInt (-1)).lt x ∧ x.lt Dy.one then
    let w := wp + x.lowBits + 8
    let X := DI.point x
    (((DI.one.add X).divI w (DI.one.sub X)).bind (logI w)).map (fun L => (L.shift (-1)).round wp)
  else none

/-- `arcsin x = arctan (x/√(1-x²))` for `-1 < x < 1` -/
def asinOpen (wp : Nat) (x : Dy) : Option DI :=
  let w := wp + 8
  let X := DI.point x
  (X.divI w (sqrtI w (DI.one.sub (X.mul X)))).map (fun Q => (atanI w Q).round wp)
def asinPoint (wp : Nat) (x : Dy) : Option DI :=
  if (Dy.ofInt (-1)).lt x ∧ x.lt Dy.one then asinOpen wp x
  else if x.eqv Dy.one then some (((piI (wp + 8)).shift (-1)).round wp)
  else if x.eqv (Dy.ofInt (-1)) then some (((piI (wp + 8)).shift (-1)).neg.round wp)
  else none
/-- `arccos x = arctan (√(1-x²)/x)` for `0 < x ≤ 1`, `π/2 - arcsin x` for `-1 < x ≤ 0`, `π` at `-1` -/
def acosPoint (wp : Nat) (x : Dy) : Option DI :=
  let w := wp + 8
  let X := DI.point x
  if 0 < x.m then
    if x.le Dy.one then
      ((sqrtI w (DI.one.sub (X.mul X))).divI w X).map (fun Q => (atanI w Q).round wp)
    else none
  else if (Dy.ofInt (-1)).lt x then
    (asinOpen w x).map (fun A => (((piI w).shift (-1)).sub A).round wp)
  else if x.eqv (Dy.ofInt (-1)) then some (piI wp)
  else none

/-- `(cos πx, sin πx)`: exact reduction `x = r₀ + n/2`, then `π·r₀` with the π enclosure -/
def cosSinPi (wp : Nat) (x : Dy) : DI × DI :=
  let n := ((x.shift 1).add ⟨1, -1⟩).floor
  let r0 := x.sub ((Dy.ofInt n).shift (-1))
  let w := wp + 16
  let R := ((piI w).mul (DI.point r0)).round w
  let full : DI := ⟨Dy.ofInt (-1), Dy.one⟩
  if R.mag.le Dy.one then
    let cs := cosSinSmall w (nTerms w R.mag.lowBits / 2 + 1) R
    quadrant (n % 4) cs.1 cs.2
  else (full, full)

inductive FunId
  | exp | log | sqrt | atan | sin | cos | pi | tan | sinh | cosh | tanh
  | cot | sec | csc | expm1 | log1p | asin | acos | asinh | acosh | atanh | sinpi | cospi
  deriving DecidableEq, Inhabited

/-- enclosure of `f x` at a dyadic point; `none` outside the real domain or when undetermined
(division by an interval containing 0) -/
def evalPoint (f : FunId) (wp : Nat) (x : Dy) : Option DI :=
  let X := DI.point x
  match f with
  | .exp => some (expI wp X)
  | .log => logI wp X
  | .sqrt => if x.m < 0 then none else some ((sqrtI (wp + 2) X).round wp)
  | .atan => some (atanI wp X)
  | .sin => some (sinI wp X)
  | .cos => some (cosI wp X)
  | .pi => some (piI wp)
  | .tan => tanPoint wp x
  | .sinh => some (sinhPoint wp x)
  | .cosh => some (coshPoint wp x)
  | .tanh => tanhPoint wp x
  | .cot => cotPoint wp x
  | .sec => secPoint wp x
  | .csc => cscPoint wp x
  | .expm1 => some (expm1Point wp x)
  | .log1p => log1pPoint wp x
  | .asin => asinPoint wp x
  | .acos => acosPoint wp x
  | .asinh => asinhPoint wp x
  | .acosh => acoshPoint wp x
  | .atanh => atanhPoint wp x
  | .sinpi => some ((cosSinPi wp x).2.round wp)
  | .cospi => some ((cosSinPi wp x).1.round wp)

inductive Verdict
  | ok | violates | undecided
  deriving DecidableEq, Inhabited

/-- decide `|y - v| ≤ t·|v|` for all / no `v ∈ F` -/
def decide1 (F : DI) (y t : Dy) : Verdict :=
  let E : DI := ⟨y.sub F.hi, y.sub F.lo⟩      -- y - v
  if E.mag.le (t.mul F.mig) then .ok
  else if (t.mul F.mag).lt E.mig then .violates
  else .undecided

def accLoop (f : FunId) (x y t : Dy) : List Nat → Verdict
  | [] => .undecided
  | wp :: ws =>
    match evalPoint f wp x with
    | none => .undecided
    | some F =>
      match decide1 F y t with
      | .undecided => accLoop f x y t ws
      | v => v

/-- decide `|y - f(x)| ≤ 2^(k-p)·|f(x)|` rigorously -/
def accCheck (f : FunId) (x y : Dy) (p k : Nat) : Verdict :=
  accLoop f x y ⟨1, (k : Int) - (p : Int)⟩ [p + 32, 2 * p + 96, 4 * p + 256, 8 * p + 1024]

end Mp.Encl
