/-
  MpModel/Skel.lean — precision-effect skeletons (DESIGN.md §2.2 T3, §4 C11).

  A Python function of mpmath is abstracted (by `tools/skel_extract.py`, from the `ast` of the
  file as it is in /repo now) to a term of the IR `Stmt` that keeps only what matters for
  "is the working precision on exit what it was on entry":

    * reads of `ctx.prec` / `ctx.dps` into a variable          (`save`)
    * other assignments to such a variable                      (`assign`, kills the save)
    * writes of `ctx.prec` / `ctx.dps`                          (`setPrec`, `setDps`)
    * calls (every call may raise)                              (`call`, `callLeaky`)
    * control structure: `seq`, `ite`, `loop`, `try/finally`, `try/except`, `with <PrecisionManager>`,
      `return`, `raise`, `break`, `continue`, `yield`.

  The context state is the pair `(prec, dps)` exactly as `PythonMPContext` stores it
  (`_prec`, `_dps`); the two setters are those of ctx_mp_python.py:605-619:

      def _set_prec(ctx, n): ctx._prec = max(1, int(n));      ctx._dps = prec_to_dps(n)
      def _set_dps(ctx, n):  ctx._prec = dps_to_prec(n);      ctx._dps = max(1, int(n))

  so writing a saved `dps` back is not the identity on `prec`.

  Semantics: a total function `exec` over an explicit schedule (`List Int`, consumed left to
  right, `0` when exhausted) that decides: for each call whether it returns (0) or raises (≠0);
  for `callLeaky` additionally which `(prec, dps)` it leaves behind; for `ite` which branch; for
  `loop` how many iterations at most; for `setPrec/setDps .other` and `assign` which value;
  for `try/except` whether the handler matches; for `with` whether `__enter__` raises.
-/
import MpModel.PrecConv

namespace Mp.Skel

abbrev Var := Nat

/-- the precision part of the context: `ctx._prec`, `ctx._dps` -/
structure St where
  prec : Int
  dps : Int
deriving DecidableEq, Repr

/-- `ctx.prec = n`  (`PythonMPContext._set_prec`) -/
def St.setPrec (_σ : St) (n : Int) : St := ⟨max 1 n, precToDps n⟩
/-- `ctx.dps = n`  (`PythonMPContext._set_dps`) -/
def St.setDps (_σ : St) (n : Int) : St := ⟨dpsToPrec n, max 1 n⟩

/-- which attribute of the context is read/written -/
inductive Field | prec | dps
deriving DecidableEq, Repr

/-- right-hand side of a precision write: a variable that is tracked, or anything else -/
inductive Src
  | saved (v : Var)
  | other
deriving DecidableEq, Repr

inductive Stmt
  | skip
  | save (v : Var) (f : Field)          -- v = ctx.prec   /  v = ctx.dps
  | assign (v : Var)                    -- v = <anything else>
  | setPrec (s : Src)                   -- ctx.prec = v   /  ctx.prec = <expr>, ctx.prec += …
  | setDps (s : Src)                    -- ctx.dps = v    /  ctx.dps = <expr>
  | call                                -- may raise; callee summary `neutral`
  | callLeaky                           -- may raise AND may leave any (prec, dps)
  | yld                                 -- `yield`: the consumer runs at the current precision
  | ret | raise | brk | cont
  | seq (a b : Stmt)
  | ite (a b : Stmt)
  | loop (body : Stmt)
  | tryFinally (body fin : Stmt)
  | tryExcept (body handler : Stmt)
  | withMgr (m : Var) (f : Field) (body : Stmt)
      -- `with M: body`, M a PrecisionManager object (workprec/extraprec: f = prec,
      -- workdps/extradps: f = dps); `m` names the *object* (its attribute `origp`).
deriving DecidableEq, Repr

inductive Out | normal | returned | raised | broke | continued
deriving DecidableEq, Repr

structure Cfg where
  st  : St
  env : Var → Int
  orc : List Int
  obs : List St          -- states seen by the consumer at each `yield`

def upd (env : Var → Int) (v : Var) (x : Int) : Var → Int := fun w => if w = v then x else env w

/-- next choice of the schedule -/
def Cfg.peek (c : Cfg) : Int := match c.orc with | [] => 0 | a :: _ => a
def Cfg.pop (c : Cfg) : Cfg := { c with orc := c.orc.tail }

/-- at most `k` iterations of a loop body `f` -/
def iter (f : Cfg → Out × Cfg) : Nat → Cfg → Out × Cfg
  | 0, c => (.normal, c)
  | k+1, c =>
    let r := f c
    match r.1 with
    | .normal | .continued => iter f k r.2
    | .broke => (.normal, r.2)
    | o => (o, r.2)

def outOfFlag (x : Int) : Out := if x = 0 then .normal else .raised

def exec : Stmt → Cfg → Out × Cfg
  | .skip, c => (.normal, c)
  | .save v .prec, c => (.normal, { c with env := upd c.env v c.st.prec })
  | .save v .dps, c => (.normal, { c with env := upd c.env v c.st.dps })
  | .assign v, c => (.normal, { c.pop with env := upd c.env v c.peek })
  | .setPrec (.saved v), c => (.normal, { c with st := c.st.setPrec (c.env v) })
  | .setPrec .other, c => (.normal, { c.pop with st := c.st.setPrec c.peek })
  | .setDps (.saved v), c => (.normal, { c with st := c.st.setDps (c.env v) })
  | .setDps .other, c => (.normal, { c.pop with st := c.st.setDps c.peek })
  | .call, c => (outOfFlag c.peek, c.pop)
  | .callLeaky, c =>
      (outOfFlag c.pop.pop.peek, { c.pop.pop.pop with st := ⟨c.peek, c.pop.peek⟩ })
  | .yld, c => (.normal, { c with obs := c.st :: c.obs })
  | .ret, c => (.returned, c)
  | .raise, c => (.raised, c)
  | .brk, c => (.broke, c)
  | .cont, c => (.continued, c)
  | .seq a b, c =>
      let r := exec a c
      if r.1 = .normal then exec b r.2 else r
  | .ite a b, c => if c.peek = 0 then exec a c.pop else exec b c.pop
  | .loop b, c => iter (exec b) c.peek.toNat c.pop
  | .tryFinally b f, c =>
      let r := exec b c
      let r2 := exec f r.2
      -- a `finally` block that itself returns/raises/breaks overrides the pending outcome
      (if r2.1 = .normal then r.1 else r2.1, r2.2)
  | .tryExcept b h, c =>
      let r := exec b c
      if r.1 = .raised then
        (if r.2.peek = 0 then exec h r.2.pop else (.raised, r.2.pop))
      else r
  | .withMgr m f b, c =>
      -- PrecisionManager.__enter__:  self.origp = self.ctx.prec
      let c1 : Cfg := { c with env := upd c.env m c.st.prec }
      --   self.precfun(self.ctx.prec) / self.dpsfun(self.ctx.dps) may raise: no __exit__ then
      if c1.peek ≠ 0 then (.raised, c1.pop) else
      let c2 := c1.pop
      --   self.ctx.prec = …   or   self.ctx.dps = …
      let c3 : Cfg := { c2.pop with st := match f with
                                          | .prec => c2.st.setPrec c2.peek
                                          | .dps => c2.st.setDps c2.peek }
      let r := exec b c3
      -- PrecisionManager.__exit__:  self.ctx.prec = self.origp; return False
      (r.1, { r.2 with st := r.2.st.setPrec (r.2.env m) })

/-! ### The syntactic check -/

/-- variables (and manager objects) a statement may overwrite -/
def kills : Stmt → List Var
  | .save v _ => [v]
  | .assign v => [v]
  | .seq a b => kills a ++ kills b
  | .ite a b => kills a ++ kills b
  | .loop b => kills b
  | .tryFinally b f => kills b ++ kills f
  | .tryExcept b h => kills b ++ kills h
  | .withMgr m _ b => m :: kills b
  | _ => []

def hasYield : Stmt → Bool
  | .yld => true
  | .seq a b => hasYield a || hasYield b
  | .ite a b => hasYield a || hasYield b
  | .loop b => hasYield b
  | .tryFinally b f => hasYield b || hasYield f
  | .tryExcept b h => hasYield b || hasYield h
  | .withMgr _ _ b => hasYield b
  | _ => false

def diff (S K : List Var) : List Var := S.filter (fun v => !K.contains v)
def inter (S T : List Var) : List Var := S.filter (fun v => T.contains v)

/-- variables known to hold the entry precision after *normal* completion of a statement,
    given the set `S` known at its start -/
def after (S : List Var) : Stmt → List Var
  | .save v .prec => v :: S
  | .save v .dps => diff S [v]
  | .assign v => diff S [v]
  | .seq a b => after (after S a) b
  | .ite a b => inter (after S a) (after S b)
  | .loop b => diff S (kills b)
  | .tryFinally b f => after (diff S (kills b)) f
  | .tryExcept b h => inter (after S b) (after (diff S (kills b)) h)
  | .withMgr m _ b => diff S (m :: kills b)
  | _ => S

/-- `okG dirty S p`: with the variables in `S` holding the entry precision,
    * `dirty = false`: `p` starts at the entry precision and every precision write in it sits inside
      a `try … finally: ctx.prec = v` (v ∈ S, not reassigned in the body) or inside a `with` manager
      (whose object is not re-entered or overwritten in the body); leaky calls only occur there too;
    * `dirty = true`: `p` is a `finally` block that starts at an unknown precision and restores it
      first (`ctx.prec = v`, v ∈ S), the rest being `okG false`. -/
def okG : Bool → List Var → Stmt → Bool
  | false, _, .setPrec _ => false
  | false, _, .setDps _ => false
  | false, _, .callLeaky => false
  | false, S, .seq a b => okG false S a && okG false (after S a) b
  | false, S, .ite a b => okG false S a && okG false S b
  | false, S, .loop b => okG false (diff S (kills b)) b
  | false, S, .tryFinally b f =>
      (okG false S b && okG false (diff S (kills b)) f)
      || (!hasYield b && okG true (diff S (kills b)) f)
  | false, S, .tryExcept b h => okG false S b && okG false (diff S (kills b)) h
  | false, _, .withMgr m _ b => !(kills b).contains m && !hasYield b
  | false, _, _ => true
  | true, S, .setPrec (.saved v) => S.contains v
  | true, S, .seq a b => okG true S a && okG false (after S a) b
  | true, _, _ => false

/-- the decidable predicate of DESIGN.md: every precision write is dominated by a `save v` reading
    `prec` (not `dps`) and post-dominated, on normal and exceptional edges, by `ctx.prec = v`. -/
def bracketed (p : Stmt) : Bool := okG false [] p

/-- no precision write, no leaky call, no manager: what the translator does NOT emit -/
def effectFree : Stmt → Bool
  | .setPrec _ | .setDps _ | .callLeaky | .withMgr _ _ _ => false
  | .seq a b | .ite a b | .tryFinally a b | .tryExcept a b => effectFree a && effectFree b
  | .loop b => effectFree b
  | _ => true

/-- run a function skeleton from state `σ` with locals `env` under schedule `sched` -/
def run (p : Stmt) (σ : St) (env : Var → Int) (sched : List Int) : Out × Cfg :=
  exec p ⟨σ, env, sched, []⟩

end Mp.Skel
