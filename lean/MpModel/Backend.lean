/-
  MpModel/Backend.lean — the pure-Python helpers that the gmpy backend replaces by GMP routines and
  that are driven by tables / floats (mpmath/libmp/libintmath.py):

      powers = [1<<_ for _ in range(300)]
      def python_bitcount(n):
          bc = bisect(powers, n)
          if bc != 300: return bc
          bc = int(math.log(n, 2)) - 4
          return bc + bctable[n>>bc]                       # bctable = [bitcount(n) for n in range(1024)]

      small_trailing = [0]*256;  for j in range(1,8): small_trailing[1<<j::1<<(j+1)] = [j]*(1<<(7-j))
      def python_trailing(n):
          if not n: return 0
          low_byte = n & 0xff
          if low_byte: return small_trailing[low_byte]
          t = 8; n >>= 8
          while not n & 0xff: n >>= 8; t += 8
          return t + small_trailing[n & 0xff]

  Deviations, on purpose:
    * `bisect(powers, n)` (C implementation of bisect_right) is modelled by its specification on a
      sorted list: the number of table entries `≤ n` (`bisectPowers`, a scan from the top);
    * the float expression `int(math.log(n, 2))` is a PARAMETER `est` (the harness passes the value
      computed by CPython); the theorem states how accurate it has to be;
    * `n ≥ 0` only (all callers pass mantissas).
-/
import MpModel.Core

namespace Mp.Backend
open Mp

/-- number of `k < K` with `2^k ≤ n`  (= `bisect(powers[:K], n)`; the table is increasing) -/
def bisectPowers (n : Nat) : Nat → Nat
  | 0 => 0
  | k + 1 => if 2 ^ k ≤ n then k + 1 else bisectPowers n k

/-- `bctable[i]`; `none` = IndexError -/
def bctable (i : Nat) : Option Nat := if i < 1024 then some (bisectPowers i 300) else none

/-- `python_bitcount(n)` with `est = int(math.log(n, 2))`.  `.error .value` stands for the exceptions the
real code raises when the estimate is unusable (negative shift count → ValueError, IndexError). -/
def pythonBitcount (n : Nat) (est : Int) : Except Err Int :=
  let bc := bisectPowers n 300
  if bc ≠ 300 then .ok bc else
  let b := est - 4
  if b < 0 then .error .value else
  match bctable (n >>> b.toNat) with
  | some t => .ok (b + t)
  | none => .error .value

/-- the table `small_trailing`, built by the same slice assignments: entry `b` (for `b < 256`) -/
def smallTrailing (b : Nat) : Nat :=
  -- index i receives j (1 ≤ j ≤ 7) iff i ≡ 2^j (mod 2^(j+1)); later j never overwrite earlier ones
  (List.range 7).foldl (fun acc j0 => let j := j0 + 1
    if b % 2 ^ (j + 1) = 2 ^ j then j else acc) 0

/-- the `while not n & 0xff` loop: `fuel` bounds the number of bytes -/
def trailingLoop : Nat → Nat → Nat → Nat
  | 0, _, t => t
  | fuel + 1, n, t => if n % 256 = 0 then trailingLoop fuel (n >>> 8) (t + 8) else t + smallTrailing (n % 256)

/-- `python_trailing(n)` for `n ≥ 0` -/
def pythonTrailing (n : Nat) : Nat :=
  if n = 0 then 0 else
  let low := n % 256
  if low ≠ 0 then smallTrailing low
  else trailingLoop (bitcount n) (n >>> 8) 8

end Mp.Backend
