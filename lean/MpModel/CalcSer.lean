/-
  MpModel/CalcSer.lean — series / product / limit families with closed forms (property C27), import-free.

  Every family has rational terms `termQ k : Rat` (so the Python transcription of the summand can be
  cross-checked exactly through the driver op `serterm`) and a closed-form value as a `Ref`.
  The theorems "partial sums / products / sequence values tend to `Ref.sem (valueRef)`" are in
  `MpProofs/CalcSer.lean` and `Props/C27.lean`.
-/
import MpModel.CalcRef

namespace Mp.Calc

/-- one-sided series `Σ_{k ≥ start} termQ k` -/
inductive Ser
  /-- `c·r^k`, `k ≥ k0`, `|r| < 1` : `c·r^k0/(1−r)` -/
  | geom (c r : Rat) (k0 : Nat)
  /-- `1/k²`, `k ≥ 1` : `π²/6` -/
  | zeta2
  /-- `1/k⁴`, `k ≥ 1` : `π⁴/90` -/
  | zeta4
  /-- `1/((k+a)(k+a+1))`, `k ≥ 1` : `1/(a+1)` -/
  | tele (a : Nat)
  /-- `x^k/k!`, `k ≥ 0` : `e^x` -/
  | expS (x : Rat)
  /-- `(−1)^k x^(2k+1)/(2k+1)!`, `k ≥ 0` : `sin x` -/
  | sinS (x : Rat)
  /-- `(−1)^k x^(2k)/(2k)!`, `k ≥ 0` : `cos x` -/
  | cosS (x : Rat)
  /-- `x^k/k`, `k ≥ 1`, `|x| < 1` : `−log(1−x)` -/
  | logS (x : Rat)
  /-- `(−1)^k/(2k+1)`, `k ≥ 0` : `π/4` -/
  | leibniz
  deriving Inhabited, Repr

def Ser.start : Ser → Nat
  | .geom _ _ k0 => k0
  | .zeta2 | .zeta4 | .tele _ | .logS _ => 1
  | _ => 0

/-- the `k`-th term (meaningful for `k ≥ start`) -/
def Ser.termQ : Ser → Nat → Rat
  | .geom c r _, k => c * r ^ k
  | .zeta2, k => 1 / ((k : Rat) ^ 2)
  | .zeta4, k => 1 / ((k : Rat) ^ 4)
  | .tele a, k => 1 / (((k + a : Nat) : Rat) * ((k + a + 1 : Nat) : Rat))
  | .expS x, k => x ^ k / (natFactorial k : Nat)
  | .sinS x, k => (-1) ^ k * x ^ (2 * k + 1) / (natFactorial (2 * k + 1) : Nat)
  | .cosS x, k => (-1) ^ k * x ^ (2 * k) / (natFactorial (2 * k) : Nat)
  | .logS x, k => x ^ k / (k : Rat)
  | .leibniz, k => (-1) ^ k / ((2 * k + 1 : Nat) : Rat)

def qAbs (q : Rat) : Rat := if q < 0 then -q else q

/-- the sum, when the parameters are inside the domain of convergence -/
def Ser.sumRef : Ser → Option Ref
  | .geom c r k0 => if qAbs r < 1 then some (.rat (c * r ^ k0 / (1 - r))) else none
  | .zeta2 => some (.mul (.rat (1 / 6)) (.pow .pi 2))
  | .zeta4 => some (.mul (.rat (1 / 90)) (.pow .pi 4))
  | .tele a => some (.rat (1 / ((a + 1 : Nat) : Rat)))
  | .expS x => some (.exp (.rat x))
  | .sinS x => some (.sin (.rat x))
  | .cosS x => some (.cos (.rat x))
  | .logS x => if qAbs x < 1 then some (.neg (.log (.rat (1 - x)))) else none
  | .leibniz => some (.mul (.rat (1 / 4)) .pi)

/-- exact finite partial sum `Σ_{k=a}^{b} termQ k` (empty when `b < a`), accumulated in increasing `k` -/
def Ser.partial (s : Ser) (a b : Nat) : Rat :=
  (List.range (b + 1 - a)).foldl (fun acc i => acc + s.termQ (a + i)) 0

/-- infinite products `Π_{k ≥ start} factorQ k` -/
inductive Prd
  /-- `1 − 1/k²`, `k ≥ 2` : `1/2` -/
  | tele1
  /-- `1 + 1/(k(k+2))`, `k ≥ 1` : `2` -/
  | tele2
  /-- rational factors `(k + a)/(k + b)`, FINITE products only (no infinite value) -/
  | ratio (a b : Nat)
  deriving Inhabited, Repr

def Prd.start : Prd → Nat
  | .tele1 => 2
  | .tele2 => 1
  | .ratio _ _ => 1

def Prd.factorQ : Prd → Nat → Rat
  | .tele1, k => 1 - 1 / ((k : Rat) ^ 2)
  | .tele2, k => 1 + 1 / ((k : Rat) * ((k + 2 : Nat) : Rat))
  | .ratio a b, k => ((k + a : Nat) : Rat) / ((k + b : Nat) : Rat)

def Prd.prodRef : Prd → Option Ref
  | .tele1 => some (.rat (1 / 2))
  | .tele2 => some (.rat 2)
  | .ratio _ _ => none

def Prd.partial (s : Prd) (a b : Nat) : Rat :=
  (List.range (b + 1 - a)).foldl (fun acc i => acc * s.factorQ (a + i)) 1

/-- sequences / functions with a limit -/
inductive Lim
  /-- `(a·n + b)/(c·n + d)` as `n → ∞`, `c ≠ 0` : `a/c` -/
  | ratSeq (a b c d : Rat)
  /-- `(1 + t/n)^n` as `n → ∞` : `e^t` -/
  | euler (t : Rat)
  /-- `(e^{c·x} − 1)/x` as `x → 0` : `c` -/
  | slopeExp (c : Rat)
  /-- `sin(c·x)/x` as `x → 0` : `c` -/
  | slopeSin (c : Rat)
  deriving Inhabited, Repr

def Lim.limRef : Lim → Option Ref
  | .ratSeq a _ c _ => if c != 0 then some (.rat (a / c)) else none
  | .euler t => some (.exp (.rat t))
  | .slopeExp c => some (.rat c)
  | .slopeSin c => some (.rat c)

/-- C27 composite sums the driver can decide:
`s1 + s2` (a doubly infinite sum split at an index), `s1 · s2` (a 2-D sum of products),
`q · s` (a finite range in one dimension times an infinite one in the other) -/
def sumRef2 (s1 s2 : Ser) (op : Bool) : Option Ref := do
  let a ← s1.sumRef
  let b ← s2.sumRef
  pure (if op then Ref.mul a b else Ref.add a b)

end Mp.Calc
