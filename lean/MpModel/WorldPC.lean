/-
  MpModel/WorldPC.lean — the context world of MpModel/World.lean with the caches a context object
  OWNS made explicit (C38, clause "a clone computes what a context at the same precision computes").

  What exists in Python besides the settings cell and the module-level caches of libmp:
    * `ctx._misc_const_cache` (functions/bessel.py `c_memo`: the Airy constants, {name: (prec, value)}),
      `ctx._rs_cache` (functions/rszeta.py `coef`), `ctx.stieltjes_cache`, `ctx.hyp_summators`,
      the node caches of `ctx._tanh_sinh` / `ctx._gauss_legendre`, the dict captured by
      `ctx.zetazero_memoized` (`ctx.memoize`), `fp._bernoulli_cache`: all created by `__init__`
      of the context object (or lazily on first use), one per context object;
    * `mp.clone()` is `a = ctx.__class__(); a.prec = ctx.prec` (+ the link wiring): `a` owns NEW, EMPTY
      caches — nothing the parent has computed is carried over.

  An evaluation in context `i` reads cell `i`, the private caches of `i` and the shared caches, and
  writes the private caches of `i` and the shared caches; nothing else.
-/
import MpModel.World

namespace Mp.WorldPC
open Mp.World

/-- one context object: settings plus the caches it owns -/
structure Ctx (P : Type) where
  cell : Cell
  priv : P
deriving DecidableEq, Repr

structure WorldP (C P : Type) where
  ctxs : List (Ctx P)
  caches : C

/-- abstract numerics with private caches; `empty` is what `__init__` creates -/
structure SemP (C P F X V : Type) where
  empty : P
  run : Kind → C → P → F → Int → Rnd → X → C × P × V

/-- the process right after `import mpmath` -/
def init {C P F X V : Type} (S : SemP C P F X V) (c0 : C) : WorldP C P :=
  ⟨[⟨freshMp, S.empty⟩, ⟨freshIv, S.empty⟩, ⟨freshFp, S.empty⟩], c0⟩

/-- a settings statement rewrites the cell of its target only -/
def setCell {C P : Type} (w : WorldP C P) (i : Nat) (g : Cell → Cell) : WorldP C P × Bool :=
  match w.ctxs[i]? with
  | none => (w, false)
  | some c => ({ w with ctxs := w.ctxs.set i { c with cell := g c.cell } }, true)

def step {C P F X V : Type} (S : SemP C P F X V) (w : WorldP C P) : Op F X → WorldP C P × Outcome V
  | .setPrec i n => let r := setCell w i (·.setPrec n); (r.1, if r.2 then .done else .noCtx)
  | .setDps i n => let r := setCell w i (·.setDps n); (r.1, if r.2 then .done else .noCtx)
  | .setTrap i b => let r := setCell w i (fun c => { c with trap := b }); (r.1, if r.2 then .done else .noCtx)
  | .setPretty i b => let r := setCell w i (fun c => { c with pretty := b }); (r.1, if r.2 then .done else .noCtx)
  | .setRounding i r =>
    match w.ctxs[i]? with
    | none => (w, .noCtx)
    | some c =>
      match c.cell.kind with
      | .mp => ({ w with ctxs := w.ctxs.set i { c with cell := { c.cell with rounding := r } } }, .done)
      | _ => (w, .attrError)
  | .default i =>
    match w.ctxs[i]? with
    | none => (w, .noCtx)
    | some c =>
      match c.cell.kind with
      | .mp => ({ w with ctxs := w.ctxs.set i { c with cell := c.cell.default } }, .done)
      | _ => (w, .attrError)
  | .clone i =>
    match w.ctxs[i]? with
    | none => (w, .noCtx)
    | some c =>
      match c.cell.kind with
      | .mp => ({ w with ctxs := w.ctxs ++ [⟨c.cell.cloneOf, S.empty⟩] }, .created w.ctxs.length)
      | _ => (w, .attrError)
  | .eval i f x =>
    match w.ctxs[i]? with
    | none => (w, .noCtx)
    | some c =>
      let r := S.run c.cell.kind w.caches c.priv f c.cell.prec c.cell.rounding x
      ({ ctxs := w.ctxs.set i { c with priv := r.2.1 }, caches := r.1 }, .value r.2.2)

def runOps {C P F X V : Type} (S : SemP C P F X V) : WorldP C P → List (Op F X) → WorldP C P
  | w, [] => w
  | w, op :: ops => runOps S (step S w op).1 ops

/-- the outcomes of a program, statement by statement -/
def outcomes {C P F X V : Type} (S : SemP C P F X V) : WorldP C P → List (Op F X) → List (Outcome V)
  | _, [] => []
  | w, op :: ops => (step S w op).2 :: outcomes S (step S w op).1 ops

/-- forgetting the private caches gives a world of MpModel/World.lean -/
def WorldP.cells {C P : Type} (w : WorldP C P) : List Cell := w.ctxs.map (·.cell)

end Mp.WorldPC
