/-
  MpModel/CalcDiff.lean — executable reference checks for C28 (`diff`/`diffs`/`diffun`/`taylor`,
  `differint`, `pade` of `mpmath/calculus/differentiation.py`).

  * derivatives / Taylor coefficients: the closed forms are `Fam.derivRef` (in `MpModel/CalcRef.lean`);
    the value returned by mpmath is compared with `checkClose` against them.
  * `padeCheck a p q L M t`: validator for the output `(p, q)` of `pade(a, L, M)`: the lists have
    lengths `L+1`, `M+1`, `q[0] = 1`, and every coefficient of `A·Q − P` of degree `≤ L+M` is at most
    `t·padeScale` in absolute value (`t = 0`: the defining identity `A·Q = P + O(x^(L+M+1))` holds exactly).
    Coefficient lists are in increasing degree (`a[0] + a[1]·x + …`) like mpmath's.
  * `differintRef k n x`: closed form of `differint(lambda t: t**k, x, n, x0=0)` for integer orders
    `n ≥ 0` (the `n`-th derivative) and `n = −1` (the integral from 0).
  Soundness theorems: `MpProofs/CalcDiff.lean`; property statements: `Props/C28.lean`.
  Import-free apart from `MpModel` files; core `Rat`.
-/
import MpModel.CalcRef

namespace Mp.Calc

/-- `l[i]`, and `0` outside the list -/
def coeffAt (l : List Rat) (i : Nat) : Rat := l.getD i 0

/-- absolute value of a rational -/
def absQ (q : Rat) : Rat := if q < 0 then -q else q

/-- maximum of two rationals -/
def maxQ (a b : Rat) : Rat := if a < b then b else a

/-- coefficient of `x^j` in `A(x)·Q(x) − P(x)`: `(Σ_{i=0..j} q[i]·a[j−i]) − p[j]` (missing entries are 0) -/
def padeResid (a p q : List Rat) (j : Nat) : Rat :=
  ((List.range (j + 1)).map fun i => coeffAt q i * coeffAt a (j - i)).sum - coeffAt p j

/-- `max_{j ≤ n} |a[j]|` -/
def maxAbs (a : List Rat) (n : Nat) : Rat :=
  (List.range (n + 1)).foldl (fun m j => maxQ m (absQ (coeffAt a j))) 0

/-- the scale of the residual tolerance: `(Σ_i |q[i]|) · max_{j ≤ n} |a[j]|` -/
def padeScale (a q : List Rat) (n : Nat) : Rat :=
  (q.map absQ).sum * maxAbs a n

/-- validator for `p, q = pade(a, L, M)`: shapes, normalisation `q[0] = 1`, and
`|[x^j](A·Q − P)| ≤ t·padeScale a q (L+M)` for every `j ≤ L+M` -/
def padeCheck (a p q : List Rat) (L M : Nat) (t : Rat) : Bool :=
  decide (p.length = L + 1) && decide (q.length = M + 1) && decide (coeffAt q 0 = 1) &&
  (List.range (L + M + 1)).all fun j =>
    decide (absQ (padeResid a p q j) ≤ t * padeScale a q (L + M))

/-- closed form of `differint(lambda t: t**k, x, n, x0=0)` for integer orders:
`n ≥ 0`: the `n`-th derivative `k(k−1)…(k−n+1)·x^(k−n)` (`0` when `n > k`);
`n = −1`: the integral `x^(k+1)/(k+1)`; other orders are not covered -/
def differintRef (k : Nat) (n : Int) (x : Ref) : Option Ref :=
  if 0 ≤ n then
    let m := n.toNat
    some (if m ≤ k then .mul (.rat ((descFact k m : Nat) : Rat)) (.pow x (k - m)) else .rat 0)
  else if n = -1 then
    some (.mul (.rat (1 / ((k + 1 : Nat) : Rat))) (.pow x (k + 1)))
  else none

end Mp.Calc
