/-
  MpModel/Interval.lean — import-free executable model of the arithmetic part of
  mpmath/libmp/libmpi.py (real intervals `(a, b)` and complex intervals `((a,b),(c,d))` of raw
  mpf values) and of the comparison / membership / conversion layer of mpmath/ctx_iv.py.

  Conventions as in Core.lean.  `round_floor = .f`, `round_ceiling = .c`, `round_up = .u`,
  `round_nearest = .n`; Python's default `prec = 0` means exact.  `a == fnan`, `s == t`,
  `fnan in cases` are structural equality of raw tuples, hence of `Mpf`.
  Three-valued answers `True / False / None` are `Option Bool`.
-/
import MpModel.Core

namespace Mp

abbrev Mpi := Mpf × Mpf
abbrev Mpci := Mpi × Mpi

def mpi_zero : Mpi := (fzero, fzero)
def mpi_one  : Mpi := (fone, fone)

/-- `mpf_min_max(seq)` on the non-empty sequence `x :: xs` (libmpf.py). -/
def mpf_min_max (x : Mpf) (xs : List Mpf) : Mpf × Mpf :=
  xs.foldl (fun (acc : Mpf × Mpf) y =>
    (if mpf_lt y acc.1 then y else acc.1, if mpf_gt y acc.2 then y else acc.2)) (x, x)

/-! ### comparisons (libmpi.py 41–62) -/

def mpi_eq (s t : Mpi) : Bool := s == t
def mpi_ne (s t : Mpi) : Bool := s != t

def mpi_lt (s t : Mpi) : Option Bool :=
  if mpf_lt s.2 t.1 then some true
  else if mpf_ge s.1 t.2 then some false
  else none

def mpi_le (s t : Mpi) : Option Bool :=
  if mpf_le s.2 t.1 then some true
  else if mpf_gt s.1 t.2 then some false
  else none

def mpi_gt (s t : Mpi) : Option Bool := mpi_lt t s
def mpi_ge (s t : Mpi) : Option Bool := mpi_le t s

/-! ### arithmetic -/

def mpi_add (s t : Mpi) (prec : Int := 0) : Mpi :=
  let a := mpf_add s.1 t.1 prec .f
  let b := mpf_add s.2 t.2 prec .c
  let a := if a = fnan then fninf else a
  let b := if b = fnan then finf else b
  (a, b)

def mpi_sub (s t : Mpi) (prec : Int := 0) : Mpi :=
  let a := mpf_sub s.1 t.2 prec .f
  let b := mpf_sub s.2 t.1 prec .c
  let a := if a = fnan then fninf else a
  let b := if b = fnan then finf else b
  (a, b)

def mpi_delta (s : Mpi) (prec : Int) : Mpf := mpf_sub s.2 s.1 prec .u

def mpi_mid (s : Mpi) (prec : Int) : Mpf := mpf_shift (mpf_add s.1 s.2 prec .n) (-1)

def mpi_pos (s : Mpi) (prec : Int) : Mpi := (mpf_pos s.1 prec .f, mpf_pos s.2 prec .c)

def mpi_neg (s : Mpi) (prec : Int := 0) : Mpi := (mpf_neg s.2 prec .f, mpf_neg s.1 prec .c)

def mpi_shift (x : Mpi) (n : Int) : Mpi := (mpf_shift x.1 n, mpf_shift x.2 n)

def mpi_abs (s : Mpi) (prec : Int := 0) : Mpi :=
  let sa := s.1; let sb := s.2
  let sas := mpf_sign sa
  let sbs := mpf_sign sb
  if sas ≥ 0 then (mpf_pos sa prec .f, mpf_pos sb prec .c)
  else if sbs ≥ 0 then
    let negsa := mpf_neg sa
    if mpf_lt negsa sb then (fzero, mpf_pos sb prec .c)
    else (fzero, mpf_pos negsa prec .c)
  else (mpf_neg sb prec .f, mpf_neg sa prec .c)

/-- `mpi_mul`: two degenerate-zero cases, the 3 × 2 sign cases with one product per endpoint
and a nan replacement each, and the general case with four exact cross products. -/
def mpi_mul (s t : Mpi) (prec : Int := 0) : Mpi :=
  let sa := s.1; let sb := s.2; let ta := t.1; let tb := t.2
  let sas := mpf_sign sa
  let sbs := mpf_sign sb
  let tas := mpf_sign ta
  let tbs := mpf_sign tb
  if sas = sbs ∧ sbs = 0 then
    if ta = fninf ∨ tb = finf then (fninf, finf) else (fzero, fzero)
  else if tas = tbs ∧ tbs = 0 then
    if sa = fninf ∨ sb = finf then (fninf, finf) else (fzero, fzero)
  else if sas ≥ 0 then
    if tas ≥ 0 then            -- positive * positive
      let a := mpf_mul sa ta prec .f
      let b := mpf_mul sb tb prec .c
      (if a = fnan then fzero else a, if b = fnan then finf else b)
    else if tbs ≤ 0 then       -- positive * negative
      let a := mpf_mul sb ta prec .f
      let b := mpf_mul sa tb prec .c
      (if a = fnan then fninf else a, if b = fnan then fzero else b)
    else                       -- positive * both signs
      let a := mpf_mul sb ta prec .f
      let b := mpf_mul sb tb prec .c
      (if a = fnan then fninf else a, if b = fnan then finf else b)
  else if sbs ≤ 0 then
    if tas ≥ 0 then            -- negative * positive
      let a := mpf_mul sa tb prec .f
      let b := mpf_mul sb ta prec .c
      (if a = fnan then fninf else a, if b = fnan then fzero else b)
    else if tbs ≤ 0 then       -- negative * negative
      let a := mpf_mul sb tb prec .f
      let b := mpf_mul sa ta prec .c
      (if a = fnan then fzero else a, if b = fnan then finf else b)
    else                       -- negative * both signs
      let a := mpf_mul sa tb prec .f
      let b := mpf_mul sa ta prec .c
      (if a = fnan then fninf else a, if b = fnan then finf else b)
  else
    -- general case: all cross products, exactly
    let c1 := mpf_mul sa ta
    let c2 := mpf_mul sa tb
    let c3 := mpf_mul sb ta
    let c4 := mpf_mul sb tb
    if c1 = fnan ∨ c2 = fnan ∨ c3 = fnan ∨ c4 = fnan then (fninf, finf)
    else
      let mm := mpf_min_max c1 [c2, c3, c4]
      (mpf_pos mm.1 prec .f, mpf_pos mm.2 prec .c)

def mpi_mul_mpf (s : Mpi) (t : Mpf) (prec : Int) : Mpi := mpi_mul s (t, t) prec

def mpi_square (s : Mpi) (prec : Int := 0) : Mpi :=
  let sa := s.1; let sb := s.2
  if mpf_ge sa fzero then (mpf_mul sa sa prec .f, mpf_mul sb sb prec .c)
  else if mpf_le sb fzero then (mpf_mul sb sb prec .f, mpf_mul sa sa prec .c)
  else
    let sa := mpf_neg sa
    let mm := mpf_min_max sa [sb]
    (fzero, mpf_mul mm.2 mm.2 prec .c)

/-- if `mpf_sign x ≤ 0` then the exact negation has `mpf_sign ≥ 0` (termination of `mpi_div`). -/
theorem mpf_sign_neg_nonneg (x : Mpf) (r : Rnd) (h : mpf_sign x ≤ 0) : mpf_sign (mpf_neg x 0 r) ≥ 0 := by
  by_cases hm : x.man = 0
  · by_cases h1 : x = finf
    · subst h1; revert h; cases r <;> decide
    · by_cases h2 : x = fninf
      · subst h2; cases r <;> decide
      · have hneg : mpf_neg x 0 r = x := by
          unfold mpf_neg
          rw [if_pos hm, if_neg h1, if_neg h2]
          split <;> rfl
        rw [hneg]
        unfold mpf_sign
        rw [if_pos hm, if_neg h1, if_neg h2]
        decide
  · have hs : x.sign % 2 ≠ 0 := by
      intro h0
      unfold mpf_sign at h
      rw [if_neg hm, if_pos h0] at h
      exact absurd h (by decide)
    have h1 : 1 - x.sign = 0 := by omega
    unfold mpf_neg
    rw [if_neg hm, if_pos rfl, h1]
    unfold mpf_sign
    rw [if_neg hm]
    show (if (0 : Nat) % 2 = 0 then (1 : Int) else -1) ≥ 0
    decide

/-- `mpi_div(s, t, prec)`.  A denominator with `ta < 0` (and not straddling zero) is handled by
negating both operands exactly and recursing once. -/
def mpi_div (s t : Mpi) (prec : Int) : Except Err Mpi :=
  let sa := s.1; let sb := s.2; let ta := t.1; let tb := t.2
  let sas := mpf_sign sa
  let sbs := mpf_sign sb
  let tas := mpf_sign ta
  let tbs := mpf_sign tb
  -- 0 / X
  if sas = sbs ∧ sbs = 0 then
    if (tas < 0 ∧ tbs > 0) ∨ (tas = 0 ∨ tbs = 0) then .ok (fninf, finf)
    else .ok (fzero, fzero)
  -- denominator contains both signs
  else if _hstr : tas < 0 ∧ tbs > 0 then .ok (fninf, finf)
  -- assume denominator to be nonnegative
  else if _hneg : tas < 0 then mpi_div (mpi_neg s) (mpi_neg t) prec
  else if tas = 0 then
    if sas < 0 ∧ sbs > 0 then .ok (fninf, finf)
    else if tas = tbs then .ok (fninf, finf)
    else if sas ≥ 0 then do
      -- the two `if`s of the Python code are executed in sequence (no `elif`)
      let a ← mpf_div sa tb prec .f
      if sbs ≤ 0 then do
        let b ← mpf_div sb tb prec .c
        pure (fninf, b)
      else pure (a, finf)
    else do
      -- here `sas < 0`, hence `sbs ≤ 0` by the both-signs test above: only the second `if` fires
      let b ← mpf_div sb tb prec .c
      pure (fninf, b)
  else
    if sas ≥ 0 then do         -- nonnegative numerator
      let a ← mpf_div sa tb prec .f
      let b ← mpf_div sb ta prec .c
      pure (if a = fnan then fzero else a, if b = fnan then finf else b)
    else if sbs ≤ 0 then do    -- nonpositive numerator
      let a ← mpf_div sa ta prec .f
      let b ← mpf_div sb tb prec .c
      pure (if a = fnan then fninf else a, if b = fnan then fzero else b)
    else do                    -- numerator contains both signs
      let a ← mpf_div sa ta prec .f
      let b ← mpf_div sb ta prec .c
      pure (if a = fnan then fninf else a, if b = fnan then finf else b)
termination_by (if mpf_sign t.1 < 0 then 1 else 0 : Nat)
decreasing_by
  have h2 : mpf_sign t.2 ≤ 0 := by
    have : ¬ (mpf_sign t.1 < 0 ∧ mpf_sign t.2 > 0) := _hstr
    have : mpf_sign t.1 < 0 := _hneg
    omega
  have h3 : ¬ (mpf_sign (mpi_neg t).1 < 0) := by
    have := mpf_sign_neg_nonneg t.2 .f h2
    show ¬ (mpf_sign (mpf_neg t.2 0 .f) < 0)
    omega
  have h4 : mpf_sign t.1 < 0 := _hneg
  rw [if_neg h3, if_pos h4]
  decide

def mpi_div_mpf (s : Mpi) (t : Mpf) (prec : Int) : Except Err Mpi := mpi_div s (t, t) prec

def mpi_sqrt (s : Mpi) (prec : Int) : Except Err Mpi := do
  let a ← mpf_sqrt s.1 prec .f
  let b ← mpf_sqrt s.2 prec .c
  pure (a, b)

/-- the `n ≥ 0` branches of `mpi_pow_int` -/
def mpiPowNat (s : Mpi) (n : Nat) (prec : Int) : Except Err Mpi :=
  let sa := s.1; let sb := s.2
  if n = 0 then .ok (fone, fone)
  else if n = 1 then .ok s
  else if n = 2 then .ok (mpi_square s prec)
  else if n % 2 = 1 then do    -- odd: signs are preserved
    let a ← mpf_pow_int sa n prec .f
    let b ← mpf_pow_int sb n prec .c
    pure (a, b)
  else
    let sas := mpf_sign sa
    let sbs := mpf_sign sb
    if sas ≥ 0 then do
      let a ← mpf_pow_int sa n prec .f
      let b ← mpf_pow_int sb n prec .c
      pure (a, b)
    else if sbs ≤ 0 then do
      let a ← mpf_pow_int sb n prec .f
      let b ← mpf_pow_int sa n prec .c
      pure (a, b)
    else do
      let sa := mpf_neg sa
      let b ← if mpf_ge sa sb then mpf_pow_int sa n prec .c else mpf_pow_int sb n prec .c
      pure (fzero, b)

/-- `mpi_pow_int(s, n, prec)`; negative `n` through `1 / s^(−n)` at `prec + 20`. -/
def mpi_pow_int (s : Mpi) (n : Int) (prec : Int) : Except Err Mpi :=
  if n < 0 then do
    let p ← mpiPowNat s (-n).toNat (prec + 20)
    mpi_div (fone, fone) p prec
  else mpiPowNat s n.toNat prec

/-! ### complex intervals (libmpi.py 612–798) -/

def mpci_add (x y : Mpci) (prec : Int) : Mpci := (mpi_add x.1 y.1 prec, mpi_add x.2 y.2 prec)
def mpci_sub (x y : Mpci) (prec : Int) : Mpci := (mpi_sub x.1 y.1 prec, mpi_sub x.2 y.2 prec)
def mpci_neg (x : Mpci) (prec : Int := 0) : Mpci := (mpi_neg x.1 prec, mpi_neg x.2 prec)
def mpci_pos (x : Mpci) (prec : Int) : Mpci := (mpi_pos x.1 prec, mpi_pos x.2 prec)

def mpci_mul (x y : Mpci) (prec : Int) : Mpci :=
  let a := x.1; let b := x.2; let c := y.1; let d := y.2
  let r1 := mpi_mul a c
  let r2 := mpi_mul b d
  let re := mpi_sub r1 r2 prec
  let i1 := mpi_mul a d
  let i2 := mpi_mul b c
  let im := mpi_add i1 i2 prec
  (re, im)

def mpci_div (x y : Mpci) (prec : Int) : Except Err Mpci :=
  let a := x.1; let b := x.2; let c := y.1; let d := y.2
  let wp := prec + 20
  let m1 := mpi_square c
  let m2 := mpi_square d
  let m := mpi_add m1 m2 wp
  let re := mpi_add (mpi_mul a c) (mpi_mul b d) wp
  let im := mpi_sub (mpi_mul b c) (mpi_mul a d) wp
  do
    let re ← mpi_div re m prec
    let im ← mpi_div im m prec
    pure (re, im)

def mpci_abs (x : Mpci) (prec : Int) : Except Err Mpi :=
  let a := x.1; let b := x.2
  if a = mpi_zero then .ok (mpi_abs b)
  else if b = mpi_zero then .ok (mpi_abs a)
  else
    let a := mpi_square a
    let b := mpi_square b
    let t := mpi_add a b (prec + 20)
    mpi_sqrt t prec

def mpci_square (x : Mpci) (prec : Int) : Mpci :=
  let a := x.1; let b := x.2
  let re := mpi_sub (mpi_square a) (mpi_square b) prec
  let im := mpi_mul a b prec
  let im := mpi_shift im 1
  (re, im)

/-- binary-powering loop of `mpci_pow_int`; state `result`, `x`, `n`.  `x` is squared in every
iteration (also the last); `bitcount n` iterations suffice. -/
def mpciPowLoop (wp : Int) : Nat → Mpci → Mpci → Nat → Mpci
  | 0, result, _, _ => result
  | fuel+1, result, x, n =>
    if n = 0 then result else
    let (result', n') : Mpci × Nat :=
      if n % 2 = 1 then (mpci_mul result x wp, n - 1) else (result, n)
    mpciPowLoop wp fuel result' (mpci_square x wp) (n' / 2)

/-- the `n ≥ 0` branches of `mpci_pow_int` -/
def mpciPowNat (x : Mpci) (n : Nat) (prec : Int) : Mpci :=
  if n = 0 then (mpi_one, mpi_zero)
  else if n = 1 then mpci_pos x prec
  else if n = 2 then mpci_square x prec
  else
    let wp := prec + 20
    mpci_pos (mpciPowLoop wp (bitcount n) (mpi_one, mpi_zero) x n) prec

def mpci_pow_int (x : Mpci) (n : Int) (prec : Int) : Except Err Mpci :=
  if n < 0 then mpci_div (mpi_one, mpi_zero) (mpciPowNat x (-n).toNat (prec + 20)) prec
  else .ok (mpciPowNat x n.toNat prec)

/-! ### the context layer (ctx_iv.py): conversion of numbers, comparisons, membership -/

/-- Python truthiness of a three-valued answer (`None` and `False` are falsy). -/
def truthy : Option Bool → Bool
  | some true => true
  | _ => false

/-- `X and Y` on three-valued answers: `X` if `X` is falsy, else `Y`. -/
def pyAnd (x y : Option Bool) : Option Bool := if truthy x then y else x

/-- `X or Y`: `X` if `X` is truthy, else `Y`. -/
def pyOr (x y : Option Bool) : Option Bool := if truthy x then x else y

/-- A plain number handed to `iv.convert` / a comparison operator.
* `int n`: a Python int;
* `mpf x`: an object with `_mpf_` (taken exactly, never rounded);
* `float m e`: a finite Python float, `m = int(frexp(x)[0] * 2^53)`, `e = frexp(x)[1] − 53`
  (the two arguments `from_float` hands to `from_man_exp`);
* `floatSpecial x`: a float nan / ±inf, `x` the `fnan/finf/fninf` returned by `from_float`. -/
inductive IvNum
  | int (n : Int)
  | mpf (x : Mpf)
  | float (m e : Int)
  | floatSpecial (x : Mpf)
deriving DecidableEq, Repr

/-- `convert_mpf_(x, prec, rounding)` -/
def convert_mpf_ (x : IvNum) (prec : Int) (rnd : Rnd) : Mpf :=
  match x with
  | .mpf v => v
  | .int n => from_int n prec rnd
  | .float m e => from_man_exp m e prec rnd
  | .floatSpecial v => v

/-- errors of the context layer: an `Err` of the core, or a failed `assert`. -/
inductive IvErr
  | core (e : Err)
  | assertion
deriving DecidableEq, Repr

/-- the tail of `ctx.convert`: nan → whole line, then `assert mpf_le(a, b)`. -/
def convertFinish (a b : Mpf) : Except IvErr Mpi :=
  let (a, b) := if a = fnan ∨ b = fnan then (fninf, finf) else (a, b)
  if mpf_le a b then .ok (a, b) else .error .assertion

/-- `iv.convert(x)` for a single number (`a = b = x`). -/
def iv_convert_num (x : IvNum) (prec : Int) : Except IvErr Mpi :=
  convertFinish (convert_mpf_ x prec .f) (convert_mpf_ x prec .c)

/-- `iv.convert((x, y))` for a pair of numbers. -/
def iv_convert_pair (x y : IvNum) (prec : Int) : Except IvErr Mpi :=
  convertFinish (convert_mpf_ x prec .f) (convert_mpf_ y prec .c)

/-- right operand of an `ivmpf` comparison -/
inductive IvArg
  | iv (t : Mpi)                 -- an `ivmpf` (has `_mpi_`): used as is
  | num (x : IvNum)
  | pair (x y : IvNum)
deriving DecidableEq, Repr

/-- `_compare`'s operand conversion; `none` = the conversion raised (→ `NotImplemented`). -/
def compareArg (t : IvArg) (prec : Int) : Option Mpi :=
  match t with
  | .iv t => some t
  | .num x => (iv_convert_num x prec).toOption
  | .pair x y => (iv_convert_pair x y prec).toOption

inductive CmpOp | lt | le | gt | ge
deriving DecidableEq, Repr

def mpiCmp : CmpOp → Mpi → Mpi → Option Bool
  | .lt => mpi_lt | .le => mpi_le | .gt => mpi_gt | .ge => mpi_ge

/-- `s < t`, `s <= t`, `s > t`, `s >= t` with `s` an `ivmpf` and `t` an `ivmpf`, a number or a pair.
When the conversion of `t` fails `_compare` returns `NotImplemented`; the reflected method of an
int/float/tuple does not know `ivmpf`, so Python raises `TypeError`. -/
def ivmpf_cmp (op : CmpOp) (s : Mpi) (t : IvArg) (prec : Int) : Except Err (Option Bool) :=
  match compareArg t prec with
  | some t => .ok (mpiCmp op s t)
  | none => .error .type

/-- `s == t`; on a failed conversion Python falls back to identity: `False`. -/
def ivmpf_eq (s : Mpi) (t : IvArg) (prec : Int) : Bool :=
  match compareArg t prec with
  | some t => mpi_eq s t
  | none => false

/-- `s != t`; on a failed conversion: `True`. -/
def ivmpf_ne (s : Mpi) (t : IvArg) (prec : Int) : Bool :=
  match compareArg t prec with
  | some t => mpi_ne s t
  | none => true

/-- `ivmpf.__contains__` after conversion of `t`: `(self.a <= t.a) and (t.b <= self.b)` on the point
intervals `(a,a)`, …; the `in` operator applies `bool(...)`. -/
def ivmpf_contains_iv (s t : Mpi) : Bool :=
  truthy (pyAnd (mpi_le (s.1, s.1) (t.1, t.1)) (mpi_le (t.2, t.2) (s.2, s.2)))

/-- `t in s`; here a failed conversion propagates (no `try`). -/
def ivmpf_contains (s : Mpi) (t : IvArg) (prec : Int) : Except IvErr Bool :=
  match t with
  | .iv t => .ok (ivmpf_contains_iv s t)
  | .num x => do let t ← iv_convert_num x prec; pure (ivmpf_contains_iv s t)
  | .pair x y => do let t ← iv_convert_pair x y prec; pure (ivmpf_contains_iv s t)

/-- `ivmpc.__contains__` for two complex intervals -/
def ivmpc_contains (s t : Mpci) : Bool :=
  -- `t.real in s.real and t.imag in s.imag`
  ivmpf_contains_iv s.1 t.1 && ivmpf_contains_iv s.2 t.2

/-- one coordinate of `ivmpc.overlap`:
`(sa <= ta <= sb) or (sa <= tb <= sb) or (ta <= sa <= tb) or (ta <= sb <= tb)` -/
def overlap1 (s t : Mpi) : Option Bool :=
  let p (x : Mpf) : Mpi := (x, x)
  let chain (x y z : Mpf) : Option Bool := pyAnd (mpi_le (p x) (p y)) (mpi_le (p y) (p z))
  pyOr (chain s.1 t.1 s.2) (pyOr (chain s.1 t.2 s.2) (pyOr (chain t.1 s.1 t.2) (chain t.1 s.2 t.2)))

/-- `ivmpc.overlap(s, t)` (value of the Python expression, three-valued) -/
def ivmpc_overlap (s t : Mpci) : Option Bool :=
  pyAnd (overlap1 s.1 t.1) (overlap1 s.2 t.2)

/-- `ivmpc.__eq__` / `__ne__` against a complex interval or a real interval (`(t, mpi_zero)`) -/
def ivmpc_eq (s t : Mpci) : Bool := s == t
def ivmpc_ne (s t : Mpci) : Bool := s != t
def ivmpc_eq_real (s : Mpci) (t : Mpi) : Bool := s == (t, mpi_zero)

end Mp
