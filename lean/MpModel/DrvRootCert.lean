/-
  MpModel/DrvRootCert.lean — driver ops for MpModel/RootCert.lean (property C29).
  Token conventions as in Driver.lean (mpf = sign:hexman:exp:bc, ints decimal); additionally
    rat  = <int> | <int>/<nat>            gq = two rat tokens (re im)
  Ops (all counts are decimal):
    rc_poly  <tol:rat> <ncoef> (<gq>)*  <nroots> (<mpf re> <mpf im>)*
        -> R:<count 0|1>:<incl>:<matching>:<per-root letters o|f|u>
    rc_find  <tol:rat> <nvars> (<mpf re> <mpf im>)* <nfuns> ( <nterms> (<gq> <e_1..e_nvars>)*  <nterms> (...)* )*  ( - | <mpf a> <mpf b> )
        -> F:<residual>:<bracket>            (each function = numerator terms, then denominator terms)
    rc_post  <wp> <prec> <cleanup 0|1> <patched 0|1> <n> ( R <mpf re> <mpf im> | C <mpf re> <mpf im> )*
        -> L:<item>|<item>|...   item = R/<mpf> or C/<mpf>/<mpf>       | E:<kind>
    rc_mult  <maxsteps> <bits>               (bits: string of 0/1, test i succeeded iff bits[i] = 1; "-" = empty)
        -> I:<n> | E:ValueError
    rc_multexact <gq a> <ncoef> (<gq>)*      -> I:<m>
    rc_d2f   <hasDf 0|1> <hasD2f 0|1>        -> S:numeric | S:userDf | S:userD2f | S:KeyError   (rc_d2f_fixed: proposed fix)
    rc_mstep <x> <fx> <dfx> <d2fx>  (rat)    -> S:stop | S:step | E:ZeroDivisionError             (rc_mstep_fixed: proposed fix)
    rc_verify <verify 0|1> <mpf normSq> <mpf tol>   -> U:ok | E:ValueError
-/
import MpModel.Core
import MpModel.RootCert

open Mp Mp.RootCert

namespace DrvRootCert

def hexDigit (c : Char) : Option Nat :=
  if '0' ≤ c ∧ c ≤ '9' then some (c.toNat - '0'.toNat)
  else if 'a' ≤ c ∧ c ≤ 'f' then some (c.toNat - 'a'.toNat + 10)
  else if 'A' ≤ c ∧ c ≤ 'F' then some (c.toNat - 'A'.toNat + 10)
  else none

def parseHex (s : String) : Option Nat :=
  if s.isEmpty then none else
  s.foldl (fun acc c => match acc, hexDigit c with
    | some a, some d => some (a * 16 + d)
    | _, _ => none) (some 0)

def parseInt (s : String) : Option Int :=
  if s.startsWith "-" then (s.drop 1).toNat?.map (fun n => -(n : Int))
  else if s.startsWith "+" then (s.drop 1).toNat?.map (fun n => (n : Int))
  else s.toNat?.map (fun n => (n : Int))

def parseMpf (s : String) : Option Mpf :=
  match s.splitOn ":" with
  | [a, b, c, d] => do
    let sign ← a.toNat?
    let man ← parseHex b
    let exp ← parseInt c
    let bc ← parseInt d
    pure ⟨sign, man, exp, bc⟩
  | _ => none

def hexStr (n : Nat) : String := String.ofList (Nat.toDigits 16 n)
def showMpf (x : Mpf) : String := s!"{x.sign}:{hexStr x.man}:{x.exp}:{x.bc}"

def showErr : Err → String
  | .zeroDiv => "E:ZeroDivisionError"
  | .value => "E:ValueError"
  | .complexResult => "E:ComplexResult"
  | .notImpl => "E:NotImplementedError"
  | .overflow => "E:OverflowError"
  | .type => "E:TypeError"

def parseRat (s : String) : Option Q :=
  match s.splitOn "/" with
  | [a] => do let n ← parseInt a; pure (Q.ofInt n)
  | [a, b] => do
    let n ← parseInt a
    let d ← b.toNat?
    if d = 0 then none else pure (Q.mk' n d)
  | _ => none

/-- finite mpf only -/
def mpfQ (x : Mpf) : Option Q := if isSpecial x then none else some (Q.ofMpf x)

abbrev P := StateT (List String) Option

def tok : P String := fun s => match s with
  | [] => none
  | t :: ts => some (t, ts)

def pNat : P Nat := do let t ← tok; (t.toNat? : Option Nat)
def pInt : P Int := do let t ← tok; (parseInt t : Option Int)
def pRat : P Q := do let t ← tok; (parseRat t : Option Q)
def pMpf : P Mpf := do let t ← tok; (parseMpf t : Option Mpf)
def pGQ : P GQ := do let a ← pRat; let b ← pRat; pure ⟨a, b⟩
def pMpfGQ : P GQ := do
  let a ← pMpf; let b ← pMpf
  let qa ← (mpfQ a : Option Q); let qb ← (mpfQ b : Option Q)
  pure ⟨qa, qb⟩
def pBool : P Bool := do
  let t ← tok
  match t with
  | "0" => pure false
  | "1" => pure true
  | _ => (none : Option Bool)

def rep {α : Type} (p : P α) : Nat → P (List α)
  | 0 => pure []
  | n + 1 => do let x ← p; let xs ← rep p n; pure (x :: xs)

def pEnd : P Unit := fun s => match s with
  | [] => some ((), [])
  | _ => none

def vname : Verdict → String
  | .ok => "ok" | .fail => "fail" | .undecided => "undecided"

def vletter : Verdict → Char
  | .ok => 'o' | .fail => 'f' | .undecided => 'u'

def pMono (nvars : Nat) : P Mono := do
  let c ← pGQ
  let es ← rep pNat nvars
  pure ⟨c, es⟩

def pMPoly (nvars : Nat) : P MPoly := do
  let n ← pNat
  rep (pMono nvars) n

def pRatFun (nvars : Nat) : P RatFun := do
  let n ← pMPoly nvars
  let d ← pMPoly nvars
  pure ⟨n, d⟩

def pRoot : P Root := do
  let k ← tok
  let re ← pMpf
  let im ← pMpf
  match k with
  | "R" => pure ⟨false, re, fzero⟩
  | "C" => pure ⟨true, re, im⟩
  | _ => (none : Option Root)

def showRoot (r : Root) : String :=
  if r.cplx then s!"C/{showMpf r.re}/{showMpf r.im}" else s!"R/{showMpf r.re}"

def showD2 : D2Src → String
  | .numericDiffOfDf => "S:numeric" | .userDf => "S:userDf" | .userD2f => "S:userD2f" | .keyError => "S:KeyError"

def run {α : Type} (p : P α) (toks : List String) : Option α :=
  match (do let x ← p; pEnd; pure x : P α) toks with
  | some (x, _) => some x
  | none => none

def answer (toks : List String) : Option String :=
  match toks with
  | "rc_poly" :: rest => run (do
      let tol ← pRat
      let nc ← pNat
      let cs ← rep pGQ nc
      let nr ← pNat
      let rs ← rep pMpfGQ nr
      let r := polyrootsReport cs rs tol
      let per := String.ofList (r.perRoot.map vletter)
      pure s!"R:{if r.count then 1 else 0}:{vname r.incl}:{vname r.matching}:{per}") rest
  | "rc_find" :: rest => run (do
      let tol ← pRat
      let nv ← pNat
      let xs ← rep pMpfGQ nv
      let nf ← pNat
      let fs ← rep (pRatFun nv) nf
      let t ← tok
      let br : Option (Q × Q) ← (if t = "-" then pure none else do
        let a ← (parseMpf t : Option Mpf)
        let b ← pMpf
        let qa ← (mpfQ a : Option Q); let qb ← (mpfQ b : Option Q)
        pure (some (qa, qb)))
      let r := findrootCheck fs xs tol br
      pure s!"F:{vname r.residual}:{vname r.bracket}") rest
  | "rc_post" :: rest => run (do
      let wp ← pInt
      let prec ← pInt
      let cl ← pBool
      let patched ← pBool
      let n ← pNat
      let rs ← rep pRoot n
      let out := if patched then polyPostPatched wp prec cl rs else polyPost wp prec cl rs
      match out with
      | .ok l => pure ("L:" ++ "|".intercalate (l.map showRoot))
      | .error e => pure (showErr e)) rest
  | ["rc_mult", ms, bits] => do
      let m ← ms.toNat?
      let bl := if bits = "-" then [] else bits.toList
      match multLoop (fun i => bl.getD i '0' == '1') m with
      | .ok n => pure s!"I:{n}"
      | .error e => pure (showErr e)
  | "rc_multexact" :: rest => run (do
      let a ← pGQ
      let nc ← pNat
      let cs ← rep pGQ nc
      pure s!"I:{multiplicityExact cs a}") rest
  | "rc_d2f" :: rest => run (do
      let a ← pBool
      let b ← pBool
      pure (showD2 (mnewtonD2f a b))) rest
  | "rc_d2f_fixed" :: rest => run (do
      let a ← pBool
      let b ← pBool
      pure (showD2 (mnewtonD2fFixed a b))) rest
  | "rc_mstep_fixed" :: rest => run (do
      let x ← pRat; let fx ← pRat; let dfx ← pRat; let d2fx ← pRat
      match mnewtonStepFixed x fx dfx d2fx with
      | .ok none => pure "S:stop"
      | .ok (some _) => pure "S:step"
      | .error e => pure (showErr e)) rest
  | "rc_mstep" :: rest => run (do
      let x ← pRat; let fx ← pRat; let dfx ← pRat; let d2fx ← pRat
      match mnewtonStep x fx dfx d2fx with
      | .ok none => pure "S:stop"
      | .ok (some _) => pure "S:step"
      | .error e => pure (showErr e)) rest
  | "rc_verify" :: rest => run (do
      let v ← pBool
      let n2 ← pMpf
      let tol ← pMpf
      match findrootVerify v n2 tol with
      | .ok _ => pure "U:ok"
      | .error e => pure (showErr e)) rest
  | _ => none

end DrvRootCert
