/-
  MpModel/DrvOdeSeg.lean — driver ops for the odefun segment cache model (`Mp.OdeSeg`).
  All abscissae are signed decimal integers (the harness scales the dyadic abscissae of one history
  by a common power of two).

  odeseg_bisect r|l nb b_0 … b_{nb-1} x      → I:<bisect_right / bisect_left (b, x)>   (any list)
  odeseg_sel   x0 nb b_0 … b_{nb-1} x        → I:<k>  segment index n-1 served from the cache
                                               X      n = len(boundaries): extension needed
                                               E:ValueError | E:IndexError
                                               (series_data[k] = (k, b_k, b_{k+1}), k < nb-1)
  odeseg_hist  x0 K b_1 … b_K  x_1 f_1 x_2 f_2 …
  odeseg_histL x0 K b_1 … b_K  x_1 f_1 …     (the bisect_left mutant `getSeriesLeft`)
        canonical boundary table b_1 < … < b_K (b_1 = xb of the first segment); the step function is
        `seg k ↦ seg k+1 = (k+1, b_{k+1}, b_{k+2})`, `none` beyond the table; f = -1 | j (the j-th
        ode_taylor call of this request raises).  Fuel = `fuelFor` (proved sufficient).
        → L:<item>;…   one item per request:  kind,idx,len
              kind  c = served from cache   e = after extension   V = ValueError   x = raised
                    I = IndexError   F = out of fuel
              idx   index k of the returned segment (its `ser` payload), - if none
              len   len(series_data) after the request   (len(series_boundaries) = len+1 is part of
                    the invariant; the harness compares both lists)
-/
import MpModel.OdeSeg

open Mp Mp.OdeSeg

namespace DrvOdeSeg

def parseInt (s : String) : Option Int :=
  if s.startsWith "-" then (s.drop 1).toNat?.map (fun n => -(n : Int))
  else if s.startsWith "+" then (s.drop 1).toNat?.map (fun n => (n : Int))
  else s.toNat?.map (fun n => (n : Int))

def parseInts : List String → Option (List Int)
  | [] => some []
  | x :: xs => do
    let a ← parseInt x
    let r ← parseInts xs
    pure (a :: r)

/-- `series_data` implied by a boundary list: `(k, b_k, b_{k+1})` -/
def segsOf : Nat → List Int → List (Seg Nat)
  | k, a :: b :: r => ⟨k, a, b⟩ :: segsOf (k + 1) (b :: r)
  | _, _ => []

/-- step function given by the canonical boundary table `[b_1, …, b_K]` -/
def tblStep (t : List Int) (sg : Seg Nat) : Option (Nat × Int) :=
  match t[sg.ser + 1]? with
  | some b => some (sg.ser + 1, b)
  | none => none

def item (cached : Bool) (r : State Nat × Res Nat) : String :=
  let len := toString r.1.data.length
  match r.2 with
  | .seg sg => (if cached then "c," else "e,") ++ toString sg.ser ++ "," ++ len
  | .valueError => "V,-," ++ len
  | .indexError => "I,-," ++ len
  | .raised => "x,-," ++ len
  | .outOfFuel => "F,-," ++ len

def histItems (left : Bool) (t : List Int) (x0 : Int) : State Nat → List Int → Option (List String)
  | _, [] => some []
  | s, x :: f :: r =>
    let fault : Option Nat := if f < 0 then none else some f.toNat
    let fuel := fuelFor s x
    let res := if left then getSeriesLeft (tblStep t) x0 fuel fault s x
               else getSeries (tblStep t) x0 fuel fault s x
    let cached := decide (res.1.data.length = s.data.length)
    (histItems left t x0 res.1 r).map (fun tl => item cached res :: tl)
  | _, _ => none

def answer (toks : List String) : Option String :=
  match toks with
  | "odeseg_bisect" :: side :: nb :: rest => do
    let nb ← nb.toNat?
    let v ← parseInts rest
    if v.length ≠ nb + 1 then none else
    let a := v.take nb
    let x := v.getD nb 0
    match side with
    | "r" => pure s!"I:{bisectRight a x}"
    | "l" => pure s!"I:{bisectLeft a x}"
    | _ => none
  | "odeseg_sel" :: x0 :: nb :: rest => do
    let x0 ← parseInt x0
    let nb ← nb.toNat?
    let v ← parseInts rest
    if v.length ≠ nb + 1 then none else
    let a := v.take nb
    let x := v.getD nb 0
    let s : State Nat := ⟨a, segsOf 0 a⟩
    -- fuel 0: the extension loop is not entered, `outOfFuel` = "needs extension"
    match (getSeries (fun _ => none) x0 0 none s x).2 with
    | .seg sg => pure s!"I:{sg.ser}"
    | .valueError => pure "E:ValueError"
    | .indexError => pure "E:IndexError"
    | .raised => pure "X"
    | .outOfFuel => pure "X"
  | op :: x0 :: k :: rest =>
    if op ≠ "odeseg_hist" ∧ op ≠ "odeseg_histL" then none else do
    let x0 ← parseInt x0
    let k ← k.toNat?
    let v ← parseInts rest
    if v.length < k ∨ k = 0 then none else
    let t := v.take k
    let reqs := v.drop k
    let seg0 : Seg Nat := ⟨0, x0, t.getD 0 0⟩
    let items ← histItems (op == "odeseg_histL") t x0 (init x0 seg0) reqs
    pure ("L:" ++ String.intercalate ";" items)
  | _ => none

end DrvOdeSeg
