/-
  MpModel/RootCert.lean — import-free executable certificate checkers and decision-logic models for
  property C29 (root finders).  Namespace `Mp.RootCert`.

  Part A (certificates, exact arithmetic; nothing here models floating point):
    * `Q`   : fractions num/den with den > 0 (sums and products are reduced by the gcd), `GQ` : Gaussian rationals
    * `horner cs x`            : (P(x), P'(x)) by the Horner recurrences of `polyval(..., derivative=True)`
    * `rootInclSq cs r`        : ρ² where ρ = n·|P(r)|/|P'(r)|, n = len(cs)-1  (0 by convention if P'(r)=0)
    * `sqrtSumLt B C A`        : decides √B + √C < √A on non-negative fractions without square roots
    * `polyrootsCheck cs rs tol` : (a) count, (b) every ρ_i ≤ tol, (c) pairwise disjoint inclusion discs
    * `findrootCheck fs x tol bracket` : |f_i(x)|² ≤ tol for rational maps f_i = N_i/D_i, result in bracket
    * `multiplicityExact`      : exact multiplicity of a Gaussian-rational root by repeated deflation
  Part B (models of the decision logic of /repo, over raw mpf values of MpModel/Core.lean):
    * `cleanupRoot`, `sortKey`, `keyLt`, `polyrootsOrder`, `polyPost` : post-processing of `polyroots`
      (mpmath/calculus/polynomials.py lines 198-213)
    * `polyrootsOrderPatched`, `polyPostPatched` : the proposed replacement of the sort (report, D13)
    * `multLoop`   : the loop of `multiplicity` (optimization.py 1008-1019) over the outcomes of the tests
    * `mnewtonD2f` : which function `MNewton.__init__` installs as second derivative (optimization.py 129-140)
    * `mnewtonStep`: the update `x -= fx / (dfx - fx * d2fx / dfx)` in exact arithmetic with its ZeroDivisionErrors
    * `findrootVerify` : the final test of `findroot` (optimization.py 984)
-/
import MpModel.Core
import MpModel.Complex

namespace Mp
namespace RootCert

/-! ## Part A — exact arithmetic -/

/-- exact fraction `num/den`, `den > 0` -/
structure Q where
  num : Int
  den : Nat
  pos : 0 < den

namespace Q

def ofInt (n : Int) : Q := ⟨n, 1, Nat.lt_succ_self 0⟩
def zero : Q := ofInt 0
def one : Q := ofInt 1
/-- total constructor; `n/0` is mapped to 0 (the driver rejects zero denominators before calling it) -/
def mk' (n : Int) (d : Nat) : Q := if h : 0 < d then ⟨n, d, h⟩ else zero
/-- divide numerator and denominator by their gcd (keeps the numbers small; the value is unchanged) -/
def norm (a : Q) : Q :=
  let g := Nat.gcd a.num.natAbs a.den
  ⟨a.num / (g : Int), a.den / g,
    Nat.div_pos (Nat.le_of_dvd a.pos (Nat.gcd_dvd_right _ _)) (Nat.gcd_pos_of_pos_right _ a.pos)⟩
def add (a b : Q) : Q := norm ⟨a.num * b.den + b.num * a.den, a.den * b.den, Nat.mul_pos a.pos b.pos⟩
def neg (a : Q) : Q := ⟨-a.num, a.den, a.pos⟩
def sub (a b : Q) : Q := add a (neg b)
def mul (a b : Q) : Q := norm ⟨a.num * b.num, a.den * b.den, Nat.mul_pos a.pos b.pos⟩
/-- `1/a`, with `1/0 = 0` -/
def inv (a : Q) : Q :=
  if h : a.num = 0 then zero
  else ⟨Int.sign a.num * a.den, a.num.natAbs, Int.natAbs_pos.2 h⟩
def div (a b : Q) : Q := mul a (inv b)
def le (a b : Q) : Bool := decide (a.num * b.den ≤ b.num * a.den)
def lt (a b : Q) : Bool := decide (a.num * b.den < b.num * a.den)
def isZero (a : Q) : Bool := decide (a.num = 0)
def eqv (a b : Q) : Bool := decide (a.num * b.den = b.num * a.den)
def min (a b : Q) : Q := if le a b then a else b
def max (a b : Q) : Q := if le a b then b else a

instance : Add Q := ⟨add⟩
instance : Sub Q := ⟨sub⟩
instance : Mul Q := ⟨mul⟩
instance : Neg Q := ⟨neg⟩

/-- value of a finite raw mpf `(-1)^sign · man · 2^exp` -/
def ofMpf (x : Mpf) : Q :=
  let m : Int := if x.sign % 2 = 0 then (x.man : Int) else -(x.man : Int)
  if 0 ≤ x.exp then ofInt (m * ((2 ^ x.exp.toNat : Nat) : Int))
  else ⟨m, 2 ^ (-x.exp).toNat, Nat.pow_pos (Nat.succ_pos 1)⟩

end Q

/-- Gaussian rational -/
structure GQ where
  re : Q
  im : Q

namespace GQ
def zero : GQ := ⟨Q.zero, Q.zero⟩
def ofQ (a : Q) : GQ := ⟨a, Q.zero⟩
def add (a b : GQ) : GQ := ⟨a.re + b.re, a.im + b.im⟩
def sub (a b : GQ) : GQ := ⟨a.re - b.re, a.im - b.im⟩
def mul (a b : GQ) : GQ := ⟨a.re * b.re - a.im * b.im, a.re * b.im + a.im * b.re⟩
def normSq (a : GQ) : Q := a.re * a.re + a.im * a.im
def isZero (a : GQ) : Bool := a.re.isZero && a.im.isZero
instance : Add GQ := ⟨add⟩
instance : Sub GQ := ⟨sub⟩
instance : Mul GQ := ⟨mul⟩
def pow (a : GQ) : Nat → GQ
  | 0 => ofQ Q.one
  | k + 1 => pow a k * a
end GQ

/-- one Horner step of `polyval(coeffs, x, derivative=True)`: `q = p + x*q; p = c + x*p` -/
def hornerStep (x : GQ) (pq : GQ × GQ) (c : GQ) : GQ × GQ := (c + x * pq.1, pq.1 + x * pq.2)

/-- `(P(x), P'(x))` for the coefficient list `cs` (highest degree first, as `polyval`) -/
def horner (cs : List GQ) (x : GQ) : GQ × GQ := cs.foldl (hornerStep x) (GQ.zero, GQ.zero)

/-- the degree bound `len(coeffs) - 1` used by `polyroots` -/
def degOf (cs : List GQ) : Nat := cs.length - 1

/-- ρ² with ρ = n·|P(r)|/|P'(r)| (n = `degOf cs`); equals 0 by the `1/0 = 0` convention when `P'(r) = 0`,
which callers must exclude with `derivNonzero`. -/
def rootInclSq (cs : List GQ) (r : GQ) : Q :=
  let pq := horner cs r
  Q.div (Q.ofInt ((degOf cs : Int) * (degOf cs : Int)) * pq.1.normSq) pq.2.normSq

def derivNonzero (cs : List GQ) (r : GQ) : Bool := !(horner cs r).2.isZero

/-- decides `√B + √C < √A` for `0 ≤ B, C`: `B + C < A` and `4BC < (A-B-C)²` -/
def sqrtSumLt (B C A : Q) : Bool :=
  Q.lt (B + C) A && Q.lt (Q.ofInt 4 * B * C) ((A - B - C) * (A - B - C))

inductive Verdict | ok | fail | undecided
deriving DecidableEq, Repr, Inhabited

/-- per-root statement (b): `ok` if `P(r) = 0` exactly or ρ ≤ tol, `fail` if ρ > tol (or `tol < 0`),
`undecided` if `P'(r) = 0 ≠ P(r)` -/
def inclVerdict (cs : List GQ) (tol : Q) (r : GQ) : Verdict :=
  if !Q.le Q.zero tol then .fail
  else if (horner cs r).1.isZero then .ok
  else if !derivNonzero cs r then .undecided
  else if Q.le (rootInclSq cs r) (tol * tol) then .ok
  else .fail

/-- all pairs `(a, b)` with `a` before `b` satisfy `f a b` -/
def pairwiseAll {α : Type} (f : α → α → Bool) : List α → Bool
  | [] => true
  | x :: xs => xs.all (f x) && pairwiseAll f xs

/-- the inclusion discs of two returned roots are disjoint: ρ(a) + ρ(b) < |a - b| -/
def discsDisjoint (cs : List GQ) (a b : GQ) : Bool :=
  sqrtSumLt (rootInclSq cs a) (rootInclSq cs b) (a - b).normSq

structure PolyReport where
  /-- (a) exactly `deg` roots were returned and `deg ≥ 1` -/
  count : Bool
  /-- (b) every inclusion radius is at most `tol` -/
  incl : Verdict
  /-- per root verdicts of (b) -/
  perRoot : List Verdict
  /-- (c) the discs are pairwise disjoint (one-to-one matching with the true roots); never `fail` -/
  matching : Verdict
deriving Repr

def combineIncl (vs : List Verdict) : Verdict :=
  if vs.any (· == .fail) then .fail else if vs.any (· == .undecided) then .undecided else .ok

def polyrootsReport (cs : List GQ) (roots : List GQ) (tol : Q) : PolyReport :=
  let per := roots.map (inclVerdict cs tol)
  { count := decide (roots.length = degOf cs) && decide (1 ≤ degOf cs)
    incl := combineIncl per
    perRoot := per
    matching := if roots.all (derivNonzero cs) && pairwiseAll (discsDisjoint cs) roots then .ok else .undecided }

/-- overall verdict: `fail` if the count is wrong or some ρ_i > tol; `ok` if (a), (b), (c) all hold;
otherwise (repeated / unresolved roots) `undecided` -/
def polyrootsCheck (cs : List GQ) (roots : List GQ) (tol : Q) : Verdict :=
  let r := polyrootsReport cs roots tol
  if !r.count then .fail
  else match r.incl with
    | .fail => .fail
    | .undecided => .undecided
    | .ok => r.matching

/-! ### multivariate rational maps for `findrootCheck` -/

/-- monomial `coef · ∏ x_i^{e_i}` -/
structure Mono where
  coef : GQ
  exps : List Nat

abbrev MPoly := List Mono

def evalMonoAux : List Nat → List GQ → GQ → GQ
  | [], _, acc => acc
  | _ :: _, [], acc => acc
  | e :: es, x :: xs, acc => evalMonoAux es xs (acc * GQ.pow x e)

def evalMono (m : Mono) (xs : List GQ) : GQ := evalMonoAux m.exps xs m.coef

def evalMPoly (p : MPoly) (xs : List GQ) : GQ := p.foldl (fun acc m => acc + evalMono m xs) GQ.zero

/-- rational function `N/D` -/
structure RatFun where
  numer : MPoly
  denom : MPoly

/-- `|N(x)/D(x)|² ≤ tol`, decided as `|N(x)|² ≤ tol·|D(x)|²`; `undecided` at a pole of the representation -/
def residualVerdict (tol : Q) (xs : List GQ) (f : RatFun) : Verdict :=
  let n := evalMPoly f.numer xs
  let d := evalMPoly f.denom xs
  if d.isZero then .undecided
  else if Q.le n.normSq (tol * d.normSq) then .ok else .fail

/-- `lo ≤ x ≤ hi` for a real point, where `lo, hi` are the bracket ends in either order -/
def inBracket (a b : Q) (x : GQ) : Bool :=
  x.im.isZero && Q.le (Q.min a b) x.re && Q.le x.re (Q.max a b)

structure FindReport where
  /-- `max_i |f_i(x)|² ≤ tol` (the quantity `norm(f(x))**2` of `findroot`, max-norm) decided exactly -/
  residual : Verdict
  /-- result inside the bracket (`ok`/`fail`), `undecided` when no bracket was given -/
  bracket : Verdict
deriving Repr

def findrootCheck (fs : List RatFun) (xs : List GQ) (tol : Q) (bracket : Option (Q × Q)) : FindReport :=
  { residual := combineIncl (fs.map (residualVerdict tol xs))
    bracket := match bracket, xs with
      | some (a, b), [x] => if inBracket a b x then .ok else .fail
      | some _, _ => .fail
      | none, _ => .undecided }

/-! ### exact multiplicity -/

/-- synthetic division of `cs` by `(X - a)`: quotient coefficients and remainder -/
def deflate (a : GQ) : List GQ → GQ → List GQ × GQ
  | [], acc => ([], acc)
  | c :: cs, acc =>
    let v := c + a * acc
    match cs with
    | [] => ([], v)
    | _ :: _ => let r := deflate a cs v; (v :: r.1, r.2)

/-- multiplicity of `a` as a root of `cs` (0 for the zero list); fuel = number of coefficients -/
def multiplicityExactAux (a : GQ) : Nat → List GQ → Nat
  | 0, _ => 0
  | fuel + 1, cs =>
    if cs.all GQ.isZero then 0 else
    let r := deflate a cs GQ.zero
    if r.2.isZero then 1 + multiplicityExactAux a fuel r.1 else 0

def multiplicityExact (cs : List GQ) (a : GQ) : Nat := multiplicityExactAux a cs.length cs

/-! ## Part B — decision logic of the code, over raw mpf values -/

/-- a root as held by `polyroots`: an `mpf` (`cplx = false`, `im = fzero`) or an `mpc` -/
structure Root where
  cplx : Bool
  re : Mpf
  im : Mpf
deriving DecidableEq, Repr, Inhabited

/-- `ctx._im(x)`: `x.imag`, `ctx.zero` for an mpf -/
def Root.imag (r : Root) : Mpf := if r.cplx then r.im else fzero

/-- `+ctx.eps` at precision `prec`: `2^(1-prec)` -/
def epsOf (prec : Int) : Mpf := ⟨0, 1, 1 - prec, 1⟩

/-- `abs(roots[i])` at working precision `wp` (context rounding is nearest) -/
def Root.abs (r : Root) (wp : Int) : Except Err Mpf :=
  if r.cplx then mpc_abs (r.re, r.im) wp .n else .ok (mpf_abs r.re wp .n)

/-- the body of the `if cleanup:` loop of `polyroots` for one root; `tol = epsOf prec` -/
def cleanupRoot (wp : Int) (tol : Mpf) (r : Root) : Except Err Root := do
  let a ← r.abs wp
  if mpf_lt a tol then
    pure ⟨false, fzero, fzero⟩                                  -- roots[i] = ctx.zero
  else if mpf_lt (mpf_abs r.imag wp .n) tol then
    pure ⟨false, r.re, fzero⟩                                   -- roots[i] = roots[i].real
  else if mpf_lt (mpf_abs r.re wp .n) tol then
    -- roots[i] = roots[i].imag * 1j  ==  mpc_mul_mpf((fzero, fone), im, wp, rnd)
    pure ⟨true, mpf_mul fzero r.imag wp .n, mpf_mul fone r.imag wp .n⟩
  else pure r

def mapExcept {α β : Type} (f : α → Except Err β) : List α → Except Err (List β)
  | [] => .ok []
  | x :: xs => do
    let y ← f x
    let ys ← mapExcept f xs
    pure (y :: ys)

/-- the sort key `(abs(ctx._im(x)), ctx._re(x))` -/
def sortKey (wp : Int) (r : Root) : Mpf × Mpf := (mpf_abs r.imag wp .n, r.re)

/-- Python's `<` on 2-tuples of mpf: first component that is not `==` decides -/
def keyLt (a b : Mpf × Mpf) : Bool :=
  if mpf_eq a.1 b.1 then (if mpf_eq a.2 b.2 then false else mpf_lt a.2 b.2) else mpf_lt a.1 b.1

/-- stable insertion: `x` (which preceded all of `ys` in the input) goes before the first `y` with `¬ y < x` -/
def insertBy {α : Type} (lt : α → α → Bool) (x : α) : List α → List α
  | [] => [x]
  | y :: ys => if lt y x then y :: insertBy lt x ys else x :: y :: ys

/-- stable sort using only `<` (what `list.sort` computes for a strict weak order) -/
def sortBy {α : Type} (lt : α → α → Bool) : List α → List α
  | [] => []
  | x :: xs => insertBy lt x (sortBy lt xs)

/-- `roots.sort(key=lambda x: (abs(ctx._im(x)), ctx._re(x)))` -/
def polyrootsOrder (wp : Int) (roots : List Root) : List Root :=
  sortBy (fun a b => keyLt (sortKey wp a) (sortKey wp b)) roots

/-- `+r` at the caller's precision -/
def Root.pos (prec : Int) (r : Root) : Root :=
  if r.cplx then ⟨true, mpf_pos r.re prec .n, mpf_pos r.im prec .n⟩ else ⟨false, mpf_pos r.re prec .n, fzero⟩

/-- lines 198-213 of polynomials.py: cleanup, sort, `[+r for r in roots]`;
`wp = prec + extraprec` is the precision inside the `with` block -/
def polyPost (wp prec : Int) (cleanup : Bool) (roots : List Root) : Except Err (List Root) := do
  let rs ← if cleanup then mapExcept (cleanupRoot wp (epsOf prec)) roots else pure roots
  pure ((polyrootsOrder wp rs).map (Root.pos prec))

/-! ### the proposed replacement of the sort (report: patch for D13) -/

/-- `im > 0` for an mpf against the Python int 0 -/
def mpfPos (x : Mpf) : Bool := mpf_gt x fzero

/-- `abs(x - ctx.conj(r))` at precision `wp` -/
def conjDist (wp : Int) (r x : Root) : Except Err Mpf :=
  mpc_abs (mpc_sub (x.re, x.im) (mpc_conjugate (r.re, r.im) wp .n) wp .n) wp .n

/-- index of the first minimal element of `ds` w.r.t. `mpf_lt` (Python `min`) -/
def argminAux : List Mpf → Nat → Nat → Mpf → Nat
  | [], _, best, _ => best
  | d :: ds, i, best, bd => if mpf_lt d bd then argminAux ds (i + 1) i d else argminAux ds (i + 1) best bd

def argmin : List Mpf → Nat
  | [] => 0
  | d :: ds => argminAux ds 1 0 d

/-- `enumerate(roots)` -/
def indexFrom {α : Type} : Nat → List α → List (Nat × α)
  | _, [] => []
  | k, x :: xs => (k, x) :: indexFrom (k + 1) xs

/-- the pairing loop over `(position, root)` entries: every upper root is paired with the remaining lower root
closest to its conjugate; the two members are emitted in the order of their positions in the sorted list -/
def pairUp (wp : Int) : List (Nat × Root) → List (Nat × Root) → Except Err (List Root)
  | [], lower => .ok (lower.map (·.2))
  | u :: us, [] => .ok ((u :: us).map (·.2))
  | u :: us, l :: ls =>
    match mapExcept (fun x => conjDist wp u.2 x.2) (l :: ls) with
    | .error e => .error e
    | .ok ds =>
      match pairUp wp us ((l :: ls).eraseIdx (argmin ds)) with
      | .error e => .error e
      | .ok rest =>
        let c := (l :: ls).getD (argmin ds) u
        .ok (if c.1 < u.1 then c.2 :: u.2 :: rest else u.2 :: c.2 :: rest)

/-- patched ordering: the existing sort, then a stable split into real / upper / lower half plane roots
(`not im`, `im > 0`, otherwise) and the pairing pass -/
def polyrootsOrderPatched (wp : Int) (roots : List Root) : Except Err (List Root) :=
  let s := polyrootsOrder wp roots
  let si := indexFrom 0 s
  let real := s.filter (fun r => r.imag == fzero)
  let upper := (si.filter (fun r => !(r.2.imag == fzero))).filter (fun r => mpfPos r.2.imag)
  let lower := (si.filter (fun r => !(r.2.imag == fzero))).filter (fun r => !mpfPos r.2.imag)
  match pairUp wp upper lower with
  | .error e => .error e
  | .ok paired => .ok (real ++ paired)

/-- the list is a sequence of pairs, each made of one root with positive and one with non-positive
imaginary part -/
def oppositePairs : List Root → Bool
  | [] => true
  | [_] => false
  | a :: b :: rest => (mpfPos a.imag != mpfPos b.imag) && oppositePairs rest

def polyPostPatched (wp prec : Int) (cleanup : Bool) (roots : List Root) : Except Err (List Root) := do
  let rs ← if cleanup then mapExcept (cleanupRoot wp (epsOf prec)) roots else pure roots
  let o ← polyrootsOrderPatched wp rs
  pure (o.map (Root.pos prec))

/-! ### conjugate adjacency of a returned list -/

def Root.isReal (r : Root) : Bool := r.imag == fzero

/-- exact conjugates: same real part, opposite imaginary parts -/
def isConjPair (a b : Root) : Bool := a.re == b.re && b.imag == mpf_neg a.imag && a.imag != fzero

/-- the complex part of the list is a sequence of adjacent exact conjugate pairs -/
def conjPaired : List Root → Bool
  | [] => true
  | [_] => false
  | a :: b :: rest => isConjPair a b && conjPaired rest

/-- documented order: real roots first, then adjacent conjugate pairs -/
def realsThenConjPairs (l : List Root) : Bool :=
  let cs := l.dropWhile Root.isReal
  cs.all (fun r => !r.isReal) && conjPaired cs

/-! ### `multiplicity`, `MNewton`, `findroot` verify -/

/-- the loop of `multiplicity`: `small i` is the outcome of `abs(df_i(root)) < tol`.
Python leaves `i` at the first index whose test fails, or at `maxsteps - 1` when none fails;
`maxsteps = 0` raises (UnboundLocalError: `i` is never bound). -/
def multLoopAux (small : Nat → Bool) : Nat → Nat → Nat
  | 0, i => i - 1
  | fuel + 1, i => if small i then multLoopAux small fuel (i + 1) else i

def multLoop (small : Nat → Bool) (maxsteps : Nat) : Except Err Nat :=
  if maxsteps = 0 then .error .value else .ok (multLoopAux small maxsteps 0)

/-- which callable ends up as `self.d2f` in `MNewton.__init__` / `Halley.__init__` -/
inductive D2Src | numericDiffOfDf | userDf | userD2f | keyError
deriving DecidableEq, Repr

/-- as written in /repo: `d2f = kwargs['df']` when the keyword `d2f` is present -/
def mnewtonD2f (hasDf hasD2f : Bool) : D2Src :=
  if !hasD2f then .numericDiffOfDf else if hasDf then .userDf else .keyError

/-- the intended selection -/
def mnewtonD2fFixed (_hasDf hasD2f : Bool) : D2Src :=
  if !hasD2f then .numericDiffOfDf else .userD2f

/-- one `MNewton` update in exact real arithmetic: `none` = stop (`fx == 0`), errors as raised -/
def mnewtonStep (x fx dfx d2fx : Q) : Except Err (Option Q) :=
  if fx.isZero then .ok none
  else if dfx.isZero then .error .zeroDiv                     -- fx * d2fx / dfx
  else
    let den := dfx - Q.div (fx * d2fx) dfx
    if den.isZero then .error .zeroDiv                        -- fx / (...)
    else .ok (some (x - Q.div fx den))

/-- the update with the proposed fix (`except ZeroDivisionError: break`): a vanishing derivative or denominator
ends the iteration instead of raising -/
def mnewtonStepFixed (x fx dfx d2fx : Q) : Except Err (Option Q) :=
  match mnewtonStep x fx dfx d2fx with
  | .error .zeroDiv => .ok none
  | r => r

/-- `if verify and norm(f(*xl))**2 > tol: raise ValueError` -/
def findrootVerify (verify : Bool) (normSq tol : Mpf) : Except Err Unit :=
  if verify && mpf_gt normSq tol then .error .value else .ok ()

end RootCert
end Mp
