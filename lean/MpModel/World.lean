/-
  MpModel/World.lean — the contexts of a running mpmath process as one explicit world (C38).

  What exists in Python (mpmath/__init__.py, ctx_mp.py, ctx_mp_python.py, ctx_iv.py, ctx_fp.py):
    * `mp  = MPContext()`          cell: `_prec`, `_prec_rounding = [prec, rounding]`, `_dps`,
                                   `trap_complex`, `pretty`; own classes `mpf`/`mpc`/`constant`
                                   whose `_ctxdata[2]` IS the context's `_prec_rounding` list;
    * `iv  = MPIntervalContext()`  cell: `_prec = [prec]`, `_dps`, `pretty`;
    * `fp  = FPContext()`          `prec`/`dps` are read-only 53/15 (the setters `return`), `pretty`;
    * `mp.clone()`                 `a = ctx.__class__(); a.prec = ctx.prec; return a`
                                   — a NEW MPContext (all defaults) whose precision is then set
                                   through the `prec` property: rounding, trap_complex, pretty and
                                   the exact `dps` of the parent are NOT copied;
    * module-level caches of libmp (constants, log/atan tables, Bernoulli numbers, …) are shared by
      every context: they are the component `caches` of the world.

  A context id is its position in `cells`; ids are never reused (`clone` appends).
  The numeric evaluation itself is abstract (`Sem.run`): what this model fixes is WHICH cell's
  `(kind, prec, rounding)` an evaluation in context `i` reads and which state it may write
  (the shared caches only).
-/
import MpModel.Core
import MpModel.PrecConv

namespace Mp.World

inductive Kind | mp | iv | fp
deriving DecidableEq, Repr

/-- the settings of one context object -/
structure Cell where
  kind : Kind
  prec : Int
  dps : Int
  rounding : Rnd
  trap : Bool
  pretty : Bool
deriving DecidableEq, Repr

/-- `MPContext()` after `__init__` (`default()`: 53 bits, 15 digits, round_nearest) -/
def freshMp : Cell := ⟨.mp, 53, 15, .n, false, false⟩
/-- `MPIntervalContext()` after `__init__` (`_set_prec(53)`) -/
def freshIv : Cell := ⟨.iv, 53, precToDps 53, .n, false, false⟩
/-- `FPContext()`: `prec`/`dps` are the constants 53 / 15 -/
def freshFp : Cell := ⟨.fp, 53, 15, .n, false, false⟩

/-- all context objects plus the state shared by all of them -/
structure World (C : Type) where
  cells : List Cell
  caches : C

/-- the process right after `import mpmath`: ids 0 = mp, 1 = iv, 2 = fp -/
def init {C : Type} (c0 : C) : World C := ⟨[freshMp, freshIv, freshFp], c0⟩

/-- abstract numerics: a call of function `f` at `x` from a context of kind `k` working at `prec`
with rounding `r`, reading and updating the shared caches -/
structure Sem (C F X V : Type) where
  run : Kind → C → F → Int → Rnd → X → C × V

inductive Op (F X : Type)
  | setPrec (i : Nat) (n : Int)          -- ctx.prec = n
  | setDps (i : Nat) (n : Int)           -- ctx.dps = n
  | setRounding (i : Nat) (r : Rnd)      -- ctx._prec_rounding[1] = r   (mp contexts only)
  | setTrap (i : Nat) (b : Bool)         -- ctx.trap_complex = b
  | setPretty (i : Nat) (b : Bool)       -- ctx.pretty = b
  | default (i : Nat)                    -- ctx.default()               (mp contexts only)
  | clone (i : Nat)                      -- ctx.clone()                 (mp contexts only)
  | eval (i : Nat) (f : F) (x : X)       -- ctx.f(x)

/-- the context object an operation is invoked on -/
def Op.target {F X : Type} : Op F X → Nat
  | .setPrec i _ | .setDps i _ | .setRounding i _ | .setTrap i _ | .setPretty i _
  | .default i | .clone i | .eval i _ _ => i

inductive Outcome (V : Type)
  | done                 -- statement executed
  | created (id : Nat)   -- `clone` returned the new context `id`
  | value (v : V)        -- the call returned `v`
  | attrError            -- AttributeError (`iv.clone`, `fp.default`, `iv._prec_rounding`)
  | noCtx                -- no such context object (cannot be expressed in Python)
deriving DecidableEq, Repr

/-- `_set_prec` of PythonMPContext / MPIntervalContext; FPContext's setter is `return` -/
def Cell.setPrec (c : Cell) (n : Int) : Cell :=
  match c.kind with
  | .fp => c
  | _ => { c with prec := max 1 n, dps := precToDps n }

/-- `_set_dps` -/
def Cell.setDps (c : Cell) (n : Int) : Cell :=
  match c.kind with
  | .fp => c
  | _ => { c with prec := dpsToPrec n, dps := max 1 n }

/-- `PythonMPContext.default` -/
def Cell.default (c : Cell) : Cell := { c with prec := 53, dps := 15, trap := false }

/-- the cell of `ctx.clone()`: a fresh MPContext, then `a.prec = ctx.prec` -/
def Cell.cloneOf (c : Cell) : Cell := freshMp.setPrec c.prec

/-- one statement of the interleaved program -/
def step {C F X V : Type} (S : Sem C F X V) (w : World C) : Op F X → World C × Outcome V
  | .setPrec i n =>
    match w.cells[i]? with
    | none => (w, .noCtx)
    | some c => ({ w with cells := w.cells.set i (c.setPrec n) }, .done)
  | .setDps i n =>
    match w.cells[i]? with
    | none => (w, .noCtx)
    | some c => ({ w with cells := w.cells.set i (c.setDps n) }, .done)
  | .setRounding i r =>
    match w.cells[i]? with
    | none => (w, .noCtx)
    | some c =>
      match c.kind with
      | .mp => ({ w with cells := w.cells.set i { c with rounding := r } }, .done)
      | _ => (w, .attrError)
  | .setTrap i b =>
    match w.cells[i]? with
    | none => (w, .noCtx)
    | some c => ({ w with cells := w.cells.set i { c with trap := b } }, .done)
  | .setPretty i b =>
    match w.cells[i]? with
    | none => (w, .noCtx)
    | some c => ({ w with cells := w.cells.set i { c with pretty := b } }, .done)
  | .default i =>
    match w.cells[i]? with
    | none => (w, .noCtx)
    | some c =>
      match c.kind with
      | .mp => ({ w with cells := w.cells.set i c.default }, .done)
      | _ => (w, .attrError)
  | .clone i =>
    match w.cells[i]? with
    | none => (w, .noCtx)
    | some c =>
      match c.kind with
      | .mp => ({ w with cells := w.cells ++ [c.cloneOf] }, .created w.cells.length)
      | _ => (w, .attrError)
  | .eval i f x =>
    match w.cells[i]? with
    | none => (w, .noCtx)
    | some c =>
      let (cs, v) := S.run c.kind w.caches f c.prec c.rounding x
      ({ w with caches := cs }, .value v)

/-- a whole program -/
def runOps {C F X V : Type} (S : Sem C F X V) : World C → List (Op F X) → World C
  | w, [] => w
  | w, op :: ops => runOps S (step S w op).1 ops

/-- a whole program, keeping every intermediate outcome and state (what the harness compares) -/
def trace {C F X V : Type} (S : Sem C F X V) : World C → List (Op F X) → List (Outcome V × List Cell)
  | _, [] => []
  | w, op :: ops =>
    let r := step S w op
    (r.2, r.1.cells) :: trace S r.1 ops

/-- The semantics used by the driver: no cache state, and the "value" of an evaluation is the triple
of settings it is performed at — the harness evaluates the reference in a fresh single-context
process at exactly these predicted settings. -/
def paramSem : Sem Unit Unit Unit (Kind × Int × Rnd) where
  run k _ _ p r _ := ((), (k, p, r))

end Mp.World
