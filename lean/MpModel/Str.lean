/-
  MpModel/Str.lean — import-free executable model of the decimal string conversions of mpmath
  (properties C07, C08):

    libmpf.py    : prec_to_dps, dps_to_prec, repr_dps, to_digits_exp, to_str,
                   str_to_man_exp, special_str, from_str
    libintmath.py: bin_to_radix, small_numeral (base 10), numeral_python

  Conventions
  * A Python `str` is a `List Char` (wrappers on `String` at the end of the file).
    Only ASCII input is modelled: CPython's `float()`/`int()` also accept non-ASCII decimal digits
    and white space; the model rejects every non-ASCII character with `Err.value`.
  * `float(x)` (used only as a validity check) is the predicate `floatOK`, `int(x, 10)` is `pyInt`.
    `pyInt` carries CPython's `sys.get_int_max_str_digits()` limit as a parameter
    (`0` = unlimited, CPython default 4300).
  * The three uses of Python floats (`int(dps*math.log(10,2))+10`, `int(fixprec/math.log(10,2)+0.5)`,
    `round(n/3.3219280948873626)`, `round((n+1)*3.3219280948873626)`) are modelled by exact integer
    arithmetic with round-to-nearest-even to 53 bits after every operation (`F64`); overflow and
    subnormals cannot occur for natural-number arguments below 2^900 and are not modelled.
-/
import MpModel.Core

namespace Mp

/-! ### characters and list helpers -/

def isDigitC (c : Char) : Bool := 48 ≤ c.toNat && c.toNat ≤ 57
def digitVal (c : Char) : Nat := c.toNat - 48
def digitChar (d : Nat) : Char := Char.ofNat (48 + d)

/-- white space skipped by `float()` / `int()` (ASCII part) -/
def isSpaceNum (c : Char) : Bool := c.toNat == 32 || (9 ≤ c.toNat && c.toNat ≤ 13)
/-- white space removed by `str.strip()` (ASCII part: also the separators 0x1c–0x1f) -/
def isSpaceStrip (c : Char) : Bool := isSpaceNum c || (28 ≤ c.toNat && c.toNat ≤ 31)

/-- `str.lower()` on ASCII -/
def lowerC (c : Char) : Char :=
  if 65 ≤ c.toNat ∧ c.toNat ≤ 90 then Char.ofNat (c.toNat + 32) else c

/-- `s.rstrip(chars)` -/
def rstripL (p : Char → Bool) (l : List Char) : List Char := (l.reverse.dropWhile p).reverse
/-- `s.strip()` -/
def stripL (p : Char → Bool) (l : List Char) : List Char := rstripL p (l.dropWhile p)

/-- `s.split(c)` for a one-character separator (never returns the empty list) -/
def splitOnC (c : Char) : List Char → List (List Char)
  | [] => [[]]
  | x :: xs =>
    if x = c then [] :: splitOnC c xs
    else match splitOnC c xs with
      | h :: t => (x :: h) :: t
      | [] => [[x]]

def isAscii (l : List Char) : Bool := l.all (fun c => c.toNat < 128)

/-- value of a list of decimal digit characters, most significant first -/
def natOfDigits (l : List Char) : Nat := l.foldl (fun a c => 10 * a + digitVal c) 0

/-- fuel-driven decimal digits, least significant produced first and consed to the front -/
def natToDecAux : Nat → Nat → List Char → List Char
  | 0, _, acc => acc
  | f+1, n, acc =>
    let acc := digitChar (n % 10) :: acc
    if n < 10 then acc else natToDecAux f (n / 10) acc

/-- `str(n)` for a natural number -/
def natToDec (n : Nat) : List Char := natToDecAux (n + 1) n []

/-- `str(n)` for an integer -/
def intToDec (n : Int) : List Char :=
  if n < 0 then '-' :: natToDec n.natAbs else natToDec n.natAbs

/-! ### `float()` validity and `int()` -/

/-- CPython's underscore rule (`_Py_string_to_number_with_underscores`): every `_` is preceded by a
digit and followed by a digit. `prev` is the previous character (`'\x00'` at the start). -/
def underscoresOK : Char → List Char → Bool
  | prev, [] => prev != '_'
  | prev, c :: cs =>
    (if c = '_' then isDigitC prev else (prev != '_' || isDigitC c)) && underscoresOK c cs

def dropSign : List Char → List Char
  | '+' :: r => r
  | '-' :: r => r
  | r => r

/-- optional sign of `int()`: (is negative, rest) -/
def takeSign : List Char → Bool × List Char
  | '-' :: r => (true, r)
  | '+' :: r => (false, r)
  | r => (false, r)

/-- optional fraction `.ddd` at the head of `r`: (fraction digits, rest) -/
def fracPart (r : List Char) : List Char × List Char :=
  match r with
  | '.' :: r' => (r'.takeWhile isDigitC, r'.dropWhile isDigitC)
  | _ => ([], r)

/-- the rest of the literal is empty or `e[+-]digits` -/
def expPartOK (r : List Char) : Bool :=
  match r with
  | [] => true
  | 'e' :: r' => !((dropSign r').isEmpty) && (dropSign r').all isDigitC
  | _ => false

/-- the grammar of `strtod` plus `inf`/`infinity`/`nan` on an already lower-cased, underscore-free,
white-space-free string -/
def plainFloatOK (l : List Char) : Bool :=
  let l := dropSign l
  if l = "inf".toList || l = "infinity".toList || l = "nan".toList then true else
  let ip := l.takeWhile isDigitC
  let fr := fracPart (l.dropWhile isDigitC)
  if ip.isEmpty && fr.1.isEmpty then false else expPartOK fr.2

/-- `float(x)` does not raise, for a lower-cased ASCII string `x` -/
def floatOK (l : List Char) : Bool :=
  isAscii l &&
  let t := stripL isSpaceNum l
  underscoresOK '\x00' t && plainFloatOK (t.filter (· != '_'))

/-- `int(x, 10)`; `limit` is `sys.get_int_max_str_digits()` (0 = no limit) -/
def pyInt (l : List Char) (limit : Nat := 4300) : Except Err Int :=
  if !isAscii l then .error .value else
  let t := stripL isSpaceNum l
  let neg := (takeSign t).1
  let t := (takeSign t).2
  let ds := t.filter (· != '_')
  if ds.isEmpty || !(ds.all isDigitC) || !(underscoresOK '\x00' t) then .error .value else
  if limit ≠ 0 ∧ ds.length > limit then .error .value else
  let v : Int := natOfDigits ds
  .ok (if neg then -v else v)

/-! ### `str_to_man_exp`, `from_str` -/

/-- `if x in ('', '+', '-'): x += '0'` -/
def padEmpty (x : List Char) : List Char :=
  if x = [] ∨ x = ['+'] ∨ x = ['-'] then x ++ ['0'] else x

/-- the mantissa part of `str_to_man_exp` (after the exponent was split off) -/
def manExpOfMantissa (x : List Char) (exp : Int) (limit : Nat) : Except Err (Int × Int) :=
  match splitOnC '.' x with
  | [a, b] =>
    let b := rstripL (· == '0') b
    match pyInt (padEmpty (a ++ b)) limit with
    | .ok v => .ok (v, exp - b.length)
    | .error e => .error e
  | _ =>
    match pyInt x limit with
    | .ok v => .ok (v, exp)
    | .error e => .error e

/-- `str_to_man_exp` after validation and removal of the digit group separators -/
def strToManExpCore (x : List Char) (limit : Nat) : Except Err (Int × Int) :=
  match splitOnC 'e' x with
  | [_] => manExpOfMantissa x 0 limit
  | m :: e :: _ =>
    match pyInt e limit with
    | .ok ev => manExpOfMantissa m ev limit
    | .error err => .error err
  | [] => .error .value

/-- `str_to_man_exp(x, base=10)` -/
def strToManExp (x : List Char) (limit : Nat := 4300) : Except Err (Int × Int) :=
  let x := stripL isSpaceStrip (rstripL (· == 'l') (x.map lowerC))
  if !floatOK x then .error .value else
  strToManExpCore (x.filter (· != '_')) limit

/-- `from_str(x, prec, rnd)` -/
def fromStr (x : List Char) (prec : Int) (rnd : Rnd := .d) (limit : Nat := 4300) : Except Err Mpf :=
  let x := stripL isSpaceStrip (x.map lowerC)
  if x = "inf".toList ∨ x = "+inf".toList then .ok finf
  else if x = "-inf".toList then .ok fninf
  else if x = "nan".toList then .ok fnan
  else if x.contains '/' then
    match splitOnC '/' x with
    | [p, q] =>
      match pyInt (rstripL (· == 'l') p) limit, pyInt (rstripL (· == 'l') q) limit with
      | .ok p, .ok q => from_rational p q prec rnd
      | .error e, _ => .error e
      | _, .error e => .error e
    | _ => .error .value          -- "too many values to unpack"
  else
    match strToManExp x limit with
    | .error e => .error e
    | .ok (man, exp) =>
      if exp.natAbs > 400 then
        let s := from_int man (prec + 10)
        match mpf_pow_int ften exp (prec + 10) with
        | .ok t => .ok (mpf_mul s t prec rnd)
        | .error e => .error e
      else if exp ≥ 0 then
        .ok (from_int (man * (10 : Int) ^ exp.toNat) prec rnd)
      else
        from_rational man ((10 : Int) ^ (-exp).toNat) prec rnd

/-! ### binary64 arithmetic on positive values (`m · 2^e`, `m = 0` is zero) -/

structure F64 where
  m : Nat
  e : Int
deriving Repr, DecidableEq

namespace F64

/-- round-to-nearest-even to 53 significant bits -/
def round53 (m : Nat) (e : Int) : F64 :=
  let b := bitcount m
  if b ≤ 53 then ⟨m, e⟩ else ⟨roundShift .n 0 m (b - 53), e + ((b - 53 : Nat) : Int)⟩

def ofNat (n : Nat) : F64 := round53 n 0

def mul (a b : F64) : F64 := round53 (a.m * b.m) (a.e + b.e)

/-- correctly rounded quotient (`b.m ≠ 0`): quotient to ≥ 55 bits with a sticky bit, then `round53` -/
def div (a b : F64) : F64 :=
  if a.m = 0 then ⟨0, 0⟩ else
  let k := 56 + bitcount b.m - bitcount a.m
  let num := a.m <<< k
  let q := num / b.m
  let r := num % b.m
  let qq := 2 * q + (if r = 0 then 0 else 1)
  round53 qq (a.e - b.e - (k : Int) - 1)

def add (a b : F64) : F64 :=
  let e := min a.e b.e
  round53 (a.m <<< (a.e - e).toNat + b.m <<< (b.e - e).toNat) e

/-- `int(x)` for `x ≥ 0` -/
def floor (a : F64) : Nat :=
  if a.e ≥ 0 then a.m <<< a.e.toNat else a.m >>> (-a.e).toNat

/-- `round(x)` for `x ≥ 0` (ties to even) -/
def roundHalfEven (a : F64) : Nat :=
  if a.e ≥ 0 then a.m <<< a.e.toNat else roundShift .n 0 a.m (-a.e).toNat

/-- `math.log(10,2) = 3.3219280948873626 = 0x1.a934f0979a372p+1` -/
def log2_10 : F64 := ⟨0x1a934f0979a372, -51⟩
def half : F64 := ⟨1, -1⟩

end F64

/-- `prec_to_dps(n)` -/
def prec_to_dps (n : Nat) : Nat :=
  max 1 ((F64.div (F64.ofNat n) F64.log2_10).roundHalfEven - 1)

/-- `dps_to_prec(n)` -/
def dps_to_prec (n : Nat) : Nat :=
  max 1 ((F64.mul (F64.ofNat (n + 1)) F64.log2_10).roundHalfEven)

/-- `repr_dps(n)` -/
def repr_dps (n : Nat) : Nat :=
  let dps := prec_to_dps n
  if dps = 15 ∧ n ≤ 53 then 17 else dps + 3

/-- `int(dps * math.log(10,2)) + 10` -/
def bitprecOf (dps : Nat) : Nat := (F64.mul (F64.ofNat dps) F64.log2_10).floor + 10

/-- `int(fixprec / math.log(10,2) + 0.5)` -/
def fixdpsOf (fixprec : Nat) : Nat :=
  (F64.add (F64.div (F64.ofNat fixprec) F64.log2_10) F64.half).floor

/-! ### `numeral`, `to_digits_exp`, `to_str` -/

/-- `s.rjust(n, '0')` -/
def rjust0 (n : Nat) (l : List Char) : List Char := List.replicate (n - l.length) '0' ++ l

/-- `numeral_python(n, 10, size)` for `n ≥ 0`; the fuel bounds the halving of `size`. -/
def numeralAux : Nat → Nat → Nat → List Char
  | 0, n, _ => natToDec n
  | f+1, n, size =>
    if n = 0 then ['0']
    else if size < 250 then natToDec n
    else
      let half := size / 2 + size % 2
      let a := n / 10 ^ half
      let b := n % 10 ^ half
      numeralAux f a half ++ rjust0 half (numeralAux f b half)

def numeral (n : Nat) (size : Nat) : List Char := numeralAux (bitcount size + 1) n size

/-- `bin_to_radix(x, xbits, 10, bdigits)` for `x ≥ 0` -/
def bin_to_radix (x : Nat) (xbits : Nat) (bdigits : Nat) : Nat := (x * 10 ^ bdigits) >>> xbits

/-- the `abs(exp_from_1) > 3500` step of `to_digits_exp`: divide by the power of ten nearest below;
returns the scaled number and the decimal exponent taken out -/
def scaleBig (s : Mpf) (bitprec : Int) (ln2 ln10 : Mpf) : Except Err (Mpf × Int) :=
  let exp_from_1 := s.exp + s.bc
  if exp_from_1.natAbs > 3500 then
    let expprec : Int := (bitcount s.exp.natAbs : Int) + 5
    let tmp := from_int s.exp
    let tmp := mpf_mul tmp ln2
    match mpf_div tmp ln10 expprec with
    | .error e => .error e
    | .ok tmp =>
      match to_int tmp with
      | .error e => .error e
      | .ok b =>
        match mpf_pow_int ften b bitprec with
        | .error e => .error e
        | .ok p =>
          match mpf_div s p bitprec with
          | .error e => .error e
          | .ok s' => .ok (s', b)
  else .ok (s, 0)

/-- `to_digits_exp` after the sign was removed and zero excluded: digit string and exponent -/
def toDigitsExpPos (s : Mpf) (dps : Nat) (ln2 ln10 : Mpf) : Except Err (List Char × Int) :=
  let bitprec : Int := bitprecOf dps
  match scaleBig s bitprec ln2 ln10 with
  | .error e => .error e
  | .ok (s, exponent) =>
    let fixprec : Nat := (max (bitprec - s.exp - s.bc) 0).toNat
    let fixdps := fixdpsOf fixprec
    let sf := to_fixed s fixprec
    let sd := bin_to_radix sf.toNat fixprec fixdps
    let digits := numeral sd dps
    .ok (digits, exponent + digits.length - fixdps - 1)

/-- `to_digits_exp(s, dps)`. `ln2`, `ln10` stand for `mpf_ln2(expprec)`, `mpf_ln10(expprec)` with
`expprec = bitcount(|exp|) + 5`; they are read only when `|exp + bc| > 3500`. -/
def toDigitsExp (s : Mpf) (dps : Nat) (ln2 ln10 : Mpf) : Except Err (List Char × List Char × Int) :=
  let sign : List Char := if s.sign ≠ 0 then ['-'] else []
  let s := if s.sign ≠ 0 then mpf_neg s else s
  if s.man = 0 then .ok ([], ['0'], 0) else
  match toDigitsExpPos s dps ln2 ln10 with
  | .error e => .error e
  | .ok (digits, exponent) => .ok (sign, digits, exponent)

/-- `min_fixed` / `max_fixed` arguments: an integer or a float infinity -/
inductive Bound | ninf | fin (i : Int) | pinf
deriving Repr, DecidableEq

def Bound.lt (a : Bound) (x : Int) : Bool :=
  match a with | .ninf => true | .fin i => i < x | .pinf => false
def Bound.gt (a : Bound) (x : Int) : Bool :=
  match a with | .ninf => false | .fin i => x < i | .pinf => true

/-- the digit rounding of `to_str` for `dps ≥ 1`: returns the new digit string and the exponent bump -/
def roundDigits (digits : List Char) (dps : Nat) : List Char × Int :=
  if digits.length > dps ∧ digits.getD dps '0' ∈ "56789".toList then
    let d := digits.take dps
    -- `i` = index of the last non-9 digit (Python loop `while i >= 0 and digits[i] == '9'`)
    let kept := rstripL (· == '9') d
    match kept.reverse with
    | c :: revInit =>
      (revInit.reverse ++ natToDec (digitVal c + 1) ++ List.replicate (dps - kept.length) '0', 0)
    | [] => ('1' :: List.replicate (dps - 1) '0', 1)
  else (digits.take dps, 0)

/-- `rstrip('0')` of `ip.fp`, re-adding one `0` after a bare point -/
def stripZeros (digits : List Char) : List Char :=
  let d := rstripL (· == '0') digits
  if d.getLast? = some '.' then d ++ ['0'] else d

/-- the exponent suffix and sign of the last three `return` statements of `to_str` -/
def withExponent (sign digits : List Char) (exponent : Int) (dps : Nat) (show_zero_exponent : Bool) :
    List Char :=
  if exponent = 0 ∧ dps ≠ 0 ∧ ¬ show_zero_exponent then sign ++ digits
  else if exponent ≥ 0 then sign ++ (digits ++ 'e' :: '+' :: intToDec exponent)
  else sign ++ (digits ++ 'e' :: intToDec exponent)

/-- the layout part of `to_str` for `dps ≥ 1`: fixed or scientific placement of the point, zero padding,
stripping, exponent suffix. `digits` are the `dps` rounded digits, `exponent` the decimal exponent of the
first digit. -/
def layoutDigits (sign digits : List Char) (exponent : Int) (dps : Nat) (strip_zeros : Bool)
    (min_fixed max_fixed : Bound) (show_zero_exponent : Bool) : List Char :=
  let fixed := min_fixed.lt exponent && max_fixed.gt exponent
  let digits1 : List Char :=
    if fixed then
      if exponent < 0 then List.replicate (-exponent).toNat '0' ++ digits
      else if (exponent + 1).toNat > dps then digits ++ List.replicate ((exponent + 1).toNat - dps) '0'
      else digits
    else digits
  let split : Nat := if fixed then (if exponent < 0 then 1 else (exponent + 1).toNat) else 1
  let exponent : Int := if fixed then 0 else exponent
  let digits2 := digits1.take split ++ '.' :: digits1.drop split
  let digits3 := if strip_zeros then stripZeros digits2 else digits2
  withExponent sign digits3 exponent dps show_zero_exponent

/-- `to_str(s, dps, strip_zeros, min_fixed, max_fixed, show_zero_exponent)` -/
def toStr (s : Mpf) (dps : Nat) (ln2 ln10 : Mpf) (strip_zeros : Bool := true)
    (min_fixed max_fixed : Option Bound := none) (show_zero_exponent : Bool := false) :
    Except Err (List Char) :=
  if s.man = 0 then
    if s = fzero then
      let t := if dps ≠ 0 then "0.0".toList else ".0".toList
      .ok (if show_zero_exponent then t ++ "e+0".toList else t)
    else if s = finf then .ok "+inf".toList
    else if s = fninf then .ok "-inf".toList
    else if s = fnan then .ok "nan".toList
    else .error .value
  else
  let min_fixed : Bound := min_fixed.getD (.fin (min (-((dps / 3 : Nat) : Int)) (-5)))
  let max_fixed : Bound := max_fixed.getD (.fin dps)
  match toDigitsExp s (dps + 3) ln2 ln10 with
  | .error e => .error e
  | .ok (sign, digits, exponent) =>
    if dps = 0 then
      let exponent := if digits.headD '0' ∈ "56789".toList then exponent + 1 else exponent
      .ok (withExponent sign ".0".toList exponent dps show_zero_exponent)
    else
      let rd := roundDigits digits dps
      .ok (layoutDigits sign rd.1 (exponent + rd.2) dps strip_zeros min_fixed max_fixed
        show_zero_exponent)

/-! ### `String` wrappers -/

def str_to_man_exp (x : String) (limit : Nat := 4300) : Except Err (Int × Int) :=
  strToManExp x.toList limit

def from_str (x : String) (prec : Int) (rnd : Rnd := .d) (limit : Nat := 4300) : Except Err Mpf :=
  fromStr x.toList prec rnd limit

def to_digits_exp (s : Mpf) (dps : Nat) (ln2 ln10 : Mpf) : Except Err (String × String × Int) :=
  match toDigitsExp s dps ln2 ln10 with
  | .ok (a, b, c) => .ok (String.ofList a, String.ofList b, c)
  | .error e => .error e

def to_str (s : Mpf) (dps : Nat) (ln2 ln10 : Mpf) (strip_zeros : Bool := true)
    (min_fixed max_fixed : Option Bound := none) (show_zero_exponent : Bool := false) :
    Except Err String :=
  match toStr s dps ln2 ln10 strip_zeros min_fixed max_fixed show_zero_exponent with
  | .ok l => .ok (String.ofList l)
  | .error e => .error e

end Mp
