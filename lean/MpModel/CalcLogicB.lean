/-
  MpModel/CalcLogicB.lean — list/control logic of two calculus drivers, over ABSTRACT numerics.

  (a) the segment store of `odefun`  (`/repo/mpmath/calculus/odes.py`, lines 244-283:
      `series_boundaries`, `series_data`, `get_series`, and Python's `bisect.bisect` = `bisect_right`);
  (b) the accumulation loop of `QuadratureRule.summation`
      (`/repo/mpmath/calculus/quadrature.py`, lines 203-246) over an abstract converged rule.

  Import-free (core Lean only).  Everything numeric is a parameter:
    * `X`  positions, with core `LT`/`LE` and decidability instances (instantiate with `Int`, `Rat`, …);
    * `S`  a vector of Taylor series (opaque);  `Y` a state vector (opaque);
    * `step : X → Y → S × X`        = `ode_taylor(ctx, F, x, y, tol_prec, degree)` → `(ser, xb)`;
    * `endval : S → X → X → Y`      = `mpolyval(ser, xb - xa)` (state at the right end of a segment);
    * `rule : X → X → V`            = the value `results[-1]` on which the inner degree loop of
                                      `summation` stops for the sub-interval `[a, b]`.
-/

namespace Mp
namespace Calc

/-! ## Python list helpers -/

/-- Python `l[i]` for an `int` index `i` (negative indices count from the end); `none` = `IndexError`. -/
def pyIndex {α : Type} (l : List α) (i : Int) : Option α :=
  if 0 ≤ i then l[i.toNat]?
  else if -i ≤ (l.length : Int) then l[l.length - (-i).toNat]?
  else none

/-- The `while lo < hi` loop of CPython's `bisect.bisect_right(a, x, lo, hi)`:
```
while lo < hi:
    mid = (lo + hi) // 2
    if x < a[mid]: hi = mid
    else: lo = mid + 1
return lo
```
`fuel` bounds the number of iterations (`hi - lo` strictly decreases, so `hi - lo` iterations suffice,
see `MpProofs.CalcLogicB.bisectLoop_spec`).  `a[mid]` out of range cannot happen for `hi ≤ len a`; the
model then returns `lo`. -/
def bisectLoop {X : Type} [LT X] [DecidableLT X] (a : List X) (x : X) : Nat → Nat → Nat → Nat
  | 0, lo, _ => lo
  | fuel + 1, lo, hi =>
    if lo < hi then
      let mid := (lo + hi) / 2
      match a[mid]? with
      | some v => if x < v then bisectLoop a x fuel lo mid else bisectLoop a x fuel (mid + 1) hi
      | none => lo
    else lo

/-- Python `bisect(a, x)` = `bisect_right(a, x, 0, len(a))`. -/
def bisectRight {X : Type} [LT X] [DecidableLT X] (a : List X) (x : X) : Nat :=
  bisectLoop a x a.length 0 a.length

/-! ## (a) the `odefun` segment store -/

/-- One entry of `series_data`: `(ser, xa, xb)`. -/
abbrev Seg (S X : Type) := S × X × X

/-- The two Python lists closed over by `get_series`. -/
structure Store (S X : Type) where
  /-- `series_boundaries` -/
  boundaries : List X
  /-- `series_data` -/
  data : List (Seg S X)
deriving DecidableEq, Repr

/-- How a call of `get_series` can fail. -/
inductive GsErr
  /-- `raise ValueError` (query left of `x0`) -/
  | valueError
  /-- a Python list index out of range (never happens on reachable stores) -/
  | indexError
  /-- modelling artefact: the `while 1` loop did not finish within the fuel -/
  | outOfFuel
deriving DecidableEq, Repr

/-- Lines 244-246: `ser, xb = ode_taylor(.., x0, y0, ..)`; `series_boundaries = [x0, xb]`;
`series_data = [(ser, x0, xb)]`. -/
def init {S X Y : Type} (step : X → Y → S × X) (x0 : X) (y0 : Y) : Store S X :=
  let r := step x0 y0
  { boundaries := [x0, r.2], data := [(r.1, x0, r.2)] }

/-- One pass of the body of the `while 1` loop (lines 258-265) computing the segment that follows
`(ser, xa, xb)`: `y = mpolyval(ser, xb-xa); xa = xb; ser, xb = ode_taylor(.., xb, y, ..)`. -/
def nextSeg {S X Y : Type} (step : X → Y → S × X) (endval : S → X → X → Y) (sg : Seg S X) : Seg S X :=
  let y := endval sg.1 sg.2.1 sg.2.2
  let r := step sg.2.2 y
  (r.1, sg.2.2, r.2)

/-- The `while 1` loop of `get_series` (lines 257-267).  Each iteration reads `series_data[-1]`, appends
one new boundary and one new segment, and returns the NEW segment as soon as `x <= xb` (note: `<=`).
Returns `.error .outOfFuel` when `fuel` iterations were not enough. -/
def extend {S X Y : Type} [LE X] [DecidableLE X] (step : X → Y → S × X) (endval : S → X → X → Y) :
    Nat → Store S X → X → Except GsErr (Store S X × Seg S X)
  | 0, _, _ => .error .outOfFuel
  | fuel + 1, st, x =>
    match st.data.getLast? with
    | none => .error .indexError
    | some last =>
      let sg := nextSeg step endval last
      let st' : Store S X := { boundaries := st.boundaries ++ [sg.2.2], data := st.data ++ [sg] }
      if x ≤ sg.2.2 then .ok (st', sg) else extend step endval fuel st' x

/-- `get_series(x)` (lines 251-267) as a state transformer: returns the new store and the chosen
`(ser, xa, xb)`.  `x0` is the closure variable of `odefun` (it is also `boundaries[0]`). -/
def getSeries {S X Y : Type} [LT X] [LE X] [DecidableLT X] [DecidableLE X]
    (step : X → Y → S × X) (endval : S → X → X → Y) (x0 : X)
    (fuel : Nat) (st : Store S X) (x : X) : Except GsErr (Store S X × Seg S X) :=
  if x < x0 then .error .valueError
  else
    let n := bisectRight st.boundaries x
    if n < st.boundaries.length then
      match pyIndex st.data ((n : Int) - 1) with
      | some sg => .ok (st, sg)
      | none => .error .indexError
    else extend step endval fuel st x

/-- The data flow of `interpolant(x)` (lines 269-281) without the precision juggling:
`ser, xa, xb = get_series(x); y = mpolyval(ser, x - xa)`; `evalAt ser xa x` stands for that `mpolyval`. -/
def interpolant {S X Y : Type} [LT X] [LE X] [DecidableLT X] [DecidableLE X]
    (step : X → Y → S × X) (endval : S → X → X → Y) (evalAt : S → X → X → Y) (x0 : X)
    (fuel : Nat) (st : Store S X) (x : X) : Except GsErr (Store S X × Y) :=
  match getSeries step endval x0 fuel st x with
  | .error e => .error e
  | .ok (st', sg) => .ok (st', evalAt sg.1 sg.2.1 x)

/-- Run a list of `(fuel, x)` queries from a store, collecting the returned segments; stops at the
first failing query. -/
def runQueries {S X Y : Type} [LT X] [LE X] [DecidableLT X] [DecidableLE X]
    (step : X → Y → S × X) (endval : S → X → X → Y) (x0 : X) :
    Store S X → List (Nat × X) → Except GsErr (Store S X × List (Seg S X))
  | st, [] => .ok (st, [])
  | st, (fuel, x) :: qs =>
    match getSeries step endval x0 fuel st x with
    | .error e => .error e
    | .ok (st', sg) =>
      match runQueries step endval x0 st' qs with
      | .error e => .error e
      | .ok (st'', sgs) => .ok (st'', sg :: sgs)

/-! ## (b) `QuadratureRule.summation`, list logic only -/

/-- The `for i in xrange(len(points)-1)` loop with accumulator `I`:
`a, b = points[i], points[i+1]; if a == b: continue; …; I += results[-1]`. -/
def quadSumAux {X V : Type} [DecidableEq X] [Add V] (rule : X → X → V) : V → List X → V
  | acc, a :: b :: rest => quadSumAux rule (if a = b then acc else acc + rule a b) (b :: rest)
  | acc, _ => acc

/-- First component `I` of `summation(f, points, …)`: starts from `ctx.zero`. -/
def quadSum {X V : Type} [DecidableEq X] [Add V] [Zero V] (rule : X → X → V) (points : List X) : V :=
  quadSumAux rule 0 points

end Calc
end Mp

/-! ## (a') the VALUE returned by `interpolant` (added after the first delivery) -/

namespace Mp
namespace Calc

/-- The value `y` computed by `interpolant(x)` (lines 274-275), store dropped:
`ser, xa, xb = get_series(x); y = mpolyval(ser, x - xa)`, with `evalSeg ser xa x` standing for
`mpolyval(ser, x - xa)`.  (Same as `interpolant … |>.map Prod.snd`.) -/
def interpValue {S X Y : Type} [LT X] [LE X] [DecidableLT X] [DecidableLE X]
    (step : X → Y → S × X) (endval : S → X → X → Y) (evalSeg : S → X → X → Y) (x0 : X)
    (fuel : Nat) (st : Store S X) (x : X) : Except GsErr Y :=
  match getSeries step endval x0 fuel st x with
  | .error e => .error e
  | .ok (_, sg) => .ok (evalSeg sg.1 sg.2.1 x)

end Calc
end Mp
