/-
  MpModel/DrvCache.lean — driver ops for the cache models (`Mp.Cache`).
  Every history op takes the WHOLE request history on one line and answers one item per request:
      L:<item>;<item>;…
  Items are comma separated fields, documented per op below.  `served` field: `c` = from cache,
  `m` = computed (miss), `x` = the memoised computation raised (injected fault), `E<kind>` = the
  cache code itself raised.

  newprec p                         → I:<int(p*1.05+10)>
  newprecs lo hi                    → L:<n_lo>;…;<n_{hi-1}>
  cachesteps lo hi                  → L:cache_prec_steps[lo..hi-1]
  ltkey x prec | atkey n prec       → P:I:<n>,I:<cached_prec>
  cskey x prec                      → I:<n>
  constfinal v prec rnd             → mpf
  memoT k P1 V1 … Pk Vk  p1 f1 p2 f2 …      F given as a table; item = served,value,memo_prec,memo_val
  memoQ num den  p1 f1 …                     F P = floor(num·2^P/den)
  constT k P1 V1 … Pk Vk  p1 r1 f1 …         mpf_<const>(p, r): item = served,mpf,memo_prec
  logint k n1 wp1 v1 … nk wpk vk  n p f …    item = served,value,vprec|N,cachedvalue|N   (entry of n after the step)
  bern k sz_2 sz_4 … sz_2k  n prec rnd fault …   rnd ∈ n f c u d -, fault = -1 | j
                                    item = path,mpf|H|Q|-,m,bin,bin1   (entry of wp after the step, N,N,N if none)
  quad p0  a b deg prec fault …     item = served,deg.prec.a.b.wp,ctxprec,inStd,inTr,inCount
  lu p0  D uc f | S d | L d | R d | P p … item = served,ver.prec|-,lu=ver.prec|N
  memoize  key prec fault …         item = served,key.cprec.posprec|-,cprec|N
  exact  key fault …                item = served
-/
import MpModel.Cache

open Mp Mp.Cache

namespace DrvCache

def parseInt (s : String) : Option Int :=
  if s.startsWith "-" then (s.drop 1).toNat?.map (fun n => -(n : Int))
  else if s.startsWith "+" then (s.drop 1).toNat?.map (fun n => (n : Int))
  else s.toNat?.map (fun n => (n : Int))

def parseRnd (s : String) : Option Rnd :=
  match s with
  | "n" => some .n | "f" => some .f | "c" => some .c | "u" => some .u | "d" => some .d
  | _ => none

def hexStr (n : Nat) : String := String.ofList (Nat.toDigits 16 n)

def showMpf (x : Mpf) : String := s!"{x.sign}:{hexStr x.man}:{x.exp}:{x.bc}"

def showErr : Err → String
  | .zeroDiv => "EZeroDivisionError"
  | .value => "EValueError"
  | .complexResult => "EComplexResult"
  | .notImpl => "ENotImplementedError"
  | .overflow => "EOverflowError"
  | .type => "ETypeError"

def parseInts : List String → Option (List Int)
  | [] => some []
  | x :: xs => do
    let a ← parseInt x
    let r ← parseInts xs
    pure (a :: r)

def lst (items : List String) : String := "L:" ++ String.intercalate ";" items

def optS {α : Type} (f : α → String) : Option α → String
  | some a => f a
  | none => "N"

/-- table lookup; `none` if absent -/
def tbl (t : List (Nat × Int)) (k : Nat) : Option Int := (t.find? (·.1 == k)).map (·.2)

def pairs : List Int → List (Nat × Int)
  | a :: b :: r => (a.toNat, b) :: pairs r
  | _ => []

def triples : List Int → List (Nat × Nat × Int)
  | a :: b :: c :: r => (a.toNat, b.toNat, c) :: triples r
  | _ => []

/-! ### constant_memo -/

def memoItems (F : Nat → Int) (known : Nat → Bool) :
    MemoState → List Int → Option (List String)
  | _, [] => some []
  | s, p :: f :: r =>
    let hit := decide (p ≤ s.memo_prec)
    let (s', res) := memoReq F newprec s p.toNat (f != 0)
    let v := match res with
      | .ok v => (if hit then "c," else "m,") ++ toString v
      | .raised => "x,-"
      | .pyError e => showErr e ++ ",-"
    if s'.memo_prec ≥ 0 ∧ ¬ known s'.memo_prec.toNat then none else
    (memoItems F known s' r).map (fun t => s!"{v},{s'.memo_prec},{optS toString s'.memo_val}" :: t)
  | _, _ => none

def constItems (F : Nat → Int) (known : Nat → Bool) :
    MemoState → List String → Option (List String)
  | _, [] => some []
  | s, p :: rn :: f :: r => do
    let p ← parseInt p
    let rn ← parseRnd rn
    let f ← parseInt f
    let hit := decide (p + 20 ≤ s.memo_prec)
    let (s', res) := mpfConstant F newprec s p.toNat rn (f != 0)
    let v := match res with
      | .ok v => (if hit then "c," else "m,") ++ showMpf v
      | .raised => "x,-"
      | .pyError e => showErr e ++ ",-"
    if s'.memo_prec ≥ 0 ∧ ¬ known s'.memo_prec.toNat then none else
    let t ← constItems F known s' r
    pure (s!"{v},{s'.memo_prec}" :: t)
  | _, _ => none

/-! ### log_int_cache -/

def tbl2 (t : List (Nat × Nat × Int)) (n wp : Nat) : Option Int :=
  (t.find? (fun e => e.1 == n && e.2.1 == wp)).map (·.2.2)

def logIntItems (t : List (Nat × Nat × Int)) : LogIntState → List Int → Option (List String)
  | _, [] => some []
  | s, n :: p :: f :: r =>
    let F := fun n wp => (tbl2 t n wp).getD 0
    let (s', res) := logIntReq F s n.toNat p.toNat (f != 0)
    let missing := match res with
      | .ok (.computed, _) => (tbl2 t n.toNat (p.toNat + 10)).isNone
      | _ => false
    if missing then none else
    let v := match res with
      | .ok (.cache, v) => s!"c,{v}"
      | .ok (.computed, v) => s!"m,{v}"
      | .raised => "x,-"
      | .pyError e => showErr e ++ ",-"
    let st := match s' n.toNat with
      | some (value, vprec) => s!"{vprec},{value}"
      | none => "N,N"
    (logIntItems t s' r).map (fun tl => s!"{v},{st}" :: tl)
  | _, _ => none

/-! ### bernoulli_cache -/

def pathName : BernPath → String
  | .small => "small" | .odd => "odd" | .frac => "frac" | .huge => "huge"
  | .cachedRaw => "cachedRaw" | .cachedPos => "cachedPos" | .computed => "computed"

def bernEnv (sz : List Int) : BernEnv where
  body := bernBodyReal (fun m => sz.getD (m / 2 - 1) 0)
  huge := fun _ _ _ => fnan
  useFrac := fun _ _ => false        -- the driver is only used below BERNOULLI_PREC_CUTOFF
  frac := fun _ _ _ => fnan

def bernItems (env : BernEnv) : BernState → List String → Option (List String)
  | _, [] => some []
  | s, n :: p :: rn :: f :: r => do
    let n ← parseInt n
    let p ← parseInt p
    let rn : Option Rnd ← (if rn == "-" then some none else (parseRnd rn).map some)
    let f ← parseInt f
    let fault : Option Nat := if f < 0 then none else some f.toNat
    let (s', res) := bernReq env s n.toNat p.toNat rn fault
    let v := match res with
      | .ok (.huge, _) => "huge,H"
      | .ok (.frac, _) => "frac,Q"
      | .ok (pth, v) => pathName pth ++ "," ++ showMpf v
      | .raised => "x,-"
      | .pyError e => showErr e ++ ",-"
    let st := match s' (bernWp p.toNat) with
      | some e => s!"{e.m},{e.bin},{e.bin1}"
      | none => "N,N,N"
    let t ← bernItems env s' r
    pure (s!"{v},{st}" :: t)
  | _, _ => none

/-! ### quadrature nodes: free ("tagging") instance -/

def showTag (l : List Int) : String := String.intercalate "." (l.map toString)

def quadItems : QuadState Int (List Int) → List Int → Option (List String)
  | _, [] => some []
  | s, a :: b :: d :: p :: f :: r =>
    let fault : Option Nat := if f < 0 then none else some f.toNat
    let (s', res) := quadReq (fun d p => [(d : Int), (p : Int)])
      (fun nodes a b wp => nodes ++ [a, b, (wp : Int)]) s a b d.toNat p.toNat fault
    let v := match res with
      | .ok (.transformedCache, t) => "t," ++ showTag t
      | .ok (.standardCache, t) => "s," ++ showTag t
      | .ok (.computed, t) => "m," ++ showTag t
      | .raised => "x,-"
      | .pyError e => showErr e ++ ",-"
    let key := (a, b, d.toNat, p.toNat)
    let b2s (b : Bool) := if b then "1" else "0"
    let st := s!"{s'.ctxPrec},{b2s (s'.standard (d.toNat, p.toNat)).isSome},{b2s (s'.transformed key).isSome},{b2s (s'.count key).isSome}"
    (quadItems s' r).map (fun t => s!"{v},{st}" :: t)
  | _, _ => none

/-! ### matrix LU: free instance; contents = version number, versions ≥ 1000 are singular -/

def luItems : LUState Nat (Nat × Nat) → List String → Option (List String)
  | _, [] => some []
  | s, "D" :: uc :: f :: r => do
    let (s', res) := luStep (fun d p => if d ≥ 1000 then none else some (d, p)) s (.decomp (uc == "1") (f == "1"))
    let v := match res with
      | some (.ok (.cache, (d, p))) => s!"c,{d}.{p}"
      | some (.ok (.computed, (d, p))) => s!"m,{d}.{p}"
      | some .raised => "x,-"
      | _ => "?,-"
    let st := match s'.lu with | some (d, p) => s!"{d}.{p}" | none => "N"
    let t ← luItems s' r
    pure (s!"{v},{st}" :: t)
  | s, op :: d :: r => do
    let d ← d.toNat?
    let o : LUOp Nat ← (match op with
      | "S" => some (.setItem d) | "L" => some (.setSlice d) | "R" => some (.resize d) | "P" => some (.setPrec d) | _ => none)
    let (s', _) := luStep (fun d p => if d ≥ 1000 then none else some (d, p)) s o
    let st := match s'.lu with | some (d, p) => s!"{d}.{p}" | none => "N"
    let t ← luItems s' r
    pure (s!"-,-,{st}" :: t)
  | _, _ => none

/-! ### memoize: free instance -/

def memoizeItems : MemoizeState Int (Int × Nat × Option Nat) → List Int → Option (List String)
  | _, [] => some []
  | s, k :: p :: f :: r =>
    let (s', res) := memoizeReq (fun k p => (k, p, none)) (fun v q => (v.1, v.2.1, some q)) s k p.toNat (f != 0)
    let sh (v : Int × Nat × Option Nat) := s!"{v.1}.{v.2.1}.{optS toString v.2.2}"
    let v := match res with
      | .ok (.cache, v) => "c," ++ sh v
      | .ok (.computed, v) => "m," ++ sh v
      | .raised => "x,-"
      | .pyError e => showErr e ++ ",-"
    let st := match s' k with | some (cp, _) => toString cp | none => "N"
    (memoizeItems s' r).map (fun t => s!"{v},{st}" :: t)
  | _, _ => none

def exactItems : FMap Int Int → List Int → Option (List String)
  | _, [] => some []
  | s, k :: f :: r =>
    let (s', res) := exactReq (fun k => k) s k (f != 0)
    let v := match res with
      | .ok (.cache, _) => "c"
      | .ok (.computed, _) => "m"
      | .raised => "x"
      | .pyError e => showErr e
    (exactItems s' r).map (fun t => v :: t)
  | _, _ => none

def answer (toks : List String) : Option String :=
  match toks with
  | ["newprec", p] => do pure s!"I:{newprec (← p.toNat?)}"
  | ["newprecs", lo, hi] => do
    let lo ← lo.toNat?
    let hi ← hi.toNat?
    pure (lst ((List.range (hi - lo)).map (fun i => toString (newprec (lo + i)))))
  | ["cachesteps", lo, hi] => do
    let lo ← lo.toNat?
    let hi ← hi.toNat?
    pure (lst ((List.range (hi - lo)).map (fun i => toString (cachePrecSteps (lo + i)))))
  | ["ltkey", x, p] => do
    let k := logTaylorKey (← x.toNat?) (← p.toNat?)
    pure s!"P:I:{k.1},I:{k.2}"
  | ["atkey", n, p] => do
    let k := atanTaylorKey (← n.toNat?) (← p.toNat?)
    pure s!"P:I:{k.1},I:{k.2}"
  | ["cskey", x, p] => do pure s!"I:{cosSinKey (← x.toNat?) (← p.toNat?)}"
  | ["constfinal", v, p, r] => do
    pure (showMpf (constFinal (← v.toNat?) (← p.toNat?) (← parseRnd r)))
  | "memoT" :: k :: rest => do
    let k ← k.toNat?
    let t := pairs (← parseInts (rest.take (2*k)))
    let h ← parseInts (rest.drop (2*k))
    match memoItems (fun P => (tbl t P).getD 0) (fun P => (tbl t P).isSome) memoInit h with
    | some items => pure (lst items)
    | none => pure "?:missing-or-malformed"
  | "memoQ" :: num :: den :: rest => do
    let num ← parseInt num
    let den ← parseInt den
    let h ← parseInts rest
    match memoItems (fun P => Int.fdiv (num * ((2 ^ P : Nat) : Int)) den) (fun _ => true) memoInit h with
    | some items => pure (lst items)
    | none => pure "?:malformed"
  | "constT" :: k :: rest => do
    let k ← k.toNat?
    let t := pairs (← parseInts (rest.take (2*k)))
    match constItems (fun P => (tbl t P).getD 0) (fun P => (tbl t P).isSome) memoInit (rest.drop (2*k)) with
    | some items => pure (lst items)
    | none => pure "?:missing-or-malformed"
  | "logint" :: k :: rest => do
    let k ← k.toNat?
    let t := triples (← parseInts (rest.take (3*k)))
    let h ← parseInts (rest.drop (3*k))
    match logIntItems t FMap.empty h with
    | some items => pure (lst items)
    | none => pure "?:missing-or-malformed"
  | "bern" :: k :: rest => do
    let k ← k.toNat?
    let sz ← parseInts (rest.take k)
    match bernItems (bernEnv sz) FMap.empty (rest.drop k) with
    | some items => pure (lst items)
    | none => pure "?:malformed"
  | "quad" :: p0 :: rest => do
    let p0 ← p0.toNat?
    let h ← parseInts rest
    match quadItems (quadInit p0) h with
    | some items => pure (lst items)
    | none => pure "?:malformed"
  | "lu" :: p0 :: rest => do
    let p0 ← p0.toNat?
    match luItems ⟨0, none, p0⟩ rest with
    | some items => pure (lst items)
    | none => pure "?:malformed"
  | "memoize" :: rest => do
    let h ← parseInts rest
    match memoizeItems FMap.empty h with
    | some items => pure (lst items)
    | none => pure "?:malformed"
  | "exact" :: rest => do
    let h ← parseInts rest
    match exactItems FMap.empty h with
    | some items => pure (lst items)
    | none => pure "?:malformed"
  | _ => none

end DrvCache
