/-
  MpModel/Hash.lean — (1) a specification of CPython's hash of numeric types, transcribed from the
  Python documentation (Library Reference, "Built-in Types", section "Hashing of numeric types",
  and Data model, `object.__hash__`), and (2) executable models of `mpc_hash_old`
  (mpmath/libmp/libmpc.py), `mpq.__hash__` (mpmath/rational.py) and of the proposed repair.

  `mpf_hash_raw` itself is modelled in MpModel/Core.lean.

  Core Lean only (no Mathlib).  CPython parameters are those of every 64-bit build
  (`sys.hash_info`: width = 64, modulus = 2^61 - 1, inf = 314159, nan = 0, imag = 1000003).
-/
import MpModel.Core

namespace Mp

/-! ## Part 1 — the documented algorithm (specification) -/

/-- `sys.hash_info.modulus` : the Mersenne prime P = 2^61 - 1 -/
def pyP : Nat := 2^61 - 1
/-- `sys.hash_info.inf` -/
def pyHashInf : Int := 314159
/-- `sys.hash_info.imag` -/
def pyHashImag : Int := 1000003
/-- `sys.hash_info.width` -/
def pyHashWidth : Nat := 64

/-- "-1 is reserved": every hash value -1 is replaced by -2. -/
def fixM1 (h : Int) : Int := if h = -1 then -2 else h

/-- binary exponentiation loop of `pow(b, e, m)`; invariant: result = acc * b^e mod m. -/
def powModAux : Nat → Nat → Nat → Nat → Nat → Nat
  | 0, acc, _, _, _ => acc
  | fuel+1, acc, b, e, m =>
    if e = 0 then acc
    else powModAux fuel (if e % 2 = 1 then acc * b % m else acc) (b * b % m) (e / 2) m

/-- Python's three-argument `pow(b, e, m)` for `e ≥ 0`, `m > 0` (proved equal to `b^e % m`
in MpProofs/Hash.lean: `powMod_eq`). -/
def powMod (b e m : Nat) : Nat := powModAux (e.log2 + 1) (1 % m) b e m

/-- hash of a non-negative Python int. -/
def pyHashNat (n : Nat) : Nat := n % pyP

/-- `hash(n)` for a Python int: `hash(-n) = -hash(n)`, then -1 ↦ -2. -/
def pyHashInt (n : Int) : Int :=
  fixM1 (if n < 0 then -(pyHashNat n.natAbs : Int) else (pyHashNat n.natAbs : Int))

/-- The documentation's `hash_fraction(m, n)` for a rational `m / n`, `n > 0`, where `m` and `n`
are not both divisible by P (so that the documentation's "remove common factors of P" loop is
the identity — true in particular of every fraction in lowest terms, and of every `n = 2^k`):

    if n % P == 0:  hash_value = sys.hash_info.inf
    else:           hash_value = (abs(m) % P) * pow(n, P - 2, P) % P
    if m < 0:       hash_value = -hash_value
    if hash_value == -1: hash_value = -2
-/
def pyHashFraction (m : Int) (n : Nat) : Int :=
  let h : Int :=
    if n % pyP = 0 then pyHashInf
    else (((m.natAbs % pyP) * powMod n (pyP - 2) pyP % pyP : Nat) : Int)
  let h := if m < 0 then -h else h
  fixM1 h

/-- the documented hash of the rational number `(-1)^sign · man · 2^exp`
(`sign ≠ 0` means negative, as everywhere in mpmath):
the fraction `± man·2^exp / 1` for `exp ≥ 0` and `± man / 2^(-exp)` for `exp < 0`. -/
def pyHashDyadic (sign man : Nat) (exp : Int) : Int :=
  let m : Int := if sign ≠ 0 then -(man : Int) else (man : Int)
  if exp ≥ 0 then pyHashFraction (m * ((2 ^ exp.toNat : Nat) : Int)) 1
  else pyHashFraction m (2 ^ (-exp).toNat)

/-- `hash(x)` for a finite Python float `x = (-1)^sign · man · 2^exp` (documentation:
`hash_float(x) = hash_fraction(*x.as_integer_ratio())`; that the unreduced fraction has the same
hash is `pyHashDyadic_congr` in MpProofs/Hash.lean, and the harness checks it on CPython). -/
def pyHashFloatOfDyadic (sign man : Nat) (exp : Int) : Int := pyHashDyadic sign man exp

/-- The documentation's `hash_complex(z)`, as a function of the two component hashes
`hre = hash_float(z.real)`, `him = hash_float(z.imag)`:

    hash_value = hre + sys.hash_info.imag * him
    M = 2**(sys.hash_info.width - 1)
    hash_value = (hash_value & (M - 1)) - (hash_value & M)      # signed reduction mod 2^64
    if hash_value == -1: hash_value = -2

For a Python int `v` and `M = 2^63`: `v & (M-1) = v mod M` and `v & M = M` iff `⌊v / M⌋` is odd
(floor operations, two's complement). -/
def pyHashComplex (hre him : Int) : Int :=
  let v := hre + pyHashImag * him
  let M : Int := 2 ^ (pyHashWidth - 1)
  let w := v % M - (if (v / M) % 2 = 1 then M else 0)
  fixM1 w

/-- What the builtin `hash(obj)` does with the Python int `h` returned by a user-defined
`obj.__hash__()` (CPython `slot_tp_hash`; Data model: "`hash()` truncates the value returned from
an object's custom `__hash__()` method to the size of a `Py_ssize_t`"): a value inside the
`Py_ssize_t` range is kept, any other value is replaced by its own `int` hash; then -1 ↦ -2. -/
def finalHash (h : Int) : Int :=
  let h := if -(2 ^ (pyHashWidth - 1) : Int) ≤ h ∧ h < (2 ^ (pyHashWidth - 1) : Int) then h else pyHashInt h
  fixM1 h

/-! ## Part 2 — models of the mpmath code -/

/-- `sys.hash_info.imag` as used by libmpc -/
def HASH_IMAG : Int := 1000003
/-- `sys.hash_info.width` as used by libmpc -/
def HASH_WIDTH : Nat := 64

/-- `mpc_hash_old(z)` with `z = (re, im)` (the Python ≥ 3.2 branch):

    h = mpf_hash_raw(re) + sys.hash_info.imag * mpf_hash_raw(im)
    h = h % (2**sys.hash_info.width)
    return int(h)
-/
def mpc_hash_old (re im : Mpf) : Int :=
  let h := mpf_hash_raw re + HASH_IMAG * mpf_hash_raw im
  h % ((2 ^ HASH_WIDTH : Nat) : Int)

/-- `mpq.__hash__` for `s._mpq_ = (a, b)`, `b > 0` (the Python ≥ 3.2 branch):

    inverse = pow(b, HASH_MODULUS-2, HASH_MODULUS)
    if not inverse: h = sys.hash_info.inf
    else: h = (abs(a) * inverse) % HASH_MODULUS
    if a < 0: h = -h
    if h == -1: h = -2
-/
def mpq_hash (a : Int) (b : Nat) : Int :=
  let inverse := powMod b (HASH_MODULUS - 2) HASH_MODULUS
  let h : Int := if inverse = 0 then HASH_INF else ((a.natAbs * inverse % HASH_MODULUS : Nat) : Int)
  let h := if a < 0 then -h else h
  if h = -1 then -2 else h

/-! ## Part 3 — `mpc_hash` as it is in /repo after the repair of defect D2 (commit 885c10d);
`mpc_hash_old` above is the function before the repair, kept for the counterexample theorems -/

/-- `mpc_hash(z)`: component hashes from `mpf_hash`, signed reduction
modulo 2^width exactly as documented for `complex`, and -1 ↦ -2:

    h = mpf_hash_raw(re) + sys.hash_info.imag * mpf_hash_raw(im)
    M = 2**(sys.hash_info.width - 1)
    h = (h & (M - 1)) - (h & M)
    if h == -1: h = -2
    return int(h)
-/
def mpc_hash (re im : Mpf) : Int :=
  let h := mpf_hash re + HASH_IMAG * mpf_hash im
  let M : Int := ((2 ^ (HASH_WIDTH - 1) : Nat) : Int)
  let h := h % M - (if (h / M) % 2 = 1 then M else 0)
  if h = -1 then -2 else h

end Mp
