/-
  MpModel/DrvCalcRef.lean — driver ops for the closed-form references (C26, C27, C28, C34, C36).

  rationals are tokens `n` or `n/d` (decimal, optional sign); dyadics are two integer tokens `m e`.
  families (prefix notation, see `parseFam`):
      poly <k> c1 n1 … ck nk | expL c | sinL c | cosL c | xexp c | expcos a b | expsin a b | lorentz | recip c
  reference expressions (prefix): q <rat> | pi | add X Y | mul X Y | neg X | inv X | pow <n> X | sqrt X | exp X |
      log X | sin X | cos X | atan X

    refencl <wp> <Ref…>                                    →  P:lo_m,lo_e,hi_m,hi_e | N:
    refclose <fl> <strict 0|1> <p> <k> <ym> <ye> <Ref…>     →  ok | violates | undecided
    quadfin <dim> <c> {<Fam…> <a> <b>}^dim <ym> <ye> <p> <k> →  verdict | N:   (C26 finite, separable, fl=1 strict)
    quadinf <gammaN n | expDecay c a | gaussFull b | gaussHalf b> <ym> <ye> <p> <k>  →  verdict | N:
    famval <fl> <strict> <Fam…> <x> <ym> <ye> <p> <k>       →  verdict      (|y − f(x)|, x rational)
    famderiv <fl> <strict> <Fam…> <n> <x> <div> <ym> <ye> <p> <k>   →  verdict | N:  (f^(n)(x)/div; div = n! for Taylor)
-/
import MpModel.CalcRef
import MpModel.CalcSer
import MpModel.CalcLogicA
import MpModel.CalcDiff
import MpModel.CalcOde
import MpModel.DrvEncl

namespace DrvCalcRef
open Mp.Encl Mp.Calc

def parseInt := DrvEncl.parseInt

def parseRat (s : String) : Option Rat :=
  match s.splitOn "/" with
  | [n] => (parseInt n).map fun n => (n : Rat)
  | [n, d] => do
    let n ← parseInt n
    let d ← d.toNat?
    if d = 0 then none else pure (mkRat n d)
  | _ => none

def showV := DrvEncl.showV

abbrev P (α : Type) := List String → Option (α × List String)

def pRat : P Rat
  | t :: ts => (parseRat t).map fun q => (q, ts)
  | [] => none

def pNat : P Nat
  | t :: ts => t.toNat?.map fun n => (n, ts)
  | [] => none

def pInt : P Int
  | t :: ts => (parseInt t).map fun n => (n, ts)
  | [] => none

def pTerms : Nat → P (List (Rat × Nat))
  | 0 => fun ts => some ([], ts)
  | k + 1 => fun ts => do
    let (c, ts) ← pRat ts
    let (n, ts) ← pNat ts
    let (rest, ts) ← pTerms k ts
    pure ((c, n) :: rest, ts)

def parseFam : P Fam
  | "poly" :: ts => do
    let (k, ts) ← pNat ts
    let (l, ts) ← pTerms k ts
    pure (.poly l, ts)
  | "expL" :: ts => do let (c, ts) ← pRat ts; pure (.expL c, ts)
  | "sinL" :: ts => do let (c, ts) ← pRat ts; pure (.sinL c, ts)
  | "cosL" :: ts => do let (c, ts) ← pRat ts; pure (.cosL c, ts)
  | "xexp" :: ts => do let (c, ts) ← pRat ts; pure (.xexp c, ts)
  | "expcos" :: ts => do let (a, ts) ← pRat ts; let (b, ts) ← pRat ts; pure (.expcos a b, ts)
  | "expsin" :: ts => do let (a, ts) ← pRat ts; let (b, ts) ← pRat ts; pure (.expsin a b, ts)
  | "lorentz" :: ts => pure (.lorentz, ts)
  | "recip" :: ts => do let (c, ts) ← pRat ts; pure (.recip c, ts)
  | _ => none

/-- prefix parser for reference expressions; `fuel` bounds the number of tokens consumed -/
def parseRef : Nat → P Ref
  | 0 => fun _ => none
  | fuel + 1 => fun toks =>
    match toks with
    | "q" :: ts => do let (q, ts) ← pRat ts; pure (.rat q, ts)
    | "pi" :: ts => pure (.pi, ts)
    | "add" :: ts => do
      let (a, ts) ← parseRef fuel ts
      let (b, ts) ← parseRef fuel ts
      pure (.add a b, ts)
    | "mul" :: ts => do
      let (a, ts) ← parseRef fuel ts
      let (b, ts) ← parseRef fuel ts
      pure (.mul a b, ts)
    | "neg" :: ts => do let (a, ts) ← parseRef fuel ts; pure (.neg a, ts)
    | "inv" :: ts => do let (a, ts) ← parseRef fuel ts; pure (.inv a, ts)
    | "pow" :: ts => do
      let (n, ts) ← pNat ts
      let (a, ts) ← parseRef fuel ts
      pure (.pow a n, ts)
    | "sqrt" :: ts => do let (a, ts) ← parseRef fuel ts; pure (.sqrt a, ts)
    | "exp" :: ts => do let (a, ts) ← parseRef fuel ts; pure (.exp a, ts)
    | "log" :: ts => do let (a, ts) ← parseRef fuel ts; pure (.log a, ts)
    | "sin" :: ts => do let (a, ts) ← parseRef fuel ts; pure (.sin a, ts)
    | "cos" :: ts => do let (a, ts) ← parseRef fuel ts; pure (.cos a, ts)
    | "atan" :: ts => do let (a, ts) ← parseRef fuel ts; pure (.atan a, ts)
    | _ => none

def pFactors : Nat → P (List Factor)
  | 0 => fun ts => some ([], ts)
  | k + 1 => fun ts => do
    let (f, ts) ← parseFam ts
    let (a, ts) ← pRat ts
    let (b, ts) ← pRat ts
    let (rest, ts) ← pFactors k ts
    pure (⟨f, a, b⟩ :: rest, ts)

def parseFamInf : P FamInf
  | "gammaN" :: ts => do let (n, ts) ← pNat ts; pure (.gammaN n, ts)
  | "expDecay" :: ts => do let (c, ts) ← pRat ts; let (a, ts) ← pRat ts; pure (.expDecay c a, ts)
  | "gaussFull" :: ts => do let (b, ts) ← pRat ts; pure (.gaussFull b, ts)
  | "gaussHalf" :: ts => do let (b, ts) ← pRat ts; pure (.gaussHalf b, ts)
  | _ => none

def parseSer : P Ser
  | "geom" :: ts => do
    let (c, ts) ← pRat ts; let (r, ts) ← pRat ts; let (k0, ts) ← pNat ts; pure (.geom c r k0, ts)
  | "zeta2" :: ts => pure (.zeta2, ts)
  | "zeta4" :: ts => pure (.zeta4, ts)
  | "tele" :: ts => do let (a, ts) ← pNat ts; pure (.tele a, ts)
  | "expS" :: ts => do let (x, ts) ← pRat ts; pure (.expS x, ts)
  | "sinS" :: ts => do let (x, ts) ← pRat ts; pure (.sinS x, ts)
  | "cosS" :: ts => do let (x, ts) ← pRat ts; pure (.cosS x, ts)
  | "logS" :: ts => do let (x, ts) ← pRat ts; pure (.logS x, ts)
  | "leibniz" :: ts => pure (.leibniz, ts)
  | _ => none

def parsePrd : P Prd
  | "tele1" :: ts => pure (.tele1, ts)
  | "tele2" :: ts => pure (.tele2, ts)
  | "ratio" :: ts => do let (a, ts) ← pNat ts; let (b, ts) ← pNat ts; pure (.ratio a b, ts)
  | _ => none

def parseLim : P Lim
  | "ratSeq" :: ts => do
    let (a, ts) ← pRat ts; let (b, ts) ← pRat ts; let (c, ts) ← pRat ts; let (d, ts) ← pRat ts
    pure (.ratSeq a b c d, ts)
  | "euler" :: ts => do let (t, ts) ← pRat ts; pure (.euler t, ts)
  | "slopeExp" :: ts => do let (c, ts) ← pRat ts; pure (.slopeExp c, ts)
  | "slopeSin" :: ts => do let (c, ts) ← pRat ts; pure (.slopeSin c, ts)
  | _ => none

/-- a composite sum: `inf <Ser>` (the infinite sum) | `fin <Ser> a b` (exact finite partial sum) | `add X Y` | `mul X Y` | `sub X Y` -/
def parseSumOperand : Nat → P (Option Ref)
  | 0 => fun _ => none
  | fuel + 1 => fun toks =>
    match toks with
    | "inf" :: ts => do let (s, ts) ← parseSer ts; pure (s.sumRef, ts)
    | "fin" :: ts => do
      let (s, ts) ← parseSer ts; let (a, ts) ← pNat ts; let (b, ts) ← pNat ts
      pure (some (.rat (s.partial a b)), ts)
    | "add" :: ts => do
      let (a, ts) ← parseSumOperand fuel ts
      let (b, ts) ← parseSumOperand fuel ts
      pure ((do let a ← a; let b ← b; pure (Ref.add a b)), ts)
    | "mul" :: ts => do
      let (a, ts) ← parseSumOperand fuel ts
      let (b, ts) ← parseSumOperand fuel ts
      pure ((do let a ← a; let b ← b; pure (Ref.mul a b)), ts)
    | "sub" :: ts => do
      let (a, ts) ← parseSumOperand fuel ts
      let (b, ts) ← parseSumOperand fuel ts
      pure ((do let a ← a; let b ← b; pure (Ref.sub a b)), ts)
    | _ => none

/-- `count` blocks `<Fam…> <n> <x> <div>` → product of `f^(n)(x)/div` -/
def pDerivs : Nat → P (Option Ref)
  | 0 => fun ts => some (some (.rat 1), ts)
  | k + 1 => fun ts => do
    let (f, ts) ← parseFam ts
    let (n, ts) ← pNat ts
    let (x, ts) ← pRat ts
    let (dv, ts) ← pRat ts
    if dv = 0 then none else
    let (rest, ts) ← pDerivs k ts
    pure ((do let r ← f.derivRef n (.rat x); let rs ← rest; pure (Ref.mul (.mul r (.rat (1 / dv))) rs)), ts)

/-- `<n> q1 … qn` -/
def pRatList : P (List Rat)
  | t :: ts => do
    let n ← t.toNat?
    if ts.length < n then none else
    let qs ← (ts.take n).mapM parseRat
    pure (qs, ts.drop n)
  | [] => none

def parseOde : P Ode
  | "lin" :: ts => do let (a, ts) ← pRat ts; let (x0, ts) ← pRat ts; let (y0, ts) ← pRat ts; pure (.lin a x0 y0, ts)
  | "osc" :: ts => do
    let (w, ts) ← pRat ts; let (x0, ts) ← pRat ts; let (c0, ts) ← pRat ts; let (s0, ts) ← pRat ts
    pure (.osc w x0 c0 s0, ts)
  | "riccati" :: ts => do let (x0, ts) ← pRat ts; let (y0, ts) ← pRat ts; pure (.riccati x0 y0, ts)
  | _ => none

def showRat (q : Rat) : String := s!"Q:{q.num}/{q.den}"

/-- trailing `<ym> <ye> <p> <k>` -/
def pTail (ts : List String) : Option (Dy × Nat × Nat) :=
  match ts with
  | [ym, ye, p, k] => do
    let ym ← parseInt ym
    let ye ← parseInt ye
    let p ← p.toNat?
    let k ← k.toNat?
    pure (⟨ym, ye⟩, p, k)
  | _ => none

def pBool : P Bool
  | "0" :: ts => some (false, ts)
  | "1" :: ts => some (true, ts)
  | _ => none

def showDI := DrvEncl.showDI

def answer (toks : List String) : Option String :=
  match toks with
  | "refencl" :: wp :: ts => do
    let wp ← wp.toNat?
    let (r, rest) ← parseRef (ts.length + 1) ts
    if rest ≠ [] then none else
    match r.eval wp with
    | some I => pure (showDI I)
    | none => pure "N:"
  | "refclose" :: fl :: st :: p :: k :: ym :: ye :: ts => do
    let fl ← parseRat fl
    let (st, _) ← pBool [st]
    let p ← p.toNat?
    let k ← k.toNat?
    let ym ← parseInt ym
    let ye ← parseInt ye
    let (r, rest) ← parseRef (ts.length + 1) ts
    if rest ≠ [] then none else
    pure (showV (checkClose r ⟨ym, ye⟩ p k fl st))
  | "quadfin" :: dim :: c :: ts => do
    let dim ← dim.toNat?
    let c ← parseRat c
    let (fs, ts) ← pFactors dim ts
    let (y, p, k) ← pTail ts
    match sepIntegralRef c fs with
    | some r => pure (showV (checkClose r y p k 1 true))
    | none => pure "N:"
  | "quadinf" :: ts => do
    let (f, ts) ← parseFamInf ts
    let (y, p, k) ← pTail ts
    match f.integralRef with
    | some r => pure (showV (checkClose r y p k 1 true))
    | none => pure "N:"
  | "famval" :: fl :: st :: ts => do
    let fl ← parseRat fl
    let (st, _) ← pBool [st]
    let (f, ts) ← parseFam ts
    let (x, ts) ← pRat ts
    let (y, p, k) ← pTail ts
    pure (showV (checkClose (f.valRef (.rat x)) y p k fl st))
  | "famderiv" :: fl :: st :: ts => do
    let fl ← parseRat fl
    let (st, _) ← pBool [st]
    let (f, ts) ← parseFam ts
    let (n, ts) ← pNat ts
    let (x, ts) ← pRat ts
    let (dv, ts) ← pRat ts
    let (y, p, k) ← pTail ts
    if dv = 0 then none else
    match f.derivRef n (.rat x) with
    | some r => pure (showV (checkClose (.mul r (.rat (1 / dv))) y p k fl st))
    | none => pure "N:"
  -- C27
  | "serterm" :: ts => do
    let (s, ts) ← parseSer ts
    let (k, ts) ← pNat ts
    if ts ≠ [] then none else pure (showRat (s.termQ k))
  | "prdterm" :: ts => do
    let (s, ts) ← parsePrd ts
    let (k, ts) ← pNat ts
    if ts ≠ [] then none else pure (showRat (s.factorQ k))
  | "sersum" :: ts => do
    let (r, ts) ← parseSumOperand (ts.length + 1) ts
    let (y, p, k) ← pTail ts
    match r with
    | some r => pure (showV (checkClose r y p k 0 false))
    | none => pure "N:"
  | "prdinf" :: ts => do
    let (s, ts) ← parsePrd ts
    let (y, p, k) ← pTail ts
    match s.prodRef with
    | some r => pure (showV (checkClose r y p k 0 false))
    | none => pure "N:"
  | "prdfin" :: ts => do
    let (s, ts) ← parsePrd ts
    let (a, ts) ← pNat ts
    let (b, ts) ← pNat ts
    let (y, p, k) ← pTail ts
    pure (showV (checkClose (.rat (s.partial a b)) y p k 0 false))
  -- C28
  | "famderivs" :: fl :: st :: cnt :: ts => do
    let fl ← parseRat fl
    let (st, _) ← pBool [st]
    let cnt ← cnt.toNat?
    let (r, ts) ← pDerivs cnt ts
    let (y, p, k) ← pTail ts
    match r with
    | some r => pure (showV (checkClose r y p k fl st))
    | none => pure "N:"
  | "padecheck" :: L :: M :: pr :: ts => do
    let L ← L.toNat?
    let M ← M.toNat?
    let pr ← pr.toNat?
    let (a, ts) ← pRatList ts
    let (p, ts) ← pRatList ts
    let (q, ts) ← pRatList ts
    if ts ≠ [] then none else
    let t : Rat := (1024 : Rat) / ((2 : Rat) ^ pr)
    pure (if padeCheck a p q L M t then "B:1" else "B:0")
  | "differint" :: kk :: n :: x :: ts => do
    let kk ← kk.toNat?
    let n ← parseInt n
    let x ← parseRat x
    let (y, p, k) ← pTail ts
    match differintRef kk n (.rat x) with
    | some r => pure (showV (checkClose r y p k 1 true))
    | none => pure "N:"
  -- C34
  | "odeval" :: ts => do
    let (o, ts) ← parseOde ts
    let (i, ts) ← pNat ts
    let (x, ts) ← pRat ts
    let (y, p, k) ← pTail ts
    match o.solRef i x with
    | some r => pure (showV (checkClose r y p k 1 false))
    | none => pure "N:"
  -- C36
  | "famabs" :: ts => do
    let (f, ts) ← parseFam ts
    let (x, ts) ← pRat ts
    match ts with
    | [ym, ye, e] =>
      let ym ← parseInt ym
      let ye ← parseInt ye
      let e ← parseRat e
      pure (showV (checkCloseTo (f.valRef (.rat x)) (.rat 0) ⟨ym, ye⟩ 0 0 e false))
    | _ => none
  | "famvalto" :: fl :: st :: ts => do
    let fl ← parseRat fl
    let (st, _) ← pBool [st]
    let (f, ts) ← parseFam ts
    let (x, ts) ← pRat ts
    let (sc, ts) ← pRat ts
    let (y, p, k) ← pTail ts
    pure (showV (checkCloseTo (f.valRef (.rat x)) (.rat sc) y p k fl st))
  | "fourierval" :: ts => do
    let (cs, ts) ← pRatList ts
    let (ss, ts) ← pRatList ts
    let (a, ts) ← pRat ts
    let (b, ts) ← pRat ts
    let (x, ts) ← pRat ts
    let (fl, ts) ← pRat ts
    let (y, p, k) ← pTail ts
    match fourierRef cs ss a b x with
    | some r => pure (showV (checkClose r y p k fl false))
    | none => pure "N:"
  | "chebcheck" :: ts => do
    let (d, ts) ← pRatList ts
    let (c, ts) ← pRatList ts
    let (M, ts) ← pRat ts
    let (p, ts) ← pNat ts
    let (k, ts) ← pNat ts
    if ts ≠ [] then none else
    let t : Rat := ((2 : Rat) ^ k) / ((2 : Rat) ^ p)
    pure (if polyCoeffDist d c M ≤ t * absHorner c M then "B:1" else "B:0")
  | "refcloseto" :: fl :: st :: p :: k :: ym :: ye :: ts => do
    let fl ← parseRat fl
    let (st, _) ← pBool [st]
    let p ← p.toNat?
    let k ← k.toNat?
    let ym ← parseInt ym
    let ye ← parseInt ye
    let (r, rest) ← parseRef (ts.length + 1) ts
    let (sc, rest) ← parseRef (rest.length + 1) rest
    if rest ≠ [] then none else
    pure (showV (checkCloseTo r sc ⟨ym, ye⟩ p k fl st))
  | "richardson" :: ts => do
    let qs ← ts.mapM parseRat
    match richardson qs with
    | .ok (v, c) => pure s!"{showRat v} {showRat c}"
    | .error e => pure s!"E:{e}"
  | "difference" :: n :: ts => do
    let n ← n.toNat?
    let qs ← ts.mapM parseRat
    if qs.length < n + 1 then pure "E:IndexError" else
    pure (showRat (difference (fun k => qs.getD k 0) n))
  | "limcheck" :: ts => do
    let (l, ts) ← parseLim ts
    let (y, p, k) ← pTail ts
    match l.limRef with
    | some r => pure (showV (checkClose r y p k 0 false))
    | none => pure "N:"
  | _ => none

end DrvCalcRef
