/-
  MpModel/LoopSkel.lean — loop skeletons for property C24 ("function evaluations terminate").

  The translator `tools/loop_extract.py` parses every `while` loop (and every `for` over an unbounded
  iterator) under /repo/mpmath and abstracts it into one `Site` whose `cls : Cls` is one of the loop
  classes below.  Each class has an executable small-step semantics (`Loop`, `Loop.run`) over integers in
  which everything the skeleton does NOT record (the values computed by the rest of the body) is supplied by
  an adversarial environment indexed by the iteration number.  Termination theorems: MpProofs/LoopSkel.lean,
  Props/C24.lean.  Import-free.
-/

namespace Mp
namespace LoopSkel

/-! ### generic loops -/

/-- `while cond(s): s = body_k(s)`; `k` is the iteration number (the environment may differ per iteration). -/
structure Loop (σ : Type) where
  cond : σ → Bool
  body : Nat → σ → σ

variable {σ : Type}

/-- state at the head of the loop after `k` iterations (ignoring the test) -/
def Loop.state (L : Loop σ) (s : σ) : Nat → σ
  | 0 => s
  | k+1 => L.body k (L.state s k)

/-- small-step execution with fuel, starting at iteration number `k` in state `s`:
    `some (iterations, final state)` when the test fails, `none` when the fuel is exhausted first. -/
def Loop.run (L : Loop σ) : Nat → Nat → σ → Option (Nat × σ)
  | 0, k, s => if L.cond s then none else some (k, s)
  | f+1, k, s => if L.cond s then L.run f (k+1) (L.body k s) else some (k, s)

/-- the loop test fails at the head of some iteration `k ≤ N` (so at most `N` bodies are executed) -/
def Loop.ExitsWithin (L : Loop σ) (s : σ) (N : Nat) : Prop :=
  ∃ k, k ≤ N ∧ L.cond (L.state s k) = false

/-- the loop test never fails -/
def Loop.Diverges (L : Loop σ) (s : σ) : Prop :=
  ∀ k, L.cond (L.state s k) = true

/-! ### counter loops -/

/-- `while i < n: …; i += c_k` — the bound `n` is not assigned in the body, every pass adds `inc k`. -/
def counterLoop (n : Int) (inc : Nat → Nat) : Loop Int :=
  ⟨fun i => decide (i < n), fun k i => i + (inc k : Int)⟩

/-- `while n: …; n -= 1` (test is `n != 0`) -/
def countdownLoop : Loop Int :=
  ⟨fun n => n != 0, fun _ n => n - 1⟩

/-- `while n: …; n //= d` (Python floor division; `n >>= s` is `d = 2^s`; the `if n & 1: n -= 1` of binary
    powering in front of `n //= 2` does not change `n // 2`). -/
def divLoop (d : Nat) : Loop Int :=
  ⟨fun n => n != 0, fun _ n => n / (d : Int)⟩

/-- `while not n & (2^s - 1): n >>= s` (strip trailing zero blocks), also `while not n % p: n //= p` -/
def stripLoop (p : Nat) : Loop Nat :=
  ⟨fun n => n % p == 0, fun _ n => n / p⟩

/-- `while b: a, b = b, a % b` (Python `%`: sign of the divisor = `Int.fmod`) -/
def euclidLoop : Loop (Int × Int) :=
  ⟨fun s => s.2 != 0, fun _ s => (s.2, Int.fmod s.1 s.2)⟩

/-! ### fixed-point decay loops -/

/-- one update of the decay variable `v`, in program order -/
inductive DecayOp
  | mulShift      -- v = (v * r) >> p
  | negMulShift   -- v = -((v * r) >> p)
  | floorDiv      -- v //= d
  | neg           -- v = -v
  deriving DecidableEq

/-- `r` multiplier, `d` divisor supplied by the environment for this op -/
def DecayOp.apply (p : Nat) (r d : Int) : DecayOp → Int → Int
  | .mulShift, v => (v * r) >>> p
  | .negMulShift, v => -((v * r) >>> p)
  | .floorDiv, v => v / d
  | .neg, v => -v

/-- apply the body's ops in order; `env j = (r, d)` for the j-th op -/
def applyOps (p : Nat) (env : Nat → Int × Int) : List DecayOp → Nat → Int → Int
  | [], _, v => v
  | op :: ops, j, v => applyOps p env ops (j+1) (op.apply p (env j).1 (env j).2 v)

/-- `while abs(v) > m: <ops>` (`while v:` is `m = 0`); `env k j` = the (multiplier, divisor) seen by op `j`
    in iteration `k`. -/
def decayLoop (p : Nat) (ops : List DecayOp) (m : Nat) (env : Nat → Nat → Int × Int) : Loop Int :=
  ⟨fun v => decide (m < v.natAbs), fun k v => applyOps p (env k) ops 0 v⟩

def DecayOp.isPure : DecayOp → Bool
  | .mulShift => true
  | .floorDiv => true
  | _ => false

/-- environment hypothesis of the decay theorems: multipliers in `[0, 2^b]` with `b < p`, divisors ≥ `dmin` -/
def EnvOK (p b : Nat) (dmin : Int) (env : Nat → Nat → Int × Int) : Prop :=
  ∀ k j, 0 ≤ (env k j).1 ∧ (env k j).1 ≤ 2 ^ b ∧ dmin ≤ (env k j).2

/-- the body of `cos_sin_basecase`: `a //= k; a = (a*x) >> prec; a //= k; a = -((a*x) >> prec)` -/
def cosSinOps : List DecayOp := [.floorDiv, .mulShift, .floorDiv, .negMulShift]

/-! ### Newton precision schedules -/

/-- the loop of `giant_steps(start, target, n)`: state = `L[-1]`;
    `while L[-1] > start*n: L = L + [L[-1]//n + 2]` -/
def giantLoop (start n : Nat) : Loop Nat :=
  ⟨fun x => decide (start * n < x), fun _ x => x / n + 2⟩

/-- `giant_steps` itself with fuel; `none` = fuel exhausted -/
def giantSteps (start n : Nat) : Nat → List Nat → Option (List Nat)
  | _, [] => some []
  | 0, x :: L => if start * n < x then none else some (x :: L)
  | f+1, x :: L => if start * n < x then giantSteps start n f ((x / n + 2) :: x :: L) else some (x :: L)

/-! ### series loops: state = index `k` of the term, `a k` = magnitude of the k-th term (scaled integer) -/

/-- `while 1: …; if k > k0 and |term_k| <= eps: break; k += 1` — exit ONLY on the tolerance test -/
def tolLoop (a : Nat → Nat) (eps k0 : Nat) : Loop Nat :=
  ⟨fun k => !(decide (k0 < k) && decide (a k ≤ eps)), fun _ k => k + 1⟩

/-- `… if k > k0 and (|term_k| <= eps or term_k >= prev): break` (`strict`: `term_k > prev`);
    `eps = none`: there is no tolerance test, only the divergence guard (`mpf_psi0`). -/
def tolOrDivLoop (a : Nat → Nat) (eps : Option Nat) (k0 : Nat) (strict : Bool) : Loop Nat :=
  ⟨fun k => !(decide (k0 < k) &&
      ((match eps with | some e => decide (a k ≤ e) | none => false) ||
       (if strict then decide (a (k-1) < a k) else decide (a (k-1) ≤ a k)))),
   fun _ k => k + 1⟩

/-- tolerance test plus an iteration cap that raises/breaks: `if k > maxit: raise NoConvergence` -/
def boundedLoop (done : Nat → Bool) (maxit : Nat) : Loop Nat :=
  ⟨fun k => !(done k) && decide (k ≤ maxit), fun _ k => k + 1⟩

/-- precision retry loop of `hypsum` / `hypercomb` / `_hurwitz` / `autoprec`:
    `while 1: if e > maxprec: raise; …; if enough_k: break; e = grow e`.  State = (retry number, e). -/
def retryLoop (enough : Nat → Bool) (grow : Nat → Nat) (maxprec : Nat) : Loop (Nat × Nat) :=
  ⟨fun s => decide (s.2 ≤ maxprec) && !(enough s.1), fun _ s => (s.1 + 1, grow s.2)⟩

/-- `hypsum`: `extraprec *= 2; extraprec += 5` -/
def hypsumGrow (e : Nat) : Nat := 2 * e + 5

/-! ### skeleton data emitted by the translator -/

inductive Cls
  | counter (step : Nat)                 -- `while i < n: i += step` (or mirrored); needs step ≥ 1
  | countdown                            -- `while n: n -= 1`; precondition n ≥ 0
  | halving (d : Nat)                    -- `while n: n //= d` / `n >>= log2 d`; needs d ≥ 2 (0 = symbolic divisor,
                                         -- statement quantified over all d ≥ 2); precondition n ≥ 0
  | strip (p : Nat)                      -- `while not n % p: n //= p`; needs p ≥ 2 (0 = symbolic); precondition n ≠ 0
  | euclid
  | fixdecay (ops : List DecayOp)        -- pure ops with at least one mulShift; preconditions v ≥ 0, 0 ≤ r < 2^p
  | fixdecayAlt                          -- the cos_sin_basecase body
  | newton (start n : Nat)               -- loop of / over `giant_steps(start, _, n)`; (0,0) = not literal
  | tolOrDiverge (strict : Bool)
  | divGuard                             -- integer terms, exit on `term >= prev` only
  | bounded
  | retry (doubling : Bool)
  | producer                             -- generator: every pass yields to the consumer, which owns the obligation
  | tol
  | unknown
  deriving DecidableEq

structure Site where
  file : String
  func : String
  line : Nat
  cls : Cls

/-- classes for which the skeleton carries no termination theorem: OPEN obligations -/
def Cls.isOpen : Cls → Bool
  | .tol => true
  | .unknown => true
  | _ => false

/-- side conditions on the extracted parameters under which the class theorem applies -/
def Cls.check : Cls → Bool
  | .counter step => decide (1 ≤ step)
  | .countdown => true
  | .halving d => d == 0 || decide (2 ≤ d)
  | .strip p => p == 0 || decide (2 ≤ p)
  | .euclid => true
  | .fixdecay ops => ops.all DecayOp.isPure && ops.contains .mulShift
  | .fixdecayAlt => true
  | .newton start n => (start == 0 && n == 0) || (decide (2 ≤ n) && decide (1 ≤ start) && decide (3 ≤ start * n))
  | .tolOrDiverge _ => true
  | .divGuard => true
  | .bounded => true
  | .retry _ => true
  | .producer => true
  | .tol => false
  | .unknown => false

end LoopSkel
end Mp
