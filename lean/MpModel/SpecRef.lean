/-
  MpModel/SpecRef.lean — reference values of special functions on the closed-form sub-families of
  properties C18 (gamma family), C19 (zeta family), C22 (terminating hypergeometric series and
  orthogonal polynomials), executable and import-free (core Lean + `MpModel/Encl.lean`).

  * `SExpr`: a small expression type (rationals, π, √π, +, ·, ⁻¹, ^n, log) with a rigorous interval
    evaluator `eval` on top of `Mp.Encl` and the accuracy deciders `specCheck` (real output) and
    `specCheckC` (complex output, modulus form).
  * per family a function computing the reference as an `SExpr` / exact `Rat` from the integer or
    rational ARGUMENTS of the mpmath function (`Ref.val`), or `Ref.pole`, or `Ref.outside` (argument not in
    the decided sub-family).
  * decision-logic models following the Python code: `gammaprodDecide` (pole counting of
    `gammaprod`), `hypsumPoleRaises` (`hypsum`'s ZeroDivisionError test), `convertParam` (`_convert_param`).

  Soundness (against Mathlib's `Real.Gamma`, `riemannZeta`, `bernoulli`, `Polynomial.bernoulli`,
  `ascPochhammer`, `Polynomial.Chebyshev.T/U`, `Nat.doubleFactorial`, `Nat.choose`, `harmonic`,
  `Nat.superFactorial`) is in `MpProofs/SpecRef.lean`, `Props/C18.lean`, `Props/C19.lean`, `Props/C22.lean`.
-/
import MpModel.Encl

namespace Mp.SpecRef
open Mp.Encl

/-! ### reference expressions and their enclosure -/

inductive SExpr
  | rat (n : Int) (d : Nat)      -- n / d
  | pi
  | sqrtPi
  | neg (a : SExpr)
  | add (a b : SExpr)
  | mul (a b : SExpr)
  | inv (a : SExpr)
  | pow (a : SExpr) (k : Nat)
  | log (a : SExpr)
  deriving Inhabited, DecidableEq

def powI (wp : Nat) (X : DI) : Nat → DI
  | 0 => DI.one
  | k + 1 => ((powI wp X k).mul X).round wp

/-- enclosure of the value of an expression at working precision `wp`; `none` when a denominator is 0,
a divisor interval contains 0, or a logarithm's argument interval is not positive -/
def eval (wp : Nat) : SExpr → Option DI
  | .rat n d => if d = 0 then none else some ((DI.ofInt n).divNat wp d)
  | .pi => some (piI wp)
  | .sqrtPi => some ((sqrtI (wp + 2) (piI (wp + 2))).round wp)
  | .neg a => (eval wp a).map DI.neg
  | .add a b =>
    match eval wp a, eval wp b with
    | some A, some B => some ((A.add B).round wp)
    | _, _ => none
  | .mul a b =>
    match eval wp a, eval wp b with
    | some A, some B => some ((A.mul B).round wp)
    | _, _ => none
  | .inv a => (eval wp a).bind (fun A => DI.one.divI wp A)
  | .pow a k => (eval wp a).map (fun A => powI wp A k)
  | .log a => (eval wp a).bind (logI wp)

/-- decide `|y − v| ≤ t·|v|` (modulus of the complex number `y = yre + i·yim`) for all / no `v ∈ F` -/
def decideC (F : DI) (yre yim t : Dy) : Verdict :=
  let E : DI := ⟨yre.sub F.hi, yre.sub F.lo⟩
  let i2 := yim.mul yim
  let t2 := t.mul t
  if ((E.mag.mul E.mag).add i2).le (t2.mul (F.mig.mul F.mig)) then .ok
  else if (t2.mul (F.mag.mul F.mag)).lt ((E.mig.mul E.mig).add i2) then .violates
  else .undecided

def specLoop (r : SExpr) (y t : Dy) : List Nat → Verdict
  | [] => .undecided
  | wp :: ws =>
    match eval wp r with
    | none => .undecided
    | some F =>
      match decide1 F y t with
      | .undecided => specLoop r y t ws
      | v => v

def specLoopC (r : SExpr) (yre yim t : Dy) : List Nat → Verdict
  | [] => .undecided
  | wp :: ws =>
    match eval wp r with
    | none => .undecided
    | some F =>
      match decideC F yre yim t with
      | .undecided => specLoopC r yre yim t ws
      | v => v

def precList (p : Nat) : List Nat := [p + 32, 2 * p + 96, 4 * p + 256, 8 * p + 1024]

/-- decide `|y − ⟦r⟧| ≤ 2^(k−p)·|⟦r⟧|` rigorously (the property texts say "relative error below
2^(8−p)": run with `k = 7`, see `specCheck_ok_strict`) -/
def specCheck (r : SExpr) (y : Dy) (p k : Nat) : Verdict :=
  specLoop r y ⟨1, (k : Int) - (p : Int)⟩ (precList p)

/-- same for a complex output `yre + i·yim` and a real reference value, error measured in modulus -/
def specCheckC (r : SExpr) (yre yim : Dy) (p k : Nat) : Verdict :=
  specLoopC r yre yim ⟨1, (k : Int) - (p : Int)⟩ (precList p)

/-- a reference: a finite value, a pole of the function, or "not in the decided sub-family" -/
inductive Ref
  | val (e : SExpr)
  | pole
  | outside
  deriving Inhabited, DecidableEq

def ratE (q : Rat) : SExpr := .rat q.num q.den
def Ref.ofRat (q : Rat) : Ref := .val (ratE q)

/-! ### integer products -/

/-- `a·(a+1)·…·(a+n−1)` -/
def prodLin (a : Nat) : Nat → Nat
  | 0 => 1
  | n + 1 => prodLin a n * (a + n)

/-- the same product by binary splitting (`d` = maximal splitting depth; any `d` is correct) -/
def prodTree : Nat → Nat → Nat → Nat
  | 0, a, n => prodLin a n
  | d + 1, a, n =>
    if n ≤ 8 then prodLin a n
    else prodTree d a (n / 2) * prodTree d (a + n / 2) (n - n / 2)

/-- `n!` -/
def factN (n : Nat) : Nat := prodTree 24 1 n

/-- binomial coefficient `C(n, k)` for naturals -/
def chooseM (n k : Nat) : Nat := if n < k then 0 else prodTree 24 (n - k + 1) k / factN k

/-- `n‼` -/
def dfact : Nat → Nat
  | 0 => 1
  | 1 => 1
  | n + 2 => (n + 2) * dfact n

/-- `Π_{k=1}^{n} k!` (Mathlib `Nat.superFactorial`) -/
def superfacN : Nat → Nat
  | 0 => 1
  | n + 1 => factN (n + 1) * superfacN n

/-- `Π_{k=1}^{n} k^k` -/
def hyperfacN : Nat → Nat
  | 0 => 1
  | n + 1 => (n + 1) ^ (n + 1) * hyperfacN n

/-- `(numerator, denominator)` of `Σ_{i<n} 1/(a+i)` (not reduced), binary splitting -/
def harmPQ : Nat → Nat → Nat → Nat × Nat
  | 0, a, n => (List.range n).foldl (fun (pq : Nat × Nat) i => (pq.1 * (a + i) + pq.2, pq.2 * (a + i))) (0, 1)
  | d + 1, a, n =>
    if n ≤ 8 then harmPQ 0 a n
    else
      let l := harmPQ d a (n / 2)
      let r := harmPQ d (a + n / 2) (n - n / 2)
      (l.1 * r.2 + r.1 * l.2, l.2 * r.2)

/-! ### C18: gamma family at integers and half-integers (argument `h/2`, `h : Int`) -/

/-- the value `(num/den)·(√π)^s` -/
structure GVal where
  num : Int
  den : Nat
  s : Int
  deriving Inhabited

def GVal.one : GVal := ⟨1, 1, 0⟩
def GVal.mul (a b : GVal) : GVal := ⟨a.num * b.num, a.den * b.den, a.s + b.s⟩
/-- reciprocal (for `num ≠ 0`) -/
def GVal.inv (a : GVal) : GVal :=
  ⟨if a.num < 0 then -(a.den : Int) else (a.den : Int), a.num.natAbs, -a.s⟩

/-- `(√π)^s` as an expression: `π^(s div 2)·(√π)^(s mod 2)` -/
def sqrtPiPow (s : Int) : SExpr :=
  let a := s / 2
  let b := s % 2
  let pa : SExpr := if 0 ≤ a then .pow .pi a.toNat else .inv (.pow .pi (-a).toNat)
  if b = 0 then pa else .mul pa .sqrtPi

def GVal.toExpr (g : GVal) : SExpr :=
  if g.s = 0 then .rat g.num g.den else .mul (.rat g.num g.den) (sqrtPiPow g.s)

/-- `Γ(h/2)`: `none` at the poles `h/2 ∈ {0, −1, −2, …}`;
`Γ(n) = (n−1)!`, `Γ(m+½) = (2m)!·√π/(4^m·m!)`, `Γ(½−m) = (−4)^m·m!·√π/(2m)!` -/
def gammaQ (h : Int) : Option GVal :=
  if h % 2 = 0 then
    if h ≤ 0 then none else some ⟨factN (h / 2 - 1).toNat, 1, 0⟩
  else
    let n := (h - 1) / 2
    if 0 ≤ n then
      let m := n.toNat
      some ⟨factN (2 * m), 4 ^ m * factN m, 1⟩
    else
      let m := (-n).toNat
      some ⟨(-4) ^ m * factN m, factN (2 * m), 1⟩

/-- mpmath `isnpint` on the argument `h/2` -/
def isPoleH (h : Int) : Bool := h % 2 = 0 && h ≤ 0

def gammaRef (h : Int) : Ref :=
  match gammaQ h with
  | none => .pole
  | some g => .val g.toExpr

/-- `rgamma` is exactly 0 at the poles -/
def rgammaRef (h : Int) : Ref :=
  match gammaQ h with
  | none => .val (.rat 0 1)
  | some g => .val g.inv.toExpr

/-- `loggamma = log Γ` on positive integers and half-integers only -/
def loggammaRef (h : Int) : Ref :=
  if 0 < h then
    match gammaQ h with
    | none => .pole
    | some g => .val (.log g.toExpr)
  else if isPoleH h then .pole else .outside

/-- `factorial(x) = Γ(x+1)` -/
def factorialRef (h : Int) : Ref := gammaRef (h + 2)

/-- `fac2(n) = n‼` for natural `n` -/
def fac2Ref (n : Int) : Ref := if 0 ≤ n then .val (.rat (dfact n.toNat) 1) else .outside

/-- falling factorial `x(x−1)…(x−k+1)` -/
def ffQ (x : Rat) : Nat → Rat
  | 0 => 1
  | k + 1 => ffQ x k * (x - (k : Rat))

/-- rising factorial `x(x+1)…(x+k−1)` -/
def rfQ (x : Rat) : Nat → Rat
  | 0 => 1
  | k + 1 => rfQ x k * (x + (k : Rat))

/-- `binomial(x, k) = x(x−1)…(x−k+1)/k!` for rational `x`, natural `k` -/
def binomialRef (x : Rat) (k : Int) : Ref :=
  if 0 ≤ k then Ref.ofRat (ffQ x k.toNat / (factN k.toNat : Rat)) else .outside

def rfRef (x : Rat) (n : Int) : Ref := if 0 ≤ n then Ref.ofRat (rfQ x n.toNat) else .outside
def ffRef (x : Rat) (n : Int) : Ref := if 0 ≤ n then Ref.ofRat (ffQ x n.toNat) else .outside

/-- the three outcomes of `gammaprod`'s pole counting -/
inductive GPDec
  | zero | inf | finite
  deriving DecidableEq, Inhabited

/-- `gammaprod`: "One more pole in numerator or denominator gives 0 or inf" -/
def gammaprodDecide (as bs : List Int) : GPDec :=
  let pn := (as.filter isPoleH).length
  let pd := (bs.filter isPoleH).length
  if pn < pd then .zero else if pd < pn then .inf else .finite

def gammaStep (acc : GVal) (h : Int) : GVal :=
  match gammaQ h with
  | some g => acc.mul g
  | none => acc

/-- product of `Γ(h/2)` over the non-pole entries -/
def gammaProdRegular (hs : List Int) : GVal := hs.foldl gammaStep GVal.one

/-- reference of `gammaprod(as, bs)` at integer/half-integer arguments: `0` if the denominator has more
poles, a pole if the numerator has more; the plain product when there is no pole at all.
(When equally many poles cancel the value is a limit for which Mathlib has no statement: `outside`.) -/
def gammaprodRef (as bs : List Int) : Ref :=
  match gammaprodDecide as bs with
  | .zero => .val (.rat 0 1)
  | .inf => .pole
  | .finite =>
    if (as.filter isPoleH).length = 0 then
      .val ((gammaProdRegular as).mul (gammaProdRegular bs).inv).toExpr
    else .outside

/-- `beta(x, y) = Γ(x)Γ(y)/Γ(x+y)` -/
def betaRef (h1 h2 : Int) : Ref := gammaprodRef [h1, h2] [h1 + h2]

/-- `harmonic(n) = Σ_{i=1}^{n} 1/i` -/
def harmonicRef (n : Int) : Ref :=
  if 0 ≤ n then let pq := harmPQ 24 1 n.toNat; .val (.rat pq.1 pq.2) else .outside

def superfacRef (n : Int) : Ref := if 0 ≤ n then .val (.rat (superfacN n.toNat) 1) else .outside
def hyperfacRef (n : Int) : Ref := if 0 ≤ n then .val (.rat (hyperfacN n.toNat) 1) else .outside
/-- `barnesg(n) = Π_{k=1}^{n−2} k!` for integers `n ≥ 1`, `0` for `n ≤ 0` -/
def barnesgRef (n : Int) : Ref :=
  if n ≤ 0 then .val (.rat 0 1) else .val (.rat (superfacN (n - 2).toNat) 1)

/-! ### C19: zeta family -/

/-- `B'_n` from the table `l = [B'_0, …, B'_{n−1}]`: `1 − Σ_{k<n} C(n,k)/(n−k+1)·B'_k` -/
def bernStep (l : List Rat) : Rat :=
  let n := l.length
  1 - (List.zipWith (fun k b => (chooseM n k : Rat) / ((n : Rat) - (k : Rat) + 1) * b) (List.range n) l).sum

/-- `[B'_0, …, B'_{n−1}]` -/
def bernTab : Nat → List Rat
  | 0 => []
  | n + 1 => let l := bernTab n; l ++ [bernStep l]

/-- `B_i` (the convention with `B_1 = −1/2`) from a table of `B'` -/
def bernFrom (tab : List Rat) (i : Nat) : Rat := if i = 1 then -1 / 2 else tab.getD i 0

/-- Bernoulli number `B_n` (`B_1 = −1/2`; Mathlib `bernoulli`) -/
def bern (n : Nat) : Rat := bernFrom (bernTab (n + 1)) n

/-- `ζ(2k)/π^(2k)` for `k ≥ 1` -/
def zetaEvenQ (k : Nat) : Rat :=
  (-1) ^ (k + 1) * 2 ^ (2 * k - 1) * bern (2 * k) / (factN (2 * k) : Rat)

/-- `ζ(s)` at integers: `ζ(0) = −½`, `ζ(−n) = (−1)^n·B_{n+1}/(n+1)`, `ζ(2k) = q·π^(2k)`; pole at 1 -/
def zetaRef (s : Int) : Ref :=
  if s = 1 then .pole
  else if s ≤ 0 then
    let n := (-s).toNat
    Ref.ofRat ((-1) ^ n * bern (n + 1) / ((n : Rat) + 1))
  else if s % 2 = 0 then
    let k := (s / 2).toNat
    .val (.mul (ratE (zetaEvenQ k)) (.pow .pi (2 * k)))
  else .outside

/-- `1 − 2^(1−s)` -/
def etaFactor (s : Int) : Rat :=
  if 1 ≤ s then 1 - 1 / (2 : Rat) ^ (s - 1).toNat else 1 - (2 : Rat) ^ (1 - s).toNat

/-- `altzeta(s) = (1 − 2^(1−s))·ζ(s)` at the same points -/
def altzetaRef (s : Int) : Ref :=
  match zetaRef s with
  | .val e => .val (.mul (ratE (etaFactor s)) e)
  | r => if s = 1 then .outside else r

/-- `Σ_{j=1}^{a−1} 1/j^s` -/
def powSumQ (s : Nat) : Nat → Rat
  | 0 => 0
  | n + 1 => powSumQ s n + (if n = 0 then 0 else 1 / ((n : Rat) ^ s))

/-- Hurwitz `ζ(2k, a) = Σ_{n≥0} 1/(n+a)^(2k) = ζ(2k) − Σ_{j=1}^{a−1} 1/j^(2k)` for integers `k ≥ 1`, `a ≥ 1` -/
def hurwitzRef (s a : Int) : Ref :=
  if 2 ≤ s ∧ s % 2 = 0 ∧ 1 ≤ a then
    match zetaRef s with
    | .val e => .val (.add e (.neg (ratE (powSumQ s.toNat a.toNat))))
    | r => r
  else .outside

/-- Bernoulli polynomial `B_n(x) = Σ_{i≤n} B_i·C(n,i)·x^(n−i)` (Mathlib `Polynomial.bernoulli`) -/
def bernPolyQ (n : Nat) (x : Rat) : Rat :=
  let tab := bernTab (n + 1)
  ((List.range (n + 1)).map (fun i => bernFrom tab i * (chooseM n i : Rat) * x ^ (n - i))).sum

/-- Euler polynomial, DEFINED by `E_n(x) = 2/(n+1)·(B_{n+1}(x) − 2^(n+1)·B_{n+1}(x/2))` -/
def eulerPolyQ (n : Nat) (x : Rat) : Rat :=
  2 / ((n : Rat) + 1) * (bernPolyQ (n + 1) x - 2 ^ (n + 1) * bernPolyQ (n + 1) (x / 2))

def bernpolyRef (n : Int) (x : Rat) : Ref := if 0 ≤ n then Ref.ofRat (bernPolyQ n.toNat x) else .outside
def eulerpolyRef (n : Int) (x : Rat) : Ref := if 0 ≤ n then Ref.ofRat (eulerPolyQ n.toNat x) else .outside

/-- coefficients `c_{n,j}` of `k^n = Σ_j c_{n,j}·C(k, j)` (`c_{n,j} = j!·S(n,j)`): next row from the row
`[c_{n,j}, c_{n,j+1}, …]` with `prev = c_{n,j−1}`, by `c_{n+1,j} = j·(c_{n,j−1} + c_{n,j})` -/
def nextRow (prev j : Nat) : List Nat → List Nat
  | [] => [j * prev]
  | c :: cs => j * (prev + c) :: nextRow c (j + 1) cs

def cRow : Nat → List Nat
  | 0 => [1]
  | n + 1 => nextRow 0 0 (cRow n)

/-- `Σ_i row[i]·z^(j+i)/(1−z)^(j+i+1)` -/
def geomRow : List Nat → Nat → Rat → Rat
  | [], _, _ => 0
  | c :: cs, j, z => (c : Rat) * z ^ j / (1 - z) ^ (j + 1) + geomRow cs (j + 1) z

/-- `Σ_{k≥0} k^n z^k = Σ_{j≤n} c_{n,j}·z^j/(1−z)^(j+1)` (with `0^0 = 1`) -/
def powGeomQ (n : Nat) (z : Rat) : Rat := geomRow (cRow n) 0 z

/-- `polylog(s, z)`: `s = 1`, `|z| < 1`: `−log(1−z)`;  `s = 2k ≥ 2`, `z = 1`: `ζ(2k)`;
`s = −n ≤ 0`, `|z| < 1`: the rational function `Σ_{k≥1} k^n z^k` -/
def polylogRef (s : Int) (z : Rat) : Ref :=
  if s = 1 then
    if -1 < z ∧ z < 1 then .val (.neg (.log (ratE (1 - z)))) else .outside
  else if 2 ≤ s then
    if z = 1 ∧ s % 2 = 0 then zetaRef s else .outside
  else
    if -1 < z ∧ z < 1 then
      let n := (-s).toNat
      Ref.ofRat (if n = 0 then powGeomQ 0 z - 1 else powGeomQ n z)
    else .outside

/-! ### C22: terminating hypergeometric series and orthogonal polynomials -/

def isNpInt (q : Rat) : Bool := q.den = 1 && q.num ≤ 0

/-- least `n` such that some numerator parameter equals `−n` -/
def termIndex : List Rat → Option Nat
  | [] => none
  | a :: as =>
    if isNpInt a then
      match termIndex as with
      | none => some (-a.num).toNat
      | some m => some (min (-a.num).toNat m)
    else termIndex as

def prodShift (l : List Rat) (k : Nat) : Rat := l.foldr (fun a acc => (a + (k : Rat)) * acc) 1

/-- `(t_k, Σ_{j<k} t_j)` with `t_k = Π(a_i)_k / Π(b_j)_k · z^k/k!` -/
def hypSum (as bs : List Rat) (z : Rat) : Nat → Rat × Rat
  | 0 => (1, 0)
  | k + 1 =>
    let p := hypSum as bs z k
    (p.1 * prodShift as k / prodShift bs k * z / ((k : Rat) + 1), p.2 + p.1)

/-- a denominator parameter `−m` with `m < n` makes a term of the finite sum `Σ_{k≤n}` infinite -/
def denPoleBefore (bs : List Rat) (n : Nat) : Bool := bs.any (fun b => isNpInt b && decide ((-b.num).toNat < n))

/-- terminating `pFq(as; bs; z) = Σ_{k=0}^{n} Π(a_i)_k/Π(b_j)_k z^k/k!` where `−n` is the largest
non-positive integer numerator parameter; `pole` if a denominator parameter vanishes at an index `< n`
(mpmath: ZeroDivisionError); `outside` if no numerator parameter terminates the series -/
def hyperRef (as bs : List Rat) (z : Rat) : Ref :=
  match termIndex as with
  | none => .outside
  | some n => if denPoleBefore bs n then .pole else Ref.ofRat (hypSum as bs z (n + 1)).2

/-- `(P_k, P_{k+1})` for `A_{k+1}·P_{k+2} = B_{k+1}·P_{k+1} − C_{k+1}·P_k`; `none` if some `A_j = 0` -/
def rec3 (p0 p1 : Rat) (A B C : Nat → Rat) : Nat → Option (Rat × Rat)
  | 0 => some (p0, p1)
  | k + 1 =>
    match rec3 p0 p1 A B C k with
    | none => none
    | some (a, b) =>
      let d := A (k + 1)
      if d = 0 then none else some (b, (B (k + 1) * b - C (k + 1) * a) / d)

def recRef (n : Int) (r : Nat → Option (Rat × Rat)) : Ref :=
  if 0 ≤ n then
    match r n.toNat with
    | some p => Ref.ofRat p.1
    | none => .outside
  else .outside

/-- Legendre: `(k+1)P_{k+1} = (2k+1)·x·P_k − k·P_{k−1}` -/
def legendreQ (x : Rat) := rec3 1 x (fun k => (k : Rat) + 1) (fun k => (2 * (k : Rat) + 1) * x) (fun k => (k : Rat))
/-- Chebyshev T: `T_{k+1} = 2x·T_k − T_{k−1}` -/
def chebytQ (x : Rat) := rec3 1 x (fun _ => 1) (fun _ => 2 * x) (fun _ => 1)
/-- Chebyshev U -/
def chebyuQ (x : Rat) := rec3 1 (2 * x) (fun _ => 1) (fun _ => 2 * x) (fun _ => 1)
/-- Hermite (physicists'): `H_{k+1} = 2x·H_k − 2k·H_{k−1}` -/
def hermiteQ (x : Rat) := rec3 1 (2 * x) (fun _ => 1) (fun _ => 2 * x) (fun k => 2 * (k : Rat))
/-- generalized Laguerre: `(k+1)L_{k+1} = (2k+1+a−x)·L_k − (k+a)·L_{k−1}` -/
def laguerreQ (a x : Rat) :=
  rec3 1 (1 + a - x) (fun k => (k : Rat) + 1) (fun k => 2 * (k : Rat) + 1 + a - x) (fun k => (k : Rat) + a)
/-- Gegenbauer: `(k+1)C_{k+1} = 2(k+a)·x·C_k − (k+2a−1)·C_{k−1}` -/
def gegenbauerQ (a x : Rat) :=
  rec3 1 (2 * a * x) (fun k => (k : Rat) + 1) (fun k => 2 * ((k : Rat) + a) * x) (fun k => (k : Rat) + 2 * a - 1)
/-- Jacobi: `2(k+1)(k+a+b+1)(2k+a+b)·P_{k+1} =
(2k+a+b+1)·((2k+a+b+2)(2k+a+b)·x + a²−b²)·P_k − 2(k+a)(k+b)(2k+a+b+2)·P_{k−1}` -/
def jacobiQ (a b x : Rat) :=
  rec3 1 ((a + 1) + (a + b + 2) * (x - 1) / 2)
    (fun k => 2 * ((k : Rat) + 1) * ((k : Rat) + a + b + 1) * (2 * (k : Rat) + a + b))
    (fun k => (2 * (k : Rat) + a + b + 1) * ((2 * (k : Rat) + a + b + 2) * (2 * (k : Rat) + a + b) * x + a * a - b * b))
    (fun k => 2 * ((k : Rat) + a) * ((k : Rat) + b) * (2 * (k : Rat) + a + b + 2))

/-! ### decision-logic models -/

/-- `hypsum`'s pole test (ctx_mp.py): `cs` = all coefficients (numerator parameters first, `p` of them),
each `(flag = 'Z', integer value)`.  Raises ZeroDivisionError iff some denominator `'Z'` parameter
`c ≤ 0` has no numerator `'Z'` parameter `cc ≤ 0` with `c ≤ cc`. -/
def hypsumPoleRaises (p : Nat) (cs : List (Bool × Int)) : Bool :=
  let nums := cs.take p
  (cs.drop p).any (fun c => c.1 && decide (c.2 ≤ 0) &&
    !(nums.any (fun cc => cc.1 && decide (cc.2 ≤ 0) && decide (c.2 ≤ cc.2))))

/-- inputs of `_convert_param` (ctx_mp_python.py) -/
inductive PIn
  | int (n : Int)                          -- Python int
  | frac (p q : Int)                       -- tuple (p, q), mpq, or string "p/q"
  | mpf (sign man : Nat) (exp : Int)       -- mpf value tuple (bc not used by the code)
  | mpc (sign man : Nat) (exp : Int) (imZero : Bool)   -- mpc: real part tuple, and whether imag == fzero
  deriving DecidableEq, Inhabited

/-- outputs: classification `'Z'` with the integer, `'Q'` with the (reduced) fraction, `'R'`, `'C'`, `'U'`
(the value is returned unchanged in the last three), or ZeroDivisionError (`p % 0`) -/
inductive POut
  | Z (n : Int)
  | Q (p : Int) (q : Nat)
  | R | C | U
  | zeroDiv
  deriving DecidableEq, Inhabited

def convertMpf (sign man : Nat) (exp : Int) : POut :=
  if man ≠ 0 then
    if -4 ≤ exp then
      let m : Int := if sign ≠ 0 then -(man : Int) else (man : Int)
      if 0 ≤ exp then .Z (m * (2 ^ exp.toNat : Nat))
      else
        let r : Rat := mkRat m (2 ^ (-exp).toNat)
        .Q r.num r.den
    else .R
  else if exp = 0 then .Z 0
  else .U

def convertParam : PIn → POut
  | .int n => .Z n
  | .frac p q =>
    if q = 0 then .zeroDiv
    else if p % q = 0 then .Z (p / q)
    else
      let r : Rat := if q < 0 then mkRat (-p) (-q).toNat else mkRat p q.toNat
      .Q r.num r.den
  | .mpf sign man exp => convertMpf sign man exp
  | .mpc sign man exp imZero => if imZero then convertMpf sign man exp else .C

end Mp.SpecRef
