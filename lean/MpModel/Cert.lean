/-
  MpModel/Cert.lean — import-free executable CERTIFICATE CHECKERS for the linear-algebra properties
  C30 / C31 / C32 (verified certificate checking, DESIGN.md "### C30".."### C32").

  Nothing here models mpmath code.  The harness runs the real mpmath routines, reads every input and
  output entry exactly (an mpf is the dyadic rational man·2^exp, an mpc two of them) and sends them
  here; the checkers evaluate the defining identities in EXACT arithmetic and answer
  `ok | violates | undecided | singular`.  Soundness (`verdict = ok → property`, `verdict = violates →
  ¬ property`) is proved in `MpProofs/Cert*.lean`, stated in `Props/C30.lean`, `C31.lean`, `C32.lean`.

  Scalars:  `Dy`  = dyadic rationals  man·2^exp   (closed under + − ·, decidable order, no invariant:
                    every pair (man, exp) denotes a number, so the evaluation map is a ring
                    homomorphism unconditionally — this is why un-normalised dyadics and not num/den);
            `G`   = Gaussian dyadics  re + i·im   (real data has im = 0).
  Matrices: `Mat` = `List (List G)`, always accessed through the total `get` (default 0) with the
            dimensions passed explicitly, so that no well-formedness hypothesis is needed anywhere.
  No division is ever performed: all comparisons are cross-multiplied.
-/

namespace Mp.Cert

/-! ## dyadic rationals -/

structure Dy where
  man : Int
  exp : Int
deriving Repr, Inhabited, DecidableEq

namespace Dy

def zero : Dy := ⟨0, 0⟩
def one : Dy := ⟨1, 0⟩
def ofInt (n : Int) : Dy := ⟨n, 0⟩
def ofNat (n : Nat) : Dy := ⟨(n : Int), 0⟩
/-- 2^e -/
def pow2 (e : Int) : Dy := ⟨1, e⟩

def add (a b : Dy) : Dy :=
  let e := min a.exp b.exp
  ⟨a.man * 2 ^ (a.exp - e).toNat + b.man * 2 ^ (b.exp - e).toNat, e⟩
def neg (a : Dy) : Dy := ⟨-a.man, a.exp⟩
def sub (a b : Dy) : Dy := add a (neg b)
def mul (a b : Dy) : Dy := ⟨a.man * b.man, a.exp + b.exp⟩
def abs (a : Dy) : Dy := ⟨(a.man.natAbs : Int), a.exp⟩

instance : Add Dy := ⟨add⟩
instance : Neg Dy := ⟨neg⟩
instance : Sub Dy := ⟨sub⟩
instance : Mul Dy := ⟨mul⟩

/-- a ≤ b -/
def le (a b : Dy) : Bool := decide ((sub a b).man ≤ 0)
/-- a < b -/
def lt (a b : Dy) : Bool := decide ((sub a b).man < 0)
def isZero (a : Dy) : Bool := decide (a.man = 0)
def max (a b : Dy) : Dy := if le a b then b else a
def sq (a : Dy) : Dy := mul a a

def pow (a : Dy) : Nat → Dy
  | 0 => one
  | k + 1 => mul (pow a k) a

end Dy

/-! ## Gaussian dyadics -/

structure G where
  re : Dy
  im : Dy
deriving Repr, Inhabited, DecidableEq

namespace G

def zero : G := ⟨Dy.zero, Dy.zero⟩
def one : G := ⟨Dy.one, Dy.zero⟩
def ofDy (a : Dy) : G := ⟨a, Dy.zero⟩
def add (a b : G) : G := ⟨a.re + b.re, a.im + b.im⟩
def neg (a : G) : G := ⟨-a.re, -a.im⟩
def sub (a b : G) : G := ⟨a.re - b.re, a.im - b.im⟩
def mul (a b : G) : G := ⟨a.re * b.re - a.im * b.im, a.re * b.im + a.im * b.re⟩
def conj (a : G) : G := ⟨a.re, -a.im⟩

instance : Add G := ⟨add⟩
instance : Neg G := ⟨neg⟩
instance : Sub G := ⟨sub⟩
instance : Mul G := ⟨mul⟩

/-- |z|² (exact) -/
def normSq (a : G) : Dy := a.re * a.re + a.im * a.im
/-- |re| + |im|  ≥ |z| -/
def absU (a : G) : Dy := a.re.abs + a.im.abs
/-- max(|re|, |im|)  ≤ |z| -/
def absL (a : G) : Dy := Dy.max a.re.abs a.im.abs
def isZero (a : G) : Bool := a.re.isZero && a.im.isZero
/-- value equality -/
def eqv (a b : G) : Bool := (a - b).isZero
def isReal (a : G) : Bool := a.im.isZero

end G

/-! ## finite sums, maxima, bounded quantifiers (structural recursion on the bound) -/

def sumG : Nat → (Nat → G) → G
  | 0, _ => G.zero
  | k + 1, f => sumG k f + f k

def sumD : Nat → (Nat → Dy) → Dy
  | 0, _ => Dy.zero
  | k + 1, f => sumD k f + f k

/-- max(0, f 0, …, f (k-1)) -/
def maxD : Nat → (Nat → Dy) → Dy
  | 0, _ => Dy.zero
  | k + 1, f => Dy.max (maxD k f) (f k)

def allTo : Nat → (Nat → Bool) → Bool
  | 0, _ => true
  | k + 1, f => allTo k f && f k

/-! ## dense matrices -/

abbrev Mat := List (List G)

/-- total entry access; entries outside the stored lists are 0 -/
def get (M : Mat) (i j : Nat) : G := (M.getD i []).getD j G.zero

def build (r c : Nat) (f : Nat → Nat → G) : Mat :=
  (List.range r).map fun i => (List.range c).map fun j => f i j

/-- (r×k)·(k×c) -/
def mmul (r k c : Nat) (A B : Mat) : Mat :=
  build r c fun i j => sumG k fun l => get A i l * get B l j
def madd (r c : Nat) (A B : Mat) : Mat := build r c fun i j => get A i j + get B i j
def msub (r c : Nat) (A B : Mat) : Mat := build r c fun i j => get A i j - get B i j
def ident (n : Nat) : Mat := build n n fun i j => if i = j then G.one else G.zero
/-- transpose of an r×c matrix (result c×r) -/
def transpose (r c : Nat) (A : Mat) : Mat := build c r fun i j => get A j i
/-- conjugate transpose of an r×c matrix (result c×r) -/
def conjT (r c : Nat) (A : Mat) : Mat := build c r fun i j => (get A j i).conj
/-- diag(E) for E stored as an n×1 column -/
def diagM (n : Nat) (E : Mat) : Mat := build n n fun i j => if i = j then get E i 0 else G.zero
/-- r×c "rectangular diagonal" matrix with the k×1 column S on its diagonal (used by svd) -/
def diagR (r c : Nat) (S : Mat) : Mat := build r c fun i j => if i = j then get S i 0 else G.zero

def mpow (n : Nat) (A : Mat) : Nat → Mat
  | 0 => ident n
  | k + 1 => mmul n n n (mpow n A k) A

/-- squared Frobenius norm (exact) -/
def frob2 (r c : Nat) (M : Mat) : Dy := sumD r fun i => sumD c fun j => (get M i j).normSq
/-- upper bound of the ∞-operator norm (max row sum), exact for real matrices -/
def rowSumU (r c : Nat) (M : Mat) : Dy := maxD r fun i => sumD c fun j => (get M i j).absU
/-- lower bound of the ∞-operator norm, exact for real matrices -/
def rowSumL (r c : Nat) (M : Mat) : Dy := maxD r fun i => sumD c fun j => (get M i j).absL

/-- exact determinant by Laplace expansion along row 0 (n ≤ 8 in the harness: 8! terms) -/
def minor (n : Nat) (M : Mat) (j : Nat) : Mat :=
  build n n fun a b => get M (a + 1) (if b < j then b else b + 1)

def detN : Nat → Mat → G
  | 0, _ => G.one
  | n + 1, M => sumG (n + 1) fun j =>
      (if j % 2 = 0 then get M 0 j else - get M 0 j) * detN n (minor n M j)

/-! ## verdicts -/

inductive Verdict | ok | violates | undecided | singular
deriving Repr, DecidableEq, Inhabited

def Verdict.ofBool (b : Bool) : Verdict := if b then .ok else .violates

/-- 4^(10-p) = (2^(10-p))² -/
def tol2 (p : Int) : Dy := Dy.pow2 (2 * (10 - p))
/-- 2^(10-p) -/
def tol1 (p : Int) : Dy := Dy.pow2 (10 - p)

/-! ## C30: solve / inverse / det certificates

  Given A (n×n), B and X̃ (n×k) and an approximate inverse R (n×n), all exact:
    α  ≥ ‖I − R·A‖∞,   W = R·(B − A·X̃),   ρ ≥ ‖W‖∞ ≥ ρL.
  If α < 1 then A is nonsingular and, with X* = A⁻¹B,
    ρL/(1+α) ≤ ‖X* − X̃‖∞ ≤ ρ/(1−α),  ‖R‖/(1+α) ≤ ‖A⁻¹‖∞ ≤ ‖R‖/(1−α).
  The property instance decided is (∞-operator norms)
    ‖X* − X̃‖ ≤ ‖A‖·‖A⁻¹‖·2^(10−p)·‖X*‖.                                                     -/

structure SolveData where
  alpha : Dy   -- upper bound of ‖I − RA‖∞
  rho   : Dy   -- upper bound of ‖R(B − AX)‖∞
  rhoL  : Dy   -- lower bound of the same
  nAU : Dy
  nAL : Dy
  nRU : Dy
  nRL : Dy
  mxU : Dy
  mxL : Dy
deriving Repr

def residE (n : Nat) (A R : Mat) : Mat := msub n n (ident n) (mmul n n n R A)
def residW (n k : Nat) (A B X R : Mat) : Mat := mmul n n k R (msub n k B (mmul n n k A X))

def solveData (n k : Nat) (A B X R : Mat) : SolveData :=
  let E := residE n A R
  let W := residW n k A B X R
  { alpha := rowSumU n n E, rho := rowSumU n k W, rhoL := rowSumL n k W,
    nAU := rowSumU n n A, nAL := rowSumL n n A, nRU := rowSumU n n R, nRL := rowSumL n n R,
    mxU := rowSumU n k X, mxL := rowSumL n k X }

def solveCert (n k : Nat) (p : Int) (A B X R : Mat) : Verdict :=
  let d := solveData n k A B X R
  if !(Dy.lt d.alpha Dy.one) then .undecided else
  let t := tol1 p
  let oma := Dy.one - d.alpha
  let opa := Dy.one + d.alpha
  if Dy.le (d.rho * opa) (d.nAL * d.nRL * t * (d.mxL * oma - d.rho)) then .ok
  else if Dy.lt (opa * d.nAU * d.nRU * t * (d.mxU * oma + d.rho)) (d.rhoL * oma * oma) then .violates
  else .undecided

/-- least squares (overdetermined m×n, m ≥ n): the certificate for the normal equations AᴴA·x = Aᴴb, formed exactly -/
def lsqCert (m n k : Nat) (p : Int) (A B X R : Mat) : Verdict :=
  solveCert n k p (mmul n m n (conjT m n A) A) (mmul n m k (conjT m n A) B) X R

/-- "moderate condition number" made decidable: α < 1 and (upper bound of cond∞(A))·2^(10−p) < 1 -/
def condModerate (n : Nat) (p : Int) (A R : Mat) : Bool :=
  let alpha := rowSumU n n (residE n A R)
  Dy.lt alpha Dy.one && Dy.lt (rowSumU n n A * rowSumU n n R * tol1 p) (Dy.one - alpha)

/-- `inverse`: X̃ is the returned inverse, B = I. -/
def invCert (n : Nat) (p : Int) (A X R : Mat) : Verdict := solveCert n n p A (ident n) X R

/-- `det`: |d − det A| ≤ ‖A‖‖A⁻¹‖·2^(10−p)·|det A| decided on squares; `singular` iff det A = 0 exactly. -/
def detCert (n : Nat) (p : Int) (A : Mat) (d : G) (R : Mat) : Verdict :=
  let D := detN n A
  if D.isZero then .singular else
  let alpha := rowSumU n n (residE n A R)
  if !(Dy.lt alpha Dy.one) then .undecided else
  let t := tol1 p
  let oma := Dy.one - alpha
  let opa := Dy.one + alpha
  let e2 := (d - D).normSq
  let cl := rowSumL n n A * rowSumL n n R * t
  let cu := rowSumU n n A * rowSumU n n R * t
  if Dy.le (e2 * opa * opa) (cl * cl * D.normSq) then .ok
  else if Dy.lt (cu * cu * D.normSq) (e2 * oma * oma) then .violates
  else .undecided

/-! ## C30: factorisation identities (exact on the returned dyadic factors) -/

/-- ‖M‖_F² ≤ 4^(10−p)·S -/
def frobLe (r c : Nat) (p : Int) (M : Mat) (S : Dy) : Bool := Dy.le (frob2 r c M) (tol2 p * S)

def isPerm (n : Nat) (P : Mat) : Bool :=
  (allTo n fun i => allTo n fun j => (get P i j).eqv G.zero || (get P i j).eqv G.one) &&
  (allTo n fun i => (sumG n fun j => get P i j).eqv G.one) &&
  (allTo n fun j => (sumG n fun i => get P i j).eqv G.one)

/-- entries strictly above the diagonal are exactly 0 -/
def isLower (r c : Nat) (L : Mat) : Bool := allTo r fun i => allTo c fun j => decide (j ≤ i) || (get L i j).isZero
/-- entries more than `band` below the diagonal are exactly 0 (band 0: upper triangular, 1: Hessenberg) -/
def isUpperBand (band r c : Nat) (U : Mat) : Bool :=
  allTo r fun i => allTo c fun j => decide (i ≤ j + band) || (get U i j).isZero
def unitDiag (n : Nat) (L : Mat) : Bool := allTo n fun i => (get L i i).eqv G.one
def posRealDiag (n : Nat) (L : Mat) : Bool :=
  allTo n fun i => (get L i i).im.isZero && Dy.lt Dy.zero (get L i i).re

def luResid (n : Nat) (P A L U : Mat) : Mat := msub n n (mmul n n n P A) (mmul n n n L U)

/-- `lu`: P permutation, L unit lower, U upper, ‖P·A − L·U‖_F ≤ 2^(10−p)·‖L‖_F·‖U‖_F -/
def luCheck (n : Nat) (p : Int) (P A L U : Mat) : Bool :=
  isPerm n P && isLower n n L && unitDiag n L && isUpperBand 0 n n U &&
  frobLe n n p (luResid n P A L U) (frob2 n n L * frob2 n n U)

def orthResid (r c : Nat) (Q : Mat) : Mat := msub c c (mmul c r c (conjT r c Q) Q) (ident c)
/-- columns of the r×c matrix Q are orthonormal: ‖QᴴQ − I‖_F ≤ 2^(10−p)·√c -/
def orthCheck (r c : Nat) (p : Int) (Q : Mat) : Bool :=
  frobLe c c p (orthResid r c Q) (Dy.ofNat c)

def qrResid (m n q : Nat) (A Q R : Mat) : Mat := msub m n (mmul m q n Q R) A
/-- `qr`: A m×n, Q m×q, R q×n: orthonormal columns, R upper, ‖Q·R − A‖_F ≤ 2^(10−p)·‖A‖_F -/
def qrCheck (m n q : Nat) (p : Int) (A Q R : Mat) : Bool :=
  orthCheck m q p Q && isUpperBand 0 q n R && frobLe m n p (qrResid m n q A Q R) (frob2 m n A)

def cholResid (n : Nat) (A L : Mat) : Mat := msub n n (mmul n n n L (conjT n n L)) A
/-- `cholesky`: L lower with real positive diagonal, ‖L·Lᴴ − A‖_F ≤ 2^(10−p)·‖A‖_F -/
def choleskyCheck (n : Nat) (p : Int) (A L : Mat) : Bool :=
  isLower n n L && posRealDiag n L && frobLe n n p (cholResid n A L) (frob2 n n A)

/-! ## C31: eigen / SVD / Schur / Hessenberg residuals -/

def max1 (a : Dy) : Dy := Dy.max Dy.one a

def eigResid (n : Nat) (A V E : Mat) : Mat := msub n n (mmul n n n A V) (mmul n n n V (diagM n E))
/-- right eigenvectors: ‖A·V − V·diag(E)‖_F ≤ 2^(10−p)·‖A‖_F·max(1,‖V‖_F) -/
def eigCheck (n : Nat) (p : Int) (A V E : Mat) : Bool :=
  frobLe n n p (eigResid n A V E) (frob2 n n A * max1 (frob2 n n V))

def eigLResid (n : Nat) (A W E : Mat) : Mat := msub n n (mmul n n n W A) (mmul n n n (diagM n E) W)
/-- left eigenvectors (rows of W): ‖W·A − diag(E)·W‖_F ≤ 2^(10−p)·‖A‖_F·max(1,‖W‖_F) -/
def eigLCheck (n : Nat) (p : Int) (A W E : Mat) : Bool :=
  frobLe n n p (eigLResid n A W E) (frob2 n n A * max1 (frob2 n n W))

def allReal (n : Nat) (E : Mat) : Bool := allTo n fun i => (get E i 0).isReal
/-- E (n×1, real parts) ascending -/
def ascending (n : Nat) (E : Mat) : Bool :=
  allTo (n - 1) fun i => Dy.le (get E i 0).re (get E (i + 1) 0).re
def descending (n : Nat) (E : Mat) : Bool :=
  allTo (n - 1) fun i => Dy.le (get E (i + 1) 0).re (get E i 0).re
def nonneg (n : Nat) (E : Mat) : Bool := allTo n fun i => Dy.le Dy.zero (get E i 0).re

/-- `eigsy`/`eighe`/`eigh`: real ascending eigenvalues, orthonormal V, residual as `eigCheck` -/
def eighCheck (n : Nat) (p : Int) (A V E : Mat) : Bool :=
  allReal n E && ascending n E && orthCheck n n p V && eigCheck n p A V E

def rowOrthResid (r c : Nat) (V : Mat) : Mat := msub r r (mmul r c r V (conjT r c V)) (ident r)
def svdResid (m n k : Nat) (A U S V : Mat) : Mat :=
  msub m n (mmul m k n (mmul m k k U (diagM k S)) V) A
/-- `svd`: U m×k, S k×1, V k×n: S real, ≥ 0, descending; UᴴU ≈ I, V·Vᴴ ≈ I; ‖U·diag(S)·V − A‖_F ≤ 2^(10−p)·‖A‖_F -/
def svdCheck (m n k : Nat) (p : Int) (A U S V : Mat) : Bool :=
  allReal k S && nonneg k S && descending k S && orthCheck m k p U &&
  frobLe k k p (rowOrthResid k n V) (Dy.ofNat k) &&
  frobLe m n p (svdResid m n k A U S V) (frob2 m n A)

def simResid (n : Nat) (A Q T : Mat) : Mat :=
  msub n n (mmul n n n (mmul n n n Q T) (conjT n n Q)) A
/-- `schur` (band 0) / `hessenberg` (band 1): Q unitary, T banded upper, ‖Q·T·Qᴴ − A‖_F ≤ 2^(10−p)·‖A‖_F -/
def schurCheck (band n : Nat) (p : Int) (A Q T : Mat) : Bool :=
  orthCheck n n p Q && isUpperBand band n n T && frobLe n n p (simResid n A Q T) (frob2 n n A)

/-! ## C32: matrix-function identities -/

/-- ‖X − A‖_F ≤ 2^(10−p)·‖A‖_F·max(1,‖A‖_F)   (X = expm(logm A)) -/
def closeCheck (n : Nat) (p : Int) (A X : Mat) : Bool :=
  frobLe n n p (msub n n X A) (frob2 n n A * max1 (frob2 n n A))

def sqrtmResid (n : Nat) (A S : Mat) : Mat := msub n n (mmul n n n S S) A
/-- ‖S·S − A‖_F ≤ 2^(10−p)·‖A‖_F·max(1,‖A‖_F) -/
def sqrtmCheck (n : Nat) (p : Int) (A S : Mat) : Bool :=
  frobLe n n p (sqrtmResid n A S) (frob2 n n A * max1 (frob2 n n A))

/-- ‖P − A^k‖_F ≤ 2^(10−p)·‖A‖_F^k·max(1,‖A‖_F), A^k exact -/
def powmCheck (n k : Nat) (p : Int) (A P : Mat) : Bool :=
  frobLe n n p (msub n n P (mpow n A k)) (Dy.pow (frob2 n n A) k * max1 (frob2 n n A))

def cosSinResid (n : Nat) (C S : Mat) : Mat :=
  msub n n (madd n n (mmul n n n C C) (mmul n n n S S)) (ident n)
/-- ‖C² + S² − I‖_F ≤ 2^(10−p)·max(1,‖A‖_F)·max(√n, ‖C‖_F² + ‖S‖_F²) -/
def cosSinCheck (n : Nat) (p : Int) (A C S : Mat) : Bool :=
  let cs := frob2 n n C + frob2 n n S
  frobLe n n p (cosSinResid n C S) (max1 (frob2 n n A) * Dy.max (Dy.ofNat n) (cs * cs))

end Mp.Cert
