/-
  MpModel/Complex.lean — import-free executable model of the arithmetic part of
  mpmath/libmp/libmpc.py (complex numbers as pairs of raw mpf values).

  Conventions as in Core.lean.  Every function follows the branch structure of the Python
  function of the same name.  Python's default `rnd = round_fast` is `.d`; `prec = None`/`0`
  is `0`.  Tuple comparisons such as `b == fzero`, `re in _infs` are structural equality
  of the raw tuples, hence structural equality of `Mpf`.

  The last line of `mpc_pow_int` (`mpc_exp(mpc_mul_int(mpc_log(z, prec+10), n, prec+10), prec, rnd)`)
  calls transcendental functions which are not part of this model: `mpc_pow_int` takes that
  continuation as an explicit argument `fallback`.
-/
import MpModel.Core

namespace Mp

abbrev Mpc := Mpf × Mpf

def mpc_one  : Mpc := (fone, fzero)
def mpc_zero : Mpc := (fzero, fzero)
def mpc_two  : Mpc := (ftwo, fzero)
def mpc_half : Mpc := (fhalf, fzero)

/-- `x in _infs` -/
def inInfs (x : Mpf) : Bool := x == finf || x == fninf
/-- `x in _infs_nan` -/
def inInfsNan (x : Mpf) : Bool := x == finf || x == fninf || x == fnan

def mpc_is_inf (z : Mpc) : Bool :=
  if inInfs z.1 then true else if inInfs z.2 then true else false

def mpc_is_infnan (z : Mpc) : Bool :=
  if inInfsNan z.1 then true else if inInfsNan z.2 then true else false

def mpc_is_nonzero (z : Mpc) : Bool := z != mpc_zero

def mpc_conjugate (z : Mpc) (prec : Int) (rnd : Rnd := .d) : Mpc :=
  (z.1, mpf_neg z.2 prec rnd)

def mpc_add (z w : Mpc) (prec : Int) (rnd : Rnd := .d) : Mpc :=
  (mpf_add z.1 w.1 prec rnd, mpf_add z.2 w.2 prec rnd)

def mpc_add_mpf (z : Mpc) (x : Mpf) (prec : Int) (rnd : Rnd := .d) : Mpc :=
  (mpf_add z.1 x prec rnd, z.2)

def mpc_sub (z w : Mpc) (prec : Int := 0) (rnd : Rnd := .d) : Mpc :=
  (mpf_sub z.1 w.1 prec rnd, mpf_sub z.2 w.2 prec rnd)

def mpc_sub_mpf (z : Mpc) (p : Mpf) (prec : Int := 0) (rnd : Rnd := .d) : Mpc :=
  (mpf_sub z.1 p prec rnd, z.2)

def mpc_pos (z : Mpc) (prec : Int) (rnd : Rnd := .d) : Mpc :=
  (mpf_pos z.1 prec rnd, mpf_pos z.2 prec rnd)

def mpc_neg (z : Mpc) (prec : Int := 0) (rnd : Rnd := .d) : Mpc :=
  (mpf_neg z.1 prec rnd, mpf_neg z.2 prec rnd)

def mpc_shift (z : Mpc) (n : Int) : Mpc :=
  (mpf_shift z.1 n, mpf_shift z.2 n)

/-- `mpc_abs`: an mpf value, through `mpf_hypot`. -/
def mpc_abs (z : Mpc) (prec : Int) (rnd : Rnd := .d) : Except Err Mpf :=
  mpf_hypot z.1 z.2 prec rnd

def mpc_floor (z : Mpc) (prec : Int) (rnd : Rnd := .d) : Except Err Mpc := do
  let a ← mpf_floor z.1 prec rnd
  let b ← mpf_floor z.2 prec rnd
  pure (a, b)

def mpc_ceil (z : Mpc) (prec : Int) (rnd : Rnd := .d) : Except Err Mpc := do
  let a ← mpf_ceil z.1 prec rnd
  let b ← mpf_ceil z.2 prec rnd
  pure (a, b)

def mpc_nint (z : Mpc) (prec : Int) (rnd : Rnd := .d) : Except Err Mpc := do
  let a ← mpf_nint z.1 prec rnd
  let b ← mpf_nint z.2 prec rnd
  pure (a, b)

def mpc_frac (z : Mpc) (prec : Int) (rnd : Rnd := .d) : Except Err Mpc := do
  let a ← mpf_frac z.1 prec rnd
  let b ← mpf_frac z.2 prec rnd
  pure (a, b)

/-- `mpc_mul`: four exact products (`prec = 0`), one rounding per component. -/
def mpc_mul (z w : Mpc) (prec : Int) (rnd : Rnd := .d) : Mpc :=
  let a := z.1; let b := z.2; let c := w.1; let d := w.2
  let p := mpf_mul a c
  let q := mpf_mul b d
  let r := mpf_mul a d
  let s := mpf_mul b c
  let re := mpf_sub p q prec rnd
  let im := mpf_add r s prec rnd
  (re, im)

/-- `mpc_square`: `(a² − b²) + 2ab·i`; the imaginary part is a rounded product shifted by one. -/
def mpc_square (z : Mpc) (prec : Int) (rnd : Rnd := .d) : Mpc :=
  let a := z.1; let b := z.2
  let p := mpf_mul a a
  let q := mpf_mul b b
  let r := mpf_mul a b prec rnd
  let re := mpf_sub p q prec rnd
  let im := mpf_shift r 1
  (re, im)

def mpc_mul_mpf (z : Mpc) (p : Mpf) (prec : Int) (rnd : Rnd := .d) : Mpc :=
  (mpf_mul z.1 p prec rnd, mpf_mul z.2 p prec rnd)

/-- multiply by `i·x` -/
def mpc_mul_imag_mpf (z : Mpc) (x : Mpf) (prec : Int) (rnd : Rnd := .d) : Mpc :=
  let re := mpf_neg (mpf_mul z.2 x prec rnd)
  let im := mpf_mul z.1 x prec rnd
  (re, im)

def mpc_mul_int (z : Mpc) (n : Int) (prec : Int) (rnd : Rnd := .d) : Mpc :=
  (mpf_mul_int z.1 n prec rnd, mpf_mul_int z.2 n prec rnd)

/-- `mpc_div`: numerators and |w|² at `prec + 10` (mode `.d`), then two divisions. -/
def mpc_div (z w : Mpc) (prec : Int) (rnd : Rnd := .d) : Except Err Mpc :=
  let a := z.1; let b := z.2; let c := w.1; let d := w.2
  let wp := prec + 10
  let mag := mpf_add (mpf_mul c c) (mpf_mul d d) wp
  let t := mpf_add (mpf_mul a c) (mpf_mul b d) wp
  let u := mpf_sub (mpf_mul b c) (mpf_mul a d) wp
  do
    let re ← mpf_div t mag prec rnd
    let im ← mpf_div u mag prec rnd
    pure (re, im)

def mpc_div_mpf (z : Mpc) (p : Mpf) (prec : Int) (rnd : Rnd := .d) : Except Err Mpc := do
  let re ← mpf_div z.1 p prec rnd
  let im ← mpf_div z.2 p prec rnd
  pure (re, im)

def mpc_reciprocal (z : Mpc) (prec : Int) (rnd : Rnd := .d) : Except Err Mpc :=
  let a := z.1; let b := z.2
  let m := mpf_add (mpf_mul a a) (mpf_mul b b) (prec + 10)
  do
    let re ← mpf_div a m prec rnd
    let im0 ← mpf_div b m prec rnd
    pure (re, mpf_neg im0)

/-- `mpc_mpf_div(p, z, prec, rnd)`: real `p` divided by complex `z`. -/
def mpc_mpf_div (p : Mpf) (z : Mpc) (prec : Int) (rnd : Rnd := .d) : Except Err Mpc :=
  let a := z.1; let b := z.2
  let m := mpf_add (mpf_mul a a) (mpf_mul b b) (prec + 10)
  do
    let re ← mpf_div (mpf_mul a p) m prec rnd
    let im ← mpf_div (mpf_neg (mpf_mul b p)) m prec rnd
    pure (re, im)

/-- loop of `complex_int_pow`; state `(wre, wim)`, `(a, b)`, `n`.  The Python loop runs while
`n ≠ 0`; `n` is halved in every iteration, so `bitcount n` iterations suffice. -/
def complexIntPowLoop : Nat → Int → Int → Int → Int → Nat → Int × Int
  | 0, wre, wim, _, _, _ => (wre, wim)
  | fuel+1, wre, wim, a, b, n =>
    if n = 0 then (wre, wim) else
    let (wre', wim', n') : Int × Int × Nat :=
      if n % 2 = 1 then (wre * a - wim * b, wim * a + wre * b, n - 1) else (wre, wim, n)
    complexIntPowLoop fuel wre' wim' (a * a - b * b) (2 * a * b) (n' / 2)

/-- `complex_int_pow(a, b, n)`: `(a + b·i)^n` exactly, `n ≥ 0`. -/
def complex_int_pow (a b : Int) (n : Nat) : Int × Int :=
  complexIntPowLoop (bitcount n) 1 0 a b n

/-- The exact-power regime of `mpc_pow_int` (`exact_size < 10000`): align the two
mantissas to the common (smaller) exponent, power exactly, round each component once. -/
def mpcPowExact (a b : Mpf) (n : Nat) (prec : Int) (rnd : Rnd) : Mpc :=
  let aman : Int := if a.sign ≠ 0 then -(a.man : Int) else a.man
  let bman : Int := if b.sign ≠ 0 then -(b.man : Int) else b.man
  let de := a.exp - b.exp
  let (aman, aexp, bman, bexp) : Int × Int × Int × Int :=
    if de > 0 then (ishl aman de.toNat, b.exp, bman, b.exp)
    else (aman, a.exp, ishl bman (-de).toNat, a.exp)
  let (re, im) := complex_int_pow aman bman n
  (from_man_exp re (n * aexp) prec rnd, from_man_exp im (n * bexp) prec rnd)

/-- `mpc_pow_int(z, n, prec, rnd)`.  `fallback z n prec rnd` stands for
`mpc_exp(mpc_mul_int(mpc_log(z, prec+10), n, prec+10), prec, rnd)`. -/
def mpc_pow_int (fallback : Mpc → Int → Int → Rnd → Except Err Mpc)
    (z : Mpc) (n : Int) (prec : Int) (rnd : Rnd := .d) : Except Err Mpc :=
  let a := z.1; let b := z.2
  if b = fzero then do
    let v ← mpf_pow_int a n prec rnd
    pure (v, fzero)
  else if a = fzero then do
    let m := n % 4
    let v ← if m ≥ 2 then (do let w ← mpf_pow_int b n prec (negativeRnd rnd); pure (mpf_neg w))
            else mpf_pow_int b n prec rnd
    if m = 0 ∨ m = 2 then pure (v, fzero)
    else pure (fzero, v)
  else if n = 0 then .ok mpc_one
  else if n = 1 then .ok (mpc_pos z prec rnd)
  else if n = 2 then .ok (mpc_square z prec rnd)
  else if n = -1 then mpc_reciprocal z prec rnd
  else if h : n < 0 then do
    let w ← mpc_pow_int fallback z (-n) (prec + 4) .d
    mpc_reciprocal w prec rnd
  else
    let de := a.exp - b.exp
    let absDe : Int := de.natAbs
    let exactSize := n * (absDe + max a.bc b.bc)
    if exactSize < 10000 then .ok (mpcPowExact a b n.toNat prec rnd)
    else fallback z n prec rnd
termination_by (if n < 0 then 1 else 0 : Nat)
decreasing_by
  have h1 : ¬ (-n < 0) := by omega
  rw [if_neg h1, if_pos h]
  decide

end Mp
