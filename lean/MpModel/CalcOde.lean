/-
  MpModel/CalcOde.lean — closed-form reference values for C34 (`odefun`) and C36 (`chebyfit`, `fourier`,
  `fourierval`), on top of the reference expressions `Mp.Calc.Ref` of `MpModel/CalcRef.lean`.

  * `Ode`             : the initial value problems with rational data and closed-form solutions on which
                        the real `odefun` (`/repo/mpmath/calculus/odes.py`) is run:
                          `lin`      scalar linear          y' = a·y,              y(x0) = y0
                          `osc`      2-vector linear        y0' = y1, y1' = −w²·y0, y(x0) = [c0, s0]   (w ≠ 0)
                          `riccati`  scalar polynomial      y' = −y²,              y(x0) = y0 > 0
  * `Ode.solRef o i x` : component `i` of the exact solution at the rational point `x ≥ x0`, as a `Ref`
                        (so that `checkClose` can compare the interpolant's value with it rigorously).
  * `fourierRef`      : the trigonometric sum that `fourierval` (`approximation.py` lines 229-246) implements.
  * `polyCoeffDist`   : the exact rational number `Σ_j |d[j] − c[j]|·M^j`, a bound for the distance of two
                        polynomials on `[−M, M]` (used to compare the output of `chebyfit` with the input
                        polynomial; coefficient lists in INCREASING degree, i.e. `chebyfit`'s list reversed).
  That `solRef` denotes THE solution of the initial value problem (existence by differentiation, uniqueness
  by Grönwall), and the meaning of `fourierRef` / `polyCoeffDist`, is proved in `MpProofs/CalcOde.lean`.
  Import-free apart from `MpModel/CalcRef.lean`; core Lean `Rat`.
-/
import MpModel.CalcRef

namespace Mp.Calc

/-- initial value problems with rational data and closed-form solutions -/
inductive Ode
  /-- scalar `y' = a·y`, `y(x0) = y0`; solution `y0·exp(a·(x − x0))` -/
  | lin (a x0 y0 : Rat)
  /-- the system `y0' = y1`, `y1' = −w²·y0`, `y(x0) = [c0, s0]`, `w ≠ 0`; solution
  `y0 = c0·cos(w(x−x0)) + (s0/w)·sin(w(x−x0))`, `y1 = −c0·w·sin(w(x−x0)) + s0·cos(w(x−x0))` -/
  | osc (w x0 c0 s0 : Rat)
  /-- scalar `y' = −y²`, `y(x0) = y0 > 0`; solution `y0/(1 + y0·(x − x0))` for `x ≥ x0` -/
  | riccati (x0 y0 : Rat)
  deriving Inhabited, Repr

namespace Ode

/-- number of components of the state vector -/
def dim : Ode → Nat
  | .lin .. => 1
  | .osc .. => 2
  | .riccati .. => 1

/-- the initial point `x0` -/
def x0 : Ode → Rat
  | .lin _ x0 _ => x0
  | .osc _ x0 _ _ => x0
  | .riccati x0 _ => x0

/-- component `i` of the initial value (`0` for `i ≥ dim`) -/
def init : Ode → Nat → Rat
  | .lin _ _ y0, 0 => y0
  | .osc _ _ c0 _, 0 => c0
  | .osc _ _ _ s0, 1 => s0
  | .riccati _ y0, 0 => y0
  | _, _ => 0

/-- side conditions of the closed forms: `w ≠ 0` for `osc`, `y0 > 0` for `riccati` -/
def ok : Ode → Bool
  | .lin .. => true
  | .osc w _ _ _ => w != 0
  | .riccati _ y0 => decide (0 < y0)

/-- component `i` of the exact solution at `x`, without the side conditions -/
def solRefRaw : Ode → Nat → Rat → Ref
  | .lin a x0 y0, _, x => .mul (.rat y0) (.exp (.rat (a * (x - x0))))
  | .osc w x0 c0 s0, 0, x =>
      .add (.mul (.rat c0) (.cos (.rat (w * (x - x0))))) (.mul (.rat (s0 / w)) (.sin (.rat (w * (x - x0)))))
  | .osc w x0 c0 s0, _, x =>
      .add (.mul (.rat (-(c0 * w))) (.sin (.rat (w * (x - x0))))) (.mul (.rat s0) (.cos (.rat (w * (x - x0)))))
  | .riccati x0 y0, _, x => .rat (y0 / (1 + y0 * (x - x0)))

/-- component `i` of the exact solution at the rational point `x ≥ x0`; `none` when the side condition
fails, `i ≥ dim`, or `x < x0` (where `odefun` raises `ValueError`) -/
def solRef (o : Ode) (i : Nat) (x : Rat) : Option Ref :=
  if o.ok && decide (i < o.dim) && decide (o.x0 ≤ x) then some (o.solRefRaw i x) else none

end Ode

/-! ## C36 -/

/-- `Σ_{k} l[k]·trig(m·(n+k)·x)` for the coefficient list `l`, first index `n` -/
def trigSumRef (trig : Ref → Ref) (m : Ref) (x : Rat) : List Rat → Nat → Ref
  | [], _ => .rat 0
  | c :: cs, n =>
      .add (.mul (.rat c) (trig (.mul (.mul m (.rat (n : Nat))) (.rat x)))) (trigSumRef trig m x cs (n + 1))

/-- the value that `fourierval((cs, ss), [a, b], x)` is defined to compute:
`Σ_n cs[n]·cos(m·n·x) + Σ_n ss[n]·sin(m·n·x)` with `m = 2π/(b − a)`; `none` if `a = b`
(Python: `ZeroDivisionError`).  (The code skips zero coefficients, which does not change the sum.) -/
def fourierRef (cs ss : List Rat) (a b x : Rat) : Option Ref :=
  if a = b then none
  else
    let m : Ref := .mul (.rat (2 / (b - a))) .pi
    some (.add (trigSumRef .cos m x cs 0) (trigSumRef .sin m x ss 0))

/-- `|q|` -/
def ratAbs (q : Rat) : Rat := if q < 0 then -q else q

/-- `Σ_j |c[j]|·M^j` in Horner form -/
def absHorner : List Rat → Rat → Rat
  | [], _ => 0
  | c :: cs, M => ratAbs c + M * absHorner cs M

/-- `Σ_j |d[j] − c[j]|·M^j` (missing entries are `0`; coefficient lists in increasing degree), in Horner
form `|d[0] − c[0]| + M·(|d[1] − c[1]| + M·(…))` -/
def polyCoeffDist : List Rat → List Rat → Rat → Rat
  | [], cs, M => absHorner cs M
  | d :: ds, [], M => ratAbs d + M * polyCoeffDist ds [] M
  | d :: ds, c :: cs, M => ratAbs (d - c) + M * polyCoeffDist ds cs M

end Mp.Calc
