/-
  MpModel/IntFun.lean — import-free executable model of the integer-valued / number-theoretic
  functions of mpmath/libmp/libintmath.py (pure-Python backend):

    ifac, ifac2 (with their memo dictionaries), ifib (with `_cache`), eulernum (with `_cache`),
    stirling1, stirling2 (which calls `ifac`, hence threads the factorial memo), moebius,
    list_primes, isprime, gcd, and `primepi` of mpmath/functions/zeta.py.

  Conventions
  * Python `int` = `Int` (arguments, dictionary keys and values) or `Nat` (after a sign test).
  * A Python `dict` with integer keys is an insertion-ordered association list `IDict`
    (`dget` = `.get`, `dset` = `d[k] = v` (replace or append), `dlen` = `len`, `dmaxKey` = `max(d)`).
    Caches are explicit state: every stateful function takes the cache(s) and returns them.
  * `for x in xrange(..)` loops without early exit are `List.foldl` over the `List.range'` of the same
    bounds; loops with early exit / `while` loops are structural recursions on a fuel argument whose
    value is given at the call site (number of range elements, or an upper bound on the iterations).
  * `//` and `%` are `Int.fdiv` / `Int.fmod` (floor operations) where the operands are `Int`.
  * Python `None` returned by falling off the end of `eulernum` is `none`.
-/
import MpModel.Core

namespace Mp

/-- exceptions that the modelled functions can raise -/
inductive PyErr
  | keyError | valueError | typeError
deriving DecidableEq, Repr, Inhabited

/-! ## dictionaries -/

/-- insertion-ordered association list with unique keys (by construction through `dset`) -/
abbrev IDict := List (Int × Int)

/-- `d.get(k)` -/
def dget : IDict → Int → Option Int
  | [], _ => none
  | (k', v) :: t, k => if k' = k then some v else dget t k

/-- `d[k] = v` -/
def dset : IDict → Int → Int → IDict
  | [], k, v => [(k, v)]
  | (k', v') :: t, k, v => if k' = k then (k, v) :: t else (k', v') :: dset t k v

/-- `len(d)` -/
def dlen (d : IDict) : Int := d.length

/-- `max(d)` (largest key); `none` for the empty dict (Python raises ValueError) -/
def dmaxKey : IDict → Option Int
  | [] => none
  | (k, _) :: t => match dmaxKey t with
    | none => some k
    | some m => some (if m < k then k else m)

/-- the `f = memo.get(n); if f: return f` idiom: a hit only if the stored value is truthy -/
def dgetTruthy (d : IDict) (k : Int) : Option Int :=
  match dget d k with
  | some f => if f ≠ 0 then some f else none
  | none => none

/-! ## ifac -/

def MAX_FACTORIAL_CACHE : Int := 1000

/-- the memo a fresh interpreter starts with: `{0:1, 1:1}` -/
def ifacMemo0 : IDict := [(0, 1), (1, 1)]

/-- `while k <= n: p *= k; if k <= MAX: memo[k] = p; k += 1` -/
def ifacLoop : Nat → Int → Int → Int → IDict → Int × IDict
  | 0, _, p, _, memo => (p, memo)
  | fuel+1, k, p, n, memo =>
    if k ≤ n then
      let p := p * k
      let memo := if k ≤ MAX_FACTORIAL_CACHE then dset memo k p else memo
      ifacLoop fuel (k+1) p n memo
    else (p, memo)

/-- `ifac(n, memo)`; fuel `n+1-k` = exact number of iterations of the while loop -/
def ifac (n : Int) (memo : IDict) : Except PyErr (Int × IDict) :=
  match dgetTruthy memo n with
  | some f => .ok (f, memo)
  | none =>
    let k := dlen memo
    match dget memo (k-1) with
    | none => .error .keyError
    | some p => .ok (ifacLoop (n + 1 - k).toNat k p n memo)

/-! ## ifac2 -/

/-- `[{0:1}, {1:1}]` -/
def ifac2Memo0 : IDict × IDict := ([(0, 1)], [(1, 1)])

/-- `while k < n: k += 2; p *= k; if k <= MAX: memo[k] = p` -/
def ifac2Loop : Nat → Int → Int → Int → IDict → Int × IDict
  | 0, _, p, _, memo => (p, memo)
  | fuel+1, k, p, n, memo =>
    if k < n then
      let k := k + 2
      let p := p * k
      let memo := if k ≤ MAX_FACTORIAL_CACHE then dset memo k p else memo
      ifac2Loop fuel k p n memo
    else (p, memo)

/-- `ifac2(n, memo_pair)`; `n & 1` is `n.emod 2` (Python `&` on negative ints is two's complement);
fuel `n-k` bounds the iterations (each adds 2 to `k`). -/
def ifac2 (n : Int) (pair : IDict × IDict) : Except PyErr (Int × (IDict × IDict)) :=
  let odd := n % 2 = 1
  let memo := if odd then pair.2 else pair.1
  match dgetTruthy memo n with
  | some f => .ok (f, pair)
  | none =>
    match dmaxKey memo with
    | none => .error .valueError
    | some k =>
      match dget memo k with
      | none => .error .keyError
      | some p =>
        let r := ifac2Loop (n - k).toNat k p n memo
        .ok (r.1, if odd then (pair.1, r.2) else (r.2, pair.2))

/-! ## ifib -/

/-- Dijkstra's doubling loop `while n: if n & 1: ... n -= 1 else: ... n >>= 1`; returns `b`.
Fuel `n` bounds the iterations (each strictly decreases `n`). -/
def ifibLoop : Nat → Nat → Int → Int → Int → Int → Int
  | 0, _, _, b, _, _ => b
  | fuel+1, n, a, b, p, q =>
    if n = 0 then b
    else if n % 2 = 1 then
      let aq := a * q
      ifibLoop fuel (n - 1) (b*q + aq + a*p) (b*p + aq) p q
    else
      let qq := q * q
      ifibLoop fuel (n / 2) a b (p*p + qq) (qq + 2*p*q)

/-- body of `ifib` for `n ≥ 0` -/
def ifibNonneg (n : Nat) (cache : IDict) : Int × IDict :=
  match dget cache n with          -- `if n in _cache: return _cache[n]`
  | some v => (v, cache)
  | none =>
    let b := ifibLoop n n 1 0 0 1
    (b, if n < 250 then dset cache n b else cache)

/-- `ifib(n, _cache)`; the fresh cache is `[]` -/
def ifib (n : Int) (cache : IDict) : Int × IDict :=
  if n < 0 then
    let r := ifibNonneg (-n).toNat cache
    ((-1) ^ (-n + 1).toNat * r.1, r.2)
  else ifibNonneg n.toNat cache

/-! ## eulernum -/

def MAX_EULER_CACHE : Nat := 500

/-- `{0: 1}` -/
def eulerCache0 : IDict := [(0, 1)]

/-- `(-1)**(n//2)` -/
def eulerSign (n : Nat) : Int := (-1) ^ (n / 2)

/-- `for j in range(j0, -1, -2): a[j+1] = (j-1)*a[j] + (j+1)*a[j+2]`; first argument = number of
remaining iterations, `j` runs `j0, j0-2, …`.  The list accesses are always in range
(`len a = n+5`, largest index `n+3`); `getD`'s default is never used (see `MpProofs`). -/
def eulerUpd : Nat → Nat → List Int → List Int
  | 0, _, a => a
  | cnt+1, j, a =>
    eulerUpd cnt (j - 2) (a.set (j+1) (((j : Int) - 1) * a.getD j 0 + ((j : Int) + 1) * a.getD (j+2) 0))

/-- `for k in range(k0, -1, -2): suma += a[k+1]; if n <= MAX: _cache[n] = ((-1)**(n//2))*(suma // 2**n)` -/
def eulerSum : Nat → Nat → Nat → List Int → Int → IDict → Int × IDict
  | 0, _, _, _, suma, cache => (suma, cache)
  | cnt+1, k, n, a, suma, cache =>
    let suma := suma + a.getD (k+1) 0
    let cache := if n ≤ MAX_EULER_CACHE then dset cache n (eulerSign n * suma.fdiv (2 ^ n)) else cache
    eulerSum cnt (k - 2) n a suma cache

/-- number of elements of `range(n+1, -1, -2)` -/
def eulerCnt (n : Nat) : Nat := (n + 1) / 2 + 1

/-- the outer `for n in range(1, m+1)` loop with its early `return`; first argument = remaining
iterations; falling off the end returns Python `None`. -/
def eulerOuter : Nat → Nat → Nat → List Int → IDict → Option Int × IDict
  | 0, _, _, _, cache => (none, cache)
  | cnt+1, n, m, a, cache =>
    let a := eulerUpd (eulerCnt n) (n + 1) a
    let a := a ++ [0]
    let r := eulerSum (eulerCnt n) (n + 1) n a 0 cache
    if n = m then (some ((eulerSign n * r.1).fdiv (2 ^ n)), r.2)
    else eulerOuter cnt (n + 1) m a r.2

/-- `eulernum(m, _cache)`; `none` is Python's `None` (returned for even `m < 0`). -/
def eulernum (m : Int) (cache : IDict) : Option Int × IDict :=
  if m % 2 = 1 then (some 0, cache)
  else match dgetTruthy cache m with
  | some f => (some f, cache)
  | none => eulerOuter m.toNat 1 m.toNat [0, 0, 1, 0, 0, 0] cache

/-! ## Stirling numbers -/

/-- `for j in xrange(J, 0, -1): L[j] = (m-1) * L[j] + L[j-1]` -/
def st1Inner : Nat → Int → List Int → List Int
  | 0, _, L => L
  | j+1, m, L => st1Inner j m (L.set (j+1) ((m - 1) * L.getD (j+1) 0 + L.getD j 0))

/-- `stirling1(n, k)` -/
def stirling1 (n k : Int) : Except PyErr Int :=
  if n < 0 ∨ k < 0 then .error .valueError
  else if k ≥ n then .ok (if n = k then 1 else 0)
  else if k < 1 then .ok 0
  else
    let kk := k.toNat
    let L0 : List Int := (List.replicate (kk + 1) 0).set 1 1
    let L := (List.range' 2 (n.toNat - 1)).foldl (fun L m => st1Inner (min kk m) m L) L0
    .ok ((-1) ^ (n + k).toNat * L.getD kk 0)

/-- one pass of the `for j in xrange(k+1)` loop of `stirling2` on the state `(s, t)` -/
def st2Step (n k : Nat) (st : Int × Int) (j : Nat) : Int × Int :=
  let s := st.1
  let t := st.2
  let s := if (k + j) % 2 = 1 then s - t * (j : Int) ^ n else s + t * (j : Int) ^ n
  (s, (t * ((k : Int) - j)).fdiv ((j : Int) + 1))

/-- `stirling2(n, k)`; calls `ifac(k)`, hence takes and returns the factorial memo -/
def stirling2 (n k : Int) (memo : IDict) : Except PyErr (Int × IDict) :=
  if n < 0 ∨ k < 0 then .error .valueError
  else if k ≥ n then .ok (if n = k then 1 else 0, memo)
  else if k ≤ 1 then .ok (if k = 1 then 1 else 0, memo)
  else
    let st := (List.range (k.toNat + 1)).foldl (st2Step n.toNat k.toNat) (0, 1)
    match ifac k memo with
    | .error e => .error e
    | .ok (f, memo) => .ok (st.1.fdiv f, memo)

/-! ## moebius -/

/-- the `for p in xrange(2, n+1)` loop with its early `return 0`; first argument = remaining iterations -/
def moebiusLoop : Nat → Nat → Nat → List Nat → Int
  | 0, _, _, factors => (-1) ^ factors.length
  | cnt+1, p, n, factors =>
    if n % p = 0 then
      if n % (p ^ 2) = 0 then 0
      else if (factors.map (fun f => p % f)).sum = 0 then moebiusLoop cnt (p + 1) n (factors ++ [p])
      else moebiusLoop cnt (p + 1) n factors
    else moebiusLoop cnt (p + 1) n factors

/-- `moebius(n)` -/
def moebius (n : Int) : Int :=
  let n := n.natAbs
  if n < 2 then n else moebiusLoop (n - 1) 2 n []

/-! ## list_primes, primepi -/

/-- `for j in xrange(i**2, n, i): sieve[j] = 0` -/
def sieveCross (N i : Nat) (sieve : Array Nat) : Array Nat :=
  (List.range' (i ^ 2) ((N - i ^ 2 + i - 1) / i) i).foldl (fun s j => s.setIfInBounds j 0) sieve

/-- `list_primes(n)`.  `int(n**0.5)` is modelled by the exact integer square root (the float
computation agrees with it for `n < 2^52`); for `n + 1 < 0` the float power is complex and `int()`
raises TypeError. -/
def list_primes (n : Int) : Except PyErr (List Nat) :=
  let n := n + 1
  if n < 0 then .error .typeError else
  let N := n.toNat
  let sieve : Array Nat := ([0, 0] ++ (List.range N).drop 2).toArray     -- sieve[:2] = [0, 0]
  let sieve := (List.range' 2 (Nat.sqrt N + 1 - 2)).foldl
    (fun s i => if s.getD i 0 ≠ 0 then sieveCross N i s else s) sieve
  .ok (sieve.toList.filter (· ≠ 0))

/-- `primepi(x)` for integer `x` (mpmath/functions/zeta.py) -/
def primepi (x : Int) : Except PyErr Int :=
  if x < 2 then .ok 0 else
  match list_primes x with
  | .error e => .error e
  | .ok l => .ok l.length

/-! ## isprime -/

def small_odd_primes : List Nat := [3,5,7,11,13,17,19,23,29,31,37,41,43,47]

/-- square-and-multiply `a^d mod n`, used for the builtin `pow(a, d, n)`; fuel bounds the bit length of `d` -/
def powmodAux : Nat → Nat → Nat → Nat → Nat → Nat
  | 0, _, _, _, acc => acc
  | fuel+1, a, d, n, acc =>
    if d = 0 then acc
    else powmodAux fuel (a * a % n) (d / 2) n (if d % 2 = 1 then acc * a % n else acc)

/-- `pow(a, d, n)` for `n ≥ 1` -/
def powmod (a d n : Nat) : Nat := powmodAux (bitcount d) (a % n) d n (1 % n)

/-- `for r in xrange(1, s): x = x**2 % n; if x == m: return True` then `return False`;
first argument = remaining iterations -/
def mrLoop : Nat → Nat → Nat → Nat → Bool
  | 0, _, _, _ => false
  | cnt+1, x, n, m =>
    let x := x ^ 2 % n
    if x = m then true else mrLoop cnt x n m

/-- the inner function `test(a)` -/
def mrTest (n m s d a : Nat) : Bool :=
  let x := powmod a d n
  if x = 1 ∨ x = m then true else mrLoop (s - 1) x n m

/-- `isprime(n)` -/
def isprime (n : Int) : Bool :=
  if n % 2 = 0 then n == 2
  else if n < 50 then (n ≥ 0 && small_odd_primes.contains n.toNat)
  else
    let n := n.toNat
    if small_odd_primes.any (fun p => n % p = 0) then false
    else
      let m := n - 1
      let s := trailing m
      let d := m >>> s
      let witnesses : List Nat :=
        if n < 1373653 then [2, 3]
        else if n < 341550071728321 then [2, 3, 5, 7, 11, 13, 17]
        else small_odd_primes
      witnesses.all (mrTest n m s d)

/-! ## gcd -/

/-- `while b: a, b = b, a % b`; fuel `|b|+1` bounds the iterations -/
def gcdLoop : Nat → Int → Int → Int
  | 0, a, _ => a
  | fuel+1, a, b => if b ≠ 0 then gcdLoop fuel b (a.fmod b) else a

/-- `gcd(*args)` -/
def gcd (args : List Int) : Int :=
  args.foldl (fun a b => if a ≠ 0 then gcdLoop (b.natAbs + 1) a b else b) 0

/-! ## integer square roots: the integer loops of `isqrt_small_python` and `sqrtrem_python`

The floating-point initial estimates (`int(x**0.5 * 1.00000000000001) + 1`, the shifted estimate for
`x ≥ 2^800`, and the value of `isqrt_fast`) are NOT modelled: they enter as the parameters `r0` / `y0`. -/

/-- `while 1: y = (r + x//r) >> 1; if y >= r: return r; r = y`; fuel `r` bounds the iterations -/
def isqrtNewton : Nat → Nat → Nat → Nat
  | 0, _, r => r
  | fuel+1, x, r =>
    let y := (r + x / r) >>> 1
    if y ≥ r then r else isqrtNewton fuel x y

/-- `isqrt_small_python(x)` for `x ≥ 2^50`, `r0` = the initial estimate -/
def isqrt_small (x r0 : Nat) : Nat := isqrtNewton r0 x r0

/-- `while rem < 0: y -= 1; rem += (1+2*y)` -/
def sqrtremDown : Nat → Int → Int → Int × Int
  | 0, y, rem => (y, rem)
  | fuel+1, y, rem =>
    if rem < 0 then
      let y := y - 1
      sqrtremDown fuel y (rem + (1 + 2 * y))
    else (y, rem)

/-- `while rem > 2*(1+y): y += 1; rem -= (1+2*y)` -/
def sqrtremUp : Nat → Int → Int → Int × Int
  | 0, y, rem => (y, rem)
  | fuel+1, y, rem =>
    if rem > 2 * (1 + y) then
      let y := y + 1
      sqrtremUp fuel y (rem - (1 + 2 * y))
    else (y, rem)

/-- `sqrtrem_python(x)` for `x ≥ 2^600`, with `y0` standing for the value returned by `isqrt_fast(x)` -/
def sqrtremLarge (x : Nat) (y0 : Int) : Int × Int :=
  let y := y0 + 1
  let rem := (x : Int) - y * y
  let r := sqrtremDown (y.toNat + 1) y rem
  if r.2 ≠ 0 then sqrtremUp (x + 1) r.1 r.2 else r

/-! ## reference values for float-path functions at integer arguments

`binomial`, `rf`, `ff`, `bell` (mpmath/functions/factorials.py, functions.py) and `bernfrac` (gammazeta.py) have no integer
code path: they go through `gammaprod`, the Dobinski series and `mpf_bernoulli`.  The functions below are NOT models of that
code; they are the exact reference values the driver answers with (`w_binomial`, `w_rf`, `w_ff`, `w_bell`, `bernfrac`). -/

/-- generalised binomial coefficient `C(n,k)` for integer `n`, `k` (0 for `k < 0`), running product
`t ← t*(n-j) // (j+1)` (each division is exact) -/
def binomialRef (n k : Int) : Int :=
  if k < 0 then 0 else (List.range k.toNat).foldl (fun t (j : Nat) => (t * (n - (j : Int))).fdiv ((j : Int) + 1)) 1

/-- rising factorial `x (x+1) ⋯ (x+n-1)` -/
def rfRef (x : Int) (n : Nat) : Int := (List.range n).foldl (fun v (i : Nat) => v * (x + (i : Int))) 1

/-- falling factorial `x (x-1) ⋯ (x-n+1)` -/
def ffRef (x : Int) (n : Nat) : Int := (List.range n).foldl (fun v (i : Nat) => v * (x - (i : Int))) 1

/-- `[B(0), …, B(n-1)]` Bell numbers by `B(m+1) = ∑_{i ≤ m} C(m,i) B(m-i)` -/
def bellTable : Nat → List Int
  | 0 => []
  | n+1 =>
    let t := bellTable n
    t ++ [if n = 0 then 1 else
      ((List.range n).map (fun (i : Nat) => binomialRef ((n - 1 : Nat) : Int) (i : Int) * t.getD (n - 1 - i) 0)).sum]

def bellRef (n : Nat) : Int := (bellTable (n + 1)).getD n 0

/-- `[B_0, …, B_{n-1}]` Bernoulli numbers (`B_1 = -1/2`) by the exact rational recurrence
`B_m = -(1/(m+1)) ∑_{k<m} C(m+1,k) B_k` -/
def bernTable : Nat → List Rat
  | 0 => []
  | n+1 =>
    let t := bernTable n
    t ++ [if n = 0 then 1 else
      -(((List.range n).map (fun (k : Nat) => ((binomialRef ((n + 1 : Nat) : Int) (k : Int) : Int) : Rat) * t.getD k 0)).sum) / ((n + 1 : Nat) : Rat)]

/-- `bernfrac(n)` reference: reduced numerator and denominator of `B_n` -/
def bernfracRef (n : Nat) : Int × Nat :=
  let b := (bernTable (n + 1)).getD n 0
  (b.num, b.den)

end Mp
