/-
  MpModel/DrvStr.lean — driver ops for the string conversions (MpModel/Str.lean).
  Extra token formats:
    str   = comma-separated decimal code points, `-` for the empty string   (e.g. "1.5" = 49,46,53)
    bound = `-` (default) | `ninf` | `pinf` | signed decimal
  Answers:  S:<string>    T:<sign>,<digits>,<exp>    (plus the formats of Driver.lean)
-/
import MpModel.Core
import MpModel.Str
import MpModel.StrIv

open Mp

namespace DrvStr

def hexDigit (c : Char) : Option Nat :=
  if '0' ≤ c ∧ c ≤ '9' then some (c.toNat - '0'.toNat)
  else if 'a' ≤ c ∧ c ≤ 'f' then some (c.toNat - 'a'.toNat + 10)
  else if 'A' ≤ c ∧ c ≤ 'F' then some (c.toNat - 'A'.toNat + 10)
  else none

def parseHex (s : String) : Option Nat :=
  if s.isEmpty then none else
  s.foldl (fun acc c => match acc, hexDigit c with
    | some a, some d => some (a * 16 + d)
    | _, _ => none) (some 0)

def parseInt (s : String) : Option Int :=
  if s.startsWith "-" then (s.drop 1).toNat?.map (fun n => -(n : Int))
  else if s.startsWith "+" then (s.drop 1).toNat?.map (fun n => (n : Int))
  else s.toNat?.map (fun n => (n : Int))

def parseRnd (s : String) : Option Rnd :=
  match s with
  | "n" => some .n | "f" => some .f | "c" => some .c | "u" => some .u | "d" => some .d
  | _ => none

def parseMpf (s : String) : Option Mpf :=
  match s.splitOn ":" with
  | [a, b, c, d] => do
    let sign ← a.toNat?
    let man ← parseHex b
    let exp ← parseInt c
    let bc ← parseInt d
    pure ⟨sign, man, exp, bc⟩
  | _ => none

def hexStr (n : Nat) : String := String.ofList (Nat.toDigits 16 n)

def showMpf (x : Mpf) : String := s!"{x.sign}:{hexStr x.man}:{x.exp}:{x.bc}"

def showErr : Err → String
  | .zeroDiv => "E:ZeroDivisionError"
  | .value => "E:ValueError"
  | .complexResult => "E:ComplexResult"
  | .notImpl => "E:NotImplementedError"
  | .overflow => "E:OverflowError"
  | .type => "E:TypeError"

def parseCodes : List String → Option (List Char)
  | [] => some []
  | x :: xs => do
    let n ← x.toNat?
    let r ← parseCodes xs
    pure (Char.ofNat n :: r)

def parseStr (s : String) : Option (List Char) :=
  if s = "-" then some [] else parseCodes (s.splitOn ",")

def parseBound (s : String) : Option (Option Bound) :=
  if s = "-" then some none
  else if s = "ninf" then some (some .ninf)
  else if s = "pinf" then some (some .pinf)
  else (parseInt s).map (fun i => some (.fin i))

def parseBool (s : String) : Option Bool :=
  if s = "1" then some true else if s = "0" then some false else none

def showManExp (r : Except Err (Int × Int)) : String :=
  match r with
  | .ok (a, b) => s!"P:I:{a},I:{b}"
  | .error e => showErr e

def showE (r : Except Err Mpf) : String :=
  match r with
  | .ok x => showMpf x
  | .error e => showErr e

def showDigits (r : Except Err (List Char × List Char × Int)) : String :=
  match r with
  | .ok (a, b, c) => s!"T:{String.ofList a},{String.ofList b},{c}"
  | .error e => showErr e

def showS (r : Except Err (List Char)) : String :=
  match r with
  | .ok l => "S:" ++ String.ofList l
  | .error e => showErr e

def showIv (r : Except IvErr (Mpf × Mpf)) : String :=
  match r with
  | .ok (a, b) => s!"P:{showMpf a},{showMpf b}"
  | .error (.core e) => showErr e
  | .error .assertion => "E:Other:AssertionError"

def answer (toks : List String) : Option String :=
  match toks with
  | ["mpi_from_str", l, p] => do pure (showIv (mpi_from_str (← parseStr l) (← parseInt p)))
  | ["iv_convert_str_pair", a, b, p] => do
    pure (showIv (iv_convert_str_pair (← parseStr a) (← parseStr b) (← parseInt p)))
  | ["float_ok", l] => do pure (if floatOK (← parseStr l) then "B:1" else "B:0")
  | ["py_int", l, lim] => do
    match pyInt (← parseStr l) (← lim.toNat?) with
    | .ok v => pure s!"I:{v}"
    | .error e => pure (showErr e)
  | ["str_to_man_exp", l] => do pure (showManExp (strToManExp (← parseStr l)))
  | ["str_to_man_exp", l, lim] => do pure (showManExp (strToManExp (← parseStr l) (← lim.toNat?)))
  | ["from_str", l, p, r] => do pure (showE (fromStr (← parseStr l) (← parseInt p) (← parseRnd r)))
  | ["from_str", l, p, r, lim] => do
    pure (showE (fromStr (← parseStr l) (← parseInt p) (← parseRnd r) (← lim.toNat?)))
  | ["to_digits_exp", x, d] => do pure (showDigits (toDigitsExp (← parseMpf x) (← d.toNat?) fzero fzero))
  | ["to_digits_exp", x, d, a, b] => do
    pure (showDigits (toDigitsExp (← parseMpf x) (← d.toNat?) (← parseMpf a) (← parseMpf b)))
  | ["to_str", x, d, st, mn, mx, sz] => do
    pure (showS (toStr (← parseMpf x) (← d.toNat?) fzero fzero (← parseBool st) (← parseBound mn)
      (← parseBound mx) (← parseBool sz)))
  | ["to_str", x, d, st, mn, mx, sz, a, b] => do
    pure (showS (toStr (← parseMpf x) (← d.toNat?) (← parseMpf a) (← parseMpf b) (← parseBool st)
      (← parseBound mn) (← parseBound mx) (← parseBool sz)))
  | ["repr_dps", n] => do pure s!"I:{repr_dps (← n.toNat?)}"
  | ["prec_to_dps", n] => do pure s!"I:{prec_to_dps (← n.toNat?)}"
  | ["dps_to_prec", n] => do pure s!"I:{dps_to_prec (← n.toNat?)}"
  | ["bitprec", n] => do pure s!"I:{bitprecOf (← n.toNat?)}"
  | ["fixdps", n] => do pure s!"I:{fixdpsOf (← n.toNat?)}"
  | ["numeral", n, sz] => do pure ("S:" ++ String.ofList (numeral (← parseHex n) (← sz.toNat?)))
  | _ => none

end DrvStr
