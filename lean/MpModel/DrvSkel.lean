/-
  MpModel/DrvSkel.lean — driver ops for the precision-conversion model (C11).
    prec_to_dps <int>   →  I:<int>
    dps_to_prec <int>   →  I:<int>
    set_prec <int>      →  P:I:<prec>,I:<dps>     (state after `ctx.prec = n`)
    set_dps <int>       →  P:I:<prec>,I:<dps>     (state after `ctx.dps = n`)
-/
import MpModel.Skel

namespace Mp.DrvSkel

def parseInt (s : String) : Option Int :=
  if s.startsWith "-" then (s.drop 1).toNat?.map (fun n => -(n : Int))
  else if s.startsWith "+" then (s.drop 1).toNat?.map (fun n => (n : Int))
  else s.toNat?.map (fun n => (n : Int))

def answer (toks : List String) : Option String :=
  match toks with
  | ["prec_to_dps", n] => do pure s!"I:{Mp.precToDps (← parseInt n)}"
  | ["dps_to_prec", n] => do pure s!"I:{Mp.dpsToPrec (← parseInt n)}"
  | ["set_prec", n] => do
      let σ := (Mp.Skel.St.mk 53 15).setPrec (← parseInt n)
      pure s!"P:I:{σ.prec},I:{σ.dps}"
  | ["set_dps", n] => do
      let σ := (Mp.Skel.St.mk 53 15).setDps (← parseInt n)
      pure s!"P:I:{σ.prec},I:{σ.dps}"
  | _ => none

end Mp.DrvSkel
