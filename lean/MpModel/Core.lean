/-
  MpModel/Core.lean — import-free executable model of mpmath/libmp/libmpf.py (arithmetic core).

  Conventions (see DESIGN.md §1.4, §3):
  * Python `int` is modelled by `Nat`/`Int`; `>>`, `//`, `%` are floor operations.
  * A raw mpf tuple `(sign, man, exp, bc)` is the structure `Mpf`.
  * `bitcount`, `trailing` are modelled by their mathematical meaning
    (bit length, 2-adic valuation), not by the table-driven Python loops.
  * Every function follows the branch structure of the Python function of the same name.
-/

namespace Mp

inductive Rnd | n | f | c | u | d
deriving DecidableEq, Repr, Inhabited

structure Mpf where
  sign : Nat
  man  : Nat
  exp  : Int
  bc   : Int
deriving DecidableEq, Repr, Inhabited

inductive Err
  | zeroDiv | value | complexResult | notImpl | overflow | type
deriving DecidableEq, Repr, Inhabited

def fzero  : Mpf := ⟨0, 0, 0, 0⟩
def fnzero : Mpf := ⟨1, 0, 0, 0⟩
def fone   : Mpf := ⟨0, 1, 0, 1⟩
def fnone  : Mpf := ⟨1, 1, 0, 1⟩
def ftwo   : Mpf := ⟨0, 1, 1, 1⟩
def ften   : Mpf := ⟨0, 5, 1, 3⟩
def fhalf  : Mpf := ⟨0, 1, -1, 1⟩
def fnan   : Mpf := ⟨0, 0, -123, -1⟩
def finf   : Mpf := ⟨0, 0, -456, -2⟩
def fninf  : Mpf := ⟨1, 0, -789, -3⟩

/-- bit length of a natural number (`bitcount` / `int.bit_length`). -/
def bitcount (n : Nat) : Nat := if n = 0 then 0 else Nat.log2 n + 1

/-- fuel-driven count of trailing zero bits. -/
def trailingAux : Nat → Nat → Nat
  | 0, _ => 0
  | fuel+1, n => if n % 2 = 1 then 0 else trailingAux fuel (n / 2) + 1

/-- number of trailing zero bits (`trailing`); 0 for 0. -/
def trailing (n : Nat) : Nat := if n = 0 then 0 else trailingAux (bitcount n) n

/-- `shifts_down[rnd][sign]` (only meaningful for the four directed modes). -/
def shiftsDown : Rnd → Nat → Bool
  | .f, s => s == 0
  | .c, s => s != 0
  | .d, _ => true
  | .u, _ => false
  | .n, _ => true

/-- The inline rounding of a positive mantissa by `n ≥ 1` bits, as in `_normalize`:
nearest-even via the `t & 1 and ((t & 2) or (man & h_mask))` test, floor shift when
`shifts_down[rnd][sign]`, otherwise `-((-man) >> n)` i.e. the ceiling shift. -/
def roundShift (rnd : Rnd) (sign man n : Nat) : Nat :=
  match rnd with
  | .n =>
    let t := man >>> (n-1)
    if t % 2 = 1 ∧ ((t / 2) % 2 = 1 ∨ man % 2^(n-1) ≠ 0) then (t >>> 1) + 1 else t >>> 1
  | r => if shiftsDown r sign then man >>> n else (man + 2^n - 1) >>> n

/-- strip trailing zero bits and repair the bit count (`if man == 1: bc = 1`). -/
def stripTrailing (sign man : Nat) (exp bc : Int) : Mpf :=
  let t := trailing man
  let man := man >>> t
  let exp := exp + t
  let bc := bc - t
  let bc := if man = 1 then 1 else bc
  ⟨sign, man, exp, bc⟩

/-- `_normalize(sign, man, exp, bc, prec, rnd)` -/
def normalize (sign man : Nat) (exp bc : Int) (prec : Int) (rnd : Rnd) : Mpf :=
  if man = 0 then fzero else
  let n := bc - prec
  if n > 0 then
    stripTrailing sign (roundShift rnd sign man n.toNat) (exp + n) prec
  else
    stripTrailing sign man exp bc

/-- `_normalize1`: same, with the promise that `man` is odd or zero. -/
def normalize1 (sign man : Nat) (exp bc : Int) (prec : Int) (rnd : Rnd) : Mpf :=
  if man = 0 then fzero else
  if bc ≤ prec then ⟨sign, man, exp, bc⟩ else
  let n := bc - prec
  stripTrailing sign (roundShift rnd sign man n.toNat) (exp + n) prec

/-- `from_man_exp(man, exp, prec, rnd)` with signed mantissa; `prec = 0` means exact. -/
def from_man_exp (man : Int) (exp : Int) (prec : Int := 0) (rnd : Rnd := .d) : Mpf :=
  let sign := if man < 0 then 1 else 0
  let man := man.natAbs
  let bc : Int := bitcount man
  if prec = 0 then
    if man = 0 then fzero
    else if man % 2 = 0 then
      if (man / 2) % 2 = 1 then ⟨sign, man >>> 1, exp + 1, bc - 1⟩
      else
        let t := trailing man
        ⟨sign, man >>> t, exp + t, bc - t⟩
    else ⟨sign, man, exp, bc⟩
  else normalize sign man exp bc prec rnd

def from_int (n : Int) (prec : Int := 0) (rnd : Rnd := .d) : Mpf :=
  from_man_exp n 0 prec rnd

def isSpecial (s : Mpf) : Bool := s.man == 0 && s.exp != 0

/-- Python `m << k` on a signed integer. -/
def ishl (m : Int) (k : Nat) : Int := if m = 0 then 0 else m * ((2 ^ k : Nat) : Int)

/-- `round_int(x, n, rnd)` on signed integers. -/
def round_int (x : Int) (n : Nat) (rnd : Rnd) : Int :=
  match rnd with
  | .n =>
    let a := x.natAbs
    let t := a >>> (n-1)
    let r : Nat := if t % 2 = 1 ∧ ((t / 2) % 2 = 1 ∨ a % 2^(n-1) ≠ 0) then (t >>> 1) + 1 else t >>> 1
    if x ≥ 0 then r else -(r : Int)
  | .f => x >>> n
  | .c => -((-x) >>> n)
  | .d => if x ≥ 0 then x >>> n else -((-x) >>> n)
  | .u => if x ≥ 0 then -((-x) >>> n) else x >>> n

/-- `to_int(s, rnd)`; `rnd = none` is the default truncation. -/
def to_int (s : Mpf) (rnd : Option Rnd := none) : Except Err Int :=
  if isSpecial s then .error .value else
  if s.exp ≥ 0 then
    .ok (if s.sign ≠ 0 then ishl (-(s.man : Int)) s.exp.toNat else ishl (s.man : Int) s.exp.toNat)
  else
    match rnd with
    | none =>
      .ok (if s.sign ≠ 0 then -((s.man >>> (-s.exp).toNat : Nat) : Int) else ((s.man >>> (-s.exp).toNat : Nat) : Int))
    | some r =>
      .ok (if s.sign ≠ 0 then round_int (-(s.man : Int)) (-s.exp).toNat r
           else round_int (s.man : Int) (-s.exp).toNat r)

def mpf_pos (s : Mpf) (prec : Int := 0) (rnd : Rnd := .d) : Mpf :=
  if prec ≠ 0 then
    if isSpecial s then s else normalize1 s.sign s.man s.exp s.bc prec rnd
  else s

def mpf_neg (s : Mpf) (prec : Int := 0) (rnd : Rnd := .d) : Mpf :=
  if s.man = 0 then
    if s.exp ≠ 0 then
      if s = finf then fninf else if s = fninf then finf else s
    else s
  else if prec = 0 then ⟨1 - s.sign, s.man, s.exp, s.bc⟩
  else normalize1 (1 - s.sign) s.man s.exp s.bc prec rnd

def mpf_abs (s : Mpf) (prec : Int := 0) (rnd : Rnd := .d) : Mpf :=
  if isSpecial s then
    if s = fninf then finf else s
  else if prec = 0 then
    if s.sign ≠ 0 then ⟨0, s.man, s.exp, s.bc⟩ else s
  else normalize1 0 s.man s.exp s.bc prec rnd

def mpf_sign (s : Mpf) : Int :=
  if s.man = 0 then
    if s = finf then 1 else if s = fninf then -1 else 0
  else if s.sign % 2 = 0 then 1 else -1

/-- the common body of the two `offset ≠ 0` branches of `mpf_add`, written for
`offset = sexp - texp > 0` (the other branch is the same with the roles swapped). -/
def addFar (ssign sman : Nat) (sexp sbc : Int) (tsign tman : Nat) (texp tbc : Int)
    (prec : Int) (rnd : Rnd) : Mpf :=
  let offset := sexp - texp
  let delta := sbc + sexp - tbc - texp
  if offset > 100 ∧ prec ≠ 0 ∧ delta > prec + 4 ∧ offset ≥ tbc then
    let off := prec + 4
    let sman' : Nat := if tsign = ssign then (sman <<< off.toNat) + 1 else (sman <<< off.toNat) - 1
    normalize1 ssign sman' (sexp - off) (bitcount sman') prec rnd
  else
    if ssign = tsign then
      let man := tman + (sman <<< offset.toNat)
      let bc : Int := bitcount man
      normalize1 ssign man texp bc (if prec ≠ 0 then prec else bc) rnd
    else
      let m : Int := if ssign ≠ 0 then (tman : Int) - ((sman <<< offset.toNat : Nat) : Int)
                     else ((sman <<< offset.toNat : Nat) : Int) - (tman : Int)
      let ssign' := if m ≥ 0 then 0 else 1
      let man := m.natAbs
      let bc : Int := bitcount man
      normalize1 ssign' man texp bc (if prec ≠ 0 then prec else bc) rnd

/-- `mpf_add(s, t, prec, rnd, _sub)` -/
def mpf_add (s t : Mpf) (prec : Int := 0) (rnd : Rnd := .d) (sub : Bool := false) : Mpf :=
  let tsign := if sub then (if t.sign = 0 then 1 else 0) else t.sign
  if s.man ≠ 0 ∧ t.man ≠ 0 then
    let offset := s.exp - t.exp
    if offset > 0 then
      addFar s.sign s.man s.exp s.bc tsign t.man t.exp t.bc prec rnd
    else if offset < 0 then
      addFar tsign t.man t.exp t.bc s.sign s.man s.exp s.bc prec rnd
    else
      let m : Int := if s.sign = tsign then (t.man : Int) + s.man
                     else if s.sign ≠ 0 then (t.man : Int) - s.man else (s.man : Int) - t.man
      let ssign' := if s.sign = tsign then s.sign else if m ≥ 0 then 0 else 1
      let man := m.natAbs
      let bc : Int := bitcount man
      normalize ssign' man t.exp bc (if prec ≠ 0 then prec else bc) rnd
  else
    let t' := if sub then mpf_neg t else t
    if s.man = 0 then
      if s.exp ≠ 0 then
        if s = t' ∨ t.man ≠ 0 ∨ t.exp = 0 then s else fnan
      else if t.man ≠ 0 then
        normalize1 tsign t.man t.exp t.bc (if prec ≠ 0 then prec else t.bc) rnd
      else t'
    else if t.exp ≠ 0 then t'
    else normalize1 s.sign s.man s.exp s.bc (if prec ≠ 0 then prec else s.bc) rnd

def mpf_sub (s t : Mpf) (prec : Int := 0) (rnd : Rnd := .d) : Mpf :=
  mpf_add s t prec rnd true

/-- one iteration of the accumulation loop of `mpf_sum`; state `(man, exp, special)` -/
def sumStep (maxExtra : Int) (absolute : Bool) (st : Int × Int × Option Mpf) (x : Mpf) :
    Int × Int × Option Mpf :=
  let (man, exp, special) := st
  if x.man ≠ 0 then
    let xman : Int := if x.sign ≠ 0 ∧ ¬ absolute then -(x.man : Int) else x.man
    let delta := x.exp - exp
    if x.exp ≥ exp then
      if delta > maxExtra ∧ (man = 0 ∨ delta - (bitcount man.natAbs : Int) > maxExtra) then
        (xman, x.exp, special)
      else (man + ishl xman delta.toNat, exp, special)
    else
      let delta := -delta
      if delta - x.bc > maxExtra then
        if man = 0 then (xman, x.exp, special) else (man, exp, special)
      else (ishl man delta.toNat + xman, x.exp, special)
  else if x.exp ≠ 0 then
    let x := if absolute then mpf_abs x else x
    (man, exp, some (mpf_add (special.getD fzero) x 1))
  else (man, exp, special)

/-- `mpf_sum(xs, prec, rnd, absolute)` -/
def mpf_sum (xs : List Mpf) (prec : Int := 0) (rnd : Rnd := .d) (absolute : Bool := false) : Mpf :=
  let maxExtra : Int := if prec * 2 ≠ 0 then prec * 2 else 1000000
  let (man, exp, special) := xs.foldl (sumStep maxExtra absolute) (0, 0, none)
  match special with
  | some sp => sp
  | none => from_man_exp man exp prec rnd

/-- special-value tail shared by both multiplication variants. -/
def mulSpecial (s t : Mpf) : Mpf :=
  if ¬ isSpecial s ∧ ¬ isSpecial t then fzero
  else if s = fnan ∨ t = fnan then fnan
  else
    let (s, t) := if isSpecial t then (t, s) else (s, t)
    if t = fzero then fnan
    else if mpf_sign s * mpf_sign t = 1 then finf else fninf

/-- `python_mpf_mul` (the fast bit-count update). -/
def mpf_mul (s t : Mpf) (prec : Int := 0) (rnd : Rnd := .d) : Mpf :=
  let sign := s.sign ^^^ t.sign
  let man := s.man * t.man
  if man ≠ 0 then
    let bc := s.bc + t.bc - 1
    let bc := bc + ((man >>> bc.toNat : Nat) : Int)
    if prec ≠ 0 then normalize1 sign man (s.exp + t.exp) bc prec rnd
    else ⟨sign, man, s.exp + t.exp, bc⟩
  else mulSpecial s t

/-- `gmpy_mpf_mul` (bit count recomputed). -/
def gmpy_mpf_mul (s t : Mpf) (prec : Int := 0) (rnd : Rnd := .d) : Mpf :=
  let sign := s.sign ^^^ t.sign
  let man := s.man * t.man
  if man ≠ 0 then
    let bc : Int := bitcount man
    if prec ≠ 0 then normalize1 sign man (s.exp + t.exp) bc prec rnd
    else ⟨sign, man, s.exp + t.exp, bc⟩
  else mulSpecial s t

/-- `python_mpf_mul_int` -/
def mpf_mul_int (s : Mpf) (n : Int) (prec : Int) (rnd : Rnd := .d) : Mpf :=
  if s.man = 0 then mpf_mul s (from_int n) prec rnd
  else if n = 0 then fzero
  else
    let sign := if n < 0 then s.sign ^^^ 1 else s.sign
    let n := n.natAbs
    let man := s.man * n
    let bc := s.bc + (bitcount n : Int) - 1
    let bc := bc + ((man >>> bc.toNat : Nat) : Int)
    normalize sign man s.exp bc prec rnd

/-- `gmpy_mpf_mul_int` -/
def gmpy_mpf_mul_int (s : Mpf) (n : Int) (prec : Int) (rnd : Rnd := .d) : Mpf :=
  if s.man = 0 then mpf_mul s (from_int n) prec rnd
  else if n = 0 then fzero
  else
    let sign := if n < 0 then s.sign ^^^ 1 else s.sign
    let n := n.natAbs
    let man := s.man * n
    normalize sign man s.exp (bitcount man) prec rnd

def mpf_shift (s : Mpf) (n : Int) : Mpf :=
  if s.man = 0 then s else ⟨s.sign, s.man, s.exp + n, s.bc⟩

def mpf_frexp (x : Mpf) : Except Err (Mpf × Int) :=
  if x.man = 0 then
    if x = fzero then .ok (fzero, 0) else .error .value
  else .ok (mpf_shift x (-x.bc - x.exp), x.bc + x.exp)

/-- `mpf_div(s, t, prec, rnd)` -/
def mpf_div (s t : Mpf) (prec : Int) (rnd : Rnd := .d) : Except Err Mpf :=
  if s.man = 0 ∨ t.man = 0 then
    if s = fzero then
      if t = fzero then .error .zeroDiv
      else if t = fnan then .ok fnan
      else .ok fzero
    else if t = fzero then .error .zeroDiv
    else if isSpecial s ∧ isSpecial t then .ok fnan
    else if s = fnan ∨ t = fnan then .ok fnan
    else if ¬ isSpecial t then
      .ok (if mpf_sign s * mpf_sign t = 1 then finf else fninf)
    else .ok fzero
  else
    let sign := s.sign ^^^ t.sign
    if t.man = 1 then .ok (normalize1 sign s.man (s.exp - t.exp) s.bc prec rnd)
    else
      let extra := prec - s.bc + t.bc + 5
      let extra := if extra < 5 then 5 else extra
      let num := s.man <<< extra.toNat
      let quot := num / t.man
      let rem := num % t.man
      if rem ≠ 0 then
        let quot := (quot <<< 1) + 1
        let extra := extra + 1
        .ok (normalize1 sign quot (s.exp - t.exp - extra) (bitcount quot) prec rnd)
      else
        .ok (normalize sign quot (s.exp - t.exp - extra) (bitcount quot) prec rnd)

/-- `mpf_rdiv_int(n, t, prec, rnd)` -/
def mpf_rdiv_int (n : Int) (t : Mpf) (prec : Int) (rnd : Rnd := .d) : Except Err Mpf :=
  if n = 0 ∨ t.man = 0 then mpf_div (from_int n) t prec rnd
  else
    let sign := if n < 0 then t.sign ^^^ 1 else t.sign
    let n := n.natAbs
    let extra := prec + t.bc + 5
    let num := n <<< extra.toNat
    let quot := num / t.man
    let rem := num % t.man
    if rem ≠ 0 then
      let quot := (quot <<< 1) + 1
      let extra := extra + 1
      .ok (normalize1 sign quot (-t.exp - extra) (bitcount quot) prec rnd)
    else
      .ok (normalize sign quot (-t.exp - extra) (bitcount quot) prec rnd)

def from_rational (p q : Int) (prec : Int) (rnd : Rnd := .d) : Except Err Mpf :=
  mpf_div (from_int p) (from_int q) prec rnd

/-- `mpf_mod(s, t, prec, rnd)`; a zero divisor raises ZeroDivisionError (from Python's `%`). -/
def mpf_mod (s t : Mpf) (prec : Int) (rnd : Rnd := .d) : Except Err Mpf :=
  if isSpecial s ∨ isSpecial t then .ok fnan
  else if t.man = 0 then .error .zeroDiv
  else if s.sign = t.sign ∧ t.exp > s.exp + s.bc then .ok (mpf_pos s prec rnd)
  else if t.man = 1 ∧ s.exp > t.exp + t.bc then .ok fzero
  else
    let base := min s.exp t.exp
    let sman : Int := if s.sign % 2 = 0 then s.man else -(s.man : Int)
    let tman : Int := if t.sign % 2 = 0 then t.man else -(t.man : Int)
    let a := ishl sman (s.exp - base).toNat
    let b := ishl tman (t.exp - base).toNat
    if b = 0 then .error .zeroDiv else
    let man := Int.fmod a b
    let sign := if man ≥ 0 then 0 else 1
    let man := man.natAbs
    .ok (normalize sign man base (bitcount man) prec rnd)

def reciprocalRnd : Rnd → Rnd
  | .d => .u | .u => .d | .f => .c | .c => .f | .n => .n

def negativeRnd : Rnd → Rnd
  | .d => .d | .u => .u | .f => .c | .c => .f | .n => .n

/-- truncate a work mantissa to `workprec` bits in the loop of `mpf_pow_int`. -/
def powTrunc (roundsDown : Bool) (workprec : Int) (man : Nat) (exp bc : Int) : Nat × Int × Int :=
  if bc > workprec then
    let k := (bc - workprec).toNat
    ((if roundsDown then man >>> k else (man + 2^k - 1) >>> k), exp + (bc - workprec), workprec)
  else (man, exp, bc)

/-- the binary-exponentiation loop of `mpf_pow_int`. State: `(pm, pe, pbc)`, `(man, exp, bc)`, `n`. -/
def powLoop (roundsDown : Bool) (workprec : Int) :
    Nat → (Nat × Int × Int) → (Nat × Int × Int) → Nat → Nat × Int × Int
  | 0, p, _, _ => p
  | fuel+1, (pm, pe, pbc), (man, exp, bc), n =>
    let (p', n', stop) :=
      if n % 2 = 1 then
        let pm := pm * man
        let pe := pe + exp
        let pbc := pbc + bc - 2
        let pbc := pbc + (bitcount (pm >>> pbc.toNat) : Int)
        let p' := powTrunc roundsDown workprec pm pe pbc
        (p', n - 1, n - 1 == 0)
      else ((pm, pe, pbc), n, false)
    if stop then p' else
    let man2 := man * man
    let exp2 := exp + exp
    let bc2 := bc + bc - 2
    let bc2 := bc2 + (bitcount (man2 >>> bc2.toNat) : Int)
    let m' := powTrunc roundsDown workprec man2 exp2 bc2
    powLoop roundsDown workprec fuel p' m' (n' / 2)

/-- `mpf_pow_int(s, n, prec, rnd)` for `n ≥ 0` (the regime below negative powers). -/
def powIntPos (s : Mpf) (n : Nat) (prec : Int) (rnd : Rnd) : Mpf :=
  if n = 0 then fone
  else if n = 1 then mpf_pos s prec rnd
  else if n = 2 then
    if s.man = 0 then fzero
    else
      let man := s.man * s.man
      if man = 1 then ⟨0, 1, s.exp + s.exp, 1⟩
      else
        let bc := s.bc + s.bc - 2
        let bc := bc + (bitcount (man >>> bc.toNat) : Int)
        normalize1 0 man (s.exp + s.exp) bc prec rnd
  else
    let resultSign := s.sign &&& n
    if s.man = 1 then ⟨resultSign, 1, s.exp * n, 1⟩
    else if s.bc * n < 1000 then
      let man := s.man ^ n
      normalize1 resultSign man (s.exp * n) (bitcount man) prec rnd
    else
      let roundsDown := rnd == .n || shiftsDown rnd resultSign
      let workprec := prec + 4 * (bitcount n : Int) + 4
      let (pm, pe, pbc) := powLoop roundsDown workprec (bitcount n + 1) (1, 0, 1) (s.man, s.exp, s.bc) n
      normalize resultSign pm pe pbc prec rnd

def mpf_pow_int (s : Mpf) (n : Int) (prec : Int) (rnd : Rnd := .d) : Except Err Mpf :=
  if isSpecial s then
    if s = finf then
      .ok (if n > 0 then s else if n = 0 then fnan else fzero)
    else if s = fninf then
      .ok (if n > 0 then (if n % 2 = 0 then finf else fninf) else if n = 0 then fnan else fzero)
    else .ok fnan
  else if n ≥ 0 then
    -- note: zero to the power 0,1,2 handled inside; `0 ** n` for n ≥ 3 falls in `bc*n < 1000`
    .ok (powIntPos s n.toNat prec rnd)
  else if n = -1 then mpf_div fone s prec rnd
  else
    let inverse := powIntPos s (-n).toNat (prec + 5) (reciprocalRnd rnd)
    mpf_div fone inverse prec rnd

/-- `mpf_perturb(x, eps_sign, prec, rnd)` -/
def mpf_perturb (x : Mpf) (epsSign : Nat) (prec : Int) (rnd : Rnd) : Mpf :=
  if rnd = .n then mpf_pos x prec rnd
  else
    let eps : Mpf := ⟨epsSign, 1, x.exp + x.bc - prec - 1, 1⟩
    let away : Bool :=
      if x.sign ≠ 0 then (rnd == .d || rnd == .c) != (epsSign != 0)
      else (rnd == .u || rnd == .c) != (epsSign != 0)
    if away then mpf_add x eps prec rnd else mpf_pos x prec rnd

/-- `mpf_sqrt(s, prec, rnd)` with `isqrt`/`sqrtrem` modelled by `Nat.sqrt`. -/
def mpf_sqrt (s : Mpf) (prec : Int) (rnd : Rnd := .d) : Except Err Mpf :=
  if s.sign ≠ 0 then .error .complexResult
  else if s.man = 0 then .ok s
  else
    let odd := s.exp % 2 ≠ 0
    if ¬ odd ∧ s.man = 1 then .ok (normalize1 s.sign s.man (s.exp / 2) s.bc prec rnd)
    else
      let (man, exp, bc) : Nat × Int × Int :=
        if odd then (s.man <<< 1, s.exp - 1, s.bc + 1) else (s.man, s.exp, s.bc)
      let shift := max 4 (2 * prec - bc + 4)
      let shift := shift + shift % 2
      let x := man <<< shift.toNat
      let r := Nat.sqrt x
      if rnd = .f ∨ rnd = .d then
        .ok (from_man_exp r ((exp - shift) / 2) prec rnd)
      else
        let rem := x - r * r
        if rem ≠ 0 then
          .ok (from_man_exp ((r <<< 1) + 1 : Nat) ((exp - (shift + 2)) / 2) prec rnd)
        else
          .ok (from_man_exp r ((exp - shift) / 2) prec rnd)

def mpf_round_int (s : Mpf) (rnd : Rnd) : Except Err Mpf :=
  if isSpecial s then .ok s
  else if s.exp ≥ 0 then .ok s
  else
    let mag := s.exp + s.bc
    if mag < 1 then
      match rnd with
      | .c => .ok (if s.sign ≠ 0 then fzero else fone)
      | .f => .ok (if s.sign ≠ 0 then fnone else fzero)
      | .n => .ok (if mag < 0 ∨ s.man = 1 then fzero else if s.sign ≠ 0 then fnone else fone)
      | _ => .error .notImpl
    else .ok (mpf_pos s (min s.bc mag) rnd)

def mpf_floor (s : Mpf) (prec : Int := 0) (rnd : Rnd := .d) : Except Err Mpf := do
  let v ← mpf_round_int s .f
  pure (if prec ≠ 0 then mpf_pos v prec rnd else v)

def mpf_ceil (s : Mpf) (prec : Int := 0) (rnd : Rnd := .d) : Except Err Mpf := do
  let v ← mpf_round_int s .c
  pure (if prec ≠ 0 then mpf_pos v prec rnd else v)

def mpf_nint (s : Mpf) (prec : Int := 0) (rnd : Rnd := .d) : Except Err Mpf := do
  let v ← mpf_round_int s .n
  pure (if prec ≠ 0 then mpf_pos v prec rnd else v)

def mpf_frac (s : Mpf) (prec : Int := 0) (rnd : Rnd := .d) : Except Err Mpf := do
  let v ← mpf_floor s
  pure (mpf_sub s v prec rnd)

/-- `mpf_eq` -/
def mpf_eq (s t : Mpf) : Bool :=
  if (s.man = 0 ∨ t.man = 0) ∧ (s = fnan ∨ t = fnan) then false else s == t

/-- `mpf_cmp(s, t)` -/
def mpf_cmp (s t : Mpf) : Int :=
  if s.man = 0 ∨ t.man = 0 then
    if s = fzero then -mpf_sign t
    else if t = fzero then mpf_sign s
    else if s = t then 0
    else if t = fnan then 1
    else if s = finf then 1
    else if t = fninf then 1
    else -1
  else if s.sign ≠ t.sign then
    if s.sign = 0 then 1 else -1
  else if s.exp = t.exp then
    if s.man = t.man then 0
    else if s.man > t.man then (if s.sign ≠ 0 then -1 else 1)
    else (if s.sign ≠ 0 then 1 else -1)
  else
    let a := s.bc + s.exp
    let b := t.bc + t.exp
    if a < b then (if s.sign ≠ 0 then 1 else -1)
    else if a > b then (if s.sign ≠ 0 then -1 else 1)
    else
      let delta := mpf_sub s t 5 .f
      if delta.sign ≠ 0 then -1 else 1

def mpf_lt (s t : Mpf) : Bool := if s = fnan ∨ t = fnan then false else mpf_cmp s t < 0
def mpf_le (s t : Mpf) : Bool := if s = fnan ∨ t = fnan then false else mpf_cmp s t ≤ 0
def mpf_gt (s t : Mpf) : Bool := if s = fnan ∨ t = fnan then false else mpf_cmp s t > 0
def mpf_ge (s t : Mpf) : Bool := if s = fnan ∨ t = fnan then false else mpf_cmp s t ≥ 0

def HASH_MODULUS : Nat := 2^61 - 1
def HASH_BITS : Nat := 61
def HASH_INF : Int := 314159
def HASH_NAN : Int := 0   -- sys.hash_info.nan (0 on CPython ≥ 3.10)

/-- `mpf_hash(s)` (the Python ≥ 3.2 branch) up to, but not including, the final `if h == -1: h = -2`. -/
def mpf_hash_raw (s : Mpf) : Int :=
  if s.man = 0 ∧ s = fnan then HASH_NAN
  else if s.man = 0 ∧ s = finf then HASH_INF
  else if s.man = 0 ∧ s = fninf then -HASH_INF
  else
    let h := s.man % HASH_MODULUS
    let e : Nat := if s.exp ≥ 0 then (s.exp % HASH_BITS).toNat
                   else HASH_BITS - 1 - ((-1 - s.exp) % HASH_BITS).toNat
    let h := (h <<< e) % HASH_MODULUS
    if s.sign ≠ 0 then -(h : Int) else h

/-- `mpf_hash(s)` -/
def mpf_hash (s : Mpf) : Int :=
  let h := mpf_hash_raw s
  if h = -1 then -2 else h

/-- `to_fixed(s, prec)` -/
def to_fixed (s : Mpf) (prec : Int) : Int :=
  let offset := s.exp + prec
  let m : Int := if s.sign ≠ 0 then -(s.man : Int) else s.man
  if offset ≥ 0 then ishl m offset.toNat else m >>> (-offset).toNat

/-- `to_rational(s)` -/
def to_rational (s : Mpf) : Except Err (Int × Int) :=
  if s.bc = -1 then .error .value
  else
    let m : Int := if s.sign ≠ 0 then -(s.man : Int) else s.man
    if s.exp ≥ 0 then .ok (m * ((1 <<< s.exp.toNat : Nat) : Int), 1)
    else .ok (m, ((1 <<< (-s.exp).toNat : Nat) : Int))

/-- `mpf_hypot` -/
def mpf_hypot (x y : Mpf) (prec : Int) (rnd : Rnd := .d) : Except Err Mpf :=
  if y = fzero then .ok (mpf_abs x prec rnd)
  else if x = fzero then .ok (mpf_abs y prec rnd)
  else
    let h2 := mpf_add (mpf_mul x x) (mpf_mul y y) (prec + 4)
    mpf_sqrt h2 prec rnd

end Mp
