/-
  MpModel/CalcSerX.lean — two more summand classes for C27 (`sumem`), import-free apart from `MpModel/CalcSer.lean`.

  * polynomial summands over a finite integer range `[a, a+n]`:  `polySumQ ts a n = Σ_{i=0}^{n} p(a+i)` exactly
    (Euler–Maclaurin is exact on polynomials, so `sumem(p, [a, b])` has this rational number as reference value);
  * rational linear combinations `Σ_j c_j·s_j` of series of `Mp.Calc.Ser` that share one start index, and their
    tails `Σ_{k ≥ a}` = (closed form) − (exact head).  With two members the coefficients can be chosen so that the
    FIRST derivative of the summand vanishes at the start point `a` while the third does not.
  The meaning of both (finite sum of the real polynomial function / limit of the partial sums of the tail) is proved in
  `MpProofs/CalcSerX.lean`, restated in `Props/C27sumem.lean`.
-/
import MpModel.CalcSer

namespace Mp.Calc

/-- exact value `Σ c·x^n` of a term list at a rational point -/
def polyQ (ts : List (Rat × Nat)) (x : Rat) : Rat :=
  (ts.map fun t => t.1 * x ^ t.2).sum

/-- exact `Σ_{i=0}^{n} p(a+i)`: the polynomial summed over the integer range `[a, a+n]`, accumulated in increasing index -/
def polySumQ (ts : List (Rat × Nat)) (a : Int) (n : Nat) : Rat :=
  (List.range (n + 1)).foldl (fun acc i => acc + polyQ ts ((a + (i : Nat) : Int) : Rat)) 0

/-- term list of the `j`-th derivative -/
def polyDeriv (ts : List (Rat × Nat)) (j : Nat) : List (Rat × Nat) :=
  (ts.filter fun t => j ≤ t.2).map fun t => (t.1 * (descFact t.2 j : Nat), t.2 - j)

/-- `p^(j)(b) − p^(j)(a)`: the factor of the `j`-th Euler–Maclaurin correction term (`j` odd) -/
def polyDerivDiffQ (ts : List (Rat × Nat)) (j : Nat) (a b : Rat) : Rat :=
  polyQ (polyDeriv ts j) b - polyQ (polyDeriv ts j) a

/-- the `k`-th term of the linear combination `Σ_j c_j·s_j` -/
def linTermQ (l : List (Rat × Ser)) (k : Nat) : Rat :=
  (l.map fun t => t.1 * t.2.termQ k).sum

/-- all members start at `s0` -/
def linStartOK (l : List (Rat × Ser)) (s0 : Nat) : Bool :=
  l.all fun t => t.2.start == s0

/-- closed form of `Σ_{k ≥ s0} linTermQ l k`, when every member has one -/
def linSumRef : List (Rat × Ser) → Option Ref
  | [] => some (.rat 0)
  | t :: l => do
    let a ← t.2.sumRef
    let b ← linSumRef l
    pure (Ref.add (Ref.mul (.rat t.1) a) b)

/-- exact head `Σ_{k=a}^{b} linTermQ l k` -/
def linPartial (l : List (Rat × Ser)) (a b : Nat) : Rat :=
  (l.map fun t => t.1 * t.2.partial a b).sum

/-- the tail `Σ_{k ≥ a} linTermQ l k` for `a > s0` (common start `s0`): closed form minus the exact head -/
def linTailRef (l : List (Rat × Ser)) (s0 a : Nat) : Option Ref :=
  if linStartOK l s0 && decide (s0 < a) then do
    let r ← linSumRef l
    pure (Ref.sub r (.rat (linPartial l s0 (a - 1))))
  else none

end Mp.Calc
