/-
  MpModel/Helpers.lean — import-free executable model of the small helpers of mpmath:

  * `to_pickable` / `from_pickable` (libmp/libmpf.py), `__getstate__/__setstate__` of `_mpf`, `_mpc`
    (ctx_mp_python.py), `matrix.copy` on a heap model of the sparse-dict matrix (matrices/matrices.py)   [C40]
  * `mag`, `nint_distance`, `isint`, `isnpint`, `isnormal`, `isinf`, `isnan`, `isfinite`, `ldexp`, `frexp`
    (ctx_mp_python.py, ctx_mp.py) on raw tuples / ints / `mpq` pairs                                        [C39]
  * binary64 bit patterns, `from_float`, `to_float`, `mpc_to_complex` (libmpf.py, libmpc.py)              [C09]

  Conventions: an `mpq` is its `_mpq_` pair `(p : Int, q : Nat)` (the constructor `create_reduced`
  always leaves `q ≥ 0`); `ctx.ninf / ctx.inf / ctx.nan` results are distinguished constructors.
-/
import MpModel.Core

namespace Mp

/-! ## C40 — hexadecimal mantissa, pickling -/

/-- the lowercase hexadecimal digit of `d < 16` -/
def hexDigitChar (d : Nat) : Char :=
  if d < 10 then Char.ofNat (48 + d) else Char.ofNat (87 + d)

/-- value of a hexadecimal digit (both cases, as `int(s, 16)` accepts) -/
def hexVal (c : Char) : Option Nat :=
  let n := c.toNat
  if 48 ≤ n ∧ n ≤ 57 then some (n - 48)
  else if 97 ≤ n ∧ n ≤ 102 then some (n - 87)
  else if 65 ≤ n ∧ n ≤ 70 then some (n - 55)
  else none

/-- digits of `hex(n)[2:]`, most significant first; `fuel` bounds the number of digits. -/
def toHexDigitsAux : Nat → Nat → List Char
  | 0, n => [hexDigitChar (n % 16)]
  | fuel+1, n => if n < 16 then [hexDigitChar n] else toHexDigitsAux fuel (n / 16) ++ [hexDigitChar (n % 16)]

/-- digits of `hex(n)[2:]` (`"0"` for 0, no leading zeros otherwise) -/
def toHexDigits (n : Nat) : List Char := toHexDigitsAux (bitcount n) n

/-- `hex(n)[2:]` -/
def toHex (n : Nat) : String := String.ofList (toHexDigits n)

/-- left-to-right evaluation of a hexadecimal digit list with accumulator -/
def ofHexList : List Char → Nat → Option Nat
  | [], a => some a
  | c :: cs, a => match hexVal c with
    | some d => ofHexList cs (a * 16 + d)
    | none => none

/-- `int(s, 16)` restricted to plain digit strings (`none` = ValueError).
Deviation: CPython's `int(s, 16)` also accepts a sign, a `0x` prefix, `_` separators and surrounding
white space; none of these is ever produced by `to_pickable`. -/
def ofHex (s : String) : Option Nat :=
  match s.toList with
  | [] => none
  | l => ofHexList l 0

/-- the tuple `(sign, hex(man)[2:], exp, bc)` -/
structure Pickled where
  sign : Nat
  man  : String
  exp  : Int
  bc   : Int
deriving DecidableEq, Repr, Inhabited

def to_pickable (x : Mpf) : Pickled := ⟨x.sign, toHex x.man, x.exp, x.bc⟩

def from_pickable (p : Pickled) : Except Err Mpf :=
  match ofHex p.man with
  | some m => .ok ⟨p.sign, m, p.exp, p.bc⟩
  | none => .error .value

/-- `_mpf.__getstate__`, `_mpf.__setstate__` -/
def mpf_getstate (x : Mpf) : Pickled := to_pickable x
def mpf_setstate (p : Pickled) : Except Err Mpf := from_pickable p

/-- `_mpc.__getstate__`, `_mpc.__setstate__` -/
def mpc_getstate (z : Mpf × Mpf) : Pickled × Pickled := (to_pickable z.1, to_pickable z.2)
def mpc_setstate (p : Pickled × Pickled) : Except Err (Mpf × Mpf) := do
  let re ← from_pickable p.1
  let im ← from_pickable p.2
  pure (re, im)

/-! ### matrices: a heap of dict objects, a matrix refers to its `__data` dict by address -/

/-- a matrix entry after `ctx.convert`: an mpf or an mpc (immutable values) -/
inductive Entry
  | mpf (x : Mpf)
  | mpc (re im : Mpf)
deriving DecidableEq, Repr, Inhabited

/-- truth value of an entry (`mpf.__bool__`, `mpc.__bool__`) -/
def Entry.truthy : Entry → Bool
  | .mpf x => x != fzero
  | .mpc re im => (re, im) != (fzero, fzero)

/-- a Python dict keyed by `(i, j)`: association list with unique keys -/
abbrev Dict := List ((Nat × Nat) × Entry)

def Dict.get? (d : Dict) (k : Nat × Nat) : Option Entry :=
  match d with
  | [] => none
  | (k', v) :: r => if k' = k then some v else Dict.get? r k

def Dict.erase (d : Dict) (k : Nat × Nat) : Dict :=
  match d with
  | [] => []
  | (k', v) :: r => if k' = k then Dict.erase r k else (k', v) :: Dict.erase r k

def Dict.set (d : Dict) (k : Nat × Nat) (v : Entry) : Dict := (k, v) :: Dict.erase d k

/-- the heap: dict objects by address (= index) -/
structure Heap where
  objs : List Dict
deriving Repr, Inhabited

/-- a matrix object: shape and the address of its `__data` dict -/
structure Mat where
  rows : Nat
  cols : Nat
  ref  : Nat
deriving DecidableEq, Repr, Inhabited

def Heap.alloc (h : Heap) (d : Dict) : Heap × Nat := (⟨h.objs ++ [d]⟩, h.objs.length)

def Heap.read (h : Heap) (a : Nat) : Dict := h.objs.getD a []

def Heap.write (h : Heap) (a : Nat) (d : Dict) : Heap := ⟨h.objs.set a d⟩

/-- `ctx.matrix(rows, cols)`: a fresh empty dict -/
def matNew (h : Heap) (rows cols : Nat) : Heap × Mat :=
  let (h, a) := h.alloc []
  (h, ⟨rows, cols, a⟩)

inductive MErr | index
deriving DecidableEq, Repr

/-- `A[i, j]` (single element extraction; non-negative indices) -/
def matGet (h : Heap) (m : Mat) (i j : Nat) : Except MErr Entry :=
  if i ≥ m.rows ∨ j ≥ m.cols then .error .index
  else match (h.read m.ref).get? (i, j) with
    | some v => .ok v
    | none => .ok (.mpf fzero)

/-- `A[i, j] = v` (single element assignment of an already converted value): only non-zeros are stored -/
def matSet (h : Heap) (m : Mat) (i j : Nat) (v : Entry) : Except MErr Heap :=
  if i ≥ m.rows ∨ j ≥ m.cols then .error .index
  else
    let d := h.read m.ref
    if v.truthy then .ok (h.write m.ref (d.set (i, j) v))
    else .ok (h.write m.ref (d.erase (i, j)))

/-- `matrix.copy`: `new = ctx.matrix(rows, cols); new.__data = self.__data.copy()` -/
def matCopy (h : Heap) (m : Mat) : Heap × Mat :=
  let (h, new) := matNew h m.rows m.cols
  let (h, a) := h.alloc (h.read m.ref)      -- dict.copy(): a new dict object with the same items
  (h, { new with ref := a })

/-! ## C39 — magnitude, nearest integer, classification -/

/-- the possible results of `mag`: a Python int, or `ctx.ninf`, `ctx.inf`, `ctx.nan` -/
inductive MagRes
  | int (n : Int) | ninf | inf | nan
deriving DecidableEq, Repr, Inhabited

/-- `_mpf_mag` -/
def mpfMag (x : Mpf) : MagRes :=
  if x.man ≠ 0 then .int (x.exp + x.bc)
  else if x = fzero then .ninf
  else if x = finf ∨ x = fninf then .inf
  else .nan

/-- Python `b > a` on ints and the mpf constants -/
def MagRes.gt : MagRes → MagRes → Bool
  | .nan, _ => false
  | _, .nan => false
  | .int b, .int a => b > a
  | .int _, .ninf => true
  | .int _, .inf => false
  | .ninf, _ => false
  | .inf, .inf => false
  | .inf, _ => true

/-- Python `max(a, b)`: `b` if `b > a` else `a` (so a nan first argument sticks, a nan second is dropped) -/
def MagRes.pyMax (a b : MagRes) : MagRes := if b.gt a then b else a

/-- `1 + r` -/
def MagRes.succ : MagRes → MagRes
  | .int n => .int (1 + n)
  | r => r

def magF (x : Mpf) : MagRes := mpfMag x

def magC (r i : Mpf) : MagRes :=
  if r = fzero then mpfMag i
  else if i = fzero then mpfMag r
  else (MagRes.pyMax (mpfMag r) (mpfMag i)).succ

def magInt (n : Int) : MagRes := if n ≠ 0 then .int (bitcount n.natAbs) else .ninf

def magQ (p : Int) (q : Nat) : MagRes :=
  if p ≠ 0 then .int (1 + (bitcount p.natAbs : Int) - (bitcount q : Int)) else .ninf

/-- the distance exponent of `nint_distance`: `ctx.ninf` or an int -/
inductive Dist
  | ninf | fin (d : Int)
deriving DecidableEq, Repr, Inhabited

/-- Python `max(re_dist, im_dist)` -/
def Dist.pyMax : Dist → Dist → Dist
  | .ninf, b => b
  | a, .ninf => a
  | .fin a, .fin b => if b > a then .fin b else .fin a

/-- the `elif man:` block of `nint_distance` on the absolute value `man · 2^exp`: the nearest
non-negative integer and `re_dist` (exact integer / exact half-integer / general branch) -/
def nintAbs (man : Nat) (exp : Int) : Nat × Dist :=
  if exp ≥ 0 then (man <<< exp.toNat, Dist.ninf)
  else if exp = -1 then ((man >>> 1) + 1, Dist.fin 0)
  else
    let d := (-exp - 1).toNat
    let t := man >>> d
    if t % 2 = 1 then
      let t := t + 1
      let man' := (t <<< d) - man
      (t >>> 1, Dist.fin (exp + bitcount man'))
    else
      let man' := man - (t <<< d)
      (t >>> 1, Dist.fin (exp + bitcount man'))

/-- the tail of `nint_distance` shared by the mpf and mpc branches -/
def nintDistCore (re : Mpf) (imDist : Dist) : Except Err (Int × Dist) :=
  if re.man = 0 ∧ re ≠ fzero then .error .value   -- inf, -inf, nan in the real part (repaired: commit 8a0fe53)
  else
  let mag := re.exp + re.bc
  if mag < 0 then .ok (0, Dist.pyMax (.fin mag) imDist)
  else if re.man ≠ 0 then
    let r := nintAbs re.man re.exp
    let n : Int := if re.sign ≠ 0 then -(r.1 : Int) else (r.1 : Int)
    .ok (n, Dist.pyMax r.2 imDist)
  else if re = fzero then .ok (0, Dist.pyMax .ninf imDist)
  else .error .value

def nintDistF (x : Mpf) : Except Err (Int × Dist) := nintDistCore x .ninf

def nintDistC (re im : Mpf) : Except Err (Int × Dist) :=
  if im.man ≠ 0 then nintDistCore re (.fin (im.exp + im.bc))
  else if im = fzero then nintDistCore re .ninf
  else .error .value

def nintDistInt (n : Int) : Int × Dist := (n, .ninf)

/-- `divmod(p, q)` is floor division; `q = 0` raises ZeroDivisionError -/
def nintDistQ (p : Int) (q : Nat) : Except Err (Int × Dist) :=
  if q = 0 then .error .zeroDiv else
  let n := p / (q : Int)
  let r := p % (q : Int)
  if 2 * r ≥ q then
    let n := n + 1
    .ok (n, .fin ((bitcount (p - n * q).natAbs : Int) - (bitcount q : Int)))
  else if r = 0 then .ok (n, .ninf)
  else .ok (n, .fin ((bitcount (p - n * q).natAbs : Int) - (bitcount q : Int)))

/-- `(man and exp >= 0) or xval == fzero` -/
def isintF (x : Mpf) : Bool := (x.man != 0 && decide (x.exp ≥ 0)) || x == fzero

def isintC (re im : Mpf) (gaussian : Bool) : Bool :=
  if gaussian then isintF re && isintF im else isintF re && im == fzero

def isintInt (_ : Int) : Bool := true

/-- `p % q == 0`; `q = 0` raises ZeroDivisionError -/
def isintQ (p : Int) (q : Nat) : Except Err Bool :=
  if q = 0 then .error .zeroDiv else .ok (p % (q : Int) == 0)

/-- `isnpint` on an mpf: `not x` first, then `sign and exp >= 0` (as a truth value) -/
def isnpintF (x : Mpf) : Bool :=
  if x = fzero then true else (x.sign != 0 && decide (x.exp ≥ 0))

/-- `isnpint` on an mpc: `not x`, then `not x.imag and isnpint(x.real)` -/
def isnpintC (re im : Mpf) : Bool :=
  if (re, im) = (fzero, fzero) then true else (im == fzero && isnpintF re)

def isnpintInt (n : Int) : Bool := if n = 0 then true else decide (n ≤ 0)

def isnpintQ (p : Int) (q : Nat) : Bool :=
  if p = 0 then true else (q == 1 && decide (p ≤ 0))

def isnormalF (x : Mpf) : Bool := x.man != 0

def isnormalC (re im : Mpf) : Bool :=
  if re = fzero then isnormalF im
  else if im = fzero then isnormalF re
  else isnormalF re && isnormalF im

def isnormalInt (n : Int) : Bool := n != 0
def isnormalQ (p : Int) (_ : Nat) : Bool := p != 0

def isinfF (x : Mpf) : Bool := x == finf || x == fninf
def isinfC (re im : Mpf) : Bool := isinfF re || isinfF im
def isnanF (x : Mpf) : Bool := x == fnan
def isnanC (re im : Mpf) : Bool := re == fnan || im == fnan
def isfiniteF (x : Mpf) : Bool := !(isinfF x || isnanF x)
def isfiniteC (re im : Mpf) : Bool := !(isinfC re im || isnanC re im)

/-- `ctx.ldexp` on a real operand: `mpf_shift` -/
def ldexp (x : Mpf) (n : Int) : Mpf := mpf_shift x n

/-- `ctx.frexp` on a real operand: `mpf_frexp` -/
def frexp (x : Mpf) : Except Err (Mpf × Int) := mpf_frexp x

/-! ## C09 — binary64 -/

/-- a binary64 bit pattern split in its three fields -/
structure Dbl where
  sign : Nat      -- 0 or 1
  ex   : Nat      -- biased exponent, `< 2048`
  frac : Nat      -- `< 2^52`
deriving DecidableEq, Repr, Inhabited

def Dbl.ofBits (b : Nat) : Dbl := ⟨(b >>> 63) % 2, (b >>> 52) % 2048, b % 2^52⟩
def Dbl.toBits (d : Dbl) : Nat := d.sign * 2^63 + d.ex * 2^52 + d.frac

def Dbl.WF (d : Dbl) : Prop := d.sign ≤ 1 ∧ d.ex < 2048 ∧ d.frac < 2^52
instance (d : Dbl) : Decidable d.WF := by unfold Dbl.WF; infer_instance

def Dbl.isNan (d : Dbl) : Bool := d.ex == 2047 && d.frac != 0
def Dbl.isInf (d : Dbl) : Bool := d.ex == 2047 && d.frac == 0
def Dbl.isFinite (d : Dbl) : Bool := decide (d.ex < 2047)

def Dbl.inf (sign : Nat) : Dbl := ⟨sign, 2047, 0⟩
def Dbl.zero (sign : Nat) : Dbl := ⟨sign, 0, 0⟩
/-- the nan produced by `inf/inf` (only its nan-ness is compared with CPython) -/
def Dbl.nan : Dbl := ⟨1, 2047, 2^51⟩

/-- integer significand and quantum exponent of a finite pattern: value `= ± sig · 2^qexp` -/
def Dbl.sig (d : Dbl) : Nat := if d.ex = 0 then d.frac else 2^52 + d.frac
def Dbl.qexp (d : Dbl) : Int := if d.ex = 0 then -1074 else (d.ex : Int) - 1075

/-- `math.frexp(x)` for finite `x`, returned as `(int(|m|·2^53), e)` — `m·2^53` is integral because
`m` carries at most 53 significant bits; `(0, 0)` for ±0. -/
def frexpBits (d : Dbl) : Nat × Int :=
  let s := d.sig
  if s = 0 then (0, 0)
  else
    let k := bitcount s
    (s * 2 ^ (53 - k), d.qexp + k)

/-- `from_float(x, prec, rnd)` -/
def from_float (d : Dbl) (prec : Int := 53) (rnd : Rnd := .d) : Mpf :=
  if d.isNan then fnan
  else if d.isInf then (if d.sign = 0 then finf else fninf)
  else
    let (m, e) := frexpBits d
    from_man_exp (if d.sign = 0 then (m : Int) else -(m : Int)) (e - 53) prec rnd

/-- Correctly rounded (nearest, ties to even) binary64 of `± man · 2^exp`, `man > 0`; `none` = the rounded
value is `≥ 2^1024`.  This is the semantics of C `ldexp`/`scalbn` under the default rounding mode and of
CPython's `int → float` conversion (validated against CPython by the harness, subnormal range included). -/
def roundToDouble (sign man : Nat) (exp : Int) : Option Dbl :=
  let e := exp + (bitcount man : Int)
  if e > 1024 then none
  else if e < -1075 then some (Dbl.zero sign)
  else
    let q : Int := if e - 53 ≥ -1074 then e - 53 else -1074
    let m : Nat := if exp ≥ q then man <<< (exp - q).toNat else roundShift .n 0 man (q - exp).toNat
    if m = 0 then some (Dbl.zero sign)
    else if m < 2^52 then some ⟨sign, 0, m⟩
    else
      let (m, q) := if m = 2^53 then (2^52, q + 1) else (m, q)
      let ex := q + 1075
      if ex ≥ 2047 then none else some ⟨sign, ex.toNat, m - 2^52⟩

/-- `float(man)` for a Python int `man > 0` with sign: OverflowError when too large -/
def intToDouble (sign man : Nat) : Option Dbl := roundToDouble sign man 0

/-- `math.ldexp(x, i)`: inf, nan and ±0 are returned unchanged; OverflowError (`none`) when the result of a
finite nonzero `x` is infinite -/
def ldexpD (x : Dbl) (i : Int) : Option Dbl :=
  if !x.isFinite then some x
  else if x.sig = 0 then some x else roundToDouble x.sign x.sig (x.qexp + i)

/-- `to_float(s, strict, rnd)` -/
def to_float (s : Mpf) (strict : Bool := false) (rnd : Rnd := .d) : Except Err Dbl :=
  if s.man = 0 then
    if s = fzero then .ok (Dbl.zero 0)
    else if s = finf then .ok (Dbl.inf 0)
    else if s = fninf then .ok (Dbl.inf 1)
    else .ok Dbl.nan
  else
    let t : Mpf := if s.bc > 53 then normalize1 s.sign s.man s.exp s.bc 53 rnd else s
    let sg := if t.sign ≠ 0 then 1 else 0
    -- `math.ldexp(man, exp)`: the int is converted to a double first
    let r : Option Dbl :=
      if t.man = 0 then some (Dbl.zero 0)
      else match intToDouble sg t.man with
        | none => none
        | some f => ldexpD f t.exp
    match r with
    | some f => .ok f
    | none =>
      if strict then .error .overflow
      else if t.exp + t.bc > 0 then .ok (Dbl.inf sg)
      else .ok (Dbl.zero 0)

/-- `mpc_to_complex(z, strict, rnd)` -/
def mpc_to_complex (re im : Mpf) (strict : Bool := false) (rnd : Rnd := .d) : Except Err (Dbl × Dbl) := do
  let a ← to_float re strict rnd
  let b ← to_float im strict rnd
  pure (a, b)

end Mp
