/-
  MpModel/Cache.lean — executable model of the caches of mpmath (DESIGN.md C17, C33).

  One state machine per cache.  Every machine is PARAMETRISED by the pure function it memoises
  (`F`), so that the theorems in `MpProofs/Cache.lean` quantify over every such function.

  Conventions
  * A request is run by a big-step function `…Req` that takes the cache state, the request and a
    *fault* argument.  The fault argument names the call inside the request that raises
    (`true`/`some k` = "the k-th call that can raise does raise").  Only calls can raise; plain
    assignments cannot (DESIGN.md C33: crash points are the calls, not the gaps between two
    assignments).  The state returned with `Res.raised` is the state the Python objects are left in
    when the exception propagates out of the function.
  * For `constant_memo` the reads / compute / writes are in addition exposed one by one
    (`MemoPc`, `memoMicro`), so that one can talk about an interruption at *every* program point,
    including the gap between the two assignments.
  * dicts are function maps `FMap K V = K → Option V` (total, computable; `set` is an update).
  * Python exceptions raised by the modelled code itself are `Res.pyError`.

  Python sources: mpmath/libmp/libelefun.py (constant_memo, def_mpf_constant, log_int_fixed,
  log_taylor_cached, atan_taylor_get_cached, cos_sin_basecase), mpmath/libmp/gammazeta.py
  (mpf_bernoulli), mpmath/calculus/quadrature.py (get_nodes), mpmath/matrices/linalg.py +
  matrices.py (LU_decomp, _LU), mpmath/ctx_base.py (memoize), mpmath/ctx_mp.py (hyp_summators).
-/
import MpModel.Core

namespace Mp.Cache

open Mp

/-! ## generic pieces -/

/-- result of one request: a value, an exception injected into (or raised by) the memoised
computation, or an exception raised by the cache code itself. -/
inductive Res (α : Type) where
  | ok (a : α)
  | raised
  | pyError (e : Err)
deriving Repr, DecidableEq

abbrev FMap (K V : Type) := K → Option V

def FMap.empty {K V : Type} : FMap K V := fun _ => none

def FMap.set {K V : Type} [DecidableEq K] (m : FMap K V) (k : K) (v : V) : FMap K V :=
  fun k' => if k' = k then some v else m k'

/-- Python `x >> n` on a signed integer (floor). -/
def shr (x : Int) (n : Nat) : Int := x >>> n

/-- Python `lshift(x, n)`: `x << n` for `n ≥ 0`, `x >> -n` otherwise. -/
def lshift (x : Int) (n : Int) : Int := if n ≥ 0 then x * ((2 ^ n.toNat : Nat) : Int) else x >>> (-n).toNat

/-! ## `int(prec*1.05+10)` — binary64 arithmetic with exact integers

`rnd53` rounds a positive dyadic `man·2^exp` to 53 significant bits, ties to even (IEEE binary64
without overflow and subnormals: valid below 2^1023, far above every precision in use). -/

def rnd53 (man : Nat) (exp : Int) : Nat × Int :=
  let bc := bitcount man
  if bc ≤ 53 then (man, exp) else
  let n := bc - 53
  (roundShift .n 0 man n, exp + n)

/-- the binary64 number nearest to 1.05 is `C105 / 2^52` (`(1.05).hex() = 0x1.0cccccccccccdp+0`). -/
def C105 : Nat := 4728779608739021

/-- `int(prec*1.05+10)` -/
def newprec (prec : Nat) : Nat :=
  let a := rnd53 prec 0                       -- int → float
  let b := rnd53 (a.1 * C105) (a.2 - 52)      -- * 1.05
  let e := min b.2 0                          -- + 10.0 (exact sum, then one rounding)
  let s := (b.1 <<< (b.2 - e).toNat) + (10 <<< (0 - e).toNat)
  let c := rnd53 s e
  if c.2 ≥ 0 then c.1 <<< c.2.toNat else c.1 >>> (-c.2).toNat   -- int(): truncation

/-! ## `constant_memo` (libelefun.py:85-104) -/

structure MemoState where
  memo_prec : Int          -- `f.memo_prec`, initially -1
  memo_val  : Option Int   -- `f.memo_val`, initially None
deriving Repr, DecidableEq

def memoInit : MemoState := ⟨-1, none⟩

/-- one call `g(prec)`.  `np` is the `newprec` function (the instance is `newprec` above),
`fault = true` means `f(newprec)` raises. -/
def memoReq (F : Nat → Int) (np : Nat → Nat) (s : MemoState) (prec : Nat) (fault : Bool) :
    MemoState × Res Int :=
  if (prec : Int) ≤ s.memo_prec then
    match s.memo_val with
    | some v => (s, .ok (shr v (s.memo_prec - prec).toNat))
    | none => (s, .pyError .type)            -- `None >> k`; unreachable from `memoInit`
  else
    let newp := np prec
    if fault then (s, .raised)               -- `f(newprec)` raised: nothing assigned
    else
      let v := F newp
      let s1 : MemoState := { s with memo_val := some v }      -- f.memo_val = f(newprec)
      let s2 : MemoState := { s1 with memo_prec := newp }       -- f.memo_prec = newprec
      if newp < prec then (s2, .pyError .value)                 -- negative shift count
      else (s2, .ok (shr v (newp - prec)))

/-- run a history of requests `(prec, fault)`; returns the final state and the answers. -/
def memoRun (F : Nat → Int) (np : Nat → Nat) : MemoState → List (Nat × Bool) → MemoState × List (Res Int)
  | s, [] => (s, [])
  | s, (p, f) :: h =>
    let r := memoReq F np s p f
    let t := memoRun F np r.1 h
    (t.1, r.2 :: t.2)

/-- final state after a history -/
def memoAfter (F : Nat → Int) (np : Nat → Nat) (s : MemoState) (h : List (Nat × Bool)) : MemoState :=
  h.foldl (fun s r => (memoReq F np s r.1 r.2).1) s

/-- program points of `g(prec)`, one per read / compute / write. -/
inductive MemoPc where
  | start (prec : Nat)                       -- about to read memo_prec and test
  | miss (prec : Nat)                        -- test failed; about to compute newprec
  | call (prec newp : Nat)                   -- about to call f(newprec)      (can raise)
  | gotVal (prec newp : Nat) (v : Int)       -- f returned; about to assign f.memo_val
  | wroteVal (prec newp : Nat) (v : Int)     -- memo_val assigned; about to assign f.memo_prec
  | done (r : Res Int)
deriving Repr, DecidableEq

/-- one micro-step -/
def memoMicro (F : Nat → Int) (np : Nat → Nat) : MemoState × MemoPc → MemoState × MemoPc
  | (s, .start prec) =>
    if (prec : Int) ≤ s.memo_prec then
      match s.memo_val with
      | some v => (s, .done (.ok (shr v (s.memo_prec - prec).toNat)))
      | none => (s, .done (.pyError .type))
    else (s, .miss prec)
  | (s, .miss prec) => (s, .call prec (np prec))
  | (s, .call prec newp) => (s, .gotVal prec newp (F newp))
  | (s, .gotVal prec newp v) => ({ s with memo_val := some v }, .wroteVal prec newp v)
  | (s, .wroteVal prec newp v) =>
    ({ s with memo_prec := newp },
      .done (if newp < prec then .pyError .value else .ok (shr v (newp - prec))))
  | (s, .done r) => (s, .done r)

def memoMicroN (F : Nat → Int) (np : Nat → Nat) : Nat → MemoState × MemoPc → MemoState × MemoPc
  | 0, c => c
  | k+1, c => memoMicroN F np k (memoMicro F np c)

/-! ## `def_mpf_constant` (libelefun.py:106-121) -/

/-- the last two statements of `f(prec, rnd)`: the `v += 1` adjustment and `normalize`.
`v` is the (positive) fixed-point value at `wp = prec + 20`. -/
def constFinal (v : Nat) (prec : Nat) (rnd : Rnd) : Mpf :=
  let wp : Int := prec + 20
  let v := if rnd = .u ∨ rnd = .c then v + 1 else v
  normalize 0 v (-wp) (bitcount v) prec rnd

/-- `mpf_pi(prec, rnd)` etc. = `def_mpf_constant(pi_fixed)`, with `pi_fixed` a `constant_memo`
around `F`.  The fixed-point value is a non-negative integer (docstring assumption of
`def_mpf_constant`: "the constant is positive"); a negative one is outside the model (`pyError`). -/
def mpfConstant (F : Nat → Int) (np : Nat → Nat) (s : MemoState) (prec : Nat) (rnd : Rnd)
    (fault : Bool) : MemoState × Res Mpf :=
  match memoReq F np s (prec + 20) fault with
  | (s', .ok v) => if v < 0 then (s', .pyError .value) else (s', .ok (constFinal v.toNat prec rnd))
  | (s', .raised) => (s', .raised)
  | (s', .pyError e) => (s', .pyError e)

/-! ## `log_int_fixed` + `log_int_cache` (libelefun.py:516-536)

`F n wp` is the value `v` computed at working precision `wp` (either branch of the `if`; the
`wp <= LOG_TAYLOR_SHIFT` branch needs `prec ≤ -1` and is not reachable for `prec ≥ 0`). -/

def MAX_LOG_INT_CACHE : Nat := 2000

abbrev LogIntState := FMap Nat (Int × Nat)

inductive Served where
  | cache | computed
deriving Repr, DecidableEq

/-- the part of `log_int_fixed` after the cache test (lines 525-536) -/
def logIntMiss (F : Nat → Nat → Int) (s : LogIntState) (n prec : Nat) (fault : Bool) :
    LogIntState × Res (Served × Int) :=
  let wp := prec + 10
  if fault then (s, .raised)                    -- mpf_log / to_fixed raised
  else
    let v := F n wp
    let s' := if n < MAX_LOG_INT_CACHE then s.set n (v, wp) else s
    (s', .ok (.computed, shr v (wp - prec)))

def logIntReq (F : Nat → Nat → Int) (s : LogIntState) (n prec : Nat) (fault : Bool) :
    LogIntState × Res (Served × Int) :=
  match s n with
  | some (value, vprec) =>
    if vprec ≥ prec then (s, .ok (.cache, shr value (vprec - prec)))
    else logIntMiss F s n prec fault
  | none => logIntMiss F s n prec fault

def logIntAfter (F : Nat → Nat → Int) (s : LogIntState) (h : List (Nat × Nat × Bool)) : LogIntState :=
  h.foldl (fun s r => (logIntReq F s r.1 r.2.1 r.2.2).1) s

/-! ## exact-key caches: `log_taylor_cache`, `atan_taylor_cache`, `cos_sin_cache`, `hyp_summators`,
and `standard_cache` of the quadrature rules.  `if key in cache: v = cache[key] else: v = F(key);
cache[key] = v`. -/

def exactReq {K V : Type} [DecidableEq K] (F : K → V) (s : FMap K V) (k : K) (fault : Bool) :
    FMap K V × Res (Served × V) :=
  match s k with
  | some v => (s, .ok (.cache, v))
  | none => if fault then (s, .raised) else (s.set k (F k), .ok (.computed, F k))

def exactAfter {K V : Type} [DecidableEq K] (F : K → V) (s : FMap K V) (h : List (K × Bool)) : FMap K V :=
  h.foldl (fun s r => (exactReq F s r.1 r.2).1) s

/-- `cache_prec_steps[prec]` (libelefun.py:74-76), as a closed form. -/
def cachePrecSteps (prec : Nat) : Nat :=
  if prec ≤ 1 then 22 else min (2 ^ bitcount (prec - 1)) 2500 + 20

def LOG_TAYLOR_SHIFT : Nat := 9
def ATAN_TAYLOR_SHIFT : Nat := 7
def COS_SIN_CACHE_PREC : Nat := 400   -- BACKEND == 'python'
def COS_SIN_CACHE_STEP : Nat := 8

/-- key of `log_taylor_cache` used by `log_taylor_cached(x, prec)` -/
def logTaylorKey (x prec : Nat) : Nat × Nat := (x >>> (prec - LOG_TAYLOR_SHIFT), cachePrecSteps prec)

/-- `log_taylor_cached`'s use of the table entry `(a, log_a)`: both shifted down by `dprec`. -/
def logTaylorLookup (F : Nat × Nat → Int × Int) (s : FMap (Nat × Nat) (Int × Int)) (x prec : Nat)
    (fault : Bool) : FMap (Nat × Nat) (Int × Int) × Res (Served × (Int × Int)) :=
  let key := logTaylorKey x prec
  let dprec := key.2 - prec
  match exactReq F s key fault with
  | (s', .ok (w, (a, la))) => (s', .ok (w, (shr a dprec, shr la dprec)))
  | (s', .raised) => (s', .raised)
  | (s', .pyError e) => (s', .pyError e)

/-- key of `atan_taylor_cache` used by `atan_taylor_get_cached(n, prec)`:
`prec2 = (1<<(bitcount(prec-1))) + 20` -/
def atanTaylorKey (n prec : Nat) : Nat × Nat := (n, 2 ^ bitcount (prec - 1) + 20)

def atanTaylorLookup (F : Nat × Nat → Int × Int) (s : FMap (Nat × Nat) (Int × Int)) (n prec : Nat)
    (fault : Bool) : FMap (Nat × Nat) (Int × Int) × Res (Served × (Int × Int)) :=
  let key := atanTaylorKey n prec
  let dprec := key.2 - prec
  match exactReq F s key fault with
  | (s', .ok (w, (a, aa))) => (s', .ok (w, (shr a dprec, shr aa dprec)))
  | (s', .raised) => (s', .raised)
  | (s', .pyError e) => (s', .pyError e)

/-- key of `cos_sin_cache` in `cos_sin_basecase(x, prec)` (`prec ≤ COS_SIN_CACHE_PREC`):
`n = x >> (prec - COS_SIN_CACHE_STEP)`; the table entry does not depend on `prec`. -/
def cosSinKey (x prec : Nat) : Nat := x >>> (prec - COS_SIN_CACHE_STEP)

def cosSinLookup (F : Nat → Int × Int) (s : FMap Nat (Int × Int)) (x prec : Nat) (fault : Bool) :
    FMap Nat (Int × Int) × Res (Served × (Int × Int)) :=
  let offset := COS_SIN_CACHE_PREC - prec
  match exactReq F s (cosSinKey x prec) fault with
  | (s', .ok (w, (c, sn))) => (s', .ok (w, (shr c offset, shr sn offset)))
  | (s', .raised) => (s', .raised)
  | (s', .pyError e) => (s', .pyError e)

/-! ## `mpf_bernoulli` + `bernoulli_cache` (gammazeta.py:391-475) -/

def MAX_BERNOULLI_CACHE : Nat := 3000

/-- one cache entry `(numbers, state)` with `state = [m, bin, bin1]` -/
structure BernEntry where
  numbers : FMap Nat Mpf
  m    : Nat
  bin  : Nat
  bin1 : Nat

/-- `numbers = {0:fone}; state = [2, 10, 1]` -/
def bernEntryInit : BernEntry := ⟨(FMap.empty).set 0 fone, 2, 10, 1⟩

abbrev BernState := FMap Nat BernEntry

/-- the functions `mpf_bernoulli` calls besides its own recurrence.
`body wp m numbers bin bin1` is lines 444-467 (the value `b` stored into `numbers[m]`). -/
structure BernEnv where
  body : Nat → Nat → FMap Nat Mpf → Nat → Nat → Option Mpf   -- `none`: the body raises by itself
  huge : Nat → Nat → Option Rnd → Mpf           -- mpf_bernoulli_huge(n, prec, rnd)
  useFrac : Nat → Nat → Bool                    -- prec > CUTOFF and prec > bernoulli_size(n)*1.1+1000
  frac : Nat → Nat → Option Rnd → Mpf           -- from_rational(*bernfrac(n), prec, rnd or 'f')

/-- one iteration of `while m <= n` after `b` has been computed: lines 468-474
(plain integer arithmetic and assignments: no crash point inside). -/
def bernAdvance (e : BernEntry) (b : Mpf) : BernEntry :=
  let numbers := e.numbers.set e.m b
  let m := e.m + 2
  let bin := e.bin * ((m+2)*(m+3)) / (m*(m-1))
  let bin1 := if m > 6 then e.bin1 * ((2+m)*(3+m)) / ((m-7)*(m-6)) else e.bin1
  ⟨numbers, m, bin, bin1⟩

/-- the `while m <= n` loop.  `fault = some k`: the `(k+1)`-th evaluation of the loop body raises.
Returns the entry as left in the cache (it is mutated in place) and whether the loop completed. -/
def bernLoop (env : BernEnv) (wp n : Nat) : Nat → BernEntry → Option Nat → BernEntry × Bool
  | 0, e, _ => (e, true)
  | fuel+1, e, fault =>
    if e.m ≤ n then
      if fault = some 0 then (e, false)
      else
        match env.body wp e.m e.numbers e.bin e.bin1 with
        | none => (e, false)
        | some b => bernLoop env wp n fuel (bernAdvance e b) (fault.map (· - 1))
    else (e, true)

inductive BernPath where
  | small | odd | frac | huge | cachedRaw | cachedPos | computed
deriving Repr, DecidableEq

/-- the working precision that keys the cache: `wp = prec + 30; wp += 32 - (prec & 31)` -/
def bernWp (prec : Nat) : Nat := prec + 30 + (32 - prec % 32)

/-- `return mpf_bernoulli_huge(n, prec, rnd)` (the cache is not touched) -/
def bernHuge (env : BernEnv) (s : BernState) (n prec : Nat) (rnd : Option Rnd) (fault : Option Nat) :
    BernState × Res (BernPath × Mpf) :=
  if fault = some 0 then (s, .raised) else (s, .ok (.huge, env.huge n prec rnd))

/-- the final statements of both return paths (after the repair of D14, commit 8bbd625):
`if not rnd: return numbers[n]` / `return mpf_pos(numbers[n], prec, rnd)` -/
def bernRound (v : Mpf) (prec : Nat) : Option Rnd → Mpf
  | none => v
  | some r => mpf_pos v prec r

/-- the `while m <= n` loop on the entry `e` of `bernoulli_cache[wp]` followed by the return
statements.  The entry object is mutated in place, so the cache sees every completed iteration even
when a later one raises. -/
def bernRunLoop (env : BernEnv) (s : BernState) (e : BernEntry) (wp n prec : Nat) (rnd : Option Rnd)
    (fault : Option Nat) : BernState × Res (BernPath × Mpf) :=
  let r := bernLoop env wp n (n + 1) e fault
  let s' := s.set wp r.1
  if r.2 then
    match r.1.numbers n with
    | some v => (s', .ok (.computed, bernRound v prec rnd))
    | none => (s', .pyError .value)               -- KeyError; unreachable (`bernRunLoop_outcome`)
  else (s', .raised)

/-- the cached part of `mpf_bernoulli` (lines 423-475), `n` even, `2 ≤ n ≤ MAX_BERNOULLI_CACHE`. -/
def bernCached (env : BernEnv) (s : BernState) (n prec : Nat) (rnd : Option Rnd) (fault : Option Nat) :
    BernState × Res (BernPath × Mpf) :=
  let wp := bernWp prec
  match s wp with
  | some e =>
    match e.numbers n with
    | some v =>
      match rnd with
      | none => (s, .ok (.cachedRaw, bernRound v prec none))
      | some r => (s, .ok (.cachedPos, bernRound v prec (some r)))
    | none =>
      if (n : Int) - (e.m : Int) > 10 then bernHuge env s n prec rnd fault
      else bernRunLoop env s e wp n prec rnd fault
  | none =>
    if n > 10 then bernHuge env s n prec rnd fault
    else bernRunLoop env (s.set wp bernEntryInit) bernEntryInit wp n prec rnd fault   -- entry registered before the loop

/-- `mpf_bernoulli(n, prec, rnd)`, `n ≥ 0`.  `fault = some k` makes the k-th call that can raise
(0-based; the `huge`/`frac` call, or the k-th loop body) raise. -/
def bernReq (env : BernEnv) (s : BernState) (n prec : Nat) (rnd : Option Rnd) (fault : Option Nat) :
    BernState × Res (BernPath × Mpf) :=
  if n = 0 then (s, .ok (.small, fone))
  else if n = 1 then (s, .ok (.small, mpf_neg fhalf))
  else if n % 2 = 1 then (s, .ok (.odd, fzero))
  else if env.useFrac n prec then
    if fault = some 0 then (s, .raised) else (s, .ok (.frac, env.frac n prec rnd))
  else if n > MAX_BERNOULLI_CACHE then bernHuge env s n prec rnd fault
  else bernCached env s n prec rnd fault

def bernAfter (env : BernEnv) (s : BernState) (h : List (Nat × Nat × Option Rnd × Option Nat)) : BernState :=
  h.foldl (fun s r => (bernReq env s r.1 r.2.1 r.2.2.1 r.2.2.2).1) s

/-- the real loop body (lines 444-467), given `bernoulli_size` as a function (`sz`).  `none` is a
KeyError on `numbers[m-6*j]`. -/
def bernSumLoop (numbers : FMap Nat Mpf) (m : Nat) (sexp : Int) :
    Nat → Nat → Int → Int → Option Int
  | 0, _, _, s => some s
  | fuel+1, j, a, s =>
    if j > m / 6 then some s else
    match numbers (m - 6*j) with
    | none => none
    | some u =>
      let uman : Int := if u.sign ≠ 0 then -(u.man : Int) else u.man
      let s := s + lshift (a * uman) (u.exp - sexp)
      let j6 : Int := 6 * j
      let mi : Int := m
      let a := a * ((mi-5-j6)*(mi-4-j6)*(mi-3-j6)*(mi-2-j6)*(mi-1-j6)*(mi-j6))
      let a := Int.fdiv a ((4+j6)*(5+j6)*(6+j6)*(7+j6)*(8+j6)*(9+j6))
      bernSumLoop numbers m sexp fuel (j+1) a s

def f3 : Mpf := from_int 3
def f6 : Mpf := from_int 6

def bernBodyReal (sz : Nat → Int) (wp m : Nat) (numbers : FMap Nat Mpf) (bin bin1 : Nat) : Option Mpf :=
  let szbm := sz m
  let sexp : Int := max 0 szbm - wp
  let a : Int := if m < 6 then 0 else bin1
  match bernSumLoop numbers m sexp (m / 6 + 1) 1 a 0 with
  | none => none
  | some s =>
    let b : Except Err Mpf :=
      if m % 6 = 4 then mpf_rdiv_int (-(m : Int) - 3) f6 wp else mpf_rdiv_int ((m : Int) + 3) f3 wp
    match b with
    | .error _ => none
    | .ok b =>
      let s := from_man_exp s sexp wp
      match mpf_div (mpf_sub b s wp) (from_int bin) wp with
      | .ok r => some r
      | .error _ => none

/-! ## `QuadratureRule.get_nodes` (quadrature.py:43-74) -/

/-- `I` = type of interval endpoints, `N` = type of node lists -/
structure QuadState (I N : Type) where
  standard    : FMap (Nat × Nat) N                 -- standard_cache[degree, prec]
  transformed : FMap (I × I × Nat × Nat) N         -- transformed_cache[a, b, degree, prec]
  count       : FMap (I × I × Nat × Nat) Bool      -- interval_count
  ctxPrec     : Nat                                -- ctx.prec

def quadInit {I N : Type} (p : Nat) : QuadState I N := ⟨FMap.empty, FMap.empty, FMap.empty, p⟩

inductive QuadServed where
  | transformedCache | standardCache | computed
deriving Repr, DecidableEq

/-- lines 61-65: the nodes on the standard interval, from `standard_cache` or from `calc_nodes`
(`none`: `calc_nodes` raised). -/
def quadStd {I N : Type} (calcN : Nat → Nat → N) (s1 : QuadState I N) (degree prec : Nat)
    (fault : Option Nat) : Option (QuadState I N × QuadServed × N) :=
  match s1.standard (degree, prec) with
  | some nodes => some (s1, .standardCache, nodes)
  | none =>
    if fault = some 0 then none
    else
      let nodes := calcN degree prec
      some ({ s1 with standard := s1.standard.set (degree, prec) nodes }, .computed, nodes)

/-- lines 67-73: transform, register in `interval_count` / `transformed_cache`, restore `ctx.prec`. -/
def quadFinish {I N : Type} [DecidableEq I] (tr : N → I → I → Nat → N) (s2 : QuadState I N)
    (w : QuadServed) (nodes : N) (a b : I) (degree prec orig : Nat) (fault : Option Nat) :
    QuadState I N × Res (QuadServed × N) :=
  let key := (a, b, degree, prec)
  if fault = some 1 then ({ s2 with ctxPrec := orig }, .raised)
  else
    let nodes := tr nodes a b (prec + 20)
    match s2.count key with
    | some _ => ({ s2 with transformed := s2.transformed.set key nodes, ctxPrec := orig }, .ok (w, nodes))
    | none => ({ s2 with count := s2.count.set key true, ctxPrec := orig }, .ok (w, nodes))

/-- `get_nodes(a, b, degree, prec)`.  `calcN degree prec` = `calc_nodes` (run at `ctx.prec = prec+20`),
`tr nodes a b wp` = `transform_nodes` run at `ctx.prec = wp`.
`fault = some 0`: `calc_nodes` raises (if it is called); `some 1`: `transform_nodes` raises.
The `finally` clause restores `ctx.prec` on every path. -/
def quadReq {I N : Type} [DecidableEq I] (calcN : Nat → Nat → N) (tr : N → I → I → Nat → N)
    (s : QuadState I N) (a b : I) (degree prec : Nat) (fault : Option Nat) :
    QuadState I N × Res (QuadServed × N) :=
  match s.transformed (a, b, degree, prec) with
  | some nodes => (s, .ok (.transformedCache, nodes))
  | none =>
    let orig := s.ctxPrec
    match quadStd calcN { s with ctxPrec := prec + 20 } degree prec fault with
    | none => ({ s with ctxPrec := orig }, .raised)
    | some (s2, w, nodes) => quadFinish tr s2 w nodes a b degree prec orig fault

/-! ## `matrix._LU` (linalg.py:112-155, matrices.py:286, 566-567, 694-711)

`D` = matrix contents (including its dimensions), `R` = an `(LU, p)` result. -/

structure LUState (D R : Type) where
  data : D
  lu   : Option R        -- `A._LU`
  prec : Nat             -- ctx.prec

inductive LUOp (D : Type) where
  | decomp (useCache : Bool) (fault : Bool)   -- ctx.LU_decomp(A, use_cache=…)
  | setItem (d : D)                           -- A[i,j] = x      (new contents d): clears _LU
  | setSlice (d : D)                          -- A[i,:] = M, A[:,j] = x, A[a:b,c:d] = M  (slice branch of __setitem__, which
                                              -- stores through __set_element; the reset at the end of __setitem__ runs for
                                              -- both branches, matrices.py:566-567): clears _LU
  | resize (d : D)                            -- A.rows = k / A.cols = k  (new contents d): does NOT clear _LU
  | setPrec (p : Nat)                         -- ctx.prec = p: does not touch A

/-- `LU d p` is the decomposition computed from contents `d` at precision `p`; `none` when the
algorithm raises ZeroDivisionError / ValueError by itself. -/
def luStep {D R : Type} (LU : D → Nat → Option R) (s : LUState D R) :
    LUOp D → LUState D R × Option (Res (Served × R))
  | .decomp useCache fault =>
    match (if useCache then s.lu else none) with
    | some r => (s, some (.ok (.cache, r)))
    | none =>
      if fault then (s, some .raised)
      else match LU s.data s.prec with
        | none => (s, some .raised)
        | some r => ({ s with lu := some r }, some (.ok (.computed, r)))
  | .setItem d => ({ s with data := d, lu := none }, none)
  | .setSlice d => ({ s with data := d, lu := none }, none)
  | .resize d => ({ s with data := d }, none)
  | .setPrec p => ({ s with prec := p }, none)

def luAfter {D R : Type} (LU : D → Nat → Option R) (s : LUState D R) (h : List (LUOp D)) : LUState D R :=
  h.foldl (fun s o => (luStep LU s o).1) s

/-! ## `ctx.memoize` (ctx_base.py:458-494) -/

abbrev MemoizeState (K V : Type) := FMap K (Nat × V)

/-- the part of `f_cached` after the cache test -/
def memoizeMiss {K V : Type} [DecidableEq K] (F : K → Nat → V)
    (s : MemoizeState K V) (key : K) (prec : Nat) (fault : Bool) :
    MemoizeState K V × Res (Served × V) :=
  if fault then (s, .raised)
  else
    let value := F key prec
    (s.set key (prec, value), .ok (.computed, value))

/-- `f_cached(*args)` at `ctx.prec = prec`.  `pos v prec` is `+cvalue` evaluated at `ctx.prec = prec`. -/
def memoizeReq {K V : Type} [DecidableEq K] (F : K → Nat → V) (pos : V → Nat → V)
    (s : MemoizeState K V) (key : K) (prec : Nat) (fault : Bool) :
    MemoizeState K V × Res (Served × V) :=
  match s key with
  | some (cprec, cvalue) =>
    if cprec ≥ prec then (s, .ok (.cache, pos cvalue prec))
    else memoizeMiss F s key prec fault
  | none => memoizeMiss F s key prec fault

def memoizeAfter {K V : Type} [DecidableEq K] (F : K → Nat → V) (pos : V → Nat → V)
    (s : MemoizeState K V) (h : List (K × Nat × Bool)) : MemoizeState K V :=
  h.foldl (fun s r => (memoizeReq F pos s r.1 r.2.1 r.2.2).1) s

end Mp.Cache
