/-
  MpModel/DrvRelCert.lean — driver ops for the integer-relation acceptance checkers (C35).
    pslqchk <tol_m> <tol_e> <maxcoeff> <n> <x1_m> <x1_e> … <xn_m> <xn_e> <c1> … <cn>   → ok | violates | malformed
    polychk <tol_m> <tol_e> <maxcoeff> <deg_requested> <x_m> <x_e> <a_d> … <a_0>       → ok | violates | malformed
  (all numbers decimal integers; a dyadic is `m·2^e`)
-/
import MpModel.RelCert

namespace DrvRelCert
open Mp.RelCert
abbrev Dy := Mp.Encl.Dy

def parseInt (s : String) : Option Int :=
  if s.startsWith "-" then (s.drop 1).toNat?.map (fun n => -(n : Int))
  else if s.startsWith "+" then (s.drop 1).toNat?.map (fun n => (n : Int))
  else s.toNat?.map (fun n => (n : Int))

def parseInts : List String → Option (List Int)
  | [] => some []
  | s :: ss => do
    let a ← parseInt s
    let r ← parseInts ss
    pure (a :: r)

def pairs : List Int → List Dy
  | m :: e :: r => ⟨m, e⟩ :: pairs r
  | _ => []

def showV : Mp.RelCert.Verdict → String
  | .ok => "ok" | .violates => "violates" | .malformed => "malformed"

def answer (toks : List String) : Option String :=
  match toks with
  | "pslqchk" :: tm :: te :: mc :: n :: rest => do
    let tm ← parseInt tm
    let te ← parseInt te
    let mc ← parseInt mc
    let n ← n.toNat?
    let nums ← parseInts rest
    if nums.length < 2 * n then none else
    pure (showV (pslqCheck (pairs (nums.take (2 * n))) (nums.drop (2 * n)) ⟨tm, te⟩ mc))
  | "polychk" :: tm :: te :: mc :: deg :: xm :: xe :: rest => do
    let tm ← parseInt tm
    let te ← parseInt te
    let mc ← parseInt mc
    let deg ← deg.toNat?
    let xm ← parseInt xm
    let xe ← parseInt xe
    let cs ← parseInts rest
    pure (showV (findpolyCheck ⟨xm, xe⟩ cs deg ⟨tm, te⟩ mc))
  | _ => none

end DrvRelCert
