/-
  MpModel/DrvIntFun.lean — driver ops for MpModel/IntFun.lean (same token conventions as Driver.lean).

  Stateless ops:
    w_binomial n k p r | w_rf x n p r | w_ff x n p r | w_bell n p r | bernfrac n (n ≤ 150)   (exact REFERENCE values, not models)
    isqrt_small x r0 | sqrtrem_large x y0   (integer loops with the float estimate as parameter)
    stirling1 n k | moebius n | list_primes n | primepi n | isprime n | gcd a b c … | powmod a d n
  History ops (fresh module state, then the whole call history; the answer lists every result, then
  `S:<len>:<sum of keys>` of the final cache(s)):
    ifac_hist   t1 t2 …     ti = <n>  (ifac(n))  or  s2:<n>:<k>  (stirling2(n,k), which calls ifac(k))
    ifac2_hist  n1 n2 …
    ifib_hist   n1 n2 …
    euler_hist  m1 m2 …
  Rounded wrappers (fresh state; answer `P:<from_int(result, prec, rnd)>,I:<result>`):
    w_fac n p r | w_fac2 n p r | w_fib n p r | w_euler n p r | w_stirling1 n k p r | w_stirling2 n k p r
  Answers:  I:<int> | B:0|1 | E:<Kind> | N (Python None) | L:<item>,<item>,… | mpf tuple
-/
import MpModel.IntFun

open Mp

namespace DrvIntFun

def parseInt (s : String) : Option Int :=
  if s.startsWith "-" then (s.drop 1).toNat?.map (fun n => -(n : Int))
  else if s.startsWith "+" then (s.drop 1).toNat?.map (fun n => (n : Int))
  else s.toNat?.map (fun n => (n : Int))

def parseInts : List String → Option (List Int)
  | [] => some []
  | x :: xs => do
    let a ← parseInt x
    let r ← parseInts xs
    pure (a :: r)

def parseRnd (s : String) : Option Rnd :=
  match s with
  | "n" => some .n | "f" => some .f | "c" => some .c | "u" => some .u | "d" => some .d
  | _ => none

def hexStr (n : Nat) : String := String.ofList (Nat.toDigits 16 n)

def showMpf (x : Mpf) : String := s!"{x.sign}:{hexStr x.man}:{x.exp}:{x.bc}"

def showErr : PyErr → String
  | .keyError => "E:KeyError"
  | .valueError => "E:ValueError"
  | .typeError => "E:TypeError"

def showI (v : Int) : String := s!"I:{v}"

def showEI : Except PyErr Int → String
  | .ok v => showI v
  | .error e => showErr e

def showOI : Option Int → String
  | some v => showI v
  | none => "N"

def showL (l : List String) : String := "L:" ++ ",".intercalate l

/-- summary of a cache state: `S:<len>:<sum of keys>` (appended to every history answer so that the
cache CONTENTS, not only the results, are compared with the real dictionaries) -/
def showS (d : IDict) : String := s!"S:{dlen d}:{d.foldl (fun a kv => a + kv.1) (0 : Int)}"

/-- one token of an `ifac_hist` history -/
inductive FacCall | fac (n : Int) | st2 (n k : Int)

def parseFacCall (s : String) : Option FacCall :=
  match s.splitOn ":" with
  | [a] => (parseInt a).map .fac
  | ["s2", a, b] => do pure (.st2 (← parseInt a) (← parseInt b))
  | _ => none

def parseFacCalls : List String → Option (List FacCall)
  | [] => some []
  | x :: xs => do
    let a ← parseFacCall x
    let r ← parseFacCalls xs
    pure (a :: r)

/-- run a history of `ifac` / `stirling2` calls; an exception leaves the memo as it was -/
def runFac : List FacCall → IDict → List String
  | [], memo => [showS memo]
  | .fac n :: t, memo =>
    match ifac n memo with
    | .ok (v, memo') => showI v :: runFac t memo'
    | .error e => showErr e :: runFac t memo
  | .st2 n k :: t, memo =>
    match stirling2 n k memo with
    | .ok (v, memo') => showI v :: runFac t memo'
    | .error e => showErr e :: runFac t memo

def runFac2 : List Int → IDict × IDict → List String
  | [], pair => [showS pair.1, showS pair.2]
  | n :: t, pair =>
    match ifac2 n pair with
    | .ok (v, pair') => showI v :: runFac2 t pair'
    | .error e => showErr e :: runFac2 t pair

def runFib : List Int → IDict → List String
  | [], c => [showS c]
  | n :: t, c => let r := ifib n c; showI r.1 :: runFib t r.2

def runEuler : List Int → IDict → List String
  | [], c => [showS c]
  | n :: t, c => let r := eulernum n c; showOI r.1 :: runEuler t r.2

def roundE (v : Except PyErr Int) (p : Int) (r : Rnd) : String :=
  match v with
  | .ok v => s!"P:{showMpf (from_int v p r)},{showI v}"
  | .error e => showErr e

def answer (toks : List String) : Option String :=
  match toks with
  | "ifac_hist" :: xs => do pure (showL (runFac (← parseFacCalls xs) ifacMemo0))
  | "ifac2_hist" :: xs => do pure (showL (runFac2 (← parseInts xs) ifac2Memo0))
  | "ifib_hist" :: xs => do pure (showL (runFib (← parseInts xs) []))
  | "euler_hist" :: xs => do pure (showL (runEuler (← parseInts xs) eulerCache0))
  | ["stirling1", n, k] => do pure (showEI (stirling1 (← parseInt n) (← parseInt k)))
  | ["moebius", n] => do pure (showI (moebius (← parseInt n)))
  | ["list_primes", n] => do
    match list_primes (← parseInt n) with
    | .ok l => pure (showL (l.map toString))
    | .error e => pure (showErr e)
  | ["primepi", n] => do pure (showEI (primepi (← parseInt n)))
  | ["isprime", n] => do pure (if isprime (← parseInt n) then "B:1" else "B:0")
  | "gcd" :: xs => do pure (showI (gcd (← parseInts xs)))
  | ["powmod", a, d, n] => do pure (showI (powmod (← a.toNat?) (← d.toNat?) (← n.toNat?)))
  | ["isqrt_small", x, r0] => do pure (showI (isqrt_small (← x.toNat?) (← r0.toNat?)))
  | ["sqrtrem_large", x, y0] => do
    let r := sqrtremLarge (← x.toNat?) (← parseInt y0)
    pure s!"P:{showI r.1},{showI r.2}"
  | ["w_binomial", n, k, p, r] => do
    pure (roundE (.ok (binomialRef (← parseInt n) (← parseInt k))) (← parseInt p) (← parseRnd r))
  | ["w_rf", x, n, p, r] => do
    pure (roundE (.ok (rfRef (← parseInt x) (← n.toNat?))) (← parseInt p) (← parseRnd r))
  | ["w_ff", x, n, p, r] => do
    pure (roundE (.ok (ffRef (← parseInt x) (← n.toNat?))) (← parseInt p) (← parseRnd r))
  | ["w_bell", n, p, r] => do
    pure (roundE (.ok (bellRef (← n.toNat?))) (← parseInt p) (← parseRnd r))
  | ["bernfrac", n] => do
    let k ← n.toNat?
    if k > 150 then none else
    let b := bernfracRef k
    pure s!"P:{showI b.1},{showI (b.2 : Int)}"
  | ["w_fac", n, p, r] => do
    pure (roundE ((ifac (← parseInt n) ifacMemo0).map (·.1)) (← parseInt p) (← parseRnd r))
  | ["w_fac2", n, p, r] => do
    pure (roundE ((ifac2 (← parseInt n) ifac2Memo0).map (·.1)) (← parseInt p) (← parseRnd r))
  | ["w_fib", n, p, r] => do
    pure (roundE (.ok (ifib (← parseInt n) []).1) (← parseInt p) (← parseRnd r))
  | ["w_euler", n, p, r] => do
    match (eulernum (← parseInt n) eulerCache0).1 with
    | some v => pure (roundE (.ok v) (← parseInt p) (← parseRnd r))
    | none => pure "N"
  | ["w_stirling1", n, k, p, r] => do
    pure (roundE (stirling1 (← parseInt n) (← parseInt k)) (← parseInt p) (← parseRnd r))
  | ["w_stirling2", n, k, p, r] => do
    pure (roundE ((stirling2 (← parseInt n) (← parseInt k) ifacMemo0).map (·.1)) (← parseInt p) (← parseRnd r))
  | _ => none

end DrvIntFun
