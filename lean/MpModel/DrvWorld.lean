/-
  MpModel/DrvWorld.lean — driver op for the context world (C38).
    world <stmt> <stmt> ...
      stmt:  sp:<i>:<n>  ctx_i.prec = n          sd:<i>:<n>  ctx_i.dps = n
             sr:<i>:<r>  ctx_i._prec_rounding[1] = r          st:<i>:<0|1>  trap_complex
             sy:<i>:<0|1> pretty                  df:<i>      ctx_i.default()
             cl:<i>      ctx_i.clone()            ev:<i>      a computation in ctx_i
    answer: one record per statement, joined by " / ":
      <outcome>|<cell>;<cell>;...      cell = kind,prec,dps,rnd,trap,pretty
      outcome = done | new=<id> | at=<kind>,<prec>,<rnd> | AttributeError | noctx
-/
import MpModel.World

namespace DrvWorld
open Mp Mp.World

def parseInt (s : String) : Option Int :=
  if s.startsWith "-" then (s.drop 1).toNat?.map (fun n => -(n : Int))
  else if s.startsWith "+" then (s.drop 1).toNat?.map (fun n => (n : Int))
  else s.toNat?.map (fun n => (n : Int))

def parseRnd (s : String) : Option Rnd :=
  match s with
  | "n" => some .n | "f" => some .f | "c" => some .c | "u" => some .u | "d" => some .d
  | _ => none

def parseBool (s : String) : Option Bool :=
  match s with
  | "0" => some false | "1" => some true | _ => none

def parseOp (s : String) : Option (Op Unit Unit) :=
  match s.splitOn ":" with
  | ["sp", i, n] => do pure (.setPrec (← i.toNat?) (← parseInt n))
  | ["sd", i, n] => do pure (.setDps (← i.toNat?) (← parseInt n))
  | ["sr", i, r] => do pure (.setRounding (← i.toNat?) (← parseRnd r))
  | ["st", i, b] => do pure (.setTrap (← i.toNat?) (← parseBool b))
  | ["sy", i, b] => do pure (.setPretty (← i.toNat?) (← parseBool b))
  | ["df", i] => do pure (.default (← i.toNat?))
  | ["cl", i] => do pure (.clone (← i.toNat?))
  | ["ev", i] => do pure (.eval (← i.toNat?) () ())
  | _ => none

def parseOps : List String → Option (List (Op Unit Unit))
  | [] => some []
  | s :: ss => do
    let a ← parseOp s
    let r ← parseOps ss
    pure (a :: r)

def rndName : Rnd → String
  | .n => "n" | .f => "f" | .c => "c" | .u => "u" | .d => "d"

def kindName : Kind → String
  | .mp => "mp" | .iv => "iv" | .fp => "fp"

def b01 (b : Bool) : String := if b then "1" else "0"

def showCell (c : Cell) : String :=
  s!"{kindName c.kind},{c.prec},{c.dps},{rndName c.rounding},{b01 c.trap},{b01 c.pretty}"

def showOutcome : Outcome (Kind × Int × Rnd) → String
  | .done => "done"
  | .created i => s!"new={i}"
  | .value (k, p, r) => s!"at={kindName k},{p},{rndName r}"
  | .attrError => "AttributeError"
  | .noCtx => "noctx"

def showRec (r : Outcome (Kind × Int × Rnd) × List Cell) : String :=
  showOutcome r.1 ++ "|" ++ ";".intercalate (r.2.map showCell)

def answer (toks : List String) : Option String :=
  match toks with
  | "world" :: ss => do
    let ops ← parseOps ss
    pure (" / ".intercalate ((trace paramSem (init ()) ops).map showRec))
  | _ => none

end DrvWorld
