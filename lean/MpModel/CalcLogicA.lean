/-
  MpModel/CalcLogicA.lean — pure (exact-arithmetic / index) logic of mpmath's calculus package.

  * `difference`   : `mpmath/calculus/differentiation.py`  `difference(s, n)`  (lines 14-29)
  * `richardson`   : `mpmath/calculus/extrapolation.py`    `richardson(seq)`   (lines 78-96)
  * `Range`, `stdTerm`, `shell`, `cartesianProduct`, `foldFinite`, `foldFinite2` :
                     `extrapolation.py` `standardize`, `cartesian_product`, `fold_finite`,
                     `standardize_infinite`, `fold_infinite` (lines 1729-1834)

  All floating-point operations of the Python code are replaced by exact rational arithmetic
  (core `Rat`); the integer / index logic is modelled branch for branch.
  Import-free (core Lean only).  Theorems are in `MpProofs/CalcLogicA.lean`.
-/

namespace Mp.Calc

/-! ## (a) `difference(s, n)` -/

/-- initial weight `b = (-1) ** (n & 1)` -/
def diffInit (n : Nat) : Int := (-1 : Int) ^ (n &&& 1)

/-- weight update `b = (b * (k-n)) // (k+1)` (Python floor division) -/
def diffStep (n : Nat) (b : Int) (k : Nat) : Int :=
  Int.fdiv (b * ((k : Int) - (n : Int))) ((k : Int) + 1)

/-- the successive values of `b` seen by the loop body, starting at iteration `k` with `fuel`
iterations left -/
def diffWeightsAux (n : Nat) : Nat → Nat → Int → List Int
  | 0, _, _ => []
  | fuel + 1, k, b => b :: diffWeightsAux n fuel (k + 1) (diffStep n b k)

/-- the list `[b_0, …, b_n]` of the values of `b` used in `d += b * s[k]`, `k = 0..n` -/
def diffWeights (n : Nat) : List Int := diffWeightsAux n (n + 1) 0 (diffInit n)

/-- the loop `for k in xrange(n+1): d += b*s[k]; b = (b*(k-n)) // (k+1)`, `fuel` iterations left -/
def differenceAux (s : Nat → Rat) (n : Nat) : Nat → Nat → Int → Rat → Rat
  | 0, _, _, d => d
  | fuel + 1, k, b, d => differenceAux s n fuel (k + 1) (diffStep n b k) (d + (b : Rat) * s k)

/-- `difference(s, n)` in exact arithmetic (`d = ctx.zero`, accumulated left to right) -/
def difference (s : Nat → Rat) (n : Nat) : Rat :=
  differenceAux s n (n + 1) 0 (diffInit n) 0

/-! ## (b) `richardson(seq)` -/

/-- `ctx.sign` on exact values -/
def ratSign (x : Rat) : Int := if 0 < x then 1 else if x < 0 then -1 else 0

/-- `abs` on exact values -/
def richAbs (x : Rat) : Rat := if x < 0 then -x else x

/-- Python `max(a, b)` (returns the first argument unless the second is strictly larger) -/
def pyMax (a b : Rat) : Rat := if a < b then b else a

/-- `seq[::2]` -/
def everyOther : List Rat → List Rat
  | [] => []
  | [a] => [a]
  | a :: _ :: t => a :: everyOther t

/-- `ctx._ifac(N)` -/
def ifac : Nat → Nat
  | 0 => 1
  | n + 1 => (n + 1) * ifac n

/-- the sign test `ctx.sign(seq[-1]-seq[-2]) != ctx.sign(seq[-2]-seq[-3])`
(evaluated only when `len(seq) ≥ 3`; the last three entries are read from the reversed list) -/
def richSignTest (seq : List Rat) : Bool :=
  match seq.reverse with
  | x1 :: x2 :: x3 :: _ => ratSign (x1 - x2) != ratSign (x2 - x3)
  | _ => false

/-- initial weight `c = (-1)**N * N**N / N!`  (`0**0 = 1`) -/
def richInit (N : Nat) : Rat := (((-1 : Int) ^ N * ((N : Int) ^ N) : Int) : Rat) / ((ifac N : Nat) : Rat)

/-- numerator factor `(k-N) * (k+N+1)**N` of the weight update -/
def richNum (N k : Nat) : Rat := ((((k : Int) - (N : Int)) * (((k + N + 1 : Nat) : Int) ^ N) : Int) : Rat)

/-- denominator factor `(1+k) * (k+N)**N` of the weight update -/
def richDen (N k : Nat) : Rat := ((((1 + k) * (k + N) ^ N : Nat)) : Rat)

/-- the main loop, `fuel` iterations left; state `(k, c, s, maxc)`.
`seq[N+k]` out of range raises `IndexError`, a zero divisor raises `ZeroDivisionError`
(both are proved unreachable in `MpProofs/CalcLogicA.lean`). -/
def richLoop (seq : List Rat) (N : Nat) : Nat → Nat → Rat → Rat → Rat → Except String (Rat × Rat)
  | 0, _, _, s, maxc => .ok (s, maxc)
  | fuel + 1, k, c, s, maxc =>
    match seq[N + k]? with
    | none => .error "IndexError"
    | some x =>
      let s' := s + c * x
      let maxc' := pyMax (richAbs c) maxc
      let c1 := c * richNum N k
      if richDen N k = 0 then .error "ZeroDivisionError"
      else richLoop seq N fuel (k + 1) (c1 / richDen N k) s' maxc'

/-- the part of `richardson` after the optional subsampling -/
def richCore (seq : List Rat) : Except String (Rat × Rat) :=
  let N := seq.length / 2 - 1
  richLoop seq N (N + 1) 0 (richInit N) 0 1

/-- `richardson(seq)` in exact arithmetic; returns `(s, maxc)` -/
def richardson (seq : List Rat) : Except String (Rat × Rat) :=
  if seq.length < 3 then .error "ValueError: seq should be of minimum length 3"
  else
    let seq' := if richSignTest seq then everyOther seq else seq
    richCore seq'

/-! ## (c) `nsum` index-range standardisation -/

/-- a one-dimensional summation range with integer / infinite endpoints -/
inductive Range
  | fin (a b : Int)
  | toInf (a : Int)
  | fromNegInf (b : Int)
  | all
  deriving Repr, DecidableEq

/-- `for x in xrange(a, a+cnt): s += f(x)` with accumulator `s` -/
def sumFrom (f : Int → Rat) : Nat → Int → Rat → Rat
  | 0, _, s => s
  | cnt + 1, a, s => sumFrom f cnt (a + 1) (s + f a)

/-- `fold_finite` for one finite interval `[a, b]`: `s = 0; for x in xrange(a, b+1): s += f(x)` -/
def foldFinite1 (f : Int → Rat) (a b : Int) : Rat := sumFrom f (b + 1 - a).toNat a 0

/-- the standardised term `g(k)` of `standardize` for one interval:
* `fin a b`: `b < a` gives the zero function, otherwise the folded finite sum (independent of `k`);
* `all`: `f(k) + f(-k)` if `k` is nonzero else `f(0)`;
* `fromNegInf b`: `f(b - k)`;
* `toInf a`: `f(k + a)`. -/
def stdTerm : Range → (Int → Rat) → Nat → Rat
  | .fin a b, f, _ => if b < a then 0 else foldFinite1 f a b
  | .all, f, k => if k ≠ 0 then f (k : Int) + f (-(k : Int)) else f (k : Int)
  | .fromNegInf b, f, k => f (b - (k : Int))
  | .toInf a, f, k => f ((k : Int) + a)

/-- `for i in xrange(k, k+cnt): s += t(i)` with accumulator `s` (natural-number index) -/
def sumNat (t : Nat → Rat) : Nat → Nat → Rat → Rat
  | 0, _, s => s
  | cnt + 1, k, s => sumNat t cnt (k + 1) (s + t k)

/-- `fold_infinite` for `[0,inf] x [0,inf]`: the `n`-th shell
`s = 0; for x in xrange(n+1): s += f(x, n); for y in xrange(n): s += f(n, y)` -/
def shell (f : Nat → Nat → Rat) (n : Nat) : Rat :=
  sumNat (fun y => f n y) n 0 (sumNat (fun x => f x n) (n + 1) 0 0)

/-- `xrange(a, b+1)` as a list -/
def xrangeList (a b : Int) : List Int := (List.range (b + 1 - a).toNat).map (fun (i : Nat) => a + (i : Int))

/-- `cartesian_product(args)`:
`result = [[]]; for pool in pools: result = [x+[y] for x in result for y in pool]` -/
def cartesianProduct (pools : List (List Int)) : List (List Int) :=
  pools.foldl (fun result pool => result.flatMap (fun x => pool.map (fun y => x ++ [y]))) [[]]

/-- `fold_finite` when every dimension is finite: `s = 0; for xs in cartesian_product(ranges): s += f(*xs)` -/
def foldFinite (f : List Int → Rat) (points : List (Int × Int)) : Rat :=
  (cartesianProduct (points.map fun p => xrangeList p.1 p.2)).foldl (fun s xs => s + f xs) 0

/-- two-dimensional finite×finite `nsum`: `standardize` returns the zero function if some
`b < a`, otherwise the folded sum over the cartesian product (first index outermost) -/
def foldFinite2 (f : Int → Int → Rat) (a1 b1 a2 b2 : Int) : Rat :=
  if b1 < a1 then 0 else if b2 < a2 then 0 else
  foldFinite (fun xs => f (xs.getD 0 0) (xs.getD 1 0)) [(a1, b1), (a2, b2)]

end Mp.Calc
