/-
  MpModel/DrvSpecRef2.lean — driver ops for the references of `MpModel/SpecRef2.lean` (C19, C22).

    spec2  <fam> <int args…> | <y_m> <y_e> <p> <k>                       →  ok | violates | undecided | pole | outside
    specc2 <fam> <int args…> | <yre_m> <yre_e> <yim_m> <yim_e> <p> <k>   →  same, complex output (modulus form)
    sref2  <fam> <int args…> | <wp>                                     →  P:<lo_m>,<lo_e>,<hi_m>,<hi_e> | N: | pole | outside
  Families (decimal integers; rationals as `num den`):
    hypser na (n d)×na nb (n d)×nb zn zd     non-terminating pFq (no non-positive integer parameter)
    zetasum s | altzetasum s                 ζ(s), (1−2^(1−s))ζ(s) at integers s ≥ 2 from the defining series
    legendre n xn xd | chebyt n xn xd | chebyu n xn xd      every integer degree n
-/
import MpModel.SpecRef2
import MpModel.DrvSpecRef

namespace DrvSpecRef2
open Mp.Encl Mp.SpecRef DrvSpecRef

inductive Ref2
  | sx (r : Ref)
  | enc (f : Nat → Option DI)
  | outside

def refOf2 (fam : String) (a : List Int) : Option Ref2 :=
  match fam, a with
  | "hypser", na :: rest =>
    if na < 0 then none else
    match ratList na.toNat rest with
    | some (as, nb :: rest2) =>
      if nb < 0 then none else
      match ratList nb.toNat rest2 with
      | some (bs, [zn, zd]) =>
        (q zn zd).map (fun z => if hypSeriesOK as bs then Ref2.enc (hypEncl as bs z) else Ref2.outside)
      | _ => none
    | _ => none
  | "zetasum", [s] => some (if 2 ≤ s then .enc (zetaEncl s.toNat) else .outside)
  | "altzetasum", [s] => some (if 2 ≤ s then .enc (altzetaEncl s.toNat) else .outside)
  | "legendre", [n, xn, xd] => (q xn xd).map (fun x => .sx (legendreZRef n x))
  | "chebyt", [n, xn, xd] => (q xn xd).map (fun x => .sx (chebytZRef n x))
  | "chebyu", [n, xn, xd] => (q xn xd).map (fun x => .sx (chebyuZRef n x))
  | _, _ => none

def answer (toks : List String) : Option String :=
  match toks with
  | "spec2" :: fam :: rest => do
    let (a, t) := splitBar rest
    let a ← parseInts a
    let r ← refOf2 fam a
    match t with
    | [ym, ye, p, k] =>
      let ym ← parseInt ym
      let ye ← parseInt ye
      let p ← p.toNat?
      let k ← k.toNat?
      match r with
      | .sx (.val e) => pure (showV (specCheck e ⟨ym, ye⟩ p k))
      | .sx .pole => pure "pole"
      | .sx .outside => pure "outside"
      | .outside => pure "outside"
      | .enc f =>
        match f (p + 32) with
        | none => pure "outside"
        | some _ => pure (showV (encCheck f ⟨ym, ye⟩ p k))
    | _ => none
  | "specc2" :: fam :: rest => do
    let (a, t) := splitBar rest
    let a ← parseInts a
    let r ← refOf2 fam a
    match t with
    | [yrm, yre, yim, yie, p, k] =>
      let yrm ← parseInt yrm
      let yre ← parseInt yre
      let yim ← parseInt yim
      let yie ← parseInt yie
      let p ← p.toNat?
      let k ← k.toNat?
      match r with
      | .sx (.val e) => pure (showV (specCheckC e ⟨yrm, yre⟩ ⟨yim, yie⟩ p k))
      | .sx .pole => pure "pole"
      | .sx .outside => pure "outside"
      | .outside => pure "outside"
      | .enc f =>
        match f (p + 32) with
        | none => pure "outside"
        | some _ => pure (showV (encCheckC f ⟨yrm, yre⟩ ⟨yim, yie⟩ p k))
    | _ => none
  | "sref2" :: fam :: rest => do
    let (a, t) := splitBar rest
    let a ← parseInts a
    let r ← refOf2 fam a
    match t with
    | [wp] =>
      let wp ← wp.toNat?
      match r with
      | .sx (.val e) => match eval wp e with
        | some I => pure (showDI I)
        | none => pure "N:"
      | .sx .pole => pure "pole"
      | .sx .outside => pure "outside"
      | .outside => pure "outside"
      | .enc f => match f wp with
        | some I => pure (showDI I)
        | none => pure "outside"
    | _ => none
  | _ => none

end DrvSpecRef2
