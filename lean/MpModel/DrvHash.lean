/-
  MpModel/DrvHash.lean — driver ops for the hash specification and the hash models.
  Token conventions as in Driver.lean (mpf = sign:hexman:exp:bc, ints decimal, answers I:<int>).

    pyhash_int <n>                      documented hash of a Python int
    pyhash_fraction <m> <n>             documented hash_fraction(m, n), n > 0
    pyhash_dyadic <sign> <hexman> <exp> documented hash of (-1)^sign * man * 2^exp
    pyhash_float <sign> <hexman> <exp>  same, named for floats
    pyhash_complex <hre> <him>          documented hash_complex from the two component hashes
    final_hash <n>                      CPython's post-processing of a __hash__ return value
    mpc_hash_old <re> <im>                  model of libmpc.mpc_hash_old (raw return value)
    mpq_hash <a> <b>                    model of rational.mpq.__hash__ (raw return value)
    hashobj_mpf <x>                     builtin hash() of an mpf object  = final_hash (mpf_hash x)
    hashobj_mpc <re> <im>               builtin hash() of an mpc object  = final_hash (mpc_hash re im)
    hashobj_mpq <a> <b>                 builtin hash() of an mpq object  = final_hash (mpq_hash a b)
    mpf_hash <x>                  proposed repair of mpf_hash_raw
    mpc_hash <re> <im>            proposed repair of mpc_hash_old
-/
import MpModel.Core
import MpModel.Hash

open Mp

namespace DrvHash

def hexDigit (c : Char) : Option Nat :=
  if '0' ≤ c ∧ c ≤ '9' then some (c.toNat - '0'.toNat)
  else if 'a' ≤ c ∧ c ≤ 'f' then some (c.toNat - 'a'.toNat + 10)
  else if 'A' ≤ c ∧ c ≤ 'F' then some (c.toNat - 'A'.toNat + 10)
  else none

def parseHex (s : String) : Option Nat :=
  if s.isEmpty then none else
  s.foldl (fun acc c => match acc, hexDigit c with
    | some a, some d => some (a * 16 + d)
    | _, _ => none) (some 0)

def parseInt (s : String) : Option Int :=
  if s.startsWith "-" then (s.drop 1).toNat?.map (fun n => -(n : Int))
  else if s.startsWith "+" then (s.drop 1).toNat?.map (fun n => (n : Int))
  else s.toNat?.map (fun n => (n : Int))

def parseMpf (s : String) : Option Mpf :=
  match s.splitOn ":" with
  | [a, b, c, d] => do
    let sign ← a.toNat?
    let man ← parseHex b
    let exp ← parseInt c
    let bc ← parseInt d
    pure ⟨sign, man, exp, bc⟩
  | _ => none

/-- answer one tokenised request; `none` = not one of ours / malformed -/
def answer (toks : List String) : Option String :=
  match toks with
  | ["pyhash_int", n] => do pure s!"I:{pyHashInt (← parseInt n)}"
  | ["pyhash_fraction", m, n] => do
    let d ← n.toNat?
    if d = 0 then none else pure s!"I:{pyHashFraction (← parseInt m) d}"
  | ["pyhash_dyadic", sg, m, e] => do
    pure s!"I:{pyHashDyadic (← sg.toNat?) (← parseHex m) (← parseInt e)}"
  | ["pyhash_float", sg, m, e] => do
    pure s!"I:{pyHashFloatOfDyadic (← sg.toNat?) (← parseHex m) (← parseInt e)}"
  | ["pyhash_complex", a, b] => do pure s!"I:{pyHashComplex (← parseInt a) (← parseInt b)}"
  | ["final_hash", n] => do pure s!"I:{finalHash (← parseInt n)}"
  | ["mpc_hash_old", re, im] => do pure s!"I:{mpc_hash_old (← parseMpf re) (← parseMpf im)}"
  | ["mpq_hash", a, b] => do
    let d ← b.toNat?
    if d = 0 then none else pure s!"I:{mpq_hash (← parseInt a) d}"
  | ["hashobj_mpf", x] => do pure s!"I:{finalHash (mpf_hash (← parseMpf x))}"
  | ["hashobj_mpc", re, im] => do pure s!"I:{finalHash (mpc_hash (← parseMpf re) (← parseMpf im))}"
  | ["hashobj_mpq", a, b] => do
    let d ← b.toNat?
    if d = 0 then none else pure s!"I:{finalHash (mpq_hash (← parseInt a) d)}"
  | ["mpf_hash", x] => do pure s!"I:{mpf_hash (← parseMpf x)}"
  | ["mpc_hash", re, im] => do pure s!"I:{mpc_hash (← parseMpf re) (← parseMpf im)}"
  | _ => none

end DrvHash
