/-
  MpModel/DrvBackend.lean — driver ops for MpModel/Backend.lean (C37).
    py_bitcount <hex n> <est>   →  I:<int> | E:ValueError        (est = int(math.log(n,2)), 0 if unused)
    py_trailing <hex n>         →  I:<int>
    ref_bitcount <hex n>        →  I:<int>      (Core `bitcount`, what gmpy's bit_length is documented to return)
    ref_trailing <hex n>        →  I:<int>      (Core `trailing`, what bit_scan1 is documented to return)
-/
import MpModel.Backend

namespace DrvBackend
open Mp Mp.Backend

def hexDigit (c : Char) : Option Nat :=
  if '0' ≤ c ∧ c ≤ '9' then some (c.toNat - '0'.toNat)
  else if 'a' ≤ c ∧ c ≤ 'f' then some (c.toNat - 'a'.toNat + 10)
  else none

def parseHex (s : String) : Option Nat :=
  if s.isEmpty then none else
  s.foldl (fun acc c => match acc, hexDigit c with
    | some a, some d => some (a * 16 + d)
    | _, _ => none) (some 0)

def parseInt (s : String) : Option Int :=
  if s.startsWith "-" then (s.drop 1).toNat?.map (fun n => -(n : Int))
  else s.toNat?.map (fun n => (n : Int))

def answer (toks : List String) : Option String :=
  match toks with
  | ["py_bitcount", n, est] => do
    match pythonBitcount (← parseHex n) (← parseInt est) with
    | .ok v => pure s!"I:{v}"
    | .error _ => pure "E:ValueError"
  | ["py_trailing", n] => do pure s!"I:{pythonTrailing (← parseHex n)}"
  | ["ref_bitcount", n] => do pure s!"I:{bitcount (← parseHex n)}"
  | ["ref_trailing", n] => do pure s!"I:{trailing (← parseHex n)}"
  | _ => none

end DrvBackend
