/-
  MpModel/PrecConv.lean — executable model of `prec_to_dps` / `dps_to_prec`
  (mpmath/libmp/libmpf.py:59-67):

      def prec_to_dps(n): return max(1, int(round(int(n)/3.3219280948873626)-1))
      def dps_to_prec(n): return max(1, int(round((int(n)+1)*3.3219280948873626)))

  The Python code computes with binary64 floats.  The model follows it step by step:
    * `int(n)`            — the argument is already an `Int` here;
    * int → float         — round-to-nearest-even to 53 significant bits (`fl`);
    * `/`, `*`            — the exact rational quotient/product of the two binary64 values,
                            rounded to nearest-even to 53 significant bits (IEEE 754);
    * `round(x)`          — Python 3 `float.__round__`: nearest integer, ties to even, exact on the
                            binary64 value;
    * `- 1`, `max(1, ·)`  — on Python ints.
  Deliberate deviations (documented, outside the range the harness validates):
    * no overflow: CPython raises OverflowError for `int(n)` ≥ 2^1024; the model keeps rounding;
    * no subnormals/underflow: irrelevant, every intermediate is 0 or ≥ 0.3.
  A float is represented by the dyadic pair `(m, e)` meaning `m · 2^e` (m : Nat, e : Int);
  all values occurring here are ≥ 0 (non-positive arguments are handled by the first branch,
  where the Python expression evaluates to `max(1, something ≤ 0) = 1`).
-/

namespace Mp

/-- 53-bit significand of the binary64 constant `3.3219280948873626` = `0x400A934F0979A372`.
    Its exact value is `log2_10_man / 2^51`. -/
def log2_10_man : Nat := 0x1A934F0979A372

/-- nearest integer to `a / b` (b > 0), ties to even. -/
def rnDivEven (a b : Nat) : Nat :=
  let q := a / b
  let r := a % b
  if 2 * r < b then q
  else if b < 2 * r then q + 1
  else if q % 2 = 0 then q else q + 1

/-- A non-negative dyadic number `m · 2^e`. -/
structure Dy where
  m : Nat
  e : Int
deriving DecidableEq, Repr

/-- Round the positive rational `a / b` to 53 significant bits, nearest-even
    (binary64 without overflow/underflow).  `0` maps to `0`. -/
def fl (a b : Nat) : Dy :=
  if a = 0 ∨ b = 0 then ⟨0, 0⟩ else
  -- a/b ∈ (2^(la-lb-1), 2^(la-lb+1)); choose e with 2^52 ≤ (a/b)/2^e < 2^53
  let la : Int := Nat.log2 a
  let lb : Int := Nat.log2 b
  let e0 : Int := la - lb - 52
  let num (e : Int) : Nat := if e < 0 then a * 2 ^ (-e).toNat else a
  let den (e : Int) : Nat := if e < 0 then b else b * 2 ^ e.toNat
  let e : Int := if 2 ^ 52 * den e0 ≤ num e0 then e0 else e0 - 1
  ⟨rnDivEven (num e) (den e), e⟩

/-- int → float -/
def flInt (n : Nat) : Dy := fl n 1

/-- float `/` float (both positive) -/
def Dy.div (x y : Dy) : Dy :=
  let d : Int := x.e - y.e
  if d < 0 then fl x.m (y.m * 2 ^ (-d).toNat) else fl (x.m * 2 ^ d.toNat) y.m

/-- float `*` float -/
def Dy.mul (x y : Dy) : Dy :=
  let d : Int := x.e + y.e
  if d < 0 then fl (x.m * y.m) (2 ^ (-d).toNat) else fl (x.m * y.m * 2 ^ d.toNat) 1

/-- Python `round(x)` for a non-negative float: nearest integer, ties to even. -/
def Dy.round (x : Dy) : Nat :=
  if x.e < 0 then rnDivEven x.m (2 ^ (-x.e).toNat) else x.m * 2 ^ x.e.toNat

/-- the float constant 3.3219280948873626 -/
def log2_10 : Dy := ⟨log2_10_man, -51⟩

/-- `prec_to_dps(n)` -/
def precToDps (n : Int) : Int :=
  if n ≤ 0 then 1 else
  max 1 (((flInt n.toNat).div log2_10).round - 1 : Int)

/-- `dps_to_prec(n)` -/
def dpsToPrec (n : Int) : Int :=
  if n + 1 ≤ 0 then 1 else
  max 1 (((flInt (n + 1).toNat).mul log2_10).round : Int)

end Mp
