/-
  MpModel/DrvEncl.lean — driver ops for the verified reference evaluator.
    encl <fun> <wp> <m> <e>                      →  P:<lo_m>,<lo_e>,<hi_m>,<hi_e>   |  N: (no enclosure)
    acc  <fun> <m_x> <e_x> <m_y> <e_y> <p> <k>   →  ok | violates | undecided
-/
import MpModel.Encl

namespace DrvEncl
open Mp.Encl

def parseInt (s : String) : Option Int :=
  if s.startsWith "-" then (s.drop 1).toNat?.map (fun n => -(n : Int))
  else if s.startsWith "+" then (s.drop 1).toNat?.map (fun n => (n : Int))
  else s.toNat?.map (fun n => (n : Int))

def parseFun (s : String) : Option FunId :=
  match s with
  | "exp" => some .exp | "log" => some .log | "sqrt" => some .sqrt | "atan" => some .atan
  | "sin" => some .sin | "cos" => some .cos | "pi" => some .pi | "tan" => some .tan
  | "sinh" => some .sinh | "cosh" => some .cosh | "tanh" => some .tanh
  | "cot" => some .cot | "sec" => some .sec | "csc" => some .csc | "expm1" => some .expm1
  | "log1p" => some .log1p | "asin" => some .asin | "acos" => some .acos | "asinh" => some .asinh
  | "acosh" => some .acosh | "atanh" => some .atanh | "sinpi" => some .sinpi | "cospi" => some .cospi
  | _ => none

def showDI (I : DI) : String := s!"P:{I.lo.m},{I.lo.e},{I.hi.m},{I.hi.e}"

def showV : Verdict → String
  | .ok => "ok" | .violates => "violates" | .undecided => "undecided"

def answer (toks : List String) : Option String :=
  match toks with
  | ["encl", f, wp, m, e] => do
    let f ← parseFun f
    let wp ← wp.toNat?
    let m ← parseInt m
    let e ← parseInt e
    match evalPoint f wp ⟨m, e⟩ with
    | some I => pure (showDI I)
    | none => pure "N:"
  | ["acc", f, mx, ex, my, ey, p, k] => do
    let f ← parseFun f
    let mx ← parseInt mx
    let ex ← parseInt ex
    let my ← parseInt my
    let ey ← parseInt ey
    let p ← p.toNat?
    let k ← k.toNat?
    pure (showV (accCheck f ⟨mx, ex⟩ ⟨my, ey⟩ p k))
  | _ => none

end DrvEncl
