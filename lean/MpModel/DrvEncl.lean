/-
  MpModel/DrvEncl.lean — driver ops for the verified reference evaluator.
    encl <fun> <wp> <m> <e>                      →  P:<lo_m>,<lo_e>,<hi_m>,<hi_e>   |  N: (no enclosure)
    acc  <fun> <m_x> <e_x> <m_y> <e_y> <p> <k>   →  ok | violates | undecided
    encl2 <fun2> <wp> <m_x> <e_x> <m_y> <e_y>     →  P:… | N:        (fun2 = pow | powm1 | hypot | logb)
    acc2 <fun2> <m_x> <e_x> <m_y> <e_y> <m_z> <e_z> <p> <k>          →  ok | violates | undecided
    accsinc <m_x> <e_x> <m_y> <e_y> <p> <k>,  accroot <n> <m_x> <e_x> <m_y> <e_y> <p> <k>,  rootexact <n> <m_x> <e_x> <m_y> <e_y> → B:0|1
-/
import MpModel.Encl
import MpModel.Encl2

namespace DrvEncl
open Mp.Encl

def parseInt (s : String) : Option Int :=
  if s.startsWith "-" then (s.drop 1).toNat?.map (fun n => -(n : Int))
  else if s.startsWith "+" then (s.drop 1).toNat?.map (fun n => (n : Int))
  else s.toNat?.map (fun n => (n : Int))

def parseFun (s : String) : Option FunId :=
  match s with
  | "exp" => some .exp | "log" => some .log | "sqrt" => some .sqrt | "atan" => some .atan
  | "sin" => some .sin | "cos" => some .cos | "pi" => some .pi | "tan" => some .tan
  | "sinh" => some .sinh | "cosh" => some .cosh | "tanh" => some .tanh
  | "cot" => some .cot | "sec" => some .sec | "csc" => some .csc | "expm1" => some .expm1
  | "log1p" => some .log1p | "asin" => some .asin | "acos" => some .acos | "asinh" => some .asinh
  | "acosh" => some .acosh | "atanh" => some .atanh | "sinpi" => some .sinpi | "cospi" => some .cospi
  | _ => none

def parseFun2 (s : String) : Option Fun2 :=
  match s with
  | "pow" => some .pow | "powm1" => some .powm1 | "hypot" => some .hypot | "logb" => some .logb
  | _ => none

/-- range guard of the DRIVER (not of the evaluator): requests whose intermediate exponents would exceed what the
runtime's `Nat.pow`/shifts accept (arguments of exp-like functions above 2^24, exponents beyond ±2^24, powers with
|y·log x| above 2^24) are answered `undecided` / `N:` — always a sound answer. -/
def expLike (f : FunId) : Bool :=
  f == .exp || f == .sinh || f == .cosh || f == .tanh || f == .expm1

def safe1 (f : FunId) (x : Dy) : Bool :=
  let mag : Int := (blen x.m : Int) + x.e
  decide (x.e.natAbs < 16777216) && (!(expLike f) || decide (mag ≤ 24))

def safe2 (f : Fun2) (x y : Dy) : Bool :=
  decide (x.e.natAbs < 16777216) && decide (y.e.natAbs < 16777216) &&
  (match f with
   | .pow | .powm1 =>
     let mag : Int := (blen x.m : Int) + x.e
     -- log2 |log2 x| estimated from above: for x in [1/2, 2) from the distance to 1, otherwise from the exponent
     let lx : Int := if mag = 0 ∨ mag = 1 then 2 - ((x.sub Dy.one).lowBits : Int) else (blen mag : Int) + 1
     decide ((blen y.m : Int) + y.e + lx ≤ 24) && decide (((blen x.m : Int) + x.e).natAbs < 16777216)
   | _ => true)

def showDI (I : DI) : String := s!"P:{I.lo.m},{I.lo.e},{I.hi.m},{I.hi.e}"

def showV : Verdict → String
  | .ok => "ok" | .violates => "violates" | .undecided => "undecided"

def answer (toks : List String) : Option String :=
  match toks with
  | ["encl", f, wp, m, e] => do
    let f ← parseFun f
    let wp ← wp.toNat?
    let m ← parseInt m
    let e ← parseInt e
    if !(safe1 f ⟨m, e⟩) then pure "N:" else
    match evalPoint f wp ⟨m, e⟩ with
    | some I => pure (showDI I)
    | none => pure "N:"
  | ["acc", f, mx, ex, my, ey, p, k] => do
    let f ← parseFun f
    let mx ← parseInt mx
    let ex ← parseInt ex
    let my ← parseInt my
    let ey ← parseInt ey
    let p ← p.toNat?
    let k ← k.toNat?
    if !(safe1 f ⟨mx, ex⟩) || decide (ey.natAbs ≥ 16777216) then pure "undecided" else
    pure (showV (accCheck f ⟨mx, ex⟩ ⟨my, ey⟩ p k))
  | ["encl2", f, wp, mx, ex, my, ey] => do
    let f ← parseFun2 f
    let wp ← wp.toNat?
    let x : Dy := ⟨← parseInt mx, ← parseInt ex⟩
    let y : Dy := ⟨← parseInt my, ← parseInt ey⟩
    if !(safe2 f x y) then pure "N:" else
    match eval2 f wp x y with
    | some I => pure (showDI I)
    | none => pure "N:"
  | ["acc2", f, mx, ex, my, ey, mz, ez, p, k] => do
    let f ← parseFun2 f
    let x : Dy := ⟨← parseInt mx, ← parseInt ex⟩
    let y : Dy := ⟨← parseInt my, ← parseInt ey⟩
    let z : Dy := ⟨← parseInt mz, ← parseInt ez⟩
    if !(safe2 f x y) || decide (z.e.natAbs ≥ 16777216) then pure "undecided" else
    pure (showV (accCheck2 f x y z (← p.toNat?) (← k.toNat?)))
  | ["accsinc", mx, ex, my, ey, p, k] => do
    pure (showV (accCheckSinc ⟨← parseInt mx, ← parseInt ex⟩ ⟨← parseInt my, ← parseInt ey⟩ (← p.toNat?) (← k.toNat?)))
  | ["accroot", n, mx, ex, my, ey, p, k] => do
    pure (showV (rootCheck (← n.toNat?) ⟨← parseInt mx, ← parseInt ex⟩ ⟨← parseInt my, ← parseInt ey⟩ (← p.toNat?) (← k.toNat?)))
  | ["rootexact", n, mx, ex, my, ey] => do
    pure (if rootExact (← n.toNat?) ⟨← parseInt mx, ← parseInt ex⟩ ⟨← parseInt my, ← parseInt ey⟩ then "B:1" else "B:0")
  | _ => none

end DrvEncl
