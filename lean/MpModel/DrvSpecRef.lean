/-
  MpModel/DrvSpecRef.lean — driver ops for the special-function references (C18, C19, C22).

    spec  <fam> <int args…> | <y_m> <y_e> <p> <k>                    →  ok | violates | undecided | pole | outside
    specc <fam> <int args…> | <yre_m> <yre_e> <yim_m> <yim_e> <p> <k>  →  same, complex output (modulus form)
    sref  <fam> <int args…> | <wp>                                  →  P:<lo_m>,<lo_e>,<hi_m>,<hi_e> | N: | pole | outside
    gpdec <na> <h…> <nb> <h…>                                       →  zero | inf | finite        (gammaprod pole counting)
    hyppole <p> <n> (<isZ 0|1> <int>)×n                             →  B:0|1                       (hypsum raises ZeroDivisionError?)
    cvtparam int <n> | frac <p> <q> | mpf <sign> <man> <exp> | mpc <sign> <man> <exp> <imZero 0|1>
                                                                    →  Z:<n> | Q:<p>,<q> | R | C | U | E:ZeroDivisionError
  Family argument conventions (all decimal integers; rationals as `num den`, half-integer arguments as `h` = 2·x):
    gamma h | rgamma h | loggamma h | factorial h | fac2 n | binomial xn xd k | rf xn xd n | ff xn xd n | beta h1 h2
    gammaprod na h… nb h… | harmonic n | superfac n | hyperfac n | barnesg n
    zeta s | altzeta s | hurwitz s a | bernpoly n xn xd | eulerpoly n xn xd | polylog s zn zd
    hyper na (n d)×na nb (n d)×nb zn zd | legendre n xn xd | chebyt n xn xd | chebyu n xn xd | hermite n xn xd
    laguerre n an ad xn xd | gegenbauer n an ad xn xd | jacobi n an ad bn bd xn xd
-/
import MpModel.SpecRef

namespace DrvSpecRef
open Mp.Encl Mp.SpecRef

def parseInt (s : String) : Option Int :=
  if s.startsWith "-" then (s.drop 1).toNat?.map (fun n => -(n : Int))
  else if s.startsWith "+" then (s.drop 1).toNat?.map (fun n => (n : Int))
  else s.toNat?.map (fun n => (n : Int))

def parseInts : List String → Option (List Int)
  | [] => some []
  | x :: xs => do
    let a ← parseInt x
    let r ← parseInts xs
    pure (a :: r)

def q (n d : Int) : Option Rat := if 0 < d then some (mkRat n d.toNat) else none

def ratList : Nat → List Int → Option (List Rat × List Int)
  | 0, l => some ([], l)
  | k + 1, n :: d :: l => do
    let x ← q n d
    let (xs, rest) ← ratList k l
    pure (x :: xs, rest)
  | _, _ => none

def refOf (fam : String) (a : List Int) : Option Ref :=
  match fam, a with
  | "gamma", [h] => some (gammaRef h)
  | "rgamma", [h] => some (rgammaRef h)
  | "loggamma", [h] => some (loggammaRef h)
  | "factorial", [h] => some (factorialRef h)
  | "fac2", [n] => some (fac2Ref n)
  | "binomial", [xn, xd, k] => (q xn xd).map (fun x => binomialRef x k)
  | "rf", [xn, xd, n] => (q xn xd).map (fun x => rfRef x n)
  | "ff", [xn, xd, n] => (q xn xd).map (fun x => ffRef x n)
  | "beta", [h1, h2] => some (betaRef h1 h2)
  | "gammaprod", na :: rest =>
    if na < 0 ∨ rest.length < na.toNat + 1 then none else
    let as := rest.take na.toNat
    match rest.drop na.toNat with
    | nb :: bs => if nb.toNat = bs.length ∧ 0 ≤ nb then some (gammaprodRef as bs) else none
    | [] => none
  | "harmonic", [n] => some (harmonicRef n)
  | "superfac", [n] => some (superfacRef n)
  | "hyperfac", [n] => some (hyperfacRef n)
  | "barnesg", [n] => some (barnesgRef n)
  | "zeta", [s] => some (zetaRef s)
  | "altzeta", [s] => some (altzetaRef s)
  | "hurwitz", [s, a] => some (hurwitzRef s a)
  | "bernpoly", [n, xn, xd] => (q xn xd).map (fun x => bernpolyRef n x)
  | "eulerpoly", [n, xn, xd] => (q xn xd).map (fun x => eulerpolyRef n x)
  | "polylog", [s, zn, zd] => (q zn zd).map (fun z => polylogRef s z)
  | "hyper", na :: rest =>
    if na < 0 then none else
    match ratList na.toNat rest with
    | some (as, nb :: rest2) =>
      if nb < 0 then none else
      match ratList nb.toNat rest2 with
      | some (bs, [zn, zd]) => (q zn zd).map (fun z => hyperRef as bs z)
      | _ => none
    | _ => none
  | "legendre", [n, xn, xd] => (q xn xd).map (fun x => recRef n (legendreQ x))
  | "chebyt", [n, xn, xd] => (q xn xd).map (fun x => recRef n (chebytQ x))
  | "chebyu", [n, xn, xd] => (q xn xd).map (fun x => recRef n (chebyuQ x))
  | "hermite", [n, xn, xd] => (q xn xd).map (fun x => recRef n (hermiteQ x))
  | "laguerre", [n, an, ad, xn, xd] => do
    let a ← q an ad
    let x ← q xn xd
    pure (recRef n (laguerreQ a x))
  | "gegenbauer", [n, an, ad, xn, xd] => do
    let a ← q an ad
    let x ← q xn xd
    pure (recRef n (gegenbauerQ a x))
  | "jacobi", [n, an, ad, bn, bd, xn, xd] => do
    let a ← q an ad
    let b ← q bn bd
    let x ← q xn xd
    pure (recRef n (jacobiQ a b x))
  | _, _ => none

def showDI (I : DI) : String := s!"P:{I.lo.m},{I.lo.e},{I.hi.m},{I.hi.e}"

def showV : Verdict → String
  | .ok => "ok" | .violates => "violates" | .undecided => "undecided"

def splitBar : List String → List String × List String
  | [] => ([], [])
  | x :: xs => if x = "|" then ([], xs) else let p := splitBar xs; (x :: p.1, p.2)

def parsePairs : List String → Option (List (Bool × Int))
  | [] => some []
  | f :: v :: r => do
    let v ← parseInt v
    let r ← parsePairs r
    pure ((f = "1", v) :: r)
  | _ => none

def showPOut : POut → String
  | .Z n => s!"Z:{n}"
  | .Q p q => s!"Q:{p},{q}"
  | .R => "R" | .C => "C" | .U => "U"
  | .zeroDiv => "E:ZeroDivisionError"

def answer (toks : List String) : Option String :=
  match toks with
  | "spec" :: fam :: rest => do
    let (a, t) := splitBar rest
    let a ← parseInts a
    let r ← refOf fam a
    match t with
    | [ym, ye, p, k] =>
      let ym ← parseInt ym
      let ye ← parseInt ye
      let p ← p.toNat?
      let k ← k.toNat?
      match r with
      | .val e => pure (showV (specCheck e ⟨ym, ye⟩ p k))
      | .pole => pure "pole"
      | .outside => pure "outside"
    | _ => none
  | "specc" :: fam :: rest => do
    let (a, t) := splitBar rest
    let a ← parseInts a
    let r ← refOf fam a
    match t with
    | [yrm, yre, yim, yie, p, k] =>
      let yrm ← parseInt yrm
      let yre ← parseInt yre
      let yim ← parseInt yim
      let yie ← parseInt yie
      let p ← p.toNat?
      let k ← k.toNat?
      match r with
      | .val e => pure (showV (specCheckC e ⟨yrm, yre⟩ ⟨yim, yie⟩ p k))
      | .pole => pure "pole"
      | .outside => pure "outside"
    | _ => none
  | "sref" :: fam :: rest => do
    let (a, t) := splitBar rest
    let a ← parseInts a
    let r ← refOf fam a
    match t with
    | [wp] =>
      let wp ← wp.toNat?
      match r with
      | .val e => match eval wp e with
        | some I => pure (showDI I)
        | none => pure "N:"
      | .pole => pure "pole"
      | .outside => pure "outside"
    | _ => none
  | "gpdec" :: rest => do
    let a ← parseInts rest
    match a with
    | na :: r =>
      if na < 0 ∨ r.length < na.toNat + 1 then none else
      let as := r.take na.toNat
      match r.drop na.toNat with
      | nb :: bs =>
        if nb.toNat = bs.length ∧ 0 ≤ nb then
          pure (match gammaprodDecide as bs with | .zero => "zero" | .inf => "inf" | .finite => "finite")
        else none
      | [] => none
    | [] => none
  | "hyppole" :: p :: n :: rest => do
    let p ← p.toNat?
    let n ← n.toNat?
    let cs ← parsePairs rest
    if cs.length = n then pure (if hypsumPoleRaises p cs then "B:1" else "B:0") else none
  | ["cvtparam", "int", n] => do
    let n ← parseInt n
    pure (showPOut (convertParam (.int n)))
  | ["cvtparam", "frac", p, q] => do
    let p ← parseInt p
    let q ← parseInt q
    pure (showPOut (convertParam (.frac p q)))
  | ["cvtparam", "mpf", s, m, e] => do
    let s ← s.toNat?
    let m ← m.toNat?
    let e ← parseInt e
    pure (showPOut (convertParam (.mpf s m e)))
  | ["cvtparam", "mpc", s, m, e, z] => do
    let s ← s.toNat?
    let m ← m.toNat?
    let e ← parseInt e
    pure (showPOut (convertParam (.mpc s m e (z = "1"))))
  | _ => none

end DrvSpecRef
