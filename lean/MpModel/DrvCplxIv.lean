/-
  MpModel/DrvCplxIv.lean — driver ops for MpModel/Complex.lean and MpModel/Interval.lean.
  Same token conventions as Driver.lean (mpf = sign:hexman:exp:bc, ints decimal, rnd = n|f|c|u|d).
    mpc  = two mpf tokens (re im)           mpi = two mpf tokens (a b)      mpci = four mpf tokens
    answers: mpf | P:<re>,<im> | P:P:<a>,<b>,P:<c>,<d> | B:0|1 | T:1|T:0|T:none | I:<n> | E:<kind>
  Number / operand tokens of the context layer:
    int <n> | mpf <x> | float <m> <e> | fspec <x> | iv <a> <b> | pair <num> <num>
  The transcendental continuation of `mpc_pow_int` answers `E:NotImplementedError`.
-/
import MpModel.Core
import MpModel.Complex
import MpModel.Interval

open Mp

namespace DrvCplxIv

def hexDigit (c : Char) : Option Nat :=
  if '0' ≤ c ∧ c ≤ '9' then some (c.toNat - '0'.toNat)
  else if 'a' ≤ c ∧ c ≤ 'f' then some (c.toNat - 'a'.toNat + 10)
  else if 'A' ≤ c ∧ c ≤ 'F' then some (c.toNat - 'A'.toNat + 10)
  else none

def parseHex (s : String) : Option Nat :=
  if s.isEmpty then none else
  s.foldl (fun acc c => match acc, hexDigit c with
    | some a, some d => some (a * 16 + d)
    | _, _ => none) (some 0)

def parseInt (s : String) : Option Int :=
  if s.startsWith "-" then (s.drop 1).toNat?.map (fun n => -(n : Int))
  else if s.startsWith "+" then (s.drop 1).toNat?.map (fun n => (n : Int))
  else s.toNat?.map (fun n => (n : Int))

def parseRnd (s : String) : Option Rnd :=
  match s with
  | "n" => some .n | "f" => some .f | "c" => some .c | "u" => some .u | "d" => some .d
  | _ => none

def parseMpf (s : String) : Option Mpf :=
  match s.splitOn ":" with
  | [a, b, c, d] => do
    let sign ← a.toNat?
    let man ← parseHex b
    let exp ← parseInt c
    let bc ← parseInt d
    pure ⟨sign, man, exp, bc⟩
  | _ => none

def hexStr (n : Nat) : String := String.ofList (Nat.toDigits 16 n)

def showMpf (x : Mpf) : String := s!"{x.sign}:{hexStr x.man}:{x.exp}:{x.bc}"

def showErr : Err → String
  | .zeroDiv => "E:ZeroDivisionError"
  | .value => "E:ValueError"
  | .complexResult => "E:ComplexResult"
  | .notImpl => "E:NotImplementedError"
  | .overflow => "E:OverflowError"
  | .type => "E:TypeError"

def showIvErr : IvErr → String
  | .core e => showErr e
  | .assertion => "E:Other:AssertionError"

def showB (b : Bool) : String := if b then "B:1" else "B:0"

def showT : Option Bool → String
  | some true => "T:1" | some false => "T:0" | none => "T:none"

def showP (z : Mpf × Mpf) : String := s!"P:{showMpf z.1},{showMpf z.2}"

def showPP (z : Mpci) : String := s!"P:{showP z.1},{showP z.2}"

def showEM (r : Except Err Mpf) : String :=
  match r with | .ok x => showMpf x | .error e => showErr e

def showEP (r : Except Err (Mpf × Mpf)) : String :=
  match r with | .ok x => showP x | .error e => showErr e

def showEPP (r : Except Err Mpci) : String :=
  match r with | .ok x => showPP x | .error e => showErr e

def parsePair (a b : String) : Option (Mpf × Mpf) := do
  pure (← parseMpf a, ← parseMpf b)

def parseQuad (a b c d : String) : Option Mpci := do
  pure ((← parseMpf a, ← parseMpf b), (← parseMpf c, ← parseMpf d))

/-- one number of the context layer, consuming its tokens -/
def parseNum : List String → Option (IvNum × List String)
  | "int" :: n :: rest => do pure (.int (← parseInt n), rest)
  | "mpf" :: x :: rest => do pure (.mpf (← parseMpf x), rest)
  | "float" :: m :: e :: rest => do pure (.float (← parseInt m) (← parseInt e), rest)
  | "fspec" :: x :: rest => do pure (.floatSpecial (← parseMpf x), rest)
  | _ => none

/-- a comparison operand, which must consume all remaining tokens -/
def parseArg : List String → Option IvArg
  | ["iv", a, b] => do pure (.iv (← parsePair a b))
  | "pair" :: rest => do
    let (x, rest) ← parseNum rest
    let (y, rest) ← parseNum rest
    if rest.isEmpty then pure (.pair x y) else none
  | toks => do
    let (x, rest) ← parseNum toks
    if rest.isEmpty then pure (.num x) else none

def parseCmpOp : String → Option CmpOp
  | "lt" => some .lt | "le" => some .le | "gt" => some .gt | "ge" => some .ge | _ => none

/-- the continuation of `mpc_pow_int` outside the model -/
def noFallback : Mpc → Int → Int → Rnd → Except Err Mpc := fun _ _ _ _ => .error .notImpl

def answerC (toks : List String) : Option String :=
  match toks with
  | ["mpc_is_inf", a, b] => do pure (showB (mpc_is_inf (← parsePair a b)))
  | ["mpc_is_infnan", a, b] => do pure (showB (mpc_is_infnan (← parsePair a b)))
  | ["mpc_is_nonzero", a, b] => do pure (showB (mpc_is_nonzero (← parsePair a b)))
  | ["mpc_conjugate", a, b, p, r] => do pure (showP (mpc_conjugate (← parsePair a b) (← parseInt p) (← parseRnd r)))
  | ["mpc_add", a, b, c, d, p, r] => do
    pure (showP (mpc_add (← parsePair a b) (← parsePair c d) (← parseInt p) (← parseRnd r)))
  | ["mpc_add_mpf", a, b, x, p, r] => do
    pure (showP (mpc_add_mpf (← parsePair a b) (← parseMpf x) (← parseInt p) (← parseRnd r)))
  | ["mpc_sub", a, b, c, d, p, r] => do
    pure (showP (mpc_sub (← parsePair a b) (← parsePair c d) (← parseInt p) (← parseRnd r)))
  | ["mpc_sub_mpf", a, b, x, p, r] => do
    pure (showP (mpc_sub_mpf (← parsePair a b) (← parseMpf x) (← parseInt p) (← parseRnd r)))
  | ["mpc_pos", a, b, p, r] => do pure (showP (mpc_pos (← parsePair a b) (← parseInt p) (← parseRnd r)))
  | ["mpc_neg", a, b, p, r] => do pure (showP (mpc_neg (← parsePair a b) (← parseInt p) (← parseRnd r)))
  | ["mpc_shift", a, b, n] => do pure (showP (mpc_shift (← parsePair a b) (← parseInt n)))
  | ["mpc_abs", a, b, p, r] => do pure (showEM (mpc_abs (← parsePair a b) (← parseInt p) (← parseRnd r)))
  | ["mpc_floor", a, b, p, r] => do pure (showEP (mpc_floor (← parsePair a b) (← parseInt p) (← parseRnd r)))
  | ["mpc_ceil", a, b, p, r] => do pure (showEP (mpc_ceil (← parsePair a b) (← parseInt p) (← parseRnd r)))
  | ["mpc_nint", a, b, p, r] => do pure (showEP (mpc_nint (← parsePair a b) (← parseInt p) (← parseRnd r)))
  | ["mpc_frac", a, b, p, r] => do pure (showEP (mpc_frac (← parsePair a b) (← parseInt p) (← parseRnd r)))
  | ["mpc_mul", a, b, c, d, p, r] => do
    pure (showP (mpc_mul (← parsePair a b) (← parsePair c d) (← parseInt p) (← parseRnd r)))
  | ["mpc_square", a, b, p, r] => do pure (showP (mpc_square (← parsePair a b) (← parseInt p) (← parseRnd r)))
  | ["mpc_mul_mpf", a, b, x, p, r] => do
    pure (showP (mpc_mul_mpf (← parsePair a b) (← parseMpf x) (← parseInt p) (← parseRnd r)))
  | ["mpc_mul_imag_mpf", a, b, x, p, r] => do
    pure (showP (mpc_mul_imag_mpf (← parsePair a b) (← parseMpf x) (← parseInt p) (← parseRnd r)))
  | ["mpc_mul_int", a, b, n, p, r] => do
    pure (showP (mpc_mul_int (← parsePair a b) (← parseInt n) (← parseInt p) (← parseRnd r)))
  | ["mpc_div", a, b, c, d, p, r] => do
    pure (showEP (mpc_div (← parsePair a b) (← parsePair c d) (← parseInt p) (← parseRnd r)))
  | ["mpc_div_mpf", a, b, x, p, r] => do
    pure (showEP (mpc_div_mpf (← parsePair a b) (← parseMpf x) (← parseInt p) (← parseRnd r)))
  | ["mpc_reciprocal", a, b, p, r] => do
    pure (showEP (mpc_reciprocal (← parsePair a b) (← parseInt p) (← parseRnd r)))
  | ["mpc_mpf_div", x, a, b, p, r] => do
    pure (showEP (mpc_mpf_div (← parseMpf x) (← parsePair a b) (← parseInt p) (← parseRnd r)))
  | ["complex_int_pow", a, b, n] => do
    let (re, im) := complex_int_pow (← parseInt a) (← parseInt b) (← n.toNat?)
    pure s!"P:I:{re},I:{im}"
  | ["mpc_pow_int", a, b, n, p, r] => do
    pure (showEP (mpc_pow_int noFallback (← parsePair a b) (← parseInt n) (← parseInt p) (← parseRnd r)))
  | _ => none

def answerI (toks : List String) : Option String :=
  match toks with
  | ["mpf_min_max", a, b, c, d] => do
    pure (showP (mpf_min_max (← parseMpf a) [← parseMpf b, ← parseMpf c, ← parseMpf d]))
  | ["mpi_eq", a, b, c, d] => do pure (showB (mpi_eq (← parsePair a b) (← parsePair c d)))
  | ["mpi_ne", a, b, c, d] => do pure (showB (mpi_ne (← parsePair a b) (← parsePair c d)))
  | ["mpi_lt", a, b, c, d] => do pure (showT (mpi_lt (← parsePair a b) (← parsePair c d)))
  | ["mpi_le", a, b, c, d] => do pure (showT (mpi_le (← parsePair a b) (← parsePair c d)))
  | ["mpi_gt", a, b, c, d] => do pure (showT (mpi_gt (← parsePair a b) (← parsePair c d)))
  | ["mpi_ge", a, b, c, d] => do pure (showT (mpi_ge (← parsePair a b) (← parsePair c d)))
  | ["mpi_add", a, b, c, d, p] => do pure (showP (mpi_add (← parsePair a b) (← parsePair c d) (← parseInt p)))
  | ["mpi_sub", a, b, c, d, p] => do pure (showP (mpi_sub (← parsePair a b) (← parsePair c d) (← parseInt p)))
  | ["mpi_delta", a, b, p] => do pure (showMpf (mpi_delta (← parsePair a b) (← parseInt p)))
  | ["mpi_mid", a, b, p] => do pure (showMpf (mpi_mid (← parsePair a b) (← parseInt p)))
  | ["mpi_pos", a, b, p] => do pure (showP (mpi_pos (← parsePair a b) (← parseInt p)))
  | ["mpi_neg", a, b, p] => do pure (showP (mpi_neg (← parsePair a b) (← parseInt p)))
  | ["mpi_shift", a, b, n] => do pure (showP (mpi_shift (← parsePair a b) (← parseInt n)))
  | ["mpi_abs", a, b, p] => do pure (showP (mpi_abs (← parsePair a b) (← parseInt p)))
  | ["mpi_mul", a, b, c, d, p] => do pure (showP (mpi_mul (← parsePair a b) (← parsePair c d) (← parseInt p)))
  | ["mpi_mul_mpf", a, b, x, p] => do pure (showP (mpi_mul_mpf (← parsePair a b) (← parseMpf x) (← parseInt p)))
  | ["mpi_square", a, b, p] => do pure (showP (mpi_square (← parsePair a b) (← parseInt p)))
  | ["mpi_div", a, b, c, d, p] => do pure (showEP (mpi_div (← parsePair a b) (← parsePair c d) (← parseInt p)))
  | ["mpi_div_mpf", a, b, x, p] => do pure (showEP (mpi_div_mpf (← parsePair a b) (← parseMpf x) (← parseInt p)))
  | ["mpi_sqrt", a, b, p] => do pure (showEP (mpi_sqrt (← parsePair a b) (← parseInt p)))
  | ["mpi_pow_int", a, b, n, p] => do pure (showEP (mpi_pow_int (← parsePair a b) (← parseInt n) (← parseInt p)))
  | ["mpci_add", a, b, c, d, e, f, g, h, p] => do
    pure (showPP (mpci_add (← parseQuad a b c d) (← parseQuad e f g h) (← parseInt p)))
  | ["mpci_sub", a, b, c, d, e, f, g, h, p] => do
    pure (showPP (mpci_sub (← parseQuad a b c d) (← parseQuad e f g h) (← parseInt p)))
  | ["mpci_neg", a, b, c, d, p] => do pure (showPP (mpci_neg (← parseQuad a b c d) (← parseInt p)))
  | ["mpci_pos", a, b, c, d, p] => do pure (showPP (mpci_pos (← parseQuad a b c d) (← parseInt p)))
  | ["mpci_mul", a, b, c, d, e, f, g, h, p] => do
    pure (showPP (mpci_mul (← parseQuad a b c d) (← parseQuad e f g h) (← parseInt p)))
  | ["mpci_div", a, b, c, d, e, f, g, h, p] => do
    pure (showEPP (mpci_div (← parseQuad a b c d) (← parseQuad e f g h) (← parseInt p)))
  | ["mpci_abs", a, b, c, d, p] => do pure (showEP (mpci_abs (← parseQuad a b c d) (← parseInt p)))
  | ["mpci_square", a, b, c, d, p] => do pure (showPP (mpci_square (← parseQuad a b c d) (← parseInt p)))
  | ["mpci_pow_int", a, b, c, d, n, p] => do
    pure (showEPP (mpci_pow_int (← parseQuad a b c d) (← parseInt n) (← parseInt p)))
  -- context layer
  | "iv_convert" :: p :: rest => do
    let prec ← parseInt p
    let r : Except IvErr Mpi ← (match ← parseArg rest with
      | .iv t => some (.ok t)
      | .num x => some (iv_convert_num x prec)
      | .pair x y => some (iv_convert_pair x y prec))
    match r with
    | .ok v => pure (showP v)
    | .error e => pure (showIvErr e)
  | "iv_cmp" :: op :: a :: b :: p :: rest => do
    match ivmpf_cmp (← parseCmpOp op) (← parsePair a b) (← parseArg rest) (← parseInt p) with
    | .ok v => pure (showT v)
    | .error e => pure (showErr e)
  | "iv_eq" :: a :: b :: p :: rest => do
    pure (showB (ivmpf_eq (← parsePair a b) (← parseArg rest) (← parseInt p)))
  | "iv_ne" :: a :: b :: p :: rest => do
    pure (showB (ivmpf_ne (← parsePair a b) (← parseArg rest) (← parseInt p)))
  | "iv_contains" :: a :: b :: p :: rest => do
    match ivmpf_contains (← parsePair a b) (← parseArg rest) (← parseInt p) with
    | .ok v => pure (showB v)
    | .error e => pure (showIvErr e)
  | ["ivc_contains", a, b, c, d, e, f, g, h] => do
    pure (showB (ivmpc_contains (← parseQuad a b c d) (← parseQuad e f g h)))
  | ["ivc_overlap", a, b, c, d, e, f, g, h] => do
    pure (showT (ivmpc_overlap (← parseQuad a b c d) (← parseQuad e f g h)))
  | ["ivc_eq", a, b, c, d, e, f, g, h] => do
    pure (showB (ivmpc_eq (← parseQuad a b c d) (← parseQuad e f g h)))
  | ["ivc_ne", a, b, c, d, e, f, g, h] => do
    pure (showB (ivmpc_ne (← parseQuad a b c d) (← parseQuad e f g h)))
  | ["ivc_eq_real", a, b, c, d, e, f] => do
    pure (showB (ivmpc_eq_real (← parseQuad a b c d) (← parsePair e f)))
  | _ => none

def answer (toks : List String) : Option String :=
  match answerC toks with
  | some r => some r
  | none => answerI toks

end DrvCplxIv
