/-
  MpModel/OdeSeg.lean — the segment cache of `odefun` (mpmath/calculus/odes.py:244-267).

      ser, xb = ode_taylor(ctx, F, x0, y0, tol_prec, degree)
      series_boundaries = [x0, xb]
      series_data = [(ser, x0, xb)]
      def get_series(x):
          if x < x0:
              raise ValueError
          n = bisect(series_boundaries, x)            # bisect = bisect.bisect_right
          if n < len(series_boundaries):
              return series_data[n-1]
          while 1:
              ser, xa, xb = series_data[-1]
              y = mpolyval(ser, xb-xa)
              xa = xb
              ser, xb = ode_taylor(ctx, F, xb, y, tol_prec, degree)
              series_boundaries.append(xb)
              series_data.append((ser, xa, xb))
              if x <= xb:
                  return series_data[-1]

  Abscissae.  The real abscissae are mpf values (or a Python int for `x0`): finite dyadic rationals.
  The model uses `Int` with its order; the harness maps every abscissa `m·2^e` of one history to
  `m·2^(e-E)` for one `E ≤` all exponents, which is injective and strictly order preserving, so
  every comparison (`<`, `<=`, the comparisons inside `bisect`) has the same outcome.  `x = nan` /
  `x = ±inf` are outside the model (the real loop does not terminate for `nan`/`+inf`).

  Segments.  The Taylor coefficients `ser` are an abstract payload `σ`.  The real code obtains the
  next segment from the last one only: `y = mpolyval(ser, xb-xa)`, then `ode_taylor(ctx,F,xb,y,…)` at
  the fixed precision `workprec`.  This is the parameter `step : Seg σ → Option (σ × Int)`
  (new `ser`, new `xb`); `none` = `ode_taylor` raises (deterministically, e.g. `F` has a pole).
  A transient failure (`F` raises on demand) is the `fault` argument of a request: `some j` makes the
  `j`-th (0-based) call of `ode_taylor` within that request raise.

  Import-free; no Mathlib.
-/

namespace Mp
namespace OdeSeg

/-- one entry `(ser, xa, xb)` of `series_data` -/
structure Seg (σ : Type) where
  ser : σ
  xa : Int
  xb : Int
deriving DecidableEq, Repr

/-- the two lists captured by the closure -/
structure State (σ : Type) where
  bounds : List Int          -- series_boundaries
  data : List (Seg σ)        -- series_data
deriving DecidableEq, Repr

inductive Res (σ : Type) where
  | seg (s : Seg σ)          -- the tuple returned by get_series
  | valueError               -- `x < x0`
  | indexError               -- `series_data[i]` out of range (proved unreachable from `init`)
  | raised                   -- `ode_taylor` raised; propagates out of get_series / interpolant
  | outOfFuel                -- model artefact: the `while 1` loop ran longer than the fuel
deriving DecidableEq, Repr

/-! ### `bisect.bisect_right` / `bisect.bisect_left` (the binary search loops of CPython) -/

/--   while lo < hi:
          mid = (lo+hi)//2
          if x < a[mid]: hi = mid
          else: lo = mid+1
      return lo                                                                                   -/
def bisectRightLoop (a : List Int) (x : Int) : Nat → Nat → Nat → Nat
  | 0, lo, _ => lo
  | fuel + 1, lo, hi =>
    if lo < hi then
      let mid := (lo + hi) / 2
      if x < a.getD mid 0 then bisectRightLoop a x fuel lo mid
      else bisectRightLoop a x fuel (mid + 1) hi
    else lo

/-- `bisect.bisect_right(a, x)` (= `bisect.bisect`); `hi - lo` shrinks in every iteration, so
`len(a)` iterations suffice -/
def bisectRight (a : List Int) (x : Int) : Nat := bisectRightLoop a x a.length 0 a.length

/--   while lo < hi:
          mid = (lo+hi)//2
          if a[mid] < x: lo = mid+1
          else: hi = mid
      return lo                                                                                   -/
def bisectLeftLoop (a : List Int) (x : Int) : Nat → Nat → Nat → Nat
  | 0, lo, _ => lo
  | fuel + 1, lo, hi =>
    if lo < hi then
      let mid := (lo + hi) / 2
      if a.getD mid 0 < x then bisectLeftLoop a x fuel (mid + 1) hi
      else bisectLeftLoop a x fuel lo mid
    else lo

def bisectLeft (a : List Int) (x : Int) : Nat := bisectLeftLoop a x a.length 0 a.length

/-- Python list indexing `l[i]` with negative indices counting from the end; `none` = IndexError -/
def pyGet {α : Type} (l : List α) (i : Int) : Option α :=
  if 0 ≤ i then l[i.toNat]?
  else if -i ≤ (l.length : Int) then l[l.length - (-i).toNat]?
  else none

/-! ### get_series -/

/-- the segment `(ser', xb, xb')` appended after `last` -/
def nextSeg {σ : Type} (step : Seg σ → Option (σ × Int)) (last : Seg σ) : Option (Seg σ) :=
  match step last with
  | none => none
  | some (ser, xb) => some ⟨ser, last.xb, xb⟩

/-- the `while 1:` loop.  `fault = some 0`: this call of `ode_taylor` raises. -/
def extend {σ : Type} (step : Seg σ → Option (σ × Int)) (x : Int) :
    Nat → Option Nat → State σ → State σ × Res σ
  | 0, _, s => (s, .outOfFuel)
  | fuel + 1, fault, s =>
    match s.data.getLast? with                       -- series_data[-1]
    | none => (s, .indexError)
    | some last =>
      if fault = some 0 then (s, .raised) else       -- F raises inside ode_taylor: nothing appended
      match nextSeg step last with
      | none => (s, .raised)
      | some sg =>
        let s' : State σ := ⟨s.bounds ++ [sg.xb], s.data ++ [sg]⟩
        if x ≤ sg.xb then (s', .seg sg)              -- return series_data[-1]
        else extend step x fuel (fault.map (· - 1)) s'

/-- `get_series(x)` of the real code -/
def getSeries {σ : Type} (step : Seg σ → Option (σ × Int)) (x0 : Int) (fuel : Nat)
    (fault : Option Nat) (s : State σ) (x : Int) : State σ × Res σ :=
  if x < x0 then (s, .valueError) else
  let n := bisectRight s.bounds x
  if n < s.bounds.length then
    match pyGet s.data ((n : Int) - 1) with
    | some sg => (s, .seg sg)
    | none => (s, .indexError)
  else extend step x fuel fault s

/-- the mutant: `bisect_left` instead of `bisect` (documented difference, see Props/C33ode.lean) -/
def getSeriesLeft {σ : Type} (step : Seg σ → Option (σ × Int)) (x0 : Int) (fuel : Nat)
    (fault : Option Nat) (s : State σ) (x : Int) : State σ × Res σ :=
  if x < x0 then (s, .valueError) else
  let n := bisectLeft s.bounds x
  if n < s.bounds.length then
    match pyGet s.data ((n : Int) - 1) with
    | some sg => (s, .seg sg)
    | none => (s, .indexError)
  else extend step x fuel fault s

/-- state right after `odefun(...)` returned: `seg0 = (ser, x0, xb)` of the first `ode_taylor` -/
def init {σ : Type} (x0 : Int) (seg0 : Seg σ) : State σ := ⟨[x0, seg0.xb], [seg0]⟩

/-- one call `f(x)`: abscissa, transient fault position, loop fuel -/
structure Req where
  x : Int
  fault : Option Nat := none
  fuel : Nat
deriving DecidableEq, Repr

/-- state after a history of calls (results dropped; exceptions are caught by the caller) -/
def after {σ : Type} (step : Seg σ → Option (σ × Int)) (x0 : Int) : State σ → List Req → State σ
  | s, [] => s
  | s, r :: rs => after step x0 (getSeries step x0 r.fuel r.fault s r.x).1 rs

def afterLeft {σ : Type} (step : Seg σ → Option (σ × Int)) (x0 : Int) : State σ → List Req → State σ
  | s, [] => s
  | s, r :: rs => afterLeft step x0 (getSeriesLeft step x0 r.fuel r.fault s r.x).1 rs

/-- fuel that is proved sufficient for a strictly increasing `step` (`extend_fuel_enough`) -/
def fuelFor {σ : Type} (s : State σ) (x : Int) : Nat :=
  match s.data.getLast? with
  | none => 1
  | some last => (x - last.xb).toNat + 1

/-- the canonical segment sequence: `seg0`, then `nextSeg` repeatedly (stops at the first `none`) -/
def canon {σ : Type} (step : Seg σ → Option (σ × Int)) (seg0 : Seg σ) : Nat → Option (Seg σ)
  | 0 => some seg0
  | k + 1 => match canon step seg0 k with
    | none => none
    | some s => nextSeg step s

end OdeSeg
end Mp
