/-
  MpModel/DrvCalcOdeX.lean — driver op for the extra C34 problem of `MpModel/CalcOdeX.lean`.

    odevalx ricx <c> <x0> <y0> <i> <x> <ym> <ye> <p> <k>   →  ok | violates | undecided | N:
        decides |y − y_exact(x)| ≤ 2^(k−p)·max(|y_exact(x)|, 1)   (component i = 0 only; same mode as `odeval`)
-/
import MpModel.CalcOdeX
import MpModel.DrvCalcRef

namespace DrvCalcOdeX
open Mp.Encl Mp.Calc DrvCalcRef

def answer (toks : List String) : Option String :=
  match toks with
  | "odevalx" :: "ricx" :: ts => do
    let (c, ts) ← pRat ts
    let (x0, ts) ← pRat ts
    let (y0, ts) ← pRat ts
    let (i, ts) ← pNat ts
    let (x, ts) ← pRat ts
    let (y, p, k) ← pTail ts
    if i ≠ 0 then pure "N:" else
    match (RicX.mk c x0 y0).solRef x with
    | some r => pure (showV (checkClose r y p k 1 false))
    | none => pure "N:"
  | _ => none

end DrvCalcOdeX
