/-
  MpModel/Encl2.lean — verified reference evaluator, part 2 (import-free, executable):
  two-argument functions (pow, powm1, hypot, log to a base), sinc, and the exact root checker.
  Soundness: MpProofs/Encl2Sound.lean.
-/
import MpModel.Encl

namespace Mp.Encl

/-- `x^n` exactly (for `x.m ≥ 0`; the mantissa power uses the GMP-backed `Nat.pow`) -/
def Dy.pow (x : Dy) (n : Nat) : Dy := ⟨((x.m.toNat ^ n : Nat) : Int), x.e * (n : Int)⟩

/-- decide `|y - x^(1/n)| ≤ 2^(k-p)·x^(1/n)` exactly, by comparing `y^n` with `((1 ± t)^n)·x` in
integers (`x ≥ 0`, `y ≥ 0`, `n ≥ 1`, `k < p`); never `undecided` inside these side conditions -/
def rootCheck (n : Nat) (x y : Dy) (p k : Nat) : Verdict :=
  if n = 0 ∨ x.m < 0 ∨ y.m < 0 ∨ p ≤ k then .undecided else
  let t : Dy := ⟨1, (k : Int) - (p : Int)⟩
  let yn := y.pow n
  let up := ((Dy.one.add t).pow n).mul x
  let dn := ((Dy.one.sub t).pow n).mul x
  if dn.le yn && yn.le up then .ok
  else if yn.lt dn || up.lt yn then .violates
  else .undecided

/-- `y^n = x` exactly (root of a perfect power is exact) -/
def rootExact (n : Nat) (x y : Dy) : Bool := 0 ≤ y.m && 0 ≤ x.m && (y.pow n).eqv x

inductive Fun2
  | pow | powm1 | hypot | logb
  deriving DecidableEq, Inhabited

/-- enclosure of `f x y` at dyadic points; `none` outside the real domain / undetermined.
`pow x y = exp (y·log x)` for `x > 0`; `logb x b = log x / log b`. -/
def eval2 (f : Fun2) (wp : Nat) (x y : Dy) : Option DI :=
  let X := DI.point x
  let Y := DI.point y
  match f with
  | .pow =>
    let w := wp + ((blen y.m : Int) + y.e).toNat + blen ((blen x.m : Int) + x.e) + 16
    (logI w X).map (fun L => (expI w ((L.mul Y).round w)).round wp)
  | .powm1 =>
    let w := wp + ((blen y.m : Int) + y.e).toNat + blen ((blen x.m : Int) + x.e) + 16
    (logI w X).map (fun L => ((expI w ((L.mul Y).round w)).sub DI.one).round wp)
  | .hypot => some ((sqrtI (wp + 2) ((X.mul X).add (Y.mul Y))).round wp)
  | .logb =>
    match logI (wp + 8) X, logI (wp + 8) Y with
    | some a, some b => (a.divI (wp + 8) b).map (DI.round wp)
    | _, _ => none

/-- `sinc x = sin x / x`, `1` at `0` -/
def sincPoint (wp : Nat) (x : Dy) : Option DI :=
  if x.m = 0 then some DI.one
  else ((sinI (wp + 8) (DI.point x)).divI (wp + 8) (DI.point x)).map (DI.round wp)

/-- generic accuracy loop over an enclosure function of the working precision -/
def accLoopG (ev : Nat → Option DI) (y t : Dy) : List Nat → Verdict
  | [] => .undecided
  | wp :: ws =>
    match ev wp with
    | none => .undecided
    | some F =>
      match decide1 F y t with
      | .undecided => accLoopG ev y t ws
      | v => v

def accWps (p : Nat) : List Nat := [p + 32, 2 * p + 96, 4 * p + 256, 8 * p + 1024]

/-- decide `|z - f(x,y)| ≤ 2^(k-p)·|f(x,y)|` -/
def accCheck2 (f : Fun2) (x y z : Dy) (p k : Nat) : Verdict :=
  accLoopG (fun wp => eval2 f wp x y) z ⟨1, (k : Int) - (p : Int)⟩ (accWps p)

def accCheckSinc (x y : Dy) (p k : Nat) : Verdict :=
  accLoopG (fun wp => sincPoint wp x) y ⟨1, (k : Int) - (p : Int)⟩ (accWps p)

end Mp.Encl
