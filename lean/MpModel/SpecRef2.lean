/-
  MpModel/SpecRef2.lean — further reference values for C19 / C22 (executable, import-free):

  * `encCheck` / `encCheckC`: the accuracy deciders of `SpecRef.lean` over an arbitrary enclosure function
    `enc : Nat → Option DI` (working precision ↦ interval containing the reference value).
  * `hypEncl`: NON-terminating hypergeometric series `pFq(as; bs; z) = Σ_k Π(a_i)_k/Π(b_j)_k · z^k/k!` at rational
    parameters (none a non-positive integer) and rational `z`: exact rational partial sum `Σ_{k<K}` plus the geometric
    tail bound `|t_K|/(1−ρ)`, where `ρ ≥ |t_{k+1}/t_k|` for every `k ≥ K` is CHECKED (`ratioBound`).
    Covers `p ≤ q` (entire functions, any `z`) and `p = q+1` (Gauss type) for `ρ < 1`, i.e. `|z|` sufficiently below 1.
  * `zetaEncl`: `ζ(s) = Σ_{k≥1} k^(−s)` at integers `s ≥ 2` (odd ones included): `Σ_{k≤N} k^(−s)` with outward rounding
    and the tail bound `0 ≤ Σ_{k>N} k^(−s) ≤ N^(1−s)`; `altzetaEncl`: times the dyadic number `1 − 2^(1−s)`.
  * integer (negative) degrees of the orthogonal polynomials for which mpmath's representation has a reflection
    symmetry: `legendre` (`P_n = P_{−n−1}`), `chebyt` (`T_{−n} = T_n`), `chebyu` (`U_{−n−2} = −U_n`, `U_{−1} = 0`).

  Soundness: `MpProofs/SpecRef2.lean`, `Props/C19b.lean`, `Props/C22b.lean`.
-/
import MpModel.SpecRef

namespace Mp.SpecRef
open Mp.Encl

/-! ### deciders over an enclosure function -/

def encLoop (enc : Nat → Option DI) (y t : Dy) : List Nat → Verdict
  | [] => .undecided
  | wp :: ws =>
    match enc wp with
    | none => .undecided
    | some F =>
      match decide1 F y t with
      | .undecided => encLoop enc y t ws
      | v => v

def encLoopC (enc : Nat → Option DI) (yre yim t : Dy) : List Nat → Verdict
  | [] => .undecided
  | wp :: ws =>
    match enc wp with
    | none => .undecided
    | some F =>
      match decideC F yre yim t with
      | .undecided => encLoopC enc yre yim t ws
      | v => v

/-- decide `|y − v| ≤ 2^(k−p)·|v|` for the number `v` enclosed by `enc` -/
def encCheck (enc : Nat → Option DI) (y : Dy) (p k : Nat) : Verdict :=
  encLoop enc y ⟨1, (k : Int) - (p : Int)⟩ (precList p)

def encCheckC (enc : Nat → Option DI) (yre yim : Dy) (p k : Nat) : Verdict :=
  encLoopC enc yre yim ⟨1, (k : Int) - (p : Int)⟩ (precList p)

/-- dyadic enclosure of a rational number -/
def ratDI (wp : Nat) (q : Rat) : DI := (DI.ofInt q.num).divNat wp q.den

/-- dyadic enclosure of the rational interval `[lo, hi]` -/
def ratHull (wp : Nat) (lo hi : Rat) : DI := ⟨(ratDI wp lo).lo, (ratDI wp hi).hi⟩

def absQ (q : Rat) : Rat := if q < 0 then -q else q

/-! ### C22: non-terminating hypergeometric series -/

/-- a bound `R` with `0 ≤ Π(a_i+k)`, `0 < Π(b_j+k)` and `Π(a_i+k)/Π(b_j+k) ≤ R` for EVERY `k ≥ K`
(the lists are paired: `(a+k)/(b+k) ≤ max(1, (a+K)/(b+K))`; unpaired denominators: `1/(b+k) ≤ 1/(b+K)`);
`none` if some `a_i + K < 0`, some `b_j + K ≤ 0`, or there are more numerator than denominator parameters -/
def ratioBound : List Rat → List Rat → Nat → Option Rat
  | [], [], _ => some 1
  | [], b :: bs, K =>
    if 0 < b + (K : Rat) then (ratioBound [] bs K).map (fun R => R / (b + (K : Rat))) else none
  | a :: as, b :: bs, K =>
    if 0 ≤ a + (K : Rat) ∧ 0 < b + (K : Rat) then
      (ratioBound as bs K).map (fun R =>
        (if 1 ≤ (a + (K : Rat)) / (b + (K : Rat)) then (a + (K : Rat)) / (b + (K : Rat)) else 1) * R)
    else none
  | _ :: _, [], _ => none

/-- heuristic stopping test at index `k` (`t = t_k`, `S = Σ_{j<k} t_j`): the ratio bound holds with `ρ < 1` and the
tail bound is below `2^(−wp−2)·|S|`; unconstrained by the proofs -/
def hypStop (as bs : List Rat) (z : Rat) (wp k : Nat) (t S : Rat) : Bool :=
  match ratioBound as (1 :: bs) k with
  | none => false
  | some R =>
    let rho := R * absQ z
    decide (rho < 1) && decide (absQ t * (2 : Rat) ^ (wp + 2) ≤ absQ S * (1 - rho))

/-- `(K, t_K, Σ_{j<K} t_j)` for the first `K ≥ k` at which `hypStop` holds (or fuel runs out) -/
def hypLoop (as bs : List Rat) (z : Rat) (wp : Nat) : Nat → Nat → Rat → Rat → Nat × Rat × Rat
  | 0, k, t, S => (k, t, S)
  | fuel + 1, k, t, S =>
    if hypStop as bs z wp k t S then (k, t, S)
    else hypLoop as bs z wp fuel (k + 1) (t * prodShift as k / prodShift bs k * z / ((k : Rat) + 1)) (S + t)

def hypFuel (z : Rat) (wp : Nat) : Nat := 4 * wp + 8 * ((absQ z).ceil.toNat + 1) + 64

/-- enclosure of `Σ_{k≥0} Π(a_i)_k/Π(b_j)_k · z^k/k!`; `none` if a denominator parameter is a non-positive integer,
or the checked ratio bound at the stopping index is not below 1 -/
def hypEncl (as bs : List Rat) (z : Rat) (wp : Nat) : Option DI :=
  if bs.any isNpInt then none else
  let r := hypLoop as bs z wp (hypFuel z wp) 0 1 0
  match ratioBound as (1 :: bs) r.1 with
  | none => none
  | some R =>
    let rho := R * absQ z
    if rho < 1 then
      let tail := absQ r.2.1 / (1 - rho)
      some (ratHull wp (r.2.2 - tail) (r.2.2 + tail))
    else none

/-- reference of a non-terminating series: `outside` when a numerator parameter is a non-positive integer (the
terminating case is `hyperRef`) or a denominator parameter is one (pole / limit cases) -/
def hypSeriesOK (as bs : List Rat) : Bool := !(as.any isNpInt) && !(bs.any isNpInt)

/-! ### C19: ζ(s) at integers s ≥ 2 from the defining series -/

/-- `Σ_{k=1}^{n} 1/k^s`, outward rounded at `wp` bits -/
def powSumDI (wp s : Nat) : Nat → DI
  | 0 => DI.zero
  | n + 1 => ((powSumDI wp s n).add (DI.one.divNat wp ((n + 1) ^ s))).round wp

/-- number of terms: a power of two `N` with `N^(s−1) ≥ 2^(wp+2)` (heuristic) -/
def zetaTerms (s wp : Nat) : Nat := 2 ^ ((wp + 2 + (s - 2)) / (s - 1))

/-- largest accepted number of terms of the direct sum -/
def zetaMaxTerms : Nat := 8192

/-- enclosure of `ζ(s) = Σ_{k≥1} k^(−s)`, `s ≥ 2`: `Σ_{k≤N} k^(−s) ≤ ζ(s) ≤ Σ_{k≤N} k^(−s) + N^(1−s)` -/
def zetaEncl (s : Nat) (wp : Nat) : Option DI :=
  if s < 2 then none else
  let N := zetaTerms s wp
  if N = 0 ∨ zetaMaxTerms < N then none else
  let w := wp + 16
  let S := powSumDI w s N
  let T : Dy := Dy.divUp w Dy.one ⟨((N ^ (s - 1) : Nat) : Int), 0⟩
  some ((⟨S.lo, S.hi.add T⟩ : DI).round wp)

/-- `altzeta(s) = (1 − 2^(1−s))·ζ(s)`; the factor is the dyadic number `(2^(s−1) − 1)·2^(−(s−1))` -/
def altzetaEncl (s : Nat) (wp : Nat) : Option DI :=
  (zetaEncl s (wp + 2)).map (fun Z => (Z.mul (DI.point ⟨pow2 (s - 1) - 1, -((s - 1 : Nat) : Int)⟩)).round wp)

/-! ### C22: integer degrees -/

/-- `legendre(n, x)` for every integer `n`: `P_n = P_{−n−1}` for `n < 0` (the symmetry of `2F1(−n, n+1; 1; ·)`) -/
def legendreZRef (n : Int) (x : Rat) : Ref := recRef (if 0 ≤ n then n else -n - 1) (legendreQ x)

/-- `chebyt(n, x)` for every integer `n`: `T_{−n} = T_n` -/
def chebytZRef (n : Int) (x : Rat) : Ref := recRef (if 0 ≤ n then n else -n) (chebytQ x)

def Ref.neg : Ref → Ref
  | .val e => .val (.neg e)
  | r => r

/-- `chebyu(n, x)` for every integer `n`: `U_{−1} = 0`, `U_{−n−2} = −U_n` -/
def chebyuZRef (n : Int) (x : Rat) : Ref :=
  if 0 ≤ n then recRef n (chebyuQ x)
  else if n = -1 then .val (.rat 0 1)
  else (recRef (-n - 2) (chebyuQ x)).neg

end Mp.SpecRef
