/-
  MpModel/CalcOdeX.lean — one more initial value problem with a closed-form solution for C34 (`odefun`): a polynomial
  right-hand side that depends on `x` (non-autonomous), so that the Taylor coefficients of the solution at the initial
  point can vanish (at `x0 = c` every odd-order coefficient is zero).

      `ricx`   scalar   y' = −2·(x − c)·y²,   y(x0) = y0 > 0,   c ≤ x0
               solution y(x) = 1 / (1/y0 + (x − c)² − (x0 − c)²)   for x ≥ x0      (a rational number at rational x)

  That `solQ` is THE solution on `[x0, T]` (differentiation; uniqueness by Grönwall) is proved in `MpProofs/CalcOdeX.lean`.
  Import-free apart from `MpModel/CalcRef.lean`.
-/
import MpModel.CalcRef

namespace Mp.Calc

/-- `y' = −2(x − c)y²`, `y(x0) = y0` -/
structure RicX where
  c : Rat
  x0 : Rat
  y0 : Rat
  deriving Inhabited, Repr

namespace RicX

/-- side conditions of the closed form: `y0 > 0` and `c ≤ x0` (then `(x − c)²` increases on `[x0, ∞)`, no pole) -/
def ok (o : RicX) : Bool := decide (0 < o.y0) && decide (o.c ≤ o.x0)

/-- the exact solution at the rational point `x` -/
def solQ (o : RicX) (x : Rat) : Rat := 1 / (1 / o.y0 + (x - o.c) ^ 2 - (o.x0 - o.c) ^ 2)

/-- the solution at `x ≥ x0` as a reference value; `none` when a side condition fails or `x < x0`
(where `odefun` raises `ValueError`) -/
def solRef (o : RicX) (x : Rat) : Option Ref :=
  if o.ok && decide (o.x0 ≤ x) then some (.rat (o.solQ x)) else none

/-- exact Taylor coefficient test used to name the input class: at `x0 = c` the solution is an even function of
`x − x0`, so every odd-order Taylor coefficient at `x0` is zero -/
def oddCoeffsVanish (o : RicX) : Bool := o.c == o.x0

end RicX
end Mp.Calc
