/-
  MpModel/DrvCalcSerX.lean — driver ops for the extra `sumem` classes of C27 (`MpModel/CalcSerX.lean`).
  Token conventions of `MpModel/DrvCalcRef.lean` (rationals `n` | `n/d`, dyadics `m e`, series tokens of `parseSer`).

    polysumq  <k> c1 n1 … ck nk <a> <n>                      →  Q:num/den    exact Σ_{i=0}^{n} p(a+i)
    polysum   <k> c1 n1 … ck nk <a> <n> <ym> <ye> <p> <kk>   →  ok | violates | undecided   (|y − S| ≤ 2^(kk−p)·|S|)
    polyddiff <k> c1 n1 … ck nk <j> <a> <b>                  →  Q:num/den    p^(j)(b) − p^(j)(a)
    linterm   <m> c1 <Ser1> … cm <Serm> <k>                  →  Q:num/den    Σ_j c_j·termQ_j k
    lintail   <m> c1 <Ser1> … cm <Serm> <s0> <a> <ym> <ye> <p> <kk>   →  verdict | N:
              (Σ_{k ≥ a} of the combination = closed form − exact head; N: when a member has no closed form,
               the members do not all start at s0, or a ≤ s0)
-/
import MpModel.CalcSerX
import MpModel.DrvCalcRef

namespace DrvCalcSerX
open Mp.Encl Mp.Calc DrvCalcRef

def pLin : Nat → P (List (Rat × Ser))
  | 0 => fun ts => some ([], ts)
  | m + 1 => fun ts => do
    let (c, ts) ← pRat ts
    let (s, ts) ← parseSer ts
    let (rest, ts) ← pLin m ts
    pure ((c, s) :: rest, ts)

def pPoly : P (List (Rat × Nat)) := fun ts => do
  let (k, ts) ← pNat ts
  pTerms k ts

def answer (toks : List String) : Option String :=
  match toks with
  | "polysumq" :: ts => do
    let (l, ts) ← pPoly ts
    let (a, ts) ← pInt ts
    let (n, ts) ← pNat ts
    if ts ≠ [] then none else pure (showRat (polySumQ l a n))
  | "polysum" :: ts => do
    let (l, ts) ← pPoly ts
    let (a, ts) ← pInt ts
    let (n, ts) ← pNat ts
    let (y, p, k) ← pTail ts
    pure (showV (checkClose (.rat (polySumQ l a n)) y p k 0 false))
  | "polyddiff" :: ts => do
    let (l, ts) ← pPoly ts
    let (j, ts) ← pNat ts
    let (a, ts) ← pRat ts
    let (b, ts) ← pRat ts
    if ts ≠ [] then none else pure (showRat (polyDerivDiffQ l j a b))
  | "linterm" :: ts => do
    let (m, ts) ← pNat ts
    let (l, ts) ← pLin m ts
    let (k, ts) ← pNat ts
    if ts ≠ [] then none else pure (showRat (linTermQ l k))
  | "lintail" :: ts => do
    let (m, ts) ← pNat ts
    let (l, ts) ← pLin m ts
    let (s0, ts) ← pNat ts
    let (a, ts) ← pNat ts
    let (y, p, k) ← pTail ts
    match linTailRef l s0 a with
    | some r => pure (showV (checkClose r y p k 0 false))
    | none => pure "N:"
  | _ => none

end DrvCalcSerX
