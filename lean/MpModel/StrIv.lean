/-
  MpModel/StrIv.lean — import-free model of the string → interval conversions:
    libmpi.py : MAX, mpi_from_str_a_b, mpi_from_str
    ctx_iv.py : convert_mpf_ (string case), ivmpf construction from a string / from a pair of strings
  Strings are `List Char` (see MpModel/Str.lean). `limit` is CPython's int(str) digit limit (0 = none).
  Errors: the `Err` kinds of Core.lean plus Python's `AssertionError` (`assert mpf_ge(y, fzero)`,
  `assert mpf_le(a, b)`); `IvErr` is defined in MpModel/Interval.lean.
-/
import MpModel.Core
import MpModel.Str
import MpModel.Interval

namespace Mp

def liftErr {α : Type} : Except Err α → Except IvErr α
  | .ok a => .ok a
  | .error e => .error (.core e)

/-- `s.split(ab)` for a two-character separator -/
def splitOn2 (a b : Char) : List Char → List (List Char)
  | [] => [[]]
  | [x] => [[x]]
  | x :: y :: r =>
    if x = a ∧ y = b then [] :: splitOn2 a b r
    else match splitOn2 a b (y :: r) with
      | h :: t => (x :: h) :: t
      | [] => [[x]]

/-- `MAX(x, y)` of libmpi -/
def mpfMAX (x y : Mpf) : Mpf := if mpf_ge x y then x else y

/-- `mpi_from_str_a_b(x, y, percent, prec)` -/
def mpi_from_str_a_b (x y : List Char) (percent : Bool) (prec : Int) (limit : Nat := 4300) :
    Except IvErr (Mpf × Mpf) :=
  let wp := prec + 20
  match liftErr (fromStr x wp .f limit) with
  | .error e => .error e
  | .ok xa =>
  match liftErr (fromStr x wp .c limit) with
  | .error e => .error e
  | .ok xb =>
  match liftErr (fromStr y wp .c limit) with
  | .error e => .error e
  | .ok y =>
  if !(mpf_ge y fzero) then .error .assertion else
  let yy : Except IvErr Mpf :=
    if percent then
      let y1 := mpf_mul (mpfMAX (mpf_abs xa) (mpf_abs xb)) y wp .c
      liftErr (mpf_div y1 (from_int 100) wp .c)
    else .ok y
  match yy with
  | .error e => .error e
  | .ok y => .ok (mpf_sub xa y prec .f, mpf_add xb y prec .c)

/-- the two endpoint conversions shared by forms 3, 4, 5 -/
def endpoints (a b : List Char) (prec : Int) (limit : Nat) : Except IvErr (Mpf × Mpf) :=
  match liftErr (fromStr a prec .f limit) with
  | .error e => .error e
  | .ok a =>
    match liftErr (fromStr b prec .c limit) with
    | .error e => .error e
    | .ok b => .ok (a, b)

/-- `mpi_from_str(s, prec)` -/
def mpi_from_str (s : List Char) (prec : Int) (limit : Nat := 4300) : Except IvErr (Mpf × Mpf) :=
  let s := s.filter (· != ' ')
  if (splitOn2 '+' '-' s).length ≥ 2 then            -- "+-" in s
    match splitOn2 '+' '-' s with
    | [x, y] => mpi_from_str_a_b x y false prec limit
    | _ => .error (.core .value)
  else if s.contains '(' then
    if s.head? = some '(' ∨ !(s.contains ')') then .error (.core .value) else
    let s := s.filter (· != ')')
    if s.contains '%' ∧ s.getLast? ≠ some '%' then .error (.core .value) else
    let percent := s.contains '%'
    let s := s.filter (· != '%')
    match splitOnC '(' s with
    | [x, y] => mpi_from_str_a_b x y percent prec limit
    | _ => .error (.core .value)
  else if s.contains ',' then
    if !(s.contains '[') ∨ !(s.contains ']') then .error (.core .value) else
    if s.head? = some '[' then
      let s := (s.filter (· != '[')).filter (· != ']')
      match splitOnC ',' s with
      | [a, b] => endpoints a b prec limit
      | _ => .error (.core .value)
    else
      match splitOnC '[' s with
      | [x, y] =>
        match splitOnC ',' y with
        | [y, z] =>
          if s.contains 'e' then
            match splitOnC ']' z with
            | [z, e] => endpoints (x ++ y ++ e) (x ++ z ++ e) prec limit
            | _ => .error (.core .value)
          else endpoints (x ++ y) (x ++ rstripL (· == ']') z) prec limit
        | _ => .error (.core .value)
      | _ => .error (.core .value)
  else endpoints s s prec limit

/-- `iv.mpf(s)` for a string `s` (`ctx.convert`: no ordering check on this path) -/
def iv_convert_str (s : List Char) (prec : Int) (limit : Nat := 4300) : Except IvErr (Mpf × Mpf) :=
  mpi_from_str s prec limit

/-- `iv.mpf((a, b))` for two strings: `convert_mpf_` with floor / ceiling, then the tail of `ctx.convert`
(nan → [-inf, inf], `assert mpf_le(a, b)`) -/
def iv_convert_str_pair (a b : List Char) (prec : Int) (limit : Nat := 4300) : Except IvErr (Mpf × Mpf) :=
  match endpoints a b prec limit with
  | .error e => .error e
  | .ok (a, b) => convertFinish a b

end Mp
