/-
  MpModel/RelCert.lean — acceptance checkers for integer-relation results (C35), import-free apart
  from the exact dyadic arithmetic of MpModel/Encl.lean (`Dy` = m·2^e, exact `add`, `mul`, `le`).

  mpmath/identification.py:
    pslq(x, tol, maxcoeff)      returns `None` or a list `c` of Python ints; success is reported from the
                                REDUCED fixed-point vector `y` (`|y[i]| < tol`, with `y = x / ‖x‖₂` at the
                                start), not by re-checking the relation against `x`.  What is promised
                                (property text): `c ≠ 0`, `max |c_k| < maxcoeff`,
                                `|Σ c_k x_k| ≤ tol · ‖x‖₂`.
    findpoly(x, n, tol, maxcoeff)  returns `None` or the coefficients, HIGHEST degree first, of an integer
                                polynomial of degree ≤ n obtained from `pslq([1, x, …, x^d])`.
  The checkers take the inputs as exact dyadic numbers (the harness reads `_mpf_` tuples) and decide
  the promise with integer arithmetic only; all comparisons are on squares, no square root is taken.
-/
import MpModel.Encl

namespace Mp.RelCert
open Mp.Encl

inductive Verdict
  | ok          -- the promise holds
  | violates    -- it does not
  | malformed   -- not a well-formed question (lengths differ, negative tolerance)
deriving DecidableEq, Repr

/-- `Σ c_k x_k`, exactly (extra entries of the longer list are ignored; lengths are checked by the caller) -/
def dot : List Int → List Dy → Dy
  | c :: cs, x :: xs => ((Dy.ofInt c).mul x).add (dot cs xs)
  | _, _ => Dy.zero

/-- `Σ x_k²`, exactly -/
def norm2 : List Dy → Dy
  | [] => Dy.zero
  | x :: xs => (x.mul x).add (norm2 xs)

/-- all `|c_k| < bound` -/
def coeffsBelow (c : List Int) (bound : Int) : Bool := c.all (fun k => decide ((k.natAbs : Int) < bound))

def allZero (c : List Int) : Bool := c.all (fun k => decide (k = 0))

/-- the acceptance test for `c = pslq(xs, tol, maxcoeff)` -/
def pslqCheck (xs : List Dy) (c : List Int) (tol : Dy) (maxcoeff : Int) : Verdict :=
  if c.length ≠ xs.length ∨ tol.m < 0 then .malformed
  else if allZero c then .violates
  else if !coeffsBelow c maxcoeff then .violates
  else
    let s := dot c xs
    if (s.mul s).le ((tol.mul tol).mul (norm2 xs)) then .ok else .violates

/-- `[p, p·x, p·x², …]` (n entries), exact -/
def powersFrom (p x : Dy) : Nat → List Dy
  | 0 => []
  | n + 1 => p :: powersFrom (p.mul x) x n

/-- `[1, x, …, x^d]` -/
def powers (x : Dy) (d : Nat) : List Dy := powersFrom Dy.one x (d + 1)

/-- the acceptance test for `coeffs = findpoly(x, n, tol=tol, maxcoeff=maxcoeff)`; `coeffs` is the list
as returned (highest degree first), its degree is `coeffs.length - 1` -/
def findpolyCheck (x : Dy) (coeffs : List Int) (n : Nat) (tol : Dy) (maxcoeff : Int) : Verdict :=
  if coeffs.length = 0 ∨ tol.m < 0 then .malformed
  else if coeffs.length > n + 1 then .violates
  else pslqCheck (powers x (coeffs.length - 1)) coeffs.reverse tol maxcoeff

end Mp.RelCert
