/-
  MpModel/CalcRef.lean — closed-form reference values for the calculus properties
  (C26 quad, C27 nsum/nprod/limit, C28 diff/taylor, C34 odefun, C36 chebyfit/fourier).

  * `Ref`        : expressions denoting real numbers built from rationals, π, + · − ⁻¹ ^n, sqrt, exp,
                   log, sin, cos, atan.  `Ref.eval wp r` is a rigorous dyadic enclosure computed with
                   the verified evaluator `Mp.Encl` (integer arithmetic only).
  * `checkClose` : decides `|y − v| ≤ 2^(k−p)·max(|v|, fl)` (or the strict form `<`) for the exact real
                   value `v` of a `Ref` and a dyadic `y` (an mpmath result read exactly).
  * `Fam`        : the one-variable function families with rational parameters used as integrands,
                   differentiands and exact ODE/approximation targets, with their closed-form
                   integrals / derivatives / values as `Ref`s.
  Soundness (`Ref.eval_sound`, `checkClose_sound_ok/_violates`) is in `MpProofs/CalcRef.lean`;
  the theorems "mathematical quantity = `Ref.sem (familyRef params)`" are in `Props/C26…C36.lean`.
  Import-free apart from other `MpModel` files (core Lean `Rat` is used for rationals).
-/
import MpModel.Encl

namespace Mp.Calc
open Mp.Encl

/-- expressions for reference values -/
inductive Ref
  | rat (q : Rat)
  | pi
  | add (a b : Ref)
  | mul (a b : Ref)
  | neg (a : Ref)
  | inv (a : Ref)
  | pow (a : Ref) (n : Nat)
  | sqrt (a : Ref)
  | exp (a : Ref)
  | log (a : Ref)
  | sin (a : Ref)
  | cos (a : Ref)
  | atan (a : Ref)
  deriving Inhabited, Repr

namespace Ref
def sub (a b : Ref) : Ref := add a (neg b)
def div (a b : Ref) : Ref := mul a (inv b)
def ofInt (n : Int) : Ref := rat (n : Rat)
def ofNat (n : Nat) : Ref := rat (n : Rat)
/-- sum of a list of references -/
def sum : List Ref → Ref
  | [] => rat 0
  | r :: rs => add r (sum rs)
/-- product of a list of references -/
def prod : List Ref → Ref
  | [] => rat 1
  | r :: rs => mul r (prod rs)
end Ref

/-- enclosure of a rational number -/
def ratI (wp : Nat) (q : Rat) : DI :=
  if q.den = 1 then DI.ofInt q.num
  else (DI.ofInt q.num).divPos wp (DI.ofInt (q.den : Int))

/-- enclosure of `x^n` by repeated multiplication -/
def powI (wp : Nat) (X : DI) : Nat → DI
  | 0 => DI.one
  | n + 1 => ((powI wp X n).mul X).round wp

/-- rigorous enclosure of the value of a reference expression at about `wp` bits;
`none` when a sub-expression cannot be enclosed (division by an interval containing 0,
logarithm of an interval reaching 0) -/
def Ref.eval (wp : Nat) : Ref → Option DI
  | .rat q => some (ratI wp q)
  | .pi => some (piI wp)
  | .add a b => do
      let A ← a.eval wp
      let B ← b.eval wp
      pure ((A.add B).round wp)
  | .mul a b => do
      let A ← a.eval wp
      let B ← b.eval wp
      pure ((A.mul B).round wp)
  | .neg a => do
      let A ← a.eval wp
      pure A.neg
  | .inv a => do
      let A ← a.eval wp
      DI.one.divI wp A
  | .pow a n => do
      let A ← a.eval wp
      pure (powI wp A n)
  | .sqrt a => do
      let A ← a.eval wp
      pure ((sqrtI (wp + 2) A).round wp)
  | .exp a => do
      let A ← a.eval wp
      pure (expI wp A)
  | .log a => do
      let A ← a.eval wp
      logI wp A
  | .sin a => do
      let A ← a.eval wp
      pure (sinI wp A)
  | .cos a => do
      let A ← a.eval wp
      pure (cosI wp A)
  | .atan a => do
      let A ← a.eval wp
      pure (atanI wp A)

/-- decide `|y − v| ≤ t·max(|w|, s)` (`strict = false`) or `|y − v| < t·max(|w|, s)` (`strict = true`)
for all / no `v ∈ F`, `w ∈ W`, `s ∈ S` -/
def decideClose (F W S : DI) (y t : Dy) (strict : Bool) : Verdict :=
  let E : DI := ⟨y.sub F.hi, y.sub F.lo⟩      -- y - v
  let lo := t.mul (W.mig.max S.lo)
  let hi := t.mul (W.mag.max S.hi)
  if strict then
    if E.mag.lt lo then .ok
    else if hi.le E.mig then .violates
    else .undecided
  else
    if E.mag.le lo then .ok
    else if hi.lt E.mig then .violates
    else .undecided

def closeLoopTo (r sc : Ref) (fl : Rat) (y t : Dy) (strict : Bool) : List Nat → Verdict
  | [] => .undecided
  | wp :: ws =>
    match r.eval wp, sc.eval wp with
    | some F, some W =>
      match decideClose F W (ratI wp fl) y t strict with
      | .undecided => closeLoopTo r sc fl y t strict ws
      | v => v
    | _, _ => closeLoopTo r sc fl y t strict ws

/-- decide `|y − v| ≤ 2^(k−p)·max(|w|, fl)` (or `<` when `strict`) rigorously, where `v` is the value of `r`
and the scale `w` the value of `sc` (a tolerance relative to another quantity, e.g. a coefficient norm) -/
def checkCloseTo (r sc : Ref) (y : Dy) (p k : Nat) (fl : Rat) (strict : Bool) : Verdict :=
  closeLoopTo r sc fl y ⟨1, (k : Int) - (p : Int)⟩ strict [p + 32, 2 * p + 96, 4 * p + 256, 8 * p + 1024]

/-- decide `|y − v| ≤ 2^(k−p)·max(|v|, fl)` (or `<` when `strict`) rigorously, `v` the value of `r`.
`fl = 0`: relative error; `fl = 1`: "relative or absolute error". -/
def checkClose (r : Ref) (y : Dy) (p k : Nat) (fl : Rat) (strict : Bool) : Verdict :=
  checkCloseTo r r y p k fl strict

/-! ## one-variable function families with rational parameters -/

/-- a function of one real variable -/
inductive Fam
  /-- `Σ c·x^n` over the list of `(c, n)` -/
  | poly (ts : List (Rat × Nat))
  /-- `exp (c·x)` -/
  | expL (c : Rat)
  /-- `sin (c·x)` -/
  | sinL (c : Rat)
  /-- `cos (c·x)` -/
  | cosL (c : Rat)
  /-- `x·exp (c·x)` -/
  | xexp (c : Rat)
  /-- `exp (a·x)·cos (b·x)` -/
  | expcos (a b : Rat)
  /-- `exp (a·x)·sin (b·x)` -/
  | expsin (a b : Rat)
  /-- `1/(1 + x²)` -/
  | lorentz
  /-- `1/(x + c)` -/
  | recip (c : Rat)
  deriving Inhabited, Repr

/-- value of a polynomial term list at a reference point -/
def polyRef (ts : List (Rat × Nat)) (x : Ref) : Ref :=
  Ref.sum (ts.map fun t => Ref.mul (.rat t.1) (.pow x t.2))

/-- the value `f(x)` as a reference expression -/
def Fam.valRef (f : Fam) (x : Ref) : Ref :=
  match f with
  | .poly ts => polyRef ts x
  | .expL c => .exp (.mul (.rat c) x)
  | .sinL c => .sin (.mul (.rat c) x)
  | .cosL c => .cos (.mul (.rat c) x)
  | .xexp c => .mul x (.exp (.mul (.rat c) x))
  | .expcos a b => .mul (.exp (.mul (.rat a) x)) (.cos (.mul (.rat b) x))
  | .expsin a b => .mul (.exp (.mul (.rat a) x)) (.sin (.mul (.rat b) x))
  | .lorentz => .inv (.add (.rat 1) (.pow x 2))
  | .recip c => .inv (.add x (.rat c))

/-- an antiderivative `F` of `f` (valid where stated by `Fam.intOK`) as a reference expression in `x` -/
def Fam.primRef (f : Fam) (x : Ref) : Ref :=
  match f with
  | .poly ts => polyRef (ts.map fun t => (t.1 / ((t.2 + 1 : Nat) : Rat), t.2 + 1)) x
  | .expL c => .mul (.rat (1 / c)) (.exp (.mul (.rat c) x))
  | .sinL c => .mul (.rat (-1 / c)) (.cos (.mul (.rat c) x))
  | .cosL c => .mul (.rat (1 / c)) (.sin (.mul (.rat c) x))
  | .xexp c => .mul (.exp (.mul (.rat c) x)) (.add (.mul (.rat (1 / c)) x) (.rat (-1 / (c * c))))
  | .expcos a b =>
      .mul (.mul (.rat (1 / (a * a + b * b))) (.exp (.mul (.rat a) x)))
        (.add (.mul (.rat a) (.cos (.mul (.rat b) x))) (.mul (.rat b) (.sin (.mul (.rat b) x))))
  | .expsin a b =>
      .mul (.mul (.rat (1 / (a * a + b * b))) (.exp (.mul (.rat a) x)))
        (.add (.mul (.rat a) (.sin (.mul (.rat b) x))) (.mul (.rat (-b)) (.cos (.mul (.rat b) x))))
  | .lorentz => .atan x
  | .recip c => .log (.add x (.rat c))

/-- side condition under which `primRef` is an antiderivative of `f` on the whole segment between
the rational endpoints `a` and `b` -/
def Fam.intOK (f : Fam) (a b : Rat) : Bool :=
  match f with
  | .poly _ => true
  | .expL c => c != 0
  | .sinL c => c != 0
  | .cosL c => c != 0
  | .xexp c => c != 0
  | .expcos a' b' => a' * a' + b' * b' != 0
  | .expsin a' b' => a' * a' + b' * b' != 0
  | .lorentz => true
  | .recip c => decide (0 < a + c) && decide (0 < b + c)

/-- `∫_a^b f` for rational endpoints -/
def Fam.integralRef (f : Fam) (a b : Rat) : Option Ref :=
  if f.intOK a b then some (Ref.sub (f.primRef (.rat b)) (f.primRef (.rat a))) else none

/-- integrands on `[0, ∞)` / `(−∞, ∞)` with exponential decay -/
inductive FamInf
  /-- `x^n·exp(−x)` on `(0, ∞)`: `n!` -/
  | gammaN (n : Nat)
  /-- `exp(−c·x)` on `(a, ∞)`, `c > 0`: `exp(−c·a)/c` -/
  | expDecay (c a : Rat)
  /-- `exp(−b·x²)` on `(−∞, ∞)`, `b > 0`: `√(π/b)` -/
  | gaussFull (b : Rat)
  /-- `exp(−b·x²)` on `(0, ∞)`, `b > 0`: `√(π/b)/2` -/
  | gaussHalf (b : Rat)
  deriving Inhabited, Repr

def natFactorial : Nat → Nat
  | 0 => 1
  | n + 1 => (n + 1) * natFactorial n

def FamInf.integralRef : FamInf → Option Ref
  | .gammaN n => some (.rat (natFactorial n : Nat))
  | .expDecay c a => if 0 < c then some (.mul (.rat (1 / c)) (.exp (.rat (-(c * a))))) else none
  | .gaussFull b => if 0 < b then some (.sqrt (.mul .pi (.rat (1 / b)))) else none
  | .gaussHalf b => if 0 < b then some (.mul (.rat (1 / 2)) (.sqrt (.mul .pi (.rat (1 / b))))) else none

/-- the integrand of an infinite-range family, as a reference expression in `x` -/
def FamInf.valRef (f : FamInf) (x : Ref) : Ref :=
  match f with
  | .gammaN n => .mul (.pow x n) (.exp (.neg x))
  | .expDecay c _ => .exp (.neg (.mul (.rat c) x))
  | .gaussFull b => .exp (.neg (.mul (.rat b) (.pow x 2)))
  | .gaussHalf b => .exp (.neg (.mul (.rat b) (.pow x 2)))

/-- a factor of a separable multi-dimensional integrand: a family with its (finite) limits -/
structure Factor where
  f : Fam
  a : Rat
  b : Rat
  deriving Inhabited, Repr

/-- `c · Π_i ∫_{a_i}^{b_i} f_i` -/
def sepIntegralRef (c : Rat) (fs : List Factor) : Option Ref := do
  let rs ← fs.mapM fun F => F.f.integralRef F.a F.b
  pure (Ref.mul (.rat c) (Ref.prod rs))

/-! ### derivatives -/

def descFact (m : Nat) : Nat → Nat
  | 0 => 1
  | k + 1 => (m - k) * descFact m k

/-- `n`-th derivative of `f` at `x`, for the families where it has a simple closed form -/
def Fam.derivRef (f : Fam) (n : Nat) (x : Ref) : Option Ref :=
  match f with
  | .poly ts =>
      some (polyRef ((ts.filter fun t => n ≤ t.2).map fun t => (t.1 * (descFact t.2 n : Nat), t.2 - n)) x)
  | .expL c => some (.mul (.pow (.rat c) n) (.exp (.mul (.rat c) x)))
  | .sinL c =>
      let cx := Ref.mul (.rat c) x
      let cn := Ref.pow (.rat c) n
      some (match n % 4 with
        | 0 => .mul cn (.sin cx)
        | 1 => .mul cn (.cos cx)
        | 2 => .neg (.mul cn (.sin cx))
        | _ => .neg (.mul cn (.cos cx)))
  | .cosL c =>
      let cx := Ref.mul (.rat c) x
      let cn := Ref.pow (.rat c) n
      some (match n % 4 with
        | 0 => .mul cn (.cos cx)
        | 1 => .neg (.mul cn (.sin cx))
        | 2 => .neg (.mul cn (.cos cx))
        | _ => .mul cn (.sin cx))
  | .xexp c =>
      -- (x e^{cx})^(n) = e^{cx} (c^n x + n c^(n-1))
      some (.mul (.exp (.mul (.rat c) x))
        (.add (.mul (.pow (.rat c) n) x) (.mul (.rat (n : Nat)) (.pow (.rat c) (n - 1)))))
  | _ => none

end Mp.Calc
