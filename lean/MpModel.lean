import MpModel.Core
