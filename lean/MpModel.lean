import MpModel.Core
import MpModel.Hash
import MpModel.DrvHash
import MpModel.Complex
import MpModel.Interval
import MpModel.DrvCplxIv
import MpModel.Str
import MpModel.DrvStr
