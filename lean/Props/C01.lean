/-
  Props/C01.lean — C01: every real value has one canonical representation.
  Closure of the modelled core under canonicity, and injectivity of the value on canonical tuples.
-/
import MpProofs.Div

namespace Mp

/-- a result meeting the rounding contract is canonical (and finite) -/
theorem C01_canon_of_roundOK {prec : ℤ} {rnd : Rnd} {x : ℚ} {r : Mpf} (h : RoundOK prec rnd x r) :
    Canonical r := by
  rcases h.1 with h | h
  · exact Or.inl h
  · exact Or.inr (Or.inr (Or.inr (Or.inr h)))

theorem C01_normalize {sign : Nat} (hs : sign ≤ 1) (man : Nat) (exp : Int) {prec : Int} (hp : 0 < prec)
    (rnd : Rnd) : Canonical (normalize sign man exp (bitcount man) prec rnd) :=
  C01_canon_of_roundOK (normalize_spec hs man exp hp rnd)

theorem C01_from_man_exp (Z e : ℤ) {prec : ℤ} (hp : 0 ≤ prec) (rnd : Rnd) :
    Canonical (from_man_exp Z e prec rnd) := C01_canon_of_roundOK (from_man_exp_spec Z e hp rnd)

theorem C01_add {s t : Mpf} (hs : CanonFin s) (ht : CanonFin t) {prec : ℤ} (hp : 0 ≤ prec) (rnd : Rnd)
    (sub : Bool) : Canonical (mpf_add s t prec rnd sub) := C01_canon_of_roundOK (mpf_add_spec hs ht hp rnd sub)

theorem C01_mul {s t : Mpf} (hs : CanonFin s) (ht : CanonFin t) {prec : ℤ} (hp : 0 ≤ prec) (rnd : Rnd) :
    Canonical (mpf_mul s t prec rnd) := C01_canon_of_roundOK (mpf_mul_spec hs ht hp rnd)

theorem C01_mul_int {s : Mpf} (hs : CanonFin s) (n : ℤ) {prec : ℤ} (hp : 0 < prec) (rnd : Rnd) :
    Canonical (mpf_mul_int s n prec rnd) := C01_canon_of_roundOK (mpf_mul_int_spec hs n hp rnd)

theorem C01_div {s t : Mpf} (hs : CanonFin s) (ht : CanonFin t) (ht0 : t ≠ fzero) {prec : ℤ} (hp : 0 < prec)
    (rnd : Rnd) : ∃ r, mpf_div s t prec rnd = .ok r ∧ Canonical r := by
  obtain ⟨r, h1, h2⟩ := mpf_div_spec hs ht ht0 hp rnd
  exact ⟨r, h1, C01_canon_of_roundOK h2⟩

theorem C01_neg_abs_pos {s : Mpf} (hs : CanonFin s) {prec : ℤ} (hp : 0 ≤ prec) (rnd : Rnd) :
    Canonical (mpf_neg s prec rnd) ∧ Canonical (mpf_abs s prec rnd) ∧ Canonical (mpf_pos s prec rnd) :=
  ⟨C01_canon_of_roundOK (mpf_neg_spec hs hp rnd), C01_canon_of_roundOK (mpf_abs_spec hs hp rnd),
   C01_canon_of_roundOK (mpf_pos_spec hs hp rnd)⟩

/-- the fast bit-count update of `python_mpf_mul` records the exact bit length -/
theorem C01_mul_bitcount {a b : ℕ} (ha : a ≠ 0) (hb : b ≠ 0) :
    (bitcount a : ℤ) + bitcount b - 1 + (((a * b) >>> ((bitcount a : ℤ) + bitcount b - 1).toNat : ℕ) : ℤ)
      = bitcount (a * b) := mul_bc_fast ha hb

end Mp
