/-
  Props/C25.lean — property C25: integer-valued and number-theoretic functions are exact.

  Code under proof: the Lean model `MpModel/IntFun.lean` of mpmath/libmp/libintmath.py
  (`ifac`, `ifac2`, `ifib`, `eulernum` with their caches as explicit state; `stirling1`, `stirling2`,
  `moebius`, `list_primes`, `primepi`, `isprime`, `gcd`).

  Vocabulary (defined in MpProofs/IntFun*.lean):
  * `dget c k`              — `c.get(k)` on a cache.
  * `FacReach memo`         — `memo` is reachable from the fresh `{0:1, 1:1}` by ANY sequence of successful
                              `ifac(n)` / `stirling2(n,k)` calls, any integer arguments.
  * `Fac2Reach pair`, `FibReach c`, `EulerReach c` — the same for `ifac2`, `ifib`, `eulernum`.
  * `fibZ n`                — Fibonacci numbers on ℤ: `Nat.fib n` for `n ≥ 0`, `(-1)^(n+1) F(n)` at `-n`.
  * `eulerCacheVal n`, `eulerRet n` — the value `eulernum` stores under key `n` / returns when it computes `n`
                              (pure replay of the array recurrence, no cache).
-/
import MpProofs.IntFun
import MpProofs.IntFunEuler
import MpProofs.IntFunEulerFast
import MpProofs.IntFunSieve
import MpProofs.IntFunReach
import MpProofs.IntFunNT
import MpProofs.IntFunSqrt
import MpProofs.IntFunRef
import Mathlib.NumberTheory.ArithmeticFunction.Moebius

namespace Mp

/-! ## factorial -/

/-- `ifac(n) = n!` for every `n ≥ 0`, after ANY call history; the new memo is again reachable. -/
theorem ifac_spec (memo : IDict) (h : FacReach memo) (n : Int) (hn : 0 ≤ n) :
    ∃ memo', ifac n memo = .ok ((Nat.factorial n.toNat : Int), memo') ∧ FacReach memo' := by
  obtain ⟨memo', h1, _⟩ := ifac_of_inv n memo (facReach_inv h)
  rw [if_pos hn] at h1
  exact ⟨memo', h1, FacReach.ifac n h h1⟩

example : FacReach ifacMemo0 := FacReach.init

/-- cache invariant: every entry of a reachable factorial memo is `k ↦ k!` with `0 ≤ k ≤ MAX_FACTORIAL_CACHE`. -/
theorem ifac_cache_correct (memo : IDict) (h : FacReach memo) (k v : Int) (hk : dget memo k = some v) :
    0 ≤ k ∧ k ≤ 1000 ∧ v = (Nat.factorial k.toNat : Int) := by
  obtain ⟨K, _, hK, rfl⟩ := facReach_inv h
  rw [dget_facTable] at hk
  split at hk
  · next hh => simp only [Option.some.injEq] at hk; exact ⟨hh.1, by omega, hk.symm⟩
  · exact absurd hk (by simp)

/-- Outside the documented domain (`n < 0`) `ifac` does not raise: it returns `(len(memo)-1)!`, a value
that depends on the call history (docstring: "for integers n >= 0 only"). -/
theorem ifac_negative_arg (memo : IDict) (h : FacReach memo) (n : Int) (hn : n < 0) :
    ∃ memo', ifac n memo = .ok ((Nat.factorial (dlen memo - 1).toNat : Int), memo') := by
  obtain ⟨memo', h1, _⟩ := ifac_of_inv n memo (facReach_inv h)
  rw [if_neg (by omega)] at h1
  exact ⟨memo', h1⟩

/-! ## double factorial -/

/-- `ifac2(n) = n‼` for every `n ≥ 0`, after ANY call history. -/
theorem ifac2_spec (pair : IDict × IDict) (h : Fac2Reach pair) (n : Int) (hn : 0 ≤ n) :
    ∃ pair', ifac2 n pair = .ok ((Nat.doubleFactorial n.toNat : Int), pair') ∧ Fac2Reach pair' := by
  obtain ⟨pair', h1, _⟩ := ifac2_of_inv n pair (fac2Reach_inv h) hn
  exact ⟨pair', h1, Fac2Reach.step n h h1⟩

example : Fac2Reach ifac2Memo0 := Fac2Reach.init

/-- cache invariant: the even memo holds `k ↦ k‼` for even `k`, the odd memo for odd `k`, `0 ≤ k ≤ 1000`. -/
theorem ifac2_cache_correct (pair : IDict × IDict) (h : Fac2Reach pair) (k v : Int) :
    (dget pair.1 k = some v → 0 ≤ k ∧ k ≤ 1000 ∧ k % 2 = 0 ∧ v = (Nat.doubleFactorial k.toNat : Int)) ∧
    (dget pair.2 k = some v → 0 ≤ k ∧ k ≤ 1000 ∧ k % 2 = 1 ∧ v = (Nat.doubleFactorial k.toNat : Int)) := by
  obtain ⟨Ke, Ko, _, hKe, _, hKo, rfl⟩ := fac2Reach_inv h
  simp only [fac2Cap] at hKe hKo
  constructor
  · intro hk
    rw [dget_fac2Table 0 Ke (by omega)] at hk
    split at hk
    · next hh => simp only [Option.some.injEq] at hk; exact ⟨hh.1, by omega, by omega, hk.symm⟩
    · exact absurd hk (by simp)
  · intro hk
    rw [dget_fac2Table 1 Ko (by omega)] at hk
    split at hk
    · next hh => simp only [Option.some.injEq] at hk; exact ⟨hh.1, by omega, by omega, hk.symm⟩
    · exact absurd hk (by simp)

/-! ## Fibonacci -/

/-- `ifib(n) = F(n)` for EVERY integer `n` (negative indices: `F(-n) = (-1)^(n+1) F(n)`), after ANY
call history. -/
theorem ifib_spec (c : IDict) (h : FibReach c) (n : Int) :
    (ifib n c).1 = fibZ n ∧ FibReach (ifib n c).2 :=
  ⟨(ifib_of_inv n c (fibReach_inv h)).1, FibReach.step n h⟩

example : FibReach [] := FibReach.init
example : fibZ (-6) = -8 ∧ fibZ (-5) = 5 ∧ fibZ 10 = 55 := by decide

/-- cache invariant: every entry of a reachable Fibonacci cache is `k ↦ F(k)` with `0 ≤ k < 250`. -/
theorem ifib_cache_correct (c : IDict) (h : FibReach c) (k v : Int) (hk : dget c k = some v) :
    0 ≤ k ∧ k < 250 ∧ v = (Nat.fib k.toNat : Int) :=
  fibReach_inv h k v hk

/-! ## gcd -/

/-- `|gcd(*args)|` is the gcd of the absolute values (for `gcd()` it is 0). -/
theorem gcd_spec (args : List Int) :
    (gcd args).natAbs = args.foldl (fun g x => Nat.gcd g x.natAbs) 0 := by
  rw [gcd_eq_foldl, foldl_gcdStep_natAbs]; rfl

/-- for nonnegative arguments the result is the (nonnegative) gcd itself. -/
theorem gcd_spec_nonneg (args : List Int) (h : ∀ x ∈ args, 0 ≤ x) :
    gcd args = ((args.foldl (fun g x => Nat.gcd g x.natAbs) 0 : Nat) : Int) := by
  have h1 := gcd_spec args
  have h2 : 0 ≤ gcd args := by rw [gcd_eq_foldl]; exact foldl_gcdStep_nonneg args 0 (le_refl _) h
  omega

example : gcd [12, 18] = 6 ∧ gcd [4, -6] = -2 := by decide

/-! ## Stirling numbers -/

/-- `stirling1(n,k) = (-1)^(n+k) · c(n,k)` (signed Stirling numbers of the first kind). -/
theorem stirling1_exact (n k : Nat) :
    stirling1 (n : Int) (k : Int) = .ok ((-1) ^ (n + k) * (Nat.stirlingFirst n k : Int)) :=
  stirling1_spec n k

/-- negative arguments raise ValueError. -/
theorem stirling1_negative (n k : Int) (h : n < 0 ∨ k < 0) : stirling1 n k = .error .valueError :=
  stirling1_err n k h

/-- `stirling2(n,k) = S(n,k)`, after ANY history of the factorial memo it uses (in particular the final
`s // ifac(k)` is exact). -/
theorem stirling2_exact (memo : IDict) (h : FacReach memo) (n k : Nat) :
    ∃ memo', stirling2 (n : Int) (k : Int) memo = .ok ((Nat.stirlingSecond n k : Int), memo') ∧ FacReach memo' := by
  obtain ⟨memo', h1, _⟩ := stirling2_of_inv n k memo (facReach_inv h)
  exact ⟨memo', h1, FacReach.stirling2 _ _ h h1⟩

theorem stirling2_negative (n k : Int) (memo : IDict) (h : n < 0 ∨ k < 0) :
    stirling2 n k memo = .error .valueError :=
  stirling2_err n k memo h

/-- the alternating sum that `stirling2` divides by `k!` is exactly `k! · S(n,k)`. -/
theorem stirling2_div_exact (n k : Nat) :
    ((List.range (k + 1)).foldl (st2Step n k) (0, 1)).1 = (Nat.factorial k : Int) * (Nat.stirlingSecond n k : Int) :=
  st2_fold' n k

/-! ## primes -/

/-- `list_primes(n)` is exactly the list of primes `≤ n`, in increasing order (`n ≥ -1`). -/
theorem list_primes_exact (n : Int) (h : -1 ≤ n) :
    list_primes n = .ok ((List.range (n + 1).toNat).filter (fun p => decide (Nat.Prime p))) :=
  list_primes_spec n h

/-- `list_primes(n)` for `n < -1` raises TypeError (`int()` of a complex number). -/
theorem list_primes_negative (n : Int) (h : n < -1) : list_primes n = .error .typeError :=
  list_primes_err n h

/-- `primepi(x)` is the number of primes `≤ x`. -/
theorem primepi_exact (x : Int) :
    primepi x = .ok (((List.range (x + 1).toNat).filter (fun p => decide (Nat.Prime p))).length : Int) :=
  primepi_spec x

/-- `isprime` never rejects a prime (Miller–Rabin completeness: Fermat + square roots of 1 mod p), for
EVERY prime, including those above the deterministic range. -/
theorem isprime_complete_all (n : Nat) (h : Nat.Prime n) : isprime (n : Int) = true :=
  isprime_complete n h

example : Nat.Prime 1000003 := by norm_num

/-- negative integers are never prime. -/
theorem isprime_negative (n : Int) (h : n < 0) : isprime n = false :=
  isprime_neg n h

/-
  FULL STATEMENT (not proved):  ∀ n : Int, n < 341550071728321 → isprime n = true → Nat.Prime n.toNat
  (the property text: "isprime deterministically below 3.4*10^14").  Proved below for n < 10^5 by exhaustive
  kernel evaluation; beyond that the claim rests on the published strong-pseudoprime bounds
  (Pomerance–Selfridge–Wagstaff 1980, Jaeschke 1993), which are not formalised here.
-/
/-- soundness below `10^5` (exhaustive kernel evaluation, no `native_decide`). -/
theorem isprime_sound_partial (n : Int) (hn : n < 100000) (h : isprime n = true) : Nat.Prime n.toNat :=
  isprime_sound_small n hn h

example : isprime 99991 = true := by decide +kernel

/-- hence `isprime` decides primality exactly below `10^5`. -/
theorem isprime_exact_partial (n : Int) (hn : n < 100000) : isprime n = true ↔ (0 ≤ n ∧ Nat.Prime n.toNat) := by
  constructor
  · intro h
    refine ⟨?_, isprime_sound_small n hn h⟩
    by_contra hneg
    rw [isprime_neg n (by omega)] at h
    exact absurd h (by simp)
  · rintro ⟨h0, hp⟩
    have := isprime_complete n.toNat hp
    rwa [Int.toNat_of_nonneg h0] at this

/-- Conditional on the published strong-pseudoprime bounds `SPRP_bounds` (Pomerance–Selfridge–Wagstaff 1980,
Jaeschke 1993: no odd composite below 1373653 passes bases 2,3; none below 341550071728321 passes bases
2,3,5,7,11,13,17 — a purely mathematical hypothesis about `SPRP`, NOT proved here), `isprime` is sound on the
whole deterministic range claimed by the property text. -/
theorem isprime_sound_under_SPRP_bounds (H : SPRP_bounds) (n : Int) (hn : n < 341550071728321)
    (h : isprime n = true) : Nat.Prime n.toNat :=
  isprime_sound_conditional H n hn h

example : SPRP 7 2 := ⟨1, 3, by norm_num, by norm_num, Or.inl (by norm_num)⟩

/-! ## Moebius function -/

/-- `moebius(n) = μ(|n|)` for every integer `n` (`μ(0) = 0`). -/
theorem moebius_exact (n : Int) : moebius n = ArithmeticFunction.moebius n.natAbs :=
  moebius_spec n

example : moebius 30 = -1 ∧ moebius (-12) = 0 ∧ moebius 6 = 1 := by decide

/-! ## Euler numbers -/

/-
  `eulerE m` (MpProofs/IntFunEuler.lean) is the Euler number `E_m` (`1/cosh x = ∑ E_m x^m/m!`), defined through
  the table `secTable n = [E_0, E_2, …, E_{2(n-1)}]` built by the recurrence
  `E_0 = 1`, `E_{2n} = -∑_{k<n} C(2n,2k) E_{2k}`; the next three theorems pin the definition down.
-/

/-- `eulerE` is characterised by: `E_0 = 1`, `E_odd = 0`, and `∑_{k=0}^{n} C(2n,2k) E_{2k} = 0` for `n ≥ 1`. -/
theorem eulerE_zero : eulerE 0 = 1 := by decide

theorem eulerE_odd (m : Nat) (h : m % 2 = 1) : eulerE m = 0 := by simp [eulerE, h]

theorem eulerE_recurrence (n : Nat) (hn : 1 ≤ n) :
    ((List.range (n + 1)).map (fun k => (Nat.choose (2 * n) (2 * k) : Int) * eulerE (2 * k))).sum = 0 := by
  rw [List.range_succ, List.map_append, List.sum_append]
  have h1 : ∀ k ∈ List.range n, (Nat.choose (2 * n) (2 * k) : Int) * eulerE (2 * k)
      = (Nat.choose (2 * n) (2 * k) : Int) * (secTable n).getD k 0 := by
    intro k hk
    rw [List.mem_range] at hk
    rw [eulerE_two_mul, secTable_getD_stable (k + 1) n k (by omega) (by omega)]
  rw [List.map_congr_left h1]
  have h2 : eulerE (2 * n) = -((List.range n).map
      (fun k => (Nat.choose (2 * n) (2 * k) : Int) * (secTable n).getD k 0)).sum := by
    rw [eulerE_two_mul]
    have hl : (secTable n).length = n := secTable_length n
    have hn0 : n ≠ 0 := by omega
    simp only [secTable, List.getD_eq_getElem?_getD]
    rw [List.getElem?_append_right (by omega)]
    simp [hl, hn0]
  simp [h2]

/-- cache consistency: although `eulernum` writes `_cache[n]` inside its inner loop (partial sums), every
value left in a reachable cache is the FINAL value for its key, `0 ≤ k ≤ MAX_EULER_CACHE`. -/
theorem eulernum_cache_consistent (c : IDict) (h : EulerReach c) (k v : Int) (hk : dget c k = some v) :
    0 ≤ k ∧ k ≤ 500 ∧ v = eulerCacheVal k.toNat :=
  (eulerReach_inv h).2 k v hk

example : EulerReach eulerCache0 := EulerReach.init

/-- odd arguments (of either sign) give 0. -/
theorem eulernum_odd_arg (m : Int) (c : IDict) (h : m % 2 = 1) : (eulernum m c).1 = some 0 := by
  rw [eulernum_odd m c h]

/-- Even NEGATIVE arguments: the model (like the code: the `for` loop body never runs and the function falls
off its end) returns Python `None`, not an integer and not an exception. -/
theorem eulernum_negative_even_returns_None (c : IDict) (h : EulerReach c) (m : Int) (he : m % 2 = 0) (hm : m < 0) :
    (eulernum m c).1 = none := by
  rw [eulernum_neg_even m c (eulerReach_inv h) he hm]

/-- for even `m ≥ 0`, after ANY call history, the answer is either the stored value or the freshly computed
value for `m` — never a value belonging to another key or a partial sum. -/
theorem eulernum_history_independent (c : IDict) (h : EulerReach c) (m : Int) (he : m % 2 = 0) (hm : 0 ≤ m) :
    ((eulernum m c).1 = some (eulerCacheVal m.toNat) ∨ (eulernum m c).1 = some (eulerRet m.toNat)) ∧
    EulerReach (eulernum m c).2 :=
  ⟨(eulernum_even m c (eulerReach_inv h) he hm).1, EulerReach.step m h⟩

/-
  FULL STATEMENT (not proved):
    theorem eulernum_spec (c) (h : EulerReach c) (m : Int) (hm : 0 ≤ m) : (eulernum m c).1 = some (eulerE m.toNat)
  What is missing: `eulerCacheVal n = eulerRet n = eulerE n` for ALL even n, i.e. the mathematics of the
  van de Lune recurrence (`∑_j a(n,j) = 2^n · |E_n|`); it is checked (kernel evaluation, `eulerS_small100`) for n ≤ 100, which covers the
  `n < 100` path of `mp.eulernum`.
-/
/-- `eulernum(m) = E_m` for `0 ≤ m ≤ 101`, after ANY call history (including histories that computed
much larger Euler numbers). -/
theorem eulernum_spec_partial (c : IDict) (h : EulerReach c) (m : Int) (hm : 0 ≤ m) (hm' : m ≤ 101) :
    (eulernum m c).1 = some (eulerE m.toNat) := by
  by_cases ho : m % 2 = 1
  · rw [eulernum_odd m c ho, eulerE_odd _ (by omega)]
  · obtain ⟨j, hj⟩ : ∃ j : Nat, m.toNat = 2 * j := ⟨m.toNat / 2, by omega⟩
    have hv := euler_values_small100 j (by omega)
    rw [← hj] at hv
    rcases (eulernum_even m c (eulerReach_inv h) (by omega) hm).1 with h1 | h1
    · rw [h1, hv.1]
    · rw [h1, hv.2]

/-! ## reference values of the float-path functions binomial / rf / ff (NOT models of the gammaprod code: the values the
driver answers with, against which the real results are judged: exact when they fit, within 1 ulp otherwise) -/

/-- the driver's `w_binomial` reference is the binomial coefficient. -/
theorem binomial_ref_exact (n k : Nat) : binomialRef (n : Int) (k : Int) = (Nat.choose n k : Int) :=
  binomialRef_eq_choose n k

/-- the driver's `w_rf` reference is the rising factorial `x (x+1) ⋯ (x+n-1)`. -/
theorem rf_ref_exact (x n : Nat) : rfRef (x : Int) n = (Nat.ascFactorial x n : Int) :=
  rfRef_eq x n

/-- the driver's `w_ff` reference is the falling factorial `x (x-1) ⋯ (x-n+1)`. -/
theorem ff_ref_exact (x n : Nat) : ffRef (x : Int) n = (Nat.descFactorial x n : Int) :=
  ffRef_eq x n

/-! ## integer square roots (integer loops only; the floating-point initial estimates are parameters) -/

/-- the Newton loop of `isqrt_small_python` returns `⌊√x⌋` from ANY initial estimate `r0 ≥ ⌊√x⌋` (`x > 0`). -/
theorem isqrt_small_exact (x r0 : Nat) (hx : 0 < x) (hr : Nat.sqrt x ≤ r0) : isqrt_small x r0 = Nat.sqrt x :=
  isqrt_small_spec x r0 hx hr

example : isqrt_small (2 ^ 60 + 5) (2 ^ 30 + 17) = 2 ^ 30 := by decide +kernel

/-- the correction loops of `sqrtrem_python` return `(⌊√x⌋, x - ⌊√x⌋²)` whenever `isqrt_fast`'s value `y0`
is at most 1 below the root (overestimates of any size are repaired). -/
theorem sqrtrem_exact (x : Nat) (y0 : Int) (h : (Nat.sqrt x : Int) ≤ y0 + 1) :
    sqrtremLarge x y0 = ((Nat.sqrt x : Int), (x : Int) - (Nat.sqrt x : Int) * Nat.sqrt x) :=
  sqrtremLarge_spec x y0 h

/-- …but NOT when the estimate is 2 below: the second loop tests `rem > 2*(1+y)` instead of `rem > 2*y`.
(Latent: no `x` with `isqrt_fast(x) ≤ ⌊√x⌋ - 2` is known.) -/
theorem sqrtrem_underestimate_counterexample : sqrtremLarge 16 2 = (3, 7) ∧ Nat.sqrt 16 = 4 :=
  ⟨sqrtremLarge_underestimate_witness, by decide +kernel⟩

end Mp
