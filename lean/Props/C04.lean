/-
  Props/C04.lean — C04: complex arithmetic is correctly rounded per component.
  A complex number is a pair of raw mpf values; `CanonFinC z` : both components finite canonical.
  For all components of any bit length, all precisions (`0` = exact) and all five rounding modes.
-/
import MpProofs.IntervalSound
import MpModel.Complex

namespace Mp

def CanonFinC (z : Mpc) : Prop := CanonFin z.1 ∧ CanonFin z.2

theorem C04_add {z w : Mpc} (hz : CanonFinC z) (hw : CanonFinC w) {prec : ℤ} (hp : 0 ≤ prec) (rnd : Rnd) :
    RoundOK prec rnd (val z.1 + val w.1) (mpc_add z w prec rnd).1 ∧
    RoundOK prec rnd (val z.2 + val w.2) (mpc_add z w prec rnd).2 := by
  have h1 := mpf_add_spec hz.1 hw.1 hp rnd false
  have h2 := mpf_add_spec hz.2 hw.2 hp rnd false
  simp only [Bool.false_eq_true, if_false] at h1 h2
  exact ⟨h1, h2⟩

theorem C04_sub {z w : Mpc} (hz : CanonFinC z) (hw : CanonFinC w) {prec : ℤ} (hp : 0 ≤ prec) (rnd : Rnd) :
    RoundOK prec rnd (val z.1 - val w.1) (mpc_sub z w prec rnd).1 ∧
    RoundOK prec rnd (val z.2 - val w.2) (mpc_sub z w prec rnd).2 :=
  ⟨mpf_sub_spec hz.1 hw.1 hp rnd, mpf_sub_spec hz.2 hw.2 hp rnd⟩

/-- `z * w`: real part `ac − bd`, imaginary part `ad + bc`, each rounded ONCE (the four products are
formed exactly). -/
theorem C04_mul {z w : Mpc} (hz : CanonFinC z) (hw : CanonFinC w) {prec : ℤ} (hp : 0 ≤ prec) (rnd : Rnd) :
    RoundOK prec rnd (val z.1 * val w.1 - val z.2 * val w.2) (mpc_mul z w prec rnd).1 ∧
    RoundOK prec rnd (val z.1 * val w.2 + val z.2 * val w.1) (mpc_mul z w prec rnd).2 := by
  obtain ⟨k1, v1, _⟩ := mul_exact hz.1 hw.1
  obtain ⟨k2, v2, _⟩ := mul_exact hz.2 hw.2
  obtain ⟨k3, v3, _⟩ := mul_exact hz.1 hw.2
  obtain ⟨k4, v4, _⟩ := mul_exact hz.2 hw.1
  have h1 := mpf_sub_spec k1 k2 hp rnd
  have h2 := mpf_add_spec k3 k4 hp rnd false
  simp only [Bool.false_eq_true, if_false] at h2
  rw [v1, v2] at h1
  rw [v3, v4] at h2
  exact ⟨h1, h2⟩

theorem C04_mul_mpf {z : Mpc} (hz : CanonFinC z) {x : Mpf} (hx : CanonFin x) {prec : ℤ} (hp : 0 ≤ prec) (rnd : Rnd) :
    RoundOK prec rnd (val z.1 * val x) (mpc_mul_mpf z x prec rnd).1 ∧
    RoundOK prec rnd (val z.2 * val x) (mpc_mul_mpf z x prec rnd).2 :=
  ⟨mpf_mul_spec hz.1 hx hp rnd, mpf_mul_spec hz.2 hx hp rnd⟩

theorem C04_mul_int {z : Mpc} (hz : CanonFinC z) (n : ℤ) {prec : ℤ} (hp : 0 < prec) (rnd : Rnd) :
    RoundOK prec rnd (val z.1 * n) (mpc_mul_int z n prec rnd).1 ∧
    RoundOK prec rnd (val z.2 * n) (mpc_mul_int z n prec rnd).2 :=
  ⟨mpf_mul_int_spec hz.1 n hp rnd, mpf_mul_int_spec hz.2 n hp rnd⟩

theorem C04_neg_pos {z : Mpc} (hz : CanonFinC z) {prec : ℤ} (hp : 0 ≤ prec) (rnd : Rnd) :
    RoundOK prec rnd (-val z.1) (mpc_neg z prec rnd).1 ∧ RoundOK prec rnd (-val z.2) (mpc_neg z prec rnd).2 ∧
    RoundOK prec rnd (val z.1) (mpc_pos z prec rnd).1 ∧ RoundOK prec rnd (val z.2) (mpc_pos z prec rnd).2 :=
  ⟨mpf_neg_spec hz.1 hp rnd, mpf_neg_spec hz.2 hp rnd, mpf_pos_spec hz.1 hp rnd, mpf_pos_spec hz.2 hp rnd⟩

/-- the real part of `z²` is the correctly rounded `a² − b²` -/
theorem C04_square_re {z : Mpc} (hz : CanonFinC z) {prec : ℤ} (hp : 0 ≤ prec) (rnd : Rnd) :
    RoundOK prec rnd (val z.1 * val z.1 - val z.2 * val z.2) (mpc_square z prec rnd).1 := by
  obtain ⟨k1, v1, _⟩ := mul_exact hz.1 hz.1
  obtain ⟨k2, v2, _⟩ := mul_exact hz.2 hz.2
  have h1 := mpf_sub_spec k1 k2 hp rnd
  rwa [v1, v2] at h1

/-- `z + x` (x real): the real part is correctly rounded; the imaginary part is returned UNCHANGED
(`mpc_add_mpf_im_unrounded`), which is the known finding F3: it can carry more than `prec` bits. -/
theorem C04_add_mpf_partial {z : Mpc} (hz : CanonFinC z) {x : Mpf} (hx : CanonFin x) {prec : ℤ} (hp : 0 ≤ prec)
    (rnd : Rnd) :
    RoundOK prec rnd (val z.1 + val x) (mpc_add_mpf z x prec rnd).1 ∧ (mpc_add_mpf z x prec rnd).2 = z.2 := by
  have h1 := mpf_add_spec hz.1 hx hp rnd false
  simp only [Bool.false_eq_true, if_false] at h1
  exact ⟨h1, rfl⟩

/-- F3 witness: the imaginary part keeps 7 bits at precision 2 -/
theorem C04_add_mpf_counterexample :
    ¬ RoundOK 2 .n (val (⟨0, 0x4f, -1, 7⟩ : Mpf)) (mpc_add_mpf (fone, ⟨0, 0x4f, -1, 7⟩) fone 2 .n).2 := by
  intro h
  have := (h.2.2 (by norm_num)).2
  revert this
  decide

example : CanonFinC ((⟨0, 3, -1, 2⟩, ⟨1, 0x1fffffffffffffffffff, -70, 77⟩) : Mpc) := ⟨by decide, by decide⟩

end Mp
