/-
  Props/C27sumem.lean — C27, the two `sumem` summand classes added for Euler–Maclaurin corrections whose FIRST term
  vanishes (`MpModel/CalcSerX.lean`; harness `props/C27.py`, shapes `sumem_poly` and `sumem_lin`).

  Proved: the reference values the compiled checker compares the real `sumem` against are the mathematical sums:
    * `polySumQ ts a n` is `Σ_{i=0}^{n} p(a+i)` for the real polynomial function `p`;
    * `polyDerivDiffQ ts j a b` is `p^(j)(b) − p^(j)(a)` (the factor of the Euler–Maclaurin correction `B_{j+1}/(j+1)!`;
      the harness uses it to name the class of the input: which odd-order corrections vanish);
    * `linTailRef l s0 a` is the limit of the partial sums of `Σ_{k ≥ a} Σ_j c_j·term_j k`;
    * a verdict of the checker is the statement `|y − S| ≤ 2^(k−p)·|S|` resp. its negation (`C27_checker_ok/violates`).
  Not claimed: anything about the Euler–Maclaurin iteration of `sumem` itself.
-/
import MpProofs.CalcSerX
import MpProofs.CalcDiff

namespace Mp
open Mp.Calc Mp.Encl Filter Topology Finset

/-- finite polynomial sums: the exact rational reference is the sum of the polynomial over `a, a+1, …, a+n` -/
theorem C27_poly_finite_sum (ts : List (ℚ × ℕ)) (a : ℤ) (n : ℕ) :
    ((polySumQ ts a n : ℚ) : ℝ) = ∑ i ∈ range (n + 1), polyFn ts ((a : ℝ) + (i : ℝ)) :=
  polySumQ_eq ts a n

/-- the class label: `polyDerivDiffQ ts j a b` is the difference of the `j`-th derivatives at the end points -/
theorem C27_poly_deriv_diff (ts : List (ℚ × ℕ)) (j : ℕ) (a b : ℚ) :
    ((polyDerivDiffQ ts j a b : ℚ) : ℝ) =
      iteratedDeriv j (polyFn ts) (b : ℝ) - iteratedDeriv j (polyFn ts) (a : ℝ) := by
  unfold polyDerivDiffQ
  rw [Rat.cast_sub, polyQ_cast, polyQ_cast, polyFn_iteratedDeriv]
  rfl

/-- tails of linear combinations of series with closed forms: the partial sums of `Σ_{k ≥ a}` tend to the reference -/
theorem C27_lin_tail_sum (l : List (ℚ × Ser)) (s0 a : ℕ) (r : Ref) (h : linTailRef l s0 a = some r) :
    Tendsto (fun n => ∑ k ∈ range n, linTerm l (a + k)) atTop (𝓝 r.sem) :=
  linTailRef_tendsto l s0 a r h

/-- the term of a linear combination is the combination of the terms -/
theorem C27_lin_term (l : List (ℚ × Ser)) (k : ℕ) :
    linTerm l k = (l.map fun t => (t.1 : ℝ) * t.2.term k).sum := by
  induction l with
  | nil => simp [linTerm_nil]
  | cons t l ih => rw [linTerm_cons, ih]; simp

-- non-vacuity: the quartic of the seeded demonstration and a tail whose first derivative vanishes at the start point
example : polySumQ [(1, 4), (-200, 2)] 0 10 = -51667 := by decide +kernel
example : polyDerivDiffQ [(1, 4), (-200, 2)] 1 0 10 = 0 ∧ polyDerivDiffQ [(1, 4), (-200, 2)] 3 0 10 = 240 := by
  decide +kernel
example : (linTailRef [(1, .zeta2), (-200, .zeta4)] 1 20).isSome = true := by decide +kernel
example : linTailRef [(1, .zeta2), (-200, .zeta4)] 1 1 = none := by decide +kernel

end Mp
