/-
  Props/C08.lean — "Printed numbers round-trip and are nearest decimal approximations".

  Model: MpModel/Str.lean (`to_digits_exp`, `to_str` = digit rounding `roundDigits` + `layoutDigits`,
  `repr_dps`, …). Strings are `List Char`; `decValueL l` is the value of the decimal literal `l`,
  `floatOK l` the model of "Python's `float()` accepts `l`", `strToManExp l 0` mpmath's own parser.
  `natOfDigits` reads a digit string as a natural number, `signVal sg` is `-1` for `"-"` and `1` otherwise.
-/
import MpProofs.StrFmt

namespace Mp

/-- **Digit rounding = arithmetic half-up rounding.** The string surgery of `to_str` (look at digit
number `dps`, propagate the carry through the 9s, on all-9s produce `10…0` and bump the exponent) on a
digit string longer than `dps ≥ 1` yields exactly `dps` digits `out` and a bump `b ∈ {0, 1}` with
`out · 10^b = ⌊(digits + 5·10^(k-1)) / 10^k⌋`, where `k` is the number of dropped digits. -/
theorem round_digits_spec (digits : List Char) (dps : Nat) (hd : Digits digits) (hdps : 1 ≤ dps)
    (hlen : dps < digits.length) :
    Digits (roundDigits digits dps).1 ∧ (roundDigits digits dps).1.length = dps ∧
    ((roundDigits digits dps).2 = 0 ∨ (roundDigits digits dps).2 = 1) ∧
    natOfDigits (roundDigits digits dps).1 * 10 ^ (roundDigits digits dps).2.toNat =
      (natOfDigits digits + 5 * 10 ^ (digits.length - dps - 1)) / 10 ^ (digits.length - dps) :=
  roundDigits_spec hd hdps hlen

example : roundDigits "129996".toList 4 = ("1300".toList, 0) := by decide +kernel
example : roundDigits "999951".toList 4 = ("1000".toList, 1) := by decide +kernel
example : roundDigits "123449".toList 4 = ("1234".toList, 0) := by decide +kernel

/-- **Every printed finite number is a literal, with the intended value.**
Let `to_digits_exp s (dps+3)` return `(sign, digits, exponent)` with more than `dps` digits
(hypothesis `hlen`; the call returns about `dps+6` digits — observed in T1, not proved here).
Then for all formatting options `to_str` returns a string `out` such that
* `out` is accepted by Python's `float()` grammar and by mpmath's own `str_to_man_exp`,
* the value of `out` as a decimal literal, and the value `man·10^exp` the parser assigns to it, are both
  `± R · 10^(exponent + b - dps + 1)`, where `(R, b) = roundDigits digits dps` is the half-up rounded
  digit string (see `round_digits_spec`): fixed and scientific layout, zero padding, stripping of zeros
  and the exponent suffix do not change the value. -/
theorem format_parse (s : Mpf) (dps : Nat) (ln2 ln10 : Mpf) (strip : Bool) (mn mx : Option Bound)
    (showz : Bool) (hman : s.man ≠ 0) (hdps : 1 ≤ dps) (sign digits : List Char) (exponent : Int)
    (h : toDigitsExp s (dps + 3) ln2 ln10 = .ok (sign, digits, exponent))
    (hlen : dps < digits.length) :
    ∃ out, toStr s dps ln2 ln10 strip mn mx showz = .ok out ∧
      floatOK out = true ∧
      decValueL out = some ((signVal sign : ℚ) * (natOfDigits (roundDigits digits dps).1 : ℚ) *
        (10 : ℚ) ^ (exponent + (roundDigits digits dps).2 - dps + 1)) ∧
      ∃ man exp, strToManExp out 0 = .ok (man, exp) ∧
        (man : ℚ) * (10 : ℚ) ^ exp = (signVal sign : ℚ) * (natOfDigits (roundDigits digits dps).1 : ℚ) *
          (10 : ℚ) ^ (exponent + (roundDigits digits dps).2 - dps + 1) := by
  obtain ⟨hsg, hdig⟩ := toDigitsExp_wf h
  obtain ⟨hD, hDlen, -, -⟩ := roundDigits_spec hdig hdps hlen
  obtain ⟨ip, fp, eo, hok, hne, hl, hv⟩ := layoutDigits_value (exponent + (roundDigits digits dps).2)
    strip (mn.getD (.fin (min (-((dps / 3 : Nat) : Int)) (-5)))) (mx.getD (.fin dps)) showz hsg hD hDlen hdps
  refine ⟨_, toStr_finite strip mn mx showz hman (by omega) h, ?_, ?_, ?_⟩
  · rw [hl]; exact floatOK_litL hok
  · rw [hl, decValueL_litL hok, hv]
  · have hdv := decValueL_litL hok
    rw [hv] at hdv
    rw [hl]
    exact strToManExp_value (decValueU_of_decValueL hdv)

example : toDigitsExp ⟨1, 5, -2, 3⟩ (3 + 3) fzero fzero = .ok ("-".toList, "125000000".toList, 0) ∧
    toStr ⟨1, 5, -2, 3⟩ 3 fzero fzero = .ok "-1.25".toList := by decide +kernel

/-- special values print as `+inf`, `-inf`, `nan`; zero as `0.0` (any `dps ≥ 1`, any options) -/
theorem to_str_specials (dps : Nat) (ln2 ln10 : Mpf) (strip : Bool) (mn mx : Option Bound) (showz : Bool) :
    toStr finf dps ln2 ln10 strip mn mx showz = .ok "+inf".toList ∧
    toStr fninf dps ln2 ln10 strip mn mx showz = .ok "-inf".toList ∧
    toStr fnan dps ln2 ln10 strip mn mx showz = .ok "nan".toList ∧
    (1 ≤ dps → toStr fzero dps ln2 ln10 strip mn mx false = .ok "0.0".toList) := by
  have m1 : finf.man = 0 := rfl
  have m2 : fninf.man = 0 := rfl
  have m3 : fnan.man = 0 := rfl
  have m4 : fzero.man = 0 := rfl
  have n1 : finf ≠ fzero := by decide
  have n2 : fninf ≠ fzero := by decide
  have n3 : fninf ≠ finf := by decide
  have n4 : fnan ≠ fzero := by decide
  have n5 : fnan ≠ finf := by decide
  have n6 : fnan ≠ fninf := by decide
  refine ⟨?_, ?_, ?_, ?_⟩
  · unfold toStr; simp only [m1, n1, if_true, if_false]
  · unfold toStr; simp only [m2, n2, n3, if_true, if_false]
  · unfold toStr; simp only [m3, n4, n5, n6, if_true, if_false]
  · intro h
    have hd : dps ≠ 0 := by omega
    unfold toStr
    simp only [m4, hd, if_true, if_false, ne_eq, not_false_eq_true, Bool.false_eq_true]

/-! ### nearest-decimal is false for long mantissas: D5 -/

/-- the 999-bit number next above 0.15 on the grid 2^-1002, as a normalized raw mpf -/
def aboveFifteenHundredths : Mpf := ⟨0, (15 * 2 ^ 1002 / 100 + 1) / 2, -1001, 999⟩

/- Full statement (FALSE of the code): for every finite x and n ≥ 1, `to_str x n` denotes a decimal
   with n significant digits nearest to x. -/

/-- **D5.** `nstr(x, 1)` for the binary number just above 0.15 prints `0.1`, although `0.2` is nearer:
`to_digits_exp` truncates `x` to a fixed-point number with a few guard bits (losing the bit that puts `x`
above the tie) before the digits are rounded. Replayed on the real code. -/
theorem nstr_nearest_counterexample :
    from_man_exp (15 * 2 ^ 1002 / 100 + 1) (-1002) = aboveFifteenHundredths ∧
    toStr aboveFifteenHundredths 1 fzero fzero = .ok "0.1".toList ∧
    decValueL "0.1".toList = some (1 / 10) ∧
    |val aboveFifteenHundredths - 2 / 10| < |val aboveFifteenHundredths - 1 / 10| := by
  refine ⟨by decide +kernel, by decide +kernel, by decide +kernel, ?_⟩
  have hx : (15 : ℚ) / 100 < val aboveFifteenHundredths := by
    have hn : 15 * 2 ^ 1001 < 100 * ((15 * 2 ^ 1002 / 100 + 1) / 2) := by decide +kernel
    have hq : (15 : ℚ) * 2 ^ 1001 < 100 * (((15 * 2 ^ 1002 / 100 + 1) / 2 : ℕ) : ℚ) := by exact_mod_cast hn
    unfold val aboveFifteenHundredths
    simp only [pow_zero, one_mul]
    rw [show ((-1001 : ℤ)) = -((1001 : ℕ) : ℤ) by norm_num, zpow_neg, zpow_natCast,
      ← div_eq_mul_inv, lt_div_iff₀ (by positivity)]
    linarith
  rw [abs_of_pos (by linarith : (0 : ℚ) < val aboveFifteenHundredths - 1 / 10), abs_lt]
  constructor <;> linarith

/-! ### repr round trip: digit count -/

/-- the Boolean form of the digit-count condition at precision `p` -/
def reprOKb (p : Nat) : Bool := decide (2 ^ p < 10 ^ (repr_dps p - 1))

/-- the condition holds on `[1, 20000]`: one kernel evaluation of a halving Bool fold (about 2 minutes) -/
theorem reprDpsOK_fold : allRange reprOKb 15 1 20000 = true := by decide +kernel

/-- **`reprDpsOK`.** For every precision `1 ≤ p ≤ 20000` the number of digits used by `repr` satisfies
`10^(repr_dps p - 1) > 2^p` — the Matula/Goldberg condition under which printing a `p`-bit binary number
to that many correctly rounded digits and converting back with correct rounding is the identity.
(`repr_dps` contains float arithmetic, modelled by the binary64 model validated against CPython.)
Before the repair c03e100 this was false at exactly `p = 54` (`repr_dps 54` was 17 and `10^16 < 2^54`;
witness `x = -11537171455164529·2^249`, whose 17-digit print `-1.0436821770958033e+91` converts back to
a different number). -/
theorem reprDpsOK : ∀ p, 1 ≤ p → p ≤ 20000 → 2 ^ p < 10 ^ (repr_dps p - 1) := by
  intro p h1 h2
  have h3 : p < 1 + 20000 := by omega
  exact of_decide_eq_true (allRange_sound reprOKb 15 1 20000 reprDpsOK_fold p h1 h3)

/-- the pre-repair witness now round-trips: 18 digits at 54 bits -/
example : repr_dps 54 = 18 ∧
    toStr ⟨1, 11537171455164529, 249, 54⟩ (repr_dps 54) fzero fzero =
      .ok "-1.04368217709580335e+91".toList ∧
    fromStr "-1.04368217709580335e+91".toList 54 .n = .ok ⟨1, 11537171455164529, 249, 54⟩ := by
  decide +kernel

/-- what the old digit count did (17 digits at 54 bits): the print converts back to another number -/
example : toStr ⟨1, 11537171455164529, 249, 54⟩ 17 fzero fzero = .ok "-1.0436821770958033e+91".toList ∧
    fromStr "-1.0436821770958033e+91".toList 54 .n = .ok ⟨1, 721073215947783, 253, 50⟩ ∧
    ¬ (2 ^ 54 < 10 ^ (17 - 1)) := by decide +kernel

end Mp
