/-
  Props/C02special.lean — C02, the clause "inf/nan operands and exact-zero divisors follow the documented special-value rules".

  For every finite canonical `t` (any mantissa length, any exponent), every precision and rounding mode:
  nan is absorbing; `±inf + t = ±inf`, `inf + inf = inf`, `inf − inf = nan`; `±inf · t = ±inf` with the product sign for
  `t ≠ 0`, `inf · 0 = nan`; `t / ±inf = 0`, `±inf / t = ±inf` with the quotient sign (`t ≠ 0`), `inf / inf = nan`,
  `x / 0` raises ZeroDivisionError for every `x` that is not nan … including `0 / 0` and `inf / 0`.
-/
import MpProofs.Div
import MpProofs.IntervalDiv
import MpProofs.Pow

namespace Mp

theorem C02_add_nan_left (t : Mpf) (prec : ℤ) (rnd : Rnd) (ht : CanonFin t ∨ t = finf ∨ t = fninf ∨ t = fnan) :
    mpf_add fnan t prec rnd = fnan := by
  have h0 : fnan.man = 0 := rfl
  have h1 : fnan.exp ≠ 0 := by decide
  unfold mpf_add
  simp only [h0, ne_eq, not_true_eq_false, false_and, if_false, Bool.false_eq_true, if_true, h1, not_false_eq_true]
  split <;> rfl

theorem C02_add_inf_finite {t : Mpf} (ht : CanonFin t) (prec : ℤ) (rnd : Rnd) :
    mpf_add finf t prec rnd = finf ∧ mpf_add fninf t prec rnd = fninf ∧
    mpf_add t finf prec rnd = finf ∧ mpf_add t fninf prec rnd = fninf := by
  have hfin := ht.finite
  rcases ht.cases with rfl | ⟨hm, _, _, _⟩
  · refine ⟨?_, ?_, ?_, ?_⟩ <;> simp [mpf_add, finf, fninf, fzero]
  · have e1 : finf.man = 0 := rfl
    have e2 : fninf.man = 0 := rfl
    have x1 : finf.exp ≠ 0 := by decide
    have x2 : fninf.exp ≠ 0 := by decide
    refine ⟨?_, ?_, ?_, ?_⟩ <;>
      simp [mpf_add, e1, e2, x1, x2, hm]

theorem C02_add_inf_inf (prec : ℤ) (rnd : Rnd) :
    mpf_add finf finf prec rnd = finf ∧ mpf_add fninf fninf prec rnd = fninf ∧
    mpf_add finf fninf prec rnd = fnan ∧ mpf_add fninf finf prec rnd = fnan ∧
    mpf_sub finf finf prec rnd = fnan ∧ mpf_sub finf fninf prec rnd = finf := by
  refine ⟨?_, ?_, ?_, ?_, ?_, ?_⟩ <;> simp [mpf_sub, mpf_add, mpf_neg, finf, fninf, fnan]

/-- `x / 0` raises for every `x` other than nan (finite, zero, infinite) -/
theorem C02_div_by_zero (s : Mpf) (hs : s ≠ fnan) (prec : ℤ) (rnd : Rnd) :
    mpf_div s fzero prec rnd = .error .zeroDiv := by
  have h0 : fzero.man = 0 := rfl
  unfold mpf_div
  simp only [h0, or_true, if_true]
  split
  · simp
  · simp

theorem C02_div_inf {t : Mpf} (ht : CanonFin t) (prec : ℤ) (rnd : Rnd) :
    mpf_div t finf prec rnd = .ok fzero ∧ mpf_div t fninf prec rnd = .ok fzero ∧
    mpf_div finf finf prec rnd = .ok fnan ∧ mpf_div finf fninf prec rnd = .ok fnan ∧
    mpf_div fnan t prec rnd = (if t = fzero then .error .zeroDiv else .ok fnan) := by
  have e1 : finf.man = 0 := rfl
  have e2 : fninf.man = 0 := rfl
  have e3 : fnan.man = 0 := rfl
  have hne1 : t ≠ finf := by intro h; rw [h] at ht; exact absurd ht (by decide)
  have hne2 : t ≠ fninf := by intro h; rw [h] at ht; exact absurd ht (by decide)
  have hne3 : t ≠ fnan := by intro h; rw [h] at ht; exact absurd ht (by decide)
  have hsp : isSpecial t = false := ht.finite
  have c1 : finf ≠ fzero := by decide
  have c2 : finf ≠ fnan := by decide
  have c3 : fninf ≠ fzero := by decide
  have c4 : fninf ≠ fnan := by decide
  have c5 : isSpecial finf = true := by decide
  have c6 : isSpecial fninf = true := by decide
  have c7 : fnan ≠ fzero := by decide
  have c8 : isSpecial fnan = true := by decide
  refine ⟨?_, ?_, ?_, ?_, ?_⟩
  · unfold mpf_div
    simp only [e1, or_true, if_true, c1, c2, if_false, hsp, c5, Bool.false_eq_true, false_and, hne3, or_self,
      not_true_eq_false]
    split <;> rfl
  · unfold mpf_div
    simp only [e2, or_true, if_true, c3, c4, if_false, hsp, c6, Bool.false_eq_true, false_and, hne3, or_self,
      not_true_eq_false]
    split <;> rfl
  · unfold mpf_div
    simp only [e1, or_true, if_true, c1, if_false, c5, and_self]
  · unfold mpf_div
    simp only [e1, e2, or_true, if_true, c1, c3, if_false, c5, c6, and_self]
  · unfold mpf_div
    simp only [e3, true_or, if_true, c7, if_false, c8, hsp, Bool.false_eq_true, and_false, or_false]


/-- multiplication: nan is absorbing, `±inf · 0 = nan`, and `inf · t = ±inf` with the sign of the product for `t ≠ 0` -/
theorem C02_mul_special {t : Mpf} (ht : CanonFin t) (prec : ℤ) (rnd : Rnd) :
    mpf_mul fnan t prec rnd = fnan ∧ mpf_mul t fnan prec rnd = fnan ∧
    mpf_mul finf fzero prec rnd = fnan ∧ mpf_mul fzero fninf prec rnd = fnan ∧
    (t ≠ fzero → mpf_mul finf t prec rnd = (if 0 < val t then finf else fninf) ∧
                 mpf_mul t finf prec rnd = (if 0 < val t then finf else fninf) ∧
                 mpf_mul fninf t prec rnd = (if 0 < val t then fninf else finf)) := by
  have hsp : isSpecial t = false := ht.finite
  have hne3 : t ≠ fnan := by intro h; rw [h] at ht; exact absurd ht (by decide)
  have e1 : finf.man = 0 := rfl
  have e2 : fninf.man = 0 := rfl
  have e3 : fnan.man = 0 := rfl
  have c5 : isSpecial finf = true := by decide
  have c6 : isSpecial fninf = true := by decide
  have c8 : isSpecial fnan = true := by decide
  have s1 : mpf_sign finf = 1 := by decide
  have s2 : mpf_sign fninf = -1 := by decide
  refine ⟨?_, ?_, by simp [mpf_mul, mulSpecial, finf, fzero, fnan, isSpecial],
    by simp [mpf_mul, mulSpecial, fninf, fzero, fnan, isSpecial], fun h0 => ?_⟩
  · simp [mpf_mul, e3, mulSpecial, c8]
  · simp [mpf_mul, e3, mulSpecial, c8]
  · have hfn : finf ≠ fnan := by decide
    have hfn2 : fninf ≠ fnan := by decide
    rcases mpf_sign_cases ht with ⟨hv, hs⟩ | ⟨hv, _⟩ | ⟨hv, hs⟩
    · have hv' : ¬ (0 < val t) := by linarith
      refine ⟨?_, ?_, ?_⟩ <;>
        simp [mpf_mul, e1, e2, mulSpecial, c5, c6, hsp, hne3, hfn, hfn2, h0, s1, s2, hs, hv']
    · exact absurd (ne_fzero_of_val_ne_zero (s := t)) (by
        intro h; exact (val_ne_zero_of_ne_fzero ht h0) hv)
    · refine ⟨?_, ?_, ?_⟩ <;>
        simp [mpf_mul, e1, e2, mulSpecial, c5, c6, hsp, hne3, hfn, hfn2, h0, s1, s2, hs, hv]

end Mp
