/-
  Props/C13sqrt.lean — C13, exact cases of the square root: whenever the real square root of the argument is itself
  representable with `prec` bits (perfect squares, even powers of two, …) `mpf_sqrt` returns exactly that value, in every
  rounding mode.  Corollary of `mpf_sqrt_spec` (the result is THE rounding of the real root) and of uniqueness.
-/
import MpProofs.Sqrt

namespace Mp

theorem C13_sqrt_exact {s : Mpf} (hs : CanonFin s) (hsign : s.sign = 0) {prec : ℤ} (hp : 0 < prec) (rnd : Rnd)
    (hrep : Repb prec.toNat (Real.sqrt (valK ℝ s))) :
    ∃ r, mpf_sqrt s prec rnd = .ok r ∧ valK ℝ r = Real.sqrt (valK ℝ s) := by
  obtain ⟨r, hr, _, _, hround⟩ := mpf_sqrt_spec hs hsign hp rnd
  exact ⟨r, hr, isRound_unique hround (isRound_self rnd hrep)⟩

/-- in particular for a perfect square `y²` of a representable `y ≥ 0` -/
theorem C13_sqrt_of_square {s : Mpf} (hs : CanonFin s) (hsign : s.sign = 0) {prec : ℤ} (hp : 0 < prec) (rnd : Rnd)
    {y : ℝ} (hy0 : 0 ≤ y) (hy : Repb prec.toNat y) (hsq : valK ℝ s = y ^ 2) :
    ∃ r, mpf_sqrt s prec rnd = .ok r ∧ valK ℝ r = y := by
  have hroot : Real.sqrt (valK ℝ s) = y := by rw [hsq, Real.sqrt_sq hy0]
  obtain ⟨r, hr, hv⟩ := C13_sqrt_exact hs hsign hp rnd (by rw [hroot]; exact hy)
  exact ⟨r, hr, by rw [hv, hroot]⟩

end Mp
