/-
  Props/C10.lean — C10: rounded operations never return more bits than the working precision
  (core operations; the wrapper layer is covered by the API sweep of the check).
-/
import MpProofs.Div

namespace Mp

theorem C10_bc_of_roundOK {prec : ℤ} (hp : 0 < prec) {rnd : Rnd} {x : ℚ} {r : Mpf} (h : RoundOK prec rnd x r) :
    r.bc ≤ prec ∧ (bitcount r.man : ℤ) ≤ prec := by
  have h2 := (h.2.2 hp).2
  refine ⟨h2, ?_⟩
  rcases h.1 with h0 | ⟨_, _, hb⟩
  · rw [h0]; simp [fzero]; omega
  · rw [← hb]; exact h2

theorem C10_add {s t : Mpf} (hs : CanonFin s) (ht : CanonFin t) {prec : ℤ} (hp : 0 < prec) (rnd : Rnd)
    (sub : Bool) : (bitcount (mpf_add s t prec rnd sub).man : ℤ) ≤ prec :=
  (C10_bc_of_roundOK hp (mpf_add_spec hs ht hp.le rnd sub)).2

theorem C10_mul {s t : Mpf} (hs : CanonFin s) (ht : CanonFin t) {prec : ℤ} (hp : 0 < prec) (rnd : Rnd) :
    (bitcount (mpf_mul s t prec rnd).man : ℤ) ≤ prec :=
  (C10_bc_of_roundOK hp (mpf_mul_spec hs ht hp.le rnd)).2

theorem C10_div {s t : Mpf} (hs : CanonFin s) (ht : CanonFin t) (ht0 : t ≠ fzero) {prec : ℤ} (hp : 0 < prec)
    (rnd : Rnd) : ∃ r, mpf_div s t prec rnd = .ok r ∧ (bitcount r.man : ℤ) ≤ prec := by
  obtain ⟨r, h1, h2⟩ := mpf_div_spec hs ht ht0 hp rnd
  exact ⟨r, h1, (C10_bc_of_roundOK hp h2).2⟩

theorem C10_pos_neg_abs {s : Mpf} (hs : CanonFin s) {prec : ℤ} (hp : 0 < prec) (rnd : Rnd) :
    (bitcount (mpf_pos s prec rnd).man : ℤ) ≤ prec ∧ (bitcount (mpf_neg s prec rnd).man : ℤ) ≤ prec ∧
    (bitcount (mpf_abs s prec rnd).man : ℤ) ≤ prec :=
  ⟨(C10_bc_of_roundOK hp (mpf_pos_spec hs hp.le rnd)).2, (C10_bc_of_roundOK hp (mpf_neg_spec hs hp.le rnd)).2,
   (C10_bc_of_roundOK hp (mpf_abs_spec hs hp.le rnd)).2⟩

end Mp
