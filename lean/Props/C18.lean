/-
  Props/C18.lean — C18 (gamma-family accuracy), PARTIAL: decided on the closed-form sub-family.
  Level: translation validation with a PROVED validator and PROVED reference values.

  What is proved here.
  (1) The decider run by the driver (ops `spec`, `specc`) is rigorous: a verdict `ok` / `violates` of
      `Mp.SpecRef.specCheck r y p k` is a theorem about the exact real number `⟦r⟧ = r.sem` denoted by the
      reference expression `r` (`C18_validator_*`).
  (2) For every family of the sub-family, the reference expression computed from the ARGUMENTS of the mpmath
      function denotes the mathematical function value as defined in Mathlib:
      `Real.Gamma` at integers and half-integers (both signs), its reciprocal (exactly 0 at the poles — Mathlib's
      `Real.Gamma` is 0 there, so `(Real.Gamma x)⁻¹ = 0`), `Real.log (Real.Gamma x)`, `Real.Gamma (x+1)`,
      `Nat.doubleFactorial`, `descPochhammer`/`ascPochhammer` (ff, rf, binomial; `Nat.choose` at naturals),
      products/quotients of `Real.Gamma` (gammaprod, beta), Mathlib's `harmonic`, `Nat.superFactorial`.
      `hyperfac` and `barnesg` have no Mathlib definition: their references are the integer products
      `Π k^k` and `Π k!` (DEFINITIONS of the functions at integers, marked below).
  (3) The decision logic: `gamma` has a pole at `h/2` ⇔ `gammaRef h = .pole` ⇔ `Real.Gamma (h/2) = 0`;
      `gammaprod`'s pole counting (`gammaprod_poles_spec`).
  NOT decided (counted as `outside` by the harness): generic real/complex arguments, arguments near poles or near
  the minimum of Γ, digamma/polygamma (ψ(1) = −γ needs Euler's constant; Mathlib has no polygamma), `gammaprod` with
  equally many cancelling poles (a limit with no Mathlib statement) except through `rf`/`ff`/`binomial`.
-/
import MpProofs.SpecRefGamma

namespace Mp
open Mp.Encl Mp.SpecRef
open scoped Nat

/-! ### (1) the validator -/

/-- verdict `ok` ⇒ `|y − ⟦r⟧| ≤ 2^(k−p)·|⟦r⟧|` for the exact real value of the reference -/
theorem C18_validator_ok (r : SExpr) (y : Dy) (p k : ℕ) (h : specCheck r y p k = .ok) :
    |y.val - r.sem| ≤ (2 : ℝ) ^ ((k : ℤ) - (p : ℤ)) * |r.sem| :=
  specCheck_sound_ok r y p k h

/-- verdict `violates` ⇒ the inequality fails -/
theorem C18_validator_violates (r : SExpr) (y : Dy) (p k : ℕ) (h : specCheck r y p k = .violates) :
    (2 : ℝ) ^ ((k : ℤ) - (p : ℤ)) * |r.sem| < |y.val - r.sem| :=
  specCheck_sound_violates r y p k h

/-- the strict form of the property text ("relative error below 2^(8−p)"): run the checker with `k = 7`;
and where the reference is 0 (rgamma at poles, barnesg at n ≤ 0, beta with a pole in the denominator) `ok` means
the output is EXACTLY 0 -/
theorem C18_validator_strict (r : SExpr) (y : Dy) (p : ℕ) (h : specCheck r y p 7 = .ok) :
    (r.sem ≠ 0 → |y.val - r.sem| < (2 : ℝ) ^ ((8 : ℤ) - (p : ℤ)) * |r.sem|) ∧
    (r.sem = 0 → y.val = 0) :=
  ⟨fun h0 => by simpa using specCheck_ok_strict r y p 7 h h0, specCheck_ok_zero r y p 7 h⟩

/-- complex-typed output `yre + i·yim` against a real reference value, error in modulus -/
theorem C18_validator_complex_ok (r : SExpr) (yre yim : Dy) (p k : ℕ) (h : specCheckC r yre yim p k = .ok) :
    ‖(⟨yre.val, yim.val⟩ : ℂ) - (r.sem : ℂ)‖ ≤ (2 : ℝ) ^ ((k : ℤ) - (p : ℤ)) * |r.sem| :=
  specCheckC_sound_ok r yre yim p k h

theorem C18_validator_complex_violates (r : SExpr) (yre yim : Dy) (p k : ℕ)
    (h : specCheckC r yre yim p k = .violates) :
    (2 : ℝ) ^ ((k : ℤ) - (p : ℤ)) * |r.sem| < ‖(⟨yre.val, yim.val⟩ : ℂ) - (r.sem : ℂ)‖ :=
  specCheckC_sound_violates r yre yim p k h

/-- a verdict is produced only when all side conditions of the reference hold (no zero denominators, logs of
positive numbers) -/
theorem C18_validator_dom (r : SExpr) (y : Dy) (p k : ℕ) (h : specCheck r y p k ≠ .undecided) : r.Dom :=
  specCheck_dom r y p k h

/-! ### (2) reference values = Mathlib's functions -/

/-- `gamma(h/2)` for every integer `h`: the reference is `Real.Gamma (h/2)`
(from `Real.Gamma_nat_eq_factorial`, `Real.Gamma_one_half_eq`, `Real.Gamma_add_one`) -/
theorem C18_gamma_ref (h : ℤ) (e : SExpr) (he : gammaRef h = .val e) :
    e.sem = Real.Gamma ((h : ℝ) / 2) := by
  unfold gammaRef at he
  cases hg : gammaQ h with
  | none => rw [hg] at he; simp at he
  | some g =>
    rw [hg] at he
    simp only [Ref.val.injEq] at he; subst he
    rw [GVal.toExpr_sem, (gammaQ_spec h g hg).1]

/-- **`gamma` raises exactly at the poles**: the reference says `pole` ⇔ `h/2 ∈ {0, −1, −2, …}` ⇔ Mathlib's `Real.Gamma (h/2) = 0` -/
theorem C18_gamma_pole_iff (h : ℤ) :
    (gammaRef h = .pole ↔ Real.Gamma ((h : ℝ) / 2) = 0) ∧
    (gammaRef h = .pole ↔ ∃ m : ℕ, (h : ℝ) / 2 = -(m : ℝ)) := by
  have key : gammaRef h = .pole ↔ gammaQ h = none := by
    unfold gammaRef
    cases gammaQ h <;> simp
  exact ⟨key.trans (gammaQ_none_iff_Gamma_zero h),
    key.trans ((gammaQ_none_iff h).trans (isPoleH_iff h))⟩

/-- `rgamma(h/2)`: the reference is `(Real.Gamma (h/2))⁻¹` for EVERY integer `h` (at the poles this is 0) -/
theorem C18_rgamma_ref (h : ℤ) : ∃ e, rgammaRef h = .val e ∧ e.sem = (Real.Gamma ((h : ℝ) / 2))⁻¹ := by
  unfold rgammaRef
  cases hg : gammaQ h with
  | none =>
    refine ⟨_, rfl, ?_⟩
    rw [(gammaQ_none_iff_Gamma_zero h).1 hg]; simp [SExpr.sem]
  | some g =>
    refine ⟨_, rfl, ?_⟩
    rw [GVal.toExpr_sem, GVal.inv_sem, (gammaQ_spec h g hg).1]

/-- **`rgamma` is exactly zero at the poles**: there the reference expression is the rational `0/1`, so
`specCheck … = ok` forces the output to be exactly 0 (`C18_validator_strict`) -/
theorem C18_rgamma_pole_zero (h : ℤ) (hp : Real.Gamma ((h : ℝ) / 2) = 0) :
    rgammaRef h = .val (.rat 0 1) ∧ (SExpr.rat 0 1).sem = 0 := by
  unfold rgammaRef
  rw [(gammaQ_none_iff_Gamma_zero h).2 hp]
  simp [SExpr.sem]

/-- `loggamma(h/2) = log Γ(h/2)`, decided only for positive `h` -/
theorem C18_loggamma_ref (h : ℤ) (e : SExpr) (he : loggammaRef h = .val e) :
    0 < h ∧ e.sem = Real.log (Real.Gamma ((h : ℝ) / 2)) := by
  unfold loggammaRef at he
  split at he
  · rename_i hpos
    cases hg : gammaQ h with
    | none => rw [hg] at he; simp at he
    | some g =>
      rw [hg] at he
      simp only [Ref.val.injEq] at he; subst he
      refine ⟨hpos, ?_⟩
      simp only [SExpr.sem]
      rw [GVal.toExpr_sem, (gammaQ_spec h g hg).1]
  · split at he <;> simp at he

/-- `factorial(h/2) = Γ(h/2 + 1)` -/
theorem C18_factorial_ref (h : ℤ) (e : SExpr) (he : factorialRef h = .val e) :
    e.sem = Real.Gamma ((h : ℝ) / 2 + 1) := by
  have := C18_gamma_ref (h + 2) e he
  rw [this]; congr 1; push_cast; ring

/-- `fac2(n) = n‼` (`Nat.doubleFactorial`) for natural `n` -/
theorem C18_fac2_ref (n : ℤ) (e : SExpr) (he : fac2Ref n = .val e) :
    ∃ k : ℕ, n = k ∧ e.sem = ((k‼ : ℕ) : ℝ) := by
  unfold fac2Ref at he
  split at he
  · rename_i h0
    simp only [Ref.val.injEq] at he; subst he
    refine ⟨n.toNat, by omega, ?_⟩
    simp [SExpr.sem, dfact_eq]
  · simp at he

/-- `binomial(x, k) = x(x−1)…(x−k+1)/k!` for rational `x` and natural `k` (`descPochhammer`) -/
theorem C18_binomial_ref (x : ℚ) (k : ℤ) (e : SExpr) (he : binomialRef x k = .val e) :
    ∃ j : ℕ, k = j ∧ e.sem = (((descPochhammer ℚ j).eval x / (j ! : ℚ) : ℚ) : ℝ) := by
  unfold binomialRef at he
  split at he
  · rename_i h0
    simp only [Ref.ofRat, Ref.val.injEq] at he; subst he
    refine ⟨k.toNat, by omega, ?_⟩
    rw [ratE_sem, ffQ_eq, factN_eq]
  · simp at he

/-- at natural `n` this is `Nat.choose n k` -/
theorem C18_binomial_nat (n j : ℕ) (e : SExpr) (he : binomialRef (n : ℚ) (j : ℤ) = .val e) :
    e.sem = ((n.choose j : ℕ) : ℝ) := by
  obtain ⟨j', hj, h⟩ := C18_binomial_ref _ _ e he
  have : j' = j := by exact_mod_cast hj.symm
  subst this
  rw [h, ← Nat.cast_choose_eq_descPochhammer_div ℚ n j']
  push_cast; rfl

/-- `rf(x, n)` = rising factorial (`ascPochhammer`) -/
theorem C18_rf_ref (x : ℚ) (n : ℤ) (e : SExpr) (he : rfRef x n = .val e) :
    ∃ j : ℕ, n = j ∧ e.sem = (((ascPochhammer ℚ j).eval x : ℚ) : ℝ) := by
  unfold rfRef at he
  split at he
  · simp only [Ref.ofRat, Ref.val.injEq] at he; subst he
    exact ⟨n.toNat, by omega, by rw [ratE_sem, rfQ_eq]⟩
  · simp at he

/-- `ff(x, n)` = falling factorial (`descPochhammer`) -/
theorem C18_ff_ref (x : ℚ) (n : ℤ) (e : SExpr) (he : ffRef x n = .val e) :
    ∃ j : ℕ, n = j ∧ e.sem = (((descPochhammer ℚ j).eval x : ℚ) : ℝ) := by
  unfold ffRef at he
  split at he
  · simp only [Ref.ofRat, Ref.val.injEq] at he; subst he
    exact ⟨n.toNat, by omega, by rw [ratE_sem, ffQ_eq]⟩
  · simp at he

/-- `gammaprod(as, bs)` at integer/half-integer arguments: whenever the reference is a value it equals
`Π Γ(a) / Π Γ(b)` with Mathlib's `Real.Gamma` — a value is produced only when the numerator has no pole and the
denominator none either (plain quotient), or when the denominator has MORE poles than the numerator (the value 0;
Mathlib's convention `Γ(pole) = 0`, `x/0 = 0` gives 0 as well) -/
theorem C18_gammaprod_ref (as bs : List ℤ) (e : SExpr) (he : gammaprodRef as bs = .val e) :
    e.sem = (as.map (fun h : ℤ => Real.Gamma ((h : ℝ) / 2))).prod /
            (bs.map (fun h : ℤ => Real.Gamma ((h : ℝ) / 2))).prod := by
  unfold gammaprodRef at he
  cases hd : gammaprodDecide as bs with
  | zero =>
    rw [hd] at he
    simp only [Ref.val.injEq] at he; subst he
    unfold gammaprodDecide at hd
    simp only at hd
    split at hd
    · rename_i hlt
      rw [prod_Gamma_eq_zero_of_pole bs (by omega)]
      simp [SExpr.sem]
    · split at hd <;> simp at hd
  | inf => rw [hd] at he; simp at he
  | finite =>
    rw [hd] at he
    simp only at he
    split at he
    · rename_i hz
      simp only [Ref.val.injEq] at he; subst he
      unfold gammaprodDecide at hd
      simp only at hd
      have hz2 : (bs.filter isPoleH).length = 0 := by
        split at hd
        · simp at hd
        · split at hd
          · simp at hd
          · omega
      have ha : ∀ h ∈ as, isPoleH h = false := by
        intro h hh
        by_contra hc
        have : h ∈ as.filter isPoleH := List.mem_filter.2 ⟨hh, by simpa using hc⟩
        rw [List.length_eq_zero_iff.1 hz] at this
        simp at this
      have hb : ∀ h ∈ bs, isPoleH h = false := by
        intro h hh
        by_contra hc
        have : h ∈ bs.filter isPoleH := List.mem_filter.2 ⟨hh, by simpa using hc⟩
        rw [List.length_eq_zero_iff.1 hz2] at this
        simp at this
      rw [GVal.toExpr_sem, GVal.mul_sem, GVal.inv_sem, gammaProdRegular_sem as ha,
        gammaProdRegular_sem bs hb, div_eq_mul_inv]
    · simp at he

/-- `beta(x, y) = Γ(x)Γ(y)/Γ(x+y)` at integer/half-integer `x = h1/2`, `y = h2/2` -/
theorem C18_beta_ref (h1 h2 : ℤ) (e : SExpr) (he : betaRef h1 h2 = .val e) :
    e.sem = Real.Gamma ((h1 : ℝ) / 2) * Real.Gamma ((h2 : ℝ) / 2) / Real.Gamma ((h1 : ℝ) / 2 + (h2 : ℝ) / 2) := by
  have := C18_gammaprod_ref [h1, h2] [h1 + h2] e he
  rw [this]
  simp only [List.map_cons, List.map_nil, List.prod_cons, List.prod_nil, mul_one]
  congr 2; push_cast; ring

/-- `harmonic(n)` = Mathlib's `harmonic n = Σ_{i<n} 1/(i+1)` -/
theorem C18_harmonic_ref (n : ℤ) (e : SExpr) (he : harmonicRef n = .val e) :
    ∃ k : ℕ, n = k ∧ e.sem = ((harmonic k : ℚ) : ℝ) := by
  unfold harmonicRef at he
  split at he
  · simp only [Ref.val.injEq] at he; subst he
    refine ⟨n.toNat, by omega, ?_⟩
    obtain ⟨h1, h2⟩ := harmPQ_harmonic 24 n.toNat
    rw [← h2]
    simp [SExpr.sem]
  · simp at he

/-- `superfac(n) = Π_{k≤n} k!` = Mathlib's `Nat.superFactorial n` -/
theorem C18_superfac_ref (n : ℤ) (e : SExpr) (he : superfacRef n = .val e) :
    ∃ k : ℕ, n = k ∧ e.sem = ((Nat.superFactorial k : ℕ) : ℝ) := by
  unfold superfacRef at he
  split at he
  · simp only [Ref.val.injEq] at he; subst he
    exact ⟨n.toNat, by omega, by simp [SExpr.sem, superfacN_eq]⟩
  · simp at he

/-- `hyperfac(n)`: the reference is the integer `Π_{k=1}^{n} k^k`
(DEFINITION of the hyperfactorial at naturals; Mathlib has no hyperfactorial function) -/
theorem C18_hyperfac_ref (n : ℤ) (e : SExpr) (he : hyperfacRef n = .val e) :
    ∃ k : ℕ, n = k ∧ e.sem = ((∏ i ∈ Finset.range k, (i + 1) ^ (i + 1) : ℕ) : ℝ) := by
  unfold hyperfacRef at he
  split at he
  · simp only [Ref.val.injEq] at he; subst he
    exact ⟨n.toNat, by omega, by simp [SExpr.sem, hyperfacN_eq]⟩
  · simp at he

/-- `barnesg(n)`: the reference is `Π_{k=1}^{n−2} k!` = `Nat.superFactorial (n−2)` for integers `n ≥ 1` and `0` for
`n ≤ 0` (DEFINITION of the Barnes G-function at integers, `G(n) = Π_{k<n−1} k!`; Mathlib has no Barnes G) -/
theorem C18_barnesg_ref (n : ℤ) :
    (n ≤ 0 → barnesgRef n = .val (.rat 0 1)) ∧
    (0 < n → ∃ e, barnesgRef n = .val e ∧ e.sem = ((Nat.superFactorial (n - 2).toNat : ℕ) : ℝ)) := by
  unfold barnesgRef
  constructor
  · intro h; rw [if_pos h]
  · intro h; rw [if_neg (by omega)]
    exact ⟨_, rfl, by simp [SExpr.sem, superfacN_eq]⟩

/-! ### (3) decision logic of `gammaprod` -/

/-- `gammaprod`'s pole counting: an argument `h/2` is counted as a pole exactly when Mathlib's `Real.Gamma (h/2) = 0`
(i.e. `h/2 ∈ {0, −1, −2, …}`), and the outcome is `0` / `∞` / finite according to whether the numerator has
fewer / more / equally many poles than the denominator -/
theorem gammaprod_poles_spec (as bs : List ℤ) :
    (∀ h : ℤ, isPoleH h = true ↔ Real.Gamma ((h : ℝ) / 2) = 0) ∧
    (gammaprodDecide as bs = .zero ↔ (as.filter isPoleH).length < (bs.filter isPoleH).length) ∧
    (gammaprodDecide as bs = .inf ↔ (bs.filter isPoleH).length < (as.filter isPoleH).length) ∧
    (gammaprodDecide as bs = .finite ↔ (as.filter isPoleH).length = (bs.filter isPoleH).length) := by
  refine ⟨fun h => ((gammaQ_none_iff h).symm.trans (gammaQ_none_iff_Gamma_zero h)), ?_, ?_, ?_⟩ <;>
  · unfold gammaprodDecide
    simp only
    split
    · simp; omega
    · split <;> simp <;> omega

/-! ### non-vacuity: concrete evaluations -/

example : gammaRef 0 = .pole := by decide +kernel
example : ∃ e, gammaRef 7 = .val e := ⟨_, rfl⟩
example : gammaprodDecide [-2, 3] [-4, 0] = .zero := by decide +kernel
example : gammaprodDecide [-2, 3] [5] = .inf := by decide +kernel
example : gammaprodDecide [-2, 3] [-6] = .finite := by decide +kernel
-- Γ(7/2) = 15√π/8 = 3.32335097…: accepted at 24 bits, and 3.5 is rejected
example : (match gammaRef 7 with | .val e => specCheck e ⟨13939190, -22⟩ 24 7 | _ => .undecided) = .ok := by
  decide +kernel
example : (match gammaRef 7 with | .val e => specCheck e ⟨7, -1⟩ 24 7 | _ => .undecided) = .violates := by
  decide +kernel

end Mp
