/-
  Props/C19b.lean — C19 (zeta family), second decided class: `zeta(n)`, `altzeta(n)` at EVERY integer `n ≥ 2`
  (odd ones included) for which the defining series can be summed directly, i.e. `n` proportional to the precision —
  the class at which `mpf_zeta_int` switches between its shortcuts (`1 + 2^-s + 3^-s + 4^-s`), the Euler product and
  Borwein's algorithm.

  Reference: `Σ_{k≤N} k^(−s) ≤ ζ(s) ≤ Σ_{k≤N} k^(−s) + N^(1−s)` in outward-rounded dyadic arithmetic (`Mp.SpecRef.zetaEncl`).
  (1) `C19_zetasum_validator`: a verdict of `encCheck (zetaEncl s)` is a theorem about `Σ_{n≥0} 1/(n+1)^s`;
  (2) `C19_zetasum_value`: that series converges and its sum is Mathlib's `riemannZeta s`;
  (3) `C19_altzetasum_validator`: the same for `(1 − 2^(1−s))·ζ(s)` (the DEFINITION of `altzeta` used in `Props/C19.lean`).
  Nothing is assumed about mpmath's algorithms; the tail bound is proved from `1/(k+1)^s ≤ 1/k^(s−1) − 1/(k+1)^(s−1)`.
-/
import MpProofs.SpecRef2

namespace Mp
open Mp.Encl Mp.SpecRef

/-- `ζ(s)` as the sum of its defining series (the value is Mathlib's `riemannZeta s`: `C19_zetasum_value`) -/
noncomputable def zetaSeries (s : ℕ) : ℝ := ∑' n : ℕ, 1 / ((n : ℝ) + 1) ^ s

theorem zetaEncl_encloses (s : ℕ) : Encloses (zetaEncl s) (zetaSeries s) :=
  fun wp F h => (zetaEncl_sound s wp F h).2.2

/-- verdict `ok` ⇒ `|y − ζ(s)| ≤ 2^(k−p)·ζ(s)`; verdict `violates` ⇒ the inequality fails; any verdict ⇒ `s ≥ 2` is
not needed as a hypothesis: for `s < 2` the enclosure function returns nothing and the verdict is `undecided` -/
theorem C19_zetasum_validator (s : ℕ) (y : Dy) (p k : ℕ) :
    (encCheck (zetaEncl s) y p k = .ok → |y.val - zetaSeries s| ≤ (2 : ℝ) ^ ((k : ℤ) - (p : ℤ)) * |zetaSeries s|) ∧
    (encCheck (zetaEncl s) y p k = .violates →
      (2 : ℝ) ^ ((k : ℤ) - (p : ℤ)) * |zetaSeries s| < |y.val - zetaSeries s|) :=
  ⟨encCheck_sound_ok (zetaEncl_encloses s) y p k, encCheck_sound_violates (zetaEncl_encloses s) y p k⟩

/-- complex-typed output, error in modulus -/
theorem C19_zetasum_validator_complex (s : ℕ) (yre yim : Dy) (p k : ℕ) :
    (encCheckC (zetaEncl s) yre yim p k = .ok →
      ‖(⟨yre.val, yim.val⟩ : ℂ) - (zetaSeries s : ℂ)‖ ≤ (2 : ℝ) ^ ((k : ℤ) - (p : ℤ)) * |zetaSeries s|) ∧
    (encCheckC (zetaEncl s) yre yim p k = .violates →
      (2 : ℝ) ^ ((k : ℤ) - (p : ℤ)) * |zetaSeries s| < ‖(⟨yre.val, yim.val⟩ : ℂ) - (zetaSeries s : ℂ)‖) :=
  ⟨encCheckC_sound_ok (zetaEncl_encloses s) yre yim p k, encCheckC_sound_violates (zetaEncl_encloses s) yre yim p k⟩

/-- for `s ≥ 2` the series converges, every partial sum is a lower bound, `partial sum + N^(1−s)` an upper bound, and
the sum is Mathlib's Riemann zeta function at `s` -/
theorem C19_zetasum_value (s : ℕ) (hs : 2 ≤ s) :
    HasSum (fun n : ℕ => 1 / ((n : ℝ) + 1) ^ s) (zetaSeries s) ∧
    (∀ N : ℕ, 1 ≤ N → ∑ j ∈ Finset.range N, 1 / ((j : ℝ) + 1) ^ s ≤ zetaSeries s ∧
      zetaSeries s ≤ ∑ j ∈ Finset.range N, 1 / ((j : ℝ) + 1) ^ s + 1 / (N : ℝ) ^ (s - 1)) ∧
    ((zetaSeries s : ℝ) : ℂ) = riemannZeta (s : ℂ) := by
  have hsum : Summable (zetaTermR s) := (zeta_series_bounds s 1 hs le_rfl).1
  refine ⟨hsum.hasSum, fun N hN => ⟨(zeta_series_bounds s N hs hN).2.1, (zeta_series_bounds s N hs hN).2.2⟩, ?_⟩
  rw [zeta_nat_eq_tsum_of_gt_one (by omega : 1 < s)]
  have hg : Summable (fun n : ℕ => 1 / ((n : ℝ)) ^ s) := by
    rw [← summable_nat_add_iff 1]
    refine hsum.congr (fun n => ?_)
    unfold zetaTermR; push_cast; rfl
  have h0 : (1 : ℝ) / ((0 : ℕ) : ℝ) ^ s = 0 := by
    have : s ≠ 0 := by omega
    simp [this]
  have e : zetaSeries s = ∑' n : ℕ, 1 / ((n : ℝ)) ^ s := by
    rw [hg.tsum_eq_zero_add, h0, zero_add]
    unfold zetaSeries
    congr 1
    funext n
    push_cast; rfl
  rw [e, Complex.ofReal_tsum]
  congr 1
  funext n
  push_cast; rfl

/-! ### altzeta -/

theorem altzetaEncl_encloses (s : ℕ) :
    Encloses (altzetaEncl s) ((1 - (2 : ℝ) ^ (1 - (s : ℤ))) * zetaSeries s) :=
  fun wp F h => (altzetaEncl_sound s wp F h).2.2

/-- `altzeta(s) := (1 − 2^(1−s))·ζ(s)` (definition, as in `Props/C19.lean`) -/
theorem C19_altzetasum_validator (s : ℕ) (y : Dy) (p k : ℕ) :
    let v := (1 - (2 : ℝ) ^ (1 - (s : ℤ))) * zetaSeries s
    (encCheck (altzetaEncl s) y p k = .ok → |y.val - v| ≤ (2 : ℝ) ^ ((k : ℤ) - (p : ℤ)) * |v|) ∧
    (encCheck (altzetaEncl s) y p k = .violates → (2 : ℝ) ^ ((k : ℤ) - (p : ℤ)) * |v| < |y.val - v|) :=
  ⟨encCheck_sound_ok (altzetaEncl_encloses s) y p k, encCheck_sound_violates (altzetaEncl_encloses s) y p k⟩

theorem C19_altzetasum_validator_complex (s : ℕ) (yre yim : Dy) (p k : ℕ) :
    let v := (1 - (2 : ℝ) ^ (1 - (s : ℤ))) * zetaSeries s
    (encCheckC (altzetaEncl s) yre yim p k = .ok →
      ‖(⟨yre.val, yim.val⟩ : ℂ) - (v : ℂ)‖ ≤ (2 : ℝ) ^ ((k : ℤ) - (p : ℤ)) * |v|) ∧
    (encCheckC (altzetaEncl s) yre yim p k = .violates →
      (2 : ℝ) ^ ((k : ℤ) - (p : ℤ)) * |v| < ‖(⟨yre.val, yim.val⟩ : ℂ) - (v : ℂ)‖) :=
  ⟨encCheckC_sound_ok (altzetaEncl_encloses s) yre yim p k,
    encCheckC_sound_violates (altzetaEncl_encloses s) yre yim p k⟩

/-! ### non-vacuity -/

-- ζ(40) = 1 + 2^-40 + 3^-40 + … : 1 + 2^-40 is accepted at 53 bits, 1 is rejected (error 2^-40 > 2^(7-53))
example : encCheck (zetaEncl 40) ⟨1099511627777, -40⟩ 53 7 = .ok := by decide +kernel
example : encCheck (zetaEncl 40) ⟨1, 0⟩ 53 7 = .violates := by decide +kernel
-- odd argument: ζ(41)
example : encCheck (zetaEncl 41) ⟨2199023255553, -41⟩ 53 7 = .ok := by decide +kernel
example : zetaEncl 1 60 = none := by decide +kernel

end Mp
