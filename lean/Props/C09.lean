/-
  Props/C09.lean — conversion to and from machine floats.
  Model: MpModel/Helpers.lean (`Dbl` = binary64 bit pattern split in sign / biased exponent / fraction,
  `from_float`, `to_float`, `mpc_to_complex`; C `ldexp` and CPython's int→float are modelled by `roundToDouble`,
  the correctly rounded conversion, validated against CPython by the harness incl. the subnormal range).
  `doubleVal d = (-1)^sign · sig · 2^qexp` is the rational value of a finite pattern
  (`sig = frac, qexp = -1074` for subnormals, `sig = 2^52 + frac, qexp = ex - 1075` otherwise).
-/
import MpProofs.HelpersFloat

namespace Mp
open H

/-- `from_float` is exact: for EVERY finite bit pattern (normal, subnormal, ±0), every `prec ≥ 53` and every
rounding mode the resulting mpf has exactly the value of the double. -/
theorem from_float_exact (d : Dbl) (hwf : d.WF) (hfin : d.ex < 2047) (prec : Int) (rnd : Rnd) (hp : 53 ≤ prec) :
    val (from_float d prec rnd) = doubleVal d := from_float_val d hwf hfin prec rnd hp

example : (Dbl.ofBits 0x0000000000000001).WF ∧ (Dbl.ofBits 0x0000000000000001).ex < 2047 ∧
    from_float (Dbl.ofBits 0x0000000000000001) = ⟨0, 1, -1074, 1⟩ ∧
    from_float (Dbl.ofBits 0xC004000000000000) = ⟨1, 5, -1, 3⟩ := by decide   -- 5e-324 and -2.5

/-- the non-finite patterns: +inf, -inf, and every nan payload; ±0 both give the (unsigned) mpf zero. -/
theorem from_float_specials (sign frac : Nat) (prec : Int) (rnd : Rnd) :
    from_float ⟨0, 2047, 0⟩ prec rnd = finf ∧ from_float ⟨1, 2047, 0⟩ prec rnd = fninf ∧
    (frac ≠ 0 → from_float ⟨sign, 2047, frac⟩ prec rnd = fnan) ∧
    (53 ≤ prec → from_float ⟨sign, 0, 0⟩ prec rnd = fzero) := by
  refine ⟨by simp [from_float, Dbl.isNan, Dbl.isInf], by simp [from_float, Dbl.isNan, Dbl.isInf], ?_, ?_⟩
  · intro h; simp [from_float, Dbl.isNan, h]
  · intro hp; exact from_float_zero _ (by simp) (by simp [Dbl.sig]) prec rnd hp

/-- `to_float ∘ from_float` is the identity on bit patterns: for every finite nonzero double (subnormals
included), every `prec ≥ 53`, every pair of rounding modes and both `strict` settings. -/
theorem to_float_from_float (d : Dbl) (hwf : d.WF) (hfin : d.ex < 2047) (hnz : d.sig ≠ 0)
    (prec : Int) (rnd rnd' : Rnd) (hp : 53 ≤ prec) (strict : Bool) :
    to_float (from_float d prec rnd) strict rnd' = .ok d :=
  to_float_from_float_aux d hwf hfin hnz prec rnd hp strict rnd'

example : (Dbl.ofBits 0x800FFFFFFFFFFFFF).WF ∧ (Dbl.ofBits 0x800FFFFFFFFFFFFF).sig ≠ 0 := by decide

/-- zeros and the non-finite patterns: `+0.0 ↦ +0.0`, `±inf ↦ ±inf`, nan ↦ a nan. -/
theorem to_float_from_float_specials (prec : Int) (rnd rnd' : Rnd) (hp : 53 ≤ prec) (strict : Bool) (sign frac : Nat)
    (hfrac : frac ≠ 0) :
    to_float (from_float ⟨0, 0, 0⟩ prec rnd) strict rnd' = .ok ⟨0, 0, 0⟩ ∧
    to_float (from_float ⟨0, 2047, 0⟩ prec rnd) strict rnd' = .ok ⟨0, 2047, 0⟩ ∧
    to_float (from_float ⟨1, 2047, 0⟩ prec rnd) strict rnd' = .ok ⟨1, 2047, 0⟩ ∧
    (∃ n, to_float (from_float ⟨sign, 2047, frac⟩ prec rnd) strict rnd' = .ok n ∧ n.isNan = true) := by
  obtain ⟨h1, h2, h3, h4⟩ := from_float_specials sign frac prec rnd
  rw [h1, h2, h3 hfrac, (from_float_specials 0 0 prec rnd).2.2.2 hp]
  exact ⟨by simp [to_float, fzero, Dbl.zero], by simp [to_float, finf, fzero, Dbl.inf],
    by simp [to_float, fninf, finf, fzero, Dbl.inf], ⟨Dbl.nan, by simp [to_float, fnan, finf, fninf, fzero], by decide⟩⟩

/-- The sign of zero is NOT preserved (an mpf has no signed zero): `-0.0 ↦ fzero ↦ +0.0`.
So "to_float (from_float d) = d" is false of the code for the single pattern `0x8000000000000000`;
the values are equal. -/
theorem to_float_from_float_counterexample :
    to_float (from_float ⟨1, 0, 0⟩) = .ok ⟨0, 0, 0⟩ ∧ (⟨0, 0, 0⟩ : Dbl) ≠ ⟨1, 0, 0⟩ := by decide

/-- `float(x)` in the normal range.  Full statement (what C09 asks): for every canonical x with `2^-1022 ≤ |x|`,
`to_float x` under rounding mode n is the binary64 nearest to x, ties to even, and ±inf when that rounds to
`≥ 2^1024`.  Proved here modulo ONE named hypothesis, `normalize1_correct`: that `_normalize1 … 53 'n'`
returns the correctly rounded 53-bit value (`RoundOK`, the C01/C02 lemma being proved by the main builder); it is
only used when `x` has more than 53 bits.  Conclusion: with `r` the 53-bit round-to-nearest-even of `x`
(`IsRoundN 53 (val x) (val r)`):
* if `|r| < 2^1024` the result is a NORMAL double `d` (`1 ≤ ex ≤ 2046`) with `doubleVal d = val r` exactly,
  the same with `strict=True`;
* if `|r| ≥ 2^1024` the result is `±inf` with the sign of `x`, and `OverflowError` with `strict=True`. -/
theorem to_float_nearest_partial (x : Mpf) (hx : CanonFin x) (hm : x.man ≠ 0)
    (hlow : (2:ℚ) ^ (-1022 : ℤ) ≤ |val x|)
    (normalize1_correct : x.bc > 53 → RoundOK 53 .n (val x) (normalize1 x.sign x.man x.exp x.bc 53 .n)) :
    ∃ r : Mpf, IsRoundN 53 (val x) (val r) ∧
      (|val r| < (2:ℚ) ^ (1024 : ℤ) →
        ∃ d : Dbl, to_float x false .n = .ok d ∧ to_float x true .n = .ok d ∧ d.WF ∧ 1 ≤ d.ex ∧ d.ex ≤ 2046 ∧
          doubleVal d = val r) ∧
      ((2:ℚ) ^ (1024 : ℤ) ≤ |val r| →
        to_float x false .n = .ok (Dbl.inf x.sign) ∧ to_float x true .n = .error .overflow) :=
  to_float_nearest_core x hx hm hlow normalize1_correct

/-- non-vacuity and the thresholds, by evaluation: the largest double is exact, half an ulp above it (a tie,
the even neighbour is 2^1024) overflows to inf, just below the tie rounds down to the largest double;
a 54-bit tie goes to even. -/
example :
    to_float ⟨0, 2^53 - 1, 971, 53⟩ false .n = .ok (Dbl.ofBits 0x7FEFFFFFFFFFFFFF) ∧
    to_float ⟨0, 2^54 - 1, 970, 54⟩ false .n = .ok (Dbl.inf 0) ∧
    to_float ⟨1, 2^54 - 1, 970, 54⟩ true .n = .error .overflow ∧
    to_float ⟨0, 2^55 - 3, 969, 55⟩ false .n = .ok (Dbl.ofBits 0x7FEFFFFFFFFFFFFF) ∧
    to_float ⟨0, 2^53 + 1, 0, 54⟩ false .n = .ok (Dbl.ofBits 0x4340000000000000) ∧
    to_float ⟨0, 2^53 + 3, 0, 54⟩ false .n = .ok (Dbl.ofBits 0x4340000000000002) := by decide

/-- Below the normal range the property text makes no claim; the code rounds TWICE there (to 53 bits, then
`ldexp` to the subnormal grid), so the result is not always the nearest double: `x = 2^-1074·(1/2 + 2^-54)`
is above the midpoint between 0 and the least subnormal, yet `float(x) = 0.0`.  (Recorded, outside C09.) -/
theorem to_float_subnormal_double_rounding :
    to_float ⟨0, 2^53 + 1, -1128, 54⟩ false .n = .ok (Dbl.zero 0) ∧
    roundToDouble 0 (2^53 + 1) (-1128) = some ⟨0, 0, 1⟩ := by decide

/-- `complex(z)` converts the two parts independently with `to_float`. -/
theorem mpc_to_complex_spec (re im : Mpf) (strict : Bool) (rnd : Rnd) (a b : Dbl)
    (ha : to_float re strict rnd = .ok a) (hb : to_float im strict rnd = .ok b) :
    mpc_to_complex re im strict rnd = .ok (a, b) := by
  simp [mpc_to_complex, ha, hb, bind, Except.bind, pure, Except.pure]

end Mp
