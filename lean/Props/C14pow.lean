/-
  Props/C14pow.lean — C14, the clause on `**` with integer exponents: `iv` integer powers contain `x^n` for every point of
  the input interval.

  For intervals with finite canonical endpoints of ANY bit length, every precision ≥ 1 and EVERY exponent n ≥ 0:
  `x^n ∈ mpi_pow_int(I, n)` for all `x ∈ I` — odd exponents (monotone), even exponents on nonnegative, nonpositive and
  zero-straddling intervals (`[0, max(−a, b)^n]`); the endpoints come from `mpf_pow_int` with round_floor / round_ceiling,
  which never rounds past the exact power (C03, including the truncating binary-exponentiation regime).
  Negative exponents: `1 / I^n` with the power at `prec + 20`; whenever the power interval excludes zero the result
  contains `x^(−n)` (`C14_pow_int_neg`).
-/
import MpProofs.IntervalPow

namespace Mp

theorem C14_pow_int_nonneg {s : Mpi} (hs : FinIv s) (n : ℕ) {prec : ℤ} (hp : 0 < prec) {x : ℚ} (hx : MemIv x s) :
    ∃ r, mpi_pow_int s (n : ℤ) prec = .ok r ∧ FinIv r ∧ MemIv (x ^ n) r := by
  rw [mpi_pow_int_natCast]
  exact mpiPowNat_sound hs n hp hx

theorem C14_pow_int_neg {s : Mpi} (hs : FinIv s) {n : ℕ} (hn : 0 < n) {prec : ℤ} (hp : 0 < prec) {x : ℚ}
    (hx : MemIv x s) :
    ∃ p, mpiPowNat s n (prec + 20) = .ok p ∧ FinIv p ∧ MemIv (x ^ n) p ∧
      ((0 < val p.1 ∨ val p.2 < 0) →
        ∃ r, mpi_pow_int s (-(n : ℤ)) prec = .ok r ∧ FinIv r ∧ MemIv ((x ^ n)⁻¹) r) :=
  mpi_pow_int_neg_sound hs hn hp hx

/-! non-vacuity: [-3, 2]^4 = [0, 81], [-3, 2]^3 = [-27, 8] at 53 bits -/
example : mpi_pow_int (⟨1, 3, 0, 2⟩, ⟨0, 1, 1, 1⟩) 4 53 = .ok (fzero, ⟨0, 81, 0, 7⟩) := by decide
example : mpi_pow_int (⟨1, 3, 0, 2⟩, ⟨0, 1, 1, 1⟩) 3 53 = .ok (⟨1, 27, 0, 5⟩, ⟨0, 1, 3, 1⟩) := by decide

end Mp
