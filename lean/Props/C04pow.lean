/-
  Props/C04pow.lean — C04, the clause on `z**n`:
  "each of the real and imaginary parts … of z**n (n ≥ 0, exact result of at most about 10^4 bits) is the correctly
  rounded value of the exact component".

  `mpc_pow_int` for a complex `z` with both components nonzero and `n ≥ 3` takes the exact route when
  `n·(|e_a − e_b| + max(bc_a, bc_b)) < 10000`: it computes `(A + B i)^n` in ℤ[i] by binary exponentiation and rounds each
  component once.  The theorem is for every such input, every precision and rounding mode.  `cpowQ x y n` is the pair
  (Re, Im) of `(x + y i)^n` (`cpowQ_complex` relates it to Mathlib's complex power).  `n = 0, 1, 2` go to
  `mpc_one`, `mpc_pos`, `mpc_square` (C04_pow_small).  Pure-axis arguments go through `mpf_pow_int` (C03), which is
  not correctly rounded in general — recorded finding F1.
-/
import MpProofs.CPow
import Props.C04
import Mathlib.Data.Complex.Basic

namespace Mp

/-- `cpowQ` is the complex power: `(x + y i)^n = Re + Im·i` in ℂ -/
theorem cpowQ_complex (x y : ℚ) (n : ℕ) :
    ((x : ℂ) + (y : ℂ) * Complex.I) ^ n = ((cpowQ x y n).1 : ℂ) + ((cpowQ x y n).2 : ℂ) * Complex.I := by
  induction n with
  | zero => simp [cpowQ]
  | succ n ih =>
    rw [pow_succ, ih]
    simp only [cpowQ]
    push_cast
    ring_nf
    rw [Complex.I_sq]
    ring

/-- **z**n, exact regime**: both components are correctly rounded, in every rounding mode, at every precision -/
theorem C04_pow_int_exact (fallback : Mpc → Int → Int → Rnd → Except Err Mpc)
    {z : Mpc} (hz : CanonFinC z) (ha : z.1 ≠ fzero) (hb : z.2 ≠ fzero) {n : ℤ} (hn : 3 ≤ n)
    (hsize : n * (((z.1.exp - z.2.exp).natAbs : ℤ) + max z.1.bc z.2.bc) < 10000)
    {prec : ℤ} (hp : 0 ≤ prec) (rnd : Rnd) :
    ∃ re im, mpc_pow_int fallback z n prec rnd = .ok (re, im) ∧
      RoundOK prec rnd (cpowQ (val z.1) (val z.2) n.toNat).1 re ∧
      RoundOK prec rnd (cpowQ (val z.1) (val z.2) n.toNat).2 im := by
  have hsa : z.1.sign ≤ 1 := by
    rcases hz.1 with h | h
    · exact absurd h ha
    · exact h.1
  have hsb : z.2.sign ≤ 1 := by
    rcases hz.2 with h | h
    · exact absurd h hb
    · exact h.1
  refine ⟨(mpcPowExact z.1 z.2 n.toNat prec rnd).1, (mpcPowExact z.1 z.2 n.toNat prec rnd).2, ?_,
    (mpcPowExact_spec z.1 z.2 hsa hsb n.toNat hp rnd).1, (mpcPowExact_spec z.1 z.2 hsa hsb n.toNat hp rnd).2⟩
  unfold mpc_pow_int
  have h0 : ¬ n = 0 := by omega
  have h1 : ¬ n = 1 := by omega
  have h2 : ¬ n = 2 := by omega
  have h3 : ¬ n = -1 := by omega
  have h4 : ¬ n < 0 := by omega
  simp only [hb, ha, h0, h1, h2, h3, h4, if_false, dif_neg, not_false_eq_true, hsize, if_true]

/-- `n = 0, 1, 2` for a complex `z` with both components nonzero: `1`, `+z` rounded, `z²` -/
theorem C04_pow_small (fallback : Mpc → Int → Int → Rnd → Except Err Mpc)
    {z : Mpc} (ha : z.1 ≠ fzero) (hb : z.2 ≠ fzero) (prec : ℤ) (rnd : Rnd) :
    mpc_pow_int fallback z 0 prec rnd = .ok mpc_one ∧
    mpc_pow_int fallback z 1 prec rnd = .ok (mpc_pos z prec rnd) ∧
    mpc_pow_int fallback z 2 prec rnd = .ok (mpc_square z prec rnd) := by
  refine ⟨?_, ?_, ?_⟩ <;> · unfold mpc_pow_int; simp [ha, hb]

/-! non-vacuity: (1 + 2i)^3 = -11 - 2i, (3 + i/2)^5 at 10 bits -/
example : mpcPowExact ⟨0, 1, 0, 1⟩ ⟨0, 1, 1, 1⟩ 3 53 .n = (⟨1, 11, 0, 4⟩, ⟨1, 1, 1, 1⟩) := by decide
example : (3 : ℤ) * ((((0 : ℤ) - 1).natAbs : ℤ) + max 1 1) < 10000 := by decide
example : cpowQ 1 2 3 = (-11, -2) := by norm_num [cpowQ]

end Mp
