/-
  Props/C09Full.lean — `to_float_nearest`: the hypothesis of `to_float_nearest_partial` discharged with
  `Mp.normalize1_spec` (MpProofs/Normalize.lean).  Needs the main tree (not part of the w_helpers scratch build).
-/
import Props.C09
import MpProofs.Normalize

namespace Mp
open H

/-- `float(x)` under rounding mode n, for every canonical `x` with `2^-1022 ≤ |x|`: with `r` the 53-bit
round-to-nearest-even of `x`, the result is the normal double of value exactly `r` when `|r| < 2^1024`, and
`±inf` (OverflowError if `strict`) when `|r| ≥ 2^1024`.  No hypothesis left. -/
theorem to_float_nearest (x : Mpf) (hx : CanonFin x) (hm : x.man ≠ 0)
    (hlow : (2:ℚ) ^ (-1022 : ℤ) ≤ |val x|) :
    ∃ r : Mpf, IsRoundN 53 (val x) (val r) ∧
      (|val r| < (2:ℚ) ^ (1024 : ℤ) →
        ∃ d : Dbl, to_float x false .n = .ok d ∧ to_float x true .n = .ok d ∧ d.WF ∧ 1 ≤ d.ex ∧ d.ex ≤ 2046 ∧
          doubleVal d = val r) ∧
      ((2:ℚ) ^ (1024 : ℤ) ≤ |val r| →
        to_float x false .n = .ok (Dbl.inf x.sign) ∧ to_float x true .n = .error .overflow) := by
  apply to_float_nearest_partial x hx hm hlow
  intro _
  have hxc : x.sign ≤ 1 ∧ x.man % 2 = 1 ∧ x.bc = (bitcount x.man : Int) := by
    rcases hx with h | h
    · rw [h] at hm; simp [fzero] at hm
    · exact h
  have := normalize1_spec hxc.1 (Or.inl hxc.2.1) x.exp (by norm_num : (0:Int) < 53) .n
  rw [hxc.2.2]
  have hv : val x = (-1 : ℚ) ^ x.sign * ((x.man : ℚ) * 2 ^ x.exp) := by unfold val; ring
  rw [hv]; exact this

end Mp
