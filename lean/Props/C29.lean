/-
  Props/C29.lean — property C29: root finders return genuine roots, in the documented order.

  What is proved here (helper lemmas: MpProofs/RootCert.lean, MpProofs/RootOrder.lean):
  * the inclusion theorem over ℂ and the soundness of the executable certificate checkers of
    MpModel/RootCert.lean that decide every root returned by `polyroots` / `findroot` in the harness;
  * the ordering produced by the post-processing of `polyroots` (model `polyrootsOrder`):
    real roots first and sorted (true), conjugates adjacent (true only under a hypothesis on the keys;
    FALSE in general — counterexample D13 on the values held by the real code), and the
    unconditional shape theorem of the proposed patched ordering;
  * the decision logic of `findroot`'s verify test, `multiplicity`'s loop and `MNewton`'s
    derivative keyword selection (the latter is wrong in /repo: `_counterexample`).
  Not proved: convergence of any solver (checked per returned value by the harness).
-/
import MpProofs.RootCert
import MpProofs.RootOrder

open Polynomial

namespace Mp
open RootCert

/-! ### inclusion radius -/

/-- **rootIncl_sound.** For a complex polynomial `P` of degree `n ≥ 1` (more generally `natDegree P ≤ n`)
and any `r` with `P'(r) ≠ 0`, some root `z` of `P` satisfies `|z − r| ≤ n·|P(r)|/|P'(r)|`. -/
theorem rootIncl_sound (P : ℂ[X]) (n : ℕ) (hn : P.natDegree ≤ n) (r : ℂ)
    (hd : P.derivative.eval r ≠ 0) :
    ∃ z : ℂ, P.IsRoot z ∧ ‖z - r‖ ≤ n * ‖P.eval r‖ / ‖P.derivative.eval r‖ :=
  rootIncl_complex P n hn r hd

example : ∃ z : ℂ, (X ^ 2 - C 2 : ℂ[X]).IsRoot z ∧
    ‖z - 1‖ ≤ (2 : ℕ) * ‖(X ^ 2 - C 2 : ℂ[X]).eval 1‖ / ‖(derivative (X ^ 2 - C 2 : ℂ[X])).eval 1‖ :=
  rootIncl_sound _ 2 (by
    have : (X ^ 2 - C 2 : ℂ[X]).natDegree = 2 := natDegree_X_pow_sub_C
    omega) 1 (by simp)

/-- **squared comparison.** On fractions denoting `b², c², a²` with `a, b, c ≥ 0` the executable test
`sqrtSumLt` decides `b + c < a` exactly (no square root is computed, nothing is rounded). -/
theorem sqrtSumLt_iff (B C A : Q) (b c a : ℝ) (hb : 0 ≤ b) (hc : 0 ≤ c) (ha : 0 ≤ a)
    (hB : B.toReal = b ^ 2) (hC : C.toReal = c ^ 2) (hA : A.toReal = a ^ 2) :
    sqrtSumLt B C A = true ↔ b + c < a :=
  ⟨sqrtSumLt_sound B C A b c a hb hc ha hB hC hA, sqrtSumLt_complete B C A b c a hb hc ha hB hC hA⟩

example : sqrtSumLt (Q.ofInt 1) (Q.ofInt 4) (Q.ofInt 10) = true := by decide
example : sqrtSumLt (Q.ofInt 1) (Q.ofInt 4) (Q.ofInt 9) = false := by decide

/-- **the executable radius is the real radius squared**: `rootInclSq cs r` (Gaussian rationals, Horner)
denotes `(n·|P(r)|/|P'(r)|)²` for `P = polyOf cs`, `n = len(cs) − 1`. -/
theorem rootInclSq_cast (cs : List GQ) (r : GQ) :
    (rootInclSq cs r).toReal =
      ((degOf cs : ℝ) * ‖(polyOf cs).eval r.toC‖ / ‖(polyOf cs).derivative.eval r.toC‖) ^ 2 :=
  rootInclSq_toReal cs r

/-- **polyrootsCheck, per-root part (b).** If the report says `incl = ok`, every returned root has a
genuine complex root of the input polynomial within `tol`. -/
theorem polyrootsCheck_incl_sound (cs roots : List GQ) (tol : Q)
    (h : (polyrootsReport cs roots tol).incl = .ok) :
    ∀ r ∈ roots, ∃ z : ℂ, (polyOf cs).IsRoot z ∧ ‖z - r.toC‖ ≤ tol.toReal := by
  intro r hr
  have := combineIncl_ok h (inclVerdict cs tol r) (List.mem_map.2 ⟨r, hr, rfl⟩)
  exact (inclVerdict_sound cs tol r this).2

/-- **polyrootsCheck_sound.** Verdict `ok` means: exactly `len(cs) − 1 ≥ 1` roots were returned, and
the multiset of ALL complex roots of the polynomial (with multiplicity) can be listed as `zs` with
`zs[i]` within `tol` of the `i`-th returned root — the returned roots are matched one-to-one with the
true roots. -/
theorem polyrootsCheck_sound (cs roots : List GQ) (tol : Q) (h : polyrootsCheck cs roots tol = .ok) :
    roots.length = degOf cs ∧ 1 ≤ degOf cs ∧
    ∃ zs : List ℂ, (polyOf cs).roots = (zs : Multiset ℂ) ∧
      List.Forall₂ (fun z r => ‖z - r.toC‖ ≤ tol.toReal) zs roots := by
  unfold polyrootsCheck at h
  simp only at h
  split at h
  · exact absurd h (by decide)
  · rename_i hcount
    have hcount' : (polyrootsReport cs roots tol).count = true := by simpa using hcount
    have hc : roots.length = degOf cs ∧ 1 ≤ degOf cs := by
      simpa [polyrootsReport] using hcount'
    split at h
    · exact absurd h (by decide)
    · exact absurd h (by decide)
    · rename_i hincl
      have hm : roots.all (derivNonzero cs) = true ∧ pairwiseAll (discsDisjoint cs) roots = true := by
        simp only [polyrootsReport] at h
        split at h
        · rename_i hh; simpa using hh
        · exact absurd h (by decide)
      obtain ⟨zs, hz1, hz2⟩ := matching_sound cs roots hc.1 hm.1 hm.2
      have hper : ∀ r ∈ roots, radius cs r ≤ tol.toReal := by
        intro r hr
        have := combineIncl_ok hincl (inclVerdict cs tol r) (List.mem_map.2 ⟨r, hr, rfl⟩)
        exact (inclVerdict_sound cs tol r this).1
      exact ⟨hc.1, hc.2, zs, hz1, forall₂_radius_le cs tol zs roots hz2 hper⟩

/-- non-vacuity: `x² − 2` with the returned roots `±1.4142` and tolerance `10⁻³` is accepted -/
example : polyrootsCheck [GQ.ofQ (Q.ofInt 1), GQ.zero, GQ.ofQ (Q.ofInt (-2))]
    [GQ.ofQ (Q.mk' 14142 10000), GQ.ofQ (Q.mk' (-14142) 10000)] (Q.mk' 1 1000) = .ok := by decide +kernel

/-- a double root is reported `undecided`, not `ok`: `(x−1)²` with returned roots `1 ± 10⁻⁴` -/
example : polyrootsCheck [GQ.ofQ (Q.ofInt 1), GQ.ofQ (Q.ofInt (-2)), GQ.ofQ (Q.ofInt 1)]
    [GQ.ofQ (Q.mk' 10001 10000), GQ.ofQ (Q.mk' 9999 10000)] (Q.mk' 1 1000) = .undecided := by decide +kernel

/-! ### findroot -/

/-- **findrootCheck, residual.** Verdict `ok`: every component `f_i = N_i/D_i` has `D_i(x) ≠ 0` and
`|f_i(x)|² ≤ tol` at the returned point — i.e. `max_i |f_i(x)|² ≤ tol`, the exact form of
`norm(f(x))**2 <= tol` with the max-norm used by `findroot`. -/
theorem findrootCheck_residual_sound (fs : List RatFun) (xs : List GQ) (tol : Q) (br : Option (Q × Q))
    (h : (findrootCheck fs xs tol br).residual = .ok) :
    ∀ f ∈ fs, mpolyC f.denom (xs.map GQ.toC) ≠ 0 ∧
      ‖mpolyC f.numer (xs.map GQ.toC) / mpolyC f.denom (xs.map GQ.toC)‖ ^ 2 ≤ tol.toReal := by
  intro f hf
  have := combineIncl_ok h (residualVerdict tol xs f) (List.mem_map.2 ⟨f, hf, rfl⟩)
  exact residualVerdict_sound tol xs f this

/-- **findrootCheck, bracket.** Verdict `ok` for a bracket `(a, b)`: the result is a single real number
between the bracket ends (in either order). -/
theorem findrootCheck_bracket_sound (fs : List RatFun) (xs : List GQ) (tol : Q) (a b : Q)
    (h : (findrootCheck fs xs tol (some (a, b))).bracket = .ok) :
    ∃ x, xs = [x] ∧ x.toC.im = 0 ∧ min a.toReal b.toReal ≤ x.toC.re ∧ x.toC.re ≤ max a.toReal b.toReal := by
  unfold findrootCheck at h
  simp only at h
  split at h
  · rename_i a' b' x heq
    simp only [Option.some.injEq, Prod.mk.injEq] at heq
    obtain ⟨rfl, rfl⟩ := heq
    split at h
    · rename_i hb; exact ⟨x, rfl, inBracket_sound _ _ x hb⟩
    · exact absurd h (by decide)
  · exact absurd h (by decide)
  · exact absurd h (by decide)

/-- **verify_spec.** If `findroot(..., verify=True)` returns (the model of its last test does not raise),
then the comparison it performed is `normSq ≤ tol` on the values of the two mpf numbers
(`normSq = norm(f(x))**2` as computed at the working precision, `tol` the tolerance). -/
theorem verify_spec {normSq tol : Mpf} (hn : CanonFin normSq) (ht : CanonFin tol)
    (h : findrootVerify true normSq tol = .ok ()) : val normSq ≤ val tol := by
  unfold findrootVerify at h
  rw [mpf_gt_spec hn ht] at h
  by_contra hc
  have : val normSq > val tol := lt_of_not_ge hc
  simp [this] at h

example : findrootVerify true fone ftwo = .ok () := by decide
example : findrootVerify true ftwo fone = .error .value := by decide

/-! ### ordering of `polyroots` -/

/-- **sortKey_real_first.** For canonical finite inputs and working precision ≥ 1, in the list produced by
the sort of `polyroots` no root with nonzero imaginary part precedes a real root, and the real roots
are in non-decreasing order of value. -/
theorem sortKey_real_first {wp : ℤ} (hp : 0 < wp) (roots : List Root) (hwf : ∀ r ∈ roots, r.WF) :
    (polyrootsOrder wp roots).Pairwise (fun a b =>
      (b.imag = fzero → a.imag = fzero) ∧ (a.imag = fzero → b.imag = fzero → val a.re ≤ val b.re)) :=
  polyrootsOrder_real_first hp roots hwf

/-- **sortKey_conj_adjacent_partial.** Conjugates end up adjacent PROVIDED the two members `a`, `b` of the
pair have identical keys (identical `Re`, identical rounded `|Im|`) and no other root of the list has
that key.  Full statement ("for real-coefficient polynomials complex roots are listed as adjacent
conjugate pairs") is false of the code: see `sortKey_conj_adjacent_counterexample`.
Missing for the full statement: the computed `|Im|` of two conjugates are NOT identical in general. -/
theorem sortKey_conj_adjacent_partial {wp : ℤ} (hp : 0 ≤ wp) (roots rest : List Root) (a b : Root)
    (hwf : ∀ r ∈ roots, r.WF) (hperm : roots.Perm (a :: b :: rest))
    (hab : keyVal wp b = keyVal wp a) (hrest : ∀ c ∈ rest, keyVal wp c ≠ keyVal wp a) :
    ∃ l1 l2, polyrootsOrder wp roots = l1 ++ [a, b] ++ l2 ∨ polyrootsOrder wp roots = l1 ++ [b, a] ++ l2 :=
  polyrootsOrder_adjacent hp roots rest a b hwf hperm hab hrest

/-- non-vacuity of `sortKey_conj_adjacent_partial`: the list `[1+i, 3, 1−i]` at 63 bits -/
example : ∃ l1 l2, polyrootsOrder 63 [C29c fone fone, ⟨false, ⟨0, 3, 0, 2⟩, fzero⟩, C29c fone fnone]
      = l1 ++ [C29c fone fone, C29c fone fnone] ++ l2 ∨
    polyrootsOrder 63 [C29c fone fone, ⟨false, ⟨0, 3, 0, 2⟩, fzero⟩, C29c fone fnone]
      = l1 ++ [C29c fone fnone, C29c fone fone] ++ l2 := by
  have h1 : mpf_abs (C29c fone fnone).imag 63 .n = fone := by decide +kernel
  have h2 : mpf_abs (C29c fone fone).imag 63 .n = fone := by decide +kernel
  have h3 : mpf_abs (⟨false, ⟨0, 3, 0, 2⟩, fzero⟩ : Root).imag 63 .n = fzero := by decide +kernel
  refine sortKey_conj_adjacent_partial (by norm_num) _ [⟨false, ⟨0, 3, 0, 2⟩, fzero⟩] _ _ (by decide) ?_ ?_ ?_
  · exact List.Perm.cons _ (List.Perm.swap _ _ [])
  · unfold keyVal; rw [h1, h2]; rfl
  · intro c hc
    simp only [List.mem_singleton] at hc
    subst hc
    unfold keyVal
    rw [h3, h2]
    intro h
    have := congrArg (fun p : ℚ ×ₗ ℚ => (ofLex p).1) h
    simp [val, fzero, fone] at this

example : ∀ r ∈ C29d13, r.WF := by decide
example : (0 : ℤ) < 63 := by norm_num

/-- **sortKey_conj_adjacent_counterexample (D13).** On the values the real code holds for
`(x²−2x+2)(x²+2x+2)(x²−4x+5)` the post-processing (cleanup, sort, rounding to 53 bits) returns
`[2+i, −1−i, −1+i, 1−i, 1+i, 2−i]`: after rounding the roots are three exact conjugate pairs, yet they
are not listed as adjacent pairs. -/
theorem sortKey_conj_adjacent_counterexample :
    (polyPost 63 53 true C29d13).toOption = some C29d13Out ∧ realsThenConjPairs C29d13Out = false ∧
    (∃ l, l.Perm C29d13Out ∧ realsThenConjPairs l = true) := by
  refine ⟨by decide +kernel, by decide +kernel, ?_⟩
  refine ⟨[C29c ftwo fone, C29c ftwo fnone, C29c fnone fnone, C29c fnone fone, C29c fone fnone, C29c fone fone],
    ?_, by decide +kernel⟩
  decide +kernel

/-- **patched ordering, permutation** (unconditional): the proposed replacement of the sort returns a
permutation of the roots. -/
theorem patched_perm (wp : Int) (roots out : List Root) (h : polyrootsOrderPatched wp roots = .ok out) :
    out.Perm roots := polyrootsOrderPatched_perm wp roots out h

/-- **patched ordering, shape** (unconditional — no hypothesis on equal or distinct imaginary parts):
the output is the real roots in the order of the existing sort followed by a block without real roots;
when as many roots have positive as have negative imaginary part (always the case for a real polynomial
whose non-real roots were all resolved), that block is a sequence of pairs each consisting of one root of the upper and one of the lower half
plane (an upper root and the remaining lower root closest to its conjugate, by construction of `pairUp`,
in the order in which the two appear in the existing sort — so outputs that were already correct do not change). -/
theorem patched_shape (wp : Int) (roots out : List Root) (h : polyrootsOrderPatched wp roots = .ok out) :
    ∃ paired, out = (polyrootsOrder wp roots).filter (fun r => r.imag == fzero) ++ paired ∧
      (∀ r ∈ paired, r.imag ≠ fzero) ∧
      (((roots.filter (fun r => !(r.imag == fzero))).filter (fun r => mpfPos r.imag)).length =
        ((roots.filter (fun r => !(r.imag == fzero))).filter (fun r => !mpfPos r.imag)).length →
        oppositePairs paired = true) :=
  polyrootsOrderPatched_shape wp roots out h

/-- the patched post-processing on the D13 values returns `2+i, 2−i, −1−i, −1+i, 1−i, 1+i`: documented order -/
theorem patched_d13 :
    (polyPostPatched 63 53 true C29d13).toOption =
      some [C29c ftwo fone, C29c ftwo fnone, C29c fnone fnone, C29c fnone fone, C29c fone fnone, C29c fone fone] ∧
    ((polyPostPatched 63 53 true C29d13).toOption.map realsThenConjPairs = some true) := by
  constructor <;> decide +kernel

/-! ### multiplicity, mnewton -/

/-- **multiplicity loop.** If the tests `abs(d^i f(root)) < tol` succeed for `i < m` and fail at `i = m`,
and `m < maxsteps`, the loop of `multiplicity` returns `m`. -/
theorem multLoop_spec (small : Nat → Bool) (m maxsteps : Nat) (hm : m < maxsteps)
    (h1 : ∀ i < m, small i = true) (h2 : small m = false) : multLoop small maxsteps = .ok m := by
  unfold multLoop
  have hne : maxsteps ≠ 0 := by omega
  simp only [hne, if_false]
  congr 1
  have : ∀ (fuel i : Nat), i ≤ m → m < i + fuel → multLoopAux small fuel i = m := by
    intro fuel
    induction fuel with
    | zero => intro i h1 h2; omega
    | succ fuel ih =>
      intro i hi hlt
      simp only [multLoopAux]
      rcases Nat.lt_or_eq_of_le hi with h | h
      · rw [h1 i h]; simp only [if_true]; exact ih (i + 1) (by omega) (by omega)
      · subst h; rw [h2]; simp
  exact this maxsteps 0 (by omega) (by omega)

/-- when every test succeeds (multiplicity ≥ maxsteps) the loop returns `maxsteps − 1`, NOT the multiplicity -/
theorem multLoop_saturates (maxsteps : Nat) (h : 0 < maxsteps) :
    multLoop (fun _ => true) maxsteps = .ok (maxsteps - 1) := by
  unfold multLoop
  have hne : maxsteps ≠ 0 := by omega
  simp only [hne, if_false]
  congr 1
  have : ∀ (fuel i : Nat), multLoopAux (fun _ => true) fuel i = i + fuel - 1 := by
    intro fuel
    induction fuel with
    | zero => intro i; simp [multLoopAux]
    | succ fuel ih => intro i; simp only [multLoopAux, if_true]; rw [ih]; omega
  rw [this]; omega

example : multLoop (fun i => decide (i < 3)) 10 = .ok 3 := by decide

/-- **mnewton keyword selection, counterexample.** The statement "a user-supplied `d2f` is the second
derivative used by `MNewton`" is false of the code: with both `df` and `d2f` given, `df` is installed as
second derivative; with only `d2f` given the constructor raises `KeyError`. -/
theorem mnewton_d2f_honoured_counterexample :
    mnewtonD2f true true = .userDf ∧ mnewtonD2f false true = .keyError ∧
    mnewtonD2f true true ≠ mnewtonD2fFixed true true := by decide

/-- **mnewton update.** In exact arithmetic the update raises `ZeroDivisionError` exactly when
`f(x) ≠ 0` and (`f'(x) = 0` or `f'(x) − f(x)f''(x)/f'(x) = 0`); it stops when `f(x) = 0`. -/
theorem mnewtonStep_zeroDiv (x fx dfx d2fx : Q) :
    mnewtonStep x fx dfx d2fx = .error .zeroDiv ↔
      fx.isZero = false ∧ (dfx.isZero = true ∨ (dfx - Q.div (fx * d2fx) dfx).isZero = true) := by
  unfold mnewtonStep
  by_cases h1 : fx.isZero = true
  · simp [h1]
  · by_cases h2 : dfx.isZero = true
    · simp [h1, h2]
    · by_cases h3 : (dfx - Q.div (fx * d2fx) dfx).isZero = true
      · simp [h1, h2, h3]
      · simp [h1, h2, h3]

end Mp
