/-
  Props/C39.lean — magnitude, nearest-integer and classification helpers.
  Model: MpModel/Helpers.lean (`magF/magC/magInt/magQ`, `nintDistF/C/Int/Q`, `isintF/C/Int/Q`, `isnpint…`,
  `isnormal…`, `isinf…`, `isnan…`, `isfinite…`, `ldexp`, `frexp`).  `val` is the rational value of a raw tuple.
  An mpq is its reduced pair `(p, q)`, `q > 0`.
-/
import MpProofs.Helpers

namespace Mp
open H

/-! ### mag -/

/-- `mag` of a nonzero mpf with exact bit count is `m = exp + bc` and `2^(m-1) ≤ |x| < 2^m`
(so `|x| ≤ 2^m`, and `m` is at most 1 above the optimal bound — equality `|x| = 2^(m-1)` for powers of two). -/
theorem mag_spec (x : Mpf) (hm : x.man ≠ 0) (hbc : x.bc = (bitcount x.man : Int)) :
    ∃ m : ℤ, magF x = .int m ∧ m = x.exp + x.bc ∧ (2:ℚ) ^ (m - 1) ≤ |val x| ∧ |val x| < (2:ℚ) ^ m :=
  ⟨x.exp + x.bc, by simp [magF, mpfMag, hm], rfl, abs_val_bounds x hm hbc⟩

example : (⟨0, 5, 1, 3⟩ : Mpf).man ≠ 0 ∧ (⟨0, 5, 1, 3⟩ : Mpf).bc = (bitcount 5 : Int) ∧ magF ften = .int 4 := by decide

/-- `mag` of a nonzero Python int is its bit length: `2^(m-1) ≤ |n| < 2^m`. -/
theorem mag_int_spec (n : Int) (hn : n ≠ 0) :
    ∃ m : ℤ, magInt n = .int m ∧ (2:ℚ) ^ (m - 1) ≤ |(n : ℚ)| ∧ |(n : ℚ)| < (2:ℚ) ^ m := magInt_spec n hn

/-- `mag` of a nonzero mpq `p/q` is `m = 1 + bc p - bc q` with the slack the code has: `2^(m-2) < |p/q| < 2^m`. -/
theorem mag_mpq_spec (p : Int) (q : Nat) (hp : p ≠ 0) (hq : 0 < q) :
    ∃ m : ℤ, magQ p q = .int m ∧ (2:ℚ) ^ (m - 2) < |(p : ℚ) / (q : ℚ)| ∧ |(p : ℚ) / (q : ℚ)| < (2:ℚ) ^ m :=
  magQ_spec p q hp hq

example : magQ 10 3 = .int 3 ∧ magQ (-1) 3 = .int 0 := by decide

/-- `mag` of an mpc with both parts nonzero is `m = 1 + max(mag re, mag im)`, and
`2^(m-2) ≤ |z| < 2^m` (stated on squares: `|z|² = re² + im²`). -/
theorem mag_mpc_spec (r i : Mpf) (hr : r.man ≠ 0) (hi : i.man ≠ 0)
    (hrbc : r.bc = (bitcount r.man : Int)) (hibc : i.bc = (bitcount i.man : Int)) :
    ∃ m : ℤ, magC r i = .int m ∧ m = 1 + max (r.exp + r.bc) (i.exp + i.bc) ∧
      ((2:ℚ) ^ (m - 2)) ^ 2 ≤ (val r) ^ 2 + (val i) ^ 2 ∧ (val r) ^ 2 + (val i) ^ 2 < ((2:ℚ) ^ m) ^ 2 :=
  magC_spec r i hr hi hrbc hibc

example : magC ften ften = .int 5 := by decide

/-- on the axes `mag` of an mpc is `mag` of the nonzero part (whatever that part is, specials included). -/
theorem mag_mpc_axes (x : Mpf) : magC x fzero = magF x ∧ magC fzero x = magF x :=
  ⟨magC_real_axis x, magC_imag_axis x⟩

/-- zero and the special values: `-inf` for 0, `+inf` for both infinities, nan for nan; complex with an
infinite part gives `+inf`.  The last two lines record the asymmetry of Python's `max` under nan. -/
theorem mag_specials :
    magF fzero = .ninf ∧ magF finf = .inf ∧ magF fninf = .inf ∧ magF fnan = .nan ∧
    magInt 0 = .ninf ∧ magQ 0 7 = .ninf ∧ magC fzero fzero = .ninf ∧
    magC finf fone = .inf ∧ magC fone fninf = .inf ∧ magC fnan fone = .nan ∧ magC fone fnan = .int 2 ∧
    magC fnan finf = .nan ∧ magC finf fnan = .inf := by decide

/-! ### ldexp, frexp -/

/-- `ldexp(x, n)` is exactly `x · 2^n` — no rounding, for every tuple and every `n`. -/
theorem ldexp_exact (x : Mpf) (n : Int) : val (ldexp x n) = val x * (2:ℚ) ^ n := val_ldexp x n

/-- zero and the special values are returned unchanged; otherwise only the exponent moves
(so the mantissa, and with it canonicity and the bit count, is untouched). -/
theorem ldexp_shape (x : Mpf) (n : Int) :
    (x.man = 0 → ldexp x n = x) ∧ (x.man ≠ 0 → ldexp x n = ⟨x.sign, x.man, x.exp + n, x.bc⟩) := by
  constructor <;> intro h <;> simp [ldexp, mpf_shift, h]

/-- `frexp(x) = (y, n)` with `x = y · 2^n` exactly and `1/2 ≤ |y| < 1`, for nonzero x with exact bit count.
(For negative `x` the code returns a negative `y`: the docstring's `y ∈ [0.5, 1)` holds for `|y|`.) -/
theorem frexp_spec (x : Mpf) (hm : x.man ≠ 0) (hbc : x.bc = (bitcount x.man : Int)) :
    ∃ y n, frexp x = .ok (y, n) ∧ val x = val y * (2:ℚ) ^ n ∧ 1 / 2 ≤ |val y| ∧ |val y| < 1 := by
  refine ⟨_, _, frexp_ok x hm, ?_, ?_⟩
  · simp only [val]
    have : (2:ℚ) ^ (-x.bc) * (2:ℚ) ^ (x.bc + x.exp) = (2:ℚ) ^ x.exp := by
      rw [← zpow_add₀ (by norm_num : (2:ℚ) ≠ 0)]; congr 1; ring
    rw [mul_assoc _ ((2:ℚ) ^ (-x.bc)), this]
  · have := abs_val_bounds ⟨x.sign, x.man, -x.bc, x.bc⟩ hm hbc
    simp only [neg_add_cancel, zero_sub, zpow_zero] at this
    constructor
    · have h12 : (2:ℚ) ^ (-1 : ℤ) = 1 / 2 := by norm_num
      rw [← h12]; exact this.1
    · exact this.2

example : frexp ⟨0, 15, -1, 4⟩ = .ok (⟨0, 15, -4, 4⟩, 3) := by decide   -- frexp(7.5) = (0.9375, 3)

/-- `frexp(0) = (0, 0)`; inf, -inf and nan raise ValueError. -/
theorem frexp_specials :
    frexp fzero = .ok (fzero, 0) ∧ frexp finf = .error .value ∧ frexp fninf = .error .value ∧
    frexp fnan = .error .value := by decide

/-! ### isint, isnpint, classification -/

/-- `isint(x)` for a canonical finite mpf: true exactly when the value is an integer. -/
theorem isint_iff (x : Mpf) (hc : CanonFin x) : isintF x = true ↔ ∃ n : ℤ, val x = n := isintF_iff x hc

/-- without canonicity the statement is false of the code: `(0, 4, -2, 3)` is the value 1 but `isint` says no
(such tuples are never produced by the library; recorded to show the hypothesis is needed). -/
theorem isint_noncanonical_counterexample :
    isintF ⟨0, 4, -2, 3⟩ = false ∧ val ⟨0, 4, -2, 3⟩ = ((1 : ℤ) : ℚ) := by
  refine ⟨by decide, ?_⟩
  simp [val]; norm_num

/-- `isint` of an mpc: real part an integer and imaginary part zero; with `gaussian=True` both integers. -/
theorem isint_mpc_iff (re im : Mpf) (hre : CanonFin re) (him : CanonFin im) :
    (isintC re im false = true ↔ (∃ n : ℤ, val re = n) ∧ val im = 0) ∧
    (isintC re im true = true ↔ (∃ n : ℤ, val re = n) ∧ ∃ k : ℤ, val im = k) := by
  constructor
  · simp only [isintC, Bool.false_eq_true, if_false, Bool.and_eq_true, beq_iff_eq,
      isintF_iff re hre, canonFin_zero_iff im him]
  · simp only [isintC, if_true, Bool.and_eq_true, isintF_iff re hre, isintF_iff im him]

/-- `isint` of an int is true; of an mpq `p/q` (`q > 0`) it is true exactly when `p/q` is an integer. -/
theorem isint_int_mpq (n p : Int) (q : Nat) (hq : 0 < q) :
    isintInt n = true ∧ ∃ b, isintQ p q = .ok b ∧ (b = true ↔ ∃ k : ℤ, (p : ℚ) / (q : ℚ) = k) :=
  ⟨rfl, isintQ_iff p q hq⟩

/-- `isnpint(x)` for a canonical finite mpf: true exactly when the value is an integer `≤ 0`. -/
theorem isnpint_iff (x : Mpf) (hc : CanonFin x) :
    isnpintF x = true ↔ ∃ n : ℤ, n ≤ 0 ∧ val x = n := isnpintF_iff x hc

/-- `isnpint` of an mpc: imaginary part zero and real part a nonpositive integer. -/
theorem isnpint_mpc_iff (re im : Mpf) (hre : CanonFin re) (him : CanonFin im) :
    isnpintC re im = true ↔ val im = 0 ∧ ∃ n : ℤ, n ≤ 0 ∧ val re = n := by
  unfold isnpintC
  split
  · rename_i h
    injection h with h1 h2
    subst h1; subst h2
    simp [val, fzero]; exact ⟨0, le_refl _, by simp⟩
  · simp only [Bool.and_eq_true, beq_iff_eq, isnpintF_iff re hre, canonFin_zero_iff im him]

/-- `isnpint` of an int, and of a reduced mpq. -/
theorem isnpint_int_mpq (n p : Int) (q : Nat) (hq : 0 < q) (hred : Int.gcd p q = 1) :
    (isnpintInt n = true ↔ n ≤ 0) ∧
    (isnpintQ p q = true ↔ ∃ k : ℤ, k ≤ 0 ∧ (p : ℚ) / (q : ℚ) = k) := by
  refine ⟨?_, isnpintQ_iff p q hq hred⟩
  unfold isnpintInt; split
  · rename_i h; simp [h]
  · simp

/-- special values are neither integers nor nonpositive integers -/
theorem isint_isnpint_specials :
    isintF finf = false ∧ isintF fninf = false ∧ isintF fnan = false ∧
    isnpintF finf = false ∧ isnpintF fninf = false ∧ isnpintF fnan = false ∧
    isintF fzero = true ∧ isnpintF fzero = true ∧ isnpintF fnone = true ∧ isnpintF fone = false := by decide

/-- the classification predicates in terms of the tuple: normal = nonzero mantissa; inf / nan = the special
tuples; finite = neither. -/
theorem classify_iff (x : Mpf) :
    (isnormalF x = true ↔ x.man ≠ 0) ∧ (isinfF x = true ↔ x = finf ∨ x = fninf) ∧
    (isnanF x = true ↔ x = fnan) ∧ (isfiniteF x = true ↔ x ≠ finf ∧ x ≠ fninf ∧ x ≠ fnan) := by
  refine ⟨by simp [isnormalF], by simp [isinfF], by simp [isnanF], ?_⟩
  simp [isfiniteF, isinfF, isnanF, not_or, and_assoc]

/-- for canonical tuples: `isnormal` ⇔ finite and nonzero; exactly one of zero / normal / inf / nan holds. -/
theorem isnormal_iff (x : Mpf) (hc : Canonical x) :
    isnormalF x = true ↔ (Finite x ∧ val x ≠ 0) := by
  rcases hc with rfl | rfl | rfl | rfl | ⟨_, hodd, hbc⟩
  · simp [isnormalF, fzero, val]
  · simp [isnormalF, finf, Finite]
  · simp [isnormalF, fninf, Finite]
  · simp [isnormalF, fnan, Finite]
  · have hm : x.man ≠ 0 := by omega
    have hfin : Finite x := fun h => hm h.1
    have hcf : CanonFin x := Or.inr ⟨by assumption, hodd, hbc⟩
    have : x ≠ fzero := by intro h; rw [h] at hm; simp [fzero] at hm
    simp only [isnormalF, bne_iff_ne, ne_eq, hm, not_false_eq_true, true_iff]
    exact ⟨hfin, fun h => this ((canonFin_zero_iff x hcf).mpr h)⟩

/-- the finite table of the classification helpers on 0, 1 and the three special values (mpf), and on
complex numbers with a special or zero part. -/
theorem classify_table :
    (isnormalF fzero, isinfF fzero, isnanF fzero, isfiniteF fzero) = (false, false, false, true) ∧
    (isnormalF fone, isinfF fone, isnanF fone, isfiniteF fone) = (true, false, false, true) ∧
    (isnormalF finf, isinfF finf, isnanF finf, isfiniteF finf) = (false, true, false, false) ∧
    (isnormalF fninf, isinfF fninf, isnanF fninf, isfiniteF fninf) = (false, true, false, false) ∧
    (isnormalF fnan, isinfF fnan, isnanF fnan, isfiniteF fnan) = (false, false, true, false) ∧
    (isnormalC fzero fzero, isnormalC fzero fone, isnormalC ftwo fnan, isnormalC fone finf)
      = (false, true, false, false) ∧
    (isinfC fone finf, isinfC fninf fone, isinfC fone fone, isnanC fone fnan, isnanC fnan finf, isnanC fone finf)
      = (true, true, false, true, true, false) ∧
    (isfiniteC fone fone, isfiniteC fone finf, isfiniteC fnan fone) = (true, false, false) ∧
    (isnormalInt 0, isnormalInt 3, isnormalQ 0 1, isnormalQ (-1) 2) = (false, true, false, true) := by decide

/-! ### nint_distance -/

/-- `nint_distance` on a nonzero canonical mpf returns `(n, d)` where
* `n` is a nearest integer: `|x - n| ≤ 1/2`; on a tie the code goes AWAY from zero (`|x| < |n|`);
* `d = -inf` exactly when `x` is an integer;
* otherwise `2^(d-1) ≤ |x - n| < 2^d` — in every branch (|x| < ½, half-integer, general). -/
theorem nint_distance_spec (x : Mpf) (hs : x.sign ≤ 1) (hodd : x.man % 2 = 1)
    (hbc : x.bc = (bitcount x.man : Int)) :
    ∃ (n : ℤ) (d : Dist), nintDistF x = .ok (n, d) ∧
      |val x - n| ≤ 1 / 2 ∧ (|val x - n| = 1 / 2 → |val x| < |(n : ℚ)|) ∧
      (d = .ninf ↔ ∃ k : ℤ, val x = k) ∧
      ∀ e, d = .fin e → (2:ℚ) ^ (e - 1) ≤ |val x - n| ∧ |val x - n| < (2:ℚ) ^ e := by
  obtain ⟨n, D, h1, h2, h3, h4, h5⟩ :=
    nintDistC_spec x fzero (Or.inr ⟨hs, hodd, hbc⟩) (Or.inl rfl)
  have hz : val fzero = 0 := by simp [val, fzero]
  rw [nintDistC_real] at h1
  rw [hz, abs_zero, max_eq_left (abs_nonneg _)] at h5
  refine ⟨n, D, h1, h2, h3, ?_, h5⟩
  rw [h4]; simp [hz]

example : nintDistF ⟨1, 5, -1, 3⟩ = .ok (-3, .fin 0) ∧ nintDistF ⟨0, 5, 0, 3⟩ = .ok (5, .ninf) ∧
    nintDistF ⟨0, 21, -2, 5⟩ = .ok (5, .fin (-1)) ∧ nintDistF ⟨0, 1, -3, 1⟩ = .ok (0, .fin (-2)) := by decide

/-- zero: `(0, -inf)`. -/
theorem nint_distance_zero : nintDistF fzero = .ok (0, .ninf) := by decide

/-- `nint_distance` on an mpc with canonical finite parts: `n` is a nearest integer to the REAL part (ties away
from zero), `d = -inf` exactly when the number is a real integer, otherwise
`2^(d-1) ≤ max(|Re x - n|, |Im x|) < 2^d`  (hence `2^(d-1) ≤ |x - n| < 2^(d+1/2)` in modulus). -/
theorem nint_distance_mpc_spec (re im : Mpf) (hre : CanonFin re) (him : CanonFin im) :
    ∃ (n : ℤ) (d : Dist), nintDistC re im = .ok (n, d) ∧
      |val re - n| ≤ 1 / 2 ∧ (|val re - n| = 1 / 2 → |val re| < |(n : ℚ)|) ∧
      (d = .ninf ↔ (∃ k : ℤ, val re = k) ∧ val im = 0) ∧
      ∀ e, d = .fin e → (2:ℚ) ^ (e - 1) ≤ max |val re - n| |val im| ∧
                        max |val re - n| |val im| < (2:ℚ) ^ e :=
  nintDistC_spec re im hre him

example : nintDistC ⟨0, 5, 0, 3⟩ ⟨0, 5, 1, 3⟩ = .ok (5, .fin 4) := by decide   -- nint_distance(mpc(5,10)) = (5, 4)

/-- an int is its own nearest integer at distance `-inf`. -/
theorem nint_distance_int (n : Int) : nintDistInt n = (n, .ninf) := rfl

/-- `nint_distance` on an mpq `p/q`, `q > 0`: `n` is a nearest integer, but here a tie goes UP (`x < n`, toward
+∞ — unlike the mpf branch); `d = -inf` exactly when `x = n`; otherwise the slack is a factor 2 either way:
`2^(d-1) < |x - n| < 2^(d+1)`. -/
theorem nint_distance_mpq_spec (p : Int) (q : Nat) (hq : 0 < q) :
    ∃ (n : ℤ) (d : Dist), nintDistQ p q = .ok (n, d) ∧
      |(p : ℚ) / (q : ℚ) - n| ≤ 1 / 2 ∧
      (|(p : ℚ) / (q : ℚ) - n| = 1 / 2 → (p : ℚ) / (q : ℚ) < n) ∧
      (d = .ninf ↔ (p : ℚ) / (q : ℚ) = n) ∧
      ∀ e, d = .fin e → (2:ℚ) ^ (e - 1) < |(p : ℚ) / (q : ℚ) - n| ∧
                        |(p : ℚ) / (q : ℚ) - n| < (2:ℚ) ^ (e + 1) :=
  nintDistQ_spec p q hq

/-- The two tie rules disagree on the same number: `-5/2` as an mpf gives `(-3, 0)`, as an mpq `(-2, -1)`.
(The docstring promises "the nearest integer" and leaves ties open; recorded as a finding.) -/
theorem nint_distance_tie_counterexample :
    nintDistF ⟨1, 5, -1, 3⟩ = .ok (-3, .fin 0) ∧ nintDistQ (-5) 2 = .ok (-2, .fin (-1)) := by decide

/-- "requires a finite number" is enforced for both parts (after the repair of the real-part check,
commit 8a0fe53: before it `nint_distance(inf)` returned `(0, -458)`): a special real OR imaginary part raises
ValueError. -/
theorem nint_distance_specials :
    nintDistF finf = .error .value ∧ nintDistF fninf = .error .value ∧ nintDistF fnan = .error .value ∧
    nintDistC finf fone = .error .value ∧ nintDistC fone finf = .error .value := by decide

/-- for all inputs: the result is an error exactly for a special (zero mantissa, not zero) real or
imaginary part. -/
theorem nint_distance_error_iff (re im : Mpf) :
    (∃ e, nintDistC re im = .error e) ↔ ((im.man = 0 ∧ im ≠ fzero) ∨ (re.man = 0 ∧ re ≠ fzero)) := by
  unfold nintDistC
  have core : ∀ D, (∃ e, nintDistCore re D = .error e) ↔ (re.man = 0 ∧ re ≠ fzero) := by
    intro D
    unfold nintDistCore
    by_cases h : re.man = 0 ∧ re ≠ fzero
    · rw [if_pos h]; exact ⟨fun _ => h, fun _ => ⟨_, rfl⟩⟩
    · rw [if_neg h]
      constructor
      · rintro ⟨e, he⟩
        exfalso
        simp only at he
        split at he
        · cases he
        · split at he
          · cases he
          · rename_i hm
            have hm0 : re.man = 0 := by simpa using hm
            split at he
            · cases he
            · rename_i hz; exact h ⟨hm0, hz⟩
      · intro h'; exact absurd h' h
  by_cases hm : im.man ≠ 0
  · rw [if_pos hm, core]
    constructor
    · intro h; exact Or.inr h
    · rintro (h | h)
      · exact absurd h.1 hm
      · exact h
  · rw [if_neg hm]
    have hm0 : im.man = 0 := by simpa using hm
    by_cases hz : im = fzero
    · rw [if_pos hz, core]
      constructor
      · intro h; exact Or.inr h
      · rintro (h | h)
        · exact absurd hz h.2
        · exact h
    · rw [if_neg hz]
      exact ⟨fun _ => Or.inl ⟨hm0, hz⟩, fun _ => ⟨_, rfl⟩⟩

end Mp
