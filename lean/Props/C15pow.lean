/-
  Props/C15pow.lean — C15, squares and integer powers of complex intervals (rectangles).

  For rectangles with finite canonical endpoints of any bit length, every precision and EVERY exponent n ≥ 0:
  `(x + iy)^n ∈ mpci_pow_int(Z, n)` for every `x + iy ∈ Z` — binary powering with interval multiplications and squarings at
  prec+20 (loop invariant `result ∋ z^k`, `X ∋ z^m`, `k + m·n = N`), final outward rounding to prec.  `cpowQ x y n` is the pair
  (Re, Im) of `(x + iy)^n` (`cpowQ_complex` in Props/C04pow.lean ties it to Mathlib's complex power).
  Negative exponents are `mpci_div (1, 0) (Z^n at prec+20)`: containment follows from `C15_div` whenever its positivity
  hypothesis on the enclosure of `|Z^n|²` holds (`C15_pow_int_neg`).
-/
import Props.C15div
import MpProofs.CIntervalPow

namespace Mp

theorem C15_square {Z : Mpci} (hZ : FinCi Z) {prec : ℤ} (hp : 0 ≤ prec) {x y : ℚ} (hz : MemCi x y Z) :
    FinCi (mpci_square Z prec) ∧ MemCi (x * x - y * y) (2 * (x * y)) (mpci_square Z prec) := by
  obtain ⟨f, m⟩ := mpci_square_sound (Z := Z) hZ hp hz
  have e : 2 * (x * y) = x * y + y * x := by ring
  rw [e]
  exact ⟨f, m⟩

theorem C15_pow_int_nonneg {Z : Mpci} (hZ : FinCi Z) (n : ℕ) {prec : ℤ} (hp : 0 ≤ prec) {x y : ℚ} (hz : MemCi x y Z) :
    ∃ r, mpci_pow_int Z (n : ℤ) prec = .ok r ∧ FinCi r ∧ MemCi (cpowQ x y n).1 (cpowQ x y n).2 r := by
  obtain ⟨f, m⟩ := mpciPowNat_sound (Z := Z) hZ n hp hz
  refine ⟨mpciPowNat Z n prec, ?_, f, m⟩
  unfold mpci_pow_int
  have : ¬ ((n : ℤ) < 0) := by omega
  simp only [this, if_false, Int.toNat_natCast]

theorem C15_pow_int_neg {Z : Mpci} (hZ : FinCi Z) (n : ℕ) {prec : ℤ} (hp : 0 < prec) {x y : ℚ} (hz : MemCi x y Z)
    (hn : 0 < n) (hden : 0 < val (cdivDen (mpciPowNat Z n (prec + 20)) prec).1) :
    ∃ r, mpci_pow_int Z (-(n : ℤ)) prec = .ok r ∧ FinCi r ∧
      MemCi ((1 * (cpowQ x y n).1 + 0 * (cpowQ x y n).2) / ((cpowQ x y n).1 * (cpowQ x y n).1 + (cpowQ x y n).2 * (cpowQ x y n).2))
        ((0 * (cpowQ x y n).1 - 1 * (cpowQ x y n).2) / ((cpowQ x y n).1 * (cpowQ x y n).1 + (cpowQ x y n).2 * (cpowQ x y n).2)) r := by
  obtain ⟨f, m⟩ := mpciPowNat_sound (Z := Z) hZ n (by omega : (0 : ℤ) ≤ prec + 20) hz
  have one_fin : FinCi (mpi_one, mpi_zero) :=
    ⟨⟨Or.inr ⟨by decide, by decide, by decide⟩, Or.inr ⟨by decide, by decide, by decide⟩, le_refl _⟩,
      ⟨canonFin_fzero, canonFin_fzero, le_refl _⟩⟩
  have one_mem : MemCi 1 0 (mpi_one, mpi_zero) := by
    have v1 : val fone = 1 := by simp [val, fone]
    simp [MemCi, MemIv, mpi_one, mpi_zero, v1, val_fzero]
  obtain ⟨r, hr, fr, mr⟩ := C15_div one_fin f hp hden one_mem m
  refine ⟨r, ?_, fr, mr⟩
  unfold mpci_pow_int
  have hneg : -(n : ℤ) < 0 := by omega
  simp only [hneg, if_true, neg_neg, Int.toNat_natCast]
  exact hr

/-! non-vacuity: ([1,2] + i[0,1])^3 at 53 bits -/
example : (mpciPowNat ((fone, ftwo), (fzero, fone)) 3 53).1 = (⟨1, 1, 2, 1⟩, ⟨0, 1, 3, 1⟩) := by decide
example : cpowQ 2 1 3 = (2, 11) := by norm_num [cpowQ]

end Mp
