/-
  Props/C27.lean — C27 (series, products, limits, extrapolation), level: translation validation with a
  PROVED validator, plus proofs of the pure index / table logic.

  Sampled (tie T2): the harness runs the real `nsum` (every acceleration method), `nprod`, `limit`, `sumem`,
  `sumap` on members of the families `Mp.Calc.Ser` / `Prd` / `Lim` (rational parameters), reads the result
  exactly and asks the compiled checker.  Proved here:
    * the closed form IS the limit of the partial sums / partial products / the limit of the function
      (Mathlib: geometric series, ζ(2) = π²/6, ζ(4) = π⁴/90, exp / sin / cos / log series, Leibniz' series,
      telescoping sums and products, `(1+t/x)^x → e^t`, difference quotients);
    * finite ranges: the model's exact partial sum / product is the finite sum / product of the terms;
    * two-sided and two-dimensional sums of these families (`s₁ + s₂`, `s₁·s₂`);
    * a verdict of the checker is a theorem: `|y − v| ≤ 2^(10−p)·|v|` ("accurate to within 2^(10−p) relative");
    * `nsum`'s index-range standardisation enumerates exactly the original index set (`standardize_spec`),
      the 2-D shell folding partitions ℕ×ℕ, finite folding is the iterated sum;
    * `richardson` (exact rational model of the code) returns `L` exactly on `s_i = L + Σ_{j≤M} c_j/i^j`.
  Not claimed: convergence of any acceleration method on any class; levin / cohen_alt tables are not modelled.
-/
import MpProofs.CalcSer
import MpProofs.CalcLogicA

namespace Mp
open Mp.Calc Mp.Encl Filter Topology Finset

/-- infinite series: the partial sums `Σ_{k=start}^{start+n-1} term k` tend to the closed form -/
theorem C27_series_sum (s : Ser) (r : Ref) (h : s.sumRef = some r) :
    Tendsto (fun n => ∑ k ∈ range n, s.term (s.start + k)) atTop (𝓝 r.sem) :=
  Ser.tendsto_partial s r h

/-- finite ranges: the exact rational `Ser.partial s a b` is `Σ_{k=a}^{b} term k` -/
theorem C27_finite_sum (s : Ser) (a b : ℕ) :
    ((s.partial a b : ℚ) : ℝ) = ∑ i ∈ range (b + 1 - a), s.term (a + i) :=
  Ser.partial_eq s a b

/-- infinite products: the partial products tend to the closed form -/
theorem C27_product (s : Prd) (r : Ref) (h : s.prodRef = some r) :
    Tendsto (fun n => ∏ k ∈ range n, s.factor (s.start + k)) atTop (𝓝 r.sem) :=
  Prd.tendsto_partial s r h

/-- finite products -/
theorem C27_finite_product (s : Prd) (a b : ℕ) :
    ((s.partial a b : ℚ) : ℝ) = ∏ i ∈ range (b + 1 - a), s.factor (a + i) :=
  Prd.partial_eq s a b

/-- limits: `l.fn x → l.limRef` as `x → +∞` (`ratSeq`, `euler`) resp. `x → 0, x ≠ 0` (`slopeExp`, `slopeSin`) -/
theorem C27_limit (l : Lim) (r : Ref) (h : l.limRef = some r) : Tendsto l.fn l.filter (𝓝 r.sem) :=
  Lim.tendsto l r h

/-- doubly infinite sums: with `f k = s₁.term (start₁ + k)` for `k ≥ 0` and `f (−k) = s₂.term (start₂ + k − 1)`
for `k ≥ 1`, the symmetric partial sums `Σ_{j=−n}^{n} f j` tend to `s₁ + s₂` (`sumRef2 s₁ s₂ false`) -/
theorem C27_two_sided (s1 s2 : Ser) (r : Ref) (h : sumRef2 s1 s2 false = some r) :
    Tendsto (fun n => ∑ k ∈ range (n + 1), s1.term (s1.start + k) + ∑ k ∈ range n, s2.term (s2.start + k))
      atTop (𝓝 r.sem) := by
  simp only [sumRef2, Option.bind_eq_bind, Option.pure_def] at h
  cases h1 : s1.sumRef with
  | none => simp [h1] at h
  | some r1 =>
    cases h2 : s2.sumRef with
    | none => simp [h1, h2] at h
    | some r2 =>
      simp only [h1, h2, Option.bind_some, Bool.false_eq_true, if_false, Option.some.injEq] at h
      subst h
      have t1 := (tendsto_add_atTop_iff_nat 1).2 (Ser.tendsto_partial s1 r1 h1)
      exact t1.add (Ser.tendsto_partial s2 r2 h2)

/-- two-dimensional sums of products `a_j·b_k`: the square partial sums (which `nsum`'s shell folding produces,
see `C27_shell_partial_sum`) tend to the product of the two sums (`sumRef2 s₁ s₂ true`) -/
theorem C27_product_2d (s1 s2 : Ser) (r : Ref) (h : sumRef2 s1 s2 true = some r) :
    Tendsto (fun n => ∑ j ∈ range n, ∑ k ∈ range n, s1.term (s1.start + j) * s2.term (s2.start + k))
      atTop (𝓝 r.sem) := by
  simp only [sumRef2, Option.bind_eq_bind, Option.pure_def] at h
  cases h1 : s1.sumRef with
  | none => simp [h1] at h
  | some r1 =>
    cases h2 : s2.sumRef with
    | none => simp [h1, h2] at h
    | some r2 =>
      simp only [h1, h2, Option.bind_some, if_true, Option.some.injEq] at h
      subst h
      exact tendsto_square_partial _ _ _ _ (Ser.tendsto_partial s1 r1 h1) (Ser.tendsto_partial s2 r2 h2)

/-- verdict `ok` in the mode used for C27 (`fl = 0`, non-strict): relative error within `2^(k−p)` -/
theorem C27_checker_ok (r : Ref) (y : Dy) (p k : ℕ) (h : checkClose r y p k 0 false = .ok) :
    |y.val - r.sem| ≤ (2 : ℝ) ^ ((k : ℤ) - (p : ℤ)) * |r.sem| := by
  have := (checkClose_sound_ok r y p k 0 false h).1 rfl
  simpa [tol] using this

/-- verdict `violates` ⇒ the relative error exceeds `2^(k−p)` -/
theorem C27_checker_violates (r : Ref) (y : Dy) (p k : ℕ) (h : checkClose r y p k 0 false = .violates) :
    (2 : ℝ) ^ ((k : ℤ) - (p : ℤ)) * |r.sem| < |y.val - r.sem| := by
  have := (checkClose_sound_violates r y p k 0 false h).1 rfl
  simpa [tol] using this

/-! ### index logic of `nsum` (exact model `MpModel/CalcLogicA.lean`) -/

/-- `standardize_spec`: the standardised series of a half-infinite / doubly infinite range enumerates exactly the
original index set, each index once: the first `n+1` standardised terms are the terms with index in
`[a, a+n]`, `[b−n, b]`, `[−n, n]` respectively -/
theorem C27_standardize_spec (f : ℤ → ℚ) (n : ℕ) :
    (∀ a, ∑ k ∈ range (n + 1), stdTerm (.toInf a) f k = ∑ j ∈ Icc a (a + n), f j) ∧
    (∀ b, ∑ k ∈ range (n + 1), stdTerm (.fromNegInf b) f k = ∑ j ∈ Icc (b - n) b, f j) ∧
    (∑ k ∈ range (n + 1), stdTerm .all f k = ∑ j ∈ Icc (-(n : ℤ)) n, f j) :=
  stdTerm_partial_sum f n

/-- `finite_nsum_exact`: over a finite range the folded summand is the exact finite sum (0 when `b < a`) -/
theorem C27_finite_nsum_exact (a b : ℤ) (f : ℤ → ℚ) (k : ℕ) :
    stdTerm (.fin a b) f k = ∑ j ∈ Icc a b, f j :=
  stdTerm_fin a b f k

/-- 2-D infinite × infinite: the shells `max(x,y) = n` produced by `fold_infinite` partition ℕ×ℕ -/
theorem C27_shell_partial_sum (f : ℕ → ℕ → ℚ) (N : ℕ) :
    ∑ n ∈ range (N + 1), shell f n = ∑ x ∈ range (N + 1), ∑ y ∈ range (N + 1), f x y :=
  shell_partial_sum f N

/-- 2-D finite × finite: `fold_finite` over the cartesian product is the iterated sum -/
theorem C27_fold_finite_2d (f : ℤ → ℤ → ℚ) (a1 b1 a2 b2 : ℤ) :
    foldFinite2 f a1 b1 a2 b2 = ∑ x ∈ Icc a1 b1, ∑ y ∈ Icc a2 b2, f x y :=
  foldFinite2_eq f a1 b1 a2 b2

/-- `richardson_exact`: on `seq[i] = L + c₁/i + … + c_M/i^M` (the entries actually read, `N ≤ i ≤ 2N`,
`N = len/2 − 1`, `M ≤ N`, no-subsampling branch) the code's weighted sum returns `L` exactly -/
theorem C27_richardson_exact (seq : List ℚ) (N M : ℕ) (L : ℚ) (c : ℕ → ℚ)
    (hlen : 3 ≤ seq.length) (hN : N = seq.length / 2 - 1) (hM : M ≤ N)
    (hsign : richSignTest seq = false)
    (hs : ∀ i, N ≤ i → i ≤ 2 * N → seq.getD i 0 = L + ∑ j ∈ Icc 1 M, c j / (i : ℚ) ^ j) :
    ∃ maxc, richardson seq = .ok (L, maxc) :=
  richardson_exact seq N M L c hlen hN hM hsign hs

/-- the model of `richardson` never raises on a list of length ≥ 3 (no IndexError, no division by zero), in either branch of the sign test -/
theorem C27_richardson_total (seq : List ℚ) (hlen : 3 ≤ seq.length) : ∃ r, richardson seq = .ok r :=
  richardson_ok seq hlen

-- non-vacuity
example : (Ser.geom 3 (1 / 2) 2).sumRef ≠ none := by decide +kernel
example : checkClose (Ser.zeta2.sumRef.getD (.rat 0)) ⟨7408124450506707, -52⟩ 53 10 0 false = .ok := by decide +kernel
example : checkClose (Ser.zeta2.sumRef.getD (.rat 0)) ⟨13, -3⟩ 53 10 0 false = .violates := by decide +kernel
example : ∃ maxc, richardson [0, 2, 3 / 2, 4 / 3, 5 / 4] = .ok (1, maxc) :=
  C27_richardson_exact _ 1 1 1 (fun _ => 1) (by decide) (by decide) le_rfl (by decide +kernel)
    (by intro i h1 h2; have : i = 1 ∨ i = 2 := by omega
        rcases this with rfl | rfl <;> norm_num)

end Mp
