/-
  Props/C03.lean — C03: integer powers are never rounded past the exact value.

  `mpf_pow_int` (libmpf.py) for every finite canonical base, every integer exponent, every precision ≥ 1 and
  every rounding mode:
    * directed modes: the result is never on the wrong side of the exact power (`OnSide`);
    * exact results are returned exactly;
    * nearest mode: the result is a faithful rounding (one of the two neighbours of the exact power, so the
      error is below one unit in the last place);
    * results whose exact value needs few bits (`n ≤ 2`, power-of-two base, or `bc·n < 1000`) are correctly rounded;
    * `0 ** negative` raises, and the special values follow the documented table.
  The statements are about the model `Mp.mpf_pow_int` (MpModel/Core.lean), tied bit-for-bit to the Python function
  by the correspondence run of the check (op `pow_int`).
-/
import MpProofs.Pow

namespace Mp

/-- **C03, main statement.**  For a finite canonical base `s`, an integer exponent `n` (any sign and size), a precision
`prec ≥ 1` and any rounding mode, `mpf_pow_int` returns a canonical value of at most `prec` bits which
(1) is not on the wrong side of the exact power for a directed mode, (2) is a faithful rounding of it in nearest mode,
(3) equals it whenever the exact power is representable with `prec` bits.  (`0 ** n` with `n < 0` is excluded:
it raises, see `C03_zero_to_negative_raises`.) -/
theorem C03_pow_int {s : Mpf} (hs : CanonFin s) (n : Int) (h0 : s ≠ fzero ∨ 0 ≤ n) {prec : Int} (hp : 0 < prec)
    (rnd : Rnd) :
    ∃ r, mpf_pow_int s n prec rnd = .ok r ∧ CanonFin r ∧ r.bc ≤ prec ∧
      OnSide rnd (val s ^ n) (val r) ∧
      (rnd = .n → Faithful prec.toNat (val s ^ n) (val r)) ∧
      (Repb prec.toNat (val s ^ n) → val r = val s ^ n) := by
  by_cases hn : 0 ≤ n
  · obtain ⟨m, rfl⟩ : ∃ m : ℕ, n = m := ⟨n.toNat, by omega⟩
    have hP := powIntPos_spec hs m hp rnd
    refine ⟨powIntPos s m prec rnd, ?_, hP.canon, hP.bc_le, ?_, ?_, ?_⟩
    · unfold mpf_pow_int
      simp only [hs.finite, Bool.false_eq_true, if_false, ge_iff_le, Int.natCast_nonneg, if_true, Int.toNat_natCast]
    · rw [zpow_natCast]; exact hP.side
    · rw [zpow_natCast]; exact hP.faithful
    · rw [zpow_natCast]; exact powIntPos_exact hs m hp rnd
  · have hs0 : s ≠ fzero := by rcases h0 with h | h; exact h; exact absurd h hn
    obtain ⟨r, hr, hP⟩ := mpf_pow_int_neg_spec hs hs0 (by omega : n < 0) hp rnd
    refine ⟨r, hr, hP.canon, hP.bc_le, hP.side, hP.faithful, fun hrep => ?_⟩
    obtain ⟨r', hr', hv⟩ := mpf_pow_int_neg_exact hs hs0 (by omega : n < 0) hp rnd hrep
    rw [hr] at hr'
    cases hr'
    exact hv

/-- the meaning of `OnSide`, mode by mode -/
theorem C03_onSide_floor {x y : ℚ} (h : OnSide .f x y) : y ≤ x := h
theorem C03_onSide_ceiling {x y : ℚ} (h : OnSide .c x y) : x ≤ y := h
theorem C03_onSide_down {x y : ℚ} (h : OnSide .d x y) : |y| ≤ |x| ∧ 0 ≤ x * y := by
  rcases le_total 0 x with hx | hx
  · obtain ⟨h1, h2⟩ := h.1 hx
    exact ⟨by rw [abs_of_nonneg h1, abs_of_nonneg hx]; exact h2, mul_nonneg hx h1⟩
  · obtain ⟨h1, h2⟩ := h.2 hx
    exact ⟨by rw [abs_of_nonpos h2, abs_of_nonpos hx]; linarith, mul_nonneg_of_nonpos_of_nonpos hx h2⟩
theorem C03_onSide_up {x y : ℚ} (h : OnSide .u x y) : |x| ≤ |y| := by
  rcases le_total 0 x with hx | hx
  · have := h.1 hx
    rw [abs_of_nonneg hx, abs_of_nonneg (le_trans hx this)]; exact this
  · have := h.2 hx
    rw [abs_of_nonpos hx, abs_of_nonpos (le_trans this hx)]; linarith

/-- a faithful rounding is within one unit in the last place: relative error at most `2^(1-p)` -/
theorem C03_faithful_one_ulp {p : ℕ} (hp : 0 < p) {x y : ℚ} (h : Faithful p x y) :
    |y - x| ≤ |x| * 2 ^ (1 - (p : ℤ)) := h.relerr hp

/-- **small exact powers are correctly rounded** (all five modes): `n ≤ 2`, a power-of-two base, or `bc·n < 1000`. -/
theorem C03_small_correctly_rounded {s : Mpf} (hs : CanonFin s) {n : Nat}
    (h : n ≤ 2 ∨ s.man = 1 ∨ s.bc * n < 1000) {prec : Int} (hp : 0 < prec) (rnd : Rnd) :
    ∃ r, mpf_pow_int s n prec rnd = .ok r ∧ RoundOK prec rnd (val s ^ n) r := by
  refine ⟨powIntPos s n prec rnd, ?_, powIntPos_small_spec hs h hp rnd⟩
  unfold mpf_pow_int
  simp only [hs.finite, Bool.false_eq_true, if_false, ge_iff_le, Int.natCast_nonneg, if_true, Int.toNat_natCast]

/-- `0 ** n` raises ZeroDivisionError for every negative `n` -/
theorem C03_zero_to_negative_raises {n : Int} (hn : n < 0) (prec : Int) (rnd : Rnd) :
    mpf_pow_int fzero n prec rnd = .error .zeroDiv := mpf_pow_int_zero_neg hn prec rnd

/-- special values: `inf**n`, `(-inf)**n`, `nan**n` -/
theorem C03_specials (n : Int) (prec : Int) (rnd : Rnd) :
    mpf_pow_int finf n prec rnd = .ok (if n > 0 then finf else if n = 0 then fnan else fzero) ∧
    mpf_pow_int fninf n prec rnd =
      .ok (if n > 0 then (if n % 2 = 0 then finf else fninf) else if n = 0 then fnan else fzero) ∧
    mpf_pow_int fnan n prec rnd = .ok fnan := by
  refine ⟨?_, ?_, ?_⟩ <;> simp [mpf_pow_int, isSpecial, finf, fninf, fnan]

/-- the mode swap for negative exponents is the one that keeps the direction -/
theorem C03_reciprocal_mode_swap :
    reciprocalRnd .f = .c ∧ reciprocalRnd .c = .f ∧ reciprocalRnd .d = .u ∧ reciprocalRnd .u = .d ∧
    reciprocalRnd .n = .n := ⟨rfl, rfl, rfl, rfl, rfl⟩

/-- the bit-count bookkeeping of the loop (`bc = b1 + b2 - 2; bc += bctable[P >> bc]`) is exact -/
theorem C03_loop_bitcount {m1 m2 : Nat} (h1 : m1 ≠ 0) (h2 : m2 ≠ 0) :
    (bitcount m1 : Int) + bitcount m2 - 2 +
      (bitcount ((m1 * m2) >>> ((bitcount m1 : Int) + bitcount m2 - 2).toNat) : Int) = (bitcount (m1 * m2) : Int) :=
  prod_bc (WB.of_bitcount h1) (WB.of_bitcount h2)

/-! non-vacuity: the hypotheses are met by concrete inputs in the binary-exponentiation regime, and the
computed results are on the stated side -/
example : CanonFin ⟨0, 3, 0, 2⟩ ∧ ¬ ((⟨0, 3, 0, 2⟩ : Mpf).bc * (1000 : Nat) < 1000) := by decide
example : CanonFin ⟨1, 7, -2, 3⟩ ∧ (⟨1, 7, -2, 3⟩ : Mpf) ≠ fzero := by decide
example : mpf_pow_int ⟨0, 3, 0, 2⟩ 5 53 .f = .ok ⟨0, 243, 0, 8⟩ := by decide
example : mpf_pow_int ⟨1, 3, 0, 2⟩ (-1) 4 .f = .ok ⟨1, 11, -5, 4⟩ ∧ mpf_pow_int ⟨1, 3, 0, 2⟩ (-1) 4 .c = .ok ⟨1, 5, -4, 3⟩ := by
  decide

end Mp
