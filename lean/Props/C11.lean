/-
  Props/C11.lean — "Working precision is restored after every call, normal or failing".

  Reading guide (definitions are in MpModel/Skel.lean, MpModel/PrecConv.lean):
    St            the pair (prec, dps) stored in the context (`ctx._prec`, `ctx._dps`)
    St.setPrec    `ctx.prec = n` :  prec := max(1, n),        dps := prec_to_dps(n)
    St.setDps     `ctx.dps  = n` :  prec := dps_to_prec(n),   dps := max(1, n)
    Stmt          skeleton of a Python function (generated from /repo by tools/skel_extract.py)
    run p σ env sched   executes skeleton p from context state σ, local variables env, under the
                  fault/choice schedule sched (which calls raise, what leaky callees leave behind,
                  branch choices, loop counts, values written); result = (outcome, final config);
                  outcome ∈ normal | returned | raised | broke | continued
    .obs          the context states a consumer sees at each `yield` of a generator skeleton
    bracketed p   the decidable syntactic check (see `okG`)
-/
import MpProofs.Skel
import MpProofs.PrecConvRoundtrip

namespace Mp
open Mp.Skel

/-- A context state as the two setters leave it: `prec ≥ 1` and `dps = prec_to_dps(prec)`.
    (`mp.prec = n` always gives such a state, see `setPrec_consistent`; `mp.dps = d` does when
    `prec_to_dps(dps_to_prec(d)) = d`, see `setDps_wf_partial`.) -/
def Skel.St.WF (σ : St) : Prop := 1 ≤ σ.prec ∧ σ.dps = precToDps σ.prec

/-! ## The soundness theorem (proved once; the generated file supplies `bracketed skel_f = true`) -/

/-- **C11, core.** If a skeleton passes the syntactic check, then from every well-formed initial
    state, with any values in the local variables and under every fault schedule, the context state
    after the call — whatever the outcome: normal, `return`, exception, … — is the initial one,
    and so is every state observable at a `yield`. -/
theorem bracketed_sound (p : Stmt) (h : bracketed p = true)
    (σ : St) (hσ : σ.WF) (env : Var → Int) (sched : List Int) :
    (run p σ env sched).2.st = σ ∧ ∀ x ∈ (run p σ env sched).2.obs, x = σ := by
  have key : ∀ x : St, Skel.Inv σ.prec σ.dps x → x = σ := by
    intro x hx
    cases x with
    | mk xp xd =>
      cases σ with
      | mk sp sd =>
        simp only [Skel.Inv] at hx
        have h2 : sd = precToDps sp := hσ.2
        simp only [St.mk.injEq]
        refine ⟨hx.1, ?_⟩
        rcases hx.2 with h3 | h3
        · exact h3
        · exact h3.trans h2.symm
  have A := okG_sound σ.prec σ.dps hσ.1 p false [] ⟨σ, env, sched, []⟩ h
    (by intro v hv; cases hv) (fun _ => ⟨rfl, Or.inl rfl⟩) (by intro x hx; cases hx)
  exact ⟨key _ A.1, fun x hx => key _ (A.2.1 x hx)⟩

/-- Without the assumption `dps = prec_to_dps(prec)` on the initial state: `prec` is still restored
    exactly, and `dps` is either untouched or what the `prec` setter recomputes. -/
theorem bracketed_sound_prec (p : Stmt) (h : bracketed p = true)
    (σ : St) (hσ : 1 ≤ σ.prec) (env : Var → Int) (sched : List Int) :
    (run p σ env sched).2.st.prec = σ.prec ∧
    ((run p σ env sched).2.st.dps = σ.dps ∨ (run p σ env sched).2.st.dps = precToDps σ.prec) :=
  (okG_sound σ.prec σ.dps hσ p false [] ⟨σ, env, sched, []⟩ h
    (by intro v hv; cases hv) (fun _ => ⟨rfl, Or.inl rfl⟩) (by intro x hx; cases hx)).1

/-- Functions whose skeleton has no precision write, no leaky callee and no manager (the ones the
    translator does not emit) pass the check, so `bracketed_sound` applies to them. -/
theorem effectFree_bracketed (p : Stmt) (h : effectFree p = true) : bracketed p = true :=
  effectFree_ok p [] h

/-- non-vacuity: the shape of `PythonMPContext._wrap_specfun.f_wrapped`
    (`args = [convert(a) …]; prec = ctx.prec; try: ctx.prec += 10; retval = f(…) finally: ctx.prec = prec;
    return +retval`), with `f` allowed to leave *any* precision behind. -/
def wrapSpecfunSkel : Stmt :=
  .seq .call (.seq (.save 0 .prec)
    (.seq (.tryFinally (.seq (.setPrec .other) .callLeaky) (.setPrec (.saved 0)))
      (.seq .call .ret)))

example : bracketed wrapSpecfunSkel = true := by decide
example : (St.mk 101 29).WF := by constructor <;> decide +kernel
-- the callee leaves (prec, dps) = (7777, 3) and raises: the wrapper still restores 101
example : (run wrapSpecfunSkel ⟨101, 29⟩ (fun _ => 0) [0, 111, 7777, 3, 1]).1 = .raised
    ∧ (run wrapSpecfunSkel ⟨101, 29⟩ (fun _ => 0) [0, 111, 7777, 3, 1]).2.st = ⟨101, 29⟩ := by
  decide +kernel

/-- non-vacuity, negative: the shape of `lambertw` (functions/functions.py:463-490):
    `prec = ctx.prec; ctx.prec += …; <calls>; ctx.prec = prec; return +w` — no `try/finally`. -/
def lambertwSkel : Stmt :=
  .seq (.save 0 .prec) (.seq (.setPrec .other) (.seq .call (.seq (.setPrec (.saved 0)) .ret)))

example : bracketed lambertwSkel = false := by decide

/-- The check rejects `lambertwSkel` for a reason: if the inner call raises, the raised precision
    stays (53 ↦ 80). -/
theorem unbracketed_leaks_counterexample :
    (run lambertwSkel ⟨53, 15⟩ (fun _ => 0) [80, 1]).1 = .raised ∧
    (run lambertwSkel ⟨53, 15⟩ (fun _ => 0) [80, 1]).2.st.prec = 80 := by decide +kernel

/-! ## Restoring through `dps` is not restoring -/

/-- `dps_to_prec(prec_to_dps(101)) = 100` (binary64 model of libmpf.py:59-67). -/
theorem dps_restore_unsound : ∃ p : Int, 1 ≤ p ∧ dpsToPrec (precToDps p) ≠ p :=
  ⟨101, by decide, by decide +kernel⟩

/-- the shape of the `inverselaplace` rule objects: `d = ctx.dps; ctx.dps = goal; …; ctx.dps = d`,
    here even with a `try/finally` around it -/
def dpsRestoreSkel : Stmt :=
  .seq (.save 0 .dps) (.tryFinally (.seq (.setDps .other) .call) (.setDps (.saved 0)))

/-- The check rejects it … -/
example : bracketed dpsRestoreSkel = false := by decide

/-- … and rightly: from the well-formed state (prec, dps) = (101, 29), normal return, the final
    precision is 100. -/
theorem dps_restore_counterexample :
    (St.mk 101 29).WF ∧
    (run dpsRestoreSkel ⟨101, 29⟩ (fun _ => 0) [40, 0]).1 = .normal ∧
    (run dpsRestoreSkel ⟨101, 29⟩ (fun _ => 0) [40, 0]).2.st = ⟨100, 29⟩ := by
  refine ⟨⟨by decide, by decide +kernel⟩, by decide +kernel, by decide +kernel⟩

/-! ## The setters and the documented conversion formulas -/

/-- after `ctx.prec = n`: `prec = max(1, n)`, `dps = prec_to_dps(n)`, and the state is well-formed -/
theorem setPrec_consistent (σ : St) (n : Int) :
    (σ.setPrec n).prec = max 1 n ∧ (σ.setPrec n).dps = precToDps n ∧ (σ.setPrec n).WF := by
  refine ⟨rfl, rfl, ?_, ?_⟩
  · show 1 ≤ max 1 n
    omega
  · show precToDps n = precToDps (max 1 n)
    by_cases hn : 1 ≤ n
    · rw [show max 1 n = n by omega]
    · rw [show max 1 n = 1 by omega]
      have h1 : precToDps n = 1 := by
        unfold precToDps; rw [if_pos (by omega)]
      rw [h1]; decide +kernel

/-- after `ctx.dps = n` (n ≥ 1): `prec = dps_to_prec(n)` and `dps = n` -/
theorem setDps_consistent (σ : St) (n : Int) (hn : 1 ≤ n) :
    (σ.setDps n).prec = dpsToPrec n ∧ (σ.setDps n).dps = n := by
  refine ⟨rfl, ?_⟩
  show max 1 n = n
  omega

/-- `prec_to_dps(dps_to_prec(d)) = d` for `1 ≤ d ≤ 1024`, by kernel evaluation of the binary64 model.
    BOUNDED (design: 10^6): the kernel needs ≈10 ms per value; the harness checks the identity on
    CPython and model-vs-CPython agreement exhaustively to 10^6. -/
theorem dps_prec_roundtrip_partial (d : Nat) (h1 : 1 ≤ d) (h2 : d ≤ 1024) :
    precToDps (dpsToPrec d) = d := precToDps_dpsToPrec d h1 h2

/-- hence `ctx.dps = d` gives a well-formed state (for those d) -/
theorem setDps_wf_partial (σ : St) (d : Nat) (h1 : 1 ≤ d) (h2 : d ≤ 1024) : (σ.setDps d).WF := by
  constructor
  · show 1 ≤ dpsToPrec d
    unfold dpsToPrec
    split
    · omega
    · omega
  · show max 1 (d : Int) = precToDps (dpsToPrec d)
    rw [precToDps_dpsToPrec d h1 h2]; omega

/-- the default context (53, 15) and the harness' starting precisions are well-formed -/
example : (St.mk 53 15).WF ∧ ((St.mk 0 0).setPrec 100).WF ∧ ((St.mk 0 0).setPrec 167).WF :=
  ⟨⟨by decide, by decide +kernel⟩, (setPrec_consistent _ _).2.2, (setPrec_consistent _ _).2.2⟩

/-! ## PrecisionManager (workprec / workdps / extraprec / extradps) -/

/-- `with ctx.workprec(n): body` etc.: if the manager object is not re-entered or overwritten inside
    `body` (always true for the usual `with ctx.workprec(…)`, which creates a fresh object) and the
    body does not `yield`, the state on exit — normal or exceptional, including `__enter__`
    raising — is the state on entry, whatever the body did to the precision. -/
theorem precisionManager_restores (m : Var) (f : Field) (body : Stmt)
    (hm : m ∉ kills body) (hy : hasYield body = false)
    (σ : St) (hσ : σ.WF) (env : Var → Int) (sched : List Int) :
    (run (.withMgr m f body) σ env sched).2.st = σ := by
  refine (bracketed_sound (.withMgr m f body) ?_ σ hσ env sched).1
  simp [bracketed, okG, hm, hy]

/-- non-vacuity: a body that sets the precision and calls something leaky -/
example : (0 : Var) ∉ kills (.seq (.setDps .other) .callLeaky) ∧
    hasYield (.seq (.setDps .other) .callLeaky) = false := by decide

/-- decorator form, `PrecisionManager.__call__` (ctx_mp.py:1307-1325):
    `orig = ctx.prec; try: (ctx.prec = precfun(…) | ctx.dps = dpsfun(…)); v = f(…); return +v
     finally: ctx.prec = orig` -/
def managerDecoratorSkel (f : Stmt) : Stmt :=
  .seq (.save 0 .prec)
    (.tryFinally
      (.seq (.ite (.seq .call (.setPrec .other)) (.seq .call (.setDps .other))) (.seq f (.seq .call .ret)))
      (.setPrec (.saved 0)))

theorem precisionManager_decorator_restores (f : Stmt)
    (hm : (0 : Var) ∉ kills f) (hy : hasYield f = false)
    (σ : St) (hσ : σ.WF) (env : Var → Int) (sched : List Int) :
    (run (managerDecoratorSkel f) σ env sched).2.st = σ := by
  refine (bracketed_sound _ ?_ σ hσ env sched).1
  simp [bracketed, managerDecoratorSkel, okG, after, kills, hasYield, diff, hm, hy]

/-- D8: entering the *same* manager object twice (`wp = mp.workprec(100); with wp: with wp: pass`).
    `origp` lives on the object, the inner `__enter__` overwrites it: 53 ↦ 100. -/
def reentrantSkel : Stmt := .withMgr 0 .prec (.withMgr 0 .prec .skip)

example : bracketed reentrantSkel = false := by decide

theorem precisionManager_reentrant_counterexample :
    (run reentrantSkel ⟨53, 15⟩ (fun _ => 0) [0, 100, 0, 100]).1 = .normal ∧
    (run reentrantSkel ⟨53, 15⟩ (fun _ => 0) [0, 100, 0, 100]).2.st = ⟨100, 29⟩ := by
  decide +kernel

/-- a generator that yields inside a `with workprec` exposes the raised precision to its consumer -/
def yieldInsideSkel : Stmt := .withMgr 0 .prec (.loop (.seq .call .yld))

example : bracketed yieldInsideSkel = false := by decide

theorem yield_inside_manager_counterexample :
    (run yieldInsideSkel ⟨53, 15⟩ (fun _ => 0) [0, 200, 1, 0]).2.st = ⟨53, 15⟩ ∧
    (run yieldInsideSkel ⟨53, 15⟩ (fun _ => 0) [0, 200, 1, 0]).2.obs = [⟨200, 59⟩] := by
  decide +kernel

end Mp
