/-
  Props/C32.lean — C32: matrix functions are mutually consistent.

  Technique: VERIFIED CERTIFICATE CHECKING (see Props/C31.lean).  Each factor of a composite identity
  (`logm A`, then `expm` of it; `sqrtm A`; `powm A k`; `cosm A`, `sinm A`) is computed by the real
  mpmath routine and read exactly; the identity is then evaluated in exact Gaussian-dyadic arithmetic.
  The theorems say what the checker's answer means for the denoted complex matrices
  (`frob` = Frobenius norm, `p` = working precision, "relative error ‖A‖·2^(10−p)" instantiated as
  absolute error 2^(10−p)·‖A‖_F·max(1,‖A‖_F)):

    closeCheck  = true ↔ ‖X − A‖_F        ≤ 2^(10−p)·‖A‖_F·max(1,‖A‖_F)          (X = expm(logm A))
    sqrtmCheck  = true ↔ ‖S·S − A‖_F      ≤ 2^(10−p)·‖A‖_F·max(1,‖A‖_F)
    powmCheck   = true ↔ ‖P − A^k‖_F      ≤ 2^(10−p)·‖A‖_F^k·max(1,‖A‖_F)        (A^k exact)
    cosSinCheck = true ↔ ‖C² + S² − I‖_F  ≤ 2^(10−p)·max(1,‖A‖_F)·max(√n, ‖C‖_F² + ‖S‖_F²)
  `expm(D) = diag(exp d)` needs enclosures of exp and is checked in the harness only.
-/
import MpProofs.CertResid

namespace Mp

open Mp.Cert Matrix

/-- `expm(logm(A)) = A`: X is the computed `expm(logm(A))`. -/
theorem closeCheck_iff (n : ℕ) (p : ℤ) (A X : Mat) :
    closeCheck n p A X = true ↔
      frob (toMat n n X - toMat n n A)
        ≤ (2:ℝ) ^ (10 - p) * (frob (toMat n n A) * max 1 (frob (toMat n n A))) := by
  rw [closeCheck, frobLe_iff (toReal_mul_nonneg (frob2_nonneg _ _ _) (max1_nonneg _)), toMat_msub,
    sqrt_frob2_mul_max1]

/-- `sqrtm(A)² = A`: S is the computed `sqrtm(A)`. -/
theorem sqrtmCheck_iff (n : ℕ) (p : ℤ) (A S : Mat) :
    sqrtmCheck n p A S = true ↔
      frob (toMat n n S * toMat n n S - toMat n n A)
        ≤ (2:ℝ) ^ (10 - p) * (frob (toMat n n A) * max 1 (frob (toMat n n A))) := by
  rw [sqrtmCheck, frobLe_iff (toReal_mul_nonneg (frob2_nonneg _ _ _) (max1_nonneg _)), sqrtmResid,
    toMat_msub, toMat_mmul, sqrt_frob2_mul_max1]

/-- `powm(A, k) = A^k` for a natural exponent: P is the computed `powm(A, k)`, `A^k` the exact power. -/
theorem powmCheck_iff (n k : ℕ) (p : ℤ) (A P : Mat) :
    powmCheck n k p A P = true ↔
      frob (toMat n n P - toMat n n A ^ k)
        ≤ (2:ℝ) ^ (10 - p) * (frob (toMat n n A) ^ k * max 1 (frob (toMat n n A))) := by
  have h0 : 0 ≤ (Dy.pow (frob2 n n A) k).toReal := by
    rw [Dy.toReal_pow]; exact pow_nonneg (frob2_nonneg _ _ _) k
  rw [powmCheck, frobLe_iff (toReal_mul_nonneg h0 (max1_nonneg _)), toMat_msub, toMat_mpow,
    sqrt_frob2_pow_mul_max1]

/-- `cosm(A)² + sinm(A)² = I`: C, S are the computed `cosm(A)`, `sinm(A)`. -/
theorem cosSinCheck_iff (n : ℕ) (p : ℤ) (A C S : Mat) :
    cosSinCheck n p A C S = true ↔
      frob (toMat n n C * toMat n n C + toMat n n S * toMat n n S - 1)
        ≤ (2:ℝ) ^ (10 - p) * (max 1 (frob (toMat n n A)) *
            max (Real.sqrt n) (frob (toMat n n C) ^ 2 + frob (toMat n n S) ^ 2)) := by
  have h0 : 0 ≤ (Dy.max (Dy.ofNat n)
      ((frob2 n n C + frob2 n n S) * (frob2 n n C + frob2 n n S))).toReal := by
    rw [Dy.toReal_max, Dy.toReal_ofNat]
    exact le_trans (Nat.cast_nonneg n) (le_max_left _ _)
  rw [cosSinCheck, frobLe_iff (toReal_mul_nonneg (max1_nonneg _) h0), cosSinResid, toMat_msub,
    toMat_madd, toMat_mmul, toMat_mmul, toMat_ident, sqrt_cosSin_scale]

/-- non-vacuity: A = 4·I₁, S = 2 passes; S = 3 fails -/
example : sqrtmCheck 1 53 [[⟨⟨4,0⟩,⟨0,0⟩⟩]] [[⟨⟨2,0⟩,⟨0,0⟩⟩]] = true := by decide
example : sqrtmCheck 1 53 [[⟨⟨4,0⟩,⟨0,0⟩⟩]] [[⟨⟨3,0⟩,⟨0,0⟩⟩]] = false := by decide

end Mp
