/-
  Props/C34.lean — C34 (`odefun`), level: translation validation with a PROVED validator for the values,
  plus theorems about the MODEL of the segment store for the order-of-evaluation clause.

  Property text: "For linear and polynomial ODE systems with closed-form solutions, the interpolant returned
  by odefun agrees with the exact solution to within the requested tolerance (default about 2^(10-p)) at every
  point x >= x0.  Its values do not depend on the order in which points are evaluated or on precision changes
  between evaluations."

  (1) Values.  The quantifier "for all systems / points / precisions" is sampled: the harness runs the real
  `odefun` on members of `Mp.Calc.Ode` (`y' = a·y`; the 2-vector system `y0' = y1, y1' = −w²·y0`; the
  polynomial problem `y' = −y²`; all with rational data), reads each component of the interpolant's value at a
  rational point `x ≥ x0` exactly as a dyadic `y`, and asks the compiled checker
  `checkClose (o.solRef i x) y p k 1 false`.  Proved here:
    * the reference denotes the closed form (`C34_solution_ref`), the closed form solves the initial value
      problem (`C34_is_solution…`), and it is the ONLY solution on `[x0, T]` (`C34_unique_…`, Grönwall; for
      `y' = −y²` without any positivity assumption on the competitor) — so "the exact solution" is well defined
      and equals `Ode.sol`;
    * a verdict `ok` / `violates` of the executable checker is a theorem about that solution:
      `|y − y_i(x)| ≤ 2^(k−p)·max(|y_i(x)|, 1)` resp. its negation (`C34_odeCheck_sound/_violates`).
  (2) Order of evaluation.  `Mp.Calc.getSeries` models `get_series` (`odes.py` lines 251-267: `bisect` on
  `series_boundaries`, the `while 1` extension loop) over abstract numerics `step` (= `ode_taylor`) and `endval`
  (= `mpolyval` at the right end).  The full-strength statement "the segment answering `x` is the same in every
  history" is FALSE of the code: `C34_order_independent_counterexample`, `C34_order_dependent_trace` (a query
  that hits a segment boundary exactly is answered from the LEFT segment by the call that creates the boundary
  and from the RIGHT segment afterwards).  What holds, for ALL histories:
    * the store is always a prefix of ONE canonical segment sequence (`C34_segments_prefix`);
    * which segment answers (`C34_getSeries_spec`);
    * off the boundary points the answering segment is a function of `x` alone
      (`C34_order_independent_off_boundaries`); a point strictly inside the stored range is answered the same
      way now and after any later queries (`C34_order_independent_given_stored`);
    * the `while 1` loop terminates when segments have positive length and the boundaries are unbounded
      (`C34_getSeries_terminates`);
    * the VALUE returned for `x` is the same in every history, boundary points included, when the segments are
      exactly continuous at the knots (`C34_value_order_independent`; the hypothesis is a property of
      `ode_taylor`/`mpolyval` that the harness checks on the real code — a replay at p = 53 on `y' = y` gave
      bit-identical values at a boundary in three different histories).
  Not claimed: accuracy of `ode_taylor` (Euler steps + finite differences) as a theorem; "precision changes
  between evaluations" (by inspection `tol_prec`, `degree`, `workprec` are fixed when `odefun` is called and
  `interpolant` always computes at `workprec`, so the ambient precision only enters through `ctx.convert(x)` and
  the final rounding `+y`; the harness samples this clause).
-/
import MpProofs.CalcOde
import MpProofs.CalcLogicB

namespace Mp
open Mp.Calc Mp.Encl Set

/-! ## (1) the exact solutions and the checker -/

/-- `solRef` denotes the solution: the reference expression for component `i` at the rational point `x`
has the value `o.sol i x` -/
theorem C34_solution_ref (o : Ode) (i : ℕ) (x : ℚ) (r : Ref) (h : o.solRef i x = some r) :
    r.sem = o.sol i (x : ℝ) :=
  Ode.solRef_sem o i x r h

/-- a reference is produced exactly when the side condition holds, `i` is a component and `x ≥ x0` -/
theorem C34_solution_ref_defined (o : Ode) (i : ℕ) (x : ℚ) :
    (∃ r, o.solRef i x = some r) ↔ (o.ok = true ∧ i < o.dim ∧ o.x0 ≤ x) := by
  unfold Ode.solRef
  constructor
  · rintro ⟨r, h⟩
    split at h
    · rename_i hc
      simpa [and_assoc] using hc
    · simp at h
  · rintro ⟨h1, h2, h3⟩
    exact ⟨o.solRefRaw i x, by simp [h1, h2, h3]⟩

/-- the closed forms, spelled out -/
theorem C34_sol_formulas (a w x0 y0 c0 s0 : ℚ) (x : ℝ) :
    (Ode.lin a x0 y0).sol 0 x = y0 * Real.exp (a * (x - x0)) ∧
    (Ode.osc w x0 c0 s0).sol 0 x = c0 * Real.cos (w * (x - x0)) + s0 / w * Real.sin (w * (x - x0)) ∧
    (Ode.osc w x0 c0 s0).sol 1 x = -(c0 * w) * Real.sin (w * (x - x0)) + s0 * Real.cos (w * (x - x0)) ∧
    (Ode.riccati x0 y0).sol 0 x = y0 / (1 + y0 * (x - x0)) :=
  ⟨rfl, rfl, rfl, rfl⟩

/-- the right-hand sides, spelled out: `a·y`; `(y1, −w²·y0)`; `−y²` -/
theorem C34_rhs_formulas (a w x0 y0 c0 s0 : ℚ) (y : ℕ → ℝ) :
    (Ode.lin a x0 y0).rhs 0 y = a * y 0 ∧
    (Ode.osc w x0 c0 s0).rhs 0 y = y 1 ∧
    (Ode.osc w x0 c0 s0).rhs 1 y = -((w : ℝ) ^ 2) * y 0 ∧
    (Ode.riccati x0 y0).rhs 0 y = -(y 0) ^ 2 :=
  ⟨rfl, rfl, rfl, rfl⟩

/-- the closed form solves the initial value problem: every component takes its initial value at `x0` and
satisfies `y_i'(x) = F_i(y(x))` at every real `x ≥ x0` (two-sided derivative) -/
theorem C34_is_solution (o : Ode) (hok : o.ok = true) (i : ℕ) (hi : i < o.dim) :
    o.sol i (o.x0 : ℝ) = (o.init i : ℝ) ∧
    ∀ x : ℝ, (o.x0 : ℝ) ≤ x → HasDerivAt (o.sol i) (o.rhs i fun j => o.sol j x) x :=
  ⟨Ode.sol_init o i hi, fun x hx => Ode.sol_hasDerivAt o hok i hi x (Ode.inDomain_of_ge o hok x hx)⟩

/-- … in fact on the whole real line for the linear problems, and right of the pole `x0 − 1/y0` for `y' = −y²` -/
theorem C34_is_solution_domain (o : Ode) (hok : o.ok = true) (i : ℕ) (hi : i < o.dim) (x : ℝ)
    (hx : match o with
      | .riccati x0 y0 => (x0 : ℝ) - 1 / (y0 : ℝ) < x
      | _ => True) :
    HasDerivAt (o.sol i) (o.rhs i fun j => o.sol j x) x := by
  apply Ode.sol_hasDerivAt o hok i hi x
  cases o <;> exact hx

/-- `y' = a·y` in plain terms -/
theorem C34_is_solution_lin (a x0 y0 : ℚ) :
    (y0 : ℝ) * Real.exp (a * ((x0 : ℝ) - x0)) = y0 ∧
    ∀ x : ℝ, HasDerivAt (fun t : ℝ => (y0 : ℝ) * Real.exp (a * (t - x0)))
      (a * ((y0 : ℝ) * Real.exp (a * (x - x0)))) x :=
  ⟨by simp, fun x => Ode.sol_hasDerivAt (.lin a x0 y0) rfl 0 Nat.zero_lt_one x trivial⟩

/-- `y0' = y1`, `y1' = −w²·y0` in plain terms -/
theorem C34_is_solution_osc (w x0 c0 s0 : ℚ) (hw : w ≠ 0) (x : ℝ) :
    HasDerivAt (fun t : ℝ => (c0 : ℝ) * Real.cos (w * (t - x0)) + (s0 : ℝ) / w * Real.sin (w * (t - x0)))
      (-((c0 : ℝ) * w) * Real.sin (w * (x - x0)) + s0 * Real.cos (w * (x - x0))) x ∧
    HasDerivAt (fun t : ℝ => -((c0 : ℝ) * w) * Real.sin (w * (t - x0)) + (s0 : ℝ) * Real.cos (w * (t - x0)))
      (-((w : ℝ) ^ 2) * ((c0 : ℝ) * Real.cos (w * (x - x0)) + (s0 : ℝ) / w * Real.sin (w * (x - x0)))) x := by
  have hok : (Ode.osc w x0 c0 s0).ok = true := by simp [Ode.ok, hw]
  exact ⟨Ode.sol_hasDerivAt (.osc w x0 c0 s0) hok 0 Nat.zero_lt_two x trivial,
    Ode.sol_hasDerivAt (.osc w x0 c0 s0) hok 1 Nat.one_lt_two x trivial⟩

/-- `y' = −y²` in plain terms -/
theorem C34_is_solution_riccati (x0 y0 : ℚ) (hy : 0 < y0) (x : ℝ) (hx : (x0 : ℝ) ≤ x) :
    HasDerivAt (fun t : ℝ => (y0 : ℝ) / (1 + y0 * (t - x0))) (-((y0 : ℝ) / (1 + y0 * (x - x0))) ^ 2) x := by
  have hok : (Ode.riccati x0 y0).ok = true := by simp [Ode.ok, hy]
  exact Ode.sol_hasDerivAt (.riccati x0 y0) hok 0 Nat.zero_lt_one x
    (Ode.inDomain_of_ge (.riccati x0 y0) hok x hx)

/-- uniqueness for `y' = a·y`: a function continuous on `[x0, T]` with right derivative `a·f(t)` on `[x0, T)`
and `f(x0) = y0` is `y0·exp(a(t − x0))` on `[x0, T]` -/
theorem C34_unique_lin (a x0 y0 : ℚ) (T : ℝ) (f : ℝ → ℝ)
    (hc : ContinuousOn f (Icc (x0 : ℝ) T))
    (hd : ∀ t ∈ Ico (x0 : ℝ) T, HasDerivWithinAt f ((a : ℝ) * f t) (Ici t) t)
    (h0 : f (x0 : ℝ) = (y0 : ℝ)) :
    ∀ t ∈ Icc (x0 : ℝ) T, f t = (y0 : ℝ) * Real.exp (a * (t - x0)) :=
  Ode.sol_unique_lin a x0 y0 T f hc hd h0

/-- uniqueness for the oscillator system: a pair `(f, g)` continuous on `[x0, T]` with right derivatives
`f' = g`, `g' = −w²·f` on `[x0, T)` and `(f, g)(x0) = (c0, s0)` is the closed form on `[x0, T]` -/
theorem C34_unique_osc (w x0 c0 s0 : ℚ) (hw : w ≠ 0) (T : ℝ) (f g : ℝ → ℝ)
    (hcf : ContinuousOn f (Icc (x0 : ℝ) T)) (hcg : ContinuousOn g (Icc (x0 : ℝ) T))
    (hdf : ∀ t ∈ Ico (x0 : ℝ) T, HasDerivWithinAt f (g t) (Ici t) t)
    (hdg : ∀ t ∈ Ico (x0 : ℝ) T, HasDerivWithinAt g (-((w : ℝ) ^ 2) * f t) (Ici t) t)
    (hf0 : f (x0 : ℝ) = (c0 : ℝ)) (hg0 : g (x0 : ℝ) = (s0 : ℝ)) :
    ∀ t ∈ Icc (x0 : ℝ) T,
      f t = (c0 : ℝ) * Real.cos (w * (t - x0)) + (s0 : ℝ) / w * Real.sin (w * (t - x0)) ∧
      g t = -((c0 : ℝ) * w) * Real.sin (w * (t - x0)) + (s0 : ℝ) * Real.cos (w * (t - x0)) :=
  Ode.sol_unique_osc w x0 c0 s0 hw T f g hcf hcg hdf hdg hf0 hg0

/-- uniqueness for `y' = −y²`, `y(x0) = y0 > 0`: a function continuous on `[x0, T]` with right derivative
`−f(t)²` on `[x0, T)` and `f(x0) = y0` is `y0/(1 + y0(t − x0))` on `[x0, T]` (nothing is assumed about the
sign or size of `f`) -/
theorem C34_unique_riccati (x0 y0 : ℚ) (hy : 0 < y0) (T : ℝ) (f : ℝ → ℝ)
    (hc : ContinuousOn f (Icc (x0 : ℝ) T))
    (hd : ∀ t ∈ Ico (x0 : ℝ) T, HasDerivWithinAt f (-(f t) ^ 2) (Ici t) t)
    (h0 : f (x0 : ℝ) = (y0 : ℝ)) :
    ∀ t ∈ Icc (x0 : ℝ) T, f t = (y0 : ℝ) / (1 + y0 * (t - x0)) :=
  Ode.sol_unique_riccati x0 y0 hy T f hc hd h0

/-- verdict `ok` of the checker in the mode used for C34 (`fl = 1`, non-strict): the dyadic `y` is "within
the tolerance `2^(k−p)`" of the exact value `v` of the reference: `|y − v| ≤ 2^(k−p)·max(|v|, 1)` -/
theorem C34_checker_ok (r : Ref) (y : Dy) (p k : ℕ) (h : checkClose r y p k 1 false = .ok) :
    |y.val - r.sem| ≤ (2 : ℝ) ^ ((k : ℤ) - (p : ℤ)) * max |r.sem| 1 := by
  have := (checkClose_sound_ok r y p k 1 false h).1 rfl
  simpa [tol] using this

/-- verdict `violates` ⇒ the value is NOT within the tolerance -/
theorem C34_checker_violates (r : Ref) (y : Dy) (p k : ℕ) (h : checkClose r y p k 1 false = .violates) :
    ¬ |y.val - r.sem| ≤ (2 : ℝ) ^ ((k : ℤ) - (p : ℤ)) * max |r.sem| 1 := by
  have := (checkClose_sound_violates r y p k 1 false h).1 rfl
  simp only [tol, Rat.cast_one] at this
  exact not_le.2 this

/-- the combined statement: checker `ok` on the problem's closed form ⇒ the value `y` returned by the
interpolant for component `i` at `x` is within `2^(k−p)` (relative or absolute) of the exact solution
(`k = 10` for the default tolerance) -/
theorem C34_odeCheck_sound (o : Ode) (i : ℕ) (x : ℚ) (r : Ref) (y : Dy) (p k : ℕ)
    (hr : o.solRef i x = some r) (h : checkClose r y p k 1 false = .ok) :
    |y.val - o.sol i (x : ℝ)| ≤ (2 : ℝ) ^ ((k : ℤ) - (p : ℤ)) * max |o.sol i (x : ℝ)| 1 := by
  rw [← C34_solution_ref o i x r hr]
  exact C34_checker_ok r y p k h

/-- … and `violates` ⇒ it is not -/
theorem C34_odeCheck_violates (o : Ode) (i : ℕ) (x : ℚ) (r : Ref) (y : Dy) (p k : ℕ)
    (hr : o.solRef i x = some r) (h : checkClose r y p k 1 false = .violates) :
    ¬ |y.val - o.sol i (x : ℝ)| ≤ (2 : ℝ) ^ ((k : ℤ) - (p : ℤ)) * max |o.sol i (x : ℝ)| 1 := by
  rw [← C34_solution_ref o i x r hr]
  exact C34_checker_violates r y p k h

-- non-vacuity: y' = y, y(0) = 1 at x = 1 (value e) against the 53-bit double nearest e, and against 87/32 = 2.71875;
-- the oscillator (w = 2) and y' = −y² produce references; x < x0 and a bad side condition do not
example : (Ode.lin 1 0 1).solRef 0 1 ≠ none := by decide
example : (Ode.osc 2 0 1 0).solRef 1 (1 / 2) ≠ none ∧ (Ode.riccati 0 1).solRef 0 3 ≠ none := by decide +kernel
example : (Ode.lin 1 0 1).solRef 0 (-1) = none ∧ (Ode.lin 1 0 1).solRef 1 1 = none ∧
    (Ode.osc 0 0 1 0).solRef 0 1 = none ∧ (Ode.riccati 0 (-1)).solRef 0 1 = none := by decide +kernel
example : checkClose (((Ode.lin 1 0 1).solRef 0 1).getD (.rat 0)) ⟨6121026514868073, -51⟩ 53 10 1 false = .ok := by
  decide +kernel
example : checkClose (((Ode.lin 1 0 1).solRef 0 1).getD (.rat 0)) ⟨87, -5⟩ 53 10 1 false = .violates := by
  decide +kernel
example : checkClose (((Ode.riccati 0 1).solRef 0 3).getD (.rat 0)) ⟨1, -2⟩ 53 10 1 false = .ok := by
  decide +kernel

/-! ## (2) the segment store: which Taylor segment answers a query -/

section Store
variable {S X Y : Type} [LinearOrder X] {step : X → Y → S × X} {endval : S → X → X → Y} {x0 : X} {y0 : Y}

/-- after ANY finite sequence of successful `get_series` queries the store is a prefix of the one canonical
segment sequence `seg 0, seg 1, …` (determined by `ode_taylor`, `x0`, `y0` alone):
`series_data = [seg 0, …, seg (m−1)]`, `series_boundaries = [x0, xb₀, …, xb_{m−1}]`, `m ≥ 1`.
The query history influences only `m`. -/
theorem C34_segments_prefix {st : Store S X} (h : Reachable step endval x0 y0 st) :
    ∃ m, 1 ≤ m ∧ st.data = (List.range m).map (seg step endval x0 y0) ∧
      st.boundaries = (List.range (m + 1)).map (bd step endval x0 y0) :=
  segments_prefix h

/-- which segment answers a query `x ≥ x0` on the store holding the first `m ≥ 1` segments, when all
segments have positive length:
* `x < xb_{m−1}` (stored range): store unchanged, answer `seg k` for the unique `k` with `xa_k ≤ x < xb_k`
  (a stored boundary point is answered by the segment on its RIGHT), no loop iteration;
* `xb_{m−1} ≤ x`: for the least `m' > m` with `x ≤ xb_{m'−1}` the store becomes the `m'`-prefix and the answer is
  `seg (m'−1)` (a query hitting the NEW last boundary exactly is answered by the segment on its LEFT);
  the loop needs exactly `m' − m` iterations. -/
theorem C34_getSeries_spec (hprog : Progress step endval x0 y0) {m : ℕ} (hm : 1 ≤ m) {x : X} (hx : x0 ≤ x) :
    (x < bd step endval x0 y0 m →
      ∃ k, k < m ∧ bd step endval x0 y0 k ≤ x ∧ x < bd step endval x0 y0 (k + 1) ∧
        (∀ k', bd step endval x0 y0 k' ≤ x → x < bd step endval x0 y0 (k' + 1) → k' = k) ∧
        ∀ fuel, getSeries step endval x0 fuel (prefixStore step endval x0 y0 m) x =
          .ok (prefixStore step endval x0 y0 m, seg step endval x0 y0 k)) ∧
    (bd step endval x0 y0 m ≤ x →
      ∀ m', m < m' → x ≤ bd step endval x0 y0 m' → (∀ j, m < j → j < m' → bd step endval x0 y0 j < x) →
        ∀ fuel,
          (m' - m ≤ fuel → getSeries step endval x0 fuel (prefixStore step endval x0 y0 m) x =
            .ok (prefixStore step endval x0 y0 m', seg step endval x0 y0 (m' - 1))) ∧
          (fuel < m' - m → getSeries step endval x0 fuel (prefixStore step endval x0 y0 m) x =
            .error .outOfFuel)) :=
  getSeries_spec hprog hm hx

/-- order independence off the boundaries: if `x ≥ x0` is not one of the boundary points `xb_k`, the segment
returned for `x` by ANY reachable store (any query history) is `seg k` for the unique `k` with
`xa_k ≤ x < xb_k` — a function of `x` alone, hence so is the interpolant's value `mpolyval(ser_k, x − xa_k)` -/
theorem C34_order_independent_off_boundaries (hprog : Progress step endval x0 y0) {st st' : Store S X}
    (hr : Reachable step endval x0 y0 st) {x : X} (hoff : ∀ k, x ≠ bd step endval x0 y0 (k + 1))
    {fuel : ℕ} {sg : Seg S X} (h : getSeries step endval x0 fuel st x = .ok (st', sg)) :
    ∃ k, bd step endval x0 y0 k ≤ x ∧ x < bd step endval x0 y0 (k + 1) ∧ sg = seg step endval x0 y0 k ∧
      ∀ k', bd step endval x0 y0 k' ≤ x → x < bd step endval x0 y0 (k' + 1) → k' = k :=
  order_independent_off_boundaries hprog hr hoff h

/-- two-history form: off the boundary points any two reachable stores return the same segment for `x` -/
theorem C34_order_independent_two_histories (hprog : Progress step endval x0 y0)
    {st₁ st₂ st₁' st₂' : Store S X} (hr₁ : Reachable step endval x0 y0 st₁)
    (hr₂ : Reachable step endval x0 y0 st₂) {x : X} (hoff : ∀ k, x ≠ bd step endval x0 y0 (k + 1))
    {f₁ f₂ : ℕ} {sg₁ sg₂ : Seg S X} (h₁ : getSeries step endval x0 f₁ st₁ x = .ok (st₁', sg₁))
    (h₂ : getSeries step endval x0 f₂ st₂ x = .ok (st₂', sg₂)) : sg₁ = sg₂ :=
  order_independent_off_boundaries' hprog hr₁ hr₂ hoff h₁ h₂

/-- order independence inside the stored range: if `x0 ≤ x < b`, `b` the last boundary of a reachable store
`st`, then `x` (boundary point or not) is answered by `seg k` for the unique `k` with `xa_k ≤ x < xb_k`, the
store is not modified, and every store reached from `st` by later queries gives the same answer -/
theorem C34_order_independent_given_stored (hprog : Progress step endval x0 y0) {st st' : Store S X}
    (hr : Reachable step endval x0 y0 st) {x b : X} (hx : x0 ≤ x)
    (hb : st.boundaries.getLast? = some b) (hxb : x < b) (hlater : Reach step endval x0 st st') :
    ∃ k, bd step endval x0 y0 k ≤ x ∧ x < bd step endval x0 y0 (k + 1) ∧
      (∀ k', bd step endval x0 y0 k' ≤ x → x < bd step endval x0 y0 (k' + 1) → k' = k) ∧
      (∀ fuel, getSeries step endval x0 fuel st x = .ok (st, seg step endval x0 y0 k)) ∧
      (∀ fuel, getSeries step endval x0 fuel st' x = .ok (st', seg step endval x0 y0 k)) :=
  order_independent_given_stored hprog hr hx hb hxb hlater

/-- termination of the `while 1` loop: if every segment has positive length and the boundaries are unbounded,
every query `x ≥ x0` on every reachable store succeeds after finitely many iterations -/
theorem C34_getSeries_terminates (hprog : Progress step endval x0 y0)
    (hunb : ∀ x, ∃ k, x ≤ bd step endval x0 y0 (k + 1)) {st : Store S X}
    (hr : Reachable step endval x0 y0 st) {x : X} (hx : x0 ≤ x) :
    ∃ fuel r, getSeries step endval x0 fuel st x = .ok r :=
  getSeries_terminates hprog hunb hr hx

/-- value-level order independence, at full strength: if all segments have positive length and the piecewise
polynomial is exactly continuous at the knots (`KnotContinuous`: segment `k+1` evaluated at its left end `xb_k`
returns the very value segment `k` returns at its right end — true of the code because segment `k+1` is expanded
from `y = mpolyval(ser_k, xb_k − xa_k)`, its constant coefficient is `y`, and all evaluations run at `workprec`),
then the VALUE the interpolant returns for `x` is the same in any two query histories, for every `x ≥ x0`,
boundary points included.  (Only the choice of segment is history dependent, see the counterexample below.) -/
theorem C34_value_order_independent (evalAt : S → X → X → Y) (hprog : Progress step endval x0 y0)
    (hknot : ∀ k, evalAt (seg step endval x0 y0 (k + 1)).1 (bd step endval x0 y0 (k + 1))
        (bd step endval x0 y0 (k + 1)) =
      evalAt (seg step endval x0 y0 k).1 (bd step endval x0 y0 k) (bd step endval x0 y0 (k + 1)))
    {st₁ st₂ st₁' st₂' : Store S X}
    (hr₁ : Reachable step endval x0 y0 st₁) (hr₂ : Reachable step endval x0 y0 st₂) {x : X} {f₁ f₂ : ℕ}
    {v₁ v₂ : Y} (h₁ : interpolant step endval evalAt x0 f₁ st₁ x = .ok (st₁', v₁))
    (h₂ : interpolant step endval evalAt x0 f₂ st₂ x = .ok (st₂', v₂)) : v₁ = v₂ :=
  interpolant_value_independent evalAt hprog hknot hr₁ hr₂ h₁ h₂

end Store

/-- the full-strength clause "the segment answering `x` does not depend on the order of evaluation" is FALSE
of `get_series`, even when all segments have positive length: on the instance with segments
`[0,2],[2,4],[4,6],…` two reachable stores answer the same query `x = 4` with different segments.
(The positive theorems above cover every `x` that is not a segment boundary, and every `x` strictly inside
the stored range; at a boundary the two candidate segments are adjacent and both approximate the solution
within the tolerance.) -/
theorem C34_order_independent_counterexample :
    ¬ ∀ (st₁ st₂ : Store Int Int),
        Reachable Example.cstep Example.cend 0 () st₁ → Reachable Example.cstep Example.cend 0 () st₂ →
        ∀ (x : Int) (f₁ f₂ : ℕ) (r₁ r₂ : Store Int Int × Seg Int Int),
          getSeries Example.cstep Example.cend 0 f₁ st₁ x = .ok r₁ →
          getSeries Example.cstep Example.cend 0 f₂ st₂ x = .ok r₂ → r₁.2 = r₂.2 :=
  Example.history_independence_counterexample

/-- the witness as a trace (segments `(ser, xa, xb)` with `ser = xa`): the query `4` on the fresh store is
answered by `[2,4]`; asked again it is answered by `[4,6]`; asked after the query `5` it is answered by `[4,6]` -/
theorem C34_order_dependent_trace :
    getSeries Example.cstep Example.cend 0 5 (init Example.cstep 0 ()) 4
      = .ok (⟨[0, 2, 4], [(0, 0, 2), (2, 2, 4)]⟩, (2, 2, 4)) ∧
    getSeries Example.cstep Example.cend 0 5 ⟨[0, 2, 4], [(0, 0, 2), (2, 2, 4)]⟩ 4
      = .ok (⟨[0, 2, 4, 6], [(0, 0, 2), (2, 2, 4), (4, 4, 6)]⟩, (4, 4, 6)) ∧
    (runQueries Example.cstep Example.cend 0 (init Example.cstep 0 ()) [(5, 4), (5, 4)]).map Prod.snd
      = .ok [(2, 2, 4), (4, 4, 6)] ∧
    (runQueries Example.cstep Example.cend 0 (init Example.cstep 0 ()) [(5, 5), (5, 4)]).map Prod.snd
      = .ok [(4, 4, 6), (4, 4, 6)] ∧
    (runQueries Example.cstep Example.cend 0 (init Example.cstep 0 ()) [(5, 4), (5, 5)]).map Prod.snd
      = .ok [(2, 2, 4), (4, 4, 6)] :=
  Example.order_dependent_counterexample

-- non-vacuity of the store theorems: the instance `Example.cstep` has progress and unbounded boundaries,
-- and a reachable store with a non-trivial history (queries 4, 1, 9)
example : Progress Example.cstep Example.cend 0 () ∧ (∀ x : Int, ∃ k, x ≤ bd Example.cstep Example.cend 0 () (k + 1)) ∧
    Reachable Example.cstep Example.cend 0 ()
      ⟨[0, 2, 4, 6, 8, 10], [(0, 0, 2), (2, 2, 4), (4, 4, 6), (6, 6, 8), (8, 8, 10)]⟩ :=
  ⟨Example.cprog, Example.cunb, Example.reachable_419⟩

end Mp

/-! ## axiom audit -/
