/-
  Props/C37.lean — "Pure-Python and GMP backends give identical core results": what CAN be decided
  without a gmpy2 installation.

  The claim of the property (bit-identical results in two processes) is NOT decided here: the GMP side
  is trusted to its documentation.  What is proved: at every place where `BACKEND == 'gmpy'`
  substitutes a GMP routine (the `ast` table harness/backend_sites.json, regenerated and compared on
  every run), the pure-Python implementation computes the function that the GMP routine is documented
  to compute — so the backends can differ there only if GMP violates its documentation:

    site (libintmath.py / libmpf.py)           gmpy side (documented)            pure-Python side
    bitcount  = gmpy.bit_length / numdigits(2)  bit length                        python_bitcount_eq
    trailing  = mpz.bit_scan1 / scan1           index of lowest set bit           python_trailing_eq
    isqrt_small = isqrt = gmpy.isqrt            ⌊√x⌋                              isqrt_small_python_eq
    sqrtrem   = gmpy.isqrt_rem                  (⌊√x⌋, x − ⌊√x⌋²)                 sqrtrem_python_eq
    ifac      = gmpy.fac                        n!                                ifac_python_eq
    mpf_mul   = gmpy_mpf_mul (plain Python)     —                                 mpf_mul_variants_eq
    mpf_mul_int = gmpy_mpf_mul_int              —                                 mpf_mul_int_variants_eq
    _normalize = gmpy._mpmath_normalize         correctly rounded canonical mpf   normalize_python_spec
    _normalize1 = gmpy._mpmath_normalize        (same C function for both)        normalize1_python_eq
    from_man_exp = gmpy._mpmath_create          correctly rounded canonical mpf   from_man_exp_python_spec
    numeral   = gmpy.digits                     decimal digits                    T1 only (numeral_digits: digits)
  NOT covered (listed as such in the table): `isqrt_fast` (Python: approximate Newton iteration, may be
  1 below ⌊√x⌋; gmpy: exact) and the cut-offs `EXP_COSH_CUTOFF`, `COS_SIN_CACHE_PREC` (different algorithm
  choice between 400/200 and 600/400 bits) — both only reach results that are not documented as correctly
  rounded; and the `MPZ` integer type itself (gmpy.mpz arithmetic is trusted).
-/
import MpProofs.Backend
import MpProofs.Arith
import MpProofs.Div
import MpProofs.Normalize
import Props.C25

namespace Mp
open Mp.Backend

/-- `python_bitcount(n)` is the bit length of `n` for every `n < 2^299` (no float involved), and for
larger `n` whenever the float step `est = int(math.log(n, 2))` satisfies `L − 6 ≤ est ≤ L + 4`
(`L` the true bit length; the exact value would be `L − 1`) — the `bctable` correction absorbs an
error of −5 … +5.  HYPOTHESIS about the float, not proved: validated by the harness against CPython
(2^k, 2^k±1, random mantissas up to 10^5 bits, the 299/300/301-bit boundary). -/
theorem python_bitcount_eq (n : Nat) (est : Int)
    (h : bitcount n < 300 ∨ (4 ≤ est ∧ est - 4 ≤ bitcount n ∧ (bitcount n : Int) ≤ est + 6)) :
    pythonBitcount n est = .ok (bitcount n) := by
  rcases h with h | ⟨h4, hlo, hhi⟩
  · exact pythonBitcount_small n est h
  · exact pythonBitcount_large n est h4 hlo (by omega)

/-- the hypothesis is satisfiable, and needed: an estimate 7 too small makes the real code fail
(`bctable` index out of range), one 6 too large silently returns a wrong count -/
example : pythonBitcount (2 ^ 400 + 12345) 400 = .ok 401 ∧ pythonBitcount (2 ^ 400) 396 = .ok 401 ∧
    pythonBitcount (2 ^ 400) 404 = .ok 401 ∧ pythonBitcount (2 ^ 400) 393 = .error .value ∧
    pythonBitcount (2 ^ 400) 406 = .ok 402 ∧ pythonBitcount 1023 0 = .ok 10 ∧
    pythonBitcount (2 ^ 299 - 1) 0 = .ok 299 := by decide +kernel

/-- `python_trailing(n)` is the number of trailing zero bits of `n` (0 for `n = 0`) for EVERY `n ≥ 0`:
byte table `small_trailing` (all 256 entries checked by evaluation) and the byte-skipping loop. -/
theorem python_trailing_eq (n : Nat) : pythonTrailing n = trailing n :=
  pythonTrailing_eq_trailing n

/-- …and `trailing` is the 2-adic valuation: `2^trailing n ∣ n` with an odd cofactor. -/
theorem python_trailing_spec (n : Nat) (hn : n ≠ 0) :
    2 ^ pythonTrailing n ∣ n ∧ (n / 2 ^ pythonTrailing n) % 2 = 1 := by
  rw [python_trailing_eq]; exact ⟨trailing_dvd n, trailing_odd hn⟩

example : pythonTrailing 0 = 0 ∧ pythonTrailing 0x300 = 8 ∧ pythonTrailing (5 * 2 ^ 67) = 67 := by
  decide +kernel

/-- `isqrt_small_python`: the division loop returns `⌊√x⌋` from any starting estimate `r0 ≥ ⌊√x⌋`
(the float estimate is a parameter; T1 checks that CPython's estimates are `≥ ⌊√x⌋`). -/
theorem isqrt_small_python_eq (x r0 : Nat) (hx : 0 < x) (hr : Nat.sqrt x ≤ r0) :
    isqrt_small x r0 = Nat.sqrt x :=
  isqrt_small_exact x r0 hx hr

/-- `sqrtrem_python` (large branch): `(⌊√x⌋, x − ⌊√x⌋²)` whenever `isqrt_fast_python(x) ≥ ⌊√x⌋ − 1`
(T1 checks this reach of `isqrt_fast_python` on structured inputs). -/
theorem sqrtrem_python_eq (x : Nat) (y0 : Int) (h : (Nat.sqrt x : Int) ≤ y0 + 1) :
    sqrtremLarge x y0 = ((Nat.sqrt x : Int), (x : Int) - (Nat.sqrt x : Int) * Nat.sqrt x) :=
  sqrtrem_exact x y0 h

/-- `ifac(n) = n!` after any call history (`gmpy.fac` is documented to return `n!`). -/
theorem ifac_python_eq (memo : IDict) (h : FacReach memo) (n : Int) (hn : 0 ≤ n) :
    ∃ memo', ifac n memo = .ok ((Nat.factorial n.toNat : Int), memo') ∧ FacReach memo' :=
  ifac_spec memo h n hn

/-- `python_mpf_mul` (fast bit-count update) and `gmpy_mpf_mul` (`bitcount(man)`) are the same
function on canonical finite operands: both are plain Python, both are modelled. -/
theorem mpf_mul_variants_eq {s t : Mpf} (hs : CanonFin s) (ht : CanonFin t) (prec : ℤ) (rnd : Rnd) :
    gmpy_mpf_mul s t prec rnd = mpf_mul s t prec rnd :=
  gmpy_mpf_mul_eq hs ht prec rnd

theorem mpf_mul_int_variants_eq {s : Mpf} (hs : CanonFin s) (n : ℤ) (prec : ℤ) (rnd : Rnd) :
    gmpy_mpf_mul_int s n prec rnd = mpf_mul_int s n prec rnd :=
  gmpy_mpf_mul_int_eq hs n prec rnd

/-- `_normalize` meets the contract of `gmpy._mpmath_normalize`: for sign ∈ {0,1}, any mantissa and
exponent, `prec ≥ 1`, any rounding mode and the exact bit count, the result is canonical, has at most
`prec` bits and is the correctly rounded value of `(-1)^sign · man · 2^exp`. -/
theorem normalize_python_spec {sign : Nat} (hs : sign ≤ 1) (man : Nat) (exp : Int) {prec : Int}
    (hp : 0 < prec) (rnd : Rnd) :
    RoundOK prec rnd ((-1 : ℚ) ^ sign * ((man : ℚ) * 2 ^ exp))
      (normalize sign man exp (bitcount man) prec rnd) :=
  normalize_spec hs man exp hp rnd

/-- under gmpy both `_normalize` and `_normalize1` are the one C function; in Python they agree on the
inputs `_normalize1` is specified for (odd mantissa) -/
theorem normalize1_python_eq (sign : Nat) {man : Nat} (hodd : man % 2 = 1) (exp : Int) (prec : Int)
    (rnd : Rnd) :
    normalize1 sign man exp (bitcount man) prec rnd = normalize sign man exp (bitcount man) prec rnd :=
  normalize1_eq_normalize sign hodd exp prec rnd

/-- `from_man_exp` meets the contract of `gmpy._mpmath_create` (`prec = 0`: exact). -/
theorem from_man_exp_python_spec (Z e : ℤ) {prec : ℤ} (hp : 0 ≤ prec) (rnd : Rnd) :
    RoundOK prec rnd ((Z : ℚ) * 2 ^ e) (from_man_exp Z e prec rnd) :=
  from_man_exp_spec Z e hp rnd

end Mp
