/-
  Props/C02sum.lean — C02, fsum: `mpf_sum` returns THE correctly rounded value of the exact sum of its terms whenever the
  nonzero terms' exponents lie within `2·prec` of each other — in particular under the property's own hypothesis (terms with
  at most `prec`-bit mantissas whose magnitudes span fewer than `prec` bits).  Outside that window the code deliberately
  drops terms (documented: "there may be roundoff error or cancellation if extremely large exponent differences occur");
  `C02_fsum_outside_window` exhibits it.
-/
import MpProofs.Sum

namespace Mp

theorem C02_fsum (xs : List Mpf) (hxs : ∀ x ∈ xs, CanonFin x) {prec : ℤ} (hp : 0 < prec) (rnd : Rnd)
    (hbits : ∀ x ∈ xs, x.man ≠ 0 → 1 ≤ x.bc ∧ x.bc ≤ prec)
    (hspan : ∀ x ∈ xs, ∀ y ∈ xs, x.man ≠ 0 → y.man ≠ 0 → (x.exp + x.bc) - (y.exp + y.bc) < prec) :
    RoundOK prec rnd (xs.map val).sum (mpf_sum xs prec rnd false) :=
  mpf_sum_spec xs hxs hp rnd (window_of_magnitudes hbits hspan)

/-- the general form: exponents of the nonzero terms within `2·prec` of each other (mantissas of any length) -/
theorem C02_fsum_window (xs : List Mpf) (hxs : ∀ x ∈ xs, CanonFin x) {prec : ℤ} (hp : 0 < prec) (rnd : Rnd)
    (hwin : ∀ x ∈ xs, ∀ y ∈ xs, x.man ≠ 0 → y.man ≠ 0 → x.exp - y.exp ≤ 2 * prec) :
    RoundOK prec rnd (xs.map val).sum (mpf_sum xs prec rnd false) := mpf_sum_spec xs hxs hp rnd hwin

/-- outside the window terms are dropped: 2^100 + 1 - 2^100 sums to 0 at precision 2 -/
theorem C02_fsum_outside_window :
    mpf_sum [⟨0, 1, 100, 1⟩, ⟨0, 1, 0, 1⟩, ⟨1, 1, 100, 1⟩] 2 .n false = fzero := by decide

example : (∀ x ∈ [(⟨0, 3, 0, 2⟩ : Mpf), ⟨1, 5, -1, 3⟩], CanonFin x) := by decide

end Mp
