/-
  Props/C07.lean — "Decimal strings convert to correctly rounded binary values".

  Model: MpModel/Str.lean (`str_to_man_exp`, `from_str`; the last argument `0` of both switches off
  CPython's 4300-digit limit of `int(str)`, which the model carries as a parameter).
  Vocabulary: `decValue s : Option ℚ` (MpProofs/Str.lean) is the value of the decimal literal `s`
  `[+-] digits [. digits] [(e|E) [+-] digits]`, read digit by digit; `RoundOK` is in MpProofs/Spec.lean.
-/
import MpProofs.StrFrom

namespace Mp

/-- after an optional sign the string starts with a digit -/
def StartsWithDigit (s : String) : Prop := ∃ c r, dropSign s.toList = c :: r ∧ isDigitC c = true

/-! ### the parser -/

/- Full statement (FALSE of the code, see `parse_value_counterexample`):
   ∀ s v, decValue s = some v → ∃ man exp, str_to_man_exp s 0 = .ok (man, exp) ∧ man · 10^exp = v. -/

/-- For every decimal literal, except those with no digit before the point and only zeros after it,
`str_to_man_exp` succeeds and `man · 10^exp` is exactly the value of the literal (stripping of
trailing fractional zeros and the `exp -= len(b)` adjustment included). -/
theorem parse_value_partial (s : String) (v : ℚ) (h : decValue s = some v)
    (hnd : v ≠ 0 ∨ StartsWithDigit s) :
    ∃ man exp, str_to_man_exp s 0 = .ok (man, exp) ∧ (man : ℚ) * (10 : ℚ) ^ exp = v :=
  strToManExp_value h hnd

example : decValue "-012.50E+3" = some (-12500) ∧ StartsWithDigit "-012.50E+3" :=
  ⟨by decide +kernel, ⟨'0', _, rfl, by decide⟩⟩
example : str_to_man_exp "-012.50E+3" 0 = .ok (-125, 2) := by decide +kernel
example : decValue ".5e-3" = some (5 / 10000) := by decide +kernel

/-- `.0` is a decimal literal (value 0, accepted by `float()`), but `str_to_man_exp` raises ValueError:
after stripping the zeros it calls `int('')`. Same for `-.0`, `.00e5`, …; replayed on the real code. -/
theorem parse_value_counterexample :
    decValue ".0" = some 0 ∧ floatOK ".0".toList = true ∧ str_to_man_exp ".0" 0 = .error .value ∧
    from_str "-.00e5" 53 .n = .error .value := by decide +kernel

/-- An underscore in the fraction (allowed by `float()`) is counted as a digit position:
`str_to_man_exp("1.0_1") = (101, -3)`, i.e. 0.101, while `float("1.0_1") = 1.01`. Replayed on the real code. -/
theorem parse_underscore_counterexample :
    floatOK "1.0_1".toList = true ∧ str_to_man_exp "1.0_1" = .ok (101, -3) ∧
    decValue "1.01" = some (101 / 100) ∧ ((101 : ℚ) * (10 : ℚ) ^ (-3 : ℤ) ≠ 101 / 100) := by
  refine ⟨by decide +kernel, by decide +kernel, by decide +kernel, by norm_num⟩

/-- With CPython's digit limit (modelled as a parameter; 4300 by default) a literal with more digits
than the limit is rejected although it has a value. Shown here with limit 4. -/
theorem parse_digit_limit_counterexample :
    decValue "12345" = some 12345 ∧ str_to_man_exp "12345" 4 = .error .value ∧
    str_to_man_exp "12345" 0 = .ok (12345, 0) := by decide +kernel

/-- the four special strings (any case, surrounding white space) -/
theorem from_str_specials (prec : Int) (rnd : Rnd) :
    from_str "inf" prec rnd = .ok finf ∧ from_str "+inf" prec rnd = .ok finf ∧
    from_str " -INF\n" prec rnd = .ok fninf ∧ from_str "NaN" prec rnd = .ok fnan := by
  have e1 : stripL isSpaceStrip (List.map lowerC "inf".toList) = "inf".toList := by decide +kernel
  have e2 : stripL isSpaceStrip (List.map lowerC "+inf".toList) = "+inf".toList := by decide +kernel
  have e3 : stripL isSpaceStrip (List.map lowerC " -INF\n".toList) = "-inf".toList := by decide +kernel
  have e4 : stripL isSpaceStrip (List.map lowerC "NaN".toList) = "nan".toList := by decide +kernel
  have n1 : ¬ ("-inf".toList = "inf".toList ∨ "-inf".toList = "+inf".toList) := by decide +kernel
  have n2 : ¬ ("nan".toList = "inf".toList ∨ "nan".toList = "+inf".toList) := by decide +kernel
  have n3 : ¬ ("nan".toList = "-inf".toList) := by decide +kernel
  refine ⟨?_, ?_, ?_, ?_⟩ <;> unfold from_str fromStr
  · rw [e1, if_pos (Or.inl rfl)]
  · rw [e2, if_pos (Or.inr rfl)]
  · rw [e3, if_neg n1, if_pos rfl]
  · rw [e4, if_neg n2, if_neg n3, if_pos rfl]

/-! ### the exact branch -/

/-- **Exact branch.** If the parser's decimal exponent satisfies `|exp| ≤ 400`, `from_str` returns the
correctly rounded value of the literal in every rounding mode (canonical result, at most `prec` bits).
Hypotheses: `from_int` and `from_rational` round correctly (`FromIntRounds`, `FromRationalRounds`,
proved with the arithmetic core); everything about parsing is proved here. -/
theorem from_str_exact_round (hInt : FromIntRounds) (hRat : FromRationalRounds)
    (s : String) (v : ℚ) (h : decValue s = some v) (hnd : v ≠ 0 ∨ StartsWithDigit s)
    (man exp : Int) (hme : str_to_man_exp s 0 = .ok (man, exp)) (hexp : exp.natAbs ≤ 400)
    (prec : Int) (rnd : Rnd) (hprec : 0 < prec) :
    ∃ r, from_str s prec rnd 0 = .ok r ∧ RoundOK prec rnd v r :=
  fromStr_exact_round hInt hRat h hnd hme hexp prec rnd hprec

example : decValue "0.1" = some (1 / 10) ∧ StartsWithDigit "0.1" ∧
    str_to_man_exp "0.1" 0 = .ok (1, -1) ∧ from_str "0.1" 53 .n 0 = .ok ⟨0, 0xccccccccccccd, -55, 52⟩ :=
  ⟨by decide +kernel, ⟨'0', _, rfl, by decide⟩, by decide +kernel, by decide +kernel⟩

/-! ### the approximate branch (more than 400 fractional digits, or |exponent| > 400): D4 -/

/-- the literal `0.5000…0001` with 399 zeros: 401 fractional digits, value just above 1/2 -/
def litAboveHalf : List Char := '0' :: '.' :: '5' :: (List.replicate 399 '0' ++ ['1'])

/- Full statement (FALSE of the code): for every literal with value `v`, `from_str s prec .c` is `≥ v`
   and `from_str s prec .f` is `≤ v`. -/

/-- **D4.** A ceiling conversion lands *below* the literal: `0.5000…0001` (401 fractional digits,
magnitude well inside [10^-100, 10^100]) converted with rounding mode `c` at 53 bits gives exactly 1/2.
The approximate branch rounds `man` and `10^exp` down whatever the mode. Replayed on the real code. -/
theorem from_str_directed_counterexample :
    ∃ v r, decValueL litAboveHalf = some v ∧ fromStr litAboveHalf 53 .c = .ok r ∧ val r < v := by
  refine ⟨(5 * 10 ^ 400 + 1) / 10 ^ 401, fhalf, by decide +kernel, by decide +kernel, ?_⟩
  have : val fhalf = 1 / 2 := by simp [val, fhalf]
  rw [this, lt_div_iff₀ (by positivity), pow_succ' (10 : ℚ) 400]
  have : (0 : ℚ) < 10 ^ 400 := by positivity
  linarith

/-- the literal `1.00000000000000011102230246251565404236316680908203125 000…0001`:
`1 + 2^-53` (a tie between `1` and `1 + 2^-52`) plus `10^-404` -/
def litAboveTie : List Char :=
  "1.00000000000000011102230246251565404236316680908203125".toList ++ (List.replicate 350 '0' ++ ['1'])

/-- **D4, round to nearest.** The first sentence of the property also fails for long literals:
`1 + 2^-53 + 10^-404` (404 fractional digits) must round to `1 + 2^-52`, `from_str` returns `1`. -/
theorem from_str_nearest_counterexample :
    ∃ v r, decValueL litAboveTie = some v ∧ fromStr litAboveTie 53 .n = .ok r ∧ ¬ RoundOK 53 .n v r := by
  refine ⟨1 + 1 / 2 ^ 53 + 1 / 10 ^ 404, fone, by decide +kernel, by decide +kernel, ?_⟩
  intro h
  have hr := (h.2.2 (by norm_num)).1
  have h53 : (53 : Int).toNat = 53 := rfl
  rw [h53] at hr
  have hv : val fone = 1 := by simp [val, fone]
  rw [hv] at hr
  have hz : Repb 53 ((1 : ℚ) + 1 / 2 ^ 52) := by
    refine ⟨2 ^ 52 + 1, -52, by norm_num, ?_⟩
    norm_num
  have he : (1 : ℚ) / 10 ^ 404 < 1 / 2 ^ 53 := by
    apply one_div_lt_one_div_of_lt (by positivity)
    calc (2 : ℚ) ^ 53 < 10 ^ 16 := by norm_num
      _ ≤ 10 ^ 404 := pow_le_pow_right₀ (by norm_num) (by norm_num)
  have hpos : (0 : ℚ) < 1 / 10 ^ 404 := by positivity
  have h1 : |(1 : ℚ) + 1 / 2 ^ 53 + 1 / 10 ^ 404 - 1| = 1 / 2 ^ 53 + 1 / 10 ^ 404 := by
    rw [abs_of_pos] <;> linarith
  have h2 : |(1 : ℚ) + 1 / 2 ^ 53 + 1 / 10 ^ 404 - (1 + 1 / 2 ^ 52)| = 1 / 2 ^ 53 - 1 / 10 ^ 404 := by
    have : (1 : ℚ) / 2 ^ 52 = 2 * (1 / 2 ^ 53) := by norm_num
    rw [abs_of_neg] <;> linarith
  rcases hr.2 _ hz with hlt | ⟨heq, _⟩
  · rw [h1, h2] at hlt; linarith
  · rw [h1, h2] at heq; linarith

end Mp
