/-
  Props/C07.lean — "Decimal strings convert to correctly rounded binary values".

  Model: MpModel/Str.lean (`str_to_man_exp`, `from_str`; the last argument `0` of both switches off
  CPython's 4300-digit limit of `int(str)`, which the model carries as a parameter).
  Vocabulary: `decValue s : Option ℚ` (MpProofs/Str.lean) is the value of the decimal literal `s`
  `[+-] digits [. digits] [(e|E) [+-] digits]` (digit group separators `_` allowed between digits),
  read digit by digit; `RoundOK` is in MpProofs/Spec.lean.
-/
import MpProofs.StrFrom
import MpProofs.StrIv

namespace Mp

/-! ### the parser -/

/-- **The parser computes the value of the literal.** For every decimal literal in the grammar of
Python's `float()` — optional sign, digits with optional point (also `.5`, `5.`, `.0`), optional
`e|E` exponent, digit group separators `_` between digits — `str_to_man_exp` succeeds and
`man · 10^exp` is exactly the value of the literal (stripping of trailing fractional zeros, the
`exp -= len(b)` adjustment, removal of separators and the `'' → '0'` padding included). -/
theorem parse_value (s : String) (v : ℚ) (h : decValue s = some v) :
    ∃ man exp, str_to_man_exp s 0 = .ok (man, exp) ∧ (man : ℚ) * (10 : ℚ) ^ exp = v :=
  strToManExp_value h

example : decValue "-012.50E+3" = some (-12500) := by decide +kernel
example : str_to_man_exp "-012.50E+3" 0 = .ok (-125, 2) := by decide +kernel
example : decValue ".5e-3" = some (5 / 10000) := by decide +kernel
-- literals that the code rejected or mis-read before the repairs ad5f351 / 59f8b17
example : decValue ".0" = some 0 ∧ str_to_man_exp ".0" 0 = .ok (0, 0) := by decide +kernel
example : decValue "-.00e5" = some 0 ∧ str_to_man_exp "-.00e5" 0 = .ok (0, 5) := by decide +kernel
example : decValue "1_0.0_1" = some (1001 / 100) ∧ str_to_man_exp "1_0.0_1" 0 = .ok (1001, -2) := by
  decide +kernel
example : decValue "1.5_0e1_0" = some 15000000000 ∧ str_to_man_exp "1.5_0e1_0" 0 = .ok (15, 9) := by
  decide +kernel
example : decValue "1__0" = none ∧ decValue "_1" = none ∧ decValue "1_.5" = none := by decide +kernel

/-- With CPython's digit limit (modelled as a parameter; 4300 by default) a literal with more digits
than the limit is rejected although it has a value. Shown here with limit 4. -/
theorem parse_digit_limit_counterexample :
    decValue "12345" = some 12345 ∧ str_to_man_exp "12345" 4 = .error .value ∧
    str_to_man_exp "12345" 0 = .ok (12345, 0) := by decide +kernel

/-- the four special strings (any case, surrounding white space) -/
theorem from_str_specials (prec : Int) (rnd : Rnd) :
    from_str "inf" prec rnd = .ok finf ∧ from_str "+inf" prec rnd = .ok finf ∧
    from_str " -INF\n" prec rnd = .ok fninf ∧ from_str "NaN" prec rnd = .ok fnan := by
  have e1 : stripL isSpaceStrip (List.map lowerC "inf".toList) = "inf".toList := by decide +kernel
  have e2 : stripL isSpaceStrip (List.map lowerC "+inf".toList) = "+inf".toList := by decide +kernel
  have e3 : stripL isSpaceStrip (List.map lowerC " -INF\n".toList) = "-inf".toList := by decide +kernel
  have e4 : stripL isSpaceStrip (List.map lowerC "NaN".toList) = "nan".toList := by decide +kernel
  have n1 : ¬ ("-inf".toList = "inf".toList ∨ "-inf".toList = "+inf".toList) := by decide +kernel
  have n2 : ¬ ("nan".toList = "inf".toList ∨ "nan".toList = "+inf".toList) := by decide +kernel
  have n3 : ¬ ("nan".toList = "-inf".toList) := by decide +kernel
  refine ⟨?_, ?_, ?_, ?_⟩ <;> unfold from_str fromStr
  · rw [e1, if_pos (Or.inl rfl)]
  · rw [e2, if_pos (Or.inr rfl)]
  · rw [e3, if_neg n1, if_pos rfl]
  · rw [e4, if_neg n2, if_neg n3, if_pos rfl]

/-! ### the exact branch -/

/-- **Exact branch, unconditional.** For every decimal literal `s` (value `v`): if the parser's decimal
exponent satisfies `|exp| ≤ 400`, then for every precision `prec > 0` and every rounding mode
`from_str` returns the correctly rounded value of the literal — canonical result with at most `prec`
bits that is the nearest (ties to even) / floor / ceiling / toward-zero / away-from-zero `prec`-bit
number of `v`. Rests on the core theorems `from_int_spec` and `from_rational_spec`. -/
theorem from_str_exact_round_full (s : String) (v : ℚ) (h : decValue s = some v)
    (man exp : Int) (hme : str_to_man_exp s 0 = .ok (man, exp)) (hexp : exp.natAbs ≤ 400)
    (prec : Int) (rnd : Rnd) (hprec : 0 < prec) :
    ∃ r, from_str s prec rnd 0 = .ok r ∧ RoundOK prec rnd v r :=
  fromStr_exact_round h hme hexp prec rnd hprec

example : decValue "0.1" = some (1 / 10) ∧
    str_to_man_exp "0.1" 0 = .ok (1, -1) ∧ from_str "0.1" 53 .n 0 = .ok ⟨0, 0xccccccccccccd, -55, 52⟩ :=
  ⟨by decide +kernel, by decide +kernel, by decide +kernel⟩

/-- Corollary: directed conversions in the exact branch are on the right side of the literal. -/
theorem from_str_directed_exact_branch (s : String) (v : ℚ) (h : decValue s = some v)
    (man exp : Int) (hme : str_to_man_exp s 0 = .ok (man, exp)) (hexp : exp.natAbs ≤ 400)
    (prec : Int) (hprec : 0 < prec) :
    (∃ a, from_str s prec .f 0 = .ok a ∧ val a ≤ v) ∧ (∃ b, from_str s prec .c 0 = .ok b ∧ v ≤ val b) := by
  obtain ⟨a, ha, hra⟩ := from_str_exact_round_full s v h man exp hme hexp prec .f hprec
  obtain ⟨b, hb, hrb⟩ := from_str_exact_round_full s v h man exp hme hexp prec .c hprec
  exact ⟨⟨a, ha, (hra.2.2 hprec).1.2.1⟩, ⟨b, hb, (hrb.2.2 hprec).1.2.1⟩⟩

/-! ### the approximate branch (more than 400 fractional digits, or |exponent| > 400): D4 -/

/-- the literal `0.5000…0001` with 399 zeros: 401 fractional digits, value just above 1/2 -/
def litAboveHalf : List Char := '0' :: '.' :: '5' :: (List.replicate 399 '0' ++ ['1'])

/- Full statement (FALSE of the code): for every literal with value `v`, `from_str s prec .c` is `≥ v`
   and `from_str s prec .f` is `≤ v`. -/

/-- **D4.** A ceiling conversion lands *below* the literal: `0.5000…0001` (401 fractional digits,
magnitude well inside [10^-100, 10^100]) converted with rounding mode `c` at 53 bits gives exactly 1/2.
The approximate branch rounds `man` and `10^exp` down whatever the mode. Replayed on the real code. -/
theorem from_str_directed_counterexample :
    ∃ v r, decValueL litAboveHalf = some v ∧ fromStr litAboveHalf 53 .c = .ok r ∧ val r < v := by
  refine ⟨(5 * 10 ^ 400 + 1) / 10 ^ 401, fhalf, by decide +kernel, by decide +kernel, ?_⟩
  have : val fhalf = 1 / 2 := by simp [val, fhalf]
  rw [this, lt_div_iff₀ (by positivity), pow_succ' (10 : ℚ) 400]
  have : (0 : ℚ) < 10 ^ 400 := by positivity
  linarith

/-- the literal `1.00000000000000011102230246251565404236316680908203125 000…0001`:
`1 + 2^-53` (a tie between `1` and `1 + 2^-52`) plus `10^-404` -/
def litAboveTie : List Char :=
  "1.00000000000000011102230246251565404236316680908203125".toList ++ (List.replicate 350 '0' ++ ['1'])

/-- **D4, round to nearest.** The first sentence of the property also fails for long literals:
`1 + 2^-53 + 10^-404` (404 fractional digits) must round to `1 + 2^-52`, `from_str` returns `1`. -/
theorem from_str_nearest_counterexample :
    ∃ v r, decValueL litAboveTie = some v ∧ fromStr litAboveTie 53 .n = .ok r ∧ ¬ RoundOK 53 .n v r := by
  refine ⟨1 + 1 / 2 ^ 53 + 1 / 10 ^ 404, fone, by decide +kernel, by decide +kernel, ?_⟩
  intro h
  have hr := (h.2.2 (by norm_num)).1
  have h53 : (53 : Int).toNat = 53 := rfl
  rw [h53] at hr
  have hv : val fone = 1 := by simp [val, fone]
  rw [hv] at hr
  have hz : Repb 53 ((1 : ℚ) + 1 / 2 ^ 52) := by
    refine ⟨2 ^ 52 + 1, -52, by norm_num, ?_⟩
    norm_num
  have he : (1 : ℚ) / 10 ^ 404 < 1 / 2 ^ 53 := by
    apply one_div_lt_one_div_of_lt (by positivity)
    calc (2 : ℚ) ^ 53 < 10 ^ 16 := by norm_num
      _ ≤ 10 ^ 404 := pow_le_pow_right₀ (by norm_num) (by norm_num)
  have hpos : (0 : ℚ) < 1 / 10 ^ 404 := by positivity
  have h1 : |(1 : ℚ) + 1 / 2 ^ 53 + 1 / 10 ^ 404 - 1| = 1 / 2 ^ 53 + 1 / 10 ^ 404 := by
    rw [abs_of_pos] <;> linarith
  have h2 : |(1 : ℚ) + 1 / 2 ^ 53 + 1 / 10 ^ 404 - (1 + 1 / 2 ^ 52)| = 1 / 2 ^ 53 - 1 / 10 ^ 404 := by
    have : (1 : ℚ) / 2 ^ 52 = 2 * (1 / 2 ^ 53) := by norm_num
    rw [abs_of_neg] <;> linarith
  rcases hr.2 _ hz with hlt | ⟨heq, _⟩
  · rw [h1, h2] at hlt; linarith
  · rw [h1, h2] at heq; linarith

/-! ### intervals from strings: `mpi_from_str` (and `iv.mpf('…')`, which calls it)

`Directed l v prec` (MpProofs/StrIv.lean): the floor and the ceiling conversion of the literal `l` with
value `v` succeed with finite results `a ≤ v ≤ b`. It holds whenever `from_str` takes its exact branch
(`directed_exact_branch` below, from `from_str_exact_round_full`); in the approximate branch it is false in
general (D4), so the containment theorems inherit D4 through this hypothesis and only through it.
`noSpaces s` is `s.replace(" ", "")`; `splitOn2 '+' '-'` is `split("+-")`; `splitOnC c` is `split(c)`.
Each theorem lists the dispatch conditions of one textual form exactly as the code tests them. -/

/-- the exact branch of `from_str` is directed (any precision, any literal with `|exp| ≤ 400`) -/
theorem directed_exact_branch (l : List Char) (v : ℚ) (h : decValueU l = some v) (man exp : Int)
    (hme : strToManExp l 0 = .ok (man, exp)) (hexp : exp.natAbs ≤ 400) (prec : Int) (hp : 0 < prec) :
    Directed l v prec :=
  directed_of_exact h hme hexp hp

/-- form "-1.23e-27": a single literal `t` with value `v` gives an interval containing `v` -/
theorem mpi_from_str_contains_plain (s : List Char) (prec : Int) (v : ℚ)
    (h1 : (splitOn2 '+' '-' (noSpaces s)).length < 2) (h2 : (noSpaces s).contains '(' = false)
    (h3 : (noSpaces s).contains ',' = false) (hd : Directed (noSpaces s) v prec) :
    ∃ lo hi, mpi_from_str s prec 0 = .ok (lo, hi) ∧ val lo ≤ v ∧ v ≤ val hi := by
  obtain ⟨lo, hi, h, -, -, l1, l2⟩ := endpoints_contains hd hd
  exact ⟨lo, hi, by rw [mpi_from_str_plain h1 h2 h3, h], l1, l2⟩

/-- form "[a, b]": the interval contains `[va, vb]` -/
theorem mpi_from_str_contains_brackets (s a b : List Char) (prec : Int) (va vb : ℚ)
    (h1 : (splitOn2 '+' '-' (noSpaces s)).length < 2) (h2 : (noSpaces s).contains '(' = false)
    (h3 : (noSpaces s).contains ',' = true) (h4 : (noSpaces s).contains '[' = true)
    (h5 : (noSpaces s).contains ']' = true) (h6 : (noSpaces s).head? = some '[')
    (h7 : splitOnC ',' (((noSpaces s).filter (· != '[')).filter (· != ']')) = [a, b])
    (ha : Directed a va prec) (hb : Directed b vb prec) :
    ∃ lo hi, mpi_from_str s prec 0 = .ok (lo, hi) ∧ val lo ≤ va ∧ vb ≤ val hi := by
  obtain ⟨lo, hi, h, -, -, l1, l2⟩ := endpoints_contains ha hb
  exact ⟨lo, hi, by rw [mpi_from_str_brackets h1 h2 h3 h4 h5 h6 h7, h], l1, l2⟩

/-- form "x[y,z]e": shared digits `x`, differing digits `y`, `z`, exponent part `e` (`e` present in the
string): the interval contains `[value(xye), value(xze)]` -/
theorem mpi_from_str_contains_shared_e (s x yz y z' z e : List Char) (prec : Int) (va vb : ℚ)
    (h1 : (splitOn2 '+' '-' (noSpaces s)).length < 2) (h2 : (noSpaces s).contains '(' = false)
    (h3 : (noSpaces s).contains ',' = true) (h4 : (noSpaces s).contains '[' = true)
    (h5 : (noSpaces s).contains ']' = true) (h6 : (noSpaces s).head? ≠ some '[')
    (h7 : splitOnC '[' (noSpaces s) = [x, yz]) (h8 : splitOnC ',' yz = [y, z'])
    (h9 : (noSpaces s).contains 'e' = true) (h10 : splitOnC ']' z' = [z, e])
    (ha : Directed (x ++ y ++ e) va prec) (hb : Directed (x ++ z ++ e) vb prec) :
    ∃ lo hi, mpi_from_str s prec 0 = .ok (lo, hi) ∧ val lo ≤ va ∧ vb ≤ val hi := by
  obtain ⟨lo, hi, h, -, -, l1, l2⟩ := endpoints_contains ha hb
  exact ⟨lo, hi, by rw [mpi_from_str_shared_e h1 h2 h3 h4 h5 h6 h7 h8 h9 h10, h], l1, l2⟩

/-- form "x[y,z]" without exponent -/
theorem mpi_from_str_contains_shared (s x yz y z' : List Char) (prec : Int) (va vb : ℚ)
    (h1 : (splitOn2 '+' '-' (noSpaces s)).length < 2) (h2 : (noSpaces s).contains '(' = false)
    (h3 : (noSpaces s).contains ',' = true) (h4 : (noSpaces s).contains '[' = true)
    (h5 : (noSpaces s).contains ']' = true) (h6 : (noSpaces s).head? ≠ some '[')
    (h7 : splitOnC '[' (noSpaces s) = [x, yz]) (h8 : splitOnC ',' yz = [y, z'])
    (h9 : (noSpaces s).contains 'e' = false)
    (ha : Directed (x ++ y) va prec) (hb : Directed (x ++ rstripL (· == ']') z') vb prec) :
    ∃ lo hi, mpi_from_str s prec 0 = .ok (lo, hi) ∧ val lo ≤ va ∧ vb ≤ val hi := by
  obtain ⟨lo, hi, h, -, -, l1, l2⟩ := endpoints_contains ha hb
  exact ⟨lo, hi, by rw [mpi_from_str_shared h1 h2 h3 h4 h5 h6 h7 h8 h9, h], l1, l2⟩

/-- form "a +- b": midpoint `vx`, half-width `vy ≥ 0`; the interval contains `[vx - vy, vx + vy]`
(the conversions run at `prec + 20` bits) -/
theorem mpi_from_str_contains_pm (s x y : List Char) (prec : Int) (vx vy : ℚ) (hp : 0 < prec)
    (h1 : splitOn2 '+' '-' (noSpaces s) = [x, y])
    (hx : Directed x vx (prec + 20)) (hy : Directed y vy (prec + 20)) (hy0 : 0 ≤ vy) :
    ∃ lo hi, mpi_from_str s prec 0 = .ok (lo, hi) ∧ val lo ≤ vx - vy ∧ vx + vy ≤ val hi := by
  obtain ⟨lo, hi, h, -, -, l1, l2⟩ := mpi_from_str_a_b_contains hp hx hy hy0 false
  exact ⟨lo, hi, by rw [mpi_from_str_pm h1, h], by simpa using l1, by simpa using l2⟩

/-- forms "a (b)" and "a (b%)": half-width `vy`, or `|vx|·vy/100` when the string ends in `%` -/
theorem mpi_from_str_contains_paren (s x y : List Char) (prec : Int) (vx vy : ℚ) (hp : 0 < prec)
    (h1 : (splitOn2 '+' '-' (noSpaces s)).length < 2) (h2 : (noSpaces s).contains '(' = true)
    (h3 : (noSpaces s).head? ≠ some '(') (h4 : (noSpaces s).contains ')' = true)
    (h5 : ((noSpaces s).filter (· != ')')).contains '%' = true →
      ((noSpaces s).filter (· != ')')).getLast? = some '%')
    (h6 : splitOnC '(' (((noSpaces s).filter (· != ')')).filter (· != '%')) = [x, y])
    (hx : Directed x vx (prec + 20)) (hy : Directed y vy (prec + 20)) (hy0 : 0 ≤ vy) :
    ∃ lo hi, mpi_from_str s prec 0 = .ok (lo, hi) ∧
      val lo ≤ vx - (if ((noSpaces s).filter (· != ')')).contains '%' then |vx| * vy / 100 else vy) ∧
      vx + (if ((noSpaces s).filter (· != ')')).contains '%' then |vx| * vy / 100 else vy) ≤ val hi := by
  obtain ⟨lo, hi, h, -, -, l1, l2⟩ :=
    mpi_from_str_a_b_contains hp hx hy hy0 (((noSpaces s).filter (· != ')')).contains '%')
  exact ⟨lo, hi, by rw [mpi_from_str_paren h1 h2 h3 h4 h5 h6, h], l1, l2⟩

-- the dispatch conditions on concrete strings (non-vacuity), and the model's answers
example : splitOn2 '+' '-' (noSpaces "1.5 +- 0.25".toList) = ["1.5".toList, "0.25".toList] := by decide +kernel
example : splitOnC '(' (((noSpaces "1 (5%)".toList).filter (· != ')')).filter (· != '%')) = ["1".toList, "5".toList] ∧
    ((noSpaces "1 (5%)".toList).filter (· != ')')).contains '%' = true := by decide +kernel
example : splitOnC ',' (((noSpaces "[0.1, 0.2]".toList).filter (· != '[')).filter (· != ']')) =
    ["0.1".toList, "0.2".toList] := by decide +kernel
example : mpi_from_str "1.2[3,4]e5".toList 53 0 = .ok (⟨0, 15375, 3, 14⟩, ⟨0, 3875, 5, 12⟩) := by decide +kernel
example : mpi_from_str "1 +- 0.5".toList 53 0 = .ok (⟨0, 1, -1, 1⟩, ⟨0, 3, -1, 2⟩) := by decide +kernel
example : Directed "0.25".toList (1 / 4) 73 :=
  directed_exact_branch _ _ (by decide +kernel) 25 (-2) (by decide +kernel) (by decide) 73 (by decide)

end Mp
