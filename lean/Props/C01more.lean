/-
  Props/C01more.lean — C01, further operations: sqrt, integer powers, floor / ceil / nint / frac, `%` and `int()`-related
  results are canonical finite tuples (zero, or sign in {0,1} with an odd mantissa and its exact bit count) for every
  canonical finite operand of any bit length, every precision and mode.  Corollaries of C02sqrt, C03, C06.
-/
import MpProofs.Sqrt
import MpProofs.Pow
import MpProofs.IntPart

namespace Mp

theorem C01_sqrt {s : Mpf} (hs : CanonFin s) (hsign : s.sign = 0) {prec : ℤ} (hp : 0 < prec) (rnd : Rnd) :
    ∃ r, mpf_sqrt s prec rnd = .ok r ∧ CanonFin r := by
  obtain ⟨r, hr, hc, _, _⟩ := mpf_sqrt_spec hs hsign hp rnd
  exact ⟨r, hr, hc⟩

theorem C01_pow_int {s : Mpf} (hs : CanonFin s) (n : ℤ) (h0 : s ≠ fzero ∨ 0 ≤ n) {prec : ℤ} (hp : 0 < prec) (rnd : Rnd) :
    ∃ r, mpf_pow_int s n prec rnd = .ok r ∧ CanonFin r := by
  by_cases hn : 0 ≤ n
  · obtain ⟨m, rfl⟩ : ∃ m : ℕ, n = m := ⟨n.toNat, by omega⟩
    refine ⟨powIntPos s m prec rnd, ?_, (powIntPos_spec hs m hp rnd).canon⟩
    unfold mpf_pow_int
    simp only [hs.finite, Bool.false_eq_true, if_false, ge_iff_le, Int.natCast_nonneg, if_true, Int.toNat_natCast]
  · have hs0 : s ≠ fzero := by rcases h0 with h | h; exact h; exact absurd h hn
    obtain ⟨r, hr, hP⟩ := mpf_pow_int_neg_spec hs hs0 (by omega : n < 0) hp rnd
    exact ⟨r, hr, hP.canon⟩

theorem C01_floor_ceil_nint_frac {s : Mpf} (hs : CanonFin s) {prec : ℤ} (hp : 0 ≤ prec) (rnd : Rnd) :
    (∃ r, mpf_floor s prec rnd = .ok r ∧ CanonFin r) ∧ (∃ r, mpf_ceil s prec rnd = .ok r ∧ CanonFin r) ∧
    (∃ r, mpf_nint s prec rnd = .ok r ∧ CanonFin r) ∧ (∃ r, mpf_frac s prec rnd = .ok r ∧ CanonFin r) := by
  obtain ⟨r1, h1, o1⟩ := mpf_floor_spec hs hp rnd
  obtain ⟨r2, h2, o2⟩ := mpf_ceil_spec hs hp rnd
  obtain ⟨r3, n, h3, _, o3⟩ := mpf_nint_spec hs hp rnd
  obtain ⟨r4, h4, o4⟩ := mpf_frac_spec hs hp rnd
  exact ⟨⟨r1, h1, o1.1⟩, ⟨r2, h2, o2.1⟩, ⟨r3, h3, o3.1⟩, ⟨r4, h4, o4.1⟩⟩

theorem C01_mod {s t : Mpf} (hs : CanonFin s) (ht : CanonFin t) (ht0 : t ≠ fzero) {prec : ℤ} (hp : 0 < prec) (rnd : Rnd) :
    ∃ r, mpf_mod s t prec rnd = .ok r ∧ CanonFin r := by
  obtain ⟨r, hr, o⟩ := mpf_mod_spec hs ht ht0 hp rnd
  exact ⟨r, hr, o.1⟩

end Mp
