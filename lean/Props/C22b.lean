/-
  Props/C22b.lean — C22, second and third decided classes.

  (A) NON-terminating hypergeometric series `pFq(as; bs; z) = Σ_k Π(a_i)_k/Π(b_j)_k · z^k/k!` at rational parameters,
      none a non-positive integer, and rational `z`: `p ≤ q` (0F1, 1F1, 1F2, 2F2, …: entire functions, any `z`, in particular
      large negative `z` where the sum is many orders of magnitude smaller than its terms) and `p = q+1` (1F0, 2F1, 3F2)
      for `|z|` sufficiently below 1.  Reference `Mp.SpecRef.hypEncl`: the exact rational partial sum `Σ_{k<K}` and the
      tail bound `|t_K|/(1−ρ)` with a ratio bound `ρ < 1` that is CHECKED for every `k ≥ K`.
      `C22_series_validator(_complex)`: a verdict is a theorem about the sum of the series;
      `C22_series_value`: whenever an enclosure is produced, no denominator parameter is a non-positive integer and the
      series converges (`HasSum`) — nothing is assumed about closed forms or about mpmath's algorithms;
      `hyp1f1_one_one`: sanity link to a closed form, `1F1(1; 1; z) = e^z`.
  (B) integer (negative) degrees of the families whose hypergeometric representation has a reflection symmetry:
      `legendre` (`legendrePZ`, DEFINED by `P_n := P_{−n−1}` for `n < 0`; `legendrePZ_reflect`), `chebyt`, `chebyu`
      (Mathlib's `Polynomial.Chebyshev.T/U`, which are indexed by `ℤ`).
-/
import MpProofs.SpecRef2
import Props.C22

namespace Mp
open Mp.Encl Mp.SpecRef
open scoped Nat

/-! ### (A) non-terminating series -/

/-- the sum of the series `Σ_k Π(a_i)_k/Π(b_j)_k · z^k/k!` (Pochhammer symbols: Mathlib's `ascPochhammer`) -/
noncomputable def hypSeries (as bs : List ℚ) (z : ℚ) : ℝ :=
  ∑' k : ℕ, (((as.map (fun a => (ascPochhammer ℚ k).eval a)).prod /
    (bs.map (fun b => (ascPochhammer ℚ k).eval b)).prod * z ^ k / (k ! : ℚ) : ℚ) : ℝ)

theorem hypEncl_encloses (as bs : List ℚ) (z : ℚ) : Encloses (hypEncl as bs z) (hypSeries as bs z) :=
  fun wp F h => (hypEncl_sound as bs z wp F h).2.2

/-- verdict `ok` ⇒ `|y − Σ| ≤ 2^(k−p)·|Σ|`; verdict `violates` ⇒ the inequality fails -/
theorem C22_series_validator (as bs : List ℚ) (z : ℚ) (y : Dy) (p k : ℕ) :
    (encCheck (hypEncl as bs z) y p k = .ok →
      |y.val - hypSeries as bs z| ≤ (2 : ℝ) ^ ((k : ℤ) - (p : ℤ)) * |hypSeries as bs z|) ∧
    (encCheck (hypEncl as bs z) y p k = .violates →
      (2 : ℝ) ^ ((k : ℤ) - (p : ℤ)) * |hypSeries as bs z| < |y.val - hypSeries as bs z|) :=
  ⟨encCheck_sound_ok (hypEncl_encloses as bs z) y p k, encCheck_sound_violates (hypEncl_encloses as bs z) y p k⟩

/-- "relative error below 2^(8−p)": run with `k = 7` -/
theorem C22_series_validator_strict (as bs : List ℚ) (z : ℚ) (y : Dy) (p : ℕ)
    (h : encCheck (hypEncl as bs z) y p 7 = .ok) (h0 : hypSeries as bs z ≠ 0) :
    |y.val - hypSeries as bs z| < (2 : ℝ) ^ ((8 : ℤ) - (p : ℤ)) * |hypSeries as bs z| := by
  simpa using encCheck_ok_strict (hypEncl_encloses as bs z) y p 7 h h0

theorem C22_series_validator_complex (as bs : List ℚ) (z : ℚ) (yre yim : Dy) (p k : ℕ) :
    (encCheckC (hypEncl as bs z) yre yim p k = .ok →
      ‖(⟨yre.val, yim.val⟩ : ℂ) - (hypSeries as bs z : ℂ)‖ ≤ (2 : ℝ) ^ ((k : ℤ) - (p : ℤ)) * |hypSeries as bs z|) ∧
    (encCheckC (hypEncl as bs z) yre yim p k = .violates →
      (2 : ℝ) ^ ((k : ℤ) - (p : ℤ)) * |hypSeries as bs z| < ‖(⟨yre.val, yim.val⟩ : ℂ) - (hypSeries as bs z : ℂ)‖) :=
  ⟨encCheckC_sound_ok (hypEncl_encloses as bs z) yre yim p k,
    encCheckC_sound_violates (hypEncl_encloses as bs z) yre yim p k⟩

/-- whenever an enclosure is produced: no denominator parameter is a non-positive integer (every term is defined) and
the series converges to `hypSeries as bs z` -/
theorem C22_series_value (as bs : List ℚ) (z : ℚ) (wp : ℕ) (F : DI) (h : hypEncl as bs z wp = some F) :
    (∀ b ∈ bs, ∀ m : ℕ, b ≠ -(m : ℚ)) ∧
    HasSum (fun k : ℕ => (((as.map (fun a => (ascPochhammer ℚ k).eval a)).prod /
      (bs.map (fun b => (ascPochhammer ℚ k).eval b)).prod * z ^ k / (k ! : ℚ) : ℚ) : ℝ)) (hypSeries as bs z) ∧
    F.Mem (hypSeries as bs z) := by
  obtain ⟨hnp, hsum, hmem⟩ := hypEncl_sound as bs z wp F h
  refine ⟨?_, hsum.hasSum, hmem⟩
  intro b hb m hm
  have := hnp b hb
  rw [(isNpInt_iff b).2 ⟨m, hm⟩] at this
  exact absurd this (by simp)

/-- sanity link to a closed form: `1F1(1; 1; z) = Σ z^k/k! = e^z` -/
theorem hyp1f1_one_one (z : ℚ) : hypSeries [1] [1] z = Real.exp (z : ℝ) := by
  unfold hypSeries
  have h := NormedSpace.expSeries_div_hasSum_exp (𝔸 := ℝ) (z : ℝ)
  rw [← Real.exp_eq_exp_ℝ] at h
  rw [← h.tsum_eq]
  congr 1
  funext k
  have hk : ((k ! : ℕ) : ℚ) ≠ 0 := by exact_mod_cast Nat.factorial_ne_zero k
  simp only [List.map_cons, List.map_nil, List.prod_cons, List.prod_nil, mul_one, ascPochhammer_eval_one]
  rw [div_self hk, one_mul]
  push_cast; rfl

/-! ### (B) integer degrees -/

/-- DEFINITION. Legendre functions of integer degree: `P_n := P_{−n−1}` for `n < 0` (the symmetry `n ↔ −n−1` of
Legendre's differential equation and of `2F1(−n, n+1; 1; (1−x)/2)`) -/
def legendrePZ (x : ℚ) (n : ℤ) : ℚ := legendreP x (if 0 ≤ n then n.toNat else (-n - 1).toNat)

theorem legendrePZ_reflect (x : ℚ) (n : ℤ) : legendrePZ x (-n - 1) = legendrePZ x n := by
  unfold legendrePZ
  congr 1
  split <;> split <;> omega

theorem legendrePZ_natCast (x : ℚ) (m : ℕ) : legendrePZ x (m : ℤ) = legendreP x m := by
  unfold legendrePZ; simp

/-- `legendre(n, x)` at every integer `n`, rational `x`: the reference is `legendrePZ x n` -/
theorem C22_legendre_int_ref (n : ℤ) (x : ℚ) (e : SExpr) (he : legendreZRef n x = .val e) :
    e.sem = ((legendrePZ x n : ℚ) : ℝ) := by
  unfold legendreZRef at he
  obtain ⟨m, hm, hv⟩ := C22_legendre_ref _ x e he
  rw [hv]
  unfold legendrePZ
  congr 2
  split at hm <;> rename_i h0
  · rw [if_pos h0]; omega
  · rw [if_neg h0]; omega

/-- `chebyt(n, x)` at every integer `n`: Mathlib's `Polynomial.Chebyshev.T ℚ n` (indexed by `ℤ`) evaluated at `x` -/
theorem C22_chebyt_int_ref (n : ℤ) (x : ℚ) (e : SExpr) (he : chebytZRef n x = .val e) :
    e.sem = (((Polynomial.Chebyshev.T ℚ n).eval x : ℚ) : ℝ) := by
  unfold chebytZRef at he
  obtain ⟨m, hm, hv⟩ := C22_chebyt_ref _ x e he
  rw [hv]
  split at hm <;> rename_i h0
  · rw [hm]
  · have : n = -(m : ℤ) := by omega
    rw [this, Polynomial.Chebyshev.T_neg]

/-- `chebyu(n, x)` at every integer `n`: Mathlib's `Polynomial.Chebyshev.U ℚ n` (indexed by `ℤ`) evaluated at `x` -/
theorem C22_chebyu_int_ref (n : ℤ) (x : ℚ) (e : SExpr) (he : chebyuZRef n x = .val e) :
    e.sem = (((Polynomial.Chebyshev.U ℚ n).eval x : ℚ) : ℝ) := by
  unfold chebyuZRef at he
  split at he
  · obtain ⟨m, hm, hv⟩ := C22_chebyu_ref _ x e he
    rw [hv, hm]
  · rename_i h0
    split at he
    · rename_i h1
      simp only [Ref.val.injEq] at he; subst he
      rw [h1, Polynomial.Chebyshev.U_neg_one]
      simp [SExpr.sem]
    · rename_i h1
      cases hr : recRef (-n - 2) (chebyuQ x) with
      | val e0 =>
        rw [hr] at he
        simp only [Ref.neg, Ref.val.injEq] at he; subst he
        obtain ⟨m, hm, hv⟩ := C22_chebyu_ref _ x e0 hr
        have : n = -(m : ℤ) - 2 := by omega
        rw [this, Polynomial.Chebyshev.U_neg_sub_two]
        simp only [SExpr.sem, hv, Polynomial.eval_neg]
        push_cast; rfl
      | pole => rw [hr] at he; simp [Ref.neg] at he
      | outside => rw [hr] at he; simp [Ref.neg] at he

/-! ### non-vacuity -/

-- 1F1(2; 1; −31) = (1 − 31)·e^(−31) = −1.0328…·10^(−12): the 53-bit value is accepted, a value with relative error 2^-40 rejected
example : (hypEncl [2] [1] (-31) 85).isSome = true := by decide +kernel
example : encCheck (hypEncl [2] [1] (-31)) ⟨-2556948148139007, -91⟩ 53 7 = .ok := by decide +kernel
example : encCheck (hypEncl [2] [1] (-31)) ⟨-2556948148139007 - 4096, -91⟩ 53 7 = .violates := by decide +kernel
-- a denominator parameter −2: no enclosure
example : hypEncl [2] [-2] (1 / 2) 60 = none := by decide +kernel
-- P_{−3}(0) = P_2(0) = −1/2, T_{−3} = T_3, U_{−3}(1/2) = −U_1(1/2) = −1
example : legendreZRef (-3) 0 = .val (.rat (-1) 2) := by decide +kernel
example : chebytZRef (-3) (1 / 2) = .val (.rat (-1) 1) := by decide +kernel
example : chebyuZRef (-3) (1 / 2) = .val (.neg (.rat 1 1)) := by decide +kernel

end Mp
