/-
  Props/C14inf.lean — C14, "half-infinite or infinite endpoints": containment for interval addition, subtraction and negation
  when endpoints may be infinite.

  An extended interval has a lower endpoint that is `-inf` or finite canonical and an upper endpoint that is `+inf` or finite
  canonical.  `MemExt x I`: the rational `x` is not below a finite lower endpoint and not above a finite upper endpoint.
  For all such intervals (finite endpoints of any bit length), every precision: `x + y`, `x − y`, `−x` lie in the result, which
  is again an extended interval (`inf − inf` inside `mpf_add` gives nan, which the code replaces by the infinite endpoint).
-/
import Props.C02special
import MpProofs.IntervalSound

namespace Mp

/-- lower endpoints: `-inf` or finite canonical; upper endpoints: `+inf` or finite canonical -/
def LowOK (a : Mpf) : Prop := a = fninf ∨ CanonFin a
def UpOK (b : Mpf) : Prop := b = finf ∨ CanonFin b
def ExtIv (I : Mpi) : Prop := LowOK I.1 ∧ UpOK I.2
def AboveLow (x : ℚ) (a : Mpf) : Prop := a = fninf ∨ (CanonFin a ∧ val a ≤ x)
def BelowUp (x : ℚ) (b : Mpf) : Prop := b = finf ∨ (CanonFin b ∧ x ≤ val b)
def MemExt (x : ℚ) (I : Mpi) : Prop := AboveLow x I.1 ∧ BelowUp x I.2

theorem fninf_not_canonFin : ¬ CanonFin fninf := by decide
theorem finf_not_canonFin : ¬ CanonFin finf := by decide

/-- lower endpoint of a sum: floor-rounded, `-inf` as soon as one summand's lower endpoint is `-inf` -/
theorem add_lower {a c : Mpf} {x y : ℚ} (ha : AboveLow x a) (hc : AboveLow y c) {prec : ℤ} (hp : 0 ≤ prec) :
    AboveLow (x + y) (if mpf_add a c prec .f = fnan then fninf else mpf_add a c prec .f) := by
  rcases ha with rfl | ⟨ca, la⟩
  · rcases hc with rfl | ⟨cc, _⟩
    · have := (C02_add_inf_inf prec .f).2.1
      rw [this]; simp [AboveLow, fninf, fnan]
    · have := (C02_add_inf_finite cc prec .f).2.1
      rw [this]; simp [AboveLow, fninf, fnan]
  · rcases hc with rfl | ⟨cc, lc⟩
    · have := (C02_add_inf_finite ca prec .f).2.2.2
      rw [this]; simp [AboveLow, fninf, fnan]
    · have h := mpf_add_spec ca cc hp .f false
      simp only [Bool.false_eq_true, if_false] at h
      have hn := roundOK_ne_nan h
      rw [if_neg hn]
      exact Or.inr ⟨h.1, le_trans (roundOK_f_le hp h) (add_le_add la lc)⟩

theorem add_upper {b d : Mpf} {x y : ℚ} (hb : BelowUp x b) (hd : BelowUp y d) {prec : ℤ} (hp : 0 ≤ prec) :
    BelowUp (x + y) (if mpf_add b d prec .c = fnan then finf else mpf_add b d prec .c) := by
  rcases hb with rfl | ⟨cb, lb⟩
  · rcases hd with rfl | ⟨cd, _⟩
    · have := (C02_add_inf_inf prec .c).1
      rw [this]; simp [BelowUp, finf, fnan]
    · have := (C02_add_inf_finite cd prec .c).1
      rw [this]; simp [BelowUp, finf, fnan]
  · rcases hd with rfl | ⟨cd, ld⟩
    · have := (C02_add_inf_finite cb prec .c).2.2.1
      rw [this]; simp [BelowUp, finf, fnan]
    · have h := mpf_add_spec cb cd hp .c false
      simp only [Bool.false_eq_true, if_false] at h
      have hn := roundOK_ne_nan h
      rw [if_neg hn]
      exact Or.inr ⟨h.1, le_trans (add_le_add lb ld) (roundOK_c_ge hp h)⟩

theorem AboveLow.lowOK {x : ℚ} {a : Mpf} (h : AboveLow x a) : LowOK a := by
  rcases h with h | h
  · exact Or.inl h
  · exact Or.inr h.1

theorem BelowUp.upOK {x : ℚ} {b : Mpf} (h : BelowUp x b) : UpOK b := by
  rcases h with h | h
  · exact Or.inl h
  · exact Or.inr h.1

/-- **addition with infinite endpoints** -/
theorem C14_add_ext {s t : Mpi} {prec : ℤ} (hp : 0 ≤ prec) {x y : ℚ} (hx : MemExt x s) (hy : MemExt y t) :
    ExtIv (mpi_add s t prec) ∧ MemExt (x + y) (mpi_add s t prec) := by
  have l := add_lower hx.1 hy.1 hp
  have u := add_upper hx.2 hy.2 hp
  exact ⟨⟨l.lowOK, u.upOK⟩, l, u⟩

/-! ### subtraction and negation -/

theorem sub_inf_finite {t : Mpf} (ht : CanonFin t) (prec : ℤ) (rnd : Rnd) :
    mpf_sub fninf t prec rnd = fninf ∧ mpf_sub t finf prec rnd = fninf ∧
    mpf_sub finf t prec rnd = finf ∧ mpf_sub t fninf prec rnd = finf := by
  rcases ht.cases with rfl | ⟨hm, _, _, _⟩
  · refine ⟨?_, ?_, ?_, ?_⟩ <;> simp [mpf_sub, mpf_add, mpf_neg, finf, fninf, fzero]
  · have e1 : finf.man = 0 := rfl
    have e2 : fninf.man = 0 := rfl
    have x1 : finf.exp ≠ 0 := by decide
    have x2 : fninf.exp ≠ 0 := by decide
    have n1 : mpf_neg finf = fninf := by decide
    have n2 : mpf_neg fninf = finf := by decide
    refine ⟨?_, ?_, ?_, ?_⟩ <;>
      simp [mpf_sub, mpf_add, e1, e2, x1, x2, hm, n1, n2]

theorem sub_inf_inf (prec : ℤ) (rnd : Rnd) :
    mpf_sub fninf finf prec rnd = fninf ∧ mpf_sub finf fninf prec rnd = finf := by
  constructor <;> simp [mpf_sub, mpf_add, mpf_neg, finf, fninf, fnan]

theorem sub_lower {a d : Mpf} {x y : ℚ} (ha : AboveLow x a) (hd : BelowUp y d) {prec : ℤ} (hp : 0 ≤ prec) :
    AboveLow (x - y) (if mpf_sub a d prec .f = fnan then fninf else mpf_sub a d prec .f) := by
  rcases ha with rfl | ⟨ca, la⟩
  · rcases hd with rfl | ⟨cd, _⟩
    · rw [(sub_inf_inf prec .f).1]; simp [AboveLow, fninf, fnan]
    · rw [(sub_inf_finite cd prec .f).1]; simp [AboveLow, fninf, fnan]
  · rcases hd with rfl | ⟨cd, ld⟩
    · rw [(sub_inf_finite ca prec .f).2.1]; simp [AboveLow, fninf, fnan]
    · have h := mpf_sub_spec ca cd hp .f
      have hn := roundOK_ne_nan h
      rw [if_neg hn]
      exact Or.inr ⟨h.1, le_trans (roundOK_f_le hp h) (by linarith)⟩

theorem sub_upper {b c : Mpf} {x y : ℚ} (hb : BelowUp x b) (hc : AboveLow y c) {prec : ℤ} (hp : 0 ≤ prec) :
    BelowUp (x - y) (if mpf_sub b c prec .c = fnan then finf else mpf_sub b c prec .c) := by
  rcases hb with rfl | ⟨cb, lb⟩
  · rcases hc with rfl | ⟨cc, _⟩
    · rw [(sub_inf_inf prec .c).2]; simp [BelowUp, finf, fnan]
    · rw [(sub_inf_finite cc prec .c).2.2.1]; simp [BelowUp, finf, fnan]
  · rcases hc with rfl | ⟨cc, lc⟩
    · rw [(sub_inf_finite cb prec .c).2.2.2]; simp [BelowUp, finf, fnan]
    · have h := mpf_sub_spec cb cc hp .c
      have hn := roundOK_ne_nan h
      rw [if_neg hn]
      exact Or.inr ⟨h.1, le_trans (by linarith) (roundOK_c_ge hp h)⟩

/-- **subtraction with infinite endpoints** -/
theorem C14_sub_ext {s t : Mpi} {prec : ℤ} (hp : 0 ≤ prec) {x y : ℚ} (hx : MemExt x s) (hy : MemExt y t) :
    ExtIv (mpi_sub s t prec) ∧ MemExt (x - y) (mpi_sub s t prec) := by
  have l := sub_lower hx.1 hy.2 hp
  have u := sub_upper hx.2 hy.1 hp
  exact ⟨⟨l.lowOK, u.upOK⟩, l, u⟩

/-- **negation with infinite endpoints** -/
theorem C14_neg_ext {s : Mpi} {prec : ℤ} (hp : 0 ≤ prec) {x : ℚ} (hx : MemExt x s) :
    ExtIv (mpi_neg s prec) ∧ MemExt (-x) (mpi_neg s prec) := by
  have n1 : ∀ r : Rnd, mpf_neg finf prec r = fninf := by intro r; simp [mpf_neg, finf, fninf, fzero, fnan]
  have n2 : ∀ r : Rnd, mpf_neg fninf prec r = finf := by intro r; simp [mpf_neg, finf, fninf, fzero, fnan]
  have l : AboveLow (-x) (mpf_neg s.2 prec .f) := by
    rcases hx.2 with h | ⟨c, le⟩
    · rw [h, n1]; exact Or.inl rfl
    · have hh := mpf_neg_spec c hp .f
      exact Or.inr ⟨hh.1, le_trans (roundOK_f_le hp hh) (by linarith)⟩
  have u : BelowUp (-x) (mpf_neg s.1 prec .c) := by
    rcases hx.1 with h | ⟨c, le⟩
    · rw [h, n2]; exact Or.inl rfl
    · have hh := mpf_neg_spec c hp .c
      exact Or.inr ⟨hh.1, le_trans (by linarith) (roundOK_c_ge hp hh)⟩
  exact ⟨⟨l.lowOK, u.upOK⟩, l, u⟩

/-! non-vacuity: [-inf, 1] + [2, inf] = [-inf, inf];  3 ∈ [-inf, 5] -/
example : mpi_add (fninf, fone) (ftwo, finf) 53 = (fninf, finf) := by decide
example : MemExt 3 (fninf, ⟨0, 5, 0, 3⟩) := by
  refine ⟨Or.inl rfl, Or.inr ⟨Or.inr ⟨by decide, by decide, by decide⟩, ?_⟩⟩
  simp [val]; norm_num

end Mp
