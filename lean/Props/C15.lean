/-
  Props/C15.lean — C15: complex interval (rectangle) arithmetic contains every possible exact result.

  For rectangles with finite canonical endpoints of any bit length and any precision: the results of mpci_add, mpci_sub,
  mpci_neg, mpci_pos and mpci_mul are well-formed rectangles containing `z ∘ w` for every `z`, `w` in the operands
  (real and imaginary parts as rationals).  Corollaries of the real-interval containment theorems (MpProofs/IntervalSound.lean:
  all sign cases of mpi_mul, directed rounding of every endpoint).  Division, powers, abs and the transcendental functions are
  not covered by theorems: they are tied by the bit-exact correspondence and decided on sample points by the check.
-/
import MpProofs.IntervalSound

namespace Mp

/-- a rectangle with finite canonical, ordered endpoints -/
def FinCi (Z : Mpci) : Prop := FinIv Z.1 ∧ FinIv Z.2

/-- the complex number `x + iy` lies in the rectangle -/
def MemCi (x y : ℚ) (Z : Mpci) : Prop := MemIv x Z.1 ∧ MemIv y Z.2

theorem C15_add {Z W : Mpci} (hZ : FinCi Z) (hW : FinCi W) {prec : ℤ} (hp : 0 ≤ prec) {x y u v : ℚ}
    (hz : MemCi x y Z) (hw : MemCi u v W) :
    FinCi (mpci_add Z W prec) ∧ MemCi (x + u) (y + v) (mpci_add Z W prec) := by
  obtain ⟨h1, m1⟩ := mpi_add_sound hZ.1 hW.1 hp hz.1 hw.1
  obtain ⟨h2, m2⟩ := mpi_add_sound hZ.2 hW.2 hp hz.2 hw.2
  exact ⟨⟨h1, h2⟩, m1, m2⟩

theorem C15_sub {Z W : Mpci} (hZ : FinCi Z) (hW : FinCi W) {prec : ℤ} (hp : 0 ≤ prec) {x y u v : ℚ}
    (hz : MemCi x y Z) (hw : MemCi u v W) :
    FinCi (mpci_sub Z W prec) ∧ MemCi (x - u) (y - v) (mpci_sub Z W prec) := by
  obtain ⟨h1, m1⟩ := mpi_sub_sound hZ.1 hW.1 hp hz.1 hw.1
  obtain ⟨h2, m2⟩ := mpi_sub_sound hZ.2 hW.2 hp hz.2 hw.2
  exact ⟨⟨h1, h2⟩, m1, m2⟩

theorem C15_neg {Z : Mpci} (hZ : FinCi Z) {prec : ℤ} (hp : 0 ≤ prec) {x y : ℚ} (hz : MemCi x y Z) :
    FinCi (mpci_neg Z prec) ∧ MemCi (-x) (-y) (mpci_neg Z prec) := by
  obtain ⟨h1, m1⟩ := mpi_neg_sound hZ.1 hp hz.1
  obtain ⟨h2, m2⟩ := mpi_neg_sound hZ.2 hp hz.2
  exact ⟨⟨h1, h2⟩, m1, m2⟩

theorem C15_pos {Z : Mpci} (hZ : FinCi Z) {prec : ℤ} (hp : 0 ≤ prec) {x y : ℚ} (hz : MemCi x y Z) :
    FinCi (mpci_pos Z prec) ∧ MemCi x y (mpci_pos Z prec) := by
  obtain ⟨h1, m1⟩ := mpi_pos_sound hZ.1 hp hz.1
  obtain ⟨h2, m2⟩ := mpi_pos_sound hZ.2 hp hz.2
  exact ⟨⟨h1, h2⟩, m1, m2⟩

/-- `(x + iy)(u + iv) = (xu - yv) + i(xv + yu)`: four exact interval products, one directed rounding per endpoint -/
theorem C15_mul {Z W : Mpci} (hZ : FinCi Z) (hW : FinCi W) {prec : ℤ} (hp : 0 ≤ prec) {x y u v : ℚ}
    (hz : MemCi x y Z) (hw : MemCi u v W) :
    FinCi (mpci_mul Z W prec) ∧ MemCi (x * u - y * v) (x * v + y * u) (mpci_mul Z W prec) := by
  obtain ⟨f1, p1⟩ := mpi_mul_sound hZ.1 hW.1 (le_refl 0) hz.1 hw.1
  obtain ⟨f2, p2⟩ := mpi_mul_sound hZ.2 hW.2 (le_refl 0) hz.2 hw.2
  obtain ⟨f3, p3⟩ := mpi_mul_sound hZ.1 hW.2 (le_refl 0) hz.1 hw.2
  obtain ⟨f4, p4⟩ := mpi_mul_sound hZ.2 hW.1 (le_refl 0) hz.2 hw.1
  obtain ⟨hre, mre⟩ := mpi_sub_sound f1 f2 hp p1 p2
  obtain ⟨him, mim⟩ := mpi_add_sound f3 f4 hp p3 p4
  exact ⟨⟨hre, him⟩, mre, mim⟩

example : FinCi ((fzero, fone), (fnone, fone)) ∧ MemCi (1 / 2) 0 ((fzero, fone), (fnone, fone)) := by
  refine ⟨⟨⟨canonFin_fzero, Or.inr ⟨by decide, by decide, by decide⟩, ?_⟩,
    ⟨Or.inr ⟨by decide, by decide, by decide⟩, Or.inr ⟨by decide, by decide, by decide⟩, ?_⟩⟩, ⟨?_, ?_⟩, ⟨?_, ?_⟩⟩ <;>
    simp [val, fzero, fone, fnone] <;> norm_num

end Mp
