/-
  Props/C31.lean — C31: eigen and singular value decompositions satisfy their identities.

  Technique: VERIFIED CERTIFICATE CHECKING.  The harness runs the real mpmath routine, reads input and
  output exactly (dyadic / Gaussian-dyadic entries) and the compiled checker of `MpModel/Cert.lean`
  evaluates the identities in exact arithmetic.  The theorems below say what an answer of the checker
  means for the complex matrices denoted by the data (`toMat r c M : Matrix (Fin r) (Fin c) ℂ`,
  `colVec n E : Fin n → ℂ`), with `frob` the Frobenius norm and `p` the working precision:

    eigCheck  = true  ↔  ‖A·V − V·diag(E)‖_F ≤ 2^(10−p)·‖A‖_F·max(1,‖V‖_F)
    eigLCheck = true  ↔  ‖W·A − diag(E)·W‖_F ≤ 2^(10−p)·‖A‖_F·max(1,‖W‖_F)
    eighCheck = true  →  E real, ascending, ‖VᴴV − I‖_F ≤ 2^(10−p)·√n and the eig residual bound
    svdCheck  = true  →  S real, ≥ 0, descending, UᴴU ≈ I, V·Vᴴ ≈ I, ‖U·diag(S)·V − A‖_F ≤ 2^(10−p)·‖A‖_F
    schurCheck band = true → QᴴQ ≈ I, T upper triangular (band 0) / Hessenberg (band 1) exactly,
                             ‖Q·T·Qᴴ − A‖_F ≤ 2^(10−p)·‖A‖_F
  No statement is made about the convergence of the QR/QL iterations: the property is decided on each
  output.  gauss_quadrature is checked in the harness only (exact rational moments), no theorem here.
-/
import MpProofs.CertResid

namespace Mp

open Mp.Cert Matrix

/-- `eig`, right eigenvectors: the checker's answer is exactly the residual inequality. -/
theorem eigCheck_iff (n : ℕ) (p : ℤ) (A V E : Mat) :
    eigCheck n p A V E = true ↔
      frob (toMat n n A * toMat n n V - toMat n n V * Matrix.diagonal (colVec n E))
        ≤ (2:ℝ) ^ (10 - p) * (frob (toMat n n A) * max 1 (frob (toMat n n V))) := by
  rw [eigCheck, frobLe_iff (toReal_mul_nonneg (frob2_nonneg _ _ _) (max1_nonneg _)), eigResid, toMat_msub,
    toMat_mmul, toMat_mmul, toMat_diagM', sqrt_frob2_mul_max1]

/-- `eig`, left eigenvectors (rows of W). -/
theorem eigLCheck_iff (n : ℕ) (p : ℤ) (A W E : Mat) :
    eigLCheck n p A W E = true ↔
      frob (toMat n n W * toMat n n A - Matrix.diagonal (colVec n E) * toMat n n W)
        ≤ (2:ℝ) ^ (10 - p) * (frob (toMat n n A) * max 1 (frob (toMat n n W))) := by
  rw [eigLCheck, frobLe_iff (toReal_mul_nonneg (frob2_nonneg _ _ _) (max1_nonneg _)), eigLResid, toMat_msub,
    toMat_mmul, toMat_mmul, toMat_diagM', sqrt_frob2_mul_max1]

/-- `eigsy` / `eighe` / `eigh`: real ascending eigenvalues, orthonormal eigenvectors, small residual. -/
theorem eighCheck_sound (n : ℕ) (p : ℤ) (A V E : Mat) (h : eighCheck n p A V E = true) :
    (∀ i, (colVec n E i).im = 0) ∧
    (∀ i j : Fin n, (i : ℕ) + 1 = (j : ℕ) → (colVec n E i).re ≤ (colVec n E j).re) ∧
    frob ((toMat n n V)ᴴ * toMat n n V - 1) ≤ (2:ℝ) ^ (10 - p) * Real.sqrt n ∧
    frob (toMat n n A * toMat n n V - toMat n n V * Matrix.diagonal (colVec n E))
      ≤ (2:ℝ) ^ (10 - p) * (frob (toMat n n A) * max 1 (frob (toMat n n V))) := by
  rw [eighCheck, Bool.and_eq_true, Bool.and_eq_true, Bool.and_eq_true] at h
  obtain ⟨⟨⟨h1, h2⟩, h3⟩, h4⟩ := h
  exact ⟨allReal_sound h1, ascending_sound h2, orthCheck_sound h3, (eigCheck_iff n p A V E).1 h4⟩

/-- `svd` / `svd_r` / `svd_c` (economy factors U m×k, S k, V k×n). -/
theorem svdCheck_sound (m n k : ℕ) (p : ℤ) (A U S V : Mat) (h : svdCheck m n k p A U S V = true) :
    (∀ i, (colVec k S i).im = 0) ∧ (∀ i, 0 ≤ (colVec k S i).re) ∧
    (∀ i j : Fin k, (i : ℕ) + 1 = (j : ℕ) → (colVec k S j).re ≤ (colVec k S i).re) ∧
    frob ((toMat m k U)ᴴ * toMat m k U - 1) ≤ (2:ℝ) ^ (10 - p) * Real.sqrt k ∧
    frob (toMat k n V * (toMat k n V)ᴴ - 1) ≤ (2:ℝ) ^ (10 - p) * Real.sqrt k ∧
    frob (toMat m k U * Matrix.diagonal (colVec k S) * toMat k n V - toMat m n A)
      ≤ (2:ℝ) ^ (10 - p) * frob (toMat m n A) := by
  rw [svdCheck, Bool.and_eq_true, Bool.and_eq_true, Bool.and_eq_true, Bool.and_eq_true,
    Bool.and_eq_true] at h
  obtain ⟨⟨⟨⟨⟨h1, h2⟩, h3⟩, h4⟩, h5⟩, h6⟩ := h
  refine ⟨allReal_sound h1, nonneg_sound h2, descending_sound h3, orthCheck_sound h4, ?_, ?_⟩
  · have := frobLe_sound h5
    rwa [rowOrthResid, toMat_msub, toMat_mmul, toMat_conjT, toMat_ident, sqrt_ofNat] at this
  · have := frobLe_sound h6
    rwa [svdResid, toMat_msub, toMat_mmul, toMat_mmul, toMat_diagM', sqrt_frob2] at this

/-- `schur` (band = 0: T upper triangular) and `hessenberg` (band = 1: T upper Hessenberg). -/
theorem schurCheck_sound (band n : ℕ) (p : ℤ) (A Q T : Mat) (h : schurCheck band n p A Q T = true) :
    frob ((toMat n n Q)ᴴ * toMat n n Q - 1) ≤ (2:ℝ) ^ (10 - p) * Real.sqrt n ∧
    IsUpperBand band (toMat n n T) ∧
    frob (toMat n n Q * toMat n n T * (toMat n n Q)ᴴ - toMat n n A)
      ≤ (2:ℝ) ^ (10 - p) * frob (toMat n n A) := by
  rw [schurCheck, Bool.and_eq_true, Bool.and_eq_true] at h
  obtain ⟨⟨h1, h2⟩, h3⟩ := h
  refine ⟨orthCheck_sound h1, isUpperBand_sound h2, ?_⟩
  have := frobLe_sound h3
  rwa [simResid, toMat_msub, toMat_mmul, toMat_mmul, toMat_conjT, sqrt_frob2] at this

/-- non-vacuity: the checker accepts a genuine decomposition (A = diag(2,3), V = I) and rejects a wrong one -/
example : eigCheck 2 53 [[⟨⟨2,0⟩,⟨0,0⟩⟩, G.zero], [G.zero, ⟨⟨3,0⟩,⟨0,0⟩⟩]]
    [[G.one, G.zero], [G.zero, G.one]] [[⟨⟨2,0⟩,⟨0,0⟩⟩], [⟨⟨3,0⟩,⟨0,0⟩⟩]] = true := by decide
example : eigCheck 2 53 [[⟨⟨2,0⟩,⟨0,0⟩⟩, G.zero], [G.zero, ⟨⟨3,0⟩,⟨0,0⟩⟩]]
    [[G.one, G.zero], [G.zero, G.one]] [[⟨⟨2,0⟩,⟨0,0⟩⟩], [⟨⟨5,-1⟩,⟨0,0⟩⟩]] = false := by decide

end Mp
