/-
  Props/C10more.lean — C10, further operations: results of sqrt, integer powers (every integer exponent), floor / ceil /
  nint / frac and `%` at working precision `prec ≥ 1` have at most `prec` mantissa bits, for operands of any bit length.
  Corollaries of the rounding contracts proved for those operations (C02sqrt, C03, C06).
-/
import MpProofs.Sqrt
import MpProofs.Pow
import MpProofs.IntPart

namespace Mp

theorem bitcount_le_of_canon {r : Mpf} (hc : CanonFin r) {prec : ℤ} (hp : 0 < prec) (hb : r.bc ≤ prec) :
    (bitcount r.man : ℤ) ≤ prec := by
  rcases hc with h0 | ⟨_, _, hb'⟩
  · rw [h0]; simp [fzero]; omega
  · rw [← hb']; exact hb

theorem C10_sqrt {s : Mpf} (hs : CanonFin s) (hsign : s.sign = 0) {prec : ℤ} (hp : 0 < prec) (rnd : Rnd) :
    ∃ r, mpf_sqrt s prec rnd = .ok r ∧ (bitcount r.man : ℤ) ≤ prec := by
  obtain ⟨r, hr, hc, hb, _⟩ := mpf_sqrt_spec hs hsign hp rnd
  exact ⟨r, hr, bitcount_le_of_canon hc hp hb⟩

theorem C10_pow_int {s : Mpf} (hs : CanonFin s) (n : ℤ) (h0 : s ≠ fzero ∨ 0 ≤ n) {prec : ℤ} (hp : 0 < prec) (rnd : Rnd) :
    ∃ r, mpf_pow_int s n prec rnd = .ok r ∧ (bitcount r.man : ℤ) ≤ prec := by
  by_cases hn : 0 ≤ n
  · obtain ⟨m, rfl⟩ : ∃ m : ℕ, n = m := ⟨n.toNat, by omega⟩
    have hP := powIntPos_spec hs m hp rnd
    refine ⟨powIntPos s m prec rnd, ?_, bitcount_le_of_canon hP.canon hp hP.bc_le⟩
    unfold mpf_pow_int
    simp only [hs.finite, Bool.false_eq_true, if_false, ge_iff_le, Int.natCast_nonneg, if_true, Int.toNat_natCast]
  · have hs0 : s ≠ fzero := by rcases h0 with h | h; exact h; exact absurd h hn
    obtain ⟨r, hr, hP⟩ := mpf_pow_int_neg_spec hs hs0 (by omega : n < 0) hp rnd
    exact ⟨r, hr, bitcount_le_of_canon hP.canon hp hP.bc_le⟩

theorem C10_floor_ceil_nint_frac {s : Mpf} (hs : CanonFin s) {prec : ℤ} (hp : 0 < prec) (rnd : Rnd) :
    (∃ r, mpf_floor s prec rnd = .ok r ∧ (bitcount r.man : ℤ) ≤ prec) ∧
    (∃ r, mpf_ceil s prec rnd = .ok r ∧ (bitcount r.man : ℤ) ≤ prec) ∧
    (∃ r, mpf_nint s prec rnd = .ok r ∧ (bitcount r.man : ℤ) ≤ prec) ∧
    (∃ r, mpf_frac s prec rnd = .ok r ∧ (bitcount r.man : ℤ) ≤ prec) := by
  obtain ⟨r1, h1, o1⟩ := mpf_floor_spec hs hp.le rnd
  obtain ⟨r2, h2, o2⟩ := mpf_ceil_spec hs hp.le rnd
  obtain ⟨r3, n, h3, _, o3⟩ := mpf_nint_spec hs hp.le rnd
  obtain ⟨r4, h4, o4⟩ := mpf_frac_spec hs hp.le rnd
  exact ⟨⟨r1, h1, bitcount_le_of_canon o1.1 hp (o1.2.2 hp).2⟩, ⟨r2, h2, bitcount_le_of_canon o2.1 hp (o2.2.2 hp).2⟩,
    ⟨r3, h3, bitcount_le_of_canon o3.1 hp (o3.2.2 hp).2⟩, ⟨r4, h4, bitcount_le_of_canon o4.1 hp (o4.2.2 hp).2⟩⟩

theorem C10_mod {s t : Mpf} (hs : CanonFin s) (ht : CanonFin t) (ht0 : t ≠ fzero) {prec : ℤ} (hp : 0 < prec) (rnd : Rnd) :
    ∃ r, mpf_mod s t prec rnd = .ok r ∧ (bitcount r.man : ℤ) ≤ prec := by
  obtain ⟨r, hr, o⟩ := mpf_mod_spec hs ht ht0 hp rnd
  exact ⟨r, hr, bitcount_le_of_canon o.1 hp (o.2.2 hp).2⟩

end Mp
