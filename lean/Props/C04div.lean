/-
  Props/C04div.lean — C04, the clause on division:
  "Complex division, reciprocals and negative integer powers have a relative error (in modulus) of at most a few units in
  the last place".

  Proved for every pair of finite canonical complex numbers (components of any bit length and exponent), every precision
  ≥ 1 and all five rounding modes: each COMPONENT of `z/w`, `1/z`, `p/z` (p real) is within `2^(2-prec)` relative — two units
  in the last place — of the exact component (which implies the modulus statement, `C04_div_modulus`); `z/p` (p real,
  nonzero) is correctly rounded per component.  Negative integer powers `z**(-n)` are `mpc_reciprocal` of `z**n` computed
  at `prec+4` (model: `mpc_pow_int`): Props/C04powneg.lean.
-/
import MpProofs.CDiv
import Props.C04

namespace Mp

/-- exact components of the quotient `(a + b i)/(c + d i)` -/
def cdivRe (a b c d : ℚ) : ℚ := (a * c + b * d) / (c * c + d * d)
def cdivIm (a b c d : ℚ) : ℚ := (b * c - a * d) / (c * c + d * d)

/-- they are the components of the complex quotient: `(c + d i)·(Re + Im i) = a + b i` when `c + d i ≠ 0` -/
theorem cdiv_is_quotient (a b c d : ℚ) (h : c * c + d * d ≠ 0) :
    c * cdivRe a b c d - d * cdivIm a b c d = a ∧ c * cdivIm a b c d + d * cdivRe a b c d = b := by
  unfold cdivRe cdivIm
  constructor
  · rw [← mul_div_assoc, ← mul_div_assoc, ← sub_div, div_eq_iff h]; ring
  · rw [← mul_div_assoc, ← mul_div_assoc, ← add_div, div_eq_iff h]; ring

/-- **complex division**, componentwise: two units in the last place -/
theorem C04_div {z w : Mpc} (hz : CanonFinC z) (hw : CanonFinC w) (hw0 : ¬ (w.1 = fzero ∧ w.2 = fzero))
    {prec : ℤ} (hp : 0 < prec) (rnd : Rnd) :
    ∃ re im, mpc_div z w prec rnd = .ok (re, im) ∧ CanonFin re ∧ CanonFin im ∧ re.bc ≤ prec ∧ im.bc ≤ prec ∧
      |val re - cdivRe (val z.1) (val z.2) (val w.1) (val w.2)| ≤
        |cdivRe (val z.1) (val z.2) (val w.1) (val w.2)| * 2 ^ (2 - prec) ∧
      |val im - cdivIm (val z.1) (val z.2) (val w.1) (val w.2)| ≤
        |cdivIm (val z.1) (val z.2) (val w.1) (val w.2)| * 2 ^ (2 - prec) :=
  mpc_div_spec hz.1 hz.2 hw.1 hw.2 hw0 hp rnd

/-- componentwise relative error `e` implies relative error `e` in modulus (squared form, no square roots) -/
theorem modulus_of_componentwise {x y R I e : ℚ} (hx : |x - R| ≤ |R| * e) (hy : |y - I| ≤ |I| * e) :
    (x - R) ^ 2 + (y - I) ^ 2 ≤ e ^ 2 * (R ^ 2 + I ^ 2) := by
  have h1 : (x - R) ^ 2 ≤ (|R| * e) ^ 2 := by
    rw [← sq_abs (x - R)]; exact pow_le_pow_left₀ (abs_nonneg _) hx 2
  have h2 : (y - I) ^ 2 ≤ (|I| * e) ^ 2 := by
    rw [← sq_abs (y - I)]; exact pow_le_pow_left₀ (abs_nonneg _) hy 2
  have e1 : (|R| * e) ^ 2 = e ^ 2 * R ^ 2 := by rw [mul_pow, sq_abs]; ring
  have e2 : (|I| * e) ^ 2 = e ^ 2 * I ^ 2 := by rw [mul_pow, sq_abs]; ring
  rw [e1] at h1; rw [e2] at h2
  linarith

/-- **complex division, in modulus**: `|q − z/w|² ≤ (2^(2−prec))² |z/w|²` -/
theorem C04_div_modulus {z w : Mpc} (hz : CanonFinC z) (hw : CanonFinC w) (hw0 : ¬ (w.1 = fzero ∧ w.2 = fzero))
    {prec : ℤ} (hp : 0 < prec) (rnd : Rnd) :
    ∃ re im, mpc_div z w prec rnd = .ok (re, im) ∧
      (val re - cdivRe (val z.1) (val z.2) (val w.1) (val w.2)) ^ 2 +
        (val im - cdivIm (val z.1) (val z.2) (val w.1) (val w.2)) ^ 2 ≤
      ((2 : ℚ) ^ (2 - prec)) ^ 2 *
        (cdivRe (val z.1) (val z.2) (val w.1) (val w.2) ^ 2 + cdivIm (val z.1) (val z.2) (val w.1) (val w.2) ^ 2) := by
  obtain ⟨re, im, h, _, _, _, _, e1, e2⟩ := C04_div hz hw hw0 hp rnd
  exact ⟨re, im, h, modulus_of_componentwise e1 e2⟩

/-- **reciprocal** `1/z`: components `a/(a²+b²)` and `−b/(a²+b²)`, two units in the last place each -/
theorem C04_reciprocal {z : Mpc} (hz : CanonFinC z) (hz0 : ¬ (z.1 = fzero ∧ z.2 = fzero))
    {prec : ℤ} (hp : 0 < prec) (rnd : Rnd) :
    ∃ re im, mpc_reciprocal z prec rnd = .ok (re, im) ∧ CanonFin re ∧ CanonFin im ∧ re.bc ≤ prec ∧ im.bc ≤ prec ∧
      |val re - val z.1 / (val z.1 * val z.1 + val z.2 * val z.2)| ≤
        |val z.1 / (val z.1 * val z.1 + val z.2 * val z.2)| * 2 ^ (2 - prec) ∧
      |val im - (-(val z.2 / (val z.1 * val z.1 + val z.2 * val z.2)))| ≤
        |val z.2 / (val z.1 * val z.1 + val z.2 * val z.2)| * 2 ^ (2 - prec) :=
  mpc_reciprocal_spec hz.1 hz.2 hz0 hp rnd

/-- **real / complex** -/
theorem C04_mpf_div {p : Mpf} (hpc : CanonFin p) {z : Mpc} (hz : CanonFinC z) (hz0 : ¬ (z.1 = fzero ∧ z.2 = fzero))
    {prec : ℤ} (hp : 0 < prec) (rnd : Rnd) :
    ∃ re im, mpc_mpf_div p z prec rnd = .ok (re, im) ∧ CanonFin re ∧ CanonFin im ∧ re.bc ≤ prec ∧ im.bc ≤ prec ∧
      |val re - val z.1 * val p / (val z.1 * val z.1 + val z.2 * val z.2)| ≤
        |val z.1 * val p / (val z.1 * val z.1 + val z.2 * val z.2)| * 2 ^ (2 - prec) ∧
      |val im - (-(val z.2 * val p)) / (val z.1 * val z.1 + val z.2 * val z.2)| ≤
        |(-(val z.2 * val p)) / (val z.1 * val z.1 + val z.2 * val z.2)| * 2 ^ (2 - prec) :=
  mpc_mpf_div_spec hpc hz.1 hz.2 hz0 hp rnd

/-- **complex / real**: each component correctly rounded -/
theorem C04_div_mpf {z : Mpc} (hz : CanonFinC z) {p : Mpf} (hpc : CanonFin p) (hp0 : p ≠ fzero)
    {prec : ℤ} (hp : 0 < prec) (rnd : Rnd) :
    ∃ re im, mpc_div_mpf z p prec rnd = .ok (re, im) ∧
      RoundOK prec rnd (val z.1 / val p) re ∧ RoundOK prec rnd (val z.2 / val p) im := by
  obtain ⟨re, h1, r1⟩ := mpf_div_spec hz.1 hpc hp0 hp rnd
  obtain ⟨im, h2, r2⟩ := mpf_div_spec hz.2 hpc hp0 hp rnd
  refine ⟨re, im, ?_, r1, r2⟩
  unfold mpc_div_mpf
  simp only [h1, h2]
  rfl

/-! non-vacuity: (1 + 2i)/(3 − i) = (1 + 7i)/10 at 53 bits, nearest -/
example : mpc_div (⟨0, 1, 0, 1⟩, ⟨0, 1, 1, 1⟩) (⟨0, 3, 0, 2⟩, ⟨1, 1, 0, 1⟩) 53 .n =
    .ok (⟨0, 3602879701896397, -55, 52⟩, ⟨0, 3152519739159347, -52, 52⟩) := by decide
example : cdivRe 1 2 3 (-1) = 1 / 10 ∧ cdivIm 1 2 3 (-1) = 7 / 10 := by norm_num [cdivRe, cdivIm]

end Mp
