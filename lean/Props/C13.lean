/-
  Props/C13.lean — C13 (exact cases and special values): the Lean side of the exactness decisions made by
  harness/props/C13.py.

  * roots of perfect powers: the driver op `rootexact n x y` decides `y^n = x` in integers; this is sound and
    identifies `y` as the real n-th root (`C13_root_exact_sound`).
  * sinpi / cospi at half-integers: the exact values are 0, ±1 by the residue of `k` mod 4 (`C13_sinpi_cospi_half_int`).
  * exact special points (exp 0, log 1, atan 0, sin 0, cos 0, …): whenever the verified evaluator returns a point
    enclosure `[v, v]`, the real function value IS `v` (`C13_exact_of_point_enclosure`), so "the implementation returned
    exactly v" is decided rigorously; and a verdict `ok` at a zero of the function forces the returned value to be 0.
  * tan/cot/sec/csc finite: an enclosure is returned only if the denominator enclosure excludes 0; then the value is a
    finite real inside the enclosure (`C13_finite_value_enclosed`).
-/
import MpProofs.Encl2Sound

namespace Mp
open Mp.Encl

/-- the integer test `y^n = x` (`y, x ≥ 0`) is sound, and `y` is then the real `n`-th root of `x` -/
theorem C13_root_exact_sound (n : ℕ) (hn : n ≠ 0) (x y : Dy) (h : rootExact n x y = true) :
    y.val ^ n = x.val ∧ y.val = nthRoot n x.val :=
  ⟨(rootExact_check_sound n x y h).2.2, rootExact_is_root n hn x y h⟩

/-- exact values of `sin(π·k/2)` and `cos(π·k/2)` -/
theorem C13_sinpi_cospi_half_int (k : ℤ) :
    (k % 4 = 0 → Real.sin (Real.pi * ((k : ℝ) / 2)) = 0 ∧ Real.cos (Real.pi * ((k : ℝ) / 2)) = 1) ∧
    (k % 4 = 1 → Real.sin (Real.pi * ((k : ℝ) / 2)) = 1 ∧ Real.cos (Real.pi * ((k : ℝ) / 2)) = 0) ∧
    (k % 4 = 2 → Real.sin (Real.pi * ((k : ℝ) / 2)) = 0 ∧ Real.cos (Real.pi * ((k : ℝ) / 2)) = -1) ∧
    (k % 4 = 3 → Real.sin (Real.pi * ((k : ℝ) / 2)) = -1 ∧ Real.cos (Real.pi * ((k : ℝ) / 2)) = 0) := by
  have e : Real.pi * ((k : ℝ) / 2) = 0 + (k : ℝ) * (Real.pi / 2) := by ring
  rw [e]
  obtain ⟨q0, q1, q2, q3⟩ := cos_sin_quadrant 0 k
  refine ⟨fun h => ?_, fun h => ?_, fun h => ?_, fun h => ?_⟩
  · obtain ⟨a, b⟩ := q0 h; rw [a, b]; simp
  · obtain ⟨a, b⟩ := q1 h; rw [a, b]; simp
  · obtain ⟨a, b⟩ := q2 h; rw [a, b]; simp
  · obtain ⟨a, b⟩ := q3 h; rw [a, b]; simp

/-- if the verified evaluator returns a point enclosure `[v, v]`, then `f(x) = v` exactly -/
theorem C13_exact_of_point_enclosure (f : FunId) (wp : ℕ) (x : Dy) (F : DI) (h : evalPoint f wp x = some F)
    (hp : F.lo.val = F.hi.val) : f.sem x.val = F.lo.val :=
  exact_of_point_enclosure f wp x F h hp

/-- at a zero of the function a verdict `ok` forces the implementation's value to be exactly 0 -/
theorem C13_ok_at_zero (f : FunId) (x y : Dy) (p k : ℕ) (h : accCheck f x y p k = .ok)
    (h0 : f.sem x.val = 0) : y.val = 0 :=
  accCheck_ok_zero f x y p k h h0

/-- whenever an enclosure is returned (for tan, cot, sec, csc: only if the denominator enclosure excludes 0),
the function value is the finite real number `f.sem x` inside it, and `x` is in the real domain -/
theorem C13_finite_value_enclosed (f : FunId) (wp : ℕ) (x : Dy) (F : DI) (h : evalPoint f wp x = some F) :
    F.lo.val ≤ f.sem x.val ∧ f.sem x.val ≤ F.hi.val :=
  evalPoint_sound f wp x F h

-- non-vacuity
example : rootExact 3 ⟨27, 3⟩ ⟨3, 1⟩ = true := by decide +kernel
example : rootExact 3 ⟨28, 3⟩ ⟨3, 1⟩ = false := by decide +kernel
example : evalPoint .exp 30 ⟨0, 0⟩ = some ⟨⟨536870912, -29⟩, ⟨536870912, -29⟩⟩ := by decide +kernel   -- the point [1, 1]

end Mp
