/-
  Props/C05hashPrime.lean — C05 (hash half), the part that needs the primality of P = 2^61 - 1:
  `mpq.__hash__` is the documented `hash_fraction` for EVERY denominator.
  Separate file: importing Mathlib's Lucas–Lehmer development costs ~50 s of load time.
  (`mpq` is not in the property's list of types; `Props/C05hash.lean: mpq_hash_dyadic` already covers
  every mpq that can be equal to an mpf, int or float.)
-/
import MpProofs.HashPrime

namespace Mp

/-- `mpq.__hash__` (raw return value) is the documented hash of the fraction `a / b`, for all `a`
and all `b` (the code tests `pow(b, P-2, P) == 0` where the documentation tests `b % P == 0`;
these agree because P is prime). -/
theorem mpq_hash_spec (a : Int) (b : Nat) : mpq_hash a b = pyHashFraction a b := by
  unfold mpq_hash pyHashFraction fixM1
  have hP : HASH_MODULUS = pyP := by decide
  have hI : HASH_INF = pyHashInf := by decide
  simp only [hP, hI]
  by_cases hb : b % pyP = 0
  · have : powMod b (pyP - 2) pyP = 0 := (powMod_inv_eq_zero_iff b).mpr hb
    simp only [hb, this, if_true]
  · have hne : powMod b (pyP - 2) pyP ≠ 0 := fun h => hb ((powMod_inv_eq_zero_iff b).mp h)
    simp only [hb, hne, if_false]
    have : a.natAbs * powMod b (pyP - 2) pyP % pyP = a.natAbs % pyP * powMod b (pyP - 2) pyP % pyP :=
      ((Nat.mod_modEq _ _).mul_right _).symm
    rw [this]

/-- hence `hash(mpq(a, b)) = hash(Fraction(a, b))` through the builtin `hash()` as well. -/
theorem mpq_hash_final (a : Int) (b : Nat) : finalHash (mpq_hash a b) = finalHash (pyHashFraction a b) := by
  rw [mpq_hash_spec]

end Mp
