/-
  Props/C33.lean — "Cached state never leaks stale or wrong results into later calls".

  For each cache C of MpModel/Cache.lean memoising a pure function F:
    C_invariant   the state invariant holds after EVERY history of requests (any arguments, any
                  precisions, in any order, any of them aborted at any crash point);
    C_refines     after every history, the answer to every probe is `F probe` (exact-key caches) or
                  `F` at a precision `≥` the requested one, shifted / rounded down exactly as the code
                  does it (precision-monotone caches);
    C_abort_safe  a request aborted at a crash point leaves a state satisfying the invariant.
  Where the code does NOT have the property the negation is proved on a witness
  (`…_counterexample`) and the statement that does hold is named `…_partial`.
-/
import MpProofs.Cache
import MpProofs.CacheOld

namespace Mp
open Mp.Cache

/-! ### constant_memo -/

/-- In every reachable state of a `constant_memo` cache (any history, with aborted calls) the cached
value is `F memo_prec`, or the cache is empty. -/
theorem constantMemo_invariant (F : Nat → Int) (np : Nat → Nat) (h : List (Nat × Bool)) :
    MemoInv F (memoAfter F np memoInit h) :=
  (memoAfter_invH F np h).toInv

/-- After every history `h`, a probe at `prec` returns `F P >> (P - prec)` for a `P ≥ prec` that is
`newprec prec` or `newprec q` of a completed earlier request `q` — exactly the value the code computes
from a value of `F` that is at least as precise as requested.
Hypothesis `hnp` is `prec ≤ int(prec*1.05+10)` (`newprec_ge_small` below decides it for the precisions
in use; the harness validates `newprec` against CPython for every `prec ≤ 10^6`). -/
theorem constantMemo_refines (F : Nat → Int) (np : Nat → Nat) (hnp : ∀ p, p ≤ np p)
    (h : List (Nat × Bool)) (prec : Nat) :
    ∃ P : Nat, prec ≤ P ∧ (P = np prec ∨ ∃ q, (q, false) ∈ h ∧ P = np q) ∧
      (memoReq F np (memoAfter F np memoInit h) prec false).2 = .ok (shr (F P) (P - prec)) :=
  memoReq_answer F np hnp h _ prec (memoAfter_invH F np h)

/-- `prec ≤ int(prec*1.05+10)` for every precision up to 4200, by evaluation of the binary64 model. -/
theorem newprec_ge_small : ∀ p < 4200, p ≤ newprec p := by
  have h : allRange (fun p => decide (p ≤ newprec p)) 13 0 4200 = true := by decide +kernel
  intro p hp
  simpa using allRange_sound _ 13 0 4200 h p (Nat.zero_le p) (by omega)

example : newprec 53 = 65 ∧ newprec 1000 = 1060 ∧ newprec 0 = 10 := by decide +kernel

/-- A call whose computation `f(newprec)` raises leaves `memo_prec` / `memo_val` untouched. -/
theorem constantMemo_abort_safe (F : Nat → Int) (np : Nat → Nat) (h : List (Nat × Bool)) (prec : Nat) :
    (memoReq F np (memoAfter F np memoInit h) prec true).1 = memoAfter F np memoInit h ∧
    MemoInv F (memoReq F np (memoAfter F np memoInit h) prec true).1 := by
  rw [memoReq_fault_state]
  exact ⟨rfl, constantMemo_invariant F np h⟩

/-- Read / compute / write one by one: abandoning a request after ANY number `k` of micro-steps
leaves the invariant intact, except in the gap between the assignments `f.memo_val = …` and
`f.memo_prec = …` (program point `wroteVal`), where no call — hence no exception — can occur. -/
theorem constantMemo_abort_safe_micro (F : Nat → Int) (np : Nat → Nat) (h : List (Nat × Bool))
    (prec k : Nat) :
    (memoMicroN F np k (memoAfter F np memoInit h, .start prec)).2.safe →
    MemoInv F (memoMicroN F np k (memoAfter F np memoInit h, .start prec)).1 :=
  fun hs => (memoMicroN_ok F np k (memoAfter F np memoInit h, .start prec)
    (show MemoCfgOK F (memoAfter F np memoInit h, .start prec) from constantMemo_invariant F np h)).inv_of_safe hs

/-- the micro-step machine is the big-step request -/
theorem constantMemo_micro_eq_big (F : Nat → Int) (np : Nat → Nat) (s : MemoState) (prec : Nat) :
    memoMicroN F np 5 (s, .start prec) =
      ((memoReq F np s prec false).1, .done (memoReq F np s prec false).2) :=
  memoMicroN_eq_req F np s prec

/-- An asynchronous interruption in the gap between the two assignments (outside the property's
crash-point quantifier) does break the invariant: new value, old precision. -/
theorem constantMemo_async_counterexample :
    ∃ (F : Nat → Int) (np : Nat → Nat) (prec k : Nat),
      ¬ MemoInv F (memoMicroN F np k (memoInit, .start prec)).1 := by
  refine ⟨fun P => P, fun p => p + 10, 5, 4, ?_⟩
  intro h
  rcases h with ⟨_, h2⟩ | ⟨P, h1, _⟩
  · simp [memoMicroN, memoMicro, memoInit] at h2
  · simp [memoMicroN, memoMicro, memoInit] at h1

/-! ### log_int_cache -/

/-- Every entry of `log_int_cache` after every history is `(F n vprec, vprec)` with `n < 2000`. -/
theorem logInt_invariant (F : Nat → Nat → Int) (h : List (Nat × Nat × Bool)) :
    ∀ n v vp, logIntAfter F FMap.empty h n = some (v, vp) → v = F n vp ∧ n < MAX_LOG_INT_CACHE :=
  fun n v vp e => let ⟨a, b, _⟩ := logIntAfter_inv F h n v vp e; ⟨a, b⟩

/-- After every history, `log_int_fixed(n, prec)` returns `F n wp >> (wp - prec)` where the working
precision `wp ≥ prec` is `prec + 10` or `q + 10` for a completed earlier request `(n, q)`. -/
theorem logInt_refines (F : Nat → Nat → Int) (h : List (Nat × Nat × Bool)) (n prec : Nat) :
    ∃ (w : Served) (wp : Nat), prec ≤ wp ∧ (wp = prec + 10 ∨ ∃ q, (n, q, false) ∈ h ∧ wp = q + 10) ∧
      (logIntReq F (logIntAfter F FMap.empty h) n prec false).2 = .ok (w, shr (F n wp) (wp - prec)) :=
  logIntReq_answer F h _ n prec (logIntAfter_inv F h)

theorem logInt_abort_safe (F : Nat → Nat → Int) (s : LogIntState) (n prec : Nat) :
    (logIntReq F s n prec true).1 = s :=
  logIntReq_fault_state F s n prec

/-- If `F n ·` is shift-stable (e.g. a true floor) the answer does not depend on the history. -/
theorem logInt_history_independent (F : Nat → Nat → Int) (hF : ∀ n, ShiftStable (F n))
    (h : List (Nat × Nat × Bool)) (n prec : Nat) :
    ∃ w, (logIntReq F (logIntAfter F FMap.empty h) n prec false).2 = .ok (w, F n prec) := by
  obtain ⟨w, wp, hle, _, e⟩ := logInt_refines F h n prec
  exact ⟨w, by rw [e, hF n wp prec hle]⟩

/-! ### bernoulli_cache -/

/-- After every history — including requests aborted inside the recurrence at any iteration —
every entry `(numbers, [m, bin, bin1])` of `bernoulli_cache` is the result of a whole number of
completed iterations from the initial entry: `numbers` and `state` never get out of step. -/
theorem bernoulli_invariant (env : BernEnv) (h : List (Nat × Nat × Option Rnd × Option Nat)) :
    BernInv env (bernAfter env FMap.empty h) :=
  bernAfter_inv env _ h (bernInv_empty env)

/-- abort safety is the same statement for a single request with an arbitrary fault position -/
theorem bernoulli_abort_safe (env : BernEnv) (s : BernState) (n prec : Nat) (rnd : Option Rnd)
    (fault : Option Nat) (hi : BernInv env s) : BernInv env (bernReq env s n prec rnd fault).1 :=
  bernReq_inv env s n prec rnd fault hi

/-- After every history (any arguments, precisions, rounding modes, requests aborted at any iteration)
the answer of `mpf_bernoulli(n, prec, rnd)` for even `n` in the cached range is
`mpf_bernoulli_huge(n, prec, rnd)`, or an exception of the recurrence itself, or
`bernRound v prec rnd` — `mpf_pos(v, prec, rnd)`, resp. `v` itself for `rnd = None` — of the
history-independent table value `v = bernVal env wp n` (`wp = bernWp prec`), the SAME on the path that
computes the entry and on the path that finds it cached.  A `KeyError` on `numbers[n]` cannot happen.
(Before commit 8bbd625 the computing path returned `v` unrounded: defect D14,
`Mp.Cache.bernoulli_first_call_old_counterexample` in MpProofs/CacheOld.lean.) -/
theorem bernoulli_refines (env : BernEnv) (h : List (Nat × Nat × Option Rnd × Option Nat))
    (n prec : Nat) (rnd : Option Rnd) (h2 : n % 2 = 0) (hlo : 2 ≤ n) (hhi : n ≤ MAX_BERNOULLI_CACHE)
    (hfrac : env.useFrac n prec = false) :
    BernOutcome env n prec rnd (bernReq env (bernAfter env FMap.empty h) n prec rnd none).2 := by
  have hi := bernoulli_invariant env h
  unfold bernReq
  have h0 : n ≠ 0 := by omega
  have h1 : n ≠ 1 := by omega
  have h3 : ¬ n % 2 = 1 := by omega
  have h4 : ¬ n > MAX_BERNOULLI_CACHE := by omega
  simp only [h0, h1, h3, h4, hfrac, if_false, Bool.false_eq_true]
  exact bernCached_outcome env _ n prec rnd hi h2 hlo

/-- non-vacuity and regression for D14: `bernoulli(8)` at 60 bits, rounding to nearest, twice from
an empty cache — the computing call and the cached call now return the same 60-bit value. -/
theorem bernoulli_first_call_rounded :
    (bernReq bernEnvSmall FMap.empty 8 60 (some .n) none).2
      = .ok (.computed, ⟨1, 0x888888888888889, -64, 60⟩) ∧
    (bernReq bernEnvSmall (bernReq bernEnvSmall FMap.empty 8 60 (some .n) none).1 8 60 (some .n) none).2
      = .ok (.cachedPos, ⟨1, 0x888888888888889, -64, 60⟩) := by
  decide +kernel

/-! ### exact-key caches: log_taylor_cache, atan_taylor_cache, cos_sin_cache, hyp_summators,
standard_cache -/

/-- After every history (with aborted computations) a lookup of key `k` answers `F k`. -/
theorem exactCache_refines {K V : Type} [DecidableEq K] (F : K → V) (h : List (K × Bool)) (k : K) :
    ∃ w, (exactReq F (exactAfter F FMap.empty h) k false).2 = .ok (w, F k) :=
  exactReq_answer F _ k (exactAfter_inv F _ h (by intro k v e; simp at e))

theorem exactCache_invariant {K V : Type} [DecidableEq K] (F : K → V) (h : List (K × Bool)) :
    ∀ k v, exactAfter F FMap.empty h k = some v → v = F k :=
  exactAfter_inv F _ h (by intro k v e; simp at e)

theorem exactCache_abort_safe {K V : Type} [DecidableEq K] (F : K → V) (s : FMap K V) (k : K) :
    (exactReq F s k true).1 = s :=
  exactReq_fault_state F s k

/-- `log_taylor_cached`: the table entry used for `(x, prec)` after any history of table accesses is
`F (x >> (prec-9), cache_prec_steps[prec])`, shifted down by `cached_prec - prec`. -/
theorem logTaylor_refines (F : Nat × Nat → Int × Int) (h : List ((Nat × Nat) × Bool)) (x prec : Nat) :
    ∃ w, (logTaylorLookup F (exactAfter F FMap.empty h) x prec false).2 =
      .ok (w, (shr (F (logTaylorKey x prec)).1 ((logTaylorKey x prec).2 - prec),
               shr (F (logTaylorKey x prec)).2 ((logTaylorKey x prec).2 - prec))) := by
  obtain ⟨w, e⟩ := exactCache_refines F h (logTaylorKey x prec)
  refine ⟨w, ?_⟩
  unfold logTaylorLookup
  simp only
  split
  · next s' w' a la heq =>
    have h2 : (exactReq F (exactAfter F FMap.empty h) (logTaylorKey x prec) false).2 = .ok (w', a, la) := by
      rw [heq]
    rw [e] at h2
    simp only [Res.ok.injEq, Prod.mk.injEq] at h2
    obtain ⟨hw, hF⟩ := h2
    subst hw
    rw [hF]
  · next s' heq =>
    have h2 : (exactReq F (exactAfter F FMap.empty h) (logTaylorKey x prec) false).2 = .raised := by
      rw [heq]
    rw [e] at h2; simp at h2
  · next s' er heq =>
    have h2 : (exactReq F (exactAfter F FMap.empty h) (logTaylorKey x prec) false).2 = .pyError er := by
      rw [heq]
    rw [e] at h2; simp at h2

/-! ### quadrature nodes -/

/-- After every history of `get_nodes` calls — some aborted inside `calc_nodes` or inside
`transform_nodes` — `get_nodes(a, b, degree, prec)` returns
`transform_nodes(calc_nodes(degree, prec), a, b)` computed at `ctx.prec = prec + 20`,
whichever of the two caches serves it. -/
theorem quadNodes_refines {I N : Type} [DecidableEq I] (calcN : Nat → Nat → N) (tr : N → I → I → Nat → N)
    (p0 : Nat) (h : List (I × I × Nat × Nat × Option Nat)) (a b : I) (d p : Nat) :
    ∃ w, (quadReq calcN tr
      (h.foldl (fun s r => (quadReq calcN tr s r.1 r.2.1 r.2.2.1 r.2.2.2.1 r.2.2.2.2).1) (quadInit p0))
      a b d p none).2 = .ok (w, tr (calcN d p) a b (p + 20)) := by
  apply quadReq_answer calcN tr p0
  generalize hs : (quadInit p0 : QuadState I N) = s0
  have h0 : QuadInv calcN tr p0 s0 := by
    subst hs
    exact ⟨by intro d p n e; simp [quadInit] at e, by intro a b d p n e; simp [quadInit] at e, rfl⟩
  clear hs
  induction h generalizing s0 with
  | nil => exact h0
  | cons r h ih => exact ih _ (quadReq_inv calcN tr p0 s0 _ _ _ _ _ h0)

/-- every request, completed or aborted at either crash point, preserves the invariant; in
particular `ctx.prec` is restored (`finally`). -/
theorem quadNodes_abort_safe {I N : Type} [DecidableEq I] (calcN : Nat → Nat → N)
    (tr : N → I → I → Nat → N) (p0 : Nat) (s : QuadState I N) (a b : I) (d p : Nat)
    (fault : Option Nat) (hi : QuadInv calcN tr p0 s) :
    QuadInv calcN tr p0 (quadReq calcN tr s a b d p fault).1 ∧
    (quadReq calcN tr s a b d p fault).1.ctxPrec = p0 :=
  ⟨quadReq_inv calcN tr p0 s a b d p fault hi, (quadReq_inv calcN tr p0 s a b d p fault hi).2.2⟩

/-! ### matrix `_LU` -/

/-- FULL statement (false): after every history of `LU_decomp` calls, element assignments, resizes and
precision changes, `LU_decomp(A)` returns the decomposition of the current contents at the current
precision.

PROVED (1): for histories WITHOUT resizing (`A.rows = k`, `A.cols = k`) and WITHOUT precision changes,
the cached decomposition is the decomposition of the current contents at the current precision. -/
theorem matrixLU_refines_partial {D R : Type} (LU : D → Nat → Option R) (d0 : D) (p0 : Nat)
    (h : List (LUOp D)) (ho : ∀ o ∈ h, o.isResize = false ∧ o.isSetPrec = false) :
    ∀ r, (luAfter LU ⟨d0, none, p0⟩ h).lu = some r →
      LU (luAfter LU ⟨d0, none, p0⟩ h).data (luAfter LU ⟨d0, none, p0⟩ h).prec = some r :=
  luAfter_invStrong LU _ h ho (by intro r hr; simp at hr)

/-- PROVED (2): without resizing but WITH precision changes the cached decomposition is still a
decomposition of the current contents — at SOME precision, not necessarily the current one. -/
theorem matrixLU_refines_upto_prec_partial {D R : Type} (LU : D → Nat → Option R) (d0 : D) (p0 : Nat)
    (h : List (LUOp D)) (ho : ∀ o ∈ h, o.isResize = false) :
    ∀ r, (luAfter LU ⟨d0, none, p0⟩ h).lu = some r →
      ∃ p, LU (luAfter LU ⟨d0, none, p0⟩ h).data p = some r :=
  luAfter_inv LU _ h ho (by intro r hr; simp at hr)

/-- the free instance: a decomposition is tagged with the contents and the precision it came from -/
def luTag : Nat → Nat → Option (Nat × Nat) := fun d p => some (d, p)

/-- `_LU` computed at 20 bits is served at 200 bits (replayed on the real code: `LU_decomp(A)`,
`lu(A)` return 20-bit factors at `mp.prec = 200`). -/
theorem matrixLU_stale_precision_counterexample :
    (luStep luTag (luAfter luTag ⟨0, none, 20⟩ [.decomp true false, .setPrec 200]) (.decomp true false)).2
      = some (.ok (.cache, (0, 20))) := by
  decide

/-- `_LU` survives `A.rows = k; A.cols = k` (contents 0 → contents 1): the decomposition of the OLD
contents is served (replayed: a 3×3 LU for a matrix that is now 2×2). -/
theorem matrixLU_stale_resize_counterexample :
    (luStep luTag (luAfter luTag ⟨0, none, 53⟩ [.decomp true false, .resize 1]) (.decomp true false)).2
      = some (.ok (.cache, (0, 53))) := by
  decide

/-- element assignment does invalidate -/
example : (luStep luTag (luAfter luTag ⟨0, none, 53⟩ [.decomp true false, .setItem 1]) (.decomp true false)).2
      = some (.ok (.computed, (1, 53))) := by decide

/-- slice assignment (`A[i,:] = M`, `A[:,j] = x`, `A[a:b,c:d] = M`) does invalidate as well -/
example : (luStep luTag (luAfter luTag ⟨0, none, 53⟩ [.decomp true false, .setSlice 1]) (.decomp true false)).2
      = some (.ok (.computed, (1, 53))) := by decide

/-- every assignment through `__setitem__` — element or slice — leaves `_LU` empty, whatever was cached before -/
theorem matrixLU_assignment_clears {D R : Type} (LU : D → Nat → Option R) (s : LUState D R) (d : D) :
    (luStep LU s (.setItem d)).1.lu = none ∧ (luStep LU s (.setSlice d)).1.lu = none ∧
    (luStep LU s (.setItem d)).1.data = d ∧ (luStep LU s (.setSlice d)).1.data = d := by
  simp [luStep]

/-- an aborted `LU_decomp` (injected, or ZeroDivisionError of the algorithm) leaves `_LU` as it was -/
theorem matrixLU_abort_safe {D R : Type} (LU : D → Nat → Option R) (s : LUState D R) (uc : Bool) :
    (luStep LU s (.decomp uc true)).2 = some .raised → (luStep LU s (.decomp uc true)).1 = s := by
  intro h
  simp only [luStep] at h ⊢
  split <;> simp_all

/-! ### memoize -/

/-- After every history, `f_cached(key)` at precision `prec` returns `F key prec`, or `+v` (rounding to
`prec`) of `v = F key cprec` computed by a completed earlier call at a precision `cprec ≥ prec`. -/
theorem memoize_refines {K V : Type} [DecidableEq K] (F : K → Nat → V) (pos : V → Nat → V)
    (h : List (K × Nat × Bool)) (k : K) (prec : Nat) :
    (memoizeReq F pos (memoizeAfter F pos FMap.empty h) k prec false).2 = .ok (.computed, F k prec) ∨
    ∃ cp, prec ≤ cp ∧ (k, cp, false) ∈ h ∧
      (memoizeReq F pos (memoizeAfter F pos FMap.empty h) k prec false).2 = .ok (.cache, pos (F k cp) prec) :=
  memoizeReq_answer F pos h _ k prec (memoizeAfter_inv F pos h)

theorem memoize_invariant {K V : Type} [DecidableEq K] (F : K → Nat → V) (pos : V → Nat → V)
    (h : List (K × Nat × Bool)) :
    ∀ k cp v, memoizeAfter F pos FMap.empty h k = some (cp, v) → v = F k cp :=
  fun k cp v e => (memoizeAfter_inv F pos h k cp v e).1

theorem memoize_abort_safe {K V : Type} [DecidableEq K] (F : K → Nat → V) (pos : V → Nat → V)
    (s : MemoizeState K V) (k : K) (prec : Nat) : (memoizeReq F pos s k prec true).1 = s :=
  memoizeReq_fault_state F pos s k prec

end Mp
