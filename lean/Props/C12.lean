/-
  Props/C12.lean — C12 (elementary function accuracy), level: translation validation with a PROVED validator.

  The statement "for all arguments and precisions" is sampled (tie T2: sample (x, p) → implementation value
  y → `accCheck`); what is proved here is that the oracle is rigorous: a verdict `ok` / `violates` of the
  executable checker `Mp.Encl.accCheck` (run by the compiled driver, op `acc`) is a theorem about the exact
  real value `f(x)` = `FunId.sem f x` (Mathlib's `Real.exp`, `log`, `sqrt`, `arctan`, `sin`, `cos`, `tan`, `cot`,
  `1/cos`, `1/sin`, `sinh`, `cosh`, `tanh`, `exp x - 1`, `log (1+x)`, `arcsin`, `arccos`, `arsinh`, `arcosh`,
  `artanh`, `sin (π x)`, `cos (π x)`, `π`), and a verdict is only produced for `x` inside the real domain of `f`.
  Not claimed: a theorem about mpmath's series code; complex arguments; atan2, arg, the reciprocal inverse functions (acot, asec, …).
-/
import MpProofs.Encl2Sound

namespace Mp
open Mp.Encl

/-- verdict `ok` ⇒ the dyadic `y` satisfies `|y − f(x)| ≤ 2^(k−p)·|f(x)|` for the exact real `f(x)` -/
theorem C12_validator_ok (f : FunId) (x y : Dy) (p k : ℕ) (h : accCheck f x y p k = .ok) :
    |y.val - f.sem x.val| ≤ (2 : ℝ) ^ ((k : ℤ) - (p : ℤ)) * |f.sem x.val| :=
  accCheck_sound_ok f x y p k h

/-- verdict `violates` ⇒ the inequality fails for the exact real `f(x)` -/
theorem C12_validator_violates (f : FunId) (x y : Dy) (p k : ℕ) (h : accCheck f x y p k = .violates) :
    (2 : ℝ) ^ ((k : ℤ) - (p : ℤ)) * |f.sem x.val| < |y.val - f.sem x.val| :=
  accCheck_sound_violates f x y p k h

/-- the strict form used by the property text ("relative error below 2^(4−p)"): run the checker with `k = 3` -/
theorem C12_validator_strict (f : FunId) (x y : Dy) (p : ℕ) (h : accCheck f x y p 3 = .ok) :
    (f.sem x.val ≠ 0 → |y.val - f.sem x.val| < (2 : ℝ) ^ ((4 : ℤ) - (p : ℤ)) * |f.sem x.val|) ∧
    (f.sem x.val = 0 → y.val = 0) :=
  ⟨fun h0 => by simpa using accCheck_ok_strict f x y p 3 h h0, accCheck_ok_zero f x y p 3 h⟩

/-- every enclosure printed by the driver op `encl` contains the exact value, and `x` is in the real
domain of `f` (e.g. `0 < x` for `log`, `1 ≤ x` for `acosh`) -/
theorem C12_enclosure (f : FunId) (wp : ℕ) (x : Dy) (F : DI) (h : evalPoint f wp x = some F) :
    (F.lo.val ≤ f.sem x.val ∧ f.sem x.val ≤ F.hi.val) ∧ f.dom x.val :=
  evalPoint_sound' f wp x F h

/-- a verdict other than `undecided` is only produced inside the real domain of `f` -/
theorem C12_validator_dom (f : FunId) (x y : Dy) (p k : ℕ) (h : accCheck f x y p k ≠ .undecided) :
    f.dom x.val :=
  accCheck_dom f x y p k h

/-- cbrt / root: the integer checker `rootCheck` (driver op `accroot`) decides the accuracy inequality for the
real `n`-th root `x^(1/n)` of `x ≥ 0` -/
theorem C12_root_validator (n : ℕ) (x y : Dy) (p k : ℕ) :
    (rootCheck n x y p k = .ok →
      |y.val - nthRoot n x.val| ≤ (2 : ℝ) ^ ((k : ℤ) - (p : ℤ)) * nthRoot n x.val) ∧
    (rootCheck n x y p k = .violates →
      (2 : ℝ) ^ ((k : ℤ) - (p : ℤ)) * nthRoot n x.val < |y.val - nthRoot n x.val|) :=
  rootCheck_sound n x y p k

/-- two-argument functions (driver op `acc2`): real power `x^y` and `x^y − 1` for `x > 0`, `hypot`, `log_b x` -/
theorem C12_validator2 (f : Fun2) (x y z : Dy) (p k : ℕ) :
    (accCheck2 f x y z p k = .ok →
      |z.val - f.sem x.val y.val| ≤ (2 : ℝ) ^ ((k : ℤ) - (p : ℤ)) * |f.sem x.val y.val|) ∧
    (accCheck2 f x y z p k = .violates →
      (2 : ℝ) ^ ((k : ℤ) - (p : ℤ)) * |f.sem x.val y.val| < |z.val - f.sem x.val y.val|) ∧
    (accCheck2 f x y z p k ≠ .undecided → f.dom x.val y.val) :=
  accCheck2_sound f x y z p k

/-- sinc (driver op `accsinc`) -/
theorem C12_validator_sinc (x y : Dy) (p k : ℕ) :
    (accCheckSinc x y p k = .ok →
      |y.val - Real.sinc x.val| ≤ (2 : ℝ) ^ ((k : ℤ) - (p : ℤ)) * |Real.sinc x.val|) ∧
    (accCheckSinc x y p k = .violates →
      (2 : ℝ) ^ ((k : ℤ) - (p : ℤ)) * |Real.sinc x.val| < |y.val - Real.sinc x.val|) :=
  accCheckSinc_sound x y p k

-- non-vacuity: see `MpProofs/EnclExamples.lean` (`accCheck … = .ok` and `= .violates` by kernel evaluation)
example : accCheck .exp ⟨1, 0⟩ ⟨2850325, -20⟩ 24 3 = .ok := by decide +kernel

end Mp
