/-
  Props/C30.lean — C30: linear algebra results are accurate and factorizations are consistent.

  Technique: VERIFIED CERTIFICATE CHECKING.  The harness runs the real mpmath routine (`lu_solve`,
  `qr_solve`, `cholesky_solve`, `inverse`, `det`, `lu`, `qr`, `cholesky`), reads input and output
  exactly, and the compiled checker of `MpModel/Cert.lean` decides the property instance in exact
  dyadic arithmetic.  The theorems say what an answer of the checker means for the complex matrices
  denoted by the data (`toMat r c M : Matrix (Fin r) (Fin c) ℂ`); `‖·‖` is the ∞-operator norm
  (maximal absolute row sum; for a column vector the max-norm), `frob` the Frobenius norm, `p` the
  working precision.

  * accuracy ("agree with the exact results to within cond(A)·2^(10−p) relative error"):
      SolveAccurate p A B X  :=  ‖A⁻¹·B − X‖ ≤ ‖A‖·‖A⁻¹‖·2^(10−p)·‖A⁻¹·B‖
      DetAccurate  p A d     :=  ‖d − det A‖ ≤ ‖A‖·‖A⁻¹‖·2^(10−p)·‖det A‖
    The certificate is an arbitrary matrix R (the harness passes mpmath's own inverse at higher
    precision): if the exactly computed α ≥ ‖I − R·A‖ is < 1 then A is nonsingular (elementary
    Neumann argument) and ‖R(B − AX)‖/(1+α) ≤ ‖A⁻¹B − X‖ ≤ ‖R(B − AX)‖/(1−α),
    ‖R‖/(1+α) ≤ ‖A⁻¹‖ ≤ ‖R‖/(1−α)  (`cert_core`).  Hence
      solveCert = ok        → A nonsingular ∧ SolveAccurate          (`solveCert_ok`)
      solveCert = violates  → A nonsingular ∧ ¬ SolveAccurate        (`solveCert_violates`)
    and likewise for `inverse` (B = I), least squares (normal equations), `det`.
    `detCert = singular ↔ det A = 0` decides exact singularity (Laplace expansion, `toC_detN`).
  * factorizations: structure is checked exactly, the identity up to a Frobenius residual:
      luCheck = true       → P permutation, L unit lower, U upper, ‖P·A − L·U‖_F ≤ 2^(10−p)·‖L‖_F·‖U‖_F
      qrCheck = true       → ‖QᴴQ − I‖_F ≤ 2^(10−p)·√q, R upper, ‖Q·R − A‖_F ≤ 2^(10−p)·‖A‖_F
      choleskyCheck = true → L lower, diagonal real and > 0, ‖L·Lᴴ − A‖_F ≤ 2^(10−p)·‖A‖_F
  Matrix + − * transpose/conjugate-transpose/norms are checked in the harness against exact
  arithmetic rounded once (no theorem here).  The exact-arithmetic model of LU_decomp's pivoting
  (DESIGN.md `lu_spec`) is NOT part of this file.
-/
import MpProofs.CertResid
import MpProofs.CertSolve

namespace Mp

open Mp.Cert Matrix

/-! ## factorizations -/

/-- `lu`: the returned factors have the required structure exactly and reproduce P·A up to the residual. -/
theorem luCheck_sound (n : ℕ) (p : ℤ) (P A L U : Mat) (h : luCheck n p P A L U = true) :
    IsPermMatrix (toMat n n P) ∧ IsLowerTri (toMat n n L) ∧ (∀ i, toMat n n L i i = 1) ∧
    IsUpperBand 0 (toMat n n U) ∧
    frob (toMat n n P * toMat n n A - toMat n n L * toMat n n U)
      ≤ (2:ℝ) ^ (10 - p) * (frob (toMat n n L) * frob (toMat n n U)) := by
  rw [luCheck, Bool.and_eq_true, Bool.and_eq_true, Bool.and_eq_true, Bool.and_eq_true] at h
  obtain ⟨⟨⟨⟨h1, h2⟩, h3⟩, h4⟩, h5⟩ := h
  refine ⟨isPerm_sound h1, isLower_sound h2, unitDiag_sound h3, isUpperBand_sound h4, ?_⟩
  have := frobLe_sound h5
  rwa [luResid, toMat_msub, toMat_mmul, toMat_mmul, sqrt_frob2_mul] at this

/-- `qr` (A m×n, Q m×q, R q×n; q = m for mode 'full', q = n for 'skinny'). -/
theorem qrCheck_sound (m n q : ℕ) (p : ℤ) (A Q R : Mat) (h : qrCheck m n q p A Q R = true) :
    frob ((toMat m q Q)ᴴ * toMat m q Q - 1) ≤ (2:ℝ) ^ (10 - p) * Real.sqrt q ∧
    IsUpperBand 0 (toMat q n R) ∧
    frob (toMat m q Q * toMat q n R - toMat m n A) ≤ (2:ℝ) ^ (10 - p) * frob (toMat m n A) := by
  rw [qrCheck, Bool.and_eq_true, Bool.and_eq_true] at h
  obtain ⟨⟨h1, h2⟩, h3⟩ := h
  refine ⟨orthCheck_sound h1, isUpperBand_sound h2, ?_⟩
  have := frobLe_sound h3
  rwa [qrResid, toMat_msub, toMat_mmul, sqrt_frob2] at this

/-- `cholesky`: L lower triangular with real positive diagonal and L·Lᴴ ≈ A. -/
theorem choleskyCheck_sound (n : ℕ) (p : ℤ) (A L : Mat) (h : choleskyCheck n p A L = true) :
    IsLowerTri (toMat n n L) ∧ (∀ i, (toMat n n L i i).im = 0 ∧ 0 < (toMat n n L i i).re) ∧
    frob (toMat n n L * (toMat n n L)ᴴ - toMat n n A) ≤ (2:ℝ) ^ (10 - p) * frob (toMat n n A) := by
  rw [choleskyCheck, Bool.and_eq_true, Bool.and_eq_true] at h
  obtain ⟨⟨h1, h2⟩, h3⟩ := h
  refine ⟨isLower_sound h1, posRealDiag_sound h2, ?_⟩
  have := frobLe_sound h3
  rwa [cholResid, toMat_msub, toMat_mmul, toMat_conjT, sqrt_frob2] at this

/-! ## accuracy of solve / inverse / det through a certificate -/

section Accuracy

open scoped Matrix.Norms.Operator

/-- The certificate argument itself (∞-operator norm on complex matrices): ANY matrix R with
`‖I − R·A‖ ≤ α < 1` proves that A is nonsingular and turns the residual `R·(B − A·X)` into two-sided
bounds of the forward error of X and of `‖A⁻¹‖`. -/
theorem solve_certificate {n k : ℕ} (A R : Matrix (Fin n) (Fin n) ℂ) (B X : Matrix (Fin n) (Fin k) ℂ)
    (α : ℝ) (hα : ‖1 - R * A‖ ≤ α) (hα1 : α < 1) :
    IsUnit A.det ∧
    ‖A⁻¹ * B - X‖ ≤ ‖R * (B - A * X)‖ / (1 - α) ∧
    ‖R * (B - A * X)‖ / (1 + α) ≤ ‖A⁻¹ * B - X‖ ∧
    ‖A⁻¹‖ ≤ ‖R‖ / (1 - α) ∧ ‖R‖ / (1 + α) ≤ ‖A⁻¹‖ :=
  cert_core A R B X α hα hα1

/-- `lu_solve` / `qr_solve` / `cholesky_solve` (square systems, k right-hand sides): verdict `ok` means that
A is nonsingular and the returned X is within cond(A)·2^(10−p) relative error of the exact solution:
`‖A⁻¹B − X‖ ≤ ‖A‖·‖A⁻¹‖·2^(10−p)·‖A⁻¹B‖`. -/
theorem solveCert_sound {n k : ℕ} {p : ℤ} {A B X R : Mat} (h : solveCert n k p A B X R = .ok) :
    IsUnit (toMat n n A).det ∧
    ‖(toMat n n A)⁻¹ * toMat n k B - toMat n k X‖
      ≤ ‖toMat n n A‖ * ‖(toMat n n A)⁻¹‖ * (2:ℝ) ^ (10 - p) * ‖(toMat n n A)⁻¹ * toMat n k B‖ :=
  solveCert_ok h

/-- verdict `violates` means that A is nonsingular and the accuracy statement is FALSE for the returned X. -/
theorem solveCert_violates_sound {n k : ℕ} {p : ℤ} {A B X R : Mat}
    (h : solveCert n k p A B X R = .violates) :
    IsUnit (toMat n n A).det ∧
    ¬ ‖(toMat n n A)⁻¹ * toMat n k B - toMat n k X‖
      ≤ ‖toMat n n A‖ * ‖(toMat n n A)⁻¹‖ * (2:ℝ) ^ (10 - p) * ‖(toMat n n A)⁻¹ * toMat n k B‖ :=
  solveCert_violates h

/-- `inverse`: verdict `ok` means `‖A⁻¹ − X‖ ≤ ‖A‖·‖A⁻¹‖·2^(10−p)·‖A⁻¹‖`. -/
theorem invCert_sound {n : ℕ} {p : ℤ} {A X R : Mat} (h : invCert n p A X R = .ok) :
    IsUnit (toMat n n A).det ∧
    ‖(toMat n n A)⁻¹ - toMat n n X‖
      ≤ ‖toMat n n A‖ * ‖(toMat n n A)⁻¹‖ * (2:ℝ) ^ (10 - p) * ‖(toMat n n A)⁻¹‖ := by
  obtain ⟨h1, h2⟩ := invCert_ok h
  exact ⟨h1, (solveAccurate_one _ _ _).1 h2⟩

theorem invCert_violates_sound {n : ℕ} {p : ℤ} {A X R : Mat} (h : invCert n p A X R = .violates) :
    IsUnit (toMat n n A).det ∧
    ¬ ‖(toMat n n A)⁻¹ - toMat n n X‖
      ≤ ‖toMat n n A‖ * ‖(toMat n n A)⁻¹‖ * (2:ℝ) ^ (10 - p) * ‖(toMat n n A)⁻¹‖ := by
  obtain ⟨h1, h2⟩ := invCert_violates h
  exact ⟨h1, fun hc => h2 ((solveAccurate_one _ _ _).2 hc)⟩

/-- overdetermined `lu_solve` / `qr_solve` (A m×n): verdict `ok` means that AᴴA is nonsingular (full column
rank) and X is accurate as a solution of the normal equations `AᴴA·x = AᴴB` (formed exactly). -/
theorem lsqCert_sound {m n k : ℕ} {p : ℤ} {A B X R : Mat} (h : lsqCert m n k p A B X R = .ok) :
    IsUnit ((toMat m n A)ᴴ * toMat m n A).det ∧
    SolveAccurate p ((toMat m n A)ᴴ * toMat m n A) ((toMat m n A)ᴴ * toMat m k B) (toMat n k X) :=
  lsqCert_ok h

theorem lsqCert_violates_sound {m n k : ℕ} {p : ℤ} {A B X R : Mat}
    (h : lsqCert m n k p A B X R = .violates) :
    IsUnit ((toMat m n A)ᴴ * toMat m n A).det ∧
    ¬ SolveAccurate p ((toMat m n A)ᴴ * toMat m n A) ((toMat m n A)ᴴ * toMat m k B) (toMat n k X) :=
  lsqCert_violates h

/-- exact singularity is decided by the exact determinant (Laplace expansion in Gaussian dyadics). -/
theorem detCert_singular {n : ℕ} {p : ℤ} {A : Mat} {d : G} {R : Mat} :
    detCert n p A d R = .singular ↔ (toMat n n A).det = 0 :=
  detCert_singular_iff

/-- the driver op `cert_detexact` prints `detN`, which IS the determinant. -/
theorem detexact_correct (n : ℕ) (A : Mat) : (detN n A).toC = (toMat n n A).det := toC_detN n A

/-- `det`: verdict `ok` means det A ≠ 0 and `|d − det A| ≤ ‖A‖·‖A⁻¹‖·2^(10−p)·|det A|`. -/
theorem detCert_sound {n : ℕ} {p : ℤ} {A : Mat} {d : G} {R : Mat} (h : detCert n p A d R = .ok) :
    (toMat n n A).det ≠ 0 ∧
    ‖d.toC - (toMat n n A).det‖
      ≤ ‖toMat n n A‖ * ‖(toMat n n A)⁻¹‖ * (2:ℝ) ^ (10 - p) * ‖(toMat n n A).det‖ :=
  detCert_ok h

theorem detCert_violates_sound {n : ℕ} {p : ℤ} {A : Mat} {d : G} {R : Mat}
    (h : detCert n p A d R = .violates) :
    (toMat n n A).det ≠ 0 ∧
    ¬ ‖d.toC - (toMat n n A).det‖
      ≤ ‖toMat n n A‖ * ‖(toMat n n A)⁻¹‖ * (2:ℝ) ^ (10 - p) * ‖(toMat n n A).det‖ :=
  detCert_violates h

/-- "moderate condition number", as used by the harness to decide whether an exception counts. -/
theorem condModerate_meaning {n : ℕ} {p : ℤ} {A R : Mat} (h : condModerate n p A R = true) :
    IsUnit (toMat n n A).det ∧ ‖toMat n n A‖ * ‖(toMat n n A)⁻¹‖ * (2:ℝ) ^ (10 - p) < 1 :=
  condModerate_sound h

end Accuracy

/-- non-vacuity of the certificate theorems: the doctest system [[1,2],[3,4]]·x = (−10,10) with the exact
solution (30,−20) and R the exact inverse is accepted; the wrong solution (30,−21) is rejected; det −2 is
accepted and det −3 rejected; [[1,2],[2,4]] is singular. -/
example : solveCert 2 1 53
    [[⟨⟨1,0⟩,⟨0,0⟩⟩, ⟨⟨2,0⟩,⟨0,0⟩⟩], [⟨⟨3,0⟩,⟨0,0⟩⟩, ⟨⟨4,0⟩,⟨0,0⟩⟩]]
    [[⟨⟨-10,0⟩,⟨0,0⟩⟩], [⟨⟨10,0⟩,⟨0,0⟩⟩]] [[⟨⟨30,0⟩,⟨0,0⟩⟩], [⟨⟨-20,0⟩,⟨0,0⟩⟩]]
    [[⟨⟨-2,0⟩,⟨0,0⟩⟩, ⟨⟨1,0⟩,⟨0,0⟩⟩], [⟨⟨3,-1⟩,⟨0,0⟩⟩, ⟨⟨-1,-1⟩,⟨0,0⟩⟩]] = .ok := by decide
example : solveCert 2 1 53
    [[⟨⟨1,0⟩,⟨0,0⟩⟩, ⟨⟨2,0⟩,⟨0,0⟩⟩], [⟨⟨3,0⟩,⟨0,0⟩⟩, ⟨⟨4,0⟩,⟨0,0⟩⟩]]
    [[⟨⟨-10,0⟩,⟨0,0⟩⟩], [⟨⟨10,0⟩,⟨0,0⟩⟩]] [[⟨⟨30,0⟩,⟨0,0⟩⟩], [⟨⟨-21,0⟩,⟨0,0⟩⟩]]
    [[⟨⟨-2,0⟩,⟨0,0⟩⟩, ⟨⟨1,0⟩,⟨0,0⟩⟩], [⟨⟨3,-1⟩,⟨0,0⟩⟩, ⟨⟨-1,-1⟩,⟨0,0⟩⟩]] = .violates := by decide
example : detCert 2 53 [[⟨⟨1,0⟩,⟨0,0⟩⟩, ⟨⟨2,0⟩,⟨0,0⟩⟩], [⟨⟨3,0⟩,⟨0,0⟩⟩, ⟨⟨4,0⟩,⟨0,0⟩⟩]] ⟨⟨-3,0⟩,⟨0,0⟩⟩
    [[⟨⟨-2,0⟩,⟨0,0⟩⟩, ⟨⟨1,0⟩,⟨0,0⟩⟩], [⟨⟨3,-1⟩,⟨0,0⟩⟩, ⟨⟨-1,-1⟩,⟨0,0⟩⟩]] = .violates := by decide
example : detCert 2 53 [[⟨⟨1,0⟩,⟨0,0⟩⟩, ⟨⟨2,0⟩,⟨0,0⟩⟩], [⟨⟨2,0⟩,⟨0,0⟩⟩, ⟨⟨4,0⟩,⟨0,0⟩⟩]] ⟨⟨0,0⟩,⟨0,0⟩⟩
    [] = .singular := by decide

/-- non-vacuity: the doctest factorization of [[0,2],[4,5]] (P swaps the rows, L = I, U = [[4,5],[0,2]]) passes -/
example : luCheck 2 53
    [[G.zero, G.one], [G.one, G.zero]]
    [[G.zero, ⟨⟨2,0⟩,⟨0,0⟩⟩], [⟨⟨4,0⟩,⟨0,0⟩⟩, ⟨⟨5,0⟩,⟨0,0⟩⟩]]
    [[G.one, G.zero], [G.zero, G.one]]
    [[⟨⟨4,0⟩,⟨0,0⟩⟩, ⟨⟨5,0⟩,⟨0,0⟩⟩], [G.zero, ⟨⟨2,0⟩,⟨0,0⟩⟩]] = true := by decide

end Mp
