/-
  Props/C24.lean — property C24 "function evaluations terminate" (PARTIAL: loop skeletons).

  What is proved: for every loop CLASS into which `tools/loop_extract.py` abstracts the `while` loops of
  /repo/mpmath, a termination theorem with an explicit iteration bound, quantified over every start state and
  every environment (the values the skeleton does not record are adversarial).  `Gen/LoopSkel.lean`
  (regenerated from the working tree on every run) instantiates `skeleton_terminates` once per extracted loop.

  What is NOT proved: (1) that the translator's classification is right (it is syntactic; the dynamic part of the
  check confirms it), (2) the numeric preconditions of the classes (`v ≥ 0`, `0 ≤ r ≤ 2^b < 2^prec`, `n ≥ 0`) at the
  call sites, (3) anything about loops of class `tol` / `unknown`: `tol_may_diverge` and `tol_class_is_open` show
  that their skeleton alone does not terminate, so they are listed as OPEN obligations and attacked dynamically.

  Full-strength statement (not provable from skeletons; kept for the record):
    ∀ f ∈ elementary ∪ special functions, ∀ finite x with |x| ≤ 10^6, ∀ prec ∈ [10, few thousand],
      eval f x prec returns or raises a documented exception after boundedly many steps.
-/
import MpProofs.LoopSkel

namespace Mp
namespace C24
open LoopSkel

/-- `while i < n: …; i += c` (n not assigned in the body, every increment ≥ step ≥ 1) executes at most
    ⌈(n − i)/step⌉ bodies. -/
theorem counter_terminates (step : Nat) (hstep : 1 ≤ step) (n i : Int) (inc : Nat → Nat)
    (hinc : ∀ k, step ≤ inc k) :
    (counterLoop n inc).ExitsWithin i (((n - i).toNat + step - 1) / step) :=
  LoopSkel.counter_terminates step hstep n i inc hinc

example : ∀ k : Nat, 2 ≤ (fun _ : Nat => 2) k := fun _ => Nat.le_refl _
example : (counterLoop 7 (fun _ => 2)).run 4 0 0 = some (4, 8) := by decide

/-- `while n: …; n -= 1` entered with `n ≥ 0` executes exactly-at-most `n` bodies … -/
theorem countdown_terminates (n : Int) (hn : 0 ≤ n) : countdownLoop.ExitsWithin n n.toNat :=
  LoopSkel.countdown_terminates n hn

/-- … and never exits when entered with `n < 0` (the precondition is necessary). -/
theorem countdown_negative_counterexample (n : Int) (hn : n < 0) : countdownLoop.Diverges n :=
  LoopSkel.countdown_negative_diverges n hn

/-- `while n: …; n //= d` / `n >>= s` (d = 2^s ≥ 2; includes binary powering) entered with `n ≥ 0` reaches 0 within
    `bitcount n` bodies. -/
theorem halving_terminates (d : Nat) (hd : 2 ≤ d) (n : Int) (hn : 0 ≤ n) :
    (divLoop d).ExitsWithin n (bitcount n.toNat) :=
  LoopSkel.halving_terminates d hd n hn

example : (divLoop 2).run 4 0 13 = some (4, 0) := by decide

/-- Python floor semantics: entered with `n < 0` the same loop sticks at −1 and never exits. -/
theorem halving_negative_counterexample (d : Nat) (hd : 1 ≤ d) (n : Int) (hn : n < 0) : (divLoop d).Diverges n :=
  LoopSkel.halving_negative_diverges d hd n hn

example : (divLoop 2).run 50 0 (-13) = none := by decide

/-- `while not n % p: n //= p` (`while not man & 255: man >>= 8` is p = 256) with `n ≠ 0` executes at most
    `bitcount n` bodies; with `n = 0` it never exits. -/
theorem strip_terminates (p : Nat) (hp : 2 ≤ p) (n : Nat) (hn : n ≠ 0) :
    (stripLoop p).ExitsWithin n (bitcount n) :=
  LoopSkel.strip_terminates p hp n hn

theorem strip_zero_counterexample (p : Nat) : (stripLoop p).Diverges 0 := LoopSkel.strip_zero_diverges p

/-- Euclid's loop `while b: a, b = b, a % b` (Python `%`) executes at most `|b|` bodies for all signs. -/
theorem euclid_terminates (a b : Int) : euclidLoop.ExitsWithin (a, b) b.natAbs := LoopSkel.euclid_terminates a b

/-- **fixdecay.** `while abs(v) > m:` whose body updates `v` only by `v = (v*r) >> prec` (at least once) and `v //= d`,
    entered with `v ≥ 0`, multipliers `0 ≤ r ≤ 2^b` with `b < prec` and divisors `d ≥ 1` (all may change from
    iteration to iteration), exits within `K` bodies for every `K` with `bitcount v ≤ (prec − b)·K`. -/
theorem fixdecay_terminates {p b : Nat} (hb : b < p) (ops : List DecayOp) (m : Nat)
    (env : Nat → Nat → Int × Int) (henv : EnvOK p b 1 env)
    (hpure : ops.all DecayOp.isPure = true) (hmul : ops.contains .mulShift = true)
    (v : Int) (hv : 0 ≤ v) (K : Nat) (hK : bitcount v.toNat ≤ (p - b) * K) :
    (decayLoop p ops m env).ExitsWithin v K :=
  LoopSkel.fixdecay_terminates_rate hb ops m env henv hpure hmul v hv K hK

-- non-vacuity: the body of `log_taylor` (`v = (v*v4) >> 10`) with v4 = 2^8, v = 1000: 10 = bitcount 1000 ≤ 2·5
example : EnvOK 10 8 1 (fun _ _ => (256, 1)) := fun _ _ => by
  refine ⟨?_, ?_, ?_⟩ <;> simp only <;> decide
example : (decayLoop 10 [.mulShift] 0 (fun _ _ => (256, 1))).run 5 0 1000 = some (5, 0) := by decide

/-- **the signed trap.** The same loop (test `while v:`) entered with `v < 0` and multipliers ≥ 1 never exits:
    `(v*r) >> prec` is a floor and sticks at −1. -/
theorem fixdecay_negative_counterexample (p : Nat) (ops : List DecayOp) (env : Nat → Nat → Int × Int)
    (henv : ∀ k j, 1 ≤ (env k j).1 ∧ 1 ≤ (env k j).2) (hpure : ops.all DecayOp.isPure = true)
    (v : Int) (hv : v < 0) : (decayLoop p ops 0 env).Diverges v :=
  LoopSkel.fixdecay_negative_sticks p ops env henv hpure v hv

example : (decayLoop 10 [.mulShift] 0 (fun _ _ => (256, 1))).run 100 0 (-1000) = none := by decide

/-- **fixdecay, the sign-alternating body of `cos_sin_basecase`**
    (`a //= k; a = (a*x) >> prec; a //= k; a = -((a*x) >> prec)`, `0 ≤ x ≤ 2^b`, `b < prec`, `k ≥ 2`):
    exits from ANY start, of either sign, within `2|a| + 1` bodies. -/
theorem fixdecay_alt_terminates {p b : Nat} (hb : b < p) (m : Nat) (env : Nat → Nat → Int × Int)
    (henv : EnvOK p b 2 env) (v : Int) :
    (decayLoop p cosSinOps m env).ExitsWithin v (2 * v.natAbs + 1) :=
  LoopSkel.fixdecay_alt_terminates hb m env henv v

example : (decayLoop 10 cosSinOps 0 (fun _ _ => (700, 2))).run 9 0 (-1000) = some (4, 0) := by decide

/-- the loop of `giant_steps(start, target, n)` (`while L[-1] > start*n: L += [L[-1]//n + 2]`) executes at most
    `target` bodies when `n ≥ 2`, `start ≥ 1` and `start·n ≥ 3`. -/
theorem giant_steps_finite (start n : Nat) (hn : 2 ≤ n) (hs : 1 ≤ start) (h3 : 3 ≤ start * n) (target : Nat) :
    (giantLoop start n).ExitsWithin target target :=
  LoopSkel.giant_steps_finite start n hn hs h3 target

example : giantSteps 50 2 1000 [1000] = some [66, 128, 253, 502, 1000] := by decide

/-- `giant_steps(1, target)` (default `n = 2`) never returns for any `target ≥ 3`: the hypothesis `start·n ≥ 3`
    cannot be dropped.  (All callers in /repo use start ≥ 8.) -/
theorem giant_steps_start1_counterexample (target : Nat) (ht : 3 ≤ target) : (giantLoop 1 2).Diverges target :=
  LoopSkel.giant_steps_start1_diverges target ht

/-- **tolOrDiverge.** `if k > k0 and (|term| <= eps or term >= prev): break` exits on every sequence of term
    magnitudes that is eventually ≤ eps or eventually non-decreasing (strict guard: eventually increasing). -/
theorem tolOrDiverge_terminates (a : Nat → Nat) (eps k0 : Nat) (strict : Bool)
    (h : EventuallyLE a eps ∨ (if strict then EventuallyIncreasing a else EventuallyNondecreasing a)) :
    ∃ N, (tolOrDivLoop a (some eps) k0 strict).ExitsWithin 0 N :=
  LoopSkel.tolOrDiverge_terminates a eps k0 strict h

example : EventuallyNondecreasing (unimodal 3) := ⟨10, fun k hk => by unfold unimodal; split_ifs <;> omega⟩

/-- the guard of `mpf_psi0` (`if k > 2 and term >= prev: break`, integer terms) exits on EVERY sequence, within
    `k0 + a(k0) + 1` bodies: natural numbers cannot decrease forever. -/
theorem divGuard_terminates (a : Nat → Nat) (k0 : Nat) :
    (tolOrDivLoop a none k0 false).ExitsWithin 0 (k0 + a k0 + 1) :=
  LoopSkel.divGuard_terminates a k0

/-- **tol.** A loop that exits ONLY on `|term| <= eps` (`mpc_psi0`, `mpc_psi`, …) never exits on the unimodal
    sequence `eps+1+|k−10|` — the shape of an asymptotic series used where its smallest term exceeds eps. -/
theorem tol_may_diverge (eps k0 : Nat) : (tolLoop (unimodal eps) eps k0).Diverges 0 :=
  LoopSkel.tol_may_diverge eps k0

example : (tolLoop (unimodal 5) 5 2).run 200 0 0 = none := by decide
example : (tolOrDivLoop (unimodal 5) (some 5) 2 false).run 200 0 0 = some (11, 11) := by decide

/-- hence the class statement is false for `tol`: those loops are OPEN obligations -/
theorem tol_class_is_open : ¬ Cls.tol.Terminates := Cls.tol_not_terminates

/-- a tolerance loop with an iteration cap (`if k > maxit: raise NoConvergence`) executes at most `maxit+1−k` more
    bodies whatever the tolerance test says. -/
theorem bounded_terminates (done : Nat → Bool) (maxit k : Nat) :
    (boundedLoop done maxit).ExitsWithin k (maxit + 1 - k) :=
  LoopSkel.bounded_terminates done maxit k

/-- **hypsum.** `while 1: if extraprec > maxprec: raise; …; if accurate: break; extraprec = 2*extraprec + 5`
    breaks or raises within `log2 maxprec + 1` retries, whatever the summations report. -/
theorem hypsum_prec_bounded (enough : Nat → Bool) (maxprec e : Nat) (he : 1 ≤ e) :
    (retryLoop enough hypsumGrow maxprec).ExitsWithin (0, e) (Nat.log2 maxprec + 1) :=
  LoopSkel.retry_doubling_terminates enough hypsumGrow maxprec e he hypsumGrow_double

example : (retryLoop (fun _ => false) hypsumGrow 6000).run 20 0 (0, 25) = some (8, 8, 7675) := by decide

/-- **hypercomb / autoprec-style retry** with any strictly increasing precision schedule: at most
    `maxprec + 1 − e` retries. -/
theorem retry_prec_bounded (enough : Nat → Bool) (grow : Nat → Nat) (maxprec e : Nat) (hg : ∀ x, x < grow x) :
    (retryLoop enough grow maxprec).ExitsWithin (0, e) (maxprec + 1 - e) :=
  LoopSkel.retry_incr_terminates enough grow maxprec e hg

/-- the executable small-step semantics returns whenever `ExitsWithin` holds (fuel = the bound) -/
theorem run_returns_of_exitsWithin {σ : Type} (L : Loop σ) (s : σ) (N : Nat) (h : L.ExitsWithin s N) :
    (L.run N 0 s).isSome :=
  Loop.run_isSome_of_exitsWithin h

/-- **the generated obligations apply this**: a skeleton whose extracted parameters pass the syntactic check
    satisfies the termination statement of its class. -/
theorem skeleton_terminates (c : Cls) (h : c.check = true) : c.Terminates :=
  Cls.terminates_of_check c h

end C24
end Mp
