/-
  Props/C14.lean — C14 (arithmetic part): real interval operations contain every exact result.
  `FinIv I`: both endpoints finite canonical, lower ≤ upper.  `MemIv x I`: val I.1 ≤ x ≤ val I.2.
  Theorems are for finite endpoints of ANY bit length (in particular longer than the interval precision),
  every precision `prec ≥ 0` (0 = exact) — no bound on sizes.
-/
import MpProofs.IntervalSound

namespace Mp

theorem C14_add {s t : Mpi} (hs : FinIv s) (ht : FinIv t) {prec : ℤ} (hp : 0 ≤ prec) {x y : ℚ}
    (hx : MemIv x s) (hy : MemIv y t) : FinIv (mpi_add s t prec) ∧ MemIv (x + y) (mpi_add s t prec) :=
  mpi_add_sound hs ht hp hx hy

theorem C14_sub {s t : Mpi} (hs : FinIv s) (ht : FinIv t) {prec : ℤ} (hp : 0 ≤ prec) {x y : ℚ}
    (hx : MemIv x s) (hy : MemIv y t) : FinIv (mpi_sub s t prec) ∧ MemIv (x - y) (mpi_sub s t prec) :=
  mpi_sub_sound hs ht hp hx hy

theorem C14_neg {s : Mpi} (hs : FinIv s) {prec : ℤ} (hp : 0 ≤ prec) {x : ℚ} (hx : MemIv x s) :
    FinIv (mpi_neg s prec) ∧ MemIv (-x) (mpi_neg s prec) := mpi_neg_sound hs hp hx

theorem C14_pos {s : Mpi} (hs : FinIv s) {prec : ℤ} (hp : 0 ≤ prec) {x : ℚ} (hx : MemIv x s) :
    FinIv (mpi_pos s prec) ∧ MemIv x (mpi_pos s prec) := mpi_pos_sound hs hp hx

/-- multiplication: the two degenerate cases, the six sign cases and the four-product general case -/
theorem C14_mul {s t : Mpi} (hs : FinIv s) (ht : FinIv t) {prec : ℤ} (hp : 0 ≤ prec) {x y : ℚ}
    (hx : MemIv x s) (hy : MemIv y t) : FinIv (mpi_mul s t prec) ∧ MemIv (x * y) (mpi_mul s t prec) :=
  mpi_mul_sound hs ht hp hx hy

/- Full statement of the property also covers infinite endpoints, division, powers, sqrt, the
   transcendental functions and string conversion: those are tied bit-exactly to the code and decided on
   sample points by the check (partial). -/

example : FinIv ((⟨1, 3, -1, 2⟩, ⟨0, 5, 0, 3⟩) : Mpi) ∧ MemIv (1/3) ((⟨1, 3, -1, 2⟩, ⟨0, 5, 0, 3⟩) : Mpi) := by
  refine ⟨⟨by decide, by decide, ?_⟩, ?_, ?_⟩ <;> norm_num [val]

end Mp
