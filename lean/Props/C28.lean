/-
  Props/C28.lean — C28 (numerical differentiation, Taylor coefficients, forward differences, differint, Padé),
  level: translation validation with a PROVED validator (+ a proof for `difference`).

  The quantifier "for all functions / points / orders / precisions" is sampled: the harness runs the real
  `diff` / `diffs` / `diffun` / `taylor` on members of the families `Mp.Calc.Fam` with a closed-form
  derivative (polynomials `Σ c·x^m`, `e^{cx}`, `sin cx`, `cos cx`, `x·e^{cx}`, rational parameters), reads
  each result exactly as a dyadic `y` and asks the compiled checker; it runs `differint` on `t ↦ t^k` for
  integer orders and `pade` on rational coefficient lists.  What is proved here:
    * the closed form used as reference IS the `n`-th derivative (`iteratedDeriv n f x`, Mathlib), and the
      reference for `taylor` IS the Taylor coefficient `f^(n)(x)/n!`                (`C28_deriv_family`,
      `C28_taylor_coeff`);
    * a verdict `ok` / `violates` of the executable checker is a theorem about that derivative:
      `|y − f^(n)(x)| < 2^(10−p)·max(|f^(n)(x)|, 1)` ("relative or absolute error below 2^(10−p)") resp. its
      negation                                          (`C28_checker_*`, `C28_diffCheck_*`, `C28_taylorCheck_*`);
    * `difference(s, n)` in exact arithmetic equals the `n`-th forward difference `Σ (−1)^(n−k) C(n,k) s_k`
      for every sequence and every `n` (a proof about the modelled loop, `C28_difference_spec`);
    * the closed forms for `differint(t ↦ t^k, x, n)` are the `n`-th derivative (`n ≥ 0`) and `∫_0^x t^k`
      (`n = −1`)                                                   (`C28_differint_deriv`, `C28_differint_int`);
    * the Padé validator: acceptance means `p`, `q` have `L+1`, `M+1` coefficients, `q_0 = 1` and every
      coefficient of `A·Q − P` up to degree `L+M` is below the tolerance; with tolerance 0 this is
      `X^(L+M+1) ∣ A·Q − P`, i.e. the series of `P/Q` matches `a` up to order `L+M`   (`C28_padeCheck_*`).
  Sampled, not proved: that mpmath's finite-difference / quadrature code reaches the tolerance for every
  input (it is run and its outputs are checked); the coefficients mpmath's `pade` returns are floats, read
  exactly as rationals and checked against the residual tolerance `2^(10−p)·(Σ|q_i|)·max_{j≤L+M}|a_j|`.
  FINDING: `pade(a, 0, 0)` returns `([1], [1])` instead of `([a_0], [1])` (`C28_pade_L0M0_counterexample`).
  Not claimed: products `exp·sin`, `exp·cos` beyond the value itself (no closed-form `derivRef`), fractional
  orders of `differint`, non-entire functions, singular Padé systems.
-/
import MpProofs.CalcDiff
import MpProofs.CalcLogicA

namespace Mp
open Mp.Calc Mp.Encl

/-- the closed form is the derivative: for the families `Σ c·x^m`, `e^{cx}`, `sin cx`, `cos cx`, `x·e^{cx}` the
reference `f.derivRef n x` denotes the `n`-th derivative of `f` at the point denoted by `x` -/
theorem C28_deriv_family (f : Fam) (n : ℕ) (x r : Ref) (h : f.derivRef n x = some r) :
    iteratedDeriv n f.fn x.sem = r.sem :=
  Fam.iteratedDeriv_eq f n x r h

/-- the reference handed to the checker for `taylor(f, x, N)[n]`, namely `r · (1/n!)` with `r` the closed-form
derivative, denotes the `n`-th Taylor coefficient `f^(n)(x) / n!` -/
theorem C28_taylor_coeff (f : Fam) (n : ℕ) (x r : Ref) (h : f.derivRef n x = some r) :
    (Ref.mul r (.rat (1 / ((natFactorial n : ℕ) : ℚ)))).sem = iteratedDeriv n f.fn x.sem / (n.factorial : ℝ) := by
  rw [C28_deriv_family f n x r h, natFactorial_eq]
  simp only [Ref.sem]
  push_cast
  rw [one_div, div_eq_mul_inv]

/-- verdict `ok` of the checker in the mode used for C28 (`fl = 1`, strict): the dyadic `y` has
"relative or absolute error below `2^(k−p)`" w.r.t. the exact value of the reference -/
theorem C28_checker_ok (r : Ref) (y : Dy) (p k : ℕ) (h : checkClose r y p k 1 true = .ok) :
    |y.val - r.sem| < (2 : ℝ) ^ ((k : ℤ) - (p : ℤ)) * max |r.sem| 1 := by
  have := (checkClose_sound_ok r y p k 1 true h).2 rfl
  simpa [tol] using this

/-- verdict `violates` ⇒ the error is NOT below the tolerance -/
theorem C28_checker_violates (r : Ref) (y : Dy) (p k : ℕ) (h : checkClose r y p k 1 true = .violates) :
    ¬ |y.val - r.sem| < (2 : ℝ) ^ ((k : ℤ) - (p : ℤ)) * max |r.sem| 1 := by
  have := (checkClose_sound_violates r y p k 1 true h).2 rfl
  simp only [tol, Rat.cast_one] at this
  exact not_lt.2 this

/-- the combined statement for `diff(f, x, n)` (also `diffs(f, x, N)[n]`, `diffun(f, n)(x)`): checker `ok` on
the family's closed form ⇒ the returned value `y` is within the property's tolerance `2^(10−p)`
(relative or absolute) of the true `n`-th derivative -/
theorem C28_diffCheck_sound (f : Fam) (n : ℕ) (x r : Ref) (y : Dy) (p : ℕ)
    (hr : f.derivRef n x = some r) (h : checkClose r y p 10 1 true = .ok) :
    |y.val - iteratedDeriv n f.fn x.sem| <
      (2 : ℝ) ^ ((10 : ℤ) - (p : ℤ)) * max |iteratedDeriv n f.fn x.sem| 1 := by
  rw [C28_deriv_family f n x r hr]
  simpa using C28_checker_ok r y p 10 h

/-- … and `violates` ⇒ it is not -/
theorem C28_diffCheck_violates (f : Fam) (n : ℕ) (x r : Ref) (y : Dy) (p : ℕ)
    (hr : f.derivRef n x = some r) (h : checkClose r y p 10 1 true = .violates) :
    ¬ |y.val - iteratedDeriv n f.fn x.sem| <
      (2 : ℝ) ^ ((10 : ℤ) - (p : ℤ)) * max |iteratedDeriv n f.fn x.sem| 1 := by
  rw [C28_deriv_family f n x r hr]
  simpa using C28_checker_violates r y p 10 h

/-- the combined statement for `taylor(f, x, N)[n]`: checker `ok` on `r·(1/n!)` ⇒ the returned coefficient `y`
is within `2^(10−p)` (relative or absolute) of the true Taylor coefficient `f^(n)(x)/n!` -/
theorem C28_taylorCheck_sound (f : Fam) (n : ℕ) (x r : Ref) (y : Dy) (p : ℕ)
    (hr : f.derivRef n x = some r)
    (h : checkClose (Ref.mul r (.rat (1 / ((natFactorial n : ℕ) : ℚ)))) y p 10 1 true = .ok) :
    |y.val - iteratedDeriv n f.fn x.sem / (n.factorial : ℝ)| <
      (2 : ℝ) ^ ((10 : ℤ) - (p : ℤ)) * max |iteratedDeriv n f.fn x.sem / (n.factorial : ℝ)| 1 := by
  rw [← C28_taylor_coeff f n x r hr]
  simpa using C28_checker_ok _ y p 10 h

/-- … and `violates` ⇒ it is not -/
theorem C28_taylorCheck_violates (f : Fam) (n : ℕ) (x r : Ref) (y : Dy) (p : ℕ)
    (hr : f.derivRef n x = some r)
    (h : checkClose (Ref.mul r (.rat (1 / ((natFactorial n : ℕ) : ℚ)))) y p 10 1 true = .violates) :
    ¬ |y.val - iteratedDeriv n f.fn x.sem / (n.factorial : ℝ)| <
      (2 : ℝ) ^ ((10 : ℤ) - (p : ℤ)) * max |iteratedDeriv n f.fn x.sem / (n.factorial : ℝ)| 1 := by
  rw [← C28_taylor_coeff f n x r hr]
  simpa using C28_checker_violates _ y p 10 h

/-- `difference(s, n)` (the modelled loop with its integer weight recurrence `b = (b·(k−n)) // (k+1)`), in exact
arithmetic, equals the `n`-th forward difference `Σ_{k=0}^{n} (−1)^(n−k)·C(n,k)·s_k` — for every sequence `s`
and every `n` -/
theorem C28_difference_spec (s : ℕ → ℚ) (n : ℕ) :
    difference s n = ∑ k ∈ Finset.range (n + 1), (-1 : ℚ) ^ (n - k) * (n.choose k : ℚ) * s k :=
  difference_spec s n

/-- soundness of the Padé validator: if `padeCheck a p q L M t` accepts the output `(p, q)` of `pade(a, L, M)`
(all read as exact rationals), then `p` has `L+1` and `q` has `M+1` coefficients, `q_0 = 1`, and for every
`j ≤ L+M` the coefficient of `X^j` in `A·Q − P` is at most `t·(Σ|q_i|)·max_{i≤L+M}|a_i|` in absolute value, where
`A, P, Q = Σ_i l[i]·X^i` are the polynomials with the coefficient lists `a, p, q` -/
theorem C28_padeCheck_sound (a p q : List ℚ) (L M : ℕ) (t : ℚ) (h : padeCheck a p q L M t = true) :
    p.length = L + 1 ∧ q.length = M + 1 ∧ (listPoly q).coeff 0 = 1 ∧
    ∀ j ≤ L + M, |(listPoly a * listPoly q - listPoly p).coeff j| ≤
      t * ((q.map fun c => |c|).sum * maxAbs a (L + M)) := by
  have := padeCheck_sound a p q L M t h
  rwa [padeScale_eq] at this

/-- the scale in `C28_padeCheck_sound` is what it says: `maxAbs a n` is the largest `|a_j|`, `j ≤ n`
(an upper bound of them, and below every non-negative upper bound), and `listPoly l` has the list entries as
coefficients (0 beyond the end of the list) -/
theorem C28_padeScale_meaning (a : List ℚ) (n : ℕ) :
    (∀ j ≤ n, |(listPoly a).coeff j| ≤ maxAbs a n) ∧
    (∀ B : ℚ, 0 ≤ B → (∀ j ≤ n, |(listPoly a).coeff j| ≤ B) → maxAbs a n ≤ B) ∧
    (∀ j, (listPoly a).coeff j = a.getD j 0) := by
  refine ⟨fun j hj => ?_, fun B h0 h => ?_, fun j => ?_⟩
  · rw [listPoly_coeff]; exact le_maxAbs a n j hj
  · exact maxAbs_le a n B h0 fun j hj => by rw [← listPoly_coeff]; exact h j hj
  · rw [listPoly_coeff]; rfl

/-- exact case (tolerance 0): acceptance means `A·Q = P + O(X^(L+M+1))`, i.e. `P/Q` is an `[L/M]` Padé
approximant of the series `a` (with `q_0 = 1`): the series of `P/Q` matches `a` up to order `L+M` -/
theorem C28_padeCheck_exact (a p q : List ℚ) (L M : ℕ) (h : padeCheck a p q L M 0 = true) :
    p.length = L + 1 ∧ q.length = M + 1 ∧ (listPoly q).coeff 0 = 1 ∧
    Polynomial.X ^ (L + M + 1) ∣ listPoly a * listPoly q - listPoly p :=
  have hs := padeCheck_sound a p q L M 0 h
  ⟨hs.1, hs.2.1, hs.2.2.1, padeCheck_exact a p q L M h⟩

/-- the validator rejects only when one of the stated facts fails (it is complete) -/
theorem C28_padeCheck_complete (a p q : List ℚ) (L M : ℕ) (t : ℚ)
    (hp : p.length = L + 1) (hq : q.length = M + 1) (hq0 : (listPoly q).coeff 0 = 1)
    (hall : ∀ j ≤ L + M, |(listPoly a * listPoly q - listPoly p).coeff j| ≤
      t * ((q.map fun c => |c|).sum * maxAbs a (L + M))) :
    padeCheck a p q L M t = true := by
  apply padeCheck_complete a p q L M t hp hq hq0
  rwa [padeScale_eq]

/-- `differint(t ↦ t^k, x, n)` for an integer order `n ≥ 0`: the closed form `k(k−1)…(k−n+1)·x^(k−n)`
(`0` for `n > k`) is the `n`-th derivative of `t^k` at `x` -/
theorem C28_differint_deriv (k n : ℕ) (x r : Ref) (h : differintRef k (n : ℤ) x = some r) :
    iteratedDeriv n (fun t : ℝ => t ^ k) x.sem = r.sem :=
  differintRef_deriv k n x r h

/-- `differint(t ↦ t^k, x, −1, x0 = 0)`: the closed form `x^(k+1)/(k+1)` is `∫_0^x t^k dt` -/
theorem C28_differint_int (k : ℕ) (x r : Ref) (h : differintRef k (-1) x = some r) :
    ∫ t in (0 : ℝ)..x.sem, t ^ k = r.sem :=
  differintRef_int k x r h

/-! non-vacuity -/

-- d²/dx² (3x⁴ − x) = 36x², at x = 1/2: 9;  the checker accepts 9 and rejects 9.01 at 53 bits
example : (Fam.poly [(3, 4), (-1, 1)]).derivRef 2 (.rat (1 / 2)) ≠ none := by decide
example : checkClose (((Fam.poly [(3, 4), (-1, 1)]).derivRef 2 (.rat (1 / 2))).getD (.rat 0)) ⟨9, 0⟩ 53 10 1 true = .ok := by
  decide +kernel
example : checkClose (((Fam.poly [(3, 4), (-1, 1)]).derivRef 2 (.rat (1 / 2))).getD (.rat 0)) ⟨9225, -10⟩ 53 10 1 true
    = .violates := by
  decide +kernel
-- third derivative of sin(2x) at 0 is −8; Taylor coefficient −8/3! against the double nearest −4/3
example : checkClose (((Fam.sinL 2).derivRef 3 (.rat 0)).getD (.rat 0)) ⟨-8, 0⟩ 53 10 1 true = .ok := by
  decide +kernel
example : checkClose (Ref.mul (((Fam.sinL 2).derivRef 3 (.rat 0)).getD (.rat 0)) (.rat (1 / ((natFactorial 3 : ℕ) : ℚ))))
    ⟨-6004799503160661, -52⟩ 53 10 1 true = .ok := by
  decide +kernel
-- the [1/1] Padé approximant of exp: (1 + x/2)/(1 − x/2); accepted exactly; a wrong one is rejected
example : padeCheck [1, 1, 1 / 2] [1, 1 / 2] [1, -1 / 2] 1 1 0 = true := by decide +kernel
example : padeCheck [1, 1, 1 / 2] [1, 1 / 2] [1, -1 / 3] 1 1 0 = false := by decide +kernel
example : padeCheck [1, 1, 1 / 2] [1, 1 / 2] [1, -1 / 3] 1 1 (1 / 1024) = false := by decide +kernel
-- a slightly perturbed one is accepted at the corresponding tolerance and rejected at a tighter one
example : padeCheck [1, 1, 1 / 2] [1, 1 / 2] [1, -1 / 2 + 1 / 4096] 1 1 (1 / 1024) = true := by decide +kernel
example : padeCheck [1, 1, 1 / 2] [1, 1 / 2] [1, -1 / 2 + 1 / 4096] 1 1 (1 / 1048576) = false := by decide +kernel
/-- FINDING (replayed on /repo): `pade(a, 0, 0)` returns `([1], [1])` whatever `a[0]` is
(`differentiation.py`, branch `if M == 0: if L == 0: return [ctx.one], [ctx.one]`); for `a = [2]` the output is
rejected at every tolerance below 1/2, i.e. `A·Q − P = 2 − 1 ≠ O(X)`: the property fails for `L = M = 0`, `a_0 ≠ 1`.
(The correct output `([a_0], [1])` is accepted.) -/
theorem C28_pade_L0M0_counterexample :
    padeCheck [2] [1] [1] 0 0 (1 / 1024) = false ∧ padeCheck [2] [2] [1] 0 0 0 = true ∧
    ¬ Polynomial.X ^ (0 + 0 + 1) ∣ listPoly [2] * listPoly [1] - listPoly [1] := by
  refine ⟨by decide +kernel, by decide +kernel, ?_⟩
  rw [Polynomial.X_pow_dvd_iff]
  intro h
  have h0 := h 0 (by omega)
  rw [← padeResid_eq] at h0
  revert h0
  decide +kernel

-- differint closed forms: d²/dt² t³ = 6t, ∫_0^x t³ = x⁴/4, order −2 not covered
example : differintRef 3 2 (.rat 5) ≠ none ∧ differintRef 3 (-1) (.rat 5) ≠ none ∧ differintRef 3 (-2) (.rat 5) = none := by
  decide
example : checkClose ((differintRef 3 2 (.rat 5)).getD (.rat 0)) ⟨30, 0⟩ 53 10 1 true = .ok := by decide +kernel
example : checkClose ((differintRef 3 (-1) (.rat 5)).getD (.rat 0)) ⟨625, -2⟩ 53 10 1 true = .ok := by decide +kernel
example : checkClose ((differintRef 3 5 (.rat 5)).getD (.rat 1)) ⟨0, 0⟩ 53 10 1 true = .ok := by decide +kernel


/-- partial derivatives of a separable product (the shape the harness uses for `diff(f, (x, y), (m, n))`):
`∂ₓ^m ∂ᵧ^n [f(x)·g(y)] = f^(m)(x)·g^(n)(y)`, with the nesting order of `_partial_diff` (first variable outermost) -/
theorem C28_partial_separable (f g : ℝ → ℝ) (m n : ℕ) (x y : ℝ) :
    iteratedDeriv m (fun s => iteratedDeriv n (fun t => f s * g t) y) x = iteratedDeriv m f x * iteratedDeriv n g y := by
  simp only [iteratedDeriv_const_mul_field, iteratedDeriv_mul_const_field]

end Mp
