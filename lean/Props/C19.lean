/-
  Props/C19.lean — C19 (zeta-family accuracy), PARTIAL: decided on the closed-form sub-family.
  Level: translation validation with a PROVED validator and PROVED reference values.

  (1) the validator `specCheck` / `specCheckC` is rigorous (same theorems as `Props/C18.lean`, restated);
  (2) the reference expressions computed from the ARGUMENTS denote Mathlib's functions:
      `riemannZeta` at `0`, negative integers and even positive integers (`riemannZeta_zero`,
      `riemannZeta_neg_nat_eq_bernoulli`, `riemannZeta_two_mul_nat`); the Hurwitz series
      `Σ_{n≥0} 1/(n+a)^(2k)` at integers `a ≥ 1` (`hasSum_zeta_nat` with the first `a` terms removed);
      `Polynomial.bernoulli` at rational points; the series `Σ_{k≥1} z^k/k = −log(1−z)`,
      `Σ_{k≥1} k^n z^k` (`|z| < 1`) and `Σ_{k≥1} 1/k^(2m)` defining `polylog(1, z)`, `polylog(−n, z)`, `polylog(2m, 1)`.
      DEFINITIONS (no Mathlib object exists): `altzeta(s) := (1 − 2^(1−s))·ζ(s)`, and the Euler polynomials
      `E_n(x) := 2/(n+1)·(B_{n+1}(x) − 2^(n+1)·B_{n+1}(x/2))` in terms of Mathlib's `Polynomial.bernoulli`.
  NOT decided: `ζ` at odd positive integers and all non-integers, complex `s`, Hurwitz `ζ(s, a)` for non-integer `a`
  or `s` not an even positive integer, derivatives, `dirichlet`, `lerchphi`, `stieltjes`, `primezeta`,
  `siegeltheta`, `siegelz`, `riemannr`, `polylog` outside the three sub-families (in particular `|z| ≥ 1`).
-/
import MpProofs.SpecRefZeta

namespace Mp
open Mp.Encl Mp.SpecRef
open scoped Nat

/-- verdict `ok` ⇒ `|y − ⟦r⟧| ≤ 2^(k−p)·|⟦r⟧|`; verdict `violates` ⇒ the inequality fails -/
theorem C19_validator (r : SExpr) (y : Dy) (p k : ℕ) :
    (specCheck r y p k = .ok → |y.val - r.sem| ≤ (2 : ℝ) ^ ((k : ℤ) - (p : ℤ)) * |r.sem|) ∧
    (specCheck r y p k = .violates → (2 : ℝ) ^ ((k : ℤ) - (p : ℤ)) * |r.sem| < |y.val - r.sem|) :=
  ⟨specCheck_sound_ok r y p k, specCheck_sound_violates r y p k⟩

/-- the strict form of the property text ("below 2^(8−p)"): run with `k = 7`; a reference value 0
(`ζ(−2n)`, `B_n(x)` at a root, …) requires the output to be exactly 0 -/
theorem C19_validator_strict (r : SExpr) (y : Dy) (p : ℕ) (h : specCheck r y p 7 = .ok) :
    (r.sem ≠ 0 → |y.val - r.sem| < (2 : ℝ) ^ ((8 : ℤ) - (p : ℤ)) * |r.sem|) ∧
    (r.sem = 0 → y.val = 0) :=
  ⟨fun h0 => by simpa using specCheck_ok_strict r y p 7 h h0, specCheck_ok_zero r y p 7 h⟩

/-- complex-typed output against a real reference, error in modulus -/
theorem C19_validator_complex (r : SExpr) (yre yim : Dy) (p k : ℕ) :
    (specCheckC r yre yim p k = .ok →
      ‖(⟨yre.val, yim.val⟩ : ℂ) - (r.sem : ℂ)‖ ≤ (2 : ℝ) ^ ((k : ℤ) - (p : ℤ)) * |r.sem|) ∧
    (specCheckC r yre yim p k = .violates →
      (2 : ℝ) ^ ((k : ℤ) - (p : ℤ)) * |r.sem| < ‖(⟨yre.val, yim.val⟩ : ℂ) - (r.sem : ℂ)‖) :=
  ⟨specCheckC_sound_ok r yre yim p k, specCheckC_sound_violates r yre yim p k⟩

/-- `zeta(s)` at integers: whenever the reference is a value it is Mathlib's `riemannZeta s`
(values are produced for `s ≤ 0` and for even `s ≥ 2`) -/
theorem C19_zeta_ref (s : ℤ) (e : SExpr) (he : zetaRef s = .val e) :
    ((e.sem : ℝ) : ℂ) = riemannZeta (s : ℂ) := by
  unfold zetaRef at he
  split at he
  · simp at he
  · rename_i h1
    split at he
    · rename_i h0
      simp only [Ref.ofRat, Ref.val.injEq] at he; subst he
      obtain ⟨n, hn⟩ : ∃ n : ℕ, s = -(n : ℤ) := ⟨(-s).toNat, by omega⟩
      have hn2 : (-s).toNat = n := by omega
      rw [ratE_sem, hn2, zetaNeg_complex n, hn]
      push_cast; rfl
    · rename_i h0
      split at he
      · rename_i he2
        simp only [Ref.val.injEq] at he; subst he
        obtain ⟨k, hk⟩ : ∃ k : ℕ, s = 2 * (k : ℤ) := ⟨(s / 2).toNat, by omega⟩
        have hk2 : (s / 2).toNat = k := by omega
        have hk0 : k ≠ 0 := by omega
        simp only [SExpr.sem, hk2, ratE_sem]
        rw [zetaEven_complex k hk0, hk]
        push_cast; rfl
      · simp at he

/-- the reference reports the pole of `zeta` exactly at `s = 1` -/
theorem C19_zeta_pole_iff (s : ℤ) : zetaRef s = .pole ↔ s = 1 := by
  unfold zetaRef
  constructor
  · intro h
    by_contra h1
    rw [if_neg h1] at h
    split at h
    · simp [Ref.ofRat] at h
    · split at h <;> simp at h
  · intro h; rw [if_pos h]

/-- `altzeta(s)`, DEFINED as `(1 − 2^(1−s))·ζ(s)` with Mathlib's `riemannZeta`, at the same points -/
theorem C19_altzeta_ref (s : ℤ) (e : SExpr) (he : altzetaRef s = .val e) :
    ((e.sem : ℝ) : ℂ) = (1 - (2 : ℂ) ^ (1 - s)) * riemannZeta (s : ℂ) := by
  unfold altzetaRef at he
  cases hz : zetaRef s with
  | val e0 =>
    rw [hz] at he
    simp only [Ref.val.injEq] at he; subst he
    simp only [SExpr.sem, ratE_sem]
    push_cast
    rw [C19_zeta_ref s e0 hz]
    congr 1
    have := etaFactor_sem s
    rw [← Complex.ofReal_ratCast, this]; push_cast; rfl
  | pole => rw [hz] at he; simp only at he; split at he <;> simp at he
  | outside => rw [hz] at he; simp only at he; split at he <;> simp at he

/-- Hurwitz `zeta(s, a)` at even `s = 2k ≥ 2` and integer `a ≥ 1`: the reference is the sum of the series
`Σ_{n≥0} 1/(n+a)^(2k)` -/
theorem C19_hurwitz_ref (s a : ℤ) (e : SExpr) (he : hurwitzRef s a = .val e) :
    ∃ k a' : ℕ, s = 2 * (k : ℤ) ∧ k ≠ 0 ∧ a = (a' : ℤ) ∧ 1 ≤ a' ∧
      HasSum (fun n : ℕ => 1 / ((n : ℝ) + (a' : ℝ)) ^ (2 * k)) e.sem := by
  unfold hurwitzRef at he
  split at he
  · rename_i hc
    obtain ⟨h2, hev, ha⟩ := hc
    obtain ⟨k, hk⟩ : ∃ k : ℕ, s = 2 * (k : ℤ) := ⟨(s / 2).toNat, by omega⟩
    have hk2 : (s / 2).toNat = k := by omega
    have hk0 : k ≠ 0 := by omega
    have hz : zetaRef s = .val (.mul (ratE (zetaEvenQ k)) (.pow .pi (2 * k))) := by
      unfold zetaRef
      rw [if_neg (by omega), if_neg (by omega), if_pos hev, hk2]
    rw [hz] at he
    simp only [Ref.val.injEq] at he; subst he
    refine ⟨k, a.toNat, hk, hk0, by omega, by omega, ?_⟩
    have hs : s.toNat = 2 * k := by omega
    simp only [SExpr.sem, ratE_sem, hs]
    have := hurwitz_hasSum k a.toNat hk0
    rwa [sub_eq_add_neg] at this
  · simp at he

/-- `bernpoly(n, x)` at rational `x`: Mathlib's `Polynomial.bernoulli n` evaluated at `x` -/
theorem C19_bernpoly_ref (n : ℤ) (x : ℚ) (e : SExpr) (he : bernpolyRef n x = .val e) :
    ∃ m : ℕ, n = m ∧ e.sem = (((Polynomial.bernoulli m).eval x : ℚ) : ℝ) := by
  unfold bernpolyRef at he
  split at he
  · simp only [Ref.ofRat, Ref.val.injEq] at he; subst he
    exact ⟨n.toNat, by omega, by rw [ratE_sem, bernPolyQ_eq]⟩
  · simp at he

/-- `eulerpoly(n, x)` at rational `x`: the Euler polynomial DEFINED by
`E_n(x) = 2/(n+1)·(B_{n+1}(x) − 2^(n+1)·B_{n+1}(x/2))` with Mathlib's Bernoulli polynomials
(Mathlib has no Euler polynomials; this is a definition, not a theorem about an independent object) -/
theorem C19_eulerpoly_ref (n : ℤ) (x : ℚ) (e : SExpr) (he : eulerpolyRef n x = .val e) :
    ∃ m : ℕ, n = m ∧ e.sem = ((2 / ((m : ℚ) + 1) *
      ((Polynomial.bernoulli (m + 1)).eval x - 2 ^ (m + 1) * (Polynomial.bernoulli (m + 1)).eval (x / 2)) : ℚ) : ℝ) := by
  unfold eulerpolyRef at he
  split at he
  · simp only [Ref.ofRat, Ref.val.injEq] at he; subst he
    exact ⟨n.toNat, by omega, by rw [ratE_sem, eulerPolyQ, bernPolyQ_eq, bernPolyQ_eq]⟩
  · simp at he

/-- `polylog(s, z)` at rational `z`: a value is produced in exactly three sub-families, in each of which it is the
sum of the defining series `Σ_{k≥1} z^k/k^s`:
`s = 1`, `|z| < 1` (value `−log(1−z)`);  `s = −n ≤ 0`, `|z| < 1` (a rational function of `z`);
`s = 2m ≥ 2`, `z = 1` (value `ζ(2m)`) -/
theorem C19_polylog_ref (s : ℤ) (z : ℚ) (e : SExpr) (he : polylogRef s z = .val e) :
    (s = 1 ∧ |(z : ℝ)| < 1 ∧ HasSum (fun k : ℕ => (z : ℝ) ^ (k + 1) / ((k : ℝ) + 1)) e.sem) ∨
    (∃ n : ℕ, s = -(n : ℤ) ∧ |(z : ℝ)| < 1 ∧
      HasSum (fun k : ℕ => ((k + 1 : ℕ) : ℝ) ^ n * (z : ℝ) ^ (k + 1)) e.sem) ∨
    (∃ m : ℕ, s = 2 * (m : ℤ) ∧ m ≠ 0 ∧ z = 1 ∧ HasSum (fun k : ℕ => 1 / (k : ℝ) ^ (2 * m)) e.sem) := by
  unfold polylogRef at he
  split at he
  · rename_i h1
    split at he
    · rename_i hz
      simp only [Ref.val.injEq] at he; subst he
      have hz' : |(z : ℝ)| < 1 := by
        rw [abs_lt]
        exact ⟨by exact_mod_cast hz.1, by exact_mod_cast hz.2⟩
      refine Or.inl ⟨h1, hz', ?_⟩
      simp only [SExpr.sem, ratE_sem]
      have := Real.hasSum_pow_div_log_of_abs_lt_one hz'
      push_cast
      exact this
    · simp at he
  · rename_i h1
    split at he
    · rename_i h2
      split at he
      · rename_i hc
        obtain ⟨hz1, hev⟩ := hc
        obtain ⟨m, hm⟩ : ∃ m : ℕ, s = 2 * (m : ℤ) := ⟨(s / 2).toNat, by omega⟩
        have hm2 : (s / 2).toNat = m := by omega
        have hm0 : m ≠ 0 := by omega
        have hzr : zetaRef s = .val (.mul (ratE (zetaEvenQ m)) (.pow .pi (2 * m))) := by
          unfold zetaRef
          rw [if_neg (by omega), if_neg (by omega), if_pos hev, hm2]
        rw [hzr] at he
        simp only [Ref.val.injEq] at he; subst he
        refine Or.inr (Or.inr ⟨m, hm, hm0, hz1, ?_⟩)
        simp only [SExpr.sem, ratE_sem]
        have := hasSum_zeta_nat hm0
        rwa [← zetaEven_sem m] at this
      · simp at he
    · rename_i h2
      split at he
      · rename_i hz
        simp only [Ref.ofRat, Ref.val.injEq] at he; subst he
        have hz' : |(z : ℝ)| < 1 := by
          rw [abs_lt]
          exact ⟨by exact_mod_cast hz.1, by exact_mod_cast hz.2⟩
        refine Or.inr (Or.inl ⟨(-s).toNat, by omega, hz', ?_⟩)
        rw [ratE_sem]
        exact hasSum_polylog_neg _ z hz'
      · simp at he

/-! ### non-vacuity -/

-- ζ(2) = π²/6 = 1.6449340668…: accepted at 24 bits; 1.65 rejected
example : (match zetaRef 2 with | .val e => specCheck e ⟨13798707, -23⟩ 24 7 | _ => .undecided) = .ok := by
  decide +kernel
example : (match zetaRef 2 with | .val e => specCheck e ⟨33, -5⟩ 8 0 | _ => .undecided) = .violates := by
  decide +kernel
example : zetaRef 1 = .pole := by decide +kernel
example : zetaRef (-1) = .val (.rat (-1) 12) := by decide +kernel
example : bernpolyRef 2 (1 / 2) = .val (.rat (-1) 12) := by decide +kernel
example : polylogRef (-1) (1 / 2) = .val (.rat 2 1) := by decide +kernel

end Mp
