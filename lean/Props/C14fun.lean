/-
  Props/C14fun.lean — C14 / C15, transcendental part: the ORACLE used by harness/iv_fun_ops.py is rigorous.

  The interval functions iv.exp/log/sqrt/sin/cos/tan/cot/sec/csc, mpi_atan, mpi_atan2, real `**`, and the complex
  mpci_exp/log/cos/sin/abs are NOT modelled; their containment statement "for all intervals and precisions" is
  SAMPLED.  For each sample point `t` of an input interval the check asks the compiled driver (ops `encl`, `encl2 pow`)
  for a dyadic enclosure `[F.lo, F.hi]` and compares it with the interval returned by the real code in exact integer
  arithmetic.  What is proved here: every enclosure the driver prints contains the exact real value
  (`FunId.sem` / `Fun2.sem` are Mathlib's `Real.exp`, `Real.log`, `Real.sqrt`, `Real.arctan`, `Real.sin`, `Real.cos`,
  `Real.tan`, `Real.cot`, `1/cos`, `1/sin`, `Real.sinh`, `Real.cosh`, `π`, `x ^ y`), and an enclosure is only produced
  inside the real domain.  Hence `F.hi < L` or `U < F.lo` for a returned interval `[L, U]` is a proof that the exact
  value `f(t)` is outside `[L, U]`, and `L ≤ F.lo ∧ F.hi ≤ U` is a proof that it is inside.
  Not proved: the combination steps done in Python for atan2 (quotient bracket, monotonicity of arctan, quadrant + π),
  the complex formulas (e^x cos y, cos x cosh y, ½ log(x²+y²), …) and Γ at integers / half-integers.
-/
import MpProofs.Encl2Sound

namespace Mp
open Mp.Encl

/-- one-argument reference: the enclosure printed by `encl f wp m e` contains `f(m·2^e)`; `x` is in the domain of `f` -/
theorem C14_ref_enclosure (f : FunId) (wp : ℕ) (x : Dy) (F : DI) (h : evalPoint f wp x = some F) :
    (F.lo.val ≤ f.sem x.val ∧ f.sem x.val ≤ F.hi.val) ∧ f.dom x.val :=
  evalPoint_sound' f wp x F h

/-- consequence used for a FAILURE verdict: a returned interval `[L, U]` lying entirely on one side of the
enclosure does not contain the exact value -/
theorem C14_ref_outside (f : FunId) (wp : ℕ) (x : Dy) (F : DI) (h : evalPoint f wp x = some F) (L U : ℝ)
    (hout : F.hi.val < L ∨ U < F.lo.val) : ¬ (L ≤ f.sem x.val ∧ f.sem x.val ≤ U) := by
  obtain ⟨⟨h1, h2⟩, _⟩ := evalPoint_sound' f wp x F h
  rintro ⟨h3, h4⟩
  rcases hout with h5 | h5
  · exact absurd (lt_of_le_of_lt h2 h5) (not_lt.mpr h3)
  · exact absurd (lt_of_lt_of_le h5 h1) (not_lt.mpr h4)

/-- consequence used for an INSIDE verdict -/
theorem C14_ref_inside (f : FunId) (wp : ℕ) (x : Dy) (F : DI) (h : evalPoint f wp x = some F) (L U : ℝ)
    (hin : L ≤ F.lo.val ∧ F.hi.val ≤ U) : L ≤ f.sem x.val ∧ f.sem x.val ≤ U := by
  obtain ⟨⟨h1, h2⟩, _⟩ := evalPoint_sound' f wp x F h
  exact ⟨le_trans hin.1 h1, le_trans h2 hin.2⟩

/-- two-argument reference (`encl2 pow wp x y`): the enclosure contains `x ^ y` (real power), and `0 < x` -/
theorem C14_ref_enclosure_pow (wp : ℕ) (x y : Dy) (F : DI) (h : eval2 .pow wp x y = some F) :
    F.Mem (x.val ^ y.val) ∧ 0 < x.val := by
  have := eval2_sound .pow wp x y F h
  simpa [Fun2.sem, Fun2.dom] using this

example : ∃ F, evalPoint .cos 93 ⟨7403024530358735, -53⟩ = some F := ⟨_, rfl⟩

end Mp
