/-
  Props/C05hash.lean — property C05, hash half:
  "whenever two numbers among mpf, mpc, int, float and complex compare equal, their hash values
   are equal."

  Vocabulary
  * `mpf_hash_raw`, `mpc_hash_old`, `mpq_hash`   models of the mpmath functions (MpModel/Core.lean, Hash.lean);
                                          the value RETURNED by `__hash__`.
  * `finalHash h`                         what the builtin `hash()` makes of a returned Python int `h`
                                          (re-hash outside the Py_ssize_t range, then -1 ↦ -2).
  * `pyHashInt`, `pyHashDyadic`, `pyHashFloatOfDyadic`, `pyHashFraction`, `pyHashComplex`
                                          CPython's documented hashes of int / the rational
                                          (-1)^sign·man·2^exp / float / Fraction / complex.
  * `val x`                               the rational value of a raw mpf (MpProofs/Spec.lean).
  * `mpf_hash`, `mpc_hash`    models of the PROPOSED repair (not the code in /repo).

  Result in one paragraph.  `mpf_hash_raw` is right for every finite mpf and every exponent
  (`mpf_hash_raw_spec`, `mpf_hash_raw_eq_int`, `mpf_hash_raw_eq_float`, `mpf_hash_raw_eq_of_val_eq`).
  `mpc_hash_old` is WRONG (`mpc_hash_old_counterexample*`): `hash(mpc)` equals `hash(complex)` exactly when
  neither component hash is -1 and the combined value reduced modulo 2^64 is below 2^63
  (`mpc_hash_old_spec_iff`, `mpc_hash_old_spec_partial`).  The repaired functions satisfy the law
  unconditionally (`mpc_hash_spec`, `mpc_hash_eq_complex`, `mpc_hash_real`).
-/
import MpProofs.Hash

namespace Mp

/-! ## mpf -/

/-- For every finite raw mpf — any sign field, any mantissa (odd or not), ANY exponent — Python's
`hash(mpf)` is the documented hash of the rational number `(-1)^sign · man · 2^exp`.
Three equivalent readings: through the builtin `hash()`, through the bare -1 ↦ -2 rule, and for the
repaired function directly. -/
theorem mpf_hash_raw_spec (x : Mpf) (hx : Finite x) :
    finalHash (mpf_hash_raw x) = pyHashDyadic x.sign x.man x.exp ∧
    fixM1 (mpf_hash_raw x) = pyHashDyadic x.sign x.man x.exp ∧
    mpf_hash x = pyHashDyadic x.sign x.man x.exp := by
  have h := mpf_hash_raw_closed x (notSpecialTuple_of_finite hx)
  have hc := pyHashDyadic_closed x.sign x.man x.exp
  refine ⟨?_, ?_, ?_⟩
  · rw [finalHash_mpf_hash_raw, h, hc]
  · rw [h, hc]
  · rw [mpf_hash_eq, h, hc]

example : Finite ⟨1, 3, -70, 2⟩ := by decide
example : Finite ⟨0, 12, 100000000000000000000, 4⟩ := by decide

/-- The value returned for the specials: `sys.hash_info.inf`, its negative, `sys.hash_info.nan`. -/
theorem mpf_hash_raw_specials :
    mpf_hash_raw finf = pyHashInf ∧ mpf_hash_raw fninf = -pyHashInf ∧ mpf_hash_raw fnan = 0 := by decide

/-- Two finite mpfs (sign fields 0/1; no other well-formedness assumed: mantissas may be even,
bit counts arbitrary) with the same rational value return the same hash. -/
theorem mpf_hash_raw_eq_of_val_eq (x y : Mpf) (hx : Finite x) (hy : Finite y)
    (sx : x.sign ≤ 1) (sy : y.sign ≤ 1) (h : val x = val y) : mpf_hash_raw x = mpf_hash_raw y := by
  rw [mpf_hash_raw_closed x (notSpecialTuple_of_finite hx), mpf_hash_raw_closed y (notSpecialTuple_of_finite hy)]
  exact hashTriple_congr sx sy h

example : Finite ⟨0, 1, 1, 1⟩ ∧ Finite ⟨0, 2, 0, 2⟩ ∧ val ⟨0, 1, 1, 1⟩ = val ⟨0, 2, 0, 2⟩ := by
  refine ⟨by decide, by decide, ?_⟩
  norm_num [val]

/-- An mpf whose value is the integer `n` hashes like the Python int `n`. -/
theorem mpf_hash_raw_eq_int (x : Mpf) (hx : Finite x) (sx : x.sign ≤ 1) (n : Int)
    (h : val x = (n : ℚ)) : finalHash (mpf_hash_raw x) = pyHashInt n := by
  rw [finalHash_mpf_hash_raw, mpf_hash_raw_closed x (notSpecialTuple_of_finite hx), pyHashInt_eq_hashTriple]
  congr 1
  apply hashTriple_congr sx (by split <;> omega)
  rw [val_of_int]
  exact h

example : Finite ⟨1, 5, 3, 3⟩ ∧ val ⟨1, 5, 3, 3⟩ = ((-40 : Int) : ℚ) := by
  refine ⟨by decide, ?_⟩
  norm_num [val]

/-- An mpf whose value is that of the finite Python float `(-1)^s · m · 2^e` hashes like that float. -/
theorem mpf_hash_raw_eq_float (x : Mpf) (hx : Finite x) (sx : x.sign ≤ 1) (s m : Nat) (e : Int) (hs : s ≤ 1)
    (h : val x = (-1 : ℚ) ^ s * (m : ℚ) * (2 : ℚ) ^ e) :
    finalHash (mpf_hash_raw x) = pyHashFloatOfDyadic s m e := by
  rw [finalHash_mpf_hash_raw, mpf_hash_raw_closed x (notSpecialTuple_of_finite hx)]
  unfold pyHashFloatOfDyadic
  rw [pyHashDyadic_closed]
  congr 1
  exact hashTriple_congr sx hs h

example : Finite ⟨1, 3, -1, 2⟩ ∧ val ⟨1, 3, -1, 2⟩ = (-1 : ℚ) ^ 1 * ((6 : Nat) : ℚ) * (2 : ℚ) ^ (-2 : Int) := by
  refine ⟨by decide, ?_⟩
  norm_num [val]

/-- The specification itself is well defined on values: the documented hash of a dyadic rational does
not depend on the representation (in particular not on whether the fraction is in lowest terms). -/
theorem pyHashDyadic_congr (s1 m1 s2 m2 : Nat) (e1 e2 : Int) (h1 : s1 ≤ 1) (h2 : s2 ≤ 1)
    (h : (-1 : ℚ) ^ s1 * (m1 : ℚ) * (2 : ℚ) ^ e1 = (-1 : ℚ) ^ s2 * (m2 : ℚ) * (2 : ℚ) ^ e2) :
    pyHashDyadic s1 m1 e1 = pyHashDyadic s2 m2 e2 := by
  rw [pyHashDyadic_closed, pyHashDyadic_closed, hashTriple_congr h1 h2 h]

/-- The documented hash of the int `n` is the documented hash of the fraction `n/1`. -/
theorem pyHashFraction_one (n : Int) : pyHashFraction n 1 = pyHashInt n := by
  unfold pyHashFraction pyHashInt pyHashNat
  have h1 : ¬ (1 % pyP = 0) := by decide
  simp only [h1, if_false, powMod_one, Nat.mul_one, Nat.mod_mod]

/-! ## mpc — the code in /repo -/

/-- INTENDED statement (FALSE of the code):
    `∀ re im, Finite re → Finite im →
       finalHash (mpc_hash_old re im) =
         pyHashComplex (pyHashDyadic re.sign re.man re.exp) (pyHashDyadic im.sign im.man im.exp)`.
Witness z = -1 + 0i : `hash(mpc(-1,0))` is 7, `hash(complex(-1,0))` is -2. -/
theorem mpc_hash_old_counterexample :
    Finite fnone ∧ Finite fzero ∧
    mpc_hash_old fnone fzero = 18446744073709551615 ∧
    finalHash (mpc_hash_old fnone fzero) = 7 ∧
    pyHashComplex (pyHashDyadic fnone.sign fnone.man fnone.exp)
      (pyHashDyadic fzero.sign fzero.man fzero.exp) = -2 := by decide +kernel

/-- The same defect inside mpmath's own types: `mpf(-1) == mpc(-1,0)` but the hashes are -2 and 7. -/
theorem mpc_hash_old_counterexample_mpf :
    finalHash (mpf_hash_raw fnone) = -2 ∧ finalHash (mpc_hash_old fnone fzero) = 7 := by decide +kernel

/-- Not only negative components: z = 2^44·i has both component hashes ≥ 0 and still
`hash(mpc(0, 2**44)) = 1451337756478275591 ≠ -854505252735418368 = hash(complex(0, 2**44))`
(the combined value 1000003·2^44 has bit 63 set). -/
theorem mpc_hash_old_counterexample_positive :
    finalHash (mpc_hash_old fzero ⟨0, 1, 44, 1⟩) = 1451337756478275591 ∧
    pyHashComplex (pyHashDyadic 0 0 0) (pyHashDyadic 0 1 44) = -854505252735418368 := by decide +kernel

/-- EXACT characterisation, all raw mpf components (finite or special): `hash(mpc)` agrees with the
documented complex hash of the two component hashes if and only if neither component hash returned
by `mpf_hash_raw` is -1 and the value returned by `mpc_hash_old` is below 2^63. -/
theorem mpc_hash_old_spec_iff (re im : Mpf) :
    finalHash (mpc_hash_old re im) = pyHashComplex (finalHash (mpf_hash_raw re)) (finalHash (mpf_hash_raw im)) ↔
      (mpf_hash_raw re ≠ -1 ∧ mpf_hash_raw im ≠ -1 ∧ mpc_hash_old re im < 2 ^ 63) := by
  rw [finalHash_mpf_hash_raw, finalHash_mpf_hash_raw]
  have h := mpc_core_iff (mpf_hash_raw re) (mpf_hash_raw im) (mpf_hash_raw_range re) (mpf_hash_raw_range im)
  unfold mpc_hash_old
  simp only [HASH_IMAG, HASH_WIDTH]
  norm_num
  exact h

/-- The part of the intended statement that holds, under the exact side condition of `mpc_hash_old_spec_iff`. -/
theorem mpc_hash_old_spec_partial (re im : Mpf) (hre : Finite re) (him : Finite im)
    (h1 : mpf_hash_raw re ≠ -1) (h2 : mpf_hash_raw im ≠ -1) (h3 : mpc_hash_old re im < 2 ^ 63) :
    finalHash (mpc_hash_old re im) =
      pyHashComplex (pyHashDyadic re.sign re.man re.exp) (pyHashDyadic im.sign im.man im.exp) := by
  rw [← (mpf_hash_raw_spec re hre).1, ← (mpf_hash_raw_spec im him).1]
  exact (mpc_hash_old_spec_iff re im).mpr ⟨h1, h2, h3⟩

example : Finite ⟨0, 3, -2, 2⟩ ∧ Finite ⟨0, 5, 7, 3⟩ ∧ mpf_hash_raw ⟨0, 3, -2, 2⟩ ≠ -1 ∧
    mpf_hash_raw ⟨0, 5, 7, 3⟩ ≠ -1 ∧ mpc_hash_old ⟨0, 3, -2, 2⟩ ⟨0, 5, 7, 3⟩ < 2 ^ 63 := by decide +kernel

/-- mpc against mpc is fine on the current code: equal component values give equal returned hashes. -/
theorem mpc_hash_old_eq_of_val_eq (re im re' im' : Mpf)
    (h1 : Finite re) (h2 : Finite im) (h3 : Finite re') (h4 : Finite im')
    (s1 : re.sign ≤ 1) (s2 : im.sign ≤ 1) (s3 : re'.sign ≤ 1) (s4 : im'.sign ≤ 1)
    (hr : val re = val re') (hi : val im = val im') : mpc_hash_old re im = mpc_hash_old re' im' := by
  unfold mpc_hash_old
  rw [mpf_hash_raw_eq_of_val_eq re re' h1 h3 s1 s3 hr, mpf_hash_raw_eq_of_val_eq im im' h2 h4 s2 s4 hi]

/-! ## mpc — the proposed repair -/

/-- Unconditional, all raw components: the repaired `mpc_hash_old` through `hash()` is the documented complex
hash of the (post-processed) component hashes. -/
theorem mpc_hash_spec (re im : Mpf) :
    finalHash (mpc_hash re im) =
      pyHashComplex (finalHash (mpf_hash_raw re)) (finalHash (mpf_hash_raw im)) ∧
    mpc_hash re im = finalHash (mpc_hash re im) := by
  rw [mpc_hash_eq, finalHash_pyHashComplex, finalHash_mpf_hash_raw, finalHash_mpf_hash_raw]
  exact ⟨rfl, rfl⟩

/-- mpc == complex ⇒ equal hashes, for the repaired function: if the components have the values of the
floats `(-1)^s1·m1·2^e1` and `(-1)^s2·m2·2^e2` then `hash(mpc) = hash(complex)`. -/
theorem mpc_hash_eq_complex (re im : Mpf) (hre : Finite re) (him : Finite im)
    (sr : re.sign ≤ 1) (si : im.sign ≤ 1) (s1 m1 s2 m2 : Nat) (e1 e2 : Int) (hs1 : s1 ≤ 1) (hs2 : s2 ≤ 1)
    (hr : val re = (-1 : ℚ) ^ s1 * (m1 : ℚ) * (2 : ℚ) ^ e1)
    (hi : val im = (-1 : ℚ) ^ s2 * (m2 : ℚ) * (2 : ℚ) ^ e2) :
    finalHash (mpc_hash re im) =
      pyHashComplex (pyHashFloatOfDyadic s1 m1 e1) (pyHashFloatOfDyadic s2 m2 e2) := by
  rw [(mpc_hash_spec re im).1, mpf_hash_raw_eq_float re hre sr s1 m1 e1 hs1 hr,
    mpf_hash_raw_eq_float im him si s2 m2 e2 hs2 hi]

example : Finite fnone ∧ Finite ⟨1, 3, -1, 2⟩ ∧
    val fnone = (-1 : ℚ) ^ 1 * ((1 : Nat) : ℚ) * (2 : ℚ) ^ (0 : Int) ∧
    val ⟨1, 3, -1, 2⟩ = (-1 : ℚ) ^ 1 * ((3 : Nat) : ℚ) * (2 : ℚ) ^ (-1 : Int) := by
  refine ⟨by decide, by decide, ?_, ?_⟩ <;> norm_num [val, fnone]

/-- mpc(x, 0) == x ⇒ equal hashes, for the repaired function (x mpf; with `mpf_hash_raw_eq_int` /
`mpf_hash_raw_eq_float` also x int or float): a zero imaginary part does not change the hash. -/
theorem mpc_hash_real (re im : Mpf) (him : Finite im) (hz : val im = 0) (si : im.sign ≤ 1) :
    finalHash (mpc_hash re im) = finalHash (mpf_hash_raw re) := by
  have h0 : mpf_hash_raw im = 0 := by
    have := mpf_hash_raw_eq_of_val_eq im fzero him (by decide) si (by decide) (by rw [hz]; simp [val, fzero])
    rw [this]; decide
  rw [(mpc_hash_spec re im).1, finalHash_mpf_hash_raw, finalHash_mpf_hash_raw, h0]
  have hr := mpf_hash_raw_range re
  have hf := fixM1_cases (mpf_hash_raw re)
  have : fixM1 0 = 0 := by decide
  rw [this, pyHashComplex_zero _ (by omega) (by omega), fixM1_idem]

example : Finite fnzero ∧ val fnzero = 0 ∧ fnzero.sign ≤ 1 := by
  refine ⟨by decide, ?_, by decide⟩
  norm_num [val, fnzero]

/-- The repaired functions send the three witnesses where they belong. -/
theorem mpc_hash_witnesses :
    finalHash (mpc_hash fnone fzero) = -2 ∧
    finalHash (mpc_hash fzero ⟨0, 1, 44, 1⟩) = -854505252735418368 ∧
    finalHash (mpc_hash fnone fone) = pyHashComplex (-2) 1 := by decide +kernel

/-! ## mpq -/

/-- `mpq.__hash__` agrees with the documented `hash_fraction` for every power-of-two denominator
(these are the only mpq values that can be equal to an mpf, int or float). -/
theorem mpq_hash_dyadic (a : Int) (k : Nat) : mpq_hash a (2 ^ k) = pyHashFraction a (2 ^ k) :=
  mpq_hash_two_pow a k

end Mp
