/-
  Props/C15div.lean — C15, division of complex intervals (rectangles).

  `mpci_div Z W` encloses `|w|² = u² + v²` (two interval squares, one interval sum at prec+20), the two numerators
  `x u + y v`, `y u − x v` (exact interval products, one sum/difference at prec+20) and divides.  Whenever the enclosure of
  `|w|²` is strictly positive (the divisor rectangle stays away from the origin), the result is a well-formed rectangle
  containing `z / w` for EVERY `z ∈ Z`, `w ∈ W`: endpoints of any bit length, every precision ≥ 1.
  Composition of the real-interval containment theorems (C14: mul, square, add, sub, div — all sign cases).
-/
import Props.C15
import MpProofs.IntervalMore
import MpProofs.IntervalDiv

namespace Mp

/-- the enclosure of `|w|²` used by `mpci_div` -/
def cdivDen (W : Mpci) (prec : ℤ) : Mpi := mpi_add (mpi_square W.1) (mpi_square W.2) (prec + 20)

theorem C15_div {Z W : Mpci} (hZ : FinCi Z) (hW : FinCi W) {prec : ℤ} (hp : 0 < prec)
    (hden : 0 < val (cdivDen W prec).1) {x y u v : ℚ} (hz : MemCi x y Z) (hw : MemCi u v W) :
    ∃ r, mpci_div Z W prec = .ok r ∧ FinCi r ∧
      MemCi ((x * u + y * v) / (u * u + v * v)) ((y * u - x * v) / (u * u + v * v)) r := by
  have hp20 : (0 : ℤ) ≤ prec + 20 := by omega
  obtain ⟨fs1, ms1⟩ := mpi_square_sound hW.1 (le_refl 0) hw.1
  obtain ⟨fs2, ms2⟩ := mpi_square_sound hW.2 (le_refl 0) hw.2
  obtain ⟨fm, mm⟩ := mpi_add_sound fs1 fs2 hp20 ms1 ms2
  obtain ⟨f1, p1⟩ := mpi_mul_sound hZ.1 hW.1 (le_refl 0) hz.1 hw.1
  obtain ⟨f2, p2⟩ := mpi_mul_sound hZ.2 hW.2 (le_refl 0) hz.2 hw.2
  obtain ⟨f3, p3⟩ := mpi_mul_sound hZ.2 hW.1 (le_refl 0) hz.2 hw.1
  obtain ⟨f4, p4⟩ := mpi_mul_sound hZ.1 hW.2 (le_refl 0) hz.1 hw.2
  obtain ⟨fre, mre⟩ := mpi_add_sound f1 f2 hp20 p1 p2
  obtain ⟨fim, mim⟩ := mpi_sub_sound f3 f4 hp20 p3 p4
  obtain ⟨r1, e1, g1, q1⟩ := mpi_div_pos_sound fre fm hden hp mre mm
  obtain ⟨r2, e2, g2, q2⟩ := mpi_div_pos_sound fim fm hden hp mim mm
  refine ⟨(r1, r2), ?_, ⟨g1, g2⟩, q1, q2⟩
  unfold mpci_div
  simp only [e1, e2]
  rfl

/-! non-vacuity: for W = [1,2] + i[0,1] the enclosure of |w|² is [1, 5] -/
example : cdivDen ((fone, ftwo), (fzero, fone)) 53 = (fone, ⟨0, 5, 0, 3⟩) := by decide
example : (0 : ℚ) < val (cdivDen ((fone, ftwo), (fzero, fone)) 53).1 := by
  have : cdivDen ((fone, ftwo), (fzero, fone)) 53 = (fone, ⟨0, 5, 0, 3⟩) := by decide
  rw [this]; simp [val, fone]

end Mp
