/-
  Props/C16.lean — C16: interval comparisons are sound AND complete three-valued predicates
  (finite endpoints of any length).
-/
import MpProofs.IntervalSound

namespace Mp

/-- `<` : True iff it holds for every pair of members, False iff it fails for every pair (hence None
exactly when neither). -/
theorem C16_lt {s t : Mpi} (hs : FinIv s) (ht : FinIv t) :
    (mpi_lt s t = some true ↔ ∀ x y, MemIv x s → MemIv y t → x < y) ∧
    (mpi_lt s t = some false ↔ ∀ x y, MemIv x s → MemIv y t → ¬ x < y) := mpi_lt_spec hs ht

theorem C16_le {s t : Mpi} (hs : FinIv s) (ht : FinIv t) :
    (mpi_le s t = some true ↔ ∀ x y, MemIv x s → MemIv y t → x ≤ y) ∧
    (mpi_le s t = some false ↔ ∀ x y, MemIv x s → MemIv y t → ¬ x ≤ y) := mpi_le_spec hs ht

/-- `>` and `>=` are the mirrored predicates (definitionally, as in the code) -/
theorem C16_gt_ge (s t : Mpi) : mpi_gt s t = mpi_lt t s ∧ mpi_ge s t = mpi_le t s := ⟨rfl, rfl⟩

/-- `==` compares the endpoints exactly -/
theorem C16_eq {s t : Mpi} (hs : FinIv s) (ht : FinIv t) :
    mpi_eq s t = true ↔ val s.1 = val t.1 ∧ val s.2 = val t.2 := mpi_eq_spec hs ht

theorem C16_ne (s t : Mpi) : mpi_ne s t = !mpi_eq s t := rfl

/-- `t in s` (interval operands): True exactly when `t` lies inside `s` -/
theorem C16_contains {s t : Mpi} (hs : FinIv s) (ht : FinIv t) :
    ivmpf_contains_iv s t = true ↔ (val s.1 ≤ val t.1 ∧ val t.2 ≤ val s.2) := by
  rw [ivmpf_contains_iv_iff, mpf_le_spec hs.1 ht.1, mpf_le_spec ht.2.1 hs.2.1]
  simp

end Mp
