/-
  Props/C02sqrt.lean — C02, square root: `mpf_sqrt` returns THE correctly rounded value of the real square root.

  For every finite canonical nonnegative argument (mantissa of any length, any exponent), every precision ≥ 1 and each
  of the five modes the result is canonical, has at most `prec` mantissa bits, and is the rounding (`IsRound`, the same
  relational specification as for + - * /, instantiated over ℝ) of `Real.sqrt` of the argument's value.  Proof: the
  integer square root of the shifted mantissa brackets the real root in a unit cell (`nat_sqrt_bounds`); for the modes
  that round down in magnitude the truncated root rounds like the real one (`normalize_round_down`); for the other modes the
  code replaces a non-zero remainder by one sticky bit, and the sticky principle (`cellLike_of_cell`) shows that the real root
  rounds like that stand-in.  A negative argument raises.
-/
import MpProofs.Sqrt

namespace Mp

theorem C02_sqrt {s : Mpf} (hs : CanonFin s) (hsign : s.sign = 0) {prec : ℤ} (hp : 0 < prec) (rnd : Rnd) :
    ∃ r, mpf_sqrt s prec rnd = .ok r ∧ CanonFin r ∧ r.bc ≤ prec ∧
      IsRound prec.toNat rnd (Real.sqrt (valK ℝ s)) (valK ℝ r) := mpf_sqrt_spec hs hsign hp rnd

theorem C02_sqrt_negative {s : Mpf} (h : s.sign ≠ 0) (prec : ℤ) (rnd : Rnd) :
    mpf_sqrt s prec rnd = .error .complexResult := mpf_sqrt_negative h prec rnd

/-- the rounding of a given real number is unique (so `C02_sqrt` determines the result's value) -/
theorem C02_sqrt_unique {p : ℕ} {rnd : Rnd} {x y y' : ℝ} (h : IsRound p rnd x y) (h' : IsRound p rnd x y') : y = y' :=
  isRound_unique h h'

example : CanonFin ⟨0, 3, -1, 2⟩ ∧ (⟨0, 3, -1, 2⟩ : Mpf).sign = 0 := by decide
example : mpf_sqrt ⟨0, 1, 2, 1⟩ 53 .n = .ok ⟨0, 1, 1, 1⟩ := by decide            -- sqrt 4 = 2

end Mp
