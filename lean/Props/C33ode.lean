/-
  Props/C33ode.lean — C33 for the segment cache of `odefun` (`series_boundaries` / `series_data`,
  mpmath/calculus/odes.py:244-267; model MpModel/OdeSeg.lean).

  Setting of every theorem: `step` is what `ode_taylor` computes from the last cached segment (new
  coefficients, new right boundary; `none` = it raises); `Incr step`: every step moves the boundary
  strictly to the right; `seg0 = (ser, x0, xb)` is the segment computed by `odefun` itself, with
  `x0 < xb`.  A history is ANY list of calls `f(x)` (`Req`: any abscissa in any order, repeated,
  `x < x0`, any loop fuel, and any call aborted by a transient exception raised at the `j`-th
  `ode_taylor` call of that request).  `canon step seg0 k` is the `k`-th segment of the sequence
  `seg0, next seg0, next (next seg0), …` that a single uninterrupted extension would produce.
-/
import MpProofs.OdeSeg

namespace Mp
open Mp.OdeSeg

/-- (a) History independence of the cache contents.  After every history the cache is non-empty,
its `k`-th segment is the `k`-th canonical segment, `series_boundaries` is `x0` followed by the right
end points of the cached segments (so `len(series_boundaries) = len(series_data)+1`), and it is
strictly increasing. -/
theorem odeSeg_cache_canonical {σ : Type} (step : Seg σ → Option (σ × Int)) (hinc : Incr step)
    (x0 : Int) (seg0 : Seg σ) (h0 : seg0.xa = x0) (h1 : x0 < seg0.xb) (h : List Req) :
    (after step x0 (init x0 seg0) h).data ≠ [] ∧
    (∀ k, k < (after step x0 (init x0 seg0) h).data.length →
      (after step x0 (init x0 seg0) h).data[k]? = canon step seg0 k) ∧
    (after step x0 (init x0 seg0) h).bounds =
      x0 :: (after step x0 (init x0 seg0) h).data.map (·.xb) ∧
    (after step x0 (init x0 seg0) h).bounds.Pairwise (· < ·) := by
  have hi := inv_after hinc h0 h1 h _ (inv_init (step := step) x0 seg0)
  exact ⟨hi.ne, hi.seq, hi.bounds, sortedLt_pairwise (hi.sorted hinc h0 h1)⟩

/-- (a, two histories) The caches left by any two histories agree as far as both go: the shorter
one is an initial piece of the longer one, boundaries and segments alike. -/
theorem odeSeg_cache_history_independent {σ : Type} (step : Seg σ → Option (σ × Int))
    (hinc : Incr step) (x0 : Int) (seg0 : Seg σ) (h0 : seg0.xa = x0) (h1 : x0 < seg0.xb)
    (hA hB : List Req)
    (hle : (after step x0 (init x0 seg0) hA).data.length ≤ (after step x0 (init x0 seg0) hB).data.length) :
    (after step x0 (init x0 seg0) hA).data =
      (after step x0 (init x0 seg0) hB).data.take (after step x0 (init x0 seg0) hA).data.length ∧
    (after step x0 (init x0 seg0) hA).bounds =
      (after step x0 (init x0 seg0) hB).bounds.take (after step x0 (init x0 seg0) hA).bounds.length :=
  inv_prefix (inv_after hinc h0 h1 hA _ (inv_init x0 seg0)) (inv_after hinc h0 h1 hB _ (inv_init x0 seg0)) hle

/-- (b) The segment used for `x` after any history is a canonical segment `[xa, xb]` with
`xa ≤ x ≤ xb`.  Either it is served from the cache — then the cache is unchanged and `xa ≤ x < xb` —
or it was appended by this very call, it is the last cached segment, and it is the first new one
with `x ≤ xb` (`xa < x`, or it is the first appended segment).  `get_series` never fails with an
IndexError, and raises ValueError exactly for `x < x0`. -/
theorem odeSeg_segment_valid {σ : Type} (step : Seg σ → Option (σ × Int)) (hinc : Incr step)
    (x0 : Int) (seg0 : Seg σ) (h0 : seg0.xa = x0) (h1 : x0 < seg0.xb) (h : List Req)
    (fuel : Nat) (fault : Option Nat) (x : Int) :
    let s := after step x0 (init x0 seg0) h
    let r := getSeries step x0 fuel fault s x
    r.2 ≠ .indexError ∧ (r.2 = .valueError ↔ x < x0) ∧
    ∀ sg, r.2 = .seg sg →
      ∃ k, canon step seg0 k = some sg ∧ sg.xa ≤ x ∧ x ≤ sg.xb ∧
        (r.1 = s ∧ k < s.data.length ∧ x < sg.xb ∨
         s.data.length ≤ k ∧ r.1.data.length = k + 1 ∧ r.1.data.getLast? = some sg ∧
           (sg.xa < x ∨ k = s.data.length)) := by
  intro s r
  have hi := inv_after hinc h0 h1 h _ (inv_init (step := step) x0 seg0)
  obtain ⟨_, _, e3, e4, e5⟩ := getSeries_spec hinc h0 h1 hi fuel fault x
  exact ⟨e3, e4, e5⟩

/-- (b, two histories) The segment used for `x` depends on the history at most at a boundary point:
the segments selected after two arbitrary histories are the same, or `x` is the common end point
of the two (then both are valid expansions at `x`). -/
theorem odeSeg_segment_history_independent {σ : Type} (step : Seg σ → Option (σ × Int))
    (hinc : Incr step) (x0 : Int) (seg0 : Seg σ) (h0 : seg0.xa = x0) (h1 : x0 < seg0.xb)
    (hA hB : List Req) (fuelA fuelB : Nat) (faultA faultB : Option Nat) (x : Int) (sgA sgB : Seg σ)
    (hsA : (getSeries step x0 fuelA faultA (after step x0 (init x0 seg0) hA) x).2 = .seg sgA)
    (hsB : (getSeries step x0 fuelB faultB (after step x0 (init x0 seg0) hB) x).2 = .seg sgB) :
    sgA = sgB ∨ (sgA.xb = x ∧ sgB.xa = x) ∨ (sgB.xb = x ∧ sgA.xa = x) := by
  obtain ⟨_, _, hA'⟩ := odeSeg_segment_valid step hinc x0 seg0 h0 h1 hA fuelA faultA x
  obtain ⟨_, _, hB'⟩ := odeSeg_segment_valid step hinc x0 seg0 h0 h1 hB fuelB faultB x
  obtain ⟨j, a1, a2, a3, _⟩ := hA' sgA hsA
  obtain ⟨k, b1, b2, b3, _⟩ := hB' sgB hsB
  exact canon_unique hinc a1 b1 a2 a3 b2 b3

/-- (b, total) When `ode_taylor` never raises, a call `f(x)`, `x ≥ x0`, that is not aborted returns
a segment after any history; the loop fuel `fuelFor` (distance to the last boundary) suffices. -/
theorem odeSeg_answers {σ : Type} (step : Seg σ → Option (σ × Int)) (hinc : Incr step)
    (htot : ∀ s, step s ≠ none) (x0 : Int) (seg0 : Seg σ) (h0 : seg0.xa = x0) (h1 : x0 < seg0.xb)
    (h : List Req) (x : Int) (hx : x0 ≤ x) :
    ∃ sg, (getSeries step x0 (fuelFor (after step x0 (init x0 seg0) h) x) none
      (after step x0 (init x0 seg0) h) x).2 = .seg sg :=
  getSeries_answers hinc htot h0 h1 (inv_after hinc h0 h1 h _ (inv_init x0 seg0)) hx

/-- (c) `f(x0)` is evaluated from the FIRST segment whatever happened before, and leaves the cache
untouched. -/
theorem odeSeg_x0_first_segment {σ : Type} (step : Seg σ → Option (σ × Int)) (hinc : Incr step)
    (x0 : Int) (seg0 : Seg σ) (h0 : seg0.xa = x0) (h1 : x0 < seg0.xb) (h : List Req)
    (fuel : Nat) (fault : Option Nat) :
    getSeries step x0 fuel fault (after step x0 (init x0 seg0) h) x0 =
      (after step x0 (init x0 seg0) h, .seg seg0) :=
  getSeries_x0 hinc h0 h1 (inv_after hinc h0 h1 h _ (inv_init x0 seg0)) fuel fault

/-- (c, mutant) With `bisect_left` instead of `bisect` (`getSeriesLeft`) statement (c) is false:
for unit steps from `x0 = 0`, after the single call `f(3)` the lookup of `x0` gives
`n = 0`, `series_data[-1]`: the LAST segment `[2,3]` instead of the first one `[0,1]`. -/
theorem odeSeg_bisect_left_counterexample :
    ∃ (step : Seg Nat → Option (Nat × Int)) (x0 : Int) (seg0 : Seg Nat) (h : List Req) (fuel : Nat),
      Incr step ∧ seg0.xa = x0 ∧ x0 < seg0.xb ∧
      (getSeriesLeft step x0 fuel none (afterLeft step x0 (init x0 seg0) h) x0).2 = .seg ⟨2, 2, 3⟩ ∧
      (getSeriesLeft step x0 fuel none (afterLeft step x0 (init x0 seg0) h) x0).2 ≠ .seg seg0 ∧
      (getSeries step x0 fuel none (after step x0 (init x0 seg0) h) x0).2 = .seg seg0 := by
  refine ⟨fun s => some (s.ser + 1, s.xb + 1), 0, ⟨0, 0, 1⟩, [⟨3, none, 10⟩], 0, ?_, rfl, by decide,
    by decide, by decide, by decide⟩
  intro s ser xb hs
  simp only [Option.some.injEq, Prod.mk.injEq] at hs
  omega

/-- (d) A call aborted by an exception (at any `ode_taylor` call `j`, deterministic or transient)
leaves a cache that satisfies (a), that extends the previous cache only at its end, and in which
boundaries and segments were appended together.  If the very first `ode_taylor` call of the request
is the one that raises (`j = 0`), the cache is unchanged. -/
theorem odeSeg_abort_safe {σ : Type} (step : Seg σ → Option (σ × Int)) (hinc : Incr step)
    (x0 : Int) (seg0 : Seg σ) (h0 : seg0.xa = x0) (h1 : x0 < seg0.xb) (h : List Req)
    (fuel : Nat) (fault : Option Nat) (x : Int) :
    let s := after step x0 (init x0 seg0) h
    let r := getSeries step x0 fuel fault s x
    r.2 = .raised →
      Inv step x0 seg0 r.1 ∧ (∃ l, r.1.data = s.data ++ l) ∧
      r.1.bounds.length = r.1.data.length + 1 ∧ (fault = some 0 → r.1 = s) := by
  intro s r _
  have hi := inv_after hinc h0 h1 h _ (inv_init (step := step) x0 seg0)
  obtain ⟨e1, e2, _⟩ := getSeries_spec hinc h0 h1 hi fuel fault x
  refine ⟨e1, e2, e1.len_bounds, ?_⟩
  intro hf
  show (getSeries step x0 fuel fault s x).1 = s
  unfold getSeries
  split
  · rfl
  · simp only []
    split
    · split <;> rfl
    · cases fuel with
      | zero => simp [extend]
      | succ f =>
        simp only [extend]
        split
        · rfl
        · simp [hf]

/-- (d, outside the quantifier) The two `append`s are separate statements.  No call — hence no
exception of the program — can occur between them; an asynchronous interrupt exactly there
(`series_boundaries` one longer than `series_data` + 1) does break the cache: from the state
`boundaries = [0,1,2]`, `data = [(·,0,1)]` the call `f(1)` raises IndexError, and `f(2)` appends the
boundary `2` a second time. -/
theorem odeSeg_async_counterexample :
    let step : Seg Nat → Option (Nat × Int) := fun s => some (s.ser + 1, s.xb + 1)
    let broken : State Nat := ⟨(init 0 ⟨0, 0, 1⟩).bounds ++ [2], (init 0 ⟨0, 0, 1⟩).data⟩
    (getSeries step 0 5 none broken 1).2 = .indexError ∧
    (getSeries step 0 5 none broken 2).1.bounds = [0, 1, 2, 2] := by
  decide

/-! Non-vacuity: the hypotheses are satisfiable, and a concrete history exercises every branch
(cached, extension by several segments, `x = x0`, a boundary point, an aborted call, `x < x0`). -/
example : Incr (fun s : Seg Nat => some (s.ser + 1, s.xb + 5)) := by
  intro s ser xb hs
  simp only [Option.some.injEq, Prod.mk.injEq] at hs
  omega

example :
    let step : Seg Nat → Option (Nat × Int) := fun s => some (s.ser + 1, s.xb + 5)
    let s := after step 0 (init 0 ⟨0, 0, 5⟩) [⟨17, none, 9⟩, ⟨0, none, 0⟩, ⟨33, some 1, 9⟩, ⟨-2, none, 9⟩]
    s.bounds = [0, 5, 10, 15, 20, 25] ∧
    (getSeries step 0 9 none s 15).2 = .seg ⟨3, 15, 20⟩ ∧
    (getSeries step 0 9 none s 27).2 = .seg ⟨5, 25, 30⟩ ∧
    (getSeries step 0 9 none s 30).2 = .seg ⟨5, 25, 30⟩ ∧
    (getSeries step 0 9 none (getSeries step 0 9 none s 27).1 30).2 = .seg ⟨6, 30, 35⟩ ∧
    (getSeries step 0 9 (some 0) s 27) = (s, .raised) ∧
    (getSeries step 0 9 none s (-1)).2 = .valueError := by
  decide

end Mp
