/-
  Props/C38.lean — "Contexts are isolated from each other".

  World model: MpModel/World.lean (context id = position in `cells`; `caches` = the module-level
  state shared by all contexts).  The statements below are about that model; that the RUNNING
  objects have the aliasing structure of the model (one `_prec_rounding` list, one `mpf`/`mpc`/
  `constant` class and `_ctxdata` per context, none shared) is read off the live objects and the
  model's prediction of every context's settings is compared after every statement of random
  interleavings by harness/props/C38.py.

    frame                      a statement executed on context `i` leaves every field of every
                               other existing context unchanged
    frame_program              the same for whole programs
    clone_frame / eval_frame   `clone` and evaluations write no existing cell at all
    only_eval_writes_caches    settings never touch the shared caches
    clone_fresh                the clone is a new id; writing it never writes the parent, and back
    clone_same_prec            the clone has the parent's precision (and default rounding)
    clone_same_value           hence equal values, provided the shared caches are precision-correct
                               (C33) and the parent's rounding is the default
    eval_reads_own_cell        the value computed in context `i` is a function of cell `i` alone
                               (and of the shared caches), whatever the other cells contain
-/
import MpProofs.World
import Props.C33

namespace Mp
open Mp.World

variable {C F X V : Type}

/-- **Frame.**  A statement executed on context `op.target` leaves every field (precision, dps,
rounding, trap_complex, pretty) of every OTHER existing context `j` unchanged. -/
theorem frame (S : Sem C F X V) (w : World C) (op : Op F X) (j : Nat) (c : Cell)
    (hj : j ≠ op.target) (hc : w.cells[j]? = some c) : (step S w op).1.cells[j]? = some c :=
  step_cells_ne S w op j c hj hc

/-- Frame for whole programs: if no statement of `ops` is executed on `j`, cell `j` is unchanged. -/
theorem frame_program (S : Sem C F X V) (w : World C) (ops : List (Op F X)) (j : Nat) (c : Cell)
    (hj : ∀ op ∈ ops, j ≠ op.target) (hc : w.cells[j]? = some c) :
    (runOps S w ops).cells[j]? = some c :=
  runOps_cells_ne S ops w j c hj hc

/-- `ctx.clone()` changes no existing context — not even `ctx` itself. -/
theorem clone_frame (S : Sem C F X V) (w : World C) (i j : Nat) (c : Cell)
    (hc : w.cells[j]? = some c) : (step S w (.clone i : Op F X)).1.cells[j]? = some c :=
  step_clone_cells S w i j c hc

/-- A computation changes no context's settings (it may only write the shared caches). -/
theorem eval_frame (S : Sem C F X V) (w : World C) (i : Nat) (f : F) (x : X) :
    (step S w (.eval i f x)).1.cells = w.cells :=
  step_eval_cells S w i f x

/-- Changing settings never writes the shared caches. -/
theorem only_eval_writes_caches (S : Sem C F X V) (w : World C) (op : Op F X)
    (h : ∀ i f x, op ≠ .eval i f x) : (step S w op).1.caches = w.caches :=
  step_caches S w op h

/-- The value computed in context `i` depends on cell `i` and the shared caches only: two worlds
that agree on cell `i` and on the caches compute the same value and the same new caches, whatever
their other contexts look like. -/
theorem eval_reads_own_cell (S : Sem C F X V) (w w' : World C) (i : Nat) (f : F) (x : X)
    (hcell : w.cells[i]? = w'.cells[i]?) (hcache : w.caches = w'.caches) :
    (step S w (.eval i f x)).2 = (step S w' (.eval i f x)).2 ∧
    (step S w (.eval i f x)).1.caches = (step S w' (.eval i f x)).1.caches := by
  simp only [step, ← hcell]
  split
  · exact ⟨rfl, hcache⟩
  · rw [hcache]; exact ⟨rfl, rfl⟩

/-- **clone_fresh.**  Cloning an mp context `i` returns an id that did not exist before, holding a
fresh `MPContext` cell set to the parent's precision. -/
theorem clone_fresh (S : Sem C F X V) (w : World C) (i : Nat) (c : Cell)
    (hc : w.cells[i]? = some c) (hk : c.kind = .mp) :
    (step S w (.clone i : Op F X)).2 = (.created w.cells.length : Outcome V) ∧
    w.cells[w.cells.length]? = none ∧ w.cells.length ≠ i ∧
    (step S w (.clone i : Op F X)).1.cells[w.cells.length]? = some c.cloneOf := by
  have hlt : i < w.cells.length := by
    rcases Nat.lt_or_ge i w.cells.length with h | h
    · exact h
    · rw [List.getElem?_eq_none h] at hc; cases hc
  refine ⟨?_, by simp, by omega, ?_⟩
  · simp only [step, hc, hk]
  · simp only [step, hc, hk]
    simp

/-- The clone's cell is not aliased to the parent's: after cloning `i` into `k`, no program executed
on `k` (precision, dps, rounding, trap_complex, pretty changes, computations, further clones of `k`)
changes the parent's cell, and no program executed on the parent changes the clone's. -/
theorem clone_not_aliased (S : Sem C F X V) (w : World C) (i : Nat) (c : Cell)
    (hc : w.cells[i]? = some c) (hk : c.kind = .mp) (ops : List (Op F X)) :
    let k := w.cells.length
    let w1 := (step S w (.clone i : Op F X)).1
    ((∀ op ∈ ops, op.target = k) → (runOps S w1 ops).cells[i]? = some c) ∧
    ((∀ op ∈ ops, op.target = i) → (runOps S w1 ops).cells[k]? = some c.cloneOf) := by
  intro k w1
  obtain ⟨_, _, hne, hnew⟩ := clone_fresh S w i c hc hk
  constructor
  · intro h
    exact frame_program S w1 ops i c (fun op ho => by rw [h op ho]; exact Ne.symm hne)
      (clone_frame S w i i c hc)
  · intro h
    exact frame_program S w1 ops k _ (fun op ho => by rw [h op ho]; exact hne) hnew

/-- Every world reachable from the initial one stores precisions `≥ 1` only. -/
theorem reachable_prec_pos (S : Sem C F X V) (c0 : C) (ops : List (Op F X)) (c : Cell)
    (h : c ∈ (runOps S (init c0) ops).cells) : 1 ≤ c.prec :=
  runOps_precPos S ops _ (init_precPos c0) c h

/-- `clone()` yields the parent's precision with DEFAULT rounding (round-to-nearest), trap_complex
and pretty off; the parent's `dps` is recomputed from the precision, not copied. -/
theorem clone_same_prec (c : Cell) (h : 1 ≤ c.prec) :
    c.cloneOf.kind = .mp ∧ c.cloneOf.prec = c.prec ∧ c.cloneOf.rounding = .n ∧
    c.cloneOf.trap = false ∧ c.cloneOf.pretty = false ∧ c.cloneOf.dps = precToDps c.prec :=
  ⟨cloneOf_kind c, cloneOf_prec c h, cloneOf_rounding c, by simp [Cell.cloneOf, Cell.setPrec, freshMp],
   by simp [Cell.cloneOf, Cell.setPrec, freshMp], by simp [Cell.cloneOf, Cell.setPrec, freshMp]⟩

/-- "The shared caches are precision-correct": on the cache states `I` that can arise, every call
returns the history-independent value `spec …` and leaves a state in `I`.  This is what the refinement
theorems of Props/C33.lean establish cache by cache (`constantMemo_refines`, `logInt_refines` /
`logInt_history_independent`, `exactCache_refines`, `logTaylor_refines`, `bernoulli_refines_partial`);
`constSem_precisionCorrect` below instantiates it from `constantMemo_refines`. -/
structure CachesPrecisionCorrect (S : Sem C F X V) (I : C → Prop)
    (spec : Kind → F → Int → Rnd → X → V) : Prop where
  preserved : ∀ k c f p r x, I c → I (S.run k c f p r x).1
  correct : ∀ k c f p r x, I c → (S.run k c f p r x).2 = spec k f p r x

/-- the invariant on caches survives every program -/
theorem caches_inv_program (S : Sem C F X V) (I : C → Prop) (spec : Kind → F → Int → Rnd → X → V)
    (hS : CachesPrecisionCorrect S I spec) (ops : List (Op F X)) (w : World C) (hI : I w.caches) :
    I (runOps S w ops).caches := by
  induction ops generalizing w with
  | nil => exact hI
  | cons op ops ih =>
    apply ih
    cases op
    case eval i f x =>
      simp only [step]
      split
      · exact hI
      · exact hS.preserved _ _ _ _ _ _ hI
    all_goals
      rw [only_eval_writes_caches S w _ (by intro i f x h; cases h)]
      exact hI

/-- **clone_same_value.**  Clone an mp context `i` whose rounding is the default; then run ANY
program that does not change the settings of `i` or of the clone (computations in them, and
arbitrary statements on all other contexts, are allowed — they do write the shared caches).
Afterwards the same call returns the same value in the clone and in the parent — provided the
shared caches are precision-correct (C33). -/
theorem clone_same_value (S : Sem C F X V) (I : C → Prop) (spec : Kind → F → Int → Rnd → X → V)
    (hS : CachesPrecisionCorrect S I spec) (w : World C) (hI : I w.caches) (i : Nat) (c : Cell)
    (hc : w.cells[i]? = some c) (hk : c.kind = .mp) (hr : c.rounding = .n) (hp : 1 ≤ c.prec)
    (ops : List (Op F X))
    (hops : ∀ op ∈ ops, (op.target ≠ i ∧ op.target ≠ w.cells.length) ∨ ∃ j f x, op = .eval j f x)
    (f : F) (x : X) :
    let w2 := runOps S (step S w (.clone i : Op F X)).1 ops
    (step S w2 (.eval w.cells.length f x)).2 = (step S w2 (.eval i f x)).2 ∧
    (step S w2 (.eval i f x)).2 = .value (spec .mp f c.prec .n x) := by
  intro w2
  obtain ⟨_, _, hne, hnew⟩ := clone_fresh S w i c hc hk
  -- cells i and k are unchanged by `ops`
  have key : ∀ (ops : List (Op F X)) (w1 : World C),
      (∀ op ∈ ops, (op.target ≠ i ∧ op.target ≠ w.cells.length) ∨ ∃ j f x, op = .eval j f x) →
      w1.cells[i]? = some c → w1.cells[w.cells.length]? = some c.cloneOf →
      (runOps S w1 ops).cells[i]? = some c ∧ (runOps S w1 ops).cells[w.cells.length]? = some c.cloneOf := by
    intro ops
    induction ops with
    | nil => intro w1 _ h1 h2; exact ⟨h1, h2⟩
    | cons op ops ih =>
      intro w1 h h1 h2
      simp only [runOps]
      apply ih
      · intro o ho; exact h o (List.mem_cons_of_mem _ ho)
      · rcases h op List.mem_cons_self with ⟨a, _⟩ | ⟨j, f, x, rfl⟩
        · exact frame S w1 op i c (Ne.symm a) h1
        · rw [eval_frame]; exact h1
      · rcases h op List.mem_cons_self with ⟨_, b⟩ | ⟨j, f, x, rfl⟩
        · exact frame S w1 op _ _ (Ne.symm b) h2
        · rw [eval_frame]; exact h2
  obtain ⟨hi2', hk2'⟩ := key ops _ hops (clone_frame S w i i c hc) hnew
  have hi2 : w2.cells[i]? = some c := hi2'
  have hk2 : w2.cells[w.cells.length]? = some c.cloneOf := hk2'
  have hI1 : I (step S w (.clone i : Op F X)).1.caches := by
    rw [only_eval_writes_caches S w _ (by intro i f x h; cases h)]; exact hI
  have hI2 : I w2.caches := caches_inv_program S I spec hS ops _ hI1
  have e1 : (step S w2 (.eval i f x)).2 = .value (spec .mp f c.prec .n x) := by
    simp only [step, hi2]
    rw [hS.correct _ _ _ _ _ _ hI2, hk, hr]
  have e2 : (step S w2 (.eval w.cells.length f x)).2 = .value (spec .mp f c.prec .n x) := by
    simp only [step, hk2]
    rw [hS.correct _ _ _ _ _ _ hI2, cloneOf_kind, cloneOf_rounding, cloneOf_prec c hp]
  exact ⟨e2.trans e1.symm, e1⟩

/-- The hypothesis `c.rounding = .n` of `clone_same_value` cannot be dropped: `clone()` does not
copy the rounding field.  (The field `_prec_rounding[1]` has no public setter; witness replayed on
the real objects by the harness: `mp._prec_rounding[1] = 'f'; c = mp.clone()` gives
`c._prec_rounding == [53, 'n']`.) -/
theorem clone_same_value_rounding_counterexample :
    let w1 := (step paramSem (init ()) (.setRounding 0 .f)).1
    let w2 := (step paramSem w1 (.clone 0)).1
    (step paramSem w2 (.eval 3 () ())).2 ≠ (step paramSem w2 (.eval 0 () ())).2 ∧
    (step paramSem w2 (.eval 3 () ())).2 = .value (.mp, 53, .n) ∧
    (step paramSem w2 (.eval 0 () ())).2 = .value (.mp, 53, .f) := by
  decide

/-! ### non-vacuity: an instance of `CachesPrecisionCorrect` from C33 -/

/-- A world whose only shared cache is one `constant_memo` cell (e.g. `pi_fixed`), every context
kind calling it at its own precision. -/
def constSem (Fc : Nat → Int) (np : Nat → Nat) : Sem Cache.MemoState Unit Unit (Cache.Res Int) where
  run _ s _ p _ _ := Cache.memoReq Fc np s p.toNat false

/-- From `constantMemo_refines` (Props/C33.lean): if the memoised function is shift-stable (a true
floor of `c·2^prec`), the memo cell is precision-correct on every reachable state. -/
theorem constSem_precisionCorrect (Fc : Nat → Int) (np : Nat → Nat) (hnp : ∀ p, p ≤ np p)
    (hF : Cache.ShiftStable Fc) :
    CachesPrecisionCorrect (constSem Fc np)
      (fun s => ∃ h, s = Cache.memoAfter Fc np Cache.memoInit h)
      (fun _ _ p _ _ => .ok (Fc p.toNat)) where
  preserved := by
    rintro k c f p r x ⟨h, rfl⟩
    exact ⟨h ++ [(p.toNat, false)], by rw [Cache.memoAfter_append]; rfl⟩
  correct := by
    rintro k c f p r x ⟨h, rfl⟩
    obtain ⟨P, hle, _, e⟩ := constantMemo_refines Fc np hnp h p.toNat
    show (Cache.memoReq Fc np _ p.toNat false).2 = _
    rw [e, hF P p.toNat hle]

/-- `clone_same_value` for that world, with every hypothesis discharged: in the initial process,
clone `mp`, change precisions of `iv`, `fp` or further clones and compute anywhere — `mp` and its
clone still return the same value of the constant. -/
example (cst : ℚ) (ops : List (Op Unit Unit))
    (hops : ∀ op ∈ ops, (op.target ≠ 0 ∧ op.target ≠ 3) ∨ ∃ j f x, op = .eval j f x) :
    let S := constSem (fun P => ⌊cst * (2 : ℚ) ^ P⌋) (fun p => p + 10)
    let w2 := runOps S (step S (init Cache.memoInit) (.clone 0)).1 ops
    (step S w2 (.eval 3 () ())).2 = (step S w2 (.eval 0 () ())).2 :=
  (clone_same_value _ _ _
    (constSem_precisionCorrect _ _ (fun p => Nat.le_add_right p 10) (Cache.floor_shiftStable cst))
    (init Cache.memoInit) ⟨[], rfl⟩ 0 freshMp rfl rfl rfl (by decide) ops hops () ()).1

/-- the frame theorem is not vacuous: a program on a clone and on `iv`, observed from `mp` -/
example : (runOps paramSem (init ())
    [.clone 0, .setPrec 3 200, .setDps 1 40, .setRounding 3 .c, .setPretty 3 true, .eval 3 () (),
     .clone 3, .setPrec 4 17]).cells[0]? = some freshMp := by decide

end Mp
