/-
  Props/C38PC.lean — "Contexts are isolated from each other", the caches a context object OWNS.

  World model: MpModel/WorldPC.lean (MpModel/World.lean plus one private-cache component per context
  object: `_misc_const_cache`, `_rs_cache`, `stieltjes_cache`, `hyp_summators`, quadrature node
  caches, `memoize` closures; `clone()` constructs a new object whose private caches are EMPTY).
  That the running objects have this shape is observed on every run by harness/props/C38.py: which
  table functions write private state is measured, the private state of a clone taken from a parent
  that has run all of them is compared with that of a new context, and every such function is run
  through parent-evaluates / clone / parent-changes-precision / clone-evaluates programs whose
  values are compared with a pristine single-context process.

    frame_private              a statement executed on context `i` leaves the settings AND the
                               private caches of every other context object unchanged
    frame_private_program      the same for whole programs
    clone_private_empty        the clone owns empty private caches (and the cell of `clone_fresh`)
    clone_forgets_parent_history
                               what a clone computes does not depend on what its parent (or any
                               other context) has computed or cached privately before the clone
                               was taken, nor on any other context's settings
    eval_reads_own_ctx         a value computed in context `i` is a function of that context object
                               (settings, private caches) and of the shared caches only
    forget_private             forgetting the private caches, the settings evolve exactly as in
                               MpModel/World.lean (so every theorem of Props/C38.lean about settings
                               holds of this model too)
-/
import MpProofs.WorldPC
import MpProofs.World

namespace Mp
open Mp.World Mp.WorldPC

variable {C P F X V : Type}

/-- **Frame, with private caches.**  A statement executed on context `op.target` leaves every
OTHER existing context object `j` unchanged: its settings and the caches it owns. -/
theorem frame_private (S : SemP C P F X V) (w : WorldP C P) (op : Op F X) (j : Nat) (c : Ctx P)
    (hj : j ≠ op.target) (hc : w.ctxs[j]? = some c) : (WorldPC.step S w op).1.ctxs[j]? = some c :=
  step_ctx_ne S w op j c hj hc

/-- Frame for whole programs: if no statement of `ops` is executed on `j`, the context object `j`
(settings and private caches) is unchanged. -/
theorem frame_private_program (S : SemP C P F X V) (ops : List (Op F X)) (w : WorldP C P) (j : Nat)
    (c : Ctx P) (hj : ∀ op ∈ ops, j ≠ op.target) (hc : w.ctxs[j]? = some c) :
    (WorldPC.runOps S w ops).ctxs[j]? = some c := by
  induction ops generalizing w with
  | nil => exact hc
  | cons op ops ih =>
    exact ih (WorldPC.step S w op).1 (fun o ho => hj o (List.mem_cons_of_mem _ ho))
      (frame_private S w op j c (hj op List.mem_cons_self) hc)

/-- **clone_private_empty.**  Cloning an mp context returns a new id whose object has the parent's
precision (cell `cloneOf`) and EMPTY private caches; no existing context object is written. -/
theorem clone_private_empty (S : SemP C P F X V) (w : WorldP C P) (i : Nat) (c : Ctx P)
    (hc : w.ctxs[i]? = some c) (hk : c.cell.kind = .mp) :
    (WorldPC.step S w (.clone i : Op F X)).2 = (.created w.ctxs.length : Outcome V) ∧
    (WorldPC.step S w (.clone i : Op F X)).1.ctxs[w.ctxs.length]? = some ⟨c.cell.cloneOf, S.empty⟩ ∧
    (∀ (j : Nat) (d : Ctx P), w.ctxs[j]? = some d → (WorldPC.step S w (.clone i : Op F X)).1.ctxs[j]? = some d) := by
  refine ⟨by simp only [WorldPC.step, hc, hk], by simp [WorldPC.step, hc, hk], ?_⟩
  intro j d hd
  have hlt : j < w.ctxs.length := by
    rcases Nat.lt_or_ge j w.ctxs.length with h | h
    · exact h
    · rw [List.getElem?_eq_none h] at hd; cases hd
  simp only [WorldPC.step, hc, hk, List.getElem?_append_left hlt]
  exact hd

/-- The value computed in context `i` depends on that context object (settings and private caches)
and the shared caches only. -/
theorem eval_reads_own_ctx (S : SemP C P F X V) (w w' : WorldP C P) (i : Nat) (f : F) (x : X)
    (hlen : w.ctxs.length = w'.ctxs.length) (hctx : w.ctxs[i]? = w'.ctxs[i]?)
    (hcache : w.caches = w'.caches) :
    (WorldPC.step S w (.eval i f x)).2 = (WorldPC.step S w' (.eval i f x)).2 :=
  (step_agree S i w w' ⟨hlen, hctx, hcache⟩ (.eval i f x) rfl).1

/-- **clone_forgets_parent_history.**  Take two processes with the same number of context objects
and the same shared caches in which the mp context `i` has the same SETTINGS — but possibly different
private caches (it has computed different things before), and whose other contexts differ
arbitrarily.  Clone `i` in both and run any program on the clone (settings changes, computations,
clones of the clone): every outcome — in particular every computed value — is the same.
(With `clone_private_empty`: the clone behaves like a newly constructed context at that precision.) -/
theorem clone_forgets_parent_history (S : SemP C P F X V) (w w' : WorldP C P) (i : Nat)
    (c c' : Ctx P) (hc : w.ctxs[i]? = some c) (hc' : w'.ctxs[i]? = some c')
    (hcell : c.cell = c'.cell) (hk : c.cell.kind = .mp)
    (hlen : w.ctxs.length = w'.ctxs.length) (hcache : w.caches = w'.caches)
    (ops : List (Op F X)) (hops : ∀ op ∈ ops, op.target = w.ctxs.length) :
    outcomes S (WorldPC.step S w (.clone i : Op F X)).1 ops =
      outcomes S (WorldPC.step S w' (.clone i : Op F X)).1 ops := by
  apply outcomes_agree S w.ctxs.length ops _ _ _ hops
  have hk' : c'.cell.kind = .mp := hcell ▸ hk
  obtain ⟨_, h1, _⟩ := clone_private_empty S w i c hc hk
  obtain ⟨_, h2, _⟩ := clone_private_empty S w' i c' hc' hk'
  refine ⟨?_, ?_, ?_⟩
  · simp [WorldPC.step, hc, hc', hk, hk', hlen]
  · rw [h1, hlen, h2, hcell]
  · simp only [WorldPC.step, hc, hc', hk, hk']; exact hcache

set_option hygiene false in
/-- one constructor of `forget_private` -/
local macro "forget_case" i:ident : tactic => `(tactic| (
    simp only [WorldPC.step, World.step, setCell, WorldP.cells, List.getElem?_map]
    rcases Option.eq_none_or_eq_some (w.ctxs[$i]?) with hci | ⟨c, hci⟩
    · simp only [hci, Option.map_none]
    · simp only [hci, Option.map_some]
      first
        | (simp [List.map_set]; done)
        | (cases hk : c.cell.kind <;> simp [List.map_set]; done)
        | (simp only [List.map_set]
           exact list_set_self _ _ _ (by simp [hci]))))

/-- Forgetting the private caches commutes with every statement: the cells evolve exactly as in
MpModel/World.lean (so the settings theorems of Props/C38.lean hold of this model too). -/
theorem forget_private (S : SemP C P F X V) (T : Sem C F X V) (w : WorldP C P) (op : Op F X) :
    (WorldPC.step S w op).1.cells = (World.step T ⟨w.cells, w.caches⟩ op).1.cells := by
  cases op
  case setPrec i n => forget_case i
  case setDps i n => forget_case i
  case setRounding i r => forget_case i
  case setTrap i b => forget_case i
  case setPretty i b => forget_case i
  case default i => forget_case i
  case clone i => forget_case i
  case eval i f x => forget_case i

/-! ### non-vacuity -/

/-- a semantics whose private cache remembers the highest precision the context has evaluated at
and whose VALUE exposes it (a deliberately history-dependent function, like a precision-tagged memo) -/
def memoSem : SemP Unit Int Unit Unit (Int × Int) where
  empty := 0
  run _ _ p _ prec _ _ := ((), max p prec, (prec, max p prec))

/-- the parent has evaluated at 200 bits (private cache = 200); its clone starts from the empty
cache: at 100 bits it reports (100, 100), not (100, 200) -/
example :
    let w1 := WorldPC.runOps memoSem (WorldPC.init memoSem ()) [.setPrec 0 200, .eval 0 () (), .setPrec 0 100]
    outcomes memoSem w1 [.clone 0, .eval 3 () (), .eval 0 () ()] =
      [.created 3, .value (100, 100), .value (100, 200)] := by decide

/-- `frame_private_program` is not vacuous: a program on a clone and on fp, observed from mp -/
example : (WorldPC.runOps memoSem (WorldPC.init memoSem ())
    [.clone 0, .setPrec 3 200, .eval 3 () (), .eval 2 () (), .clone 3, .eval 4 () ()]).ctxs[0]? =
    some ⟨freshMp, 0⟩ := by decide

end Mp
