/-
  Props/C17.lean — "Mathematical constants are accurate at every precision and history":
  the cache / rounding-LOGIC half (constant_memo + def_mpf_constant).  The accuracy of the
  fixed-point algorithms themselves (pi_fixed, …) is a hypothesis here (`ShiftStable`, resp. the
  enclosure `c·2^wp − 1 < v ≤ c·2^wp`) and is discharged elsewhere per constant.
-/
import MpProofs.Cache
import MpProofs.CacheNormalize

namespace Mp
open Mp.Cache

/-- floors compose: `F P = ⌊c·2^P⌋` is shift-stable for every rational `c`. -/
theorem floor_is_shiftStable (c : ℚ) : ShiftStable (fun P => ⌊c * (2 : ℚ) ^ P⌋) :=
  floor_shiftStable c

/-- If the fixed-point function is shift-stable (`F P >> (P-Q) = F Q`, e.g. an exact floor), then
`g(prec)` returns `F prec` after EVERY history of requests — ascending, descending, repeated,
aborted — i.e. the memo cache is invisible. -/
theorem memo_history_independent (F : Nat → Int) (hF : ShiftStable F) (np : Nat → Nat)
    (hnp : ∀ p, p ≤ np p) (h : List (Nat × Bool)) (prec : Nat) :
    (memoReq F np (memoAfter F np memoInit h) prec false).2 = .ok (F prec) := by
  obtain ⟨P, hle, _, e⟩ := memoReq_answer F np hnp h _ prec (memoAfter_invH F np h)
  rw [e, hF P prec hle]

/-- the instance for a true floor of a rational (or, by density, real) constant -/
theorem memo_history_independent_floor (c : ℚ) (np : Nat → Nat) (hnp : ∀ p, p ≤ np p)
    (h : List (Nat × Bool)) (prec : Nat) :
    (memoReq (fun P => ⌊c * (2 : ℚ) ^ P⌋) np (memoAfter (fun P => ⌊c * (2 : ℚ) ^ P⌋) np memoInit h)
      prec false).2 = .ok ⌊c * (2 : ℚ) ^ prec⌋ :=
  memo_history_independent _ (floor_shiftStable c) np hnp h prec

/-- non-vacuity: a concrete run (c = 22/7, request 200 bits then 30 bits: served from the 220-bit
cache entry, equal to the direct floor) -/
example :
    (memoReq (fun P => (22 * 2 ^ P : Int) / 7) newprec
      (memoAfter (fun P => (22 * 2 ^ P : Int) / 7) newprec memoInit [(200, false)]) 30 false).2
      = .ok ((22 * 2 ^ 30 : Int) / 7) := by decide +kernel

/-- The mpf constant `mpf_c(prec, rnd)` (= `def_mpf_constant` around a `constant_memo`) does not
depend on the history when the fixed-point function is shift-stable and non-negative. -/
theorem mpfConstant_history_independent (F : Nat → Int) (hF : ShiftStable F) (h0 : ∀ P, 0 ≤ F P)
    (np : Nat → Nat) (hnp : ∀ p, p ≤ np p) (h : List (Nat × Bool)) (prec : Nat) (rnd : Rnd) :
    (mpfConstant F np (memoAfter F np memoInit h) prec rnd false).2 =
      .ok (constFinal (F (prec + 20)).toNat prec rnd) := by
  have e := memo_history_independent F hF np hnp h (prec + 20)
  unfold mpfConstant
  split
  · next s' v heq =>
    have : (memoReq F np (memoAfter F np memoInit h) (prec + 20) false).2 = .ok v := by rw [heq]
    rw [e] at this
    simp only [Res.ok.injEq] at this
    subst this
    have := h0 (prec + 20)
    simp [Int.not_lt.mpr this]
  · next s' heq =>
    have : (memoReq F np (memoAfter F np memoInit h) (prec + 20) false).2 = .raised := by rw [heq]
    rw [e] at this; simp at this
  · next s' er heq =>
    have : (memoReq F np (memoAfter F np memoInit h) (prec + 20) false).2 = .pyError er := by rw [heq]
    rw [e] at this; simp at this

/-- Directed rounding of a constant is on the correct side.  If the working-precision value `v`
satisfies `c·2^wp − 1 < v ≤ c·2^wp` (`wp = prec + 20`; i.e. `v` is the floor, which is what the
`+1` in `def_mpf_constant` assumes), then the floor-mode result is `≤ c` and the ceiling-mode result
is `≥ c`.

The two one-sided rounding facts about `normalize` with a positive mantissa that this needs,
`val (normalize 0 m e (bitcount m) p .f) ≤ m·2^e ≤ val (normalize 0 m e (bitcount m) p .c)`, are
proved in MpProofs/CacheNormalize.lean (`normalize_floor_le`, `normalize_ceil_ge`). -/
theorem constant_directed (c : ℚ) (v prec : Nat)
    (hp : 0 < prec) (h1 : c * (2 : ℚ) ^ (prec + 20) - 1 < (v : ℚ))
    (h2 : (v : ℚ) ≤ c * (2 : ℚ) ^ (prec + 20)) :
    val (constFinal v prec .f) ≤ c ∧ c ≤ val (constFinal v prec .c) :=
  ⟨constFinal_floor_le normalize_floor_le c v prec hp h2, constFinal_ceil_ge normalize_ceil_ge c v prec hp h1⟩

/-- the same for `round_down` / `round_up` (the constant is positive) -/
theorem constant_directed_du (c : ℚ) (v prec : Nat)
    (hp : 0 < prec) (h1 : c * (2 : ℚ) ^ (prec + 20) - 1 < (v : ℚ))
    (h2 : (v : ℚ) ≤ c * (2 : ℚ) ^ (prec + 20)) :
    val (constFinal v prec .d) ≤ c ∧ c ≤ val (constFinal v prec .u) := by
  rw [constFinal_d_eq_f, constFinal_u_eq_c]
  exact constant_directed c v prec hp h1 h2

/-- non-vacuity of the enclosure hypothesis: c = 22/7, prec = 10, v = ⌊c·2^30⌋ = 3374617161 -/
example : (22 / 7 : ℚ) * (2 : ℚ) ^ (10 + 20) - 1 < ((3374617161 : Nat) : ℚ) ∧
    ((3374617161 : Nat) : ℚ) ≤ (22 / 7 : ℚ) * (2 : ℚ) ^ (10 + 20) := by norm_num

/-- … and the two results on that input: 3216/1024 ≤ 22/7 ≤ 3220/1024 -/
example : constFinal 3374617161 10 .f = ⟨0, 201, -6, 8⟩ ∧ constFinal 3374617161 10 .c = ⟨0, 805, -8, 10⟩ := by
  decide +kernel

/-- the constant is positive, so `round_down` behaves as `round_floor` and `round_up` as
`round_ceiling` (the `v += 1` test `rnd in (round_up, round_ceiling)` treats them alike). -/
theorem constant_down_eq_floor (v prec : Nat) : constFinal v prec .d = constFinal v prec .f :=
  constFinal_d_eq_f v prec

theorem constant_up_eq_ceiling (v prec : Nat) : constFinal v prec .u = constFinal v prec .c :=
  constFinal_u_eq_c v prec

end Mp
