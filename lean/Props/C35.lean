/-
  Props/C35.lean — "Integer relation results are genuine relations" (the acceptance part).

  `pslq` reports success from its reduced fixed-point vector, never by re-checking the relation
  against `x`; no theorem here says that `pslq` finds relations or that what it returns passes.
  What is proved: the CHECKERS `pslqCheck` / `findpolyCheck` of MpModel/RelCert.lean, which the
  harness (harness/props/C35.py) applies to every vector actually returned by the real `pslq` /
  `findpoly` with the inputs read exactly from the `_mpf_` tuples, decide the promise of the property
  text exactly — `ok` implies it (…_sound), `violates` refutes it (…_exact) — using integer
  arithmetic on squares only.
-/
import MpProofs.RelCert

namespace Mp
open Mp.Encl Mp.RelCert

/-- If `pslqCheck xs c tol maxcoeff = ok` then `c` has as many entries as `xs`, is not the zero vector,
every `|c_k| < maxcoeff`, and `|Σ c_k x_k| ≤ tol · ‖x‖₂` over the reals (`x_k`, `tol` are the exact
dyadic values). -/
theorem pslqCheck_sound (xs : List Dy) (c : List Int) (tol : Dy) (maxcoeff : Int)
    (h : pslqCheck xs c tol maxcoeff = .ok) :
    c.length = xs.length ∧ (∃ k ∈ c, k ≠ 0) ∧ (∀ k ∈ c, |k| < maxcoeff) ∧
    |(List.zipWith (fun (k : Int) (x : Dy) => (k : ℝ) * x.val) c xs).sum|
      ≤ tol.val * Real.sqrt ((xs.map (fun x => x.val ^ 2)).sum) := by
  have := pslqCheck_ok xs c tol maxcoeff h
  rwa [dotR_eq_zipWith, norm2R_eq_sum] at this

/-- Conversely the verdict `violates` is never a false alarm: it refutes the promise. -/
theorem pslqCheck_exact (xs : List Dy) (c : List Int) (tol : Dy) (maxcoeff : Int)
    (h : pslqCheck xs c tol maxcoeff = .violates) :
    ¬ ((∃ k ∈ c, k ≠ 0) ∧ (∀ k ∈ c, |k| < maxcoeff) ∧
       |(List.zipWith (fun (k : Int) (x : Dy) => (k : ℝ) * x.val) c xs).sum|
         ≤ tol.val * Real.sqrt ((xs.map (fun x => x.val ^ 2)).sum)) := by
  have := pslqCheck_violates xs c tol maxcoeff h
  rwa [dotR_eq_zipWith, norm2R_eq_sum] at this

/-- If `findpolyCheck x coeffs n tol maxcoeff = ok` (`coeffs` as returned by `findpoly`: highest degree
first) then the polynomial `P(t) = Σ_k a_k t^k`, `a = coeffs.reverse`, has at most `n + 1` integer
coefficients (degree ≤ n), is not the zero polynomial, every `|a_k| < maxcoeff`, and
`|P(x)| ≤ tol · ‖(1, x, …, x^d)‖₂` with `d = coeffs.length - 1`. -/
theorem findpolyCheck_sound (x : Dy) (coeffs : List Int) (n : Nat) (tol : Dy) (maxcoeff : Int)
    (h : findpolyCheck x coeffs n tol maxcoeff = .ok) :
    1 ≤ coeffs.length ∧ coeffs.length ≤ n + 1 ∧ (∃ k ∈ coeffs, k ≠ 0) ∧ (∀ k ∈ coeffs, |k| < maxcoeff) ∧
    |(coeffs.reverse.zipIdx.map (fun ak => (ak.1 : ℝ) * x.val ^ ak.2)).sum|
      ≤ tol.val * Real.sqrt (((List.range coeffs.length).map (fun k => (x.val ^ k) ^ 2)).sum) := by
  unfold findpolyCheck at h
  split at h
  · cases h
  rename_i h0
  push Not at h0
  split at h
  · cases h
  rename_i h1
  obtain ⟨hlen, ⟨k, hk, hk0⟩, hb, hle⟩ := pslqCheck_ok _ _ _ _ h
  have hpos : 1 ≤ coeffs.length := by omega
  have hd : coeffs.length - 1 + 1 = coeffs.length := by omega
  refine ⟨hpos, by omega, ⟨k, by simpa using hk, hk0⟩, fun k hk => hb k (by simpa using hk), ?_⟩
  unfold powers at hle
  rw [hd, dotR_powersFrom _ _ _ _ (by simp), norm2R_powersFrom, polyR_eq_sum, powNorm2R_eq_sum] at hle
  simpa using hle

/-! ### the hypotheses are satisfiable (and the checkers discriminate) -/

/-- `1·1 + 1·1 − 1·2 = 0`; `(3/2)` is a root of `4t² − 9`; `[1,1,-2]` is not a relation of `(1,1,2)`;
the zero vector and a too-large coefficient are rejected; degree 2 is not "at most 1". -/
example :
    pslqCheck [⟨1, 0⟩, ⟨1, 0⟩, ⟨2, 0⟩] [1, 1, -1] ⟨1, -40⟩ 1000 = .ok ∧
    pslqCheck [⟨1, 0⟩, ⟨1, 0⟩, ⟨2, 0⟩] [1, 1, -2] ⟨1, -40⟩ 1000 = .violates ∧
    pslqCheck [⟨1, 0⟩, ⟨1, 0⟩, ⟨2, 0⟩] [0, 0, 0] ⟨1, -40⟩ 1000 = .violates ∧
    pslqCheck [⟨1, 0⟩, ⟨1, 0⟩, ⟨2, 0⟩] [1000, 1000, -1000] ⟨1, -40⟩ 1000 = .violates ∧
    pslqCheck [⟨1, 0⟩, ⟨1, 0⟩, ⟨2, 0⟩] [999, 999, -999] ⟨1, -40⟩ 1000 = .ok ∧
    findpolyCheck ⟨3, -1⟩ [4, 0, -9] 2 ⟨1, -40⟩ 1000 = .ok ∧
    findpolyCheck ⟨3, -1⟩ [4, 0, -9] 1 ⟨1, -40⟩ 1000 = .violates ∧
    findpolyCheck ⟨3, -1⟩ [4, 0, -8] 2 ⟨1, -40⟩ 1000 = .violates ∧
    -- an approximate relation inside / outside the tolerance: 3·(1/3 rounded to 10 bits) − 1
    pslqCheck [⟨341, -10⟩, ⟨1, 0⟩] [3, -1] ⟨1, -9⟩ 10 = .ok ∧
    pslqCheck [⟨341, -10⟩, ⟨1, 0⟩] [3, -1] ⟨1, -11⟩ 10 = .violates := by
  decide +kernel

end Mp
