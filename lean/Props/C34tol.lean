/-
  Props/C34tol.lean — C34, the explicit-tolerance class (harness `props/C34.py`, `explicit=True`): the additional
  non-autonomous polynomial problem `y' = −2(x − c)·y²`, `y(x0) = y0 > 0`, `c ≤ x0` of `MpModel/CalcOdeX.lean`, and the meaning of
  the checker's verdict at the requested tolerance itself (`k = 0`: `|y − y_exact| ≤ 2^(−t)·max(|y_exact|, 1)`, `tol = 2^(−t)`).

  Proved: the rational reference value denotes THE solution (initial value, differential equation on `[x0, ∞)`, uniqueness on
  `[x0, T]` by Grönwall); for `c = x0` the solution is even in `x − x0`; verdicts of the checker are theorems about that solution.
  Not claimed: accuracy of `ode_taylor` as a theorem (sampled, as in `Props/C34.lean`).
-/
import MpProofs.CalcOdeX

namespace Mp
open Mp.Calc Mp.Encl Set

/-- the reference produced for `x` denotes the closed form `1/(1/y0 + (x − c)² − (x0 − c)²)` -/
theorem C34_ricx_solution_ref (o : RicX) (x : ℚ) (r : Ref) (h : o.solRef x = some r) :
    r.sem = 1 / (1 / (o.y0 : ℝ) + ((x : ℝ) - o.c) ^ 2 - ((o.x0 : ℝ) - o.c) ^ 2) :=
  RicX.solRef_sem o x r h

/-- a reference is produced exactly when `y0 > 0`, `c ≤ x0` and `x ≥ x0` -/
theorem C34_ricx_solution_ref_defined (o : RicX) (x : ℚ) :
    (∃ r, o.solRef x = some r) ↔ (0 < o.y0 ∧ o.c ≤ o.x0 ∧ o.x0 ≤ x) := by
  unfold RicX.solRef
  constructor
  · rintro ⟨r, h⟩
    split at h
    · rename_i hc
      simpa [RicX.ok, and_assoc] using hc
    · simp at h
  · rintro ⟨h1, h2, h3⟩
    exact ⟨.rat (o.solQ x), by simp [RicX.ok, h1, h2, h3]⟩

/-- the closed form solves the initial value problem: `y(x0) = y0` and `y'(x) = −2(x − c)·y(x)²` for every `x ≥ x0` -/
theorem C34_ricx_is_solution (o : RicX) (hok : o.ok = true) :
    o.sol (o.x0 : ℝ) = (o.y0 : ℝ) ∧
    ∀ x : ℝ, (o.x0 : ℝ) ≤ x → HasDerivAt o.sol (-2 * (x - (o.c : ℝ)) * (o.sol x) ^ 2) x :=
  ⟨o.sol_init hok, fun x hx => o.sol_hasDerivAt hok x hx⟩

/-- … and it is the only one on `[x0, T]` -/
theorem C34_ricx_unique (o : RicX) (hok : o.ok = true) (T : ℝ) (f : ℝ → ℝ)
    (hc : ContinuousOn f (Icc (o.x0 : ℝ) T))
    (hd : ∀ t ∈ Ico (o.x0 : ℝ) T, HasDerivWithinAt f (-2 * (t - (o.c : ℝ)) * (f t) ^ 2) (Ici t) t)
    (h0 : f (o.x0 : ℝ) = (o.y0 : ℝ)) :
    ∀ t ∈ Icc (o.x0 : ℝ) T, f t = o.sol t :=
  o.sol_unique hok T f hc hd h0

/-- the class label `c = x0`: the solution is even in `x − x0`, hence every odd-order Taylor coefficient at `x0` is zero -/
theorem C34_ricx_even (o : RicX) (h : o.oddCoeffsVanish = true) (u : ℝ) :
    o.sol ((o.x0 : ℝ) + u) = o.sol ((o.x0 : ℝ) - u) :=
  o.sol_even h u

/-- checker `ok` with `k = 0`, `p = t`: the value is within the REQUESTED tolerance `2^(−t)` (relative or absolute) of the
exact solution; `violates`: it is not -/
theorem C34_ricx_check (o : RicX) (x : ℚ) (r : Ref) (y : Dy) (t k : ℕ) (hr : o.solRef x = some r) :
    (checkClose r y t k 1 false = .ok →
      |y.val - o.sol (x : ℝ)| ≤ (2 : ℝ) ^ ((k : ℤ) - (t : ℤ)) * max |o.sol (x : ℝ)| 1) ∧
    (checkClose r y t k 1 false = .violates →
      ¬ |y.val - o.sol (x : ℝ)| ≤ (2 : ℝ) ^ ((k : ℤ) - (t : ℤ)) * max |o.sol (x : ℝ)| 1) := by
  rw [← RicX.solRef_sem o x r hr]
  constructor
  · intro h
    have := (checkClose_sound_ok r y t k 1 false h).1 rfl
    simpa [tol] using this
  · intro h
    have := (checkClose_sound_violates r y t k 1 false h).1 rfl
    simp only [tol, Rat.cast_one] at this
    exact not_le.2 this

-- non-vacuity: y' = −2x y², y(0) = 1 (solution 1/(1+x²)); value 4/5 at x = 1/2
example : (RicX.mk 0 0 1).ok = true ∧ (RicX.mk 0 0 1).oddCoeffsVanish = true := by decide +kernel
example : ((RicX.mk 0 0 1).solRef (1 / 2)).isSome = true ∧ (RicX.mk 0 0 1).solQ (1 / 2) = 4 / 5 := by decide +kernel
example : (RicX.mk 0 0 1).solRef (-1) = none ∧ (RicX.mk 1 0 1).solRef 1 = none ∧ (RicX.mk 0 0 (-1)).solRef 1 = none := by
  decide +kernel
example : checkClose (.rat (4 / 5)) ⟨3602879701896397, -52⟩ 40 0 1 false = .ok := by decide +kernel
example : checkClose (.rat (4 / 5)) ⟨13, -4⟩ 40 0 1 false = .violates := by decide +kernel

end Mp
