/-
  Props/C02.lean — C02: basic real arithmetic is correctly rounded in every rounding mode.

  Vocabulary (MpProofs/Spec.lean): `val x : ℚ` the exact value of a finite raw mpf;
  `CanonFin x`: finite canonical encoding (zero, or odd mantissa with exact bit count);
  `RoundOK prec rnd x r`: `r` is canonical, equals `x` exactly when `prec = 0`, and otherwise is THE
  correctly rounded `prec`-bit value of `x` in mode `rnd` (relational definition, five modes, ties to
  even) with at most `prec` mantissa bits.  All statements are for mantissas of any length, exponents
  of any size, every precision and all five rounding modes.
-/
import MpProofs.Div

namespace Mp

/-- `_normalize` (the rounding kernel every operation ends in) is correct rounding. -/
theorem C02_normalize {sign : Nat} (hs : sign ≤ 1) (man : Nat) (exp : Int) {prec : Int} (hp : 0 < prec)
    (rnd : Rnd) :
    RoundOK prec rnd ((-1 : ℚ) ^ sign * ((man : ℚ) * 2 ^ exp)) (normalize sign man exp (bitcount man) prec rnd) :=
  normalize_spec hs man exp hp rnd

/-- `_normalize1` under its documented precondition (odd or zero mantissa). -/
theorem C02_normalize1 {sign : Nat} (hs : sign ≤ 1) {man : Nat} (hodd : man % 2 = 1 ∨ man = 0) (exp : Int)
    {prec : Int} (hp : 0 < prec) (rnd : Rnd) :
    RoundOK prec rnd ((-1 : ℚ) ^ sign * ((man : ℚ) * 2 ^ exp)) (normalize1 sign man exp (bitcount man) prec rnd) :=
  normalize1_spec hs hodd exp hp rnd

/-- construction from a signed mantissa/exponent pair and from an integer (exact for `prec = 0`). -/
theorem C02_from_man_exp (Z e : ℤ) {prec : ℤ} (hp : 0 ≤ prec) (rnd : Rnd) :
    RoundOK prec rnd ((Z : ℚ) * 2 ^ e) (from_man_exp Z e prec rnd) := from_man_exp_spec Z e hp rnd

theorem C02_from_int (n : ℤ) {prec : ℤ} (hp : 0 ≤ prec) (rnd : Rnd) :
    RoundOK prec rnd (n : ℚ) (from_int n prec rnd) := from_int_spec n hp rnd

/-- unary plus, negation, absolute value. -/
theorem C02_pos {s : Mpf} (hs : CanonFin s) {prec : ℤ} (hp : 0 ≤ prec) (rnd : Rnd) :
    RoundOK prec rnd (val s) (mpf_pos s prec rnd) := mpf_pos_spec hs hp rnd

theorem C02_neg {s : Mpf} (hs : CanonFin s) {prec : ℤ} (hp : 0 ≤ prec) (rnd : Rnd) :
    RoundOK prec rnd (-val s) (mpf_neg s prec rnd) := mpf_neg_spec hs hp rnd

theorem C02_abs {s : Mpf} (hs : CanonFin s) {prec : ℤ} (hp : 0 ≤ prec) (rnd : Rnd) :
    RoundOK prec rnd |val s| (mpf_abs s prec rnd) := mpf_abs_spec hs hp rnd

/-- addition and subtraction — every branch of `mpf_add`, including the far-apart-exponent
perturbation shortcut (after the repair of defect D1) and exact mode `prec = 0`. -/
theorem C02_add {s t : Mpf} (hs : CanonFin s) (ht : CanonFin t) {prec : ℤ} (hp : 0 ≤ prec) (rnd : Rnd) :
    RoundOK prec rnd (val s + val t) (mpf_add s t prec rnd) := by
  simpa using mpf_add_spec hs ht hp rnd false

theorem C02_sub {s t : Mpf} (hs : CanonFin s) (ht : CanonFin t) {prec : ℤ} (hp : 0 ≤ prec) (rnd : Rnd) :
    RoundOK prec rnd (val s - val t) (mpf_sub s t prec rnd) := mpf_sub_spec hs ht hp rnd

/-- multiplication (the pure-Python variant with the fast bit-count update). -/
theorem C02_mul {s t : Mpf} (hs : CanonFin s) (ht : CanonFin t) {prec : ℤ} (hp : 0 ≤ prec) (rnd : Rnd) :
    RoundOK prec rnd (val s * val t) (mpf_mul s t prec rnd) := mpf_mul_spec hs ht hp rnd

theorem C02_mul_int {s : Mpf} (hs : CanonFin s) (n : ℤ) {prec : ℤ} (hp : 0 < prec) (rnd : Rnd) :
    RoundOK prec rnd (val s * n) (mpf_mul_int s n prec rnd) := mpf_mul_int_spec hs n hp rnd

/-- division: a nonzero divisor gives the correctly rounded quotient; a zero divisor raises. -/
theorem C02_div {s t : Mpf} (hs : CanonFin s) (ht : CanonFin t) (ht0 : t ≠ fzero) {prec : ℤ} (hp : 0 < prec)
    (rnd : Rnd) : ∃ r, mpf_div s t prec rnd = .ok r ∧ RoundOK prec rnd (val s / val t) r :=
  mpf_div_spec hs ht ht0 hp rnd

theorem C02_div_zero {s : Mpf} (hs : CanonFin s) (prec : ℤ) (rnd : Rnd) :
    mpf_div s fzero prec rnd = .error .zeroDiv := mpf_div_zero hs prec rnd

theorem C02_rdiv_int (n : ℤ) {t : Mpf} (ht : CanonFin t) (ht0 : t ≠ fzero) {prec : ℤ} (hp : 0 < prec)
    (rnd : Rnd) : ∃ r, mpf_rdiv_int n t prec rnd = .ok r ∧ RoundOK prec rnd ((n : ℚ) / val t) r :=
  mpf_rdiv_int_spec n ht ht0 hp rnd

/-- construction from a rational `p/q` (the `Fraction`/`mpq` operand path). -/
theorem C02_from_rational (p q : ℤ) (hq : q ≠ 0) {prec : ℤ} (hp : 0 < prec) (rnd : Rnd) :
    ∃ r, from_rational p q prec rnd = .ok r ∧ RoundOK prec rnd ((p : ℚ) / q) r :=
  from_rational_spec p q hq hp rnd

/-- The correctly rounded value is unique: two results meeting `RoundOK` for the same input have
the same value. This is what makes the bit-exact comparison of the implementation with the
(proved) model a *decision* of the property. -/
theorem C02_round_unique {prec : ℤ} (hp : 0 < prec) {rnd : Rnd} {x : ℚ} {r r' : Mpf}
    (h : RoundOK prec rnd x r) (h' : RoundOK prec rnd x r') : val r = val r' :=
  isRound_unique (h.2.2 hp).1 (h'.2.2 hp).1

/-! non-vacuity: the hypotheses are met by concrete non-trivial operands -/
example : CanonFin (⟨0, 5, -3, 3⟩ : Mpf) ∧ CanonFin (⟨1, 0x1fffffffffffff, 100, 53⟩ : Mpf) ∧
    (⟨0, 5, -3, 3⟩ : Mpf) ≠ fzero := by decide

end Mp
