/-
  Props/C04powneg.lean — C04, negative integer powers: `z**(-m)` for a complex `z` with both components nonzero, `m ≥ 3`
  in the exact regime of `z**m` (`m·(|e_a − e_b| + max bc) < 10000`), every precision ≥ 3 and every rounding mode:
  EACH component of the result is within `6·2^(-prec)` relative — six units in the last place — of the exact component
  of `1/z^m` ("a few units in the last place", in modulus a fortiori: `modulus_of_componentwise`).
  The code computes `mpc_reciprocal(mpc_pow_int(z, m, prec+4, round_down), prec, rnd)`.
-/
import Props.C04pow
import Props.C04div
import MpProofs.CPowNeg

namespace Mp

theorem roundOK_val_ne_zero {prec : ℤ} (hp : 2 ≤ prec) {rnd : Rnd} {x : ℚ} {r : Mpf} (h : RoundOK prec rnd x r)
    (hx : x ≠ 0) : val r ≠ 0 := by
  intro h0
  have := h.relerr (by omega : 0 < prec)
  rw [h0, zero_sub, abs_neg] at this
  have hlt : (2 : ℚ) ^ (1 - prec) ≤ 2 ^ (-1 : ℤ) := zpow_le_zpow_right₀ (by norm_num) (by omega)
  have hx' : 0 < |x| := abs_pos.2 hx
  have : |x| ≤ |x| * 2 ^ (-1 : ℤ) := le_trans this (mul_le_mul_of_nonneg_left hlt hx'.le)
  norm_num at this
  linarith

theorem C04_pow_int_neg (fallback : Mpc → Int → Int → Rnd → Except Err Mpc)
    {z : Mpc} (hz : CanonFinC z) (ha : z.1 ≠ fzero) (hb : z.2 ≠ fzero) {m : ℕ} (hm : 3 ≤ m)
    (hsize : (m : ℤ) * (((z.1.exp - z.2.exp).natAbs : ℤ) + max z.1.bc z.2.bc) < 10000)
    {prec : ℤ} (hp : 3 ≤ prec) (rnd : Rnd) :
    ∃ re im, mpc_pow_int fallback z (-(m : ℤ)) prec rnd = .ok (re, im) ∧ CanonFin re ∧ CanonFin im ∧
      re.bc ≤ prec ∧ im.bc ≤ prec ∧
      |val re - (cpowQ (val z.1) (val z.2) m).1 / ((val z.1 * val z.1 + val z.2 * val z.2) ^ m)| ≤
        |(cpowQ (val z.1) (val z.2) m).1 / ((val z.1 * val z.1 + val z.2 * val z.2) ^ m)| * (6 * 2 ^ (-prec)) ∧
      |val im - (-((cpowQ (val z.1) (val z.2) m).2 / ((val z.1 * val z.1 + val z.2 * val z.2) ^ m)))| ≤
        |(cpowQ (val z.1) (val z.2) m).2 / ((val z.1 * val z.1 + val z.2 * val z.2) ^ m)| * (6 * 2 ^ (-prec)) := by
  -- the inner power at prec + 4, rounded down
  have hp4 : (0 : ℤ) ≤ prec + 4 := by omega
  obtain ⟨wr, wi, hw, hwr, hwi⟩ :=
    C04_pow_int_exact fallback hz ha hb (n := (m : ℤ)) (by omega) hsize hp4 .d
  rw [Int.toNat_natCast] at hwr hwi
  set P := (cpowQ (val z.1) (val z.2) m).1 with hP
  set Q := (cpowQ (val z.1) (val z.2) m).2 with hQ
  set N := val z.1 * val z.1 + val z.2 * val z.2 with hN
  have hnorm : P * P + Q * Q = N ^ m := cpowQ_normsq _ _ m
  have hN0 : 0 < N := by
    have := mul_self_pos.2 (val_ne_zero_of_ne_fzero hz.1 ha)
    have := mul_self_nonneg (val z.2)
    rw [hN]; linarith
  have hNm : 0 < N ^ m := pow_pos hN0 m
  -- w is not zero
  have hw0 : ¬ (wr = fzero ∧ wi = fzero) := by
    rintro ⟨h1, h2⟩
    have hPQ : P ≠ 0 ∨ Q ≠ 0 := by
      by_contra h; push Not at h
      rw [h.1, h.2] at hnorm; simp at hnorm; linarith [hnorm ▸ hNm]
    rcases hPQ with h | h
    · exact roundOK_val_ne_zero (by omega) hwr h (by rw [h1, val_fzero])
    · exact roundOK_val_ne_zero (by omega) hwi h (by rw [h2, val_fzero])
  obtain ⟨re, im, hrec, c1, c2, b1, b2, e1, e2⟩ := mpc_reciprocal_spec (z := (wr, wi)) hwr.1 hwi.1 hw0 (by omega : 0 < prec) rnd
  refine ⟨re, im, ?_, c1, c2, b1, b2, ?_, ?_⟩
  · -- the code path
    unfold mpc_pow_int
    have h0 : ¬ (-(m : ℤ)) = 0 := by omega
    have h1 : ¬ (-(m : ℤ)) = 1 := by omega
    have h2 : ¬ (-(m : ℤ)) = 2 := by omega
    have h3 : ¬ (-(m : ℤ)) = -1 := by omega
    have h4 : (-(m : ℤ)) < 0 := by omega
    simp only [hb, ha, h0, h1, h2, h3, h4, if_false, dif_pos, neg_neg, hw]
    exact hrec
  all_goals
    -- numeric part
    have hd0 : (0 : ℚ) ≤ 2 ^ (-prec) := by positivity
    have hd1 : (2 : ℚ) ^ (-prec) ≤ 1 / 8 := by
      have : (2 : ℚ) ^ (-prec) ≤ 2 ^ (-3 : ℤ) := zpow_le_zpow_right₀ (by norm_num) (by omega)
      norm_num at this ⊢; exact this
    obtain ⟨kup, klo⟩ := neg_pow_constants hd0 hd1
    have eη : (2 : ℚ) ^ (1 - (prec + 4)) = 2 ^ (-prec) / 8 := by
      rw [show (1 : ℤ) - (prec + 4) = -prec + (-3) by ring, zpow_add₀ (by norm_num)]; norm_num; ring
    have e4 : (2 : ℚ) ^ (2 - prec) = 4 * 2 ^ (-prec) := by
      rw [show (2 : ℤ) - prec = 2 + (-prec) by ring, zpow_add₀ (by norm_num)]; norm_num
    have rr := hwr.relerr (by omega : (0 : ℤ) < prec + 4)
    have ri := hwi.relerr (by omega : (0 : ℤ) < prec + 4)
    rw [eη] at rr ri
    have hη0 : (0 : ℚ) ≤ 2 ^ (-prec) / 8 := by positivity
    have hη1 : (2 : ℚ) ^ (-prec) / 8 ≤ 1 := by linarith
    have hM := normsq_perturb hη0 hη1 rr ri
    rw [hnorm] at hM
    have hM' : |val wr * val wr + val wi * val wi - N ^ m| ≤ N ^ m * (2 ^ (-prec) / 2) := by
      refine le_trans hM (mul_le_mul_of_nonneg_left ?_ hNm.le); linarith
    have hMw : 0 < val wr * val wr + val wi * val wi := by
      have := abs_le.1 hM'
      nlinarith
    rw [e4] at e1 e2
    dsimp only at e1 e2
  · exact rel_perturb (ε₂ := 2 ^ (-prec) / 2) (δ := 4 * 2 ^ (-prec)) (K := 6 * 2 ^ (-prec)) hNm hMw hη0 hη1
      (by positivity) (by linarith) (by positivity) (by linarith) kup klo rr hM' e1
  · have := rel_perturb (ε₂ := 2 ^ (-prec) / 2) (δ := 4 * 2 ^ (-prec)) (K := 6 * 2 ^ (-prec)) hNm hMw hη0 hη1
      (by positivity) (by linarith) (by positivity) (by linarith) kup klo ri hM' (q := -val im)
      (by rw [show -val im - val wi / (val wr * val wr + val wi * val wi) =
            -(val im - -(val wi / (val wr * val wr + val wi * val wi))) by ring, abs_neg]; exact e2)
    rw [show val im - -(Q / N ^ m) = -(-val im - Q / N ^ m) by ring, abs_neg]
    exact this

end Mp
