/-
  Props/C22.lean — C22 (hypergeometric functions and orthogonal polynomials), PARTIAL: terminating cases.
  Level: translation validation with a PROVED validator and PROVED reference values.

  (1) validator `specCheck` / `specCheckC` (as in `Props/C18.lean`), restated;
  (2) `hyp_terminating_value`: the reference of a terminating `pFq(as; bs; z)` at rational parameters and argument is
      the finite sum `Σ_{k≤n} Π(a_i)_k / Π(b_j)_k · z^k / k!` with Mathlib's `ascPochhammer`, `−n` the numerator
      parameter that terminates the series first; `hyp_terminating_pole`: a pole is reported iff a denominator
      parameter `−m` has `m < n` (some term `k ≤ n` has denominator `(−m)_k = 0`);
  (3) `chebyt`, `chebyu`: Mathlib's `Polynomial.Chebyshev.T/U` evaluated at the rational argument;
      `legendre`, `hermite`, `laguerre`, `gegenbauer`, `jacobi`: values of the polynomial sequences DEFINED below by
      their three-term recurrences (`legendreP`, `hermiteH`, `laguerreL`, `gegenbauerC`, `jacobiP` are DEFINITIONS made
      here — Mathlib has none of these families in this normalisation; they are not theorems about independent objects);
  (4) decision logic: `hypsum_pole_logic_spec` (`hypsum` raises ZeroDivisionError ⇔ some integer denominator parameter
      `c ≤ 0` is larger than every integer numerator parameter `cc ≤ 0`, i.e. its Pochhammer symbol vanishes before
      any numerator parameter terminates the series), `convert_param_spec` (`_convert_param`'s classification).
  NOT decided: every non-terminating evaluation, `hyperu`, Whittaker, Meijer G, Appell, `hyper2d`, `legenp/legenq`,
  `spherharm`, parabolic cylinder functions, non-integer degrees, complex parameters.
-/
import MpProofs.SpecRefHyper

namespace Mp
open Mp.Encl Mp.SpecRef
open scoped Nat

theorem C22_validator (r : SExpr) (y : Dy) (p k : ℕ) :
    (specCheck r y p k = .ok → |y.val - r.sem| ≤ (2 : ℝ) ^ ((k : ℤ) - (p : ℤ)) * |r.sem|) ∧
    (specCheck r y p k = .violates → (2 : ℝ) ^ ((k : ℤ) - (p : ℤ)) * |r.sem| < |y.val - r.sem|) :=
  ⟨specCheck_sound_ok r y p k, specCheck_sound_violates r y p k⟩

/-- "relative error below 2^(8−p)": run with `k = 7`; reference 0 (a root of the polynomial) ⇒ output exactly 0 -/
theorem C22_validator_strict (r : SExpr) (y : Dy) (p : ℕ) (h : specCheck r y p 7 = .ok) :
    (r.sem ≠ 0 → |y.val - r.sem| < (2 : ℝ) ^ ((8 : ℤ) - (p : ℤ)) * |r.sem|) ∧
    (r.sem = 0 → y.val = 0) :=
  ⟨fun h0 => by simpa using specCheck_ok_strict r y p 7 h h0, specCheck_ok_zero r y p 7 h⟩

theorem C22_validator_complex (r : SExpr) (yre yim : Dy) (p k : ℕ) :
    (specCheckC r yre yim p k = .ok →
      ‖(⟨yre.val, yim.val⟩ : ℂ) - (r.sem : ℂ)‖ ≤ (2 : ℝ) ^ ((k : ℤ) - (p : ℤ)) * |r.sem|) ∧
    (specCheckC r yre yim p k = .violates →
      (2 : ℝ) ^ ((k : ℤ) - (p : ℤ)) * |r.sem| < ‖(⟨yre.val, yim.val⟩ : ℂ) - (r.sem : ℂ)‖) :=
  ⟨specCheckC_sound_ok r yre yim p k, specCheckC_sound_violates r yre yim p k⟩

/-! ### terminating hypergeometric series -/

/-- **value of a terminating series**: there is `n` such that `−n ∈ as`, every other non-positive integer numerator
parameter `−n'` has `n ≤ n'`, and the reference is `Σ_{k=0}^{n} Π(a_i)_k / Π(b_j)_k · z^k / k!` -/
theorem hyp_terminating_value (as bs : List ℚ) (z : ℚ) (e : SExpr) (he : hyperRef as bs z = .val e) :
    ∃ n : ℕ, (-(n : ℚ)) ∈ as ∧ (∀ m : ℕ, (-(m : ℚ)) ∈ as → n ≤ m) ∧
      e.sem = ((∑ k ∈ Finset.range (n + 1),
        (as.map (fun a => (ascPochhammer ℚ k).eval a)).prod /
          (bs.map (fun b => (ascPochhammer ℚ k).eval b)).prod * z ^ k / (k ! : ℚ) : ℚ) : ℝ) := by
  unfold hyperRef at he
  cases ht : termIndex as with
  | none => rw [ht] at he; simp at he
  | some n =>
    rw [ht] at he
    simp only at he
    split at he
    · simp at he
    · simp only [Ref.ofRat, Ref.val.injEq] at he; subst he
      obtain ⟨⟨a, ha, hnp, han⟩, hmin⟩ := termIndex_spec as n ht
      refine ⟨n, ?_, ?_, ?_⟩
      · obtain ⟨m, hm⟩ := (isNpInt_iff a).1 hnp
        have : m = n := by
          rw [hm] at han
          have h1 : (-(m : ℚ)).num = -(m : ℤ) := by
            have : (-(m : ℚ)) = ((-(m : ℤ) : ℤ) : ℚ) := by push_cast; rfl
            rw [this, Rat.num_intCast]
          rw [h1] at han; omega
        rw [← this, ← hm]; exact ha
      · intro m hm
        have h1 : (-(m : ℚ)).num = -(m : ℤ) := by
          have : (-(m : ℚ)) = ((-(m : ℤ) : ℤ) : ℚ) := by push_cast; rfl
          rw [this, Rat.num_intCast]
        have := hmin _ hm ((isNpInt_iff _).2 ⟨m, rfl⟩)
        rw [h1] at this; omega
      · rw [ratE_sem, (hypSum_spec as bs z (n + 1)).2]
        rfl

/-- **pole of a terminating series**: reported iff the series terminates at `n` and some denominator parameter is `−m`
with `m < n` — then the term `k = m+1 ≤ n` has the denominator `(−m)_{m+1} = 0` (mpmath: ZeroDivisionError) -/
theorem hyp_terminating_pole (as bs : List ℚ) (z : ℚ) :
    hyperRef as bs z = .pole ↔
      ∃ n, termIndex as = some n ∧ ∃ b ∈ bs, ∃ m : ℕ, b = -(m : ℚ) ∧ m < n := by
  unfold hyperRef
  cases ht : termIndex as with
  | none => simp
  | some n =>
    simp only [Option.some.injEq, exists_eq_left']
    have key : denPoleBefore bs n = true ↔ ∃ b ∈ bs, ∃ m : ℕ, b = -(m : ℚ) ∧ m < n := by
      unfold denPoleBefore
      simp only [List.any_eq_true, Bool.and_eq_true, decide_eq_true_eq]
      constructor
      · rintro ⟨b, hb, hnp, hlt⟩
        obtain ⟨m, hm⟩ := (isNpInt_iff b).1 hnp
        refine ⟨b, hb, m, hm, ?_⟩
        have h1 : b.num = -(m : ℤ) := by
          have : b = ((-(m : ℤ) : ℤ) : ℚ) := by rw [hm]; push_cast; rfl
          rw [this, Rat.num_intCast]
        rw [h1] at hlt; omega
      · rintro ⟨b, hb, m, hm, hlt⟩
        refine ⟨b, hb, (isNpInt_iff b).2 ⟨m, hm⟩, ?_⟩
        have h1 : b.num = -(m : ℤ) := by
          have : b = ((-(m : ℤ) : ℤ) : ℚ) := by rw [hm]; push_cast; rfl
          rw [this, Rat.num_intCast]
        rw [h1]; omega
    split
    · rename_i h; simp only [true_iff]; exact key.1 h
    · rename_i h
      simp only [Ref.ofRat, reduceCtorEq, false_iff]
      exact fun hc => h (key.2 hc)

/-! ### orthogonal polynomials -/

/-- `chebyt(n, x)` = Mathlib's Chebyshev polynomial of the first kind evaluated at `x` -/
theorem C22_chebyt_ref (n : ℤ) (x : ℚ) (e : SExpr) (he : recRef n (chebytQ x) = .val e) :
    ∃ m : ℕ, n = m ∧ e.sem = (((Polynomial.Chebyshev.T ℚ m).eval x : ℚ) : ℝ) := by
  unfold recRef at he
  split at he
  · rw [chebytQ_spec] at he
    simp only [Ref.ofRat, Ref.val.injEq] at he; subst he
    refine ⟨n.toNat, by omega, ?_⟩
    rw [ratE_sem]
  · simp at he

/-- `chebyu(n, x)` = Mathlib's Chebyshev polynomial of the second kind evaluated at `x` -/
theorem C22_chebyu_ref (n : ℤ) (x : ℚ) (e : SExpr) (he : recRef n (chebyuQ x) = .val e) :
    ∃ m : ℕ, n = m ∧ e.sem = (((Polynomial.Chebyshev.U ℚ m).eval x : ℚ) : ℝ) := by
  unfold recRef at he
  split at he
  · rw [chebyuQ_spec] at he
    simp only [Ref.ofRat, Ref.val.injEq] at he; subst he
    refine ⟨n.toNat, by omega, ?_⟩
    rw [ratE_sem]
  · simp at he

/-- DEFINITION. Legendre polynomials by `(k+2)·P_{k+2} = (2k+3)·x·P_{k+1} − (k+1)·P_k`, `P_0 = 1`, `P_1 = x`. -/
def legendreP (x : ℚ) : ℕ → ℚ
  | 0 => 1
  | 1 => x
  | k + 2 => ((2 * ((k : ℚ) + 1) + 1) * x * legendreP x (k + 1) - ((k : ℚ) + 1) * legendreP x k) / ((k : ℚ) + 1 + 1)

/-- DEFINITION. Physicists' Hermite polynomials by `H_{k+2} = 2x·H_{k+1} − 2(k+1)·H_k`, `H_0 = 1`, `H_1 = 2x`. -/
def hermiteH (x : ℚ) : ℕ → ℚ
  | 0 => 1
  | 1 => 2 * x
  | k + 2 => 2 * x * hermiteH x (k + 1) - 2 * ((k : ℚ) + 1) * hermiteH x k

/-- DEFINITION. Generalized Laguerre polynomials by
`(k+2)·L_{k+2} = (2k+3+a−x)·L_{k+1} − (k+1+a)·L_k`, `L_0 = 1`, `L_1 = 1+a−x`. -/
def laguerreL (a x : ℚ) : ℕ → ℚ
  | 0 => 1
  | 1 => 1 + a - x
  | k + 2 => ((2 * ((k : ℚ) + 1) + 1 + a - x) * laguerreL a x (k + 1) - ((k : ℚ) + 1 + a) * laguerreL a x k) /
      ((k : ℚ) + 1 + 1)

/-- DEFINITION. Gegenbauer polynomials by
`(k+2)·C_{k+2} = 2(k+1+a)·x·C_{k+1} − (k+2a)·C_k`, `C_0 = 1`, `C_1 = 2ax`. -/
def gegenbauerC (a x : ℚ) : ℕ → ℚ
  | 0 => 1
  | 1 => 2 * a * x
  | k + 2 => (2 * ((k : ℚ) + 1 + a) * x * gegenbauerC a x (k + 1) - ((k : ℚ) + 1 + 2 * a - 1) * gegenbauerC a x k) /
      ((k : ℚ) + 1 + 1)

/-- DEFINITION. Jacobi polynomials by (with `j = k+1`, `c = 2j+a+b`)
`2(j+1)(j+a+b+1)·c·P_{j+1} = (c+1)·((c+2)·c·x + a²−b²)·P_j − 2(j+a)(j+b)(c+2)·P_{j−1}`,
`P_0 = 1`, `P_1 = (a+1) + (a+b+2)(x−1)/2`. -/
def jacobiP (a b x : ℚ) : ℕ → ℚ
  | 0 => 1
  | 1 => (a + 1) + (a + b + 2) * (x - 1) / 2
  | k + 2 =>
    ((2 * ((k : ℚ) + 1) + a + b + 1) *
        ((2 * ((k : ℚ) + 1) + a + b + 2) * (2 * ((k : ℚ) + 1) + a + b) * x + a * a - b * b) * jacobiP a b x (k + 1)
      - 2 * ((k : ℚ) + 1 + a) * ((k : ℚ) + 1 + b) * (2 * ((k : ℚ) + 1) + a + b + 2) * jacobiP a b x k) /
    (2 * ((k : ℚ) + 1 + 1) * ((k : ℚ) + 1 + a + b + 1) * (2 * ((k : ℚ) + 1) + a + b))

theorem recRef_of_rec3 (n : ℤ) (p0 p1 : ℚ) (A B C : ℕ → ℚ) (P : ℕ → ℚ) (h0 : P 0 = p0) (h1 : P 1 = p1)
    (hrec : ∀ k, P (k + 2) = (B (k + 1) * P (k + 1) - C (k + 1) * P k) / A (k + 1))
    (e : SExpr) (he : recRef n (rec3 p0 p1 A B C) = .val e) :
    ∃ m : ℕ, n = m ∧ e.sem = ((P m : ℚ) : ℝ) := by
  unfold recRef at he
  split at he
  · cases hr : rec3 p0 p1 A B C n.toNat with
    | none => rw [hr] at he; simp at he
    | some r =>
      rw [hr] at he
      simp only [Ref.ofRat, Ref.val.injEq] at he; subst he
      have := rec3_eq p0 p1 A B C P h0 h1 hrec n.toNat r hr
      refine ⟨n.toNat, by omega, ?_⟩
      rw [ratE_sem, this]
  · simp at he

/-- `legendre(n, x)` at natural `n`, rational `x`: the reference is `legendreP x n` -/
theorem C22_legendre_ref (n : ℤ) (x : ℚ) (e : SExpr) (he : recRef n (legendreQ x) = .val e) :
    ∃ m : ℕ, n = m ∧ e.sem = ((legendreP x m : ℚ) : ℝ) :=
  recRef_of_rec3 n _ _ _ _ _ (legendreP x) rfl rfl (fun k => by rw [legendreP]; push_cast; ring) e he

/-- `hermite(n, x)`: the reference is `hermiteH x n` -/
theorem C22_hermite_ref (n : ℤ) (x : ℚ) (e : SExpr) (he : recRef n (hermiteQ x) = .val e) :
    ∃ m : ℕ, n = m ∧ e.sem = ((hermiteH x m : ℚ) : ℝ) :=
  recRef_of_rec3 n _ _ _ _ _ (hermiteH x) rfl rfl (fun k => by rw [hermiteH]; push_cast; ring) e he

/-- `laguerre(n, a, x)`: the reference is `laguerreL a x n` -/
theorem C22_laguerre_ref (n : ℤ) (a x : ℚ) (e : SExpr) (he : recRef n (laguerreQ a x) = .val e) :
    ∃ m : ℕ, n = m ∧ e.sem = ((laguerreL a x m : ℚ) : ℝ) :=
  recRef_of_rec3 n _ _ _ _ _ (laguerreL a x) rfl rfl (fun k => by rw [laguerreL]; push_cast; ring) e he

/-- `gegenbauer(n, a, x)`: the reference is `gegenbauerC a x n` -/
theorem C22_gegenbauer_ref (n : ℤ) (a x : ℚ) (e : SExpr) (he : recRef n (gegenbauerQ a x) = .val e) :
    ∃ m : ℕ, n = m ∧ e.sem = ((gegenbauerC a x m : ℚ) : ℝ) :=
  recRef_of_rec3 n _ _ _ _ _ (gegenbauerC a x) rfl rfl (fun k => by rw [gegenbauerC]; push_cast; ring) e he

/-- `jacobi(n, a, b, x)`: the reference is `jacobiP a b x n`; a value is produced only if no leading coefficient
`2(j+1)(j+a+b+1)(2j+a+b)`, `1 ≤ j < n`, of the recurrence vanishes -/
theorem C22_jacobi_ref (n : ℤ) (a b x : ℚ) (e : SExpr) (he : recRef n (jacobiQ a b x) = .val e) :
    ∃ m : ℕ, n = m ∧ e.sem = ((jacobiP a b x m : ℚ) : ℝ) :=
  recRef_of_rec3 n _ _ _ _ _ (jacobiP a b x) rfl rfl (fun k => by rw [jacobiP]; push_cast; ring) e he

/-! ### decision logic -/

/-- **`hypsum`'s pole test** (ctx_mp.py): with `cs` the coefficient list (the first `p` are numerator parameters), each
entry `(is 'Z', integer value)`: ZeroDivisionError is raised iff some denominator `'Z'` parameter `c ≤ 0` is strictly
larger than every numerator `'Z'` parameter `cc ≤ 0` — i.e. `(c)_k` vanishes at `k = −c+1`, before any numerator
parameter terminates the series (`(cc)_k = 0` from `k = −cc+1 > −c+1` on) -/
theorem hypsum_pole_logic_spec (p : ℕ) (cs : List (Bool × ℤ)) :
    hypsumPoleRaises p cs = true ↔
      ∃ c ∈ cs.drop p, c.1 = true ∧ c.2 ≤ 0 ∧ ∀ cc ∈ cs.take p, cc.1 = true → cc.2 ≤ 0 → cc.2 < c.2 := by
  unfold hypsumPoleRaises
  simp only [List.any_eq_true, Bool.and_eq_true, decide_eq_true_eq, Bool.not_eq_eq_eq_not, Bool.not_true,
    List.any_eq_false, not_and, not_le]
  constructor
  · rintro ⟨c, hc, ⟨h1, h2⟩, h3⟩
    exact ⟨c, hc, h1, h2, fun cc hcc a b => h3 cc hcc ⟨a, b⟩⟩
  · rintro ⟨c, hc, h1, h2, h3⟩
    exact ⟨c, hc, ⟨h1, h2⟩, fun cc hcc hab => h3 cc hcc hab.1 hab.2⟩

/-- **`_convert_param`'s classification** (ctx_mp_python.py):
* a Python int is `'Z'`;
* a fraction `p/q` (tuple, mpq, "p/q" string): ZeroDivisionError for `q = 0`; `'Z'` with the quotient if `q ∣ p`;
  otherwise `'Q'` with the reduced fraction;
* an mpf `(sign, man, exp)` with `man ≠ 0` (value `v = ±man·2^exp`): `'Z'` with the integer `v` if `exp ≥ 0`; `'Q'` with the
  reduced fraction `v` if `−4 ≤ exp < 0`; `'R'` if `exp < −4`; with `man = 0`: `'Z' 0` for zero (`exp = 0`), `'U'` for inf/nan;
* an mpc is `'C'` if its imaginary part is non-zero, otherwise classified by its real part. -/
theorem convert_param_spec :
    (∀ n, convertParam (.int n) = .Z n) ∧
    (∀ p, convertParam (.frac p 0) = .zeroDiv) ∧
    (∀ p q, q ≠ 0 → q ∣ p → convertParam (.frac p q) = .Z (p / q) ∧ ((p / q : ℤ) : ℚ) = (p : ℚ) / (q : ℚ)) ∧
    (∀ p q, q ≠ 0 → ¬ q ∣ p →
      convertParam (.frac p q) = .Q ((p : ℚ) / (q : ℚ)).num ((p : ℚ) / (q : ℚ)).den) ∧
    (∀ sign man exp, man ≠ 0 → 0 ≤ exp → ∃ m : ℤ, convertParam (.mpf sign man exp) = .Z m ∧
      (m : ℚ) = (if sign ≠ 0 then -(man : ℚ) else (man : ℚ)) * 2 ^ exp) ∧
    (∀ sign man exp, man ≠ 0 → -4 ≤ exp → exp < 0 → ∃ r : ℚ, convertParam (.mpf sign man exp) = .Q r.num r.den ∧
      r = (if sign ≠ 0 then -(man : ℚ) else (man : ℚ)) * 2 ^ exp) ∧
    (∀ sign man exp, man ≠ 0 → exp < -4 → convertParam (.mpf sign man exp) = .R) ∧
    (∀ sign, convertParam (.mpf sign 0 0) = .Z 0) ∧
    (∀ sign exp, exp ≠ 0 → convertParam (.mpf sign 0 exp) = .U) ∧
    (∀ sign man exp, convertParam (.mpc sign man exp false) = .C) ∧
    (∀ sign man exp, convertParam (.mpc sign man exp true) = convertParam (.mpf sign man exp)) := by
  refine ⟨fun n => rfl, fun p => by simp [convertParam], ?_, ?_, ?_, ?_, ?_, ?_, ?_, fun _ _ _ => rfl, fun _ _ _ => rfl⟩
  · intro p q hq hd
    constructor
    · simp [convertParam, hq, Int.emod_eq_zero_of_dvd hd]
    · rw [Int.cast_div hd (by exact_mod_cast hq)]
  · intro p q hq hd
    have hm : ¬ p % q = 0 := fun h => hd (Int.dvd_of_emod_eq_zero h)
    simp only [convertParam, hq, hm, if_false]
    have hr : (if q < 0 then mkRat (-p) (-q).toNat else mkRat p q.toNat) = (p : ℚ) / (q : ℚ) := by
      split
      · rename_i hneg
        rw [Rat.mkRat_eq_div]
        have : (((-q).toNat : ℕ) : ℤ) = -q := by omega
        rw [← Int.cast_natCast (R := ℚ), this]; push_cast; rw [neg_div_neg_eq]
      · rename_i hneg
        rw [Rat.mkRat_eq_div]
        have : ((q.toNat : ℕ) : ℤ) = q := by omega
        rw [← Int.cast_natCast (R := ℚ), this]
    rw [hr]
  · intro sign man exp hman hexp
    refine ⟨(if sign ≠ 0 then -(man : ℤ) else (man : ℤ)) * ((2 ^ exp.toNat : ℕ) : ℤ), ?_, ?_⟩
    · simp only [convertParam, convertMpf, hman, hexp, show (-4 : ℤ) ≤ exp by omega, ne_eq, not_false_eq_true,
        if_true]
    · have : exp = ((exp.toNat : ℕ) : ℤ) := by omega
      conv_rhs => rw [this, zpow_natCast]
      split <;> push_cast <;> rfl
  · intro sign man exp hman h4 hneg
    refine ⟨mkRat (if sign ≠ 0 then -(man : ℤ) else (man : ℤ)) (2 ^ (-exp).toNat), ?_, ?_⟩
    · simp only [convertParam, convertMpf, hman, h4, show ¬ (0 ≤ exp) by omega, ne_eq, not_false_eq_true,
        if_true, if_false]
    · rw [Rat.mkRat_eq_div]
      have : exp = -(((-exp).toNat : ℕ) : ℤ) := by omega
      conv_rhs => rw [this, zpow_neg, zpow_natCast]
      split <;> push_cast <;> rw [div_eq_mul_inv]
  · intro sign man exp hman h4
    simp [convertParam, convertMpf, hman, show ¬ (-4 ≤ exp) by omega]
  · intro sign; simp [convertParam, convertMpf]
  · intro sign exp he; simp [convertParam, convertMpf, he]

/-! ### non-vacuity -/

-- 2F1(−2, 1; 1/2; 1/3) = 1 − 4/3 + 8/27 = −1/27
example : hyperRef [-2, 1] [1 / 2] (1 / 3) = .val (.rat (-1) 27) := by decide +kernel
example : hyperRef [-3, 1] [-1] (1 / 3) = .pole := by decide +kernel
example : hyperRef [-3, 1] [-3] (1 / 3) ≠ .pole := by decide +kernel
-- T_3(1/2) = −1, P_2(1/2) = −1/8
example : recRef 3 (chebytQ (1 / 2)) = .val (.rat (-1) 1) := by decide +kernel
example : recRef 2 (legendreQ (1 / 2)) = .val (.rat (-1) 8) := by decide +kernel
example : hypsumPoleRaises 2 [(true, -3), (false, 0), (true, -1)] = true := by decide
example : hypsumPoleRaises 2 [(true, -3), (false, 0), (true, -3)] = false := by decide
example : convertParam (.mpf 1 3 (-2)) = .Q (-3) 4 := by decide +kernel
example : convertParam (.mpf 0 3 (-5)) = .R := by decide +kernel

end Mp
