/-
  Props/C15abs.lean — C15, modulus of a complex interval (rectangle): for every `x + iy` of the rectangle,
  `|x + iy| = sqrt(x² + y²)` lies between the endpoints returned by `mpci_abs` (general branch, stated over ℝ with Mathlib's
  `Real.sqrt`), and on the two axis branches (one component the exact zero interval) the result is the real interval
  absolute value of the other component.
-/
import Props.C15
import MpProofs.CIntervalAbs

namespace Mp

theorem C15_abs {Z : Mpci} (hZ : FinCi Z) (hne1 : Z.1 ≠ mpi_zero) (hne2 : Z.2 ≠ mpi_zero)
    {prec : ℤ} (hp : 0 < prec) {x y : ℚ} (hz : MemCi x y Z) :
    ∃ r, mpci_abs Z prec = .ok r ∧ CanonFin r.1 ∧ CanonFin r.2 ∧
      valK ℝ r.1 ≤ Real.sqrt ((x * x + y * y : ℚ) : ℝ) ∧ Real.sqrt ((x * x + y * y : ℚ) : ℝ) ≤ valK ℝ r.2 :=
  mpci_abs_general_sound hZ.1 hZ.2 hne1 hne2 hp hz.1 hz.2

/-- purely imaginary rectangle (real part the exact zero interval): `|iy| = |y|` -/
theorem C15_abs_imag_axis {Z : Mpci} (hZ : FinCi Z) (h1 : Z.1 = mpi_zero) (prec : ℤ) {y : ℚ} (hy : MemIv y Z.2) :
    mpci_abs Z prec = .ok (mpi_abs Z.2) ∧ FinIv (mpi_abs Z.2) ∧ MemIv |y| (mpi_abs Z.2) := by
  obtain ⟨f, m⟩ := mpi_abs_sound hZ.2 (le_refl 0) hy
  refine ⟨?_, f, m⟩
  unfold mpci_abs
  simp [h1]

/-- real rectangle (imaginary part the exact zero interval): `|x| ` -/
theorem C15_abs_real_axis {Z : Mpci} (hZ : FinCi Z) (h1 : Z.1 ≠ mpi_zero) (h2 : Z.2 = mpi_zero) (prec : ℤ) {x : ℚ}
    (hx : MemIv x Z.1) :
    mpci_abs Z prec = .ok (mpi_abs Z.1) ∧ FinIv (mpi_abs Z.1) ∧ MemIv |x| (mpi_abs Z.1) := by
  obtain ⟨f, m⟩ := mpi_abs_sound hZ.1 (le_refl 0) hx
  refine ⟨?_, f, m⟩
  unfold mpci_abs
  simp [h1, h2]

end Mp
