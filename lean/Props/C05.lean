/-
  Props/C05.lean — C05 (comparison half): ordering and equality of mpmath reals agree with comparison
  of the exact rational values. (The hash half is in Props/C05hash.lean.)
-/
import MpProofs.Cmp

namespace Mp

/-- `mpf_cmp` is the exact three-way comparison (−1, 0, 1) of the values, for ALL finite canonical
operands: mantissas of any length, exponents of any size, either sign. -/
theorem C05_cmp {s t : Mpf} (hs : CanonFin s) (ht : CanonFin t) :
    mpf_cmp s t = (if val s < val t then -1 else if val s = val t then 0 else 1) := mpf_cmp_spec hs ht

theorem C05_lt {s t : Mpf} (hs : CanonFin s) (ht : CanonFin t) : mpf_lt s t = decide (val s < val t) := mpf_lt_spec hs ht
theorem C05_le {s t : Mpf} (hs : CanonFin s) (ht : CanonFin t) : mpf_le s t = decide (val s ≤ val t) := mpf_le_spec hs ht
theorem C05_gt {s t : Mpf} (hs : CanonFin s) (ht : CanonFin t) : mpf_gt s t = decide (val s > val t) := mpf_gt_spec hs ht
theorem C05_ge {s t : Mpf} (hs : CanonFin s) (ht : CanonFin t) : mpf_ge s t = decide (val s ≥ val t) := mpf_ge_spec hs ht
theorem C05_eq {s t : Mpf} (hs : CanonFin s) (ht : CanonFin t) : mpf_eq s t = decide (val s = val t) := mpf_eq_spec hs ht

/-- nan is unordered and unequal to everything, including itself -/
theorem C05_nan (t : Mpf) :
    mpf_lt fnan t = false ∧ mpf_le fnan t = false ∧ mpf_gt fnan t = false ∧ mpf_ge fnan t = false ∧
    mpf_lt t fnan = false ∧ mpf_le t fnan = false ∧ mpf_gt t fnan = false ∧ mpf_ge t fnan = false ∧
    mpf_eq fnan t = false ∧ mpf_eq t fnan = false := by
  simp [mpf_lt, mpf_le, mpf_gt, mpf_ge, mpf_eq, fnan]

/-- the infinities are above / below every finite canonical value -/
theorem C05_inf {t : Mpf} (ht : CanonFin t) :
    mpf_cmp finf t = 1 ∧ mpf_cmp t finf = -1 ∧ mpf_cmp fninf t = -1 ∧ mpf_cmp t fninf = 1 := by
  rcases ht.cases with rfl | ⟨hm, h1, h2, h3⟩
  · decide
  · have e1 : t ≠ fzero := by intro h; rw [h] at hm; exact hm rfl
    have e2 : t ≠ finf := by intro h; rw [h] at hm; exact hm rfl
    have e3 : t ≠ fninf := by intro h; rw [h] at hm; exact hm rfl
    have e4 : t ≠ fnan := by intro h; rw [h] at hm; exact hm rfl
    have f1 : finf ≠ fzero := by decide
    have f2 : fninf ≠ fzero := by decide
    have f3 : finf.man = 0 := rfl
    have f4 : fninf.man = 0 := rfl
    have f5 : fninf ≠ finf := by decide
    have f6 : finf ≠ fnan := by decide
    have f7 : finf ≠ fninf := by decide
    have f8 : fninf ≠ fnan := by decide
    refine ⟨?_, ?_, ?_, ?_⟩ <;>
      simp [mpf_cmp, f1, f2, f3, f4, f5, f6, f7, f8, e1, e2, e3, e4, Ne.symm e1, Ne.symm e2, Ne.symm e3, Ne.symm e4]

/-- equal values have identical canonical encodings, hence compare equal as tuples and hash equally -/
theorem C05_val_inj {s t : Mpf} (hs : CanonFin s) (ht : CanonFin t) (h : val s = val t) : s = t :=
  canonFin_val_inj hs ht h

example : CanonFin (⟨0, 3, -1, 2⟩ : Mpf) ∧ CanonFin (⟨1, 0x10000000000000000001, -80, 77⟩ : Mpf) := by decide

end Mp
