/-
  Props/C14more.lean — C14, further containment theorems: interval abs, square (exact rational arithmetic) and square
  root (over ℝ).  For intervals with finite canonical endpoints of any bit length and every precision:
  |x| ∈ mpi_abs(I), x² ∈ mpi_square(I) for every x ∈ I (all three sign cases each), and for nonnegative I and prec ≥ 1
  sqrt x lies between the endpoints returned by mpi_sqrt (the endpoints are THE floor/ceiling roundings of the real
  square roots of the input endpoints, `C02_sqrt`).
-/
import MpProofs.IntervalMore
import MpProofs.IntervalDiv

namespace Mp

theorem C14_abs {s : Mpi} (hs : FinIv s) {prec : ℤ} (hp : 0 ≤ prec) {x : ℚ} (hx : MemIv x s) :
    FinIv (mpi_abs s prec) ∧ MemIv |x| (mpi_abs s prec) := mpi_abs_sound hs hp hx

theorem C14_square {s : Mpi} (hs : FinIv s) {prec : ℤ} (hp : 0 ≤ prec) {x : ℚ} (hx : MemIv x s) :
    FinIv (mpi_square s prec) ∧ MemIv (x * x) (mpi_square s prec) := mpi_square_sound hs hp hx

theorem C14_sqrt {s : Mpi} (hs : FinIv s) (hnn : 0 ≤ val s.1) {prec : ℤ} (hp : 0 < prec) {x : ℚ} (hx : MemIv x s) :
    ∃ r, mpi_sqrt s prec = .ok r ∧ CanonFin r.1 ∧ CanonFin r.2 ∧
      valK ℝ r.1 ≤ Real.sqrt (x : ℝ) ∧ Real.sqrt (x : ℝ) ≤ valK ℝ r.2 := mpi_sqrt_sound hs hnn hp hx

/-- division when the denominator interval does not contain zero: `x / y` lies in the result for every `x ∈ s`, `y ∈ t`
(all sign cases of the numerator; a negative denominator is handled by the code's exact negation of both operands) -/
theorem C14_div {s t : Mpi} (hs : FinIv s) (ht : FinIv t) (h0 : 0 < val t.1 ∨ val t.2 < 0) {prec : ℤ} (hp : 0 < prec)
    {x y : ℚ} (hx : MemIv x s) (hy : MemIv y t) :
    ∃ r, mpi_div s t prec = .ok r ∧ FinIv r ∧ MemIv (x / y) r := by
  rcases h0 with h | h
  · exact mpi_div_pos_sound hs ht h hp hx hy
  · exact mpi_div_neg_sound hs ht h hp hx hy

example : FinIv (⟨1, 3, 0, 2⟩, fone) ∧ MemIv (-2) (⟨1, 3, 0, 2⟩, fone) := by
  refine ⟨⟨Or.inr ⟨by decide, by decide, by decide⟩, Or.inr ⟨by decide, by decide, by decide⟩, ?_⟩, ?_, ?_⟩ <;>
    simp [val, fone] <;> norm_num

end Mp
