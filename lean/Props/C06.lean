/-
  Props/C06.lean — C06: integer-part functions and modulo follow their exact definitions.

  For every finite canonical real (mantissa of any length, any exponent), every precision and rounding mode:
  floor / ceil / nint give THE integer ⌊x⌋ / ⌈x⌉ / round-half-even(x), exact when `prec = 0` and otherwise correctly
  rounded to `prec` bits; `frac(x)` is the correctly rounded `x - ⌊x⌋ ∈ [0,1)`; `int()` truncates toward zero; `x % y` is the
  correctly rounded `x - y⌊x/y⌋`, which has the sign of `y`, magnitude below `|y|` and differs from `x` by an integer multiple
  of `y`; `x % 0` raises.  Complex floor/ceil/nint/frac act componentwise.
  The statements are about the model (MpModel/Core.lean, MpModel/Complex.lean), tied bit-for-bit to libmpf/libmpc by the
  correspondence run of the check.
-/
import MpProofs.IntPart
import MpModel.Complex

namespace Mp

/-- `floor`: the exact integer when `prec = 0`, otherwise its correct rounding to `prec` bits -/
theorem C06_floor {s : Mpf} (hs : CanonFin s) {prec : Int} (hp : 0 ≤ prec) (rnd : Rnd) :
    ∃ r, mpf_floor s prec rnd = .ok r ∧ RoundOK prec rnd ((⌊val s⌋ : ℤ) : ℚ) r := mpf_floor_spec hs hp rnd

theorem C06_ceil {s : Mpf} (hs : CanonFin s) {prec : Int} (hp : 0 ≤ prec) (rnd : Rnd) :
    ∃ r, mpf_ceil s prec rnd = .ok r ∧ RoundOK prec rnd ((⌈val s⌉ : ℤ) : ℚ) r := mpf_ceil_spec hs hp rnd

/-- `nint`: the nearest integer, ties to the even integer (`IsNint`) -/
theorem C06_nint {s : Mpf} (hs : CanonFin s) {prec : Int} (hp : 0 ≤ prec) (rnd : Rnd) :
    ∃ (r : Mpf) (n : ℤ), mpf_nint s prec rnd = .ok r ∧
      (|val s - (n : ℚ)| ≤ 1 / 2 ∧ (|val s - (n : ℚ)| = 1 / 2 → n % 2 = 0)) ∧
      RoundOK prec rnd (n : ℚ) r := mpf_nint_spec hs hp rnd

/-- the nearest-even integer is unique -/
theorem C06_nint_unique {x : ℚ} {n m : ℤ} (hn : IsNint x n) (hm : IsNint x m) : n = m := by
  obtain ⟨h1, h1'⟩ := hn
  obtain ⟨h2, h2'⟩ := hm
  by_contra hne
  have habs : |(n : ℚ) - m| ≤ 1 := by
    have : (n : ℚ) - m = (x - m) - (x - n) := by ring
    rw [this]
    calc |(x - m) - (x - n)| ≤ |x - m| + |x - n| := abs_sub _ _
      _ ≤ 1 := by linarith
  have hint : |(n : ℚ) - m| = ((|n - m| : ℤ) : ℚ) := by push_cast; rfl
  have h1z : |n - m| ≤ 1 := by
    have : ((|n - m| : ℤ) : ℚ) ≤ 1 := by rw [← hint]; exact habs
    exact_mod_cast this
  have h0z : 0 < |n - m| := abs_pos.2 (sub_ne_zero.2 hne)
  have hd : |n - m| = 1 := by omega
  -- both distances must be exactly 1/2, so both are even: impossible for neighbours
  have hsum : |x - n| + |x - m| ≥ 1 := by
    have : (1 : ℚ) = |(n : ℚ) - m| := by rw [hint, hd]; simp
    rw [this]
    have : (n : ℚ) - m = (x - m) - (x - n) := by ring
    rw [this]
    calc |(x - m) - (x - n)| ≤ |x - m| + |x - n| := abs_sub _ _
      _ = |x - n| + |x - m| := add_comm _ _
  have e1 : |x - n| = 1 / 2 := by linarith
  have e2 : |x - m| = 1 / 2 := by linarith
  have p1 := h1' e1
  have p2 := h2' e2
  rcases abs_eq (by norm_num : (0 : ℤ) ≤ 1) |>.1 hd with h | h <;> omega

/-- `frac(x) = x - ⌊x⌋`, rounded once; the exact value lies in `[0, 1)` -/
theorem C06_frac {s : Mpf} (hs : CanonFin s) {prec : Int} (hp : 0 ≤ prec) (rnd : Rnd) :
    ∃ r, mpf_frac s prec rnd = .ok r ∧ RoundOK prec rnd (val s - ((⌊val s⌋ : ℤ) : ℚ)) r ∧
      0 ≤ val s - ((⌊val s⌋ : ℤ) : ℚ) ∧ val s - ((⌊val s⌋ : ℤ) : ℚ) < 1 := by
  obtain ⟨r, hr, hok⟩ := mpf_frac_spec hs hp rnd
  exact ⟨r, hr, hok, (frac_range (val s)).1, (frac_range (val s)).2⟩

/-- `int(x)` truncates toward zero -/
theorem C06_to_int {s : Mpf} (hs : CanonFin s) :
    to_int s none = .ok (if 0 ≤ val s then ⌊val s⌋ else ⌈val s⌉) := to_int_spec hs

/-- `x % y` for every nonzero divisor: the correctly rounded value of `x - y⌊x/y⌋` -/
theorem C06_mod {s t : Mpf} (hs : CanonFin s) (ht : CanonFin t) (ht0 : t ≠ fzero) {prec : Int} (hp : 0 < prec)
    (rnd : Rnd) :
    ∃ r, mpf_mod s t prec rnd = .ok r ∧ RoundOK prec rnd (val s - val t * ((⌊val s / val t⌋ : ℤ) : ℚ)) r :=
  mpf_mod_spec hs ht ht0 hp rnd

/-- the exact remainder has the sign of the divisor, magnitude below `|y|`, and differs from `x` by an integer
multiple of `y` -/
theorem C06_mod_exact_properties (x : ℚ) {y : ℚ} (hy : y ≠ 0) :
    (0 < y → 0 ≤ modQ x y ∧ modQ x y < y) ∧ (y < 0 → y < modQ x y ∧ modQ x y ≤ 0) ∧
    |modQ x y| < |y| ∧ ∃ k : ℤ, x - modQ x y = (k : ℚ) * y := by
  unfold modQ
  have h1 := Int.floor_le (x / y)
  have h2 := Int.lt_floor_add_one (x / y)
  generalize (⌊x / y⌋ : ℤ) = q at *
  have hpos : 0 < y → 0 ≤ x - y * q ∧ x - y * q < y := by
    intro hy0
    rw [le_div_iff₀ hy0] at h1
    rw [div_lt_iff₀ hy0] at h2
    constructor <;> nlinarith
  have hneg : y < 0 → y < x - y * q ∧ x - y * q ≤ 0 := by
    intro hy0
    rw [le_div_iff_of_neg hy0] at h1
    rw [div_lt_iff_of_neg hy0] at h2
    constructor <;> nlinarith
  refine ⟨hpos, hneg, ?_, q, by ring⟩
  rcases lt_or_gt_of_ne hy with h | h
  · obtain ⟨a, b⟩ := hneg h
    rw [abs_of_nonpos b, abs_of_neg h]; linarith
  · obtain ⟨a, b⟩ := hpos h
    rw [abs_of_nonneg a, abs_of_pos h]; exact b

/-- `x % 0` raises ZeroDivisionError for every finite `x` (after the repair of the `0 < x < 1` shortcut) -/
theorem C06_mod_zero {s : Mpf} (hs : CanonFin s) (prec : Int) (rnd : Rnd) :
    mpf_mod s fzero prec rnd = .error .zeroDiv := by
  unfold mpf_mod
  have h0 : isSpecial fzero = false := rfl
  have h1 : fzero.man = 0 := rfl
  simp only [hs.finite, h0, h1, Bool.false_eq_true, or_self, if_false, if_true]

/-- complex floor / ceil / nint / frac are the real functions applied to each component -/
theorem C06_complex_componentwise (z : Mpc) (prec : Int) (rnd : Rnd) :
    mpc_floor z prec rnd = (do let a ← mpf_floor z.1 prec rnd; let b ← mpf_floor z.2 prec rnd; pure (a, b)) ∧
    mpc_ceil z prec rnd = (do let a ← mpf_ceil z.1 prec rnd; let b ← mpf_ceil z.2 prec rnd; pure (a, b)) ∧
    mpc_nint z prec rnd = (do let a ← mpf_nint z.1 prec rnd; let b ← mpf_nint z.2 prec rnd; pure (a, b)) ∧
    mpc_frac z prec rnd = (do let a ← mpf_frac z.1 prec rnd; let b ← mpf_frac z.2 prec rnd; pure (a, b)) :=
  ⟨rfl, rfl, rfl, rfl⟩

/-! non-vacuity: concrete values, including ties, |x| < 1 and operands longer than the precision -/
example : mpf_floor ⟨1, 5, -1, 3⟩ 0 .d = .ok ⟨1, 3, 0, 2⟩ := by decide          -- floor(-2.5) = -3
example : mpf_nint ⟨0, 5, -1, 3⟩ 0 .d = .ok ⟨0, 1, 1, 1⟩ := by decide            -- nint(2.5) = 2 (tie to even)
example : mpf_nint ⟨0, 7, -1, 3⟩ 0 .d = .ok ⟨0, 1, 2, 1⟩ := by decide            -- nint(3.5) = 4
example : mpf_nint ⟨1, 1, -1, 1⟩ 0 .d = .ok fzero := by decide                    -- nint(-0.5) = 0
example : mpf_ceil ⟨0, 1, -70, 1⟩ 0 .d = .ok fone := by decide                    -- ceil(2^-70) = 1
example : to_int ⟨1, 7, -1, 3⟩ none = .ok (-3) := by decide                       -- int(-3.5) = -3
example : mpf_mod ⟨0, 5, 0, 3⟩ ⟨1, 3, 0, 2⟩ 53 .n = .ok ⟨1, 1, 0, 1⟩ := by decide -- 5 % -3 = -1

end Mp
