/-
  Props/C26.lean — C26 (numerical integration), level: translation validation with a PROVED validator.

  The quantifier "for all integrands / intervals / precisions" is sampled: the harness runs the real
  `quad` / `quadts` / `quadgl` on members of the integrand families `Mp.Calc.Fam` (polynomials, `e^{cx}`,
  `sin cx`, `cos cx`, `x e^{cx}`, `e^{ax} cos bx`, `e^{ax} sin bx`, `1/(1+x²)`, `1/(x+c)`; separable products of
  these in 2 and 3 dimensions) and `Mp.Calc.FamInf` (`x^n e^{-x}` on (0,∞), `e^{-cx}` on (a,∞), Gaussians),
  reads the result exactly as a dyadic `y` and asks the compiled checker.  What is proved here:
    * the closed form used as reference IS the integral (Mathlib: FTC with the antiderivative checked by
      differentiation, Γ(n+1) = n!, the Gaussian integral);
    * a verdict `ok` / `violates` of the executable checker is a theorem about that integral:
      `|y − ∫| < 2^(10−p)·max(|∫|, 1)` ("relative or absolute error below 2^(10−p)") resp. its negation;
    * the driver logic (limit reversal, interior split points) over any additive rule: `Props/C26` imports
      `MpProofs/CalcLogicB` for `reverse_limits_neg`, `split_additive`;
    * the node cache never serves nodes of another `(a, b, degree, prec)`: `Mp.quadNodes_refines` (Props/C33).
  Not claimed: a theorem about tanh-sinh / Gauss-Legendre convergence; complex paths.
-/
import MpProofs.CalcFam
import MpProofs.CalcLogicB

namespace Mp
open Mp.Calc Mp.Encl MeasureTheory

/-- the 1-D closed form is the integral: `∫_a^b f = (f.integralRef a b).sem` for rational limits in either order -/
theorem C26_integral_1d (f : Fam) (a b : ℚ) (r : Ref) (h : f.integralRef a b = some r) :
    ∫ x in (a : ℝ)..(b : ℝ), f.fn x = r.sem :=
  Fam.integral_eq f a b r h

/-- infinite ranges: `∫_0^∞ x^n e^{-x} = n!`, `∫_a^∞ e^{-cx} = e^{-ca}/c`, `∫_ℝ e^{-bx²} = √(π/b)`,
`∫_0^∞ e^{-bx²} = √(π/b)/2` -/
theorem C26_integral_infinite (f : FamInf) (r : Ref) (h : f.integralRef = some r) :
    ∫ x in f.dom, f.fn x = r.sem :=
  FamInf.integral_eq f r h

/-- 2-D: the iterated integral (as `quad` nests it) of a separable integrand `c·f(x)·g(y)` over a rectangle -/
theorem C26_integral_2d (c : ℚ) (F G : Factor) (r : Ref) (h : sepIntegralRef c [F, G] = some r) :
    ∫ x in (F.a : ℝ)..(F.b : ℝ), ∫ y in (G.a : ℝ)..(G.b : ℝ), (c : ℝ) * (F.f.fn x * G.f.fn y) = r.sem := by
  simp only [sepIntegralRef, List.mapM_cons, List.mapM_nil, Option.pure_def, Option.bind_eq_bind] at h
  cases hF : F.f.integralRef F.a F.b with
  | none => simp [hF] at h
  | some rF =>
    cases hG : G.f.integralRef G.a G.b with
    | none => simp [hF, hG] at h
    | some rG =>
      simp only [hF, hG, Option.bind_some, Option.some.injEq] at h
      subst h
      simp only [Ref.sem, Ref.sem_prod, List.map_cons, List.map_nil, List.prod_cons, List.prod_nil, mul_one]
      rw [← Fam.integral_eq F.f F.a F.b rF hF, ← Fam.integral_eq G.f G.a G.b rG hG]
      simp only [intervalIntegral.integral_const_mul, intervalIntegral.integral_mul_const]

/-- 3-D: the iterated integral of `c·f(x)·g(y)·h(z)` over a cuboid -/
theorem C26_integral_3d (c : ℚ) (F G H : Factor) (r : Ref) (h : sepIntegralRef c [F, G, H] = some r) :
    ∫ x in (F.a : ℝ)..(F.b : ℝ), ∫ y in (G.a : ℝ)..(G.b : ℝ), ∫ z in (H.a : ℝ)..(H.b : ℝ),
      (c : ℝ) * (F.f.fn x * G.f.fn y * H.f.fn z) = r.sem := by
  simp only [sepIntegralRef, List.mapM_cons, List.mapM_nil, Option.pure_def, Option.bind_eq_bind] at h
  cases hF : F.f.integralRef F.a F.b with
  | none => simp [hF] at h
  | some rF =>
    cases hG : G.f.integralRef G.a G.b with
    | none => simp [hF, hG] at h
    | some rG =>
      cases hH : H.f.integralRef H.a H.b with
      | none => simp [hF, hG, hH] at h
      | some rH =>
        simp only [hF, hG, hH, Option.bind_some, Option.some.injEq] at h
        subst h
        simp only [Ref.sem, Ref.sem_prod, List.map_cons, List.map_nil, List.prod_cons, List.prod_nil, mul_one]
        rw [← Fam.integral_eq F.f F.a F.b rF hF, ← Fam.integral_eq G.f G.a G.b rG hG,
          ← Fam.integral_eq H.f H.a H.b rH hH]
        simp only [intervalIntegral.integral_const_mul, intervalIntegral.integral_mul_const]
        ring

/-- 1-D with a constant factor (the shape the driver op `quad1` checks) -/
theorem C26_integral_1d_scaled (c : ℚ) (F : Factor) (r : Ref) (h : sepIntegralRef c [F] = some r) :
    ∫ x in (F.a : ℝ)..(F.b : ℝ), (c : ℝ) * F.f.fn x = r.sem := by
  simp only [sepIntegralRef, List.mapM_cons, List.mapM_nil, Option.pure_def, Option.bind_eq_bind] at h
  cases hF : F.f.integralRef F.a F.b with
  | none => simp [hF] at h
  | some rF =>
    simp only [hF, Option.bind_some, Option.some.injEq] at h
    subst h
    simp only [Ref.sem, Ref.sem_prod, List.map_cons, List.map_nil, List.prod_cons, List.prod_nil, mul_one]
    rw [← Fam.integral_eq F.f F.a F.b rF hF, intervalIntegral.integral_const_mul]

/-- verdict `ok` of the checker in the mode used for C26 (`fl = 1`, strict): the dyadic `y` has
"relative or absolute error below `2^(k−p)`" w.r.t. the exact value `v` of the reference -/
theorem C26_checker_ok (r : Ref) (y : Dy) (p k : ℕ) (h : checkClose r y p k 1 true = .ok) :
    |y.val - r.sem| < (2 : ℝ) ^ ((k : ℤ) - (p : ℤ)) * max |r.sem| 1 := by
  have := (checkClose_sound_ok r y p k 1 true h).2 rfl
  simpa [tol] using this

/-- verdict `violates` ⇒ the error is NOT below the tolerance -/
theorem C26_checker_violates (r : Ref) (y : Dy) (p k : ℕ) (h : checkClose r y p k 1 true = .violates) :
    ¬ |y.val - r.sem| < (2 : ℝ) ^ ((k : ℤ) - (p : ℤ)) * max |r.sem| 1 := by
  have := (checkClose_sound_violates r y p k 1 true h).2 rfl
  simp only [tol, Rat.cast_one] at this
  exact not_lt.2 this

/-- the combined statement for a finite 1-D integral: checker `ok` on the family's closed form ⇒ the value
returned by `quad` is within the property's tolerance of the true integral -/
theorem C26_quadCheck_sound (f : Fam) (a b : ℚ) (r : Ref) (y : Dy) (p : ℕ)
    (hr : f.integralRef a b = some r) (h : checkClose r y p 10 1 true = .ok) :
    |y.val - ∫ x in (a : ℝ)..(b : ℝ), f.fn x| <
      (2 : ℝ) ^ ((10 : ℤ) - (p : ℤ)) * max |∫ x in (a : ℝ)..(b : ℝ), f.fn x| 1 := by
  rw [C26_integral_1d f a b r hr]
  simpa using C26_checker_ok r y p 10 h

/-- … and `violates` ⇒ it is not -/
theorem C26_quadCheck_violates (f : Fam) (a b : ℚ) (r : Ref) (y : Dy) (p : ℕ)
    (hr : f.integralRef a b = some r) (h : checkClose r y p 10 1 true = .violates) :
    ¬ |y.val - ∫ x in (a : ℝ)..(b : ℝ), f.fn x| <
      (2 : ℝ) ^ ((10 : ℤ) - (p : ℤ)) * max |∫ x in (a : ℝ)..(b : ℝ), f.fn x| 1 := by
  rw [C26_integral_1d f a b r hr]
  simpa using C26_checker_violates r y p 10 h

/-! ### driver logic of `QuadratureRule.summation` over an abstract rule (exact model `MpModel/CalcLogicB.lean`) -/

/-- `split_additive`: if the converged sub-interval result `rule a b` is additive (`rule a b + rule b c = rule a c`, as the exact
integral is), the driver's sum over consecutive pairs of `points` (skipping `a == b`) is `rule first last`: interior split points
and repeated points do not change the result -/
theorem C26_split_additive {X V : Type} [DecidableEq X] [AddCommGroup V] (rule : X → X → V)
    (h : ∀ a b c, rule a b + rule b c = rule a c) (a : X) (l : List X) :
    quadSum rule (a :: l) = rule a ((a :: l).getLast (List.cons_ne_nil _ _)) :=
  split_additive h a l

/-- `reverse_limits_neg`: reversing the list of points negates the driver's result -/
theorem C26_reverse_limits_neg {X V : Type} [DecidableEq X] [AddCommGroup V] (rule : X → X → V)
    (h : ∀ a b c, rule a b + rule b c = rule a c) (points : List X) :
    quadSum rule points.reverse = - quadSum rule points :=
  reverse_limits_neg h points

-- non-vacuity: rule a b = b² − a² on the points [0, 3, 3, 7, 2]
example : quadSum (fun a b : ℤ => b ^ 2 - a ^ 2) [0, 3, 3, 7, 2] = 4 := by decide


-- non-vacuity: ∫_0^1 x² dx = 1/3 against the 53-bit double nearest 1/3, and against 0.34
example : (Fam.poly [(1, 2)]).integralRef 0 1 ≠ none := by decide
example : checkClose (((Fam.poly [(1, 2)]).integralRef 0 1).getD (.rat 0)) ⟨6004799503160661, -54⟩ 53 10 1 true = .ok := by
  decide +kernel
example : checkClose (((Fam.poly [(1, 2)]).integralRef 0 1).getD (.rat 0)) ⟨17, -50 + 44⟩ 53 10 1 true = .violates := by
  decide +kernel

end Mp
