/-
  Props/C36.lean — C36 (`chebyfit`, `fourier`, `fourierval`), level: translation validation with a PROVED
  validator.

  Property text: "chebyfit(f, [a, b], N) reproduces polynomials of degree below N to within 2^(10-p) relative,
  and its reported error bound is consistent with the actual error on sample points.  fourier(f, [a, b], N)
  recovers the coefficients of trigonometric polynomials of degree at most N to the same accuracy, and fourierval
  evaluates such series exactly as their definition."

  The quantifier "for all polynomials / intervals / N / precisions" is sampled by the harness, which runs the real
  functions of `/repo/mpmath/calculus/approximation.py` on inputs with rational data and reads every returned
  number exactly (mpf values are dyadic rationals).  What is proved here is that the checks it performs mean
  what they say, over ℝ:
    * `chebyfit` on a polynomial `P` (coefficients `c`, increasing degree) returns coefficients `d` (the harness
      reverses `chebyfit`'s highest-degree-first list).  The exact rational number
      `polyCoeffDist d c M = Σ_j |d[j] − c[j]|·M^j`, `M ≥ max(|a|, |b|)`, is compared with `t·S` by exact rational
      arithmetic; `C36_polyDiffBound_sound`: then `|fit(x) − P(x)| ≤ t·S` for EVERY real `x ∈ [−M, M] ⊇ [a, b]`
      (not only sample points).  `C36_polyCoeffDist_eq_sum` states what the number is.
    * values at sample points (the fitted polynomial, the reported error bound, `fourierval`, the coefficients
      returned by `fourier`) are compared with closed-form references by `checkCloseTo r sc y p k fl false`;
      `C36_checker_ok/_violates`: verdict `ok` ⇒ `|y − v| ≤ 2^(k−p)·max(|scale|, fl)`, verdict `violates` ⇒ its
      negation;
      `C36_poly_ref`: the reference for `P(x)` denotes `P(x)`;
    * `C36_fourierval_spec`: the reference for `fourierval((cs, ss), [a, b], x)` denotes
      `Σ_n cs[n]·cos(m n x) + Σ_n ss[n]·sin(m n x)`, `m = 2π/(b − a)` — the definition in the docstring, which the
      code (lines 242-246, skipping zero coefficients) implements; `C36_fourierval_check_sound` combines it with
      the checker.
  Not claimed: that the Fourier coefficient integrals `(2/L)∫ f cos(m n t) dt` of a trigonometric polynomial are its
  coefficients (orthogonality is used by the harness as the reference `Ref.rat c_n`, it is not proved here);
  convergence of the Chebyshev interpolation / Gauss-Legendre quadrature as theorems.
-/
import MpProofs.CalcOde

namespace Mp
open Mp.Calc Mp.Encl

/-! ## chebyfit: distance of the fitted polynomial from the input polynomial -/

/-- the quantity the harness computes exactly: `polyCoeffDist d c M = Σ_j |d[j] − c[j]|·M^j`
(missing coefficients are `0`) -/
theorem C36_polyCoeffDist_eq_sum (d c : List ℚ) (M : ℚ) :
    ((polyCoeffDist d c M : ℚ) : ℝ) = ∑ j ∈ Finset.range (max d.length c.length),
      |(d.getD j 0 : ℝ) - (c.getD j 0 : ℝ)| * (M : ℝ) ^ j :=
  polyCoeffDist_eq_sum d c M

/-- `listPolyFn l x` is the polynomial `Σ_j l[j]·x^j` -/
theorem C36_listPolyFn_def (l : List ℚ) (x : ℝ) :
    listPolyFn l x = ∑ j ∈ Finset.range l.length, (l.getD j 0 : ℝ) * x ^ j := rfl

/-- if the exact rational number `polyCoeffDist d c M` is at most `t·S` (a decidable comparison of rationals),
then the fitted polynomial `Σ d[j] x^j` is within `t·S` of the input polynomial `Σ c[j] x^j` at EVERY real
`x` with `|x| ≤ M` -/
theorem C36_polyDiffBound_sound (d c : List ℚ) (M t S : ℚ) (hM : 0 ≤ M) (h : polyCoeffDist d c M ≤ t * S) :
    ∀ x : ℝ, |x| ≤ (M : ℝ) → |listPolyFn d x - listPolyFn c x| ≤ (t : ℝ) * (S : ℝ) := by
  intro x hx
  have h' : ((polyCoeffDist d c M : ℚ) : ℝ) ≤ ((t * S : ℚ) : ℝ) := by exact_mod_cast h
  push_cast at h'
  exact le_trans (polyCoeffDist_bound d c M hM x hx) h'

/-- the bound is attained in the worst case `x = M` with all differences of one sign, e.g. for a constant
offset: it cannot be improved without more information (so the check is not needlessly strict there) -/
theorem C36_polyDiffBound_tight (c0 e M : ℚ) :
    polyCoeffDist [c0 + e] [c0] M = ratAbs e := by
  simp [polyCoeffDist, absHorner]

/-- the reference used for `P(x)` at a rational sample point denotes `P(x) = Σ c·x^n` -/
theorem C36_poly_ref (ts : List (ℚ × ℕ)) (x : ℚ) :
    (polyRef ts (.rat x)).sem = (ts.map fun t => (t.1 : ℝ) * (x : ℝ) ^ t.2).sum :=
  polyRef_sem ts (.rat x)

/-! ## the scaled closeness checker -/

/-- verdict `ok` of the scaled checker: the dyadic `y` is within `2^(k−p)·max(|scale|, fl)` of the exact
value of the reference `r` (`scale` = value of `sc`, e.g. the size of the polynomial / coefficient vector;
`fl` an absolute floor) -/
theorem C36_checker_ok (r sc : Ref) (y : Dy) (p k : ℕ) (fl : ℚ)
    (h : checkCloseTo r sc y p k fl false = .ok) :
    |y.val - r.sem| ≤ (2 : ℝ) ^ ((k : ℤ) - (p : ℤ)) * max |sc.sem| (fl : ℝ) := by
  have := (checkCloseTo_sound_ok r sc y p k fl false h).1 rfl
  simpa [tol] using this

/-- verdict `violates` ⇒ it is NOT within that tolerance -/
theorem C36_checker_violates (r sc : Ref) (y : Dy) (p k : ℕ) (fl : ℚ)
    (h : checkCloseTo r sc y p k fl false = .violates) :
    ¬ |y.val - r.sem| ≤ (2 : ℝ) ^ ((k : ℤ) - (p : ℤ)) * max |sc.sem| (fl : ℝ) := by
  have := (checkCloseTo_sound_violates r sc y p k fl false h).1 rfl
  simp only [tol] at this
  exact not_le.2 this

/-- a value `y` of the fitted polynomial at a rational sample point `x`, checked against `P(x)` relative to a
scale `S` (a rational, e.g. `Σ|c_j|·M^j`): `ok` ⇒ `|y − P(x)| ≤ 2^(k−p)·|S|` -/
theorem C36_polyvalCheck_sound (ts : List (ℚ × ℕ)) (x S : ℚ) (y : Dy) (p k : ℕ)
    (h : checkCloseTo (polyRef ts (.rat x)) (.rat S) y p k 0 false = .ok) :
    |y.val - (ts.map fun t => (t.1 : ℝ) * (x : ℝ) ^ t.2).sum| ≤ (2 : ℝ) ^ ((k : ℤ) - (p : ℤ)) * |(S : ℝ)| := by
  have := C36_checker_ok _ _ y p k 0 h
  rw [C36_poly_ref] at this
  simpa [Ref.sem] using this

/-! ## fourierval -/

/-- `fourierval` evaluates the series as its definition: the reference for `fourierval((cs, ss), [a, b], x)`
denotes `Σ_{n < len cs} cs[n]·cos(2π/(b−a)·n·x) + Σ_{n < len ss} ss[n]·sin(2π/(b−a)·n·x)` -/
theorem C36_fourierval_spec (cs ss : List ℚ) (a b x : ℚ) (r : Ref) (h : fourierRef cs ss a b x = some r) :
    r.sem = ∑ n ∈ Finset.range cs.length,
        (cs.getD n 0 : ℝ) * Real.cos (2 * Real.pi / ((b : ℝ) - (a : ℝ)) * (n : ℝ) * (x : ℝ)) +
      ∑ n ∈ Finset.range ss.length,
        (ss.getD n 0 : ℝ) * Real.sin (2 * Real.pi / ((b : ℝ) - (a : ℝ)) * (n : ℝ) * (x : ℝ)) :=
  fourierRef_sem cs ss a b x r h

/-- the reference exists exactly when the interval is non-degenerate (`a = b`: Python divides by zero) -/
theorem C36_fourierval_defined (cs ss : List ℚ) (a b x : ℚ) :
    (∃ r, fourierRef cs ss a b x = some r) ↔ a ≠ b := by
  unfold fourierRef
  by_cases h : a = b <;> simp [h]

/-- checker `ok` on the `fourierval` reference ⇒ the returned value `y` is within `2^(k−p)` (relative or
absolute) of the trigonometric sum `fourierSum cs ss a b x` (the sum displayed in `C36_fourierval_spec`) -/
theorem C36_fourierval_check_sound (cs ss : List ℚ) (a b x : ℚ) (r : Ref) (y : Dy) (p k : ℕ)
    (hr : fourierRef cs ss a b x = some r) (h : checkCloseTo r r y p k 1 false = .ok) :
    |y.val - fourierSum cs ss a b (x : ℝ)| ≤
      (2 : ℝ) ^ ((k : ℤ) - (p : ℤ)) * max |fourierSum cs ss a b (x : ℝ)| 1 := by
  rw [← fourierRef_sem' cs ss a b x r hr]
  simpa using C36_checker_ok r r y p k 1 h

/-- … and `violates` ⇒ it is not -/
theorem C36_fourierval_check_violates (cs ss : List ℚ) (a b x : ℚ) (r : Ref) (y : Dy) (p k : ℕ)
    (hr : fourierRef cs ss a b x = some r) (h : checkCloseTo r r y p k 1 false = .violates) :
    ¬ |y.val - fourierSum cs ss a b (x : ℝ)| ≤
      (2 : ℝ) ^ ((k : ℤ) - (p : ℤ)) * max |fourierSum cs ss a b (x : ℝ)| 1 := by
  rw [← fourierRef_sem' cs ss a b x r hr]
  simpa using C36_checker_violates r r y p k 1 h

/-- a coefficient `y` returned by `fourier`, checked against the rational coefficient `c` of the input
trigonometric polynomial relative to the size `S` of its coefficient vector: `ok` ⇒ `|y − c| ≤ 2^(k−p)·max(|S|, fl)` -/
theorem C36_fourierCoeffCheck_sound (c S fl : ℚ) (y : Dy) (p k : ℕ)
    (h : checkCloseTo (.rat c) (.rat S) y p k fl false = .ok) :
    |y.val - (c : ℝ)| ≤ (2 : ℝ) ^ ((k : ℤ) - (p : ℤ)) * max |(S : ℝ)| (fl : ℝ) := by
  simpa [Ref.sem] using C36_checker_ok (.rat c) (.rat S) y p k fl h

-- non-vacuity
-- chebyfit: fit 1 + 2x + (3 + 2^-40)x² against 1 + 2x + 3x² on [−2, 2]: distance 2^-38 ≤ 2^-43·(1+4+12)·2^6; not ≤ 2^-43·17
example : polyCoeffDist [1, 2, 3 + 1 / 1099511627776] [1, 2, 3] 2 = 1 / 274877906944 := by decide +kernel
example : polyCoeffDist [1, 2, 3 + 1 / 1099511627776] [1, 2, 3] 2 ≤ (1 / 8796093022208) * (17 * 64) := by
  decide +kernel
example : ¬ polyCoeffDist [1, 2, 3 + 1 / 1099511627776] [1, 2, 3] 2 ≤ (1 / 8796093022208) * 17 := by
  decide +kernel
-- lists of different lengths (a spurious leading coefficient 2^-50 of degree 3)
example : polyCoeffDist [1, 2, 3, 1 / 1125899906842624] [1, 2, 3] 2 = 8 / 1125899906842624 := by decide +kernel
-- scaled checker: 1/3 read as a double, scale 2, tolerance 2^(10−53)·2; and 0.34 violates
example : checkCloseTo (.rat (1 / 3)) (.rat 2) ⟨6004799503160661, -54⟩ 53 10 0 false = .ok := by decide +kernel
example : checkCloseTo (.rat (1 / 3)) (.rat 2) ⟨87, -8⟩ 53 10 0 false = .violates := by decide +kernel
-- P(x) = 1 + 2x + 3x² at x = 1/2 is 11/4
example : checkCloseTo (polyRef [(1, 0), (2, 1), (3, 2)] (.rat (1 / 2))) (.rat 17) ⟨11, -2⟩ 53 10 0 false = .ok := by
  decide +kernel
-- fourierval(([1, 2], [0, 3]), [0, 1], 1/4) = 1 + 2cos(π/2) + 3 sin(π/2) = 4; 4.5 violates; degenerate interval
example : fourierRef [1, 2] [0, 3] 0 1 (1 / 4) ≠ none := by decide +kernel
example : fourierRef [1, 2] [0, 3] 1 1 (1 / 4) = none := by decide +kernel
example : checkCloseTo ((fourierRef [1, 2] [0, 3] 0 1 (1 / 4)).getD (.rat 0))
    ((fourierRef [1, 2] [0, 3] 0 1 (1 / 4)).getD (.rat 0)) ⟨4, 0⟩ 53 10 1 false = .ok := by decide +kernel
example : checkCloseTo ((fourierRef [1, 2] [0, 3] 0 1 (1 / 4)).getD (.rat 0))
    ((fourierRef [1, 2] [0, 3] 0 1 (1 / 4)).getD (.rat 0)) ⟨9, -1⟩ 53 10 1 false = .violates := by decide +kernel

end Mp

/-! ## axiom audit -/
