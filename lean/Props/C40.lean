/-
  Props/C40.lean — pickling and copying preserve values exactly.
  Model: MpModel/Helpers.lean (`to_pickable`, `from_pickable`, `mpf/mpc_getstate/setstate`, heap model of
  `matrix.copy`).  The pickle machinery itself (`__reduce_ex__`, copyreg, class lookup) is tied by the harness.
-/
import MpProofs.Helpers

namespace Mp
open H

/-- The hexadecimal mantissa string decodes to the mantissa, for every natural number (any length, incl. 0). -/
theorem hex_roundtrip (n : Nat) : ofHex (toHex n) = some n := ofHex_toHex n

/-- `from_pickable (to_pickable x)` gives back exactly the tuple `x` — for EVERY raw tuple: any mantissa
length, zero, the specials inf, -inf, nan, and non-canonical tuples alike (no hypothesis on `x`). -/
theorem pickle_roundtrip (x : Mpf) : from_pickable (to_pickable x) = .ok x := by
  simp [from_pickable, to_pickable, ofHex_toHex]

/-- `mpf.__setstate__(mpf.__getstate__())` restores `_mpf_` exactly. -/
theorem mpf_state_roundtrip (x : Mpf) : mpf_setstate (mpf_getstate x) = .ok x := pickle_roundtrip x

/-- `mpc.__setstate__(mpc.__getstate__())` restores `_mpc_` exactly. -/
theorem mpc_state_roundtrip (z : Mpf × Mpf) : mpc_setstate (mpc_getstate z) = .ok z := by
  simp [mpc_setstate, mpc_getstate, pickle_roundtrip, bind, Except.bind, pure, Except.pure]

/-- the special values and zero survive (instances, checked by evaluation) -/
example : from_pickable (to_pickable finf) = .ok finf ∧ from_pickable (to_pickable fninf) = .ok fninf ∧
    from_pickable (to_pickable fnan) = .ok fnan ∧ from_pickable (to_pickable fzero) = .ok fzero ∧
    (to_pickable fzero).man = "0" ∧ (to_pickable ⟨1, 0xdeadbeef, -7, 32⟩).man = "deadbeef" := by
  refine ⟨pickle_roundtrip _, pickle_roundtrip _, pickle_roundtrip _, pickle_roundtrip _, by decide, by decide⟩

/-- `matrix.copy` preserves the shape and every entry, allocates a NEW dict, and leaves the original
readable as before.  Hypothesis: the matrix's `__data` dict is an object of the heap. -/
theorem copy_preserves (h : Heap) (m : Mat) (hm : m.ref < h.objs.length) :
    (matCopy h m).2.rows = m.rows ∧ (matCopy h m).2.cols = m.cols ∧ (matCopy h m).2.ref ≠ m.ref ∧
    ∀ i j, matGet (matCopy h m).1 (matCopy h m).2 i j = matGet h m i j ∧
           matGet (matCopy h m).1 m i j = matGet h m i j := by
  obtain ⟨hr, hc, href, _, hd1, hd2⟩ := matCopy_facts h m hm
  refine ⟨hr, hc, by omega, fun i j => ⟨matGet_congr _ _ _ _ hr hc hd1 i j, matGet_congr _ _ _ _ rfl rfl hd2 i j⟩⟩

/-- Independence: any successful element assignment to the COPY leaves every entry of the ORIGINAL
unchanged (and the copy reads back the assigned value, zero if a zero was assigned), and any successful
assignment to the ORIGINAL leaves every entry of the COPY equal to what the original held at copy time. -/
theorem matrix_copy_independent (h : Heap) (m : Mat) (hm : m.ref < h.objs.length)
    (i j : Nat) (v : Entry) (h'' : Heap) :
    (matSet (matCopy h m).1 (matCopy h m).2 i j v = .ok h'' →
      (∀ a b, matGet h'' m a b = matGet h m a b) ∧
      matGet h'' (matCopy h m).2 i j = .ok (if v.truthy then v else .mpf fzero) ∧
      (∀ a b, (i, j) ≠ (a, b) → matGet h'' (matCopy h m).2 a b = matGet h m a b)) ∧
    (matSet (matCopy h m).1 m i j v = .ok h'' →
      (∀ a b, matGet h'' (matCopy h m).2 a b = matGet h m a b) ∧
      matGet h'' m i j = .ok (if v.truthy then v else .mpf fzero)) := by
  obtain ⟨hr, hc, href, hlen, hd1, hd2⟩ := matCopy_facts h m hm
  have hne : m.ref ≠ (matCopy h m).2.ref := by omega
  have hm1 : m.ref < (matCopy h m).1.objs.length := by omega
  have hm2 : (matCopy h m).2.ref < (matCopy h m).1.objs.length := by omega
  constructor
  · intro hs
    refine ⟨fun a b => ?_, matSet_get_same _ _ _ _ _ _ hm2 hs, fun a b hab => ?_⟩
    · exact matGet_congr _ _ _ _ rfl rfl
        ((matSet_read_other _ _ _ _ _ _ _ hne hs).trans hd2) a b
    · rw [matSet_get_other _ _ _ _ _ _ _ _ hm2 hab hs]
      exact matGet_congr _ _ _ _ hr hc hd1 a b
  · intro hs
    refine ⟨fun a b => ?_, matSet_get_same _ _ _ _ _ _ hm1 hs⟩
    exact matGet_congr _ _ _ _ hr hc
      ((matSet_read_other _ _ _ _ _ _ _ (Ne.symm hne) hs).trans hd1) a b

/-- non-vacuity: a 2×2 matrix with two stored entries; the assignment to the copy succeeds. -/
example :
    let h : Heap := ⟨[[((0, 0), .mpf fone), ((1, 1), .mpc fone ftwo)]]⟩
    let m : Mat := ⟨2, 2, 0⟩
    m.ref < h.objs.length ∧
    (matSet (matCopy h m).1 (matCopy h m).2 0 1 (.mpf ften)).toOption.isSome = true ∧
    matGet h m 1 1 = .ok (.mpc fone ftwo) := by decide

/-- Control: the statement is about `dict.copy()`.  With the aliasing variant `new.__data = self.__data`
the original DOES change (so `matrix_copy_independent` is not a tautology of the model). -/
def matCopyAlias (h : Heap) (m : Mat) : Heap × Mat :=
  let (h, new) := matNew h m.rows m.cols
  (h, { new with ref := m.ref })

example :
    let h : Heap := ⟨[[((0, 0), .mpf fone)]]⟩
    let m : Mat := ⟨2, 2, 0⟩
    ∃ h'', matSet (matCopyAlias h m).1 (matCopyAlias h m).2 0 0 (.mpf ften) = .ok h'' ∧
      matGet h'' m 0 0 ≠ matGet h m 0 0 := by
  refine ⟨_, rfl, by decide⟩

end Mp
