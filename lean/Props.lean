import Props.C01
import Props.C02
import Props.C10
